/-
  The model's upper envelope equals the position-wise Spec used by the C17 oracle
  (`Spec.Cdf.upper`: largest non-NaN ordinate at positions ≤ i, NaN stays NaN).
-/
import ScoresVerif.Lemmas.Cdf

namespace SV.Lemmas.CdfSpec
open SV SV.Model.Cdf SV.Lemmas.Cdf
open SV.Fl (fin nan)
open SV.Spec.Cdf (fins maxQ ofOpt upperAt)

def FN (x : Fl) : Prop := x = nan ∨ ∃ q, x = fin q

theorem fmax_FN {a b : Fl} (ha : FN a) (hb : FN b) : FN (Fl.fmax a b) := by
  rcases ha with rfl | ⟨p, rfl⟩ <;> rcases hb with rfl | ⟨q, rfl⟩
  · exact Or.inl (by simp)
  · exact Or.inr ⟨q, by simp⟩
  · exact Or.inr ⟨p, by simp⟩
  · exact Or.inr ⟨max p q, fmax_fin_fin p q⟩

theorem fmax_assoc {a b c : Fl} (ha : FN a) (hb : FN b) (hc : FN c) :
    Fl.fmax (Fl.fmax a b) c = Fl.fmax a (Fl.fmax b c) := by
  rcases ha with rfl | ⟨p, rfl⟩ <;> rcases hb with rfl | ⟨q, rfl⟩ <;> rcases hc with rfl | ⟨r, rfl⟩ <;>
    simp [fmax_fin_fin, max_assoc]

theorem fmax_fin_ofOpt_maxQ (q : Rat) (L : List Rat) : Fl.fmax (fin q) (ofOpt (maxQ L)) = ofOpt (maxQ (q :: L)) := by
  cases h : maxQ L with
  | none => simp [maxQ, h, ofOpt]
  | some m =>
    simp only [maxQ, h, ofOpt, fmax_fin_fin]
    congr 1
    by_cases hm : m ≤ q
    · simp [hm, max_eq_left hm]
    · simp [hm, max_eq_right (le_of_not_ge hm)]

theorem FN_ofOpt (o : Option Rat) : FN (ofOpt o) := by
  cases o with
  | none => exact Or.inl rfl
  | some q => exact Or.inr ⟨q, rfl⟩

theorem foldl_fmax (a : Fl) (ha : FN a) (L : List Fl) (h : NoInf L) :
    L.foldl Fl.fmax a = Fl.fmax a (ofOpt (maxQ (fins L))) := by
  induction L generalizing a with
  | nil => rcases ha with rfl | ⟨p, rfl⟩ <;> simp [fins, maxQ, ofOpt]
  | cons x t ih =>
    obtain ⟨hx, ht⟩ := h.cons
    rw [List.foldl_cons, ih (Fl.fmax a x) (fmax_FN ha hx) ht]
    rcases hx with rfl | ⟨q, rfl⟩
    · rcases ha with rfl | ⟨p, rfl⟩ <;> simp [fins]
    · rw [fmax_assoc ha (Or.inr ⟨q, rfl⟩) (FN_ofOpt _), fmax_fin_ofOpt_maxQ]
      simp [fins]

theorem accFmax_getElem? (a : Fl) (xs : List Fl) (i : Nat) (hi : i < xs.length) :
    (accFmax a xs)[i]? = some ((xs.take (i + 1)).foldl Fl.fmax a) := by
  induction xs generalizing a i with
  | nil => simp at hi
  | cons x xs ih =>
    cases i with
    | zero => simp [accFmax]
    | succ i =>
      simp only [List.length_cons, Nat.add_lt_add_iff_right] at hi
      simp [accFmax, ih (Fl.fmax a x) i hi]

theorem noInf_take {xs : List Fl} (h : NoInf xs) (n : Nat) : NoInf (xs.take n) :=
  fun x hx => h x (List.mem_of_mem_take hx)

/-- **upper envelope = position-wise prefix maximum of the non-NaN ordinates, NaN stays NaN** (the oracle's Spec) -/
theorem upperRow_eq_spec (xs : List Fl) (h : NoInf xs) : upperRow xs = SV.Spec.Cdf.upper xs := by
  apply List.ext_getElem?
  intro i
  by_cases hi : i < xs.length
  · have h1 : (accFmax nan xs)[i]? = some ((xs.take (i + 1)).foldl Fl.fmax nan) := accFmax_getElem? nan xs i hi
    have h2 : xs[i]? = some xs[i] := List.getElem?_eq_getElem hi
    have h3 : xs.getD i nan = xs[i] := by simp [List.getD, h2]
    simp only [upperRow, maskLike, runFmax, SV.Spec.Cdf.upper, List.getElem?_zipWith, h1, h2, List.getElem?_map,
      List.getElem?_range hi, Option.map_some, upperAt, h3]
    rw [foldl_fmax nan (Or.inl rfl) _ (noInf_take h _)]
    simp
  · have hn : xs.length ≤ i := not_lt.mp hi
    simp [upperRow, maskLike, runFmax, SV.Spec.Cdf.upper, List.getElem?_zipWith, List.getElem?_eq_none hn, hn]

end SV.Lemmas.CdfSpec
