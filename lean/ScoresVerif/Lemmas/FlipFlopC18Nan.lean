/-
  C18 — NaN / infinity propagation through the model of `_encompassing_sector_size_np` with `skipna=False`:
  as soon as one input is NaN or infinite, `sectorNp false` returns NaN.

  Route: `% 360` maps every non-finite value to NaN and the sort is a permutation, so the sorted column contains a NaN;
  then the folded differences contain a NaN (at the index of that NaN), `argmax` returns an index whose difference is NaN,
  at such an index `data[k] − rolled[k]` is NaN, hence `second = (rolled[k] − data[k]) % 360` is NaN, the comparison
  `maxRot == second` is false, `360 − second` is NaN; and `max(diffs)` is NaN as well, so both branches of
  `n_unique <= 2` give NaN.  Neither sortedness nor the exact position of the argmax is needed.
-/
import ScoresVerif.Lemmas.FlipFlopC18Model

namespace SV.Model.FlipFlop
open SV SV.Fl

/-! ### the sort is a permutation (membership only) -/

theorem mem_insertSorted (x a : Fl) : ∀ l : List Fl, x ∈ insertSorted a l ↔ x = a ∨ x ∈ l
  | [] => by simp [insertSorted]
  | b :: t => by
    have ih := mem_insertSorted x a t
    simp only [insertSorted]
    split_ifs
    · simp
    · simp only [List.mem_cons, ih]; tauto

theorem mem_sortFl (x : Fl) : ∀ l : List Fl, x ∈ sortFl l ↔ x ∈ l
  | [] => by simp [sortFl]
  | a :: t => by simp [sortFl, mem_insertSorted, mem_sortFl x t]

theorem mod_of_not_finite (x : Fl) (m : Rat) (h : x.isFinite = false) : Fl.mod x m = nan := by
  cases x <;> simp_all [Fl.mod, Fl.isFinite]

/-- after `% 360` and the sort, a non-finite input has become a NaN in the column -/
theorem nan_mem_sorted (xs : List Fl) (h : ∃ x ∈ xs, x.isFinite = false) :
    nan ∈ sortFl (xs.map fun v => Fl.mod v 360) := by
  obtain ⟨x, hx, hf⟩ := h
  rw [mem_sortFl]
  exact List.mem_map.mpr ⟨x, hx, mod_of_not_finite x 360 hf⟩

/-! ### folded differences and NaN -/

theorem foldDiff_nan : foldDiff nan = nan := by
  simp [foldDiff, c180]

theorem foldDiff_eq_nan {d : Fl} (h : foldDiff d = nan) : d = nan := by
  cases d with
  | fin q => rw [foldDiff_fin] at h; exact Fl.noConfusion h
  | pinf => exact absurd h (by decide +kernel)
  | ninf => exact absurd h (by decide +kernel)
  | nan => rfl

theorem abs_eq_nan {d : Fl} (h : Fl.abs d = nan) : d = nan := by
  cases d <;> simp_all [Fl.abs]

theorem sub_eq_nan_symm {a b : Fl} (h : Fl.sub a b = nan) : Fl.sub b a = nan := by
  cases a <;> cases b <;> simp_all [Fl.sub, Fl.neg, Fl.add]

theorem mod_nan (m : Rat) : Fl.mod nan m = nan := rfl

/-- where the folded difference is NaN, the rotated value `(rolled − first) % 360` is NaN -/
theorem second_nan_of_diff_nan (a b : Fl) (h : foldDiff (Fl.abs (Fl.sub a b)) = nan) :
    Fl.mod (Fl.sub b a) 360 = nan := by
  rw [sub_eq_nan_symm (abs_eq_nan (foldDiff_eq_nan h))]; rfl

/-! ### `argmax` returns an index holding a NaN whenever there is one -/

theorem argmaxFrom_nan (L : List Fl) : ∀ (t : List Fl) (i best : Nat) (bv : Fl),
    (∀ j, L[i + j]? = t[j]?) → L[best]? = some bv → (nan ∈ t ∨ bv = nan) →
    L.getD (argmaxFrom t i best bv) nan = nan
  | [], i, best, bv, _, hb, hn => by
    have : bv = nan := by simpa using hn
    subst this
    simp [argmaxFrom, List.getD_eq_getElem?_getD, hb]
  | d :: t, i, best, bv, hL, hb, hn => by
    unfold argmaxFrom
    have hi : L[i]? = some d := by simpa using hL 0
    have hL' : ∀ j, L[i + 1 + j]? = t[j]? := by
      intro j
      have := hL (j + 1)
      rw [show i + 1 + j = i + (j + 1) by omega, this]; simp
    split_ifs with h1 h2 h3
    · rw [isNan_iff] at h1; subst h1
      simp [List.getD_eq_getElem?_getD, hb]
    · rw [isNan_iff] at h2; subst h2
      simp [List.getD_eq_getElem?_getD, hi]
    · have hbv : bv ≠ nan := fun e => h1 ((isNan_iff _).mpr e)
      have hd : d ≠ nan := fun e => h2 ((isNan_iff _).mpr e)
      refine argmaxFrom_nan L t (i + 1) i d hL' hi (Or.inl ?_)
      rcases hn with hn | hn
      · rcases List.mem_cons.mp hn with e | e
        · exact absurd e.symm hd
        · exact e
      · exact absurd hn hbv
    · have hbv : bv ≠ nan := fun e => h1 ((isNan_iff _).mpr e)
      have hd : d ≠ nan := fun e => h2 ((isNan_iff _).mpr e)
      refine argmaxFrom_nan L t (i + 1) best bv hL' hb (Or.inl ?_)
      rcases hn with hn | hn
      · rcases List.mem_cons.mp hn with e | e
        · exact absurd e.symm hd
        · exact e
      · exact absurd hn hbv

theorem argmax_nan (L : List Fl) (h : nan ∈ L) : L.getD (argmax L) nan = nan := by
  cases L with
  | nil => simp at h
  | cons d t =>
    unfold argmax
    refine argmaxFrom_nan (d :: t) t 1 0 d ?_ rfl ?_
    · intro j; rw [Nat.add_comm 1 j]; simp
    · rcases List.mem_cons.mp h with e | e
      · exact Or.inr e.symm
      · exact Or.inl e

/-! ### the differences contain a NaN -/

theorem length_rollBack (l : List Fl) : (rollBack l).length = l.length := by
  cases l <;> simp [rollBack]

theorem nan_mem_diffs (data : List Fl) (h : nan ∈ data) :
    nan ∈ (List.zipWith (fun a b => Fl.abs (Fl.sub a b)) data (rollBack data)).map foldDiff := by
  obtain ⟨j, hj, hjn⟩ := List.mem_iff_getElem.mp h
  refine List.mem_iff_getElem.mpr ⟨j, by simp [length_rollBack, hj], ?_⟩
  simp [hjn, foldDiff_nan]

/-! ### assembly -/

/-- at an index whose folded difference is NaN (or outside the column) the rotated entry is NaN -/
theorem rotated_getD_nan (data rolled : List Fl) (k : Nat)
    (h : ((List.zipWith (fun a b => Fl.abs (Fl.sub a b)) data rolled).map foldDiff).getD k nan = nan) :
    (rolled.map fun v => Fl.mod (Fl.sub v (data.getD k nan)) 360).getD k nan = nan := by
  simp only [List.getD_eq_getElem?_getD, List.getElem?_map, List.getElem?_zipWith] at h ⊢
  cases hb : rolled[k]? with
  | none => simp
  | some b =>
    cases ha : data[k]? with
    | none => simp [mod_nan]
    | some a =>
      rw [ha, hb] at h
      simpa using second_nan_of_diff_nan a b (by simpa using h)

theorem sectorPost_nan (data : List Fl) (h : nan ∈ data) : sectorPost data = nan := by
  have hd := nan_mem_diffs data h
  have hk := argmax_nan _ hd
  have hs := rotated_getD_nan data (rollBack data) _ hk
  have hm := maxStrict_of_mem_nan _ hd
  unfold sectorPost
  simp only [hs, hm, beq_nan_right, Bool.false_eq_true, sub_nan_right, ite_self]

/-- NaN / infinity propagation: with `skipna=False` the sector routine returns NaN as soon as one input is not finite -/
theorem sectorNp_false_nan (xs : List Fl) (h : ∃ x ∈ xs, x.isFinite = false) : sectorNp false xs = Fl.nan := by
  rw [sectorNp_false_eq]
  exact sectorPost_nan _ (nan_mem_sorted xs h)

/-- concrete non-trivial instances of the hypothesis, and the value the model takes on them -/
example : (∃ x ∈ [fin 10, nan, fin 350], x.isFinite = false) ∧ sectorNp false [fin 10, nan, fin 350] = nan :=
  ⟨⟨nan, by simp, rfl⟩, by decide +kernel⟩

example : (∃ x ∈ [fin 10, fin 200, pinf, fin 350], x.isFinite = false) ∧
    sectorNp false [fin 10, fin 200, pinf, fin 350] = nan :=
  ⟨⟨pinf, by simp, rfl⟩, by decide +kernel⟩

end SV.Model.FlipFlop
