/-
  C18 — the rational mirror of `sectorNp false` after its `% 360` and sort: the same pipeline (roll, folded absolute
  differences, argmax index k, rotation by the first bounding angle, `n_unique ≤ 2` branch) on `List Rat`.
  `Lemmas/FlipFlopC18Model.lean` proves that the model equals `fin (sectorQ d k)`; `Lemmas/FlipFlopC18Core.lean`
  proves `sectorQ d k = sector d`.
-/
import ScoresVerif.Lemmas.FlipFlopC18Base
import Mathlib.Data.List.Sort
import Mathlib.Data.List.Rotate

namespace SV.Spec.FlipFlop
open SV

/-- `np.where(d > 180, 360 - d, d)` -/
def foldQ (x : Rat) : Rat := if 180 < x then 360 - x else x

/-- folded absolute differences between each angle and its successor in the rolled copy -/
def diffsQ (d : List Rat) : List Rat := List.zipWith (fun a b => foldQ |a - b|) d (d.rotate 1)

/-- the rolled copy rotated by the angle at index k, `% 360` -/
def rotatedQ (d : List Rat) (k : Nat) : List Rat := (d.rotate 1).map fun v => rmod (v - d.getD k 0) 360

/-- the value `_encompassing_sector_size_np` returns on the sorted residues d when its argmax is k -/
def sectorQ (d : List Rat) (k : Nat) : Rat :=
  let second := (rotatedQ d k).getD k 0
  let result := if maxL (rotatedQ d k) = second then second else 360 - second
  if ((diffsQ d).filter fun x => decide (x ≠ 0)).length ≤ 2 then maxL (diffsQ d) else result

/-- the sorted residues the model works on -/
def sortedResidues (xs : List Rat) : List Rat := (xs.map fun v => rmod v 360).insertionSort (· ≤ ·)

end SV.Spec.FlipFlop
