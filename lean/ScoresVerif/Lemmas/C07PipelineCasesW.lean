/-
  C07 stretch, seventh part: independence of the cases WITH a threshold weight.  A weight filled "forward" or "step" is a
  right-continuous step function of the threshold whose jumps are the weight's own thresholds; these are points of every
  common grid, so the weight is constant on every cell and `exactRow_refine_fill` applies.
-/
import ScoresVerif.Lemmas.C07PipelineCases

namespace SV.Lemmas.C07Refine
open SV SV.Model.Cdf SV.Model.CrpsCdf SV.Lemmas.Cdf SV.Lemmas.CrpsCdf SV.Lemmas.C17Fill
open SV.Fl (fin nan)
open SV.Spec.Cdf (lastLE fillAt ofOpt)

/-- the weight as a function of the threshold: value of the last knot at or left of `t`; left of all knots 0 ("step") resp.
    the first knot's value ("forward") -/
def stepW (m : String) (ks : List (Rat × Rat)) (t : Rat) : Rat :=
  match lastLE ks t with
  | some a => a.2
  | none => if m = "step" then 0 else (ks.head?.map (·.2)).getD 0

theorem lastLE_of_mem (ks : List (Rat × Rat)) (hinc : IncrK ks) (k : Rat × Rat) (hk : k ∈ ks) : lastLE ks k.1 = some k := by
  obtain ⟨pre, post, rfl⟩ := List.append_of_mem hk
  have hp := List.pairwise_append.mp hinc
  have hpost : ∀ x ∈ post, k.1 < x.1 := fun x hx => (List.pairwise_cons.mp hp.2.1).1 x hx
  have hpre : ∀ x ∈ pre, x.1 < k.1 := fun x hx => hp.2.2 x hx k (by simp)
  have e : pre ++ k :: post = (pre ++ [k]) ++ post := by simp
  rw [e, lastLE_append_gt _ _ _ hpost, lastLE_all_le]
  · simp
  · intro x hx
    rcases List.mem_append.mp hx with h | h
    · exact (hpre x h).le
    · simp only [List.mem_singleton] at h
      rw [h]

theorem stepW_const (m : String) (ks : List (Rat × Rat)) (a b : Rat) (hsep : ∀ k ∈ ks, k.1 ≤ a ∨ b ≤ k.1) :
    ConstOn (stepW m ks) a b := by
  intro t hat htb
  have : lastLE ks t = lastLE ks a := by
    unfold lastLE
    congr 1
    apply List.filter_congr
    intro k hk
    rcases hsep k hk with h | h
    · simp [h, h.trans hat]
    · have h1 : ¬ k.1 ≤ t := not_le.mpr (lt_of_lt_of_le htb h)
      have h2 : ¬ k.1 ≤ a := not_le.mpr (lt_of_le_of_lt hat (lt_of_lt_of_le htb h))
      simp [h1, h2]
  simp only [stepW, this]

/-- a full-length weight with at least two points, filled "forward" or "step" on ANY increasing grid containing its
    thresholds, is the sampled step function `stepW` -/
theorem wRow_eq_stepW (G wthr wq : List Rat) (m : String) (hm : m = "forward" ∨ m = "step") (hG : Incr G) (hw : Incr wthr)
    (hlen : wq.length = wthr.length) (h2 : 2 ≤ wthr.length) (hsub : ∀ t ∈ wthr, t ∈ G) :
    fillRow G (G.map (lookupAt wthr (wq.map fin))) m 2 = (G.map (stepW m (wthr.zip wq))).map fin := by
  have hx : NoInf (G.map (lookupAt wthr (wq.map fin))) := noInf_map_lookup G wthr wq
  have hl : G.length = (G.map (lookupAt wthr (wq.map fin))).length := by simp
  have hk : knots G (G.map (lookupAt wthr (wq.map fin))) = wthr.zip wq := knots_relay G wthr wq hG hw hlen hsub
  have hcount : (2 : Int) ≤ (count (G.map (lookupAt wthr (wq.map fin))) : Int) := by
    rw [← knots_length G _ hl hx, hk]
    simp only [List.length_zip, hlen, min_self]
    exact_mod_cast h2
  have hspec : fillRow G (G.map (lookupAt wthr (wq.map fin))) m 2 = SV.Spec.Cdf.fillRow G (G.map (lookupAt wthr (wq.map fin))) m 2 := by
    rcases hm with rfl | rfl
    · exact fillRow_forward_eq_spec _ _ _ hl hG hx
    · exact fillRow_step_eq_spec _ _ _ hl hG hx
  rw [hspec, specEnough _ _ _ _ hl hx hcount, hk, List.map_map, zip_map_self]
  apply List.map_congr_left
  intro t _
  simp only [Function.comp]
  have hinc := incrK_zip wthr wq hw
  rcases lookupAt_cases wthr wq t with h | ⟨v, h, hmem⟩
  · rw [h]
    simp only [Fl.isNan, if_true, fillAt, stepW]
    have hne : wthr.zip wq ≠ [] := by
      intro e
      have : (wthr.zip wq).length = 0 := by rw [e]; rfl
      simp only [List.length_zip, hlen, min_self] at this
      omega
    obtain ⟨k0, krest, hk0⟩ := List.exists_cons_of_ne_nil hne
    rcases hm with rfl | rfl
    · have e1 : ¬ ("forward" = "linear") := by decide
      have e2 : ¬ ("forward" = "step") := by decide
      simp only [e1, e2, if_false, if_true]
      cases lastLE (wthr.zip wq) t with
      | some a => rfl
      | none => simp [hk0, ofOpt]
    · have e1 : ¬ ("step" = "linear") := by decide
      simp only [e1, if_false, if_true]
      cases lastLE (wthr.zip wq) t <;> rfl
  · rw [h]
    have := lastLE_of_mem _ hinc (t, v) hmem
    simp only at this
    simp [Fl.isNan, stepW, this]

/-! ### the row of a case does not depend on the other observations (general weight function) -/

theorem row_independent_gen (fthr : List Rat) (wthr : Option (List Rat)) (cs : List Case) (additional : List Fl) (cfg : Cfg)
    (hfill : cfg.fillF = "linear") (hinteg : cfg.integ = "exact") (hf : Incr fthr) (h2 : 2 ≤ fthr.length)
    (fq : List Rat) (obs : Rat) (wq : List Rat) (hc : (fq, fin obs, wq) ∈ cs) (hlen : fq.length = fthr.length) (hu : UnitQ fq)
    (W : Rat → Rat)
    (hWrow : ∀ G, Incr G → (∀ t ∈ wthr.getD [], t ∈ G) → wRow G wthr cfg.fillW (fq, fin obs, wq) = (G.map W).map fin)
    (hWconst : ∀ a b, (∀ t ∈ wthr.getD [], t ≤ a ∨ b ≤ t) → ConstOn W a b)
    (hspan : ∀ m ∈ finVals (cs.map Case.O), m ≠ obs → InSpan fthr m) :
    rowOf cfg (gridAll (wthr.getD []) fthr (cs.map Case.O) additional)
        (fRow (gridAll (wthr.getD []) fthr (cs.map Case.O) additional) fthr cfg.fillF (fq, fin obs, wq))
        (observedRow (gridAll (wthr.getD []) fthr (cs.map Case.O) additional) (fin obs))
        (wRow (gridAll (wthr.getD []) fthr (cs.map Case.O) additional) wthr cfg.fillW (fq, fin obs, wq))
      = rowOf cfg (gridAll (wthr.getD []) fthr [fin obs] additional)
        (fRow (gridAll (wthr.getD []) fthr [fin obs] additional) fthr cfg.fillF (fq, fin obs, wq))
        (observedRow (gridAll (wthr.getD []) fthr [fin obs] additional) (fin obs))
        (wRow (gridAll (wthr.getD []) fthr [fin obs] additional) wthr cfg.fillW (fq, fin obs, wq)) := by
  have hG0 : Incr (gridAll (wthr.getD []) fthr [fin obs] additional) := incr_sortU _
  have hobs0 : obs ∈ gridAll (wthr.getD []) fthr [fin obs] additional :=
    mem_gridAll.mpr (Or.inr (Or.inr (Or.inl (by simp [finVals]))))
  have hsub0 : ∀ t ∈ fthr, t ∈ gridAll (wthr.getD []) fthr [fin obs] additional := fun t ht =>
    mem_gridAll.mpr (Or.inr (Or.inl ht))
  have hsubw0 : ∀ t ∈ wthr.getD [], t ∈ gridAll (wthr.getD []) fthr [fin obs] additional := fun t ht =>
    mem_gridAll.mpr (Or.inl ht)
  have hobsmem : obs ∈ finVals (cs.map Case.O) := (mem_finVals_iff _ _).mpr (List.mem_map.mpr ⟨_, hc, rfl⟩)
  have hgrid : gridAll (wthr.getD []) fthr (cs.map Case.O) additional
      = ((finVals (cs.map Case.O)).filter (fun m => decide (m ≠ obs))).foldr insertU (gridAll (wthr.getD []) fthr [fin obs] additional) := by
    refine incr_ext _ _ (incr_sortU _) (incr_foldr_insertU _ _ hG0) (fun x => ?_)
    rw [mem_gridAll, mem_foldr_insertU_iff, mem_gridAll]
    simp only [List.mem_filter, decide_eq_true_eq, finVals, List.mem_singleton]
    constructor
    · rintro (h | h | h | h)
      · exact Or.inr (Or.inl h)
      · exact Or.inr (Or.inr (Or.inl h))
      · by_cases e : x = obs
        · exact Or.inr (Or.inr (Or.inr (Or.inl e)))
        · exact Or.inl ⟨h, e⟩
      · exact Or.inr (Or.inr (Or.inr (Or.inr h)))
    · rintro (⟨h, _⟩ | h | h | h | h)
      · exact Or.inr (Or.inr (Or.inl h))
      · exact Or.inl h
      · exact Or.inr (Or.inl h)
      · exact Or.inr (Or.inr (Or.inl (h ▸ hobsmem)))
      · exact Or.inr (Or.inr (Or.inr h))
  have hms : ∀ m ∈ (finVals (cs.map Case.O)).filter (fun m => decide (m ≠ obs)), InSpan fthr m := by
    intro m hm
    obtain ⟨h1, h2⟩ := List.mem_filter.mp hm
    exact hspan m h1 (by simpa using h2)
  have hGall : Incr (gridAll (wthr.getD []) fthr (cs.map Case.O) additional) := incr_sortU _
  have hsubwA : ∀ t ∈ wthr.getD [], t ∈ gridAll (wthr.getD []) fthr (cs.map Case.O) additional := fun t ht =>
    mem_gridAll.mpr (Or.inl ht)
  rw [hWrow _ hGall hsubwA, hWrow _ hG0 hsubw0, hgrid]
  generalize (finVals (cs.map Case.O)).filter (fun m => decide (m ≠ obs)) = ms at hms
  generalize gridAll (wthr.getD []) fthr [fin obs] additional = G at hG0 hobs0 hsub0 hsubw0
  cases G with
  | nil => simp at hobs0
  | cons p rest =>
    have hW : OnCells (fun a b => ∀ m ∈ ms, a < m → m < b → ConstOn W a b) (p :: rest) :=
      onCells_mono (fun a b hsep m _ _ _ => hWconst a b (fun t ht => hsep t (hsubw0 t ht))) _ (cells_sep _ hG0)
    have := exactRow_refine_fill obs fthr fq W p rest ms hG0 (noStraddle_of_mem hG0 hobs0) hf hlen h2 hu hsub0 hms hW
    simp only [rowOf, hinteg, if_true, fRow, hfill, Case.F]
    rw [this]

/-- **independence of the cases with a threshold weight** (linear forecast fill, exact integration, weight on its own
    thresholds filled "forward" or "step"): if the observation values of the other cases that differ from a case's own lie
    within the span of the forecast thresholds, every case gets the value it would get alone -/
theorem crpsCdf_cases_independent_weighted (fthr wthr : List Rat) (cs : List Case) (additional : List Fl) (cfg : Cfg)
    (hfill : cfg.fillF = "linear") (hfillW : cfg.fillW = "forward" ∨ cfg.fillW = "step") (hinteg : cfg.integ = "exact")
    (hf : Incr fthr) (h2 : 2 ≤ fthr.length) (hw : Incr wthr) (hw2 : 2 ≤ wthr.length)
    (hlen : ∀ c ∈ cs, c.1.length = fthr.length) (hlenw : ∀ c ∈ cs, c.2.2.length = wthr.length)
    (huf : ∀ c ∈ cs, UnitQ c.1) (huw : ∀ c ∈ cs, UnitQ c.2.2)
    (ho : ∀ c ∈ cs, c.O = nan ∨ ∃ q, c.O = fin q)
    (hspan : ∀ c ∈ cs, ∀ m ∈ finVals (cs.map Case.O), fin m ≠ c.O → InSpan fthr m) :
    crpsCdf fthr (cs.map Case.F) (cs.map Case.O) (mkWeight (some wthr) cs) additional cfg =
      .ok (cs.map (caseSpec fthr (some wthr) [] additional cfg)) := by
  have hfm : cfg.fillF ∈ fillMethods := by rw [hfill]; simp [fillMethods]
  have hfmW : cfg.fillW ∈ fillMethods := by rcases hfillW with h | h <;> rw [h] <;> simp [fillMethods]
  have hi : cfg.integ = "exact" ∨ cfg.integ = "trapz" := Or.inl hinteg
  have hclosed := crpsCdf_cases_closed fthr (some wthr) cs additional cfg hfm hfmW hi hf h2
    (by intro t ht; cases ht; exact hw) huf huw
  rw [hclosed]
  congr 1
  apply List.map_congr_left
  intro c hc
  obtain ⟨fq, o, wq⟩ := c
  simp only [Option.getD_some]
  have hspec : ∀ G : List Rat, Incr G → G ≠ [] →
      (∀ x, x ∈ G ↔ x ∈ (some wthr).getD [] ∨ x ∈ fthr ∨ x ∈ obsQ o ∨ x ∈ ([] : List Rat) ∨ x ∈ finVals additional) →
      rowOf cfg G (fRow G fthr cfg.fillF (fq, o, wq)) (observedRow G o) (wRow G (some wthr) cfg.fillW (fq, o, wq))
        = caseSpec fthr (some wthr) [] additional cfg (fq, o, wq) := fun G hG hGne hmem =>
    row_eq_caseSpec fthr (some wthr) [] additional cfg (fq, o, wq) G hG hGne hmem hfm hfmW hi (huf _ hc) (huw _ hc) (ho _ hc)
  rcases ho _ hc with h | ⟨q, h⟩
  · simp only [Case.O] at h
    subst h
    have hr : ∀ G : List Rat, Incr G → G ≠ [] →
        rowOf cfg G (fRow G fthr cfg.fillF (fq, nan, wq)) (observedRow G nan) (wRow G (some wthr) cfg.fillW (fq, nan, wq)) = ofSpec none := by
      intro G hG hGne
      rw [rowOf_eq_spec cfg hi G hG hGne _ _ (fRow_unit G fthr _ _ (huf _ hc)) (wRow_unit G (some wthr) _ _ (huw _ hc))
        (fRow_length _ _ _ _) (wRow_length _ _ _ _) nan (Or.inl rfl)]
      simp [specRow]
    have hne0 := gridAll_ne_nil wthr fthr [] additional h2
    exact (hr (gridAll wthr fthr (cs.map Case.O) additional) (incr_sortU _) (gridAll_ne_nil _ _ _ _ h2)).trans
      ((hr (gridAll wthr fthr [] additional) (incr_sortU _) hne0).symm.trans
        (hspec _ (incr_sortU _) hne0 (fun x => by rw [mem_gridAll]; simp [obsQ, finVals])))
  · simp only [Case.O] at h
    subst h
    have hri := row_independent_gen fthr (some wthr) cs additional cfg hfill hinteg hf h2 fq q wq hc (hlen _ hc) (huf _ hc)
      (stepW cfg.fillW (wthr.zip wq))
      (fun G hG hsub => wRow_eq_stepW G wthr wq cfg.fillW hfillW hG hw (hlenw _ hc) hw2 hsub)
      (fun a b hsep => stepW_const _ _ a b (fun k hk => hsep k.1 (List.of_mem_zip hk).1))
      (fun m hm hmq => hspan _ hc m hm (by simpa [Case.O] using hmq))
    simp only [Option.getD_some] at hri
    exact hri.trans (hspec (gridAll wthr fthr [fin q] additional) (incr_sortU _) (gridAll_ne_nil _ _ _ _ h2)
      (fun x => by rw [mem_gridAll]; simp [obsQ, finVals]))

end SV.Lemmas.C07Refine
