/-
  C18 — proportion exceeding with the open-ended bounds −∞ / +∞ as thresholds (model `proportionExceeding` vs
  `Spec.proportionExt`).
-/
import ScoresVerif.Lemmas.FlipFlop
import ScoresVerif.Spec.FlipFlopC18Inf

namespace SV.Model.FlipFlop
open SV SV.Fl
open SV.Spec.FlipFlop (Thr proportionExt)

/-- the `Fl` value of a threshold in the extended rationals -/
def thrFl : Thr → Fl
  | Thr.fin q => fin q
  | Thr.ninf => Fl.ninf
  | Thr.pinf => Fl.pinf

theorem exceedFlag_thr (q : Rat) (t : Thr) : exceedFlag (fin q) (thrFl t) = fin (if t.le q then 1 else 0) := by
  cases t with
  | fin t =>
    simp only [thrFl, exceedFlag, isNan_fin, Bool.or_self, Bool.false_eq_true, if_false, Fl.ofBool, ge_fin, Thr.le]
    by_cases h : t ≤ q <;> simp [h]
  | ninf => rfl
  | pinf => rfl

theorem exceedFlag_nan_left (t : Fl) : exceedFlag Fl.nan t = Fl.nan := by
  simp [exceedFlag, Fl.isNan]

theorem valid_flags_thr (t : Thr) : ∀ vs : List (Option Rat),
    valid ((vs.map optFl).map fun v => exceedFlag v (thrFl t))
      = ((vs.filterMap id).map fun q => if t.le q then (1 : Rat) else 0).map fin
  | [] => rfl
  | none :: vs => by
    have ih := valid_flags_thr t vs
    simp only [List.map_cons, optFl, exceedFlag_nan_left, valid, List.filterMap_cons, id] at ih ⊢
    simpa [List.filter_cons] using ih
  | some q :: vs => by
    have ih := valid_flags_thr t vs
    simp only [List.map_cons, optFl, valid, List.filterMap_cons, id] at ih ⊢
    rw [exceedFlag_thr, List.filter_cons]
    simp only [notNan_fin, if_true]
    rw [ih]

theorem sum_indicator_thr (t : Thr) : ∀ qs : List Rat,
    (qs.map fun q => if t.le q then (1 : Rat) else 0).sum = ((qs.filter fun q => t.le q).length : Rat)
  | [] => by simp
  | q :: qs => by
    rw [List.map_cons, List.sum_cons, sum_indicator_thr t qs, List.filter_cons]
    by_cases h : t.le q = true
    · simp [h]; ring
    · simp [h]

/-- proportion exceeding a threshold of the extended rationals = the fraction of the valid indices at or above it -/
theorem proportionExceeding_ext (vs : List (Option Rat)) (t : Thr) :
    proportionExceeding (vs.map optFl) (thrFl t) = optFl (proportionExt vs t) := by
  unfold proportionExceeding nanmean proportionExt
  simp only
  rw [valid_flags_thr]
  by_cases he : (vs.filterMap id).isEmpty
  · have : vs.filterMap id = [] := List.isEmpty_iff.mp he
    rw [this]; simp [optFl]
  · have hne : vs.filterMap id ≠ [] := fun h => he (List.isEmpty_iff.mpr h)
    have hlen : 0 < (vs.filterMap id).length := List.length_pos_of_ne_nil hne
    have hl0 : ((vs.filterMap id).length : Rat) ≠ 0 := by exact_mod_cast hlen.ne'
    simp only [List.isEmpty_iff, List.map_eq_nil_iff, hne, if_false, optFl, List.length_map, fsum, Fl.ofNat]
    have := foldl_add_fin ((vs.filterMap id).map fun q => if t.le q then (1 : Rat) else 0) 0
    rw [this, zero_add, sum_indicator_thr, div_fin _ _ hl0]

/-- every valid index is at or above −∞ -/
theorem proportionExt_ninf (vs : List (Option Rat)) (h : vs.filterMap id ≠ []) : proportionExt vs Thr.ninf = some 1 := by
  unfold proportionExt
  simp only []
  generalize vs.filterMap id = l at h
  cases l with
  | nil => exact absurd rfl h
  | cons a l =>
    have hf : (fun q : Rat => Thr.le Thr.ninf q) = fun _ => true := rfl
    have hl0 : (((a :: l).length : Nat) : Rat) ≠ 0 := by
      have : 0 < (a :: l).length := Nat.succ_pos _
      exact_mod_cast this.ne'
    rw [hf, List.filter_true]
    simp only [List.isEmpty_cons, Bool.false_eq_true, if_false]
    rw [div_self hl0]

/-- no valid index is at or above +∞ -/
theorem proportionExt_pinf (vs : List (Option Rat)) (h : vs.filterMap id ≠ []) : proportionExt vs Thr.pinf = some 0 := by
  unfold proportionExt
  simp only []
  generalize vs.filterMap id = l at h
  cases l with
  | nil => exact absurd rfl h
  | cons a l =>
    have hf : (fun q : Rat => Thr.le Thr.pinf q) = fun _ => false := rfl
    rw [hf, List.filter_false]
    simp only [List.isEmpty_cons, Bool.false_eq_true, if_false, List.length_nil, Nat.cast_zero, zero_div]

/-- without a valid index the proportion is missing, whatever the threshold -/
theorem proportionExt_none (vs : List (Option Rat)) (t : Thr) (h : vs.filterMap id = []) : proportionExt vs t = none := by
  unfold proportionExt
  simp only []
  rw [h]
  rfl

/-- for a rational threshold the extended definition is the original one -/
theorem proportionExt_fin (vs : List (Option Rat)) (t : Rat) :
    proportionExt vs (Thr.fin t) = SV.Spec.FlipFlop.proportion vs t := by
  unfold proportionExt SV.Spec.FlipFlop.proportion
  simp only [Thr.le]

end SV.Model.FlipFlop
