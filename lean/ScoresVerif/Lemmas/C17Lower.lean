/-
  C17 stretch: the model's lower envelope `1 − fmax.accumulate(1 − flip x)` equals the position-wise Spec
  (`Spec.Cdf.lower`: smallest non-NaN ordinate at positions ≥ i, NaN stays NaN).

  Route: `lowerRow xs = reverse (cpl (upperRow (cpl (reverse xs))))` (Lemmas/Cdf.lowerRow_eq), the upper
  envelope is the Spec's prefix maximum (Lemmas/CdfSpec.upperRow_eq_spec), and a prefix maximum of the
  reversed complemented row is the complemented suffix minimum (`maxQ`/`minQ` are characterised by
  "member and bound", so they do not depend on the order of the list).
-/
import ScoresVerif.Lemmas.CdfSpec

namespace SV.Lemmas.C17Lower
open SV SV.Model.Cdf SV.Lemmas.Cdf SV.Lemmas.CdfSpec
open SV.Fl (fin nan)
open SV.Spec.Cdf (fins maxQ minQ ofOpt upperAt lowerAt)

/-! ### `maxQ` / `minQ` by "member and bound" -/

theorem maxQ_eq_none {L : List Rat} : maxQ L = none ↔ L = [] := by
  cases L with
  | nil => simp [maxQ]
  | cons x xs => cases h : maxQ xs <;> simp [maxQ, h]

theorem minQ_eq_none {L : List Rat} : minQ L = none ↔ L = [] := by
  cases L with
  | nil => simp [minQ]
  | cons x xs => cases h : minQ xs <;> simp [minQ, h]

theorem maxQ_spec {L : List Rat} {m : Rat} (h : maxQ L = some m) : m ∈ L ∧ ∀ x ∈ L, x ≤ m := by
  induction L generalizing m with
  | nil => simp [maxQ] at h
  | cons x xs ih =>
    cases hx : maxQ xs with
    | none =>
      have : xs = [] := maxQ_eq_none.mp hx
      subst this
      simp only [maxQ, Option.some.injEq] at h
      subst h
      simp
    | some m' =>
      obtain ⟨hm, hb⟩ := ih hx
      simp only [maxQ, hx, Option.some.injEq] at h
      subst h
      by_cases hle : m' ≤ x
      · simp only [hle, if_true]
        exact ⟨by simp, fun y hy => by
          rcases List.mem_cons.mp hy with rfl | hy
          · exact le_rfl
          · exact (hb y hy).trans hle⟩
      · simp only [hle, if_false]
        exact ⟨List.mem_cons_of_mem _ hm, fun y hy => by
          rcases List.mem_cons.mp hy with rfl | hy
          · exact (not_le.mp hle).le
          · exact hb y hy⟩

theorem minQ_spec {L : List Rat} {m : Rat} (h : minQ L = some m) : m ∈ L ∧ ∀ x ∈ L, m ≤ x := by
  induction L generalizing m with
  | nil => simp [minQ] at h
  | cons x xs ih =>
    cases hx : minQ xs with
    | none =>
      have : xs = [] := minQ_eq_none.mp hx
      subst this
      simp only [minQ, Option.some.injEq] at h
      subst h
      simp
    | some m' =>
      obtain ⟨hm, hb⟩ := ih hx
      simp only [minQ, hx, Option.some.injEq] at h
      subst h
      by_cases hle : x ≤ m'
      · simp only [hle, if_true]
        exact ⟨by simp, fun y hy => by
          rcases List.mem_cons.mp hy with rfl | hy
          · exact le_rfl
          · exact hle.trans (hb y hy)⟩
      · simp only [hle, if_false]
        exact ⟨List.mem_cons_of_mem _ hm, fun y hy => by
          rcases List.mem_cons.mp hy with rfl | hy
          · exact (not_le.mp hle).le
          · exact hb y hy⟩

/-- a member that bounds the list from above IS `maxQ` -/
theorem maxQ_of_spec {L : List Rat} {m : Rat} (hm : m ∈ L) (hb : ∀ x ∈ L, x ≤ m) : maxQ L = some m := by
  cases h : maxQ L with
  | none => rw [maxQ_eq_none.mp h] at hm; simp at hm
  | some m' =>
    obtain ⟨hm', hb'⟩ := maxQ_spec h
    exact congrArg some (le_antisymm (hb m' hm') (hb' m hm))

/-- the maximum of the complemented list, in any order, is the complement of the minimum -/
theorem maxQ_reverse_cpl (L : List Rat) : maxQ (L.reverse.map (1 - ·)) = (minQ L).map (1 - ·) := by
  cases h : minQ L with
  | none => rw [minQ_eq_none.mp h]; rfl
  | some m =>
    obtain ⟨hm, hb⟩ := minQ_spec h
    refine maxQ_of_spec (List.mem_map.mpr ⟨m, List.mem_reverse.mpr hm, rfl⟩) ?_
    intro y hy
    obtain ⟨x, hx, rfl⟩ := List.mem_map.mp hy
    have := hb x (List.mem_reverse.mp hx)
    linarith

/-! ### `fins` (Spec) is `finVals` (Model) -/

theorem fins_eq_finVals (xs : List Fl) : fins xs = finVals xs := by
  induction xs with
  | nil => rfl
  | cons x xs ih => cases x <;> simp [fins, finVals, ih]

theorem cpl_ofOpt (o : Option Rat) : cpl (ofOpt (o.map (1 - ·))) = ofOpt o := by
  cases o with
  | none => rfl
  | some q => simp [ofOpt]

/-- **lower envelope = position-wise suffix minimum of the non-NaN ordinates, NaN stays NaN** -/
theorem lowerRow_eq_spec (xs : List Fl) (h : NoInf xs) : lowerRow xs = SV.Spec.Cdf.lower xs := by
  rw [lowerRow_eq, upperRow_eq_spec _ (noInf_reverse_cpl h)]
  apply List.ext_getElem?
  intro i
  by_cases hi : i < xs.length
  · have hj : xs.length - 1 - i < xs.length := by omega
    have e1 : xs.length - 1 - (xs.length - 1 - i) = i := by omega
    have h2 : xs[i]? = some xs[i] := List.getElem?_eq_getElem hi
    have h3 : xs.getD i nan = xs[i] := by simp [List.getD, h2]
    have hget : (xs.reverse.map cpl).getD (xs.length - 1 - i) nan = cpl xs[i] := by
      rw [List.getD, List.getElem?_map, List.getElem?_reverse hj, e1, h2]; rfl
    have htake : (xs.reverse.map cpl).take (xs.length - 1 - i + 1) = ((xs.drop i).reverse).map cpl := by
      rw [← List.map_take, List.reverse_drop]  -- (drop i xs).reverse = take (n - i) xs.reverse
      congr 2
      omega
    rw [List.getElem?_reverse (by simpa [SV.Spec.Cdf.upper] using hi)]
    simp only [SV.Spec.Cdf.upper, SV.Spec.Cdf.lower, List.length_map, List.length_range, List.length_reverse,
      List.getElem?_map, List.getElem?_range hj, List.getElem?_range hi, Option.map_some, upperAt, lowerAt,
      hget, htake, h3, cpl_isNan]
    split
    · rfl
    · rw [fins_eq_finVals, finVals_map_cpl, finVals_reverse, maxQ_reverse_cpl, cpl_ofOpt, fins_eq_finVals]
  · have hn : xs.length ≤ i := not_lt.mp hi
    simp [SV.Spec.Cdf.upper, SV.Spec.Cdf.lower, hn]

end SV.Lemmas.C17Lower
