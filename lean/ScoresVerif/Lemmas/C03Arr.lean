/-
  Helper lemmas for C03 on labelled arrays: a constant non-zero finite factor commutes with the NaN-skipping
  mean (for ALL `Fl` entries, incl. ±inf and NaN), and the fibre that the reduction of `p * w` (broadcast by
  name) reads is the pointwise product of the fibres.
-/
import ScoresVerif.Lemmas.C04Relayout
import ScoresVerif.Lemmas.FlBasic
import ScoresVerif.Lemmas.NanMean
import Mathlib.Tactic.Ring
import Mathlib.Tactic.FieldSimp
import Mathlib.Tactic.Linarith

namespace SV.C03Arr
open SV SV.Fl SV.Arr

/-! ### a constant non-zero factor and the NaN-skipping mean -/

theorem notNan_mul_fin (x : Fl) (c : Rat) (hc : c ≠ 0) : (Fl.mul x (fin c)).notNan = x.notNan := by
  cases x <;> simp [Fl.mul, hc, notNan, isNan] <;> split_ifs <;> rfl

theorem mul_add_fin (x y : Fl) (c : Rat) (hc : c ≠ 0) :
    Fl.mul (Fl.add x y) (fin c) = Fl.add (Fl.mul x (fin c)) (Fl.mul y (fin c)) := by
  rcases lt_or_gt_of_ne hc with h | h
  · cases x <;> cases y <;> simp [Fl.add, Fl.mul, hc, h, add_mul]
  · have h' : ¬ c < 0 := not_lt.mpr h.le
    cases x <;> cases y <;> simp [Fl.add, Fl.mul, hc, h', add_mul]

/-- scaling by a non-zero finite constant is associative with the `Fl` product (all values incl. ±inf, NaN) -/
theorem mul_mul_fin (a b : Fl) (c : Rat) (hc : c ≠ 0) :
    Fl.mul a (Fl.mul b (fin c)) = Fl.mul (Fl.mul a b) (fin c) := by
  rcases lt_or_gt_of_ne hc with h | h
  · have h' : ¬ (0 ≤ c) := not_le.mpr h
    cases a <;> cases b <;> simp [Fl.mul, hc, h, mul_assoc] <;> split_ifs <;>
      first | rfl | (simp_all [mul_neg_iff]; done) | (exfalso; nlinarith) |
        (exfalso; simp only [not_lt, mul_nonneg_iff] at *; rename_i hq0 hqc hq;
         exact hq0 (le_antisymm (by rcases hqc with ⟨_, h2⟩ | ⟨h1, _⟩ <;> linarith) hq))
  · have h' : ¬ (c < 0) := not_lt.mpr h.le
    cases a <;> cases b <;> simp [Fl.mul, hc, h', mul_assoc] <;> split_ifs <;>
      first | rfl | simp_all [mul_neg_iff]

theorem valid_map_mul_fin (l : List Fl) (c : Rat) (hc : c ≠ 0) :
    valid (l.map fun x => Fl.mul x (fin c)) = (valid l).map fun x => Fl.mul x (fin c) := by
  unfold valid
  induction l with
  | nil => rfl
  | cons x l ih =>
    simp only [List.map_cons, List.filter_cons, notNan_mul_fin x c hc]
    split_ifs <;> simp [ih]

theorem foldl_add_map_mul_fin (l : List Fl) (a : Fl) (c : Rat) (hc : c ≠ 0) :
    (l.map fun x => Fl.mul x (fin c)).foldl Fl.add (Fl.mul a (fin c)) = Fl.mul (l.foldl Fl.add a) (fin c) := by
  induction l generalizing a with
  | nil => rfl
  | cons x l ih =>
    simp only [List.map_cons, List.foldl_cons]
    rw [← mul_add_fin a x c hc, ih]

theorem fsum_map_mul_fin (l : List Fl) (c : Rat) (hc : c ≠ 0) :
    fsum (l.map fun x => Fl.mul x (fin c)) = Fl.mul (fsum l) (fin c) := by
  unfold fsum
  rw [← foldl_add_map_mul_fin l (fin 0) c hc]
  simp

theorem div_mul_fin (s : Fl) (c : Rat) (hc : c ≠ 0) (n : Nat) (hn : n ≠ 0) :
    Fl.div (Fl.mul s (fin c)) (Fl.ofNat n) = Fl.mul (Fl.div s (Fl.ofNat n)) (fin c) := by
  have hn' : (n : Rat) ≠ 0 := by exact_mod_cast hn
  have hpos : ¬ ((n : Rat) < 0) := not_lt.mpr (by exact_mod_cast Nat.zero_le n)
  unfold Fl.ofNat
  cases s with
  | fin a =>
    rw [mul_fin, div_fin _ _ hn', div_fin _ _ hn', mul_fin]
    congr 1
    field_simp
  | pinf =>
    rcases lt_or_gt_of_ne hc with h | h
    · simp [Fl.mul, Fl.div, hc, h, hpos]
    · simp [Fl.mul, Fl.div, hc, not_lt.mpr h.le, hpos]
  | ninf =>
    rcases lt_or_gt_of_ne hc with h | h
    · simp [Fl.mul, Fl.div, hc, h, hpos]
    · simp [Fl.mul, Fl.div, hc, not_lt.mpr h.le, hpos]
  | nan => simp

/-- a non-zero finite factor commutes with the NaN-skipping mean — for every list of `Fl` values -/
theorem nanmean_map_mul_fin (l : List Fl) (c : Rat) (hc : c ≠ 0) :
    nanmean (l.map fun x => Fl.mul x (fin c)) = Fl.mul (nanmean l) (fin c) := by
  unfold nanmean
  simp only [valid_map_mul_fin l c hc]
  by_cases h : valid l = []
  · simp [h]
  · have hl : (valid l).length ≠ 0 := by simpa [List.length_eq_zero_iff] using h
    simp only [List.isEmpty_iff, List.map_eq_nil_iff, h, if_false, List.length_map]
    rw [fsum_map_mul_fin _ c hc, div_mul_fin _ c hc _ hl]

/-- a NaN factor: nothing is left -/
theorem nanmean_map_mul_nan (l : List Fl) : nanmean (l.map fun x => Fl.mul x nan) = nan := by
  have : valid (l.map fun x => Fl.mul x nan) = [] := by
    unfold valid
    induction l with
    | nil => rfl
    | cons x l ih => simp
  unfold nanmean
  rw [this]
  rfl

/-! ### the fibre of `p * w` -/

/-- the composite assignment `restrict kept asg ++ r` built by a reduction is inside the array -/
theorem inRange_restrict_append {a : Arr} (h : WF a) (R : List String) (asg r : Asg)
    (hr : InRange (keptDims R a) (keptShape R a) asg)
    (hrm : r ∈ assignments (goneDims R a) (goneShape R a)) :
    InRange a.dims a.shape (restrict (keptDims R a) asg ++ r) := by
  have hgn : (goneDims R a).Nodup := (goneDims_sublist R a h).nodup h.nodup
  obtain ⟨_, hrin⟩ := of_mem_assignments _ _ r hgn (gone_len R a) hrm
  rw [inRange_split R a h]
  constructor
  · refine inRange_congr (fun d hd => ?_) hr
    rw [lookup_restrict_append_mem _ _ _ _ hd]
  · refine inRange_congr (fun d hd => ?_) hrin
    have : d ∉ keptDims R a := fun hk =>
      ((mem_keptDims h).mp hk).2 ((mem_goneDims h).mp hd).2
    rw [lookup_restrict_append_not_mem _ _ _ _ this]

theorem mem_zipWith_dims_left (f : Fl → Fl → Fl) (a b : Arr) {d : String} (hd : d ∈ a.dims) :
    d ∈ (zipWith f a b).dims := by
  rw [zipWith_dims]; simp [hd]

theorem mem_zipWith_dims_right (f : Fl → Fl → Fl) (a b : Arr) {d : String} (hd : d ∈ b.dims) :
    d ∈ (zipWith f a b).dims := by
  rw [zipWith_dims]
  by_cases hc : d ∈ a.dims
  · simp [hc]
  · simp [hd, hc]

/-- **weights of any dims**: the fibre the reduction reads from `p * w` is, entry by entry, the per-case value
    of `p` times the weight of `w` at the SAME label -/
theorem fibre_mul (p w : Arr) (hp : WF p) (hw : WF w) (R : List String) (asg : Asg)
    (hr : InRange (keptDims R (Arr.mul p w)) (keptShape R (Arr.mul p w)) asg) :
    fibre R (Arr.mul p w) asg =
      (assignments (goneDims R (Arr.mul p w)) (goneShape R (Arr.mul p w))).map fun r =>
        Fl.mul (p.get (restrict (keptDims R (Arr.mul p w)) asg ++ r))
               (w.get (restrict (keptDims R (Arr.mul p w)) asg ++ r)) := by
  have hm : WF (Arr.mul p w) := wf_zipWith Fl.mul hp hw
  unfold fibre
  apply List.map_congr_left
  intro r hrm
  exact zipWith_get Fl.mul p w _ (inRange_restrict_append hm R asg r hr hrm)

/-- the removed (dimension, size) pairs of `p * w` are those of `p` when `w` has no reduced dimension -/
theorem goneZip_mul (p w : Arr) (hp : WF p) (R : List String) (hR : ∀ d ∈ w.dims, d ∉ R) :
    ((Arr.mul p w).dims.zip (Arr.mul p w).shape).filter (fun q => R.contains q.1) =
      (p.dims.zip p.shape).filter (fun q => R.contains q.1) := by
  show ((zipWith Fl.mul p w).dims.zip (zipWith Fl.mul p w).shape).filter _ = _
  rw [zipWith_dims, zipWith_shape, List.zip_append hp.len, List.filter_append]
  have : (List.zip (List.filter (fun d => !p.dims.contains d) w.dims)
      (List.map w.sizeOf (List.filter (fun d => !p.dims.contains d) w.dims))).filter (fun q => R.contains q.1) = [] := by
    rw [List.filter_eq_nil_iff]
    intro q hq
    have h1 : q.1 ∈ w.dims := (List.mem_filter.mp (List.of_mem_zip hq).1).1
    simpa using hR q.1 h1
  rw [this, List.append_nil]

theorem goneDims_mul (p w : Arr) (hp : WF p) (R : List String) (hR : ∀ d ∈ w.dims, d ∉ R) :
    goneDims R (Arr.mul p w) = goneDims R p := by
  unfold goneDims; rw [goneZip_mul p w hp R hR]

theorem goneShape_mul (p w : Arr) (hp : WF p) (R : List String) (hR : ∀ d ∈ w.dims, d ∉ R) :
    goneShape R (Arr.mul p w) = goneShape R p := by
  unfold goneShape; rw [goneZip_mul p w hp R hR]

/-- a label of the result of `p * w` reduced over `R` is a label of `p` reduced over `R` -/
theorem inRange_kept_of_mul (p w : Arr) (hp : WF p) (hw : WF w) (R : List String) (asg : Asg)
    (hr : InRange (keptDims R (Arr.mul p w)) (keptShape R (Arr.mul p w)) asg) :
    InRange (keptDims R p) (keptShape R p) asg := by
  rw [inRange_iff, keptZip] at hr ⊢
  refine ⟨kept_len R p, fun q hq => hr.2 q ?_⟩
  obtain ⟨hq1, hq2⟩ := List.mem_filter.mp hq
  exact List.mem_filter.mpr ⟨(mem_zip_zipWith Fl.mul hp hw q).mpr (Or.inl hq1), hq2⟩

/-- **weights without a reduced dimension** (on a subset of the kept dims, or with extra dims of their own): the
    fibre of `p * w` over a label is the fibre of `p` times the ONE weight at that label -/
theorem fibre_mul_const (p w : Arr) (hp : WF p) (hw : WF w) (R : List String) (hR : ∀ d ∈ w.dims, d ∉ R)
    (asg : Asg) (hr : InRange (keptDims R (Arr.mul p w)) (keptShape R (Arr.mul p w)) asg) :
    fibre R (Arr.mul p w) asg = (fibre R p asg).map fun s => Fl.mul s (w.get asg) := by
  have hm : WF (Arr.mul p w) := wf_zipWith Fl.mul hp hw
  rw [fibre_mul p w hp hw R asg hr, goneDims_mul p w hp R hR, goneShape_mul p w hp R hR]
  unfold fibre
  rw [List.map_map]
  apply List.map_congr_left
  intro r _
  simp only [Function.comp]
  congr 1
  · -- the per-case value: same label of p
    unfold Arr.get
    rw [flatIndex_congr p.dims p.shape _ (restrict (keptDims R p) asg ++ r)]
    intro d hd
    by_cases hdR : d ∈ R
    · have h1 : d ∉ keptDims R (Arr.mul p w) := fun hk => ((mem_keptDims hm).mp hk).2 hdR
      have h2 : d ∉ keptDims R p := fun hk => ((mem_keptDims hp).mp hk).2 hdR
      rw [lookup_restrict_append_not_mem _ _ _ _ h1, lookup_restrict_append_not_mem _ _ _ _ h2]
    · have h1 : d ∈ keptDims R (Arr.mul p w) :=
        (mem_keptDims hm).mpr ⟨mem_zipWith_dims_left Fl.mul p w hd, hdR⟩
      have h2 : d ∈ keptDims R p := (mem_keptDims hp).mpr ⟨hd, hdR⟩
      rw [lookup_restrict_append_mem _ _ _ _ h1, lookup_restrict_append_mem _ _ _ _ h2]
  · -- the weight: all its dims are kept
    unfold Arr.get
    rw [flatIndex_congr w.dims w.shape _ asg]
    intro d hd
    have h1 : d ∈ keptDims R (Arr.mul p w) :=
      (mem_keptDims hm).mpr ⟨mem_zipWith_dims_right Fl.mul p w hd, hR d hd⟩
    rw [lookup_restrict_append_mem _ _ _ _ h1]

/-! ### finite-or-NaN values, and facts about `get` read off the stored data -/

/-- the value is not ±inf (finite or NaN) -/
def noInf : Fl → Bool
  | pinf => false
  | ninf => false
  | _ => true

/-- finite value as `some`, everything else as `none` -/
def toOpt : Fl → Option Rat
  | fin q => some q
  | _ => none

theorem ofOpt_toOpt (v : Fl) (h : noInf v = true) : ofOpt (toOpt v) = v := by
  cases v <;> simp_all [noInf, toOpt, ofOpt]

theorem toOpt_isSome (v : Fl) (h : noInf v = true) : (toOpt v).isSome = !v.isNan := by
  cases v <;> simp_all [noInf, toOpt, isNan]

/-- every value read from an array is a stored value or NaN -/
theorem get_noInf (a : Arr) (h : ∀ v ∈ a.data.toList, noInf v = true) (x : Asg) : noInf (a.get x) = true := by
  unfold Arr.get
  rw [Array.getD_eq_getD_getElem?]
  cases hv : a.data[flatIndex a.dims a.shape x]? with
  | none => rfl
  | some v =>
    simp only [Option.getD_some]
    exact h v (by simpa using Array.mem_of_getElem? hv)

/-- a relation between the values of three arrays of the same layout at every label follows from the relation
    between the stored entries position by position (and between the out-of-range NaNs) -/
theorem forall_get₃ (a b c : Arr) (hdb : b.dims = a.dims) (hsb : b.shape = a.shape)
    (hdc : c.dims = a.dims) (hsc : c.shape = a.shape) (P : Fl → Fl → Fl → Prop)
    (hin : ∀ i, i < max a.data.size (max b.data.size c.data.size) →
      P (a.data.getD i nan) (b.data.getD i nan) (c.data.getD i nan))
    (hout : P nan nan nan) : ∀ x, P (a.get x) (b.get x) (c.get x) := by
  intro x
  unfold Arr.get
  rw [hdb, hsb, hdc, hsc]
  generalize flatIndex a.dims a.shape x = i
  by_cases hi : i < max a.data.size (max b.data.size c.data.size)
  · exact hin i hi
  · have h1 : ¬ i < a.data.size := fun h => hi (by omega)
    have h2 : ¬ i < b.data.size := fun h => hi (by omega)
    have h3 : ¬ i < c.data.size := fun h => hi (by omega)
    simp only [Array.getD, h1, h2, h3, dif_neg, not_false_eq_true]
    exact hout

/-- weights of the same layout give the same layout of `p * w`, hence the same kept / reduced dims -/
theorem layout_mul_congr (p w w' : Arr) (hd : w'.dims = w.dims) (hs : w'.shape = w.shape) (R : List String) :
    keptDims R (Arr.mul p w') = keptDims R (Arr.mul p w) ∧ keptShape R (Arr.mul p w') = keptShape R (Arr.mul p w) ∧
    goneDims R (Arr.mul p w') = goneDims R (Arr.mul p w) ∧ goneShape R (Arr.mul p w') = goneShape R (Arr.mul p w) := by
  have hdm : (Arr.mul p w').dims = (Arr.mul p w).dims := by
    show (zipWith Fl.mul p w').dims = (zipWith Fl.mul p w).dims
    rw [zipWith_dims, zipWith_dims, hd]
  have hsz : w'.sizeOf = w.sizeOf := by
    funext d; unfold Arr.sizeOf; rw [hd, hs]
  have hsm : (Arr.mul p w').shape = (Arr.mul p w).shape := by
    show (zipWith Fl.mul p w').shape = (zipWith Fl.mul p w).shape
    rw [zipWith_shape, zipWith_shape, hd, hsz]
  refine ⟨?_, ?_, ?_, ?_⟩
  · unfold keptDims; rw [hdm, hsm]
  · unfold keptShape; rw [hdm, hsm]
  · unfold goneDims; rw [hdm, hsm]
  · unfold goneShape; rw [hdm, hsm]

/-! ### any finite factor (zero included) on finite-or-NaN entries -/

theorem present_map_map (f : Rat → Rat) (os : List (Option Rat)) :
    present (os.map (Option.map f)) = (present os).map f := by
  unfold present
  induction os with
  | nil => rfl
  | cons o os ih => cases o <;> simp_all

/-- on entries that are finite or NaN EVERY finite factor (zero included) commutes with the NaN-skipping mean -/
theorem nanmean_map_mul_fin_of_noInf (l : List Fl) (hl : ∀ x ∈ l, noInf x = true) (c : Rat) :
    nanmean (l.map fun x => Fl.mul x (fin c)) = Fl.mul (nanmean l) (fin c) := by
  have e1 : l = (l.map toOpt).map ofOpt := by
    rw [List.map_map]
    conv_lhs => rw [← List.map_id l]
    apply List.map_congr_left
    intro x hx
    simp only [id, Function.comp]
    exact (ofOpt_toOpt x (hl x hx)).symm
  have e2 : (l.map fun x => Fl.mul x (fin c)) = ((l.map toOpt).map (Option.map (· * c))).map ofOpt := by
    rw [List.map_map, List.map_map]
    apply List.map_congr_left
    intro x hx
    have := hl x hx
    cases x <;> simp [noInf, toOpt, ofOpt] at this ⊢
  rw [e2, nanmean_ofOpt, present_map_map]
  conv_rhs => rw [e1, nanmean_ofOpt]
  by_cases h : present (l.map toOpt) = []
  · simp [h]
  · simp only [List.map_eq_nil_iff, h, if_false, List.length_map, mul_fin]
    congr 1
    rw [List.sum_map_mul_right, List.map_id']
    ring

/-- a label of `p * w` is a label of `w` when the two agree on the sizes of shared dims -/
theorem inRange_right_of_mul (p w : Arr) (hp : WF p) (hw : WF w) (hc : Compat p w) (x : Asg)
    (hx : InRange (Arr.mul p w).dims (Arr.mul p w).shape x) : InRange w.dims w.shape x := by
  have hxz := ((inRange_iff _ _ x).mp hx).2
  rw [inRange_iff]
  refine ⟨hw.len, fun q hq => ?_⟩
  by_cases hqa : q.1 ∈ p.dims
  · obtain ⟨n, hn⟩ := mem_zip_of_mem_dims hp hqa
    have := hc q.1 n q.2 hn hq
    have h2 := hxz (q.1, n) ((mem_zip_zipWith Fl.mul hp hw _).mpr (Or.inl hn))
    simpa [this] using h2
  · exact hxz q ((mem_zip_zipWith Fl.mul hp hw q).mpr (Or.inr ⟨hq, hqa⟩))

/-- a fact about the value at every in-range label follows from the fact about the first `vol shape` stored entries -/
theorem forall_get_inRange (a : Arr) (P : Fl → Prop) (h : ∀ i, i < vol a.shape → P (a.data.getD i nan)) :
    ∀ x, InRange a.dims a.shape x → P (a.get x) := by
  intro x hx
  exact h _ (flatIndex_lt a.dims a.shape x hx)

end SV.C03Arr
