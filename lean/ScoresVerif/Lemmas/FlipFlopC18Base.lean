/-
  C18 — base lemmas for the sector theorems: `% 360` on rationals (uniqueness of the residue), the arc between two
  directions through their residues, and invariance of max / min / covering-arc sector under "same set of elements".
-/
import ScoresVerif.Lemmas.FlipFlop

namespace SV.Spec.FlipFlop
open SV
open SV.Model.FlipFlop (rmod_eq rmod360_nonneg rmod360_lt)

/-! ### `% 360` -/

/-- the residue mod 360 is the unique r ∈ [0,360) with x − r a multiple of 360 -/
theorem rmod360_unique (x r : Rat) (k : Int) (h0 : 0 ≤ r) (h1 : r < 360) (hx : x = r + 360 * k) : rmod x 360 = r := by
  have hf : ((x / 360).floor : Rat) = (⌊x / 360⌋ : Rat) := rfl
  have hk : ⌊x / 360⌋ = k := by
    rw [Int.floor_eq_iff]
    constructor
    · rw [le_div_iff₀ (by norm_num)]; linarith
    · rw [div_lt_iff₀ (by norm_num)]; linarith
  unfold rmod; rw [hf, hk, hx]; ring

theorem rmod360_decomp (x : Rat) : ∃ k : Int, x = rmod x 360 + 360 * k :=
  ⟨(x / 360).floor, by unfold rmod; ring⟩

theorem rmod360_of_mem (x : Rat) (h0 : 0 ≤ x) (h1 : x < 360) : rmod x 360 = x :=
  rmod360_unique x x 0 h0 h1 (by simp)

theorem rmod360_of_neg (x : Rat) (h0 : -360 ≤ x) (h1 : x < 0) : rmod x 360 = x + 360 :=
  rmod360_unique x (x + 360) (-1) (by linarith) (by linarith) (by push_cast; ring)

theorem rmod360_zero : rmod 0 360 = 0 := rmod360_of_mem 0 le_rfl (by norm_num)

theorem rmod360_idem (x : Rat) : rmod (rmod x 360) 360 = rmod x 360 :=
  rmod360_of_mem _ (rmod360_nonneg x) (rmod360_lt x)

theorem rmod360_add_mul (x : Rat) (k : Int) : rmod (x + 360 * k) 360 = rmod x 360 := by
  obtain ⟨j, hj⟩ := rmod360_decomp x
  exact rmod360_unique _ _ (j + k) (rmod360_nonneg x) (rmod360_lt x) (by push_cast; linarith)

/-! ### arcs -/

theorem arc_nonneg (a b : Rat) : 0 ≤ arc a b := rmod360_nonneg _
theorem arc_lt (a b : Rat) : arc a b < 360 := rmod360_lt _

/-- the arc depends on the residues only -/
theorem arc_residue (a b : Rat) : arc (rmod a 360) (rmod b 360) = arc a b := by
  obtain ⟨ka, ha⟩ := rmod360_decomp a
  obtain ⟨kb, hb⟩ := rmod360_decomp b
  unfold arc
  have : b - a = (rmod b 360 - rmod a 360) + 360 * ((kb - ka : Int) : Rat) := by push_cast; linarith
  rw [this, rmod360_add_mul]

theorem arc_of_le (a b : Rat) (ha : 0 ≤ a) (hb : b < 360) (hab : a ≤ b) : arc a b = b - a :=
  rmod360_of_mem _ (by linarith) (by linarith)

theorem arc_of_gt (a b : Rat) (ha : a < 360) (hb : 0 ≤ b) (hab : b < a) : arc a b = 360 + b - a := by
  unfold arc; rw [rmod360_of_neg _ (by linarith) (by linarith)]; ring

theorem arc_self (a : Rat) : arc a a = 0 := by unfold arc; rw [sub_self]; exact rmod360_zero

/-! ### max / min / sector depend on the set of elements only -/

theorem maxL_congr_mem (l l' : List Rat) (h : ∀ x, x ∈ l ↔ x ∈ l') : maxL l = maxL l' := by
  cases l with
  | nil =>
    cases l' with
    | nil => rfl
    | cons b t => exact absurd ((h b).mpr List.mem_cons_self) (by simp)
  | cons a t =>
    obtain ⟨h1, h2⟩ := maxL_spec a t
    exact (maxL_eq_of l' _ ((h _).mp h1) (fun x hx => h2 x ((h x).mpr hx))).symm

theorem minL_congr_mem (l l' : List Rat) (h : ∀ x, x ∈ l ↔ x ∈ l') : minL l = minL l' := by
  cases l with
  | nil =>
    cases l' with
    | nil => rfl
    | cons b t => exact absurd ((h b).mpr List.mem_cons_self) (by simp)
  | cons a t =>
    obtain ⟨h1, h2⟩ := minL_spec a t
    exact (minL_eq_of l' _ ((h _).mp h1) (fun x hx => h2 x ((h x).mpr hx))).symm

theorem coverFrom_congr_mem (l l' : List Rat) (h : ∀ x, x ∈ l ↔ x ∈ l') (a : Rat) : coverFrom l a = coverFrom l' a := by
  unfold coverFrom
  apply maxL_congr_mem
  intro x
  simp only [List.mem_map]
  constructor
  · rintro ⟨b, hb, rfl⟩; exact ⟨b, (h b).mp hb, rfl⟩
  · rintro ⟨b, hb, rfl⟩; exact ⟨b, (h b).mpr hb, rfl⟩

/-- the covering-arc sector depends only on the SET of directions (order and multiplicity are irrelevant) -/
theorem sector_congr_mem (l l' : List Rat) (h : ∀ x, x ∈ l ↔ x ∈ l') : sector l = sector l' := by
  unfold sector
  apply minL_congr_mem
  intro x
  simp only [List.mem_map]
  constructor
  · rintro ⟨b, hb, rfl⟩; exact ⟨b, (h b).mp hb, coverFrom_congr_mem l' l (fun y => (h y).symm) b⟩
  · rintro ⟨b, hb, rfl⟩; exact ⟨b, (h b).mpr hb, coverFrom_congr_mem l l' h b⟩

theorem coverFrom_residues (xs : List Rat) (a : Rat) :
    coverFrom (xs.map fun v => rmod v 360) (rmod a 360) = coverFrom xs a := by
  unfold coverFrom
  rw [List.map_map]
  congr 1
  apply List.map_congr_left
  intro b _
  exact arc_residue a b

/-- ... and only on their residues mod 360 -/
theorem sector_residues (xs : List Rat) : sector (xs.map fun v => rmod v 360) = sector xs := by
  unfold sector
  rw [List.map_map]
  congr 1
  apply List.map_congr_left
  intro a _
  exact coverFrom_residues xs a

theorem sector_singleton_set (xs : List Rat) (a : Rat) (ha : a ∈ xs) (h : ∀ x ∈ xs, x = a) : sector xs = 0 := by
  have hc : ∀ b ∈ xs, coverFrom xs b = 0 := by
    intro b hb
    unfold coverFrom
    apply maxL_eq_of
    · exact List.mem_map.mpr ⟨a, ha, by rw [h b hb]; exact arc_self a⟩
    · intro x hx
      obtain ⟨c, hc, rfl⟩ := List.mem_map.mp hx
      rw [h b hb, h c hc, arc_self]
  unfold sector
  apply minL_eq_of
  · exact List.mem_map.mpr ⟨a, ha, hc a ha⟩
  · intro x hx
    obtain ⟨c, hc', rfl⟩ := List.mem_map.mp hx
    rw [hc c hc']

/-! ### `sortDistinct` -/

theorem mem_insertR (a x : Rat) : ∀ l : List Rat, x ∈ insertR a l ↔ x = a ∨ x ∈ l
  | [] => by simp [insertR]
  | b :: t => by
    unfold insertR
    split_ifs with h1 h2
    · simp
    · subst h2; simp
    · rw [List.mem_cons, mem_insertR a x t]; simp only [List.mem_cons]; tauto

theorem mem_sortDistinct (x : Rat) : ∀ l : List Rat, x ∈ sortDistinct l ↔ x ∈ l
  | [] => by simp [sortDistinct]
  | a :: t => by rw [sortDistinct, mem_insertR, mem_sortDistinct x t]; simp

theorem insertR_pairwise (a : Rat) : ∀ l : List Rat, l.Pairwise (· < ·) → (insertR a l).Pairwise (· < ·)
  | [], _ => by simp [insertR]
  | b :: t, h => by
    unfold insertR
    split_ifs with h1 h2
    · refine List.pairwise_cons.mpr ⟨?_, h⟩
      intro x hx
      rcases List.mem_cons.mp hx with rfl | hx
      · exact h1
      · exact lt_trans h1 ((List.pairwise_cons.mp h).1 x hx)
    · exact h
    · have hba : b < a := lt_of_le_of_ne (not_lt.mp h1) (fun e => h2 e.symm)
      refine List.pairwise_cons.mpr ⟨?_, insertR_pairwise a t (List.pairwise_cons.mp h).2⟩
      intro x hx
      rcases (mem_insertR a x t).mp hx with rfl | hx
      · exact hba
      · exact (List.pairwise_cons.mp h).1 x hx

theorem sortDistinct_pairwise : ∀ l : List Rat, (sortDistinct l).Pairwise (· < ·)
  | [] => by simp [sortDistinct]
  | a :: t => by rw [sortDistinct]; exact insertR_pairwise a _ (sortDistinct_pairwise t)

end SV.Spec.FlipFlop
