/-
  Lemmas/C10Model — helper lemmas for `Props/C10Model.lean`: what the validation of the hand model
  `Model.TW.auxRect / auxTrap` (of `threshold_weighted_impl._auxiliary_funcs`) guarantees per position, and where the
  four replacement values of the trapezoidal branch lie.
-/
import ScoresVerif.Lemmas.ThresholdWeighted

set_option linter.unusedVariables false
set_option linter.unusedSimpArgs false

namespace SV.TW
open SV SV.Fl SV.Model.TW

/-! ### positions of zipped lists -/

theorem any2_false_at {p : Fl → Fl → Bool} {xs ys : List Fl} (h : any2 p xs ys = false) {i : Nat} {a b : Fl}
    (ha : xs[i]? = some a) (hb : ys[i]? = some b) : p a b = false := by
  unfold any2 at h
  rw [List.any_eq_false] at h
  have hm : (a, b) ∈ List.zip xs ys := List.mem_of_getElem? (i := i) (List.getElem?_zip_eq_some.mpr ⟨ha, hb⟩)
  simpa using h (a, b) hm

theorem all2_true_at {p : Fl → Fl → Bool} {xs ys : List Fl} (h : all2 p xs ys = true) {i : Nat} {a b : Fl}
    (ha : xs[i]? = some a) (hb : ys[i]? = some b) : p a b = true := by
  unfold all2 at h
  rw [List.all_eq_true] at h
  have hm : (a, b) ∈ List.zip xs ys := List.mem_of_getElem? (i := i) (List.getElem?_zip_eq_some.mpr ⟨ha, hb⟩)
  exact h (a, b) hm

theorem getElem?_some_of_length {xs ys : List Fl} (hl : ys.length = xs.length) {i : Nat} {a : Fl} (ha : xs[i]? = some a) :
    ∃ b, ys[i]? = some b := by
  obtain ⟨hi, _⟩ := List.getElem?_eq_some_iff.mp ha
  exact ⟨ys[i]'(by omega), List.getElem?_eq_some_iff.mpr ⟨by omega, rfl⟩⟩

/-! ### what the validation lets through, per position -/

/-- an admissible rectangular end-point pair: left end −∞ or finite, right end +∞ or finite, increasing -/
def AdmRect (a b : Fl) : Prop :=
  (a = ninf ∨ ∃ p, a = fin p) ∧ (b = pinf ∨ ∃ q, b = fin q) ∧ Fl.lt a b = true

/-- an admissible trapezoidal end-point quadruple: (a, b) both −∞ or finite with a < b; (c, d) both +∞ or finite with
    c < d; b < c -/
def AdmTrap (a b c d : Fl) : Prop :=
  ((a = ninf ∧ b = ninf) ∨ ∃ p q, a = fin p ∧ b = fin q ∧ p < q) ∧
  ((c = pinf ∧ d = pinf) ∨ ∃ r s, c = fin r ∧ d = fin s ∧ r < s) ∧ Fl.lt b c = true

/-- the four checks of the trapezoidal branch (none raised) force an admissible quadruple — in particular no NaN -/
theorem admTrap_of_checks (a b c d : Fl) (h1 : Fl.ge b c = false)
    (h2 : (isInf a && Fl.bne a b) = false) (h3 : (isInf d && Fl.bne c d) = false)
    (h4 : (Fl.lt a b || (Fl.beq a b && isInf a)) = true) (h5 : (Fl.lt c d || (Fl.beq c d && isInf c)) = true) :
    AdmTrap a b c d := by
  unfold AdmTrap
  cases a <;> cases b <;> simp_all [Fl.ge, Fl.le, Fl.lt, Fl.beq, Fl.bne, isInf] <;>
    cases c <;> simp_all [Fl.ge, Fl.le, Fl.lt, Fl.beq, Fl.bne, isInf] <;>
    cases d <;> simp_all [Fl.ge, Fl.le, Fl.lt, Fl.beq, Fl.bne, isInf]

theorem admRect_of_check (a b : Fl) (ha : a = ninf ∨ ∃ p, a = fin p) (hb : b = pinf ∨ ∃ q, b = fin q)
    (h : Fl.ge a b = false) : AdmRect a b := by
  refine ⟨ha, hb, ?_⟩
  rcases ha with rfl | ⟨p, rfl⟩ <;> rcases hb with rfl | ⟨q, rfl⟩ <;> simp_all [Fl.ge, Fl.le, Fl.lt]

/-! ### replaced lists -/

theorem whereB_gt_ninf_fin (q A : Rat) : whereB (fin q) (Fl.gt (fin q) ninf) (fin A) = fin q := rfl
theorem whereB_gt_ninf_ninf (A : Rat) : whereB ninf (Fl.gt ninf ninf) (fin A) = fin A := rfl
theorem whereB_lt_pinf_fin (q B : Rat) : whereB (fin q) (Fl.lt (fin q) pinf) (fin B) = fin q := rfl
theorem whereB_lt_pinf_pinf (B : Rat) : whereB pinf (Fl.lt pinf pinf) (fin B) = fin B := rfl

/-- a list of finite values has a finite `nanMin` that is a lower bound -/
theorem nanMin_all_fin (l : List Fl) (hne : l ≠ []) (h : ∀ t ∈ l, ∃ q, t = fin q) :
    ∃ m, nanMin l = fin m ∧ fin m ∈ l ∧ ∀ q, fin q ∈ l → m ≤ q := by
  have hn : ∀ t ∈ l, t ≠ nan := by intro t ht; obtain ⟨q, rfl⟩ := h t ht; simp
  obtain ⟨hm, hle⟩ := nanMin_spec l hne hn
  obtain ⟨m, e⟩ := h _ hm
  refine ⟨m, e, e ▸ hm, fun q hq => ?_⟩
  have := hle (fin q) hq
  rw [e] at this
  simpa using this

theorem nanMax_all_fin (l : List Fl) (hne : l ≠ []) (h : ∀ t ∈ l, ∃ q, t = fin q) :
    ∃ m, nanMax l = fin m ∧ fin m ∈ l ∧ ∀ q, fin q ∈ l → q ≤ m := by
  have hn : ∀ t ∈ l, t ≠ nan := by intro t ht; obtain ⟨q, rfl⟩ := h t ht; simp
  obtain ⟨hm, hle⟩ := nanMax_spec l hne hn
  obtain ⟨m, e⟩ := h _ hm
  refine ⟨m, e, e ▸ hm, fun q hq => ?_⟩
  have := hle (fin q) hq
  rw [e] at this
  simpa using this

/-- **the trapezoidal branch of the hand model**: when no check raises, every position holds an admissible quadruple and
    the four lists are replaced with four finite stand-ins A0, A, D, D0 (the same for the whole batch) such that
    A + 1 ≤ all data and all finite c;  A0 + 1 ≤ every replaced b′;  data + 1 ≤ D and b′ + 1 ≤ D for every replaced b′;
    c′ + 1 ≤ D0 for every replaced c′ -/
theorem aux_trap_replacement (fc ob : List Rat) (as bs cs ds : List Fl) (hf : fc ≠ []) (ho : ob ≠ []) (hn : as ≠ [])
    (hlb : bs.length = as.length) (hlc : cs.length = as.length) (hld : ds.length = as.length)
    (T : Trap) (h : auxTrap (fc.map fin) (ob.map fin) as bs cs ds = .ok T) :
    (∀ (i : Nat) a b c d, as[i]? = some a → bs[i]? = some b → cs[i]? = some c → ds[i]? = some d → AdmTrap a b c d) ∧
    ∃ A0 A D D0 : Rat,
      T.a = as.map (fun t => whereB t (Fl.gt t ninf) (fin A0)) ∧ T.b = bs.map (fun t => whereB t (Fl.gt t ninf) (fin A)) ∧
      T.c = cs.map (fun t => whereB t (Fl.lt t pinf) (fin D)) ∧ T.d = ds.map (fun t => whereB t (Fl.lt t pinf) (fin D0)) ∧
      (∀ x ∈ fc, A + 1 ≤ x ∧ x + 1 ≤ D) ∧ (∀ y ∈ ob, A + 1 ≤ y ∧ y + 1 ≤ D) ∧
      (∀ r, fin r ∈ cs → A + 1 ≤ r) ∧
      (∀ q, fin q ∈ T.b → A0 + 1 ≤ q ∧ q + 1 ≤ D) ∧
      (∀ r, fin r ∈ T.c → r + 1 ≤ D0) := by
  unfold auxTrap at h
  split_ifs at h with c1 c2 c3 c4
  have c1' : any2 Fl.ge bs cs = false := by simpa using c1
  rw [Bool.or_eq_true, not_or] at c2
  have c2a : any2 (fun s t => isInf s && Fl.bne s t) as bs = false := by simpa using c2.1
  have c2b : any2 (fun s t => isInf t && Fl.bne s t) cs ds = false := by simpa using c2.2
  have c3' : all2 (fun s t => Fl.lt s t || (Fl.beq s t && isInf s)) as bs = true := by simpa using c3
  have c4' : all2 (fun s t => Fl.lt s t || (Fl.beq s t && isInf s)) cs ds = true := by simpa using c4
  have adm : ∀ (i : Nat) a b c d, as[i]? = some a → bs[i]? = some b → cs[i]? = some c → ds[i]? = some d → AdmTrap a b c d :=
    fun i a b c d ha hb hc hd => admTrap_of_checks a b c d (any2_false_at c1' hb hc) (any2_false_at c2a ha hb)
      (any2_false_at c2b hc hd) (all2_true_at c3' ha hb) (all2_true_at c4' hc hd)
  refine ⟨adm, ?_⟩
  -- every entry has partners at its position
  have quad_of_b : ∀ t ∈ bs, ∃ a c d, AdmTrap a t c d := by
    intro t ht
    obtain ⟨i, hi⟩ := List.mem_iff_getElem?.mp ht
    obtain ⟨a, ha⟩ := getElem?_some_of_length hlb.symm hi
    obtain ⟨c, hc⟩ := getElem?_some_of_length (hlc.trans hlb.symm) hi
    obtain ⟨d, hd⟩ := getElem?_some_of_length (hld.trans hlb.symm) hi
    exact ⟨a, c, d, adm i a t c d ha hi hc hd⟩
  have quad_of_c : ∀ t ∈ cs, ∃ a b d, AdmTrap a b t d := by
    intro t ht
    obtain ⟨i, hi⟩ := List.mem_iff_getElem?.mp ht
    obtain ⟨a, ha⟩ := getElem?_some_of_length hlc.symm hi
    obtain ⟨b, hb⟩ := getElem?_some_of_length (hlb.trans hlc.symm) hi
    obtain ⟨d, hd⟩ := getElem?_some_of_length (hld.trans hlc.symm) hi
    exact ⟨a, b, d, adm i a b t d ha hb hi hd⟩
  have hbs : ∀ t ∈ bs, t = ninf ∨ ∃ q, t = fin q := by
    intro t ht
    obtain ⟨a, c, d, hA⟩ := quad_of_b t ht
    rcases hA.1 with ⟨_, e⟩ | ⟨p, q, _, e, _⟩
    · exact Or.inl e
    · exact Or.inr ⟨q, e⟩
  have hcs : ∀ t ∈ cs, t = pinf ∨ ∃ q, t = fin q := by
    intro t ht
    obtain ⟨a, b, d, hA⟩ := quad_of_c t ht
    rcases hA.2.1 with ⟨e, _⟩ | ⟨r, s, e, _, _⟩
    · exact Or.inl e
    · exact Or.inr ⟨r, e⟩
  have hbne : bs ≠ [] := by intro e; rw [e] at hlb; exact hn (List.length_eq_zero_iff.mp hlb.symm)
  have hcne : cs ≠ [] := by intro e; rw [e] at hlc; exact hn (List.length_eq_zero_iff.mp hlc.symm)
  -- b′
  obtain ⟨A, eA, hA1, hA2, hA3⟩ := aux_rect_left_replacement fc ob cs hf ho hcne hcs
  dsimp only at h
  rw [eA] at h
  have hb'fin : ∀ t ∈ bs.map (fun t => whereB t (Fl.gt t ninf) (fin A)), ∃ q, t = fin q := by
    intro t ht
    rw [List.mem_map] at ht
    obtain ⟨s, hs, rfl⟩ := ht
    rcases hbs s hs with rfl | ⟨q, rfl⟩
    · exact ⟨A, rfl⟩
    · exact ⟨q, rfl⟩
  have hb'ne : bs.map (fun t => whereB t (Fl.gt t ninf) (fin A)) ≠ [] := by simpa using hbne
  -- a′
  obtain ⟨m, em, _, hm⟩ := nanMin_all_fin _ hb'ne hb'fin
  rw [em, sub_fin] at h
  -- c′
  obtain ⟨D, eD, hD1, hD2, hD3⟩ := aux_rect_right_replacement fc ob _ hf ho hb'ne
    (fun t ht => Or.inr (hb'fin t ht))
  rw [eD] at h
  have hc'fin : ∀ t ∈ cs.map (fun t => whereB t (Fl.lt t pinf) (fin D)), ∃ q, t = fin q := by
    intro t ht
    rw [List.mem_map] at ht
    obtain ⟨s, hs, rfl⟩ := ht
    rcases hcs s hs with rfl | ⟨q, rfl⟩
    · exact ⟨D, rfl⟩
    · exact ⟨q, rfl⟩
  have hc'ne : cs.map (fun t => whereB t (Fl.lt t pinf) (fin D)) ≠ [] := by simpa using hcne
  -- d′
  obtain ⟨M, eM, _, hM⟩ := nanMax_all_fin _ hc'ne hc'fin
  rw [eM, add_fin] at h
  injection h with h
  subst h
  refine ⟨m - 1, A, D, M + 1, rfl, rfl, rfl, rfl, fun x hx => ⟨hA1 x hx, hD1 x hx⟩, fun y hy => ⟨hA2 y hy, hD2 y hy⟩,
    hA3, fun q hq => ⟨by have := hm q hq; linarith, hD3 q hq⟩, fun r hr => by have := hM r hr; linarith⟩

/-! ### NaN entries of the data are skipped by `.min()` / `.max()` -/

theorem valid_idem (l : List Fl) : valid (valid l) = valid l := by
  unfold valid; rw [List.filter_filter]; simp
theorem nanMin_valid (l : List Fl) : nanMin (valid l) = nanMin l := by unfold nanMin; rw [valid_idem]
theorem nanMax_valid (l : List Fl) : nanMax (valid l) = nanMax l := by unfold nanMax; rw [valid_idem]

/-- the model only looks at the non-NaN forecasts / observations -/
theorem auxTrap_valid (fc ob a b c d : List Fl) : auxTrap (valid fc) (valid ob) a b c d = auxTrap fc ob a b c d := by
  unfold auxTrap; simp only [nanMin_valid, nanMax_valid]
theorem auxRect_valid (fc ob a b : List Fl) : auxRect (valid fc) (valid ob) a b = auxRect fc ob a b := by
  unfold auxRect; simp only [nanMin_valid, nanMax_valid]

end SV.TW
