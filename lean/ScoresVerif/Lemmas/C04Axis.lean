/-
  C04 — a positional numpy section: `np.<row function>(values, axis=k)` with `k = dims.index(dim)`
  (`cdf_envelope`: `np.fmax.accumulate(cdf.values, axis=dim_idx)`; the same shape of code as flip-flop's
  `np.moveaxis(data, axis, 0)` + work on axis 0).  `alongAxis` is written on the row-major buffer with an axis
  NUMBER and positional multi-indices — no dimension names — so that "the right axis is addressed after a
  transposition" is a theorem (`alongAxis_get`) and not built into the definition.
-/
import ScoresVerif.Lemmas.C04Relayout

namespace SV.Arr

/-! ### Positional definitions (no names) -/

/-- row-major flat position of a positional multi-index -/
def flatPos : List Nat → List Nat → Nat
  | _ :: ns, i :: is => i * (ns.foldl (· * ·) 1) + flatPos ns is
  | _, _ => 0

/-- all positional multi-indices of a shape, in row-major order -/
def multiIndices : List Nat → List (List Nat)
  | n :: ns => (List.range n).flatMap fun i => (multiIndices ns).map (i :: ·)
  | [] => [[]]

/-- the 1-d lane through the multi-index `idx` along axis number `k` (numpy `values[i0, …, :, …, im]`) -/
def lane (a : Arr) (k : Nat) (idx : List Nat) : List Fl :=
  (List.range (a.shape.getD k 0)).map fun i => a.data.getD (flatPos a.shape (idx.set k i)) Fl.nan

/-- numpy `np.apply_along_axis(g, k, values)` for a length-preserving row function `g`
    (e.g. `np.fmax.accumulate(values, axis=k)`): dims and shape unchanged, every lane along axis `k` replaced by
    its image -/
def alongAxis (g : List Fl → List Fl) (k : Nat) (a : Arr) : Arr :=
  { dims := a.dims, shape := a.shape,
    data := ((multiIndices a.shape).map fun idx => (g (lane a k idx)).getD (idx.getD k 0) Fl.nan).toArray }

/-- the same lane addressed by LABEL: the values along the named dimension `t`, other indices as in `x` -/
def labelLane (a : Arr) (t : String) (x : Asg) : List Fl :=
  (List.range (a.sizeOf t)).map fun i => a.get ((t, i) :: x)

/-! ### Bridge positional ↔ labelled -/

theorem flatIndex_eq_flatPos : ∀ (ds : List String) (ns : List Nat) (x : Asg),
    flatIndex ds ns x = flatPos ns (ds.map (lookup x))
  | [], [], _ => rfl
  | [], _ :: _, _ => rfl
  | _ :: _, [], _ => rfl
  | d :: ds, n :: ns, x => by
    simp only [flatIndex, flatPos, List.map_cons, flatIndex_eq_flatPos ds ns x]

/-- every index below its size -/
def PosInRange : List Nat → List Nat → Prop
  | i :: is, n :: ns => i < n ∧ PosInRange is ns
  | [], [] => True
  | _, _ => False

theorem posInRange_of_inRange : ∀ (ds : List String) (ns : List Nat) (x : Asg), InRange ds ns x →
    PosInRange (ds.map (lookup x)) ns
  | [], [], _, _ => trivial
  | [], _ :: _, _, h => by simp [InRange] at h
  | _ :: _, [], _, h => by simp [InRange] at h
  | d :: ds, n :: ns, x, h => ⟨h.1, posInRange_of_inRange ds ns x h.2⟩

theorem PosInRange.length : ∀ {is ns : List Nat}, PosInRange is ns → is.length = ns.length
  | [], [], _ => rfl
  | [], _ :: _, h => by simp [PosInRange] at h
  | _ :: _, [], h => by simp [PosInRange] at h
  | _ :: is, _ :: ns, h => by simp [PosInRange.length h.2]

theorem length_multiIndices : ∀ (ns : List Nat), (multiIndices ns).length = vol ns
  | [] => by simp [multiIndices, vol]
  | n :: ns => by
    rw [vol_cons]
    simp only [multiIndices, List.length_flatMap, List.length_map, length_multiIndices ns]
    simp

theorem flatPos_lt : ∀ (is ns : List Nat), PosInRange is ns → flatPos ns is < vol ns
  | [], [], _ => by simp [flatPos, vol]
  | [], _ :: _, h => by simp [PosInRange] at h
  | _ :: _, [], h => by simp [PosInRange] at h
  | i :: is, n :: ns, h => by
    have ih := flatPos_lt is ns h.2
    rw [vol_cons]
    show i * vol ns + flatPos ns is < n * vol ns
    calc i * vol ns + flatPos ns is < i * vol ns + vol ns := by omega
      _ = (i + 1) * vol ns := by ring
      _ ≤ n * vol ns := Nat.mul_le_mul_right _ h.1

theorem getElem?_multiIndices : ∀ (is ns : List Nat), PosInRange is ns →
    (multiIndices ns)[flatPos ns is]? = some is
  | [], [], _ => by simp [multiIndices, flatPos]
  | [], _ :: _, h => by simp [PosInRange] at h
  | _ :: _, [], h => by simp [PosInRange] at h
  | i :: is, n :: ns, h => by
    have ih := getElem?_multiIndices is ns h.2
    have key := getElem?_flatMap_range (fun i => (multiIndices ns).map (i :: ·)) (vol ns)
      (by intro i; simp [length_multiIndices]) n i (flatPos ns is) h.1 (flatPos_lt is ns h.2)
    show ((List.range n).flatMap fun i => (multiIndices ns).map (i :: ·))[i * vol ns + flatPos ns is]? = _
    rw [key, List.getElem?_map, ih]
    rfl

theorem alongAxis_dims (g : List Fl → List Fl) (k : Nat) (a : Arr) : (alongAxis g k a).dims = a.dims := rfl
theorem alongAxis_shape (g : List Fl → List Fl) (k : Nat) (a : Arr) : (alongAxis g k a).shape = a.shape := rfl

/-- the multi-index with entry `k` replaced is the multi-index of the assignment with `dims[k]` overridden -/
theorem set_map_lookup (ds : List String) (hn : ds.Nodup) (k : Nat) (hk : k < ds.length) (i : Nat) (x : Asg) :
    (ds.map (lookup x)).set k i = ds.map (lookup ((ds[k], i) :: x)) := by
  apply List.ext_getElem
  · simp
  · intro j h1 h2
    simp only [List.length_set, List.length_map] at h1
    rw [List.getElem_set, List.getElem_map, List.getElem_map]
    by_cases hjk : k = j
    · subst hjk; simp [lookup_cons_self]
    · have hne : ds[j] ≠ ds[k] := fun he => hjk ((hn.getElem_inj_iff).mp he).symm
      simp [hjk, lookup_cons_ne i x hne]

/-- the positional lane is the labelled lane -/
theorem lane_eq_labelLane (a : Arr) (hwf : WF a) (k : Nat) (hk : k < a.dims.length) (x : Asg) :
    lane a k (a.dims.map (lookup x)) = labelLane a a.dims[k] x := by
  have hk' : k < a.shape.length := by have := hwf.len; omega
  have hsz : a.sizeOf a.dims[k] = a.shape[k] := by
    apply sizeOf_eq hwf
    rw [List.mem_iff_getElem]
    exact ⟨k, by simp [List.length_zip]; omega, by simp⟩
  unfold lane labelLane
  have hgd : a.shape.getD k 0 = a.shape[k] := by simp [List.getD_eq_getElem?_getD, hk']
  rw [hsz, hgd]
  refine List.map_congr_left fun i _ => ?_
  rw [set_map_lookup a.dims hwf.nodup k hk i x, ← flatIndex_eq_flatPos]
  rfl

/-- **What the positional section computes, by label**: the value at label `x` of
    `np.apply_along_axis(g, dims.index(t), values)` is entry `x[t]` of `g` applied to the values along `t`
    through `x`. -/
theorem alongAxis_get (g : List Fl → List Fl) (a : Arr) (hwf : WF a) (t : String) (ht : t ∈ a.dims) (x : Asg)
    (hx : InRange a.dims a.shape x) :
    (alongAxis g (a.dims.idxOf t) a).get x = (g (labelLane a t x)).getD (lookup x t) Fl.nan := by
  have hk : a.dims.idxOf t < a.dims.length := List.idxOf_lt_length_iff.mpr ht
  have hkt : a.dims[a.dims.idxOf t] = t := List.getElem_idxOf hk
  have hpos := posInRange_of_inRange a.dims a.shape x hx
  unfold get
  rw [alongAxis_dims, alongAxis_shape, flatIndex_eq_flatPos]
  simp only [alongAxis]
  rw [Array.getD_eq_getD_getElem?]
  simp only [List.getElem?_toArray, List.getElem?_map, getElem?_multiIndices _ _ hpos, Option.map_some,
    Option.getD_some]
  rw [lane_eq_labelLane a hwf _ hk x, hkt]
  congr 1
  simp [List.getD_eq_getElem?_getD, hk, hkt]

/-- the labelled lane of another layout is the same list (only the OTHER dimensions of `x` have to be in range) -/
theorem labelLane_sameLabelled' {a a' : Arr} (h : SameLabelled a a') (t : String) (ht : t ∈ a.dims) (x : Asg)
    (hx : ∀ p ∈ a.dims.zip a.shape, p.1 ≠ t → lookup x p.1 < p.2) : labelLane a' t x = labelLane a t x := by
  obtain ⟨n, hn⟩ := mem_zip_of_mem_dims h.wf ht
  unfold labelLane
  rw [sizeOf_eq h.wf' (h.perm.mem_iff.mpr hn), sizeOf_eq h.wf hn]
  refine List.map_congr_left fun i hi => ?_
  apply h.get_eq
  rw [inRange_iff]
  refine ⟨h.wf.len, fun p hp => ?_⟩
  by_cases hpt : p.1 = t
  · have : p.2 = n := by
      have h1 := sizeOf_eq h.wf hp
      rw [hpt, sizeOf_eq h.wf hn] at h1; exact h1.symm
    rw [hpt, lookup_cons_self, this]
    exact List.mem_range.mp hi
  · rw [lookup_cons_ne i x hpt]; exact hx p hp hpt

theorem labelLane_sameLabelled {a a' : Arr} (h : SameLabelled a a') (t : String) (ht : t ∈ a.dims) (x : Asg)
    (hx : InRange a.dims a.shape x) : labelLane a' t x = labelLane a t x :=
  labelLane_sameLabelled' h t ht x fun p hp _ => ((inRange_iff _ _ x).mp hx).2 p hp

/-- **The positional section commutes with any re-layout**: applying the row function along axis number
    `dims.index(t)` of another layout gives another layout of the result on the original. -/
theorem sameLabelled_alongAxis (g : List Fl → List Fl) {a a' : Arr} (h : SameLabelled a a') (t : String)
    (ht : t ∈ a.dims) :
    SameLabelled (alongAxis g (a.dims.idxOf t) a) (alongAxis g (a'.dims.idxOf t) a') := by
  refine ⟨⟨h.wf.nodup, h.wf.len⟩, ⟨h.wf'.nodup, h.wf'.len⟩, h.perm, fun x hx => ?_⟩
  have hx' : InRange a.dims a.shape x := hx
  have ht' : t ∈ a'.dims := h.dims_perm.mem_iff.mpr ht
  rw [alongAxis_get g a' h.wf' t ht' x (inRange_perm h.perm h.wf'.len hx'), alongAxis_get g a h.wf t ht x hx',
    labelLane_sameLabelled h t ht x hx']

/-! ### A positional section that COLLAPSES the axis (flip-flop: `np.moveaxis(data, k, 0)`, then a function of axis 0) -/

/-- `np.moveaxis(values, k, 0)` followed by a function `g` of axis 0 applied for every remaining multi-index
    (`encompassing_sector_size_np`, flip-flop index on the numpy buffer): the remaining axes keep their order;
    `g` may depend on the ORDER of the lane (it is not a permutation-invariant reduction) -/
def collapseAxis (g : List Fl → Fl) (k : Nat) (a : Arr) : Arr :=
  { dims := a.dims.eraseIdx k, shape := a.shape.eraseIdx k,
    data := ((multiIndices (a.shape.eraseIdx k)).map fun idx => g (lane a k (idx.insertIdx k 0))).toArray }

theorem set_insertIdx {α : Type} (l : List α) (k : Nat) (v i : α) (h : k ≤ l.length) :
    (l.insertIdx k v).set k i = l.insertIdx k i := by
  induction l generalizing k with
  | nil => cases k <;> simp_all
  | cons a l ih => cases k with
    | zero => simp
    | succ k => simp at h; simp [ih k h]

theorem insert_set_map_lookup (ds : List String) (hn : ds.Nodup) (k : Nat) (hk : k < ds.length) (i : Nat) (x : Asg) :
    (((ds.eraseIdx k).map (lookup x)).insertIdx k 0).set k i = ds.map (lookup ((ds[k], i) :: x)) := by
  have hle : k ≤ ((ds.eraseIdx k).map (lookup x)).length := by
    simp [List.length_eraseIdx, hk]; omega
  rw [set_insertIdx _ k 0 i hle, ← set_map_lookup ds hn k hk i x]
  have hk' : k < (ds.map (lookup x)).length := by simpa using hk
  conv_rhs => rw [← List.insertIdx_eraseIdx_getElem hk']
  rw [set_insertIdx _ k _ i (by simp [List.length_eraseIdx, hk]; omega), List.eraseIdx_map]

theorem zip_eraseIdx {α β : Type} : ∀ (l : List α) (l' : List β) (k : Nat),
    (l.eraseIdx k).zip (l'.eraseIdx k) = (l.zip l').eraseIdx k
  | [], _, _ => by simp
  | _ :: _, [], _ => by simp
  | _ :: _, _ :: _, 0 => by simp
  | _ :: l, _ :: l', k + 1 => by simp [zip_eraseIdx l l' k]

/-- the (dimension, size) pairs left after collapsing `t` -/
theorem mem_zip_eraseIdx {a : Arr} (hwf : WF a) {t : String} (ht : t ∈ a.dims) (p : String × Nat) :
    p ∈ (a.dims.eraseIdx (a.dims.idxOf t)).zip (a.shape.eraseIdx (a.dims.idxOf t)) ↔
      p ∈ a.dims.zip a.shape ∧ p.1 ≠ t := by
  have hk : a.dims.idxOf t < a.dims.length := List.idxOf_lt_length_iff.mpr ht
  have hkz : a.dims.idxOf t < (a.dims.zip a.shape).length := by
    simp only [List.length_zip]; have := hwf.len; omega
  have hkt : a.dims[a.dims.idxOf t] = t := List.getElem_idxOf hk
  rw [zip_eraseIdx, ← (zip_nodup hwf).erase_getElem _ hkz, (zip_nodup hwf).mem_erase_iff]
  have hz : (a.dims.zip a.shape)[a.dims.idxOf t].1 = t := by rw [List.getElem_zip]; exact hkt
  constructor
  · rintro ⟨hne, hp⟩
    refine ⟨hp, fun hpt => hne ?_⟩
    have hm : (a.dims.zip a.shape)[a.dims.idxOf t] ∈ a.dims.zip a.shape := List.getElem_mem _
    have h1 := sizeOf_eq hwf hp
    have h2 : a.sizeOf (a.dims.zip a.shape)[a.dims.idxOf t].1 = (a.dims.zip a.shape)[a.dims.idxOf t].2 :=
      sizeOf_eq hwf hm
    rw [hz] at h2
    rw [hpt] at h1
    exact Prod.ext (by rw [hz, hpt]) (by rw [← h1, ← h2])
  · rintro ⟨hp, hne⟩
    exact ⟨fun he => hne (by rw [he, hz]), hp⟩

theorem wf_collapseAxis (g : List Fl → Fl) (k : Nat) {a : Arr} (hwf : WF a) : WF (collapseAxis g k a) :=
  ⟨(List.eraseIdx_sublist a.dims k).nodup hwf.nodup, by
    show (a.dims.eraseIdx k).length = (a.shape.eraseIdx k).length
    simp [List.length_eraseIdx, hwf.len]⟩

/-- **What the collapsing section computes, by label**: `g` of the values along `t`, in storage order of `t`,
    the other indices as in `x` -/
theorem collapseAxis_get (g : List Fl → Fl) (a : Arr) (hwf : WF a) (t : String) (ht : t ∈ a.dims) (x : Asg)
    (hx : InRange (a.dims.eraseIdx (a.dims.idxOf t)) (a.shape.eraseIdx (a.dims.idxOf t)) x) :
    (collapseAxis g (a.dims.idxOf t) a).get x = g (labelLane a t x) := by
  have hk : a.dims.idxOf t < a.dims.length := List.idxOf_lt_length_iff.mpr ht
  have hk' : a.dims.idxOf t < a.shape.length := by have := hwf.len; omega
  have hkt : a.dims[a.dims.idxOf t] = t := List.getElem_idxOf hk
  have hpos := posInRange_of_inRange _ _ x hx
  have hsz : a.sizeOf t = a.shape[a.dims.idxOf t] := by
    apply sizeOf_eq hwf
    rw [List.mem_iff_getElem]
    exact ⟨a.dims.idxOf t, by simp [List.length_zip]; omega, by simp [hkt]⟩
  have hgd : a.shape.getD (a.dims.idxOf t) 0 = a.shape[a.dims.idxOf t] := by
    simp [List.getD_eq_getElem?_getD, hk']
  unfold get
  show (collapseAxis g _ a).data.getD (flatIndex (a.dims.eraseIdx _) (a.shape.eraseIdx _) x) Fl.nan = _
  rw [flatIndex_eq_flatPos]
  simp only [collapseAxis]
  rw [Array.getD_eq_getD_getElem?]
  simp only [List.getElem?_toArray, List.getElem?_map, getElem?_multiIndices _ _ hpos, Option.map_some,
    Option.getD_some]
  congr 1
  unfold lane labelLane
  rw [hsz, hgd]
  refine List.map_congr_left fun i _ => ?_
  rw [insert_set_map_lookup a.dims hwf.nodup _ hk i x, ← flatIndex_eq_flatPos, hkt]
  rfl

/-- **The collapsing section commutes with any re-layout** (for every lane function `g`, order-sensitive or not) -/
theorem sameLabelled_collapseAxis (g : List Fl → Fl) {a a' : Arr} (h : SameLabelled a a') (t : String)
    (ht : t ∈ a.dims) :
    SameLabelled (collapseAxis g (a.dims.idxOf t) a) (collapseAxis g (a'.dims.idxOf t) a') := by
  have ht' : t ∈ a'.dims := h.dims_perm.mem_iff.mpr ht
  have hwf := wf_collapseAxis g (a.dims.idxOf t) h.wf
  have hwf' := wf_collapseAxis g (a'.dims.idxOf t) h.wf'
  have hperm : ((collapseAxis g (a'.dims.idxOf t) a').dims.zip (collapseAxis g (a'.dims.idxOf t) a').shape).Perm
      ((collapseAxis g (a.dims.idxOf t) a).dims.zip (collapseAxis g (a.dims.idxOf t) a).shape) := by
    refine (List.perm_ext_iff_of_nodup (zip_nodup hwf') (zip_nodup hwf)).mpr fun p => ?_
    show p ∈ (a'.dims.eraseIdx _).zip (a'.shape.eraseIdx _) ↔ p ∈ (a.dims.eraseIdx _).zip (a.shape.eraseIdx _)
    rw [mem_zip_eraseIdx h.wf' ht', mem_zip_eraseIdx h.wf ht, h.perm.mem_iff]
  refine ⟨hwf, hwf', hperm, fun x hx => ?_⟩
  have hx0 : InRange (a.dims.eraseIdx (a.dims.idxOf t)) (a.shape.eraseIdx (a.dims.idxOf t)) x := hx
  have hx1 : InRange (a'.dims.eraseIdx (a'.dims.idxOf t)) (a'.shape.eraseIdx (a'.dims.idxOf t)) x :=
    inRange_perm hperm hwf'.len hx
  rw [collapseAxis_get g a' h.wf' t ht' x hx1, collapseAxis_get g a h.wf t ht x hx0]
  congr 1
  refine labelLane_sameLabelled' h t ht x fun p hp hne => ?_
  exact ((inRange_iff _ _ x).mp hx0).2 p ((mem_zip_eraseIdx h.wf ht p).mpr ⟨hp, hne⟩)

end SV.Arr
