/- part of the case analysis for Props/C01Gen.lean — see Lemmas/C01GenBase.lean -/
import ScoresVerif.Lemmas.C01GenBase
namespace SV.Props.C01Gen
open SV.Dims SV.PyDyn SV.Gen.Dims

set_option maxRecDepth 2000 in
/-- only `reduce_dims` given (or neither): regenerated code = model, for every spelling -/
theorem gen_eq_model_reduce (fcst obs : List String) (w : Option (List String)) (reduce specific : DimSpec)
    (hr : notAllStr reduce = true) (hs : notAllStr specific = true) :
    outcome (gen_gather_dimensions (V.list fcst) (V.list obs) (wToV w) (toV reduce) (toV DimSpec.none) (toV specific))
      = some (gather fcst obs w reduce DimSpec.none specific) := by
  cases w <;> cases reduce <;> cases specific <;> simp [notAllStr] at hr hs <;>
    gd_simp <;> (try split_ifs) <;> (try simp_all)
end SV.Props.C01Gen
