/-
  C07 stretch, fifth part: whole pipeline = Spec for one NaN-free case and EVERY combination of the four fill methods
  with the two integration methods (no threshold weight).  The fill step is linked by C17's `fill_eq_spec`
  (Lemmas/C17Fill); a filled row that still had a NaN would give NaN on both sides, so no per-method finiteness
  argument is needed.
-/
import ScoresVerif.Lemmas.C07PipelineSpec

namespace SV.Lemmas.C07Refine
open SV SV.Model.Cdf SV.Model.CrpsCdf SV.Lemmas.Cdf SV.Lemmas.CrpsCdf SV.Lemmas.C17Fill
open SV.Fl (fin nan)
open SV.Spec.CrpsCdf (exactParts trapzParts)
open SV.Spec.Cdf (union valueAt)

def fillMethods : List String := ["linear", "step", "forward", "backward"]

theorem fillRow_eq_spec_of_mem (thr : List Rat) (xs : List Fl) (m : String) (k : Int) (hm : m ∈ fillMethods)
    (hlen : thr.length = xs.length) (hinc : Incr thr) (hu : Unit01 xs) :
    fillRow thr xs m k = SV.Spec.Cdf.fillRow thr xs m k := by
  simp only [fillMethods, List.mem_cons, List.not_mem_nil, or_false] at hm
  rcases hm with rfl | rfl | rfl | rfl
  · exact fillRow_linear_eq_spec thr xs k hlen hinc hu
  · exact fillRow_step_eq_spec thr xs k hlen hinc hu.noInf
  · exact fillRow_forward_eq_spec thr xs k hlen hinc hu.noInf
  · exact fillRow_backward_eq_spec thr xs k hlen hinc hu.noInf

theorem fillRow_length (thr : List Rat) (xs : List Fl) (m : String) (k : Int) (hlen : thr.length = xs.length) :
    (fillRow thr xs m k).length = xs.length := by
  have hb : ∀ ys : List Fl, (bfill ys).length = ys.length := by intro ys; simp [bfill, ffill]
  have hi : ∀ ys : List Fl, thr.length = ys.length → (interpolateNa thr ys).length = ys.length := by
    intro ys hl
    unfold interpolateNa
    simp only
    split
    · rfl
    · simp [hl]
  unfold fillRow
  simp only
  split_ifs <;> simp [hb, hi, hlen, ffill, allNan]

/-- a row of NaNs and numbers in [0,1] either contains a NaN or is a list of rationals -/
theorem unit01_cases (r : List Fl) (h : Unit01 r) :
    (anyNan r = true ∧ SV.Spec.CrpsCdf.allFin r = none) ∨ ∃ q : List Rat, r = q.map fin := by
  induction r with
  | nil => exact Or.inr ⟨[], rfl⟩
  | cons x xs ih =>
    obtain ⟨hx, hxs⟩ := h.cons
    rcases hx with rfl | ⟨v, rfl, _, _⟩
    · exact Or.inl ⟨by simp [anyNan], by simp [SV.Spec.CrpsCdf.allFin]⟩
    · rcases ih hxs with ⟨h1, h2⟩ | ⟨q, rfl⟩
      · refine Or.inl ⟨?_, by simp [SV.Spec.CrpsCdf.allFin, h2]⟩
        simp only [anyNan, List.any_cons] at h1 ⊢
        simp [h1]
      · exact Or.inr ⟨v :: q, rfl⟩

theorem addThresholds_grid_all (G fthr fq : List Rat) (m : String) (hm : m ∈ fillMethods) (hG : Incr G)
    (hsub : ∀ t ∈ fthr, t ∈ G) (hu : ∀ v ∈ fq, 0 ≤ v ∧ v ≤ 1) :
    addThresholds fthr [fq.map fin] (G.map fin) m 2
      = .ok (G, [fillRow G (G.map (lookupAt fthr (fq.map fin))) m 2]) := by
  have hb := withinBounds_unit _ (unit01_relay G fthr fq hu)
  have hne : m ≠ "none" := by rintro rfl; simp [fillMethods] at hm
  have hc : ¬(¬m = "linear" ∧ ¬m = "step" ∧ ¬m = "forward" ∧ ¬m = "backward") := by
    simp only [fillMethods, List.mem_cons, List.not_mem_nil, or_false] at hm
    rcases hm with h | h | h | h <;> simp [h]
  simp [addThresholds, finVals_map_fin, sortU_append_sub fthr G hG hsub, fillCdf, hb, hne, hc, bind, Except.bind, pure, Except.pure]

/-- the model of `crps_cdf` on one NaN-free case, any fill method, either integration method, unfolded -/
theorem crpsCdf_single_all (fthr fq : List Rat) (obs : Rat) (additional : List Fl) (cfg : Cfg)
    (hfill : cfg.fillF ∈ fillMethods) (hinteg : cfg.integ = "exact" ∨ cfg.integ = "trapz")
    (hf : Incr fthr) (h2 : 2 ≤ fthr.length) (hu : ∀ v ∈ fq, 0 ≤ v ∧ v ≤ 1) :
    crpsCdf fthr [fq.map fin] [fin obs] none additional cfg =
      .ok [if cfg.integ = "exact" then
            exactRow (gridOf fthr obs additional)
              (fillRow (gridOf fthr obs additional) ((gridOf fthr obs additional).map (lookupAt fthr (fq.map fin))) cfg.fillF 2)
              (observedRow (gridOf fthr obs additional) (fin obs)) ((ones (gridOf fthr obs additional)).map fin)
           else
            trapzRow (gridOf fthr obs additional)
              (fillRow (gridOf fthr obs additional) ((gridOf fthr obs additional).map (lookupAt fthr (fq.map fin))) cfg.fillF 2)
              (observedRow (gridOf fthr obs additional) (fin obs)) ((ones (gridOf fthr obs additional)).map fin)] := by
  have hG : Incr (gridOf fthr obs additional) := incr_sortU _
  have hsub : ∀ t ∈ fthr, t ∈ gridOf fthr obs additional := by
    intro t ht
    rw [gridOf, mem_sortU_iff]
    simp [ht]
  have hc : ¬(¬cfg.fillF = "linear" ∧ ¬cfg.fillF = "step" ∧ ¬cfg.fillF = "forward" ∧ ¬cfg.fillF = "backward") := by
    have hm := hfill
    simp only [fillMethods, List.mem_cons, List.not_mem_nil, or_false] at hm
    rcases hm with h | h | h | h <;> simp [h]
  have hci : ¬(¬cfg.integ = "exact" ∧ ¬cfg.integ = "trapz") := by
    rcases hinteg with h | h <;> simp [h]
  have hchk : checkInputs fthr none cfg.fillF cfg.fillW cfg.integ = .ok () := by
    have h2' : ¬ fthr.length < 2 := not_lt.mpr h2
    simp [checkInputs, hc, hci, h2', (incr_iff fthr).mpr hf, pure, Except.pure]
  have hprop : propagateNan (fq.map fin) = fq.map fin := propagateNan_of_noNan _ (anyNan_map_fin fq)
  have hrows : (if cfg.propagate = true then [fq.map fin].map propagateNan else [fq.map fin]) = [fq.map fin] := by
    split <;> simp [hprop]
  have hlenF : (fillRow (gridOf fthr obs additional) ((gridOf fthr obs additional).map (lookupAt fthr (fq.map fin))) cfg.fillF 2).length
      = (gridOf fthr obs additional).length := by
    rw [fillRow_length _ _ _ _ (by simp)]; simp
  have hre : reformat fthr [fq.map fin] [fin obs] none additional cfg.fillF cfg.fillW =
      .ok (gridOf fthr obs additional,
        [fillRow (gridOf fthr obs additional) ((gridOf fthr obs additional).map (lookupAt fthr (fq.map fin))) cfg.fillF 2],
        [observedRow (gridOf fthr obs additional) (fin obs)], [(ones (gridOf fthr obs additional)).map fin]) := by
    unfold reformat
    have e : sortU ([] ++ fthr ++ finVals [fin obs] ++ finVals additional) = gridOf fthr obs additional := by
      simp [gridOf, finVals]
    simp only [e, observedCdf_grid _ hG, addThresholds_grid_all _ fthr fq _ hfill hG hsub hu, bind, Except.bind, pure, Except.pure]
    simp [ones, one, hlenF]
  unfold crpsCdf
  simp only [hrows, Option.map_none, ite_self, hchk, bind, Except.bind]
  rw [hre]
  simp [crpsCdf.go, pure, Except.pure]

/-- **whole pipeline = Spec, all 4 fill methods × 2 integration methods** (one NaN-free case, no threshold weight) -/
theorem crpsCdf_eq_spec_all (fthr fq : List Rat) (obs : Rat) (additional : List Fl) (cfg : Cfg)
    (hfill : cfg.fillF ∈ fillMethods) (hinteg : cfg.integ = "exact" ∨ cfg.integ = "trapz")
    (hf : Incr fthr) (h2 : 2 ≤ fthr.length) (hu : ∀ v ∈ fq, 0 ≤ v ∧ v ≤ 1) :
    crpsCdf fthr [fq.map fin] [fin obs] none additional cfg =
      .ok [ofSpec (SV.Spec.CrpsCdf.crps fthr (fq.map fin) (fin obs) [] none (finVals additional) cfg.propagate
        cfg.fillF cfg.fillW cfg.integ).parts] := by
  have hG : Incr (gridOf fthr obs additional) := incr_sortU _
  have hobs := obs_mem_gridOf fthr obs additional
  have hsub : ∀ t ∈ fthr, t ∈ gridOf fthr obs additional := by
    intro t ht
    rw [gridOf, mem_sortU_iff]
    simp [ht]
  have hnan : (fq.map fin).any Fl.isNan = false := anyNan_map_fin fq
  have hgrid : union (union (union [] fthr) (union [obs] [])) (finVals additional) = gridOf fthr obs additional :=
    spec_grid fthr obs (finVals additional)
  have hw : (gridOf fthr obs additional).map (fun _ => fin 1) = (ones (gridOf fthr obs additional)).map fin := by
    simp [ones]
  have hne : cfg.fillF ≠ "none" := by
    intro h; rw [h] at hfill; simp [fillMethods] at hfill
  have hur := unit01_relay (gridOf fthr obs additional) fthr fq hu
  have hv : (valueAt fthr (fq.map fin)) = lookupAt fthr (fq.map fin) := by
    funext t; exact valueAt_eq_lookupAt _ _ t
  have hadd : SV.Spec.Cdf.addRow fthr (fq.map fin) (gridOf fthr obs additional) cfg.fillF 2 =
      fillRow (gridOf fthr obs additional) ((gridOf fthr obs additional).map (lookupAt fthr (fq.map fin))) cfg.fillF 2 := by
    unfold SV.Spec.Cdf.addRow
    simp only [union_eq_sortU, sortU_append_sub fthr _ hG hsub, hne, if_false, hv]
    exact (fillRow_eq_spec_of_mem _ _ _ 2 hfill (by simp) hG hur).symm
  rw [crpsCdf_single_all fthr fq obs additional cfg hfill hinteg hf h2 hu]
  unfold SV.Spec.CrpsCdf.crps
  simp only [hgrid, hnan, Bool.and_false, Bool.false_eq_true, if_false, hadd, hw, allFin_map_fin]
  have huf := fillRow_unit (gridOf fthr obs additional) ((gridOf fthr obs additional).map (lookupAt fthr (fq.map fin))) cfg.fillF 2 hur
  have hlenF := fillRow_length (gridOf fthr obs additional) ((gridOf fthr obs additional).map (lookupAt fthr (fq.map fin))) cfg.fillF 2 (by simp)
  generalize fillRow (gridOf fthr obs additional) ((gridOf fthr obs additional).map (lookupAt fthr (fq.map fin))) cfg.fillF 2 = f at huf hlenF
  rcases unit01_cases f huf with ⟨h1, h2'⟩ | ⟨q, rfl⟩
  · have hin : inputsWithoutNan f (observedRow (gridOf fthr obs additional) (fin obs)) ((ones (gridOf fthr obs additional)).map fin) = false := by
      simp [inputsWithoutNan, h1]
    simp only [h2', ofSpec]
    congr 1
    split
    · obtain ⟨a, b, c⟩ := exactRow_nan (gridOf fthr obs additional) f _ _ hin
      exact congrArg (· :: []) (Parts.ext' a b c)
    · obtain ⟨a, b, c⟩ := trapzRow_nan (gridOf fthr obs additional) f _ _ hin
      exact congrArg (· :: []) (Parts.ext' a b c)
  · have hql : q.length = (gridOf fthr obs additional).length := by simpa using hlenF
    simp only [allFin_map_fin, ofSpec]
    congr 1
    rcases hinteg with h | h
    · simp only [h, if_true]
      obtain ⟨a, b, c⟩ := exactRow_eq_spec obs _ q (ones (gridOf fthr obs additional)) hG (noStraddle_of_mem hG hobs) hql (by simp [ones])
      exact congrArg (· :: []) (Parts.ext' a b c)
    · have hne' : ¬ ("trapz" = "exact") := by decide
      simp only [h, hne', if_false]
      obtain ⟨a, b, c⟩ := trapzRow_eq_spec obs _ q (ones (gridOf fthr obs additional)) hql (by simp [ones])
      exact congrArg (· :: []) (Parts.ext' a b c)

end SV.Lemmas.C07Refine
