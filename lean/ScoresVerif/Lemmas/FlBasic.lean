/-
  Basic algebra of the `Fl` number model (Mathlib allowed here; the model itself is core-only).
-/
import ScoresVerif.Model.Fl
import Mathlib.Tactic.Ring
import Mathlib.Tactic.Linarith
import Mathlib.Tactic.FieldSimp
import Mathlib.Tactic.NormNum
import Mathlib.Tactic.Positivity
import Mathlib.Algebra.Order.Field.Rat
import Mathlib.Algebra.Order.Floor.Ring
import Mathlib.Data.Rat.Floor

namespace SV
open Fl

theorem rabs_eq_abs (q : Rat) : rabs q = |q| := by
  unfold rabs
  split_ifs with h
  · exact (abs_of_neg h).symm
  · exact (abs_of_nonneg (not_lt.mp h)).symm

namespace Fl

@[simp] theorem add_fin (a b : Rat) : add (fin a) (fin b) = fin (a + b) := rfl
@[simp] theorem sub_fin (a b : Rat) : sub (fin a) (fin b) = fin (a - b) := by
  simp [sub, neg, sub_eq_add_neg]
@[simp] theorem mul_fin (a b : Rat) : mul (fin a) (fin b) = fin (a * b) := rfl
@[simp] theorem neg_fin (a : Rat) : neg (fin a) = fin (-a) := rfl
@[simp] theorem abs_fin (a : Rat) : abs (fin a) = fin |a| := by simp [abs, rabs_eq_abs]
theorem div_fin (a b : Rat) (hb : b ≠ 0) : div (fin a) (fin b) = fin (a / b) := by
  simp [div, hb]
@[simp] theorem div_fin_zero_zero : div (fin 0) (fin 0) = nan := by simp [div]
theorem div_fin_zero_pos (a : Rat) (ha : 0 < a) : div (fin a) (fin 0) = pinf := by
  simp [div, ha.ne', not_lt.mpr ha.le]
theorem div_fin_zero_neg (a : Rat) (ha : a < 0) : div (fin a) (fin 0) = ninf := by
  simp [div, ha.ne, ha]

@[simp] theorem lt_fin (a b : Rat) : lt (fin a) (fin b) = decide (a < b) := rfl
@[simp] theorem le_fin (a b : Rat) : le (fin a) (fin b) = decide (a ≤ b) := rfl
@[simp] theorem gt_fin (a b : Rat) : gt (fin a) (fin b) = decide (b < a) := rfl
@[simp] theorem ge_fin (a b : Rat) : ge (fin a) (fin b) = decide (b ≤ a) := rfl
@[simp] theorem beq_fin (a b : Rat) : beq (fin a) (fin b) = decide (a = b) := rfl
@[simp] theorem isNan_fin (a : Rat) : isNan (fin a) = false := rfl
@[simp] theorem isNan_nan : isNan nan = true := rfl
@[simp] theorem notNan_fin (a : Rat) : notNan (fin a) = true := rfl
@[simp] theorem notNan_nan : notNan nan = false := rfl

@[simp] theorem add_nan_left (x : Fl) : add nan x = nan := by cases x <;> rfl
@[simp] theorem add_nan_right (x : Fl) : add x nan = nan := by cases x <;> rfl
@[simp] theorem mul_nan_left (x : Fl) : mul nan x = nan := by cases x <;> rfl
@[simp] theorem mul_nan_right (x : Fl) : mul x nan = nan := by cases x <;> rfl
@[simp] theorem div_nan_left (x : Fl) : div nan x = nan := by cases x <;> rfl
@[simp] theorem div_nan_right (x : Fl) : div x nan = nan := by cases x <;> rfl
@[simp] theorem neg_nan : neg nan = nan := rfl
@[simp] theorem sub_nan_left (x : Fl) : sub nan x = nan := by simp [sub]
@[simp] theorem sub_nan_right (x : Fl) : sub x nan = nan := by simp [sub]
@[simp] theorem abs_nan : abs nan = nan := rfl
@[simp] theorem lt_nan_left (x : Fl) : lt nan x = false := by cases x <;> rfl
@[simp] theorem lt_nan_right (x : Fl) : lt x nan = false := by cases x <;> rfl
@[simp] theorem le_nan_left (x : Fl) : le nan x = false := by cases x <;> rfl
@[simp] theorem le_nan_right (x : Fl) : le x nan = false := by cases x <;> rfl
@[simp] theorem gt_nan_left (x : Fl) : gt nan x = false := by simp [gt]
@[simp] theorem gt_nan_right (x : Fl) : gt x nan = false := by simp [gt]
@[simp] theorem ge_nan_left (x : Fl) : ge nan x = false := by simp [ge]
@[simp] theorem ge_nan_right (x : Fl) : ge x nan = false := by simp [ge]
@[simp] theorem beq_nan_left (x : Fl) : beq nan x = false := by cases x <;> rfl
@[simp] theorem beq_nan_right (x : Fl) : beq x nan = false := by cases x <;> rfl

theorem add_comm (x y : Fl) : add x y = add y x := by
  cases x <;> cases y <;> simp [add, _root_.add_comm]

theorem mul_comm (x y : Fl) : mul x y = mul y x := by
  cases x <;> cases y <;> simp [mul, _root_.mul_comm]

theorem add_assoc (x y z : Fl) : add (add x y) z = add x (add y z) := by
  cases x <;> cases y <;> cases z <;> simp [add, _root_.add_assoc]

theorem add_left_comm (x y z : Fl) : add x (add y z) = add y (add x z) := by
  rw [← add_assoc, add_comm x y, add_assoc]

/-- a value is NaN iff `isNan` says so -/
theorem isNan_iff (x : Fl) : x.isNan = true ↔ x = nan := by cases x <;> simp [isNan]

theorem add_eq_nan_of_fin {x y : Fl} (hx : x.isFinite) (hy : y.isFinite) : (add x y).isFinite := by
  cases x <;> cases y <;> simp_all [isFinite, add]

end Fl
end SV
