/-
  C07 stretch, sixth part: the whole `crps_cdf` pipeline of the model for SEVERAL cases (rows) sharing one forecast
  threshold grid, with or without a threshold weight given on its own threshold grid (one weight row per case, as the
  harness broadcasts it): closed form on the common grid `sortU (wthr ++ fthr ++ all obs ++ additional)`, and equality of
  every case with the executable Spec `SV.Spec.CrpsCdf.crps`.
-/
import ScoresVerif.Lemmas.C07PipelineAll

namespace SV.Lemmas.C07Refine
open SV SV.Model.Cdf SV.Model.CrpsCdf SV.Lemmas.Cdf SV.Lemmas.CrpsCdf SV.Lemmas.C17Fill
open SV.Fl (fin nan)
open SV.Spec.CrpsCdf (exactParts trapzParts)
open SV.Spec.Cdf (union valueAt)

/-- the common grid of `crps_cdf_reformat_inputs`: weight, forecast, ALL observations, additional thresholds -/
def gridAll (wthr fthr : List Rat) (obs additional : List Fl) : List Rat :=
  sortU (wthr ++ fthr ++ finVals obs ++ finVals additional)

theorem mem_gridAll {wthr fthr : List Rat} {obs additional : List Fl} {x : Rat} :
    x ∈ gridAll wthr fthr obs additional ↔ x ∈ wthr ∨ x ∈ fthr ∨ x ∈ finVals obs ∨ x ∈ finVals additional := by
  rw [gridAll, mem_sortU_iff]
  simp only [List.mem_append, or_assoc]

theorem withinBounds_rows (rows : List (List Fl)) (h : ∀ r ∈ rows, Unit01 r) : withinBounds rows = true := by
  unfold withinBounds
  simp only [Bool.or_eq_true, Bool.and_eq_true, List.all_eq_true]
  by_cases he : (valid rows.flatten).isEmpty
  · exact Or.inl he
  · refine Or.inr ⟨?_, ?_⟩ <;>
    · intro x hx
      have hx' : x ∈ rows.flatten := (List.mem_filter.mp hx).1
      obtain ⟨r, hr, hxr⟩ := List.mem_flatten.mp hx'
      rcases h r hr x hxr with rfl | ⟨q, rfl, h0, h1⟩
      · simp [valid] at hx
      · simp [Fl.ge, h0, h1]

/-- `observed_cdf` of all observations on the given grid -/
theorem observedCdf_rows (G : List Rat) (hG : Incr G) (hne : G ≠ []) (obs : List Fl) :
    observedCdf obs (some (G.map fin)) false 0 = .ok (G, obs.map (observedRow G)) := by
  have hall : (G.map fin).all Fl.isNan = false := by
    cases G with
    | nil => exact absurd rfl hne
    | cons x xs => simp [Fl.isNan]
  simp [observedCdf, finVals_map_fin, sortU_of_incr G hG, hall, pure, Except.pure]

/-- `add_thresholds` of a whole NaN-free array with ordinates in [0,1]: every row is re-laid and filled on the grid -/
theorem addThresholds_rows (G thr : List Rat) (qs : List (List Rat)) (m : String) (hm : m ∈ fillMethods) (hG : Incr G)
    (hsub : ∀ t ∈ thr, t ∈ G) (hu : ∀ q ∈ qs, ∀ v ∈ q, 0 ≤ v ∧ v ≤ 1) :
    addThresholds thr (qs.map (·.map fin)) (G.map fin) m 2
      = .ok (G, qs.map fun q => fillRow G (G.map (lookupAt thr (q.map fin))) m 2) := by
  have hb : withinBounds ((qs.map (·.map fin)).map fun r => G.map (lookupAt thr r)) = true := by
    apply withinBounds_rows
    intro r hr
    simp only [List.map_map, List.mem_map, Function.comp] at hr
    obtain ⟨q, hq, rfl⟩ := hr
    exact unit01_relay G thr q (hu q hq)
  have hne : m ≠ "none" := by rintro rfl; simp [fillMethods] at hm
  have hc : ¬(¬m = "linear" ∧ ¬m = "step" ∧ ¬m = "forward" ∧ ¬m = "backward") := by
    simp only [fillMethods, List.mem_cons, List.not_mem_nil, or_false] at hm
    rcases hm with h | h | h | h <;> simp [h]
  unfold addThresholds
  simp only [finVals_map_fin, sortU_append_sub thr G hG hsub, hne, if_false, fillCdf, hb]
  simp [hc, bind, Except.bind, pure, Except.pure, Function.comp]

/-! ### one row: integration = Spec cell sums, NaN on both sides otherwise -/

/-- the integration step chosen by `integration_method` -/
def rowOf (cfg : Cfg) (G : List Rat) (f o w : List Fl) : Parts :=
  if cfg.integ = "exact" then exactRow G f o w else trapzRow G f o w

theorem go_map {γ : Type} (cfg : Cfg) (G : List Rat) (cs : List γ) (F O W : γ → List Fl) :
    crpsCdf.go cfg G (cs.map F) (cs.map O) (cs.map W) = cs.map fun c => rowOf cfg G (F c) (O c) (W c) := by
  induction cs with
  | nil => rfl
  | cons c cs ih => simp only [List.map_cons, crpsCdf.go, ih, rowOf]

/-- the Spec's last step on a filled row: NaN (`none`) unless observation, forecast and weight are all numbers -/
def specRow (integ : String) (G : List Rat) (f : List Fl) (o : Fl) (w : List Fl) : Option SV.Spec.CrpsCdf.Parts :=
  match o, SV.Spec.CrpsCdf.allFin f, SV.Spec.CrpsCdf.allFin w with
  | fin q, some fq, some wq => some (if integ = "exact" then exactParts q G fq wq else trapzParts q G fq wq)
  | _, _, _ => none

theorem nanParts_eq {p : Parts} (h : p.total = nan ∧ p.under = nan ∧ p.over = nan) : p = ofSpec none :=
  Parts.ext' h.1 h.2.1 h.2.2

theorem anyNan_observedRow_nan (G : List Rat) (hne : G ≠ []) : anyNan (observedRow G nan) = true := by
  cases G with
  | nil => exact absurd rfl hne
  | cons x xs => simp [anyNan, observedRow, Fl.isNan]

theorem rowOf_eq_spec (cfg : Cfg) (hinteg : cfg.integ = "exact" ∨ cfg.integ = "trapz") (G : List Rat) (hG : Incr G)
    (hne : G ≠ []) (f w : List Fl) (hf : Unit01 f) (hw : Unit01 w) (hfl : f.length = G.length) (hwl : w.length = G.length)
    (o : Fl) (ho : o = nan ∨ ∃ q ∈ G, o = fin q) :
    rowOf cfg G f (observedRow G o) w = ofSpec (specRow cfg.integ G f o w) := by
  have hnanrow : ∀ o', inputsWithoutNan f (observedRow G o') w = false → rowOf cfg G f (observedRow G o') w = ofSpec none := by
    intro o' hin
    unfold rowOf
    split
    · exact nanParts_eq (exactRow_nan G f _ w hin)
    · exact nanParts_eq (trapzRow_nan G f _ w hin)
  rcases ho with rfl | ⟨q, hq, rfl⟩
  · rw [hnanrow nan (by simp [inputsWithoutNan, anyNan_observedRow_nan G hne])]
    simp [specRow]
  · rcases unit01_cases f hf with ⟨h1, h2⟩ | ⟨fq, rfl⟩
    · rw [hnanrow _ (by simp [inputsWithoutNan, h1])]
      simp [specRow, h2]
    · rcases unit01_cases w hw with ⟨h1, h2⟩ | ⟨wq, rfl⟩
      · rw [hnanrow _ (by simp [inputsWithoutNan, h1])]
        simp [specRow, h2]
      · have hfl' : fq.length = G.length := by simpa using hfl
        have hwl' : wq.length = G.length := by simpa using hwl
        simp only [specRow, allFin_map_fin, ofSpec, rowOf]
        rcases hinteg with h | h
        · simp only [h, if_true]
          obtain ⟨a, b, c⟩ := exactRow_eq_spec q G fq wq hG (noStraddle_of_mem hG hq) hfl' hwl'
          exact Parts.ext' a b c
        · have hne' : ¬ ("trapz" = "exact") := by decide
          simp only [h, hne', if_false]
          obtain ⟨a, b, c⟩ := trapzRow_eq_spec q G fq wq hfl' hwl'
          exact Parts.ext' a b c

/-! ### the whole pipeline for several cases, closed form -/

/-- a case: forecast ordinates (NaN-free), observation, weight ordinates (NaN-free; ignored when there is no weight) -/
abbrev Case := List Rat × Fl × List Rat

def Case.F (c : Case) : List Fl := c.1.map fin
def Case.O (c : Case) : Fl := c.2.1
def Case.W (c : Case) : List Fl := c.2.2.map fin

/-- the `threshold_weight` argument: `wthr = none` means no weight -/
def mkWeight (wthr : Option (List Rat)) (cs : List Case) : Option Weight :=
  wthr.map fun t => { thr := t, rows := cs.map Case.W }

/-- the filled forecast of a case on the grid -/
def fRow (G fthr : List Rat) (m : String) (c : Case) : List Fl := fillRow G (G.map (lookupAt fthr c.F)) m 2

/-- the filled weight of a case on the grid (ones without a weight) -/
def wRow (G : List Rat) (wthr : Option (List Rat)) (m : String) (c : Case) : List Fl :=
  match wthr with
  | none => (ones G).map fin
  | some t => fillRow G (G.map (lookupAt t c.W)) m 2

def UnitQ (q : List Rat) : Prop := ∀ v ∈ q, 0 ≤ v ∧ v ≤ 1

theorem map_propagate_id (qs : List (List Rat)) : (qs.map (·.map fin)).map propagateNan = qs.map (·.map fin) := by
  induction qs with
  | nil => rfl
  | cons q qs ih =>
    simp only [List.map_cons] at ih ⊢
    rw [ih, propagateNan_of_noNan _ (anyNan_map_fin q)]

theorem no_negative (qs : List (List Rat)) (hu : ∀ q ∈ qs, UnitQ q) :
    (qs.map (·.map fin)).any (fun r => r.any (fun x => Fl.lt x (fin 0))) = false := by
  rw [List.any_eq_false]
  intro r hr
  obtain ⟨q, hq, rfl⟩ := List.mem_map.mp hr
  simp only [Bool.not_eq_true, List.any_eq_false, List.mem_map]
  rintro x ⟨v, hv, rfl⟩
  have := (hu q hq v hv).1
  simp [Fl.lt, not_lt.mpr this]

theorem fRow_length (G fthr : List Rat) (m : String) (c : Case) : (fRow G fthr m c).length = G.length := by
  unfold fRow
  rw [fillRow_length _ _ _ _ (by simp)]; simp

theorem fRow_unit (G fthr : List Rat) (m : String) (c : Case) (hu : UnitQ c.1) : Unit01 (fRow G fthr m c) :=
  fillRow_unit _ _ _ _ (unit01_relay G fthr c.1 hu)

theorem wRow_length (G : List Rat) (wthr : Option (List Rat)) (m : String) (c : Case) : (wRow G wthr m c).length = G.length := by
  cases wthr with
  | none => simp [wRow, ones]
  | some t =>
    simp only [wRow]
    rw [fillRow_length _ _ _ _ (by simp)]; simp

theorem unit01_ones (G : List Rat) : Unit01 ((ones G).map fin) := by
  intro x hx
  simp only [ones, List.map_map, List.mem_map, Function.comp] at hx
  obtain ⟨_, _, rfl⟩ := hx
  exact Or.inr ⟨1, rfl, zero_le_one, le_rfl⟩

theorem wRow_unit (G : List Rat) (wthr : Option (List Rat)) (m : String) (c : Case) (hu : UnitQ c.2.2) :
    Unit01 (wRow G wthr m c) := by
  cases wthr with
  | none => exact unit01_ones G
  | some t => exact fillRow_unit _ _ _ _ (unit01_relay G t c.2.2 hu)

/-- **the model of `crps_cdf` on several NaN-free cases, unfolded** (with or without threshold weight, any of the four
    fill methods for forecast and weight, both integration methods, either `propagate_nans`; observations may be NaN):
    the checks and the CDF-bounds guards are silent, the common grid is the sorted union of weight, forecast, ALL
    observation and additional thresholds, and every case is integrated on its own filled rows -/
theorem crpsCdf_cases_closed (fthr : List Rat) (wthr : Option (List Rat)) (cs : List Case) (additional : List Fl) (cfg : Cfg)
    (hfill : cfg.fillF ∈ fillMethods) (hfillW : cfg.fillW ∈ fillMethods) (hinteg : cfg.integ = "exact" ∨ cfg.integ = "trapz")
    (hf : Incr fthr) (h2 : 2 ≤ fthr.length) (hwinc : ∀ t ∈ wthr, Incr t)
    (huf : ∀ c ∈ cs, UnitQ c.1) (huw : ∀ c ∈ cs, UnitQ c.2.2) :
    crpsCdf fthr (cs.map Case.F) (cs.map Case.O) (mkWeight wthr cs) additional cfg =
      .ok (cs.map fun c =>
        rowOf cfg (gridAll (wthr.getD []) fthr (cs.map Case.O) additional)
          (fRow (gridAll (wthr.getD []) fthr (cs.map Case.O) additional) fthr cfg.fillF c)
          (observedRow (gridAll (wthr.getD []) fthr (cs.map Case.O) additional) c.O)
          (wRow (gridAll (wthr.getD []) fthr (cs.map Case.O) additional) wthr cfg.fillW c)) := by
  have hG : Incr (gridAll (wthr.getD []) fthr (cs.map Case.O) additional) := incr_sortU _
  have hsub : ∀ t ∈ fthr, t ∈ gridAll (wthr.getD []) fthr (cs.map Case.O) additional := fun t ht =>
    mem_gridAll.mpr (Or.inr (Or.inl ht))
  have hne : gridAll (wthr.getD []) fthr (cs.map Case.O) additional ≠ [] := by
    cases fthr with
    | nil => simp at h2
    | cons x xs => exact List.ne_nil_of_mem (hsub x (by simp))
  have hc : ¬(¬cfg.fillF = "linear" ∧ ¬cfg.fillF = "step" ∧ ¬cfg.fillF = "forward" ∧ ¬cfg.fillF = "backward") := by
    have hm := hfill
    simp only [fillMethods, List.mem_cons, List.not_mem_nil, or_false] at hm
    rcases hm with h | h | h | h <;> simp [h]
  have hcw : ¬(¬cfg.fillW = "linear" ∧ ¬cfg.fillW = "step" ∧ ¬cfg.fillW = "forward" ∧ ¬cfg.fillW = "backward") := by
    have hm := hfillW
    simp only [fillMethods, List.mem_cons, List.not_mem_nil, or_false] at hm
    rcases hm with h | h | h | h <;> simp [h]
  have hci : ¬(¬cfg.integ = "exact" ∧ ¬cfg.integ = "trapz") := by
    rcases hinteg with h | h <;> simp [h]
  have h2' : ¬ fthr.length < 2 := not_lt.mpr h2
  have hF : cs.map Case.F = (cs.map (·.1)).map (·.map fin) := by simp [Case.F, Function.comp]
  have hW : cs.map Case.W = (cs.map (·.2.2)).map (·.map fin) := by simp [Case.W, Function.comp]
  have hrows : (if cfg.propagate = true then (cs.map Case.F).map propagateNan else cs.map Case.F) = cs.map Case.F := by
    split
    · rw [hF, map_propagate_id]
    · rfl
  have haddF : addThresholds fthr (cs.map Case.F) ((gridAll (wthr.getD []) fthr (cs.map Case.O) additional).map fin) cfg.fillF 2
      = .ok (gridAll (wthr.getD []) fthr (cs.map Case.O) additional,
          cs.map (fRow (gridAll (wthr.getD []) fthr (cs.map Case.O) additional) fthr cfg.fillF)) := by
    rw [hF, addThresholds_rows _ fthr _ _ hfill hG hsub (by
      intro q hq
      obtain ⟨c, hc, rfl⟩ := List.mem_map.mp hq
      exact huf c hc)]
    simp [fRow, Case.F, Function.comp]
  cases wthr with
  | none =>
    have hchk : checkInputs fthr none cfg.fillF cfg.fillW cfg.integ = .ok () := by
      simp [checkInputs, hc, hci, h2', (incr_iff fthr).mpr hf, pure, Except.pure]
    have hre : reformat fthr (cs.map Case.F) (cs.map Case.O) none additional cfg.fillF cfg.fillW =
        .ok (gridAll [] fthr (cs.map Case.O) additional,
          cs.map (fRow (gridAll [] fthr (cs.map Case.O) additional) fthr cfg.fillF),
          cs.map (fun c => observedRow (gridAll [] fthr (cs.map Case.O) additional) c.O),
          cs.map (wRow (gridAll [] fthr (cs.map Case.O) additional) none cfg.fillW)) := by
      unfold reformat
      have e : sortU ([] ++ fthr ++ finVals (cs.map Case.O) ++ finVals additional) = gridAll [] fthr (cs.map Case.O) additional := rfl
      simp only [Option.getD_none] at haddF hG hne
      have hones : (cs.map (fRow (gridAll [] fthr (cs.map Case.O) additional) fthr cfg.fillF)).map (fun r => r.map fun _ => one)
          = cs.map (wRow (gridAll [] fthr (cs.map Case.O) additional) none cfg.fillW) := by
        rw [List.map_map]
        apply List.map_congr_left
        intro c _
        have hl := fRow_length (gridAll [] fthr (cs.map Case.O) additional) fthr cfg.fillF c
        apply List.ext_getElem
        · simp [wRow, ones, hl]
        · intro i h1 h2
          simp [wRow, ones, one]
      simp only [e, observedCdf_rows _ hG hne, haddF, bind, Except.bind, pure, Except.pure, hones]
      rw [List.map_map]; rfl
    unfold crpsCdf
    simp only [mkWeight, Option.map_none, hrows, ite_self, hchk, bind, Except.bind]
    rw [hre]
    simp only [pure, Except.pure, Option.getD_none]
    rw [go_map]
  | some t =>
    have hti : Incr t := hwinc t rfl
    have hsubw : ∀ x ∈ t, x ∈ gridAll t fthr (cs.map Case.O) additional := fun x hx => mem_gridAll.mpr (Or.inl hx)
    have hchk : checkInputs fthr (some { thr := t, rows := cs.map Case.W }) cfg.fillF cfg.fillW cfg.integ = .ok () := by
      have hneg := no_negative (cs.map (·.2.2)) (by
        intro q hq
        obtain ⟨c, hc, rfl⟩ := List.mem_map.mp hq
        exact huw c hc)
      rw [← hW] at hneg
      simp [checkInputs, hc, hcw, hci, h2', (incr_iff fthr).mpr hf, (incr_iff t).mpr hti, hneg, pure, Except.pure]
    have hwprop : (if cfg.propagate = true then
          some ({ thr := t, rows := (cs.map Case.W).map propagateNan } : Weight)
        else some { thr := t, rows := cs.map Case.W }) = some { thr := t, rows := cs.map Case.W } := by
      split
      · rw [hW, map_propagate_id]
      · rfl
    simp only [Option.getD_some] at haddF hG hne hsub ⊢
    have haddW : addThresholds t (cs.map Case.W) ((gridAll t fthr (cs.map Case.O) additional).map fin) cfg.fillW 2
        = .ok (gridAll t fthr (cs.map Case.O) additional,
            cs.map (wRow (gridAll t fthr (cs.map Case.O) additional) (some t) cfg.fillW)) := by
      rw [hW, addThresholds_rows _ t _ _ hfillW hG hsubw (by
        intro q hq
        obtain ⟨c, hc, rfl⟩ := List.mem_map.mp hq
        exact huw c hc)]
      simp [wRow, Case.W, Function.comp]
    have hre : reformat fthr (cs.map Case.F) (cs.map Case.O) (some { thr := t, rows := cs.map Case.W }) additional cfg.fillF cfg.fillW =
        .ok (gridAll t fthr (cs.map Case.O) additional,
          cs.map (fRow (gridAll t fthr (cs.map Case.O) additional) fthr cfg.fillF),
          cs.map (fun c => observedRow (gridAll t fthr (cs.map Case.O) additional) c.O),
          cs.map (wRow (gridAll t fthr (cs.map Case.O) additional) (some t) cfg.fillW)) := by
      unfold reformat
      have e : sortU (t ++ fthr ++ finVals (cs.map Case.O) ++ finVals additional) = gridAll t fthr (cs.map Case.O) additional := rfl
      simp only [e, observedCdf_rows _ hG hne, haddF, haddW, bind, Except.bind, pure, Except.pure]
      rw [List.map_map]; rfl
    unfold crpsCdf
    simp only [mkWeight, Option.map_some, hrows, hwprop, hchk, bind, Except.bind]
    rw [hre]
    simp only [pure, Except.pure]
    rw [go_map]

/-! ### the Spec side -/

theorem spec_addRow_eq (G thr q : List Rat) (m : String) (hm : m ∈ fillMethods) (hG : Incr G) (hsub : ∀ t ∈ thr, t ∈ G)
    (hu : UnitQ q) :
    SV.Spec.Cdf.addRow thr (q.map fin) G m 2 = fillRow G (G.map (lookupAt thr (q.map fin))) m 2 := by
  have hne : m ≠ "none" := by
    intro h; rw [h] at hm; simp [fillMethods] at hm
  have hv : (valueAt thr (q.map fin)) = lookupAt thr (q.map fin) := by
    funext t; exact valueAt_eq_lookupAt _ _ t
  unfold SV.Spec.Cdf.addRow
  simp only [union_eq_sortU, sortU_append_sub thr G hG hsub, hne, if_false, hv]
  exact (fillRow_eq_spec_of_mem _ _ _ 2 hm (by simp) hG (unit01_relay G thr q hu)).symm

/-- the finite observation of a case as a (possibly empty) list -/
def obsQ : Fl → List Rat
  | fin q => [q]
  | _ => []

theorem obsQ_eq (o : Fl) : (match o with | fin q => [q] | _ => []) = obsQ o := by cases o <;> rfl

/-- the Spec for one case, reduced to its last step on ANY strictly increasing list `G` that has the members of the Spec's
    grid (`others` = further observation values of the array) -/
theorem spec_parts_eq (fthr : List Rat) (wthr : Option (List Rat)) (c : Case) (others addl : List Rat) (propagate : Bool)
    (mF mW integ : String) (G : List Rat) (hG : Incr G)
    (hmem : ∀ x, x ∈ G ↔ x ∈ wthr.getD [] ∨ x ∈ fthr ∨ x ∈ obsQ c.O ∨ x ∈ others ∨ x ∈ addl)
    (hmF : mF ∈ fillMethods) (hmW : mW ∈ fillMethods) (huf : UnitQ c.1) (huw : UnitQ c.2.2) :
    (SV.Spec.CrpsCdf.crps fthr c.F c.O others (wthr.map fun t => (t, c.W)) addl propagate mF mW integ).parts
      = specRow integ G (fRow G fthr mF c) c.O (wRow G wthr mW c) := by
  obtain ⟨fq, o, wq⟩ := c
  simp only [Case.F, Case.O, Case.W] at *
  have hsub : ∀ t ∈ fthr, t ∈ G := fun t ht => (hmem t).mpr (Or.inr (Or.inl ht))
  have hnanF : (fq.map fin).any Fl.isNan = false := anyNan_map_fin fq
  have hnanW : (wq.map fin).any Fl.isNan = false := anyNan_map_fin wq
  have hgrid : union (union (union (wthr.getD []) fthr) (union (obsQ o) others)) addl = G := by
    simp only [union_eq_sortU]
    refine incr_ext _ _ (incr_sortU _) hG (fun x => ?_)
    simp only [mem_sortU_iff, List.mem_append, hmem x, or_assoc]
  have hw : G.map (fun _ => fin 1) = (ones G).map fin := by simp [ones]
  unfold SV.Spec.CrpsCdf.crps specRow
  cases wthr with
  | none =>
    simp only [Option.getD_none] at hgrid
    cases o <;>
    · simp only [obsQ] at hgrid
      simp only [Option.map_none, hgrid, hnanF, Bool.and_false, Bool.false_eq_true, if_false,
        spec_addRow_eq G fthr fq mF hmF hG hsub huf, fRow, wRow, Case.F, hw]
      try (generalize SV.Spec.CrpsCdf.allFin (fillRow G (G.map (lookupAt fthr (fq.map fin))) mF 2) = a
           generalize SV.Spec.CrpsCdf.allFin ((ones G).map fin) = b
           cases a <;> cases b <;> rfl)
  | some t =>
    have hsubw : ∀ x ∈ t, x ∈ G := fun x hx => (hmem x).mpr (Or.inl hx)
    simp only [Option.getD_some] at hgrid
    cases o <;>
    · simp only [obsQ] at hgrid
      simp only [Option.map_some, hgrid, hnanF, hnanW, Bool.and_false, Bool.false_eq_true, if_false,
        spec_addRow_eq G fthr fq mF hmF hG hsub huf, spec_addRow_eq G t wq mW hmW hG hsubw huw, fRow, wRow, Case.F, Case.W]
      try (generalize SV.Spec.CrpsCdf.allFin (fillRow G (G.map (lookupAt fthr (fq.map fin))) mF 2) = a
           generalize SV.Spec.CrpsCdf.allFin (fillRow G (G.map (lookupAt t (wq.map fin))) mW 2) = b
           cases a <;> cases b <;> rfl)

/-! ### whole pipeline = Spec, several cases, with or without weight -/

theorem mem_finVals_iff (xs : List Fl) (q : Rat) : q ∈ finVals xs ↔ fin q ∈ xs := by
  induction xs with
  | nil => simp [finVals]
  | cons x xs ih => cases x <;> simp [finVals, ih]

theorem obsQ_sub (cs : List Case) (c : Case) (hc : c ∈ cs) : ∀ x ∈ obsQ c.O, x ∈ finVals (cs.map Case.O) := by
  intro x hx
  rw [mem_finVals_iff]
  cases ho : c.O <;> simp only [ho, obsQ, List.mem_singleton, List.not_mem_nil] at hx
  subst hx
  exact List.mem_map.mpr ⟨c, hc, ho⟩

/-- the per-case Spec value: `others` = the finite observation values of the whole array -/
def caseSpec (fthr : List Rat) (wthr : Option (List Rat)) (others : List Rat) (additional : List Fl) (cfg : Cfg) (c : Case) : Parts :=
  ofSpec (SV.Spec.CrpsCdf.crps fthr c.F c.O others (wthr.map fun t => (t, c.W)) (finVals additional) cfg.propagate
    cfg.fillF cfg.fillW cfg.integ).parts

/-- on a grid `G` that is the Spec grid of case `c`, the model row of the case is the Spec value -/
theorem row_eq_caseSpec (fthr : List Rat) (wthr : Option (List Rat)) (others : List Rat) (additional : List Fl) (cfg : Cfg)
    (c : Case) (G : List Rat) (hG : Incr G) (hne : G ≠ [])
    (hmem : ∀ x, x ∈ G ↔ x ∈ wthr.getD [] ∨ x ∈ fthr ∨ x ∈ obsQ c.O ∨ x ∈ others ∨ x ∈ finVals additional)
    (hfill : cfg.fillF ∈ fillMethods) (hfillW : cfg.fillW ∈ fillMethods) (hinteg : cfg.integ = "exact" ∨ cfg.integ = "trapz")
    (huf : UnitQ c.1) (huw : UnitQ c.2.2) (ho : c.O = nan ∨ ∃ q, c.O = fin q) :
    rowOf cfg G (fRow G fthr cfg.fillF c) (observedRow G c.O) (wRow G wthr cfg.fillW c)
      = caseSpec fthr wthr others additional cfg c := by
  unfold caseSpec
  rw [spec_parts_eq fthr wthr c others (finVals additional) cfg.propagate cfg.fillF cfg.fillW cfg.integ G hG hmem hfill hfillW huf huw]
  refine rowOf_eq_spec cfg hinteg G hG hne _ _ (fRow_unit G fthr _ c huf) (wRow_unit G wthr _ c huw)
    (fRow_length _ _ _ _) (wRow_length _ _ _ _) c.O ?_
  rcases ho with h | ⟨q, h⟩
  · exact Or.inl h
  · exact Or.inr ⟨q, (hmem q).mpr (Or.inr (Or.inr (Or.inl (by simp [h, obsQ])))), h⟩

theorem gridAll_ne_nil (wthr fthr : List Rat) (obs additional : List Fl) (h2 : 2 ≤ fthr.length) :
    gridAll wthr fthr obs additional ≠ [] := by
  cases fthr with
  | nil => simp at h2
  | cons x xs => exact List.ne_nil_of_mem (mem_gridAll.mpr (Or.inr (Or.inl (List.mem_cons_self (a := x)))))

/-- **whole pipeline = Spec for several cases**, with or without threshold weight, every option combination -/
theorem crpsCdf_cases_eq_spec (fthr : List Rat) (wthr : Option (List Rat)) (cs : List Case) (additional : List Fl) (cfg : Cfg)
    (hfill : cfg.fillF ∈ fillMethods) (hfillW : cfg.fillW ∈ fillMethods) (hinteg : cfg.integ = "exact" ∨ cfg.integ = "trapz")
    (hf : Incr fthr) (h2 : 2 ≤ fthr.length) (hwinc : ∀ t ∈ wthr, Incr t)
    (huf : ∀ c ∈ cs, UnitQ c.1) (huw : ∀ c ∈ cs, UnitQ c.2.2) (ho : ∀ c ∈ cs, c.O = nan ∨ ∃ q, c.O = fin q) :
    crpsCdf fthr (cs.map Case.F) (cs.map Case.O) (mkWeight wthr cs) additional cfg =
      .ok (cs.map (caseSpec fthr wthr (finVals (cs.map Case.O)) additional cfg)) := by
  rw [crpsCdf_cases_closed fthr wthr cs additional cfg hfill hfillW hinteg hf h2 hwinc huf huw]
  congr 1
  apply List.map_congr_left
  intro c hc
  refine row_eq_caseSpec fthr wthr _ additional cfg c _ (incr_sortU _) (gridAll_ne_nil _ _ _ _ h2) (fun x => ?_)
    hfill hfillW hinteg (huf c hc) (huw c hc) (ho c hc)
  rw [mem_gridAll]
  constructor
  · rintro (h | h | h | h)
    · exact Or.inl h
    · exact Or.inr (Or.inl h)
    · exact Or.inr (Or.inr (Or.inr (Or.inl h)))
    · exact Or.inr (Or.inr (Or.inr (Or.inr h)))
  · rintro (h | h | h | h | h)
    · exact Or.inl h
    · exact Or.inr (Or.inl h)
    · exact Or.inr (Or.inr (Or.inl (obsQ_sub cs c hc x h)))
    · exact Or.inr (Or.inr (Or.inl h))
    · exact Or.inr (Or.inr (Or.inr h))

/-! ### one case with a threshold weight (Spec with `others = []`) -/

theorem crpsCdf_weighted_eq_spec (fthr wthr fq wq : List Rat) (obs : Rat) (additional : List Fl) (cfg : Cfg)
    (hfill : cfg.fillF ∈ fillMethods) (hfillW : cfg.fillW ∈ fillMethods) (hinteg : cfg.integ = "exact" ∨ cfg.integ = "trapz")
    (hf : Incr fthr) (h2 : 2 ≤ fthr.length) (hw : Incr wthr) (huf : UnitQ fq) (huw : UnitQ wq) :
    crpsCdf fthr [fq.map fin] [fin obs] (some { thr := wthr, rows := [wq.map fin] }) additional cfg =
      .ok [ofSpec (SV.Spec.CrpsCdf.crps fthr (fq.map fin) (fin obs) [] (some (wthr, wq.map fin)) (finVals additional)
        cfg.propagate cfg.fillF cfg.fillW cfg.integ).parts] := by
  have h := crpsCdf_cases_closed fthr (some wthr) [(fq, fin obs, wq)] additional cfg hfill hfillW hinteg hf h2
    (by intro t ht; cases ht; exact hw) (by intro c hc; cases List.mem_singleton.mp hc; exact huf)
    (by intro c hc; cases List.mem_singleton.mp hc; exact huw)
  simp only [List.map_cons, List.map_nil, mkWeight, Option.map_some, Case.F, Case.O, Case.W, Option.getD_some] at h
  rw [h]
  congr 2
  have := row_eq_caseSpec fthr (some wthr) [] additional cfg (fq, fin obs, wq)
    (gridAll wthr fthr [fin obs] additional) (incr_sortU _) (gridAll_ne_nil _ _ _ _ h2)
    (fun x => by rw [mem_gridAll]; simp [obsQ, finVals, Case.O]) hfill hfillW hinteg huf huw (Or.inr ⟨obs, rfl⟩)
  simpa only [caseSpec, Case.F, Case.O, Case.W, Option.map_some] using this

/-! ### independence of the cases: linear fill + exact integration, no weight -/

/-- `m` lies within the span of the forecast thresholds -/
def InSpan (fthr : List Rat) (m : Rat) : Prop := (∃ t ∈ fthr, t ≤ m) ∧ (∃ t ∈ fthr, m ≤ t)

/-- the row of a case on the common grid of the whole array equals its row on the grid it would have alone, provided the
    OTHER observation values (those different from the case's own) lie within the span of the forecast thresholds -/
theorem row_independent (fthr : List Rat) (cs : List Case) (additional : List Fl) (cfg : Cfg)
    (hfill : cfg.fillF = "linear") (hinteg : cfg.integ = "exact") (hf : Incr fthr) (h2 : 2 ≤ fthr.length)
    (fq : List Rat) (obs : Rat) (wq : List Rat) (hc : (fq, fin obs, wq) ∈ cs) (hlen : fq.length = fthr.length) (hu : UnitQ fq)
    (hspan : ∀ m ∈ finVals (cs.map Case.O), m ≠ obs → InSpan fthr m) :
    rowOf cfg (gridAll [] fthr (cs.map Case.O) additional)
        (fRow (gridAll [] fthr (cs.map Case.O) additional) fthr cfg.fillF (fq, fin obs, wq))
        (observedRow (gridAll [] fthr (cs.map Case.O) additional) (fin obs))
        (wRow (gridAll [] fthr (cs.map Case.O) additional) none cfg.fillW (fq, fin obs, wq))
      = rowOf cfg (gridOf fthr obs additional) (fRow (gridOf fthr obs additional) fthr cfg.fillF (fq, fin obs, wq))
        (observedRow (gridOf fthr obs additional) (fin obs)) (wRow (gridOf fthr obs additional) none cfg.fillW (fq, fin obs, wq)) := by
  have hG0 : Incr (gridOf fthr obs additional) := incr_sortU _
  have hobs0 := obs_mem_gridOf fthr obs additional
  have hsub0 : ∀ t ∈ fthr, t ∈ gridOf fthr obs additional := by
    intro t ht
    rw [gridOf, mem_sortU_iff]
    simp [ht]
  have hobsmem : obs ∈ finVals (cs.map Case.O) := (mem_finVals_iff _ _).mpr (List.mem_map.mpr ⟨_, hc, rfl⟩)
  have hgrid : gridAll [] fthr (cs.map Case.O) additional
      = ((finVals (cs.map Case.O)).filter (fun m => decide (m ≠ obs))).foldr insertU (gridOf fthr obs additional) := by
    refine incr_ext _ _ (incr_sortU _) (incr_foldr_insertU _ _ hG0) (fun x => ?_)
    rw [mem_gridAll, mem_foldr_insertU_iff, gridOf, mem_sortU_iff]
    simp only [List.not_mem_nil, false_or, List.mem_filter, decide_eq_true_eq, List.mem_append, List.mem_singleton]
    constructor
    · rintro (h | h | h)
      · exact Or.inr (Or.inl (Or.inl h))
      · by_cases e : x = obs
        · exact Or.inr (Or.inl (Or.inr e))
        · exact Or.inl ⟨h, e⟩
      · exact Or.inr (Or.inr h)
    · rintro (⟨h, _⟩ | (h | h) | h)
      · exact Or.inr (Or.inl h)
      · exact Or.inl h
      · exact Or.inr (Or.inl (h ▸ hobsmem))
      · exact Or.inr (Or.inr h)
  have hms : ∀ m ∈ (finVals (cs.map Case.O)).filter (fun m => decide (m ≠ obs)), InSpan fthr m := by
    intro m hm
    obtain ⟨h1, h2⟩ := List.mem_filter.mp hm
    exact hspan m h1 (by simpa using h2)
  rw [hgrid]
  generalize (finVals (cs.map Case.O)).filter (fun m => decide (m ≠ obs)) = ms at hms
  generalize gridOf fthr obs additional = G at hG0 hobs0 hsub0
  cases G with
  | nil => simp at hobs0
  | cons p rest =>
    have hW : OnCells (fun a b => ∀ m ∈ ms, a < m → m < b → ConstOn (fun _ => (1 : Rat)) a b) (p :: rest) :=
      onCells_mono (fun a b _ m _ _ _ t _ _ => rfl) _ (cells_sep _ hG0)
    have := exactRow_refine_fill obs fthr fq (fun _ => 1) p rest ms hG0 (noStraddle_of_mem hG0 hobs0) hf hlen h2 hu hsub0 hms hW
    simp only [rowOf, hinteg, if_true, fRow, wRow, hfill, Case.F, ones]
    rw [this]

/-- **independence of the cases** (no weight, linear fill, exact integration): if for every case the observation values of
    the OTHER cases that differ from its own lie within the span of the forecast thresholds, every case gets exactly the
    value it would get alone (`caseSpec … others = []`) -/
theorem crpsCdf_cases_independent (fthr : List Rat) (cs : List Case) (additional : List Fl) (cfg : Cfg)
    (hfill : cfg.fillF = "linear") (hfillW : cfg.fillW ∈ fillMethods) (hinteg : cfg.integ = "exact")
    (hf : Incr fthr) (h2 : 2 ≤ fthr.length)
    (hlen : ∀ c ∈ cs, c.1.length = fthr.length) (huf : ∀ c ∈ cs, UnitQ c.1) (huw : ∀ c ∈ cs, UnitQ c.2.2)
    (ho : ∀ c ∈ cs, c.O = nan ∨ ∃ q, c.O = fin q)
    (hspan : ∀ c ∈ cs, ∀ m ∈ finVals (cs.map Case.O), fin m ≠ c.O → InSpan fthr m) :
    crpsCdf fthr (cs.map Case.F) (cs.map Case.O) none additional cfg =
      .ok (cs.map (caseSpec fthr none [] additional cfg)) := by
  have hfm : cfg.fillF ∈ fillMethods := by rw [hfill]; simp [fillMethods]
  have hi : cfg.integ = "exact" ∨ cfg.integ = "trapz" := Or.inl hinteg
  have hclosed := crpsCdf_cases_closed fthr none cs additional cfg hfm hfillW hi hf h2 (by intro t ht; cases ht) huf huw
  simp only [mkWeight, Option.map_none, Option.getD_none] at hclosed
  rw [hclosed]
  congr 1
  apply List.map_congr_left
  intro c hc
  obtain ⟨fq, o, wq⟩ := c
  have hne := gridAll_ne_nil [] fthr (cs.map Case.O) additional h2
  have hne0 : sortU (fthr ++ finVals additional) ≠ [] := by
    cases fthr with
    | nil => simp at h2
    | cons x xs => exact List.ne_nil_of_mem ((mem_sortU_iff _).mpr (List.mem_append_left _ (List.mem_cons_self (a := x))))
  have hspec : ∀ G : List Rat, Incr G → G ≠ [] →
      (∀ x, x ∈ G ↔ x ∈ (none : Option (List Rat)).getD [] ∨ x ∈ fthr ∨ x ∈ obsQ o ∨ x ∈ ([] : List Rat) ∨ x ∈ finVals additional) →
      rowOf cfg G (fRow G fthr cfg.fillF (fq, o, wq)) (observedRow G o) (wRow G none cfg.fillW (fq, o, wq))
        = caseSpec fthr none [] additional cfg (fq, o, wq) := fun G hG hGne hmem =>
    row_eq_caseSpec fthr none [] additional cfg (fq, o, wq) G hG hGne hmem hfm hfillW hi (huf _ hc) (huw _ hc) (ho _ hc)
  rcases ho _ hc with h | ⟨q, h⟩
  · -- a NaN observation gives NaN on any grid
    simp only [Case.O] at h
    subst h
    have hr : ∀ G : List Rat, Incr G → G ≠ [] →
        rowOf cfg G (fRow G fthr cfg.fillF (fq, nan, wq)) (observedRow G nan) (wRow G none cfg.fillW (fq, nan, wq)) = ofSpec none := by
      intro G hG hGne
      rw [rowOf_eq_spec cfg hi G hG hGne _ _ (fRow_unit G fthr _ _ (huf _ hc)) (wRow_unit G none _ _ (huw _ hc))
        (fRow_length _ _ _ _) (wRow_length _ _ _ _) nan (Or.inl rfl)]
      simp [specRow]
    exact (hr (gridAll [] fthr (cs.map Case.O) additional) (incr_sortU _) hne).trans
      ((hr (sortU (fthr ++ finVals additional)) (incr_sortU _) hne0).symm.trans
        (hspec _ (incr_sortU _) hne0 (fun x => by rw [mem_sortU_iff]; simp [obsQ])))
  · simp only [Case.O] at h
    subst h
    have hri := row_independent fthr cs additional cfg hfill hinteg hf h2 fq q wq hc (hlen _ hc) (huf _ hc)
      (fun m hm hmq => hspan _ hc m hm (by simpa [Case.O] using hmq))
    exact hri.trans (hspec (gridOf fthr q additional) (incr_sortU _) (List.ne_nil_of_mem (obs_mem_gridOf fthr q additional))
      (fun x => by rw [gridOf, mem_sortU_iff]; simp [obsQ]))

end SV.Lemmas.C07Refine
