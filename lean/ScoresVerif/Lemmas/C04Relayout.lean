/-
  C04 — positional storage: the fibre that a reduction sees over a label of a re-laid-out array is a
  permutation of the fibre of the original array.  Index combinatorics of `SV.Arr.assignments`,
  `restrict`, `InRange` under a permutation of the (dimension, size) pairs.
-/
import ScoresVerif.Lemmas.Arr
import Mathlib.Data.List.Perm.Basic
import Mathlib.Data.List.Nodup

namespace SV.Arr

/-! ### `InRange` through the zipped (dimension, size) pairs -/

theorem inRange_iff : ∀ (ds : List String) (ns : List Nat) (asg : Asg),
    InRange ds ns asg ↔ ds.length = ns.length ∧ ∀ p ∈ ds.zip ns, lookup asg p.1 < p.2
  | [], [], _ => by simp [InRange]
  | [], _ :: _, _ => by simp [InRange]
  | _ :: _, [], _ => by simp [InRange]
  | d :: ds, n :: ns, asg => by
    simp only [InRange, inRange_iff ds ns asg, List.length_cons, List.zip_cons_cons, List.mem_cons,
      forall_eq_or_imp, add_left_inj]
    tauto

theorem InRange.length {ds : List String} {ns : List Nat} {asg : Asg} (h : InRange ds ns asg) :
    ds.length = ns.length := ((inRange_iff ds ns asg).mp h).1

theorem inRange_congr {ds : List String} {ns : List Nat} {a₁ a₂ : Asg}
    (h : ∀ d ∈ ds, lookup a₁ d = lookup a₂ d) (hr : InRange ds ns a₁) : InRange ds ns a₂ := by
  rw [inRange_iff] at hr ⊢
  refine ⟨hr.1, fun p hp => ?_⟩
  rw [← h p.1 (List.of_mem_zip hp).1]
  exact hr.2 p hp

theorem inRange_perm {ds ds' : List String} {ns ns' : List Nat} {asg : Asg}
    (hp : (ds'.zip ns').Perm (ds.zip ns)) (hl' : ds'.length = ns'.length)
    (hr : InRange ds ns asg) : InRange ds' ns' asg := by
  rw [inRange_iff] at hr ⊢
  exact ⟨hl', fun p h => hr.2 p (hp.mem_iff.mp h)⟩

theorem restrict_congr {ds : List String} {a₁ a₂ : Asg} (h : ∀ d ∈ ds, lookup a₁ d = lookup a₂ d) :
    restrict ds a₁ = restrict ds a₂ := by
  unfold restrict
  exact List.map_congr_left fun d hd => by rw [h d hd]

theorem restrict_restrict {ds es : List String} (asg : Asg) (h : ∀ d ∈ ds, d ∈ es) :
    restrict ds (restrict es asg) = restrict ds asg :=
  restrict_congr fun d hd => lookup_restrict es asg d (h d hd)

theorem lookup_cons_self (d : String) (i : Nat) (r : Asg) : lookup ((d, i) :: r) d = i := by
  simp [lookup, List.lookup]

theorem lookup_cons_ne {d d' : String} (i : Nat) (r : Asg) (h : d' ≠ d) :
    lookup ((d, i) :: r) d' = lookup r d' := by
  have : (d' == d) = false := by simpa using h
  simp [lookup, List.lookup, this]

theorem lookup_restrict_not_mem (ds : List String) (asg : Asg) (d : String) (hd : d ∉ ds) :
    List.lookup d (restrict ds asg) = none := by
  unfold restrict
  induction ds with
  | nil => rfl
  | cons d' ds ih =>
    have hne : (d == d') = false := by
      have : d ≠ d' := fun h => hd (by simp [h])
      simpa using this
    simp only [List.map_cons, List.lookup, hne]
    exact ih (fun h => hd (List.mem_cons_of_mem _ h))

theorem lookup_restrict_some (ds : List String) (asg : Asg) (d : String) (hd : d ∈ ds) :
    List.lookup d (restrict ds asg) = some (lookup asg d) := by
  unfold restrict
  induction ds with
  | nil => simp at hd
  | cons d' ds ih =>
    by_cases h : d = d'
    · subst h; simp
    · have hne : (d == d') = false := by simpa using h
      have hd' : d ∈ ds := by
        rcases List.mem_cons.mp hd with h' | h'
        · exact absurd h' h
        · exact h'
      simp only [List.map_cons, List.lookup, hne]
      exact ih hd'

/-- in `restrict ks asg ++ r` the kept dimensions are read from `asg` … -/
theorem lookup_restrict_append_mem (ks : List String) (asg r : Asg) (d : String) (hd : d ∈ ks) :
    lookup (restrict ks asg ++ r) d = lookup asg d := by
  unfold lookup
  rw [List.lookup_append, lookup_restrict_some ks asg d hd]
  rfl

/-- … and every other dimension from `r` -/
theorem lookup_restrict_append_not_mem (ks : List String) (asg r : Asg) (d : String) (hd : d ∉ ks) :
    lookup (restrict ks asg ++ r) d = lookup r d := by
  unfold lookup
  rw [List.lookup_append, lookup_restrict_not_mem ks asg d hd]
  rfl

/-! ### The list of all assignments -/

/-- every enumerated assignment lists exactly the dimensions, in order, with indices inside the shape -/
theorem of_mem_assignments : ∀ (ds : List String) (ns : List Nat) (r : Asg), ds.Nodup → ds.length = ns.length →
    r ∈ assignments ds ns → restrict ds r = r ∧ InRange ds ns r
  | [], [], r, _, _, h => by
    simp only [assignments, List.mem_singleton] at h
    subst h; exact ⟨rfl, trivial⟩
  | [], _ :: _, _, _, hl, _ => by simp at hl
  | _ :: _, [], _, _, hl, _ => by simp at hl
  | d :: ds, n :: ns, r, hn, hl, h => by
    simp only [assignments, List.mem_flatMap, List.mem_range, List.mem_map] at h
    obtain ⟨i, hi, r0, hr0, rfl⟩ := h
    obtain ⟨hd, hn'⟩ := List.nodup_cons.mp hn
    obtain ⟨ih1, ih2⟩ := of_mem_assignments ds ns r0 hn' (by simpa using hl) hr0
    have hagree : ∀ d' ∈ ds, lookup r0 d' = lookup ((d, i) :: r0) d' := fun d' hd' =>
      (lookup_cons_ne i r0 (fun h : d' = d => hd (h ▸ hd'))).symm
    constructor
    · show (d, lookup ((d, i) :: r0) d) :: restrict ds ((d, i) :: r0) = (d, i) :: r0
      rw [lookup_cons_self, ← restrict_congr hagree, ih1]
    · exact ⟨by rw [lookup_cons_self]; exact hi, inRange_congr hagree ih2⟩

/-- conversely every in-range assignment, restricted to the dimensions, is enumerated -/
theorem restrict_mem_assignments (ds : List String) (ns : List Nat) (asg : Asg) (h : InRange ds ns asg) :
    restrict ds asg ∈ assignments ds ns :=
  List.mem_of_getElem? (getElem?_assignments ds ns asg h)

theorem nodup_assignments : ∀ (ds : List String) (ns : List Nat), (assignments ds ns).Nodup
  | [], [] => by simp [assignments]
  | [], _ :: _ => by simp [assignments]
  | _ :: _, [] => by simp [assignments]
  | d :: ds, n :: ns => by
    simp only [assignments]
    rw [List.nodup_flatMap]
    constructor
    · intro i _
      exact (nodup_assignments ds ns).map (fun r₁ r₂ h => by simpa using h)
    · refine List.Pairwise.imp_of_mem ?_ (List.nodup_range (n := n))
      intro i j _ _ hij
      simp only [Function.onFun]
      rw [List.disjoint_left]
      intro x hx hy
      obtain ⟨r₁, _, rfl⟩ := List.mem_map.mp hx
      obtain ⟨r₂, _, h⟩ := List.mem_map.mp hy
      simp only [List.cons.injEq, Prod.mk.injEq, true_and] at h
      exact hij h.1.symm

/-- **Re-ordering the dimensions permutes the enumeration**: the assignments of a permuted list of
    (dimension, size) pairs are, up to order, the original assignments re-ordered entry by entry. -/
theorem assignments_perm {ds ds' : List String} {ns ns' : List Nat} (hn : ds.Nodup) (hn' : ds'.Nodup)
    (hl : ds.length = ns.length) (hl' : ds'.length = ns'.length) (hp : (ds'.zip ns').Perm (ds.zip ns)) :
    ((assignments ds ns).map (restrict ds')).Perm (assignments ds' ns') := by
  have hdp : ds'.Perm ds := by
    have := hp.map Prod.fst
    rwa [List.map_fst_zip (le_of_eq hl'), List.map_fst_zip (le_of_eq hl)] at this
  have hsub : ∀ d ∈ ds, d ∈ ds' := fun d hd => hdp.mem_iff.mpr hd
  have hsub' : ∀ d ∈ ds', d ∈ ds := fun d hd => hdp.mem_iff.mp hd
  refine (List.perm_ext_iff_of_nodup ?_ (nodup_assignments ds' ns')).mpr fun x => ?_
  · refine List.Nodup.map_on ?_ (nodup_assignments ds ns)
    intro r₁ h₁ r₂ h₂ he
    obtain ⟨e₁, _⟩ := of_mem_assignments ds ns r₁ hn hl h₁
    obtain ⟨e₂, _⟩ := of_mem_assignments ds ns r₂ hn hl h₂
    rw [← e₁, ← e₂, ← restrict_restrict r₁ hsub, ← restrict_restrict r₂ hsub, he]
  · constructor
    · intro hx
      obtain ⟨r, hr, rfl⟩ := List.mem_map.mp hx
      obtain ⟨_, hin⟩ := of_mem_assignments ds ns r hn hl hr
      exact restrict_mem_assignments ds' ns' r (inRange_perm hp hl' hin)
    · intro hx
      obtain ⟨e, hin⟩ := of_mem_assignments ds' ns' x hn' hl' hx
      refine List.mem_map.mpr ⟨restrict ds x, restrict_mem_assignments ds ns x (inRange_perm hp.symm hl hin), ?_⟩
      rw [restrict_restrict x hsub', e]

/-! ### Well-formed arrays and "the same labelled values in another layout" -/

/-- distinct dimension names, one size per dimension (what xarray guarantees of a DataArray) -/
structure WF (a : Arr) : Prop where
  nodup : a.dims.Nodup
  len : a.dims.length = a.shape.length

/-- `a'` is another layout of `a`: the same (dimension, size) pairs in any order, and the same value
    at every in-range label -/
structure SameLabelled (a a' : Arr) : Prop where
  wf : WF a
  wf' : WF a'
  perm : (a'.dims.zip a'.shape).Perm (a.dims.zip a.shape)
  get_eq : ∀ x, InRange a.dims a.shape x → a'.get x = a.get x

theorem SameLabelled.refl {a : Arr} (h : WF a) : SameLabelled a a := ⟨h, h, List.Perm.refl _, fun _ _ => rfl⟩

theorem SameLabelled.dims_perm {a a' : Arr} (h : SameLabelled a a') : a'.dims.Perm a.dims := by
  have := h.perm.map Prod.fst
  rwa [List.map_fst_zip (le_of_eq h.wf'.len), List.map_fst_zip (le_of_eq h.wf.len)] at this

theorem SameLabelled.symm {a a' : Arr} (h : SameLabelled a a') : SameLabelled a' a :=
  ⟨h.wf', h.wf, h.perm.symm, fun x hx => (h.get_eq x (inRange_perm h.perm.symm h.wf.len hx)).symm⟩

theorem SameLabelled.trans {a b c : Arr} (h₁ : SameLabelled a b) (h₂ : SameLabelled b c) : SameLabelled a c :=
  ⟨h₁.wf, h₂.wf', h₂.perm.trans h₁.perm, fun x hx => by
    rw [h₂.get_eq x (inRange_perm h₁.perm h₁.wf'.len hx), h₁.get_eq x hx]⟩

/-- a transposed copy (`relayout` to a permutation of the dimension/size pairs) is another layout -/
theorem sameLabelled_relayout {a : Arr} (h : WF a) {dims : List String} {shape : List Nat}
    (hl : dims.length = shape.length) (hp : (dims.zip shape).Perm (a.dims.zip a.shape)) :
    SameLabelled a (a.relayout dims shape) := by
  have hdp : dims.Perm a.dims := by
    have := hp.map Prod.fst
    rwa [List.map_fst_zip (le_of_eq hl), List.map_fst_zip (le_of_eq h.len)] at this
  refine ⟨h, ⟨hdp.nodup_iff.mpr h.nodup, hl⟩, hp, fun x hx => ?_⟩
  exact relayout_get a dims shape x (fun d hd => hdp.mem_iff.mpr hd) (inRange_perm hp hl hx)

/-! ### Kept / removed dimensions of a reduction -/

theorem zip_map_fst_snd {α β : Type} (l : List (α × β)) : (l.map (·.1)).zip (l.map (·.2)) = l := by
  induction l with
  | nil => rfl
  | cons p l ih => simp [ih]

theorem keptZip (R : List String) (a : Arr) :
    (keptDims R a).zip (keptShape R a) = (a.dims.zip a.shape).filter (fun p => !R.contains p.1) :=
  zip_map_fst_snd _

theorem goneZip (R : List String) (a : Arr) :
    (goneDims R a).zip (goneShape R a) = (a.dims.zip a.shape).filter (fun p => R.contains p.1) :=
  zip_map_fst_snd _

theorem kept_len (R : List String) (a : Arr) : (keptDims R a).length = (keptShape R a).length := by
  simp [keptDims, keptShape]

theorem gone_len (R : List String) (a : Arr) : (goneDims R a).length = (goneShape R a).length := by
  simp [goneDims, goneShape]

theorem keptDims_sublist (R : List String) (a : Arr) (h : WF a) : (keptDims R a).Sublist a.dims := by
  have := (List.filter_sublist (p := fun p : String × Nat => !R.contains p.1) (l := a.dims.zip a.shape)).map Prod.fst
  rwa [List.map_fst_zip (le_of_eq h.len)] at this

theorem goneDims_sublist (R : List String) (a : Arr) (h : WF a) : (goneDims R a).Sublist a.dims := by
  have := (List.filter_sublist (p := fun p : String × Nat => R.contains p.1) (l := a.dims.zip a.shape)).map Prod.fst
  rwa [List.map_fst_zip (le_of_eq h.len)] at this

theorem mem_zip_of_mem_dims {a : Arr} (h : WF a) {d : String} (hd : d ∈ a.dims) :
    ∃ n, (d, n) ∈ a.dims.zip a.shape := by
  obtain ⟨i, hi, rfl⟩ := List.getElem_of_mem hd
  have hi' : i < a.shape.length := by have := h.len; omega
  refine ⟨a.shape[i], ?_⟩
  rw [List.mem_iff_getElem]
  exact ⟨i, by simp [List.length_zip]; omega, by simp⟩

theorem mem_keptDims {R : List String} {a : Arr} (h : WF a) {d : String} :
    d ∈ keptDims R a ↔ d ∈ a.dims ∧ d ∉ R := by
  unfold keptDims
  constructor
  · intro hm
    obtain ⟨p, hp, rfl⟩ := List.mem_map.mp hm
    obtain ⟨hz, hR⟩ := List.mem_filter.mp hp
    exact ⟨(List.of_mem_zip hz).1, by simpa using hR⟩
  · rintro ⟨hd, hR⟩
    obtain ⟨n, hn⟩ := mem_zip_of_mem_dims h hd
    exact List.mem_map.mpr ⟨(d, n), List.mem_filter.mpr ⟨hn, by simpa using hR⟩, rfl⟩

theorem mem_goneDims {R : List String} {a : Arr} (h : WF a) {d : String} :
    d ∈ goneDims R a ↔ d ∈ a.dims ∧ d ∈ R := by
  unfold goneDims
  constructor
  · intro hm
    obtain ⟨p, hp, rfl⟩ := List.mem_map.mp hm
    obtain ⟨hz, hR⟩ := List.mem_filter.mp hp
    exact ⟨(List.of_mem_zip hz).1, by simpa using hR⟩
  · rintro ⟨hd, hR⟩
    obtain ⟨n, hn⟩ := mem_zip_of_mem_dims h hd
    exact List.mem_map.mpr ⟨(d, n), List.mem_filter.mpr ⟨hn, by simpa using hR⟩, rfl⟩

/-- an assignment is in range of the whole array iff it is in range of the kept and of the removed part -/
theorem inRange_split (R : List String) (a : Arr) (h : WF a) (x : Asg) :
    InRange a.dims a.shape x ↔
      InRange (keptDims R a) (keptShape R a) x ∧ InRange (goneDims R a) (goneShape R a) x := by
  simp only [inRange_iff, keptZip, goneZip, kept_len, gone_len, h.len, true_and, List.mem_filter]
  constructor
  · intro hx; exact ⟨fun p hp => hx p hp.1, fun p hp => hx p hp.1⟩
  · rintro ⟨h1, h2⟩ p hp
    by_cases hR : R.contains p.1 = true
    · exact h2 p ⟨hp, hR⟩
    · exact h1 p ⟨hp, by simpa using hR⟩

/-- the fibre a reduction over `R` sees at the label `asg` -/
def fibre (R : List String) (a : Arr) (asg : Asg) : List Fl :=
  (assignments (goneDims R a) (goneShape R a)).map fun r => a.get (restrict (keptDims R a) asg ++ r)

theorem reduceOver_get_fibre (red : List Fl → Fl) (R : List String) (a : Arr) (asg : Asg)
    (hr : InRange (keptDims R a) (keptShape R a) asg) :
    (reduceOver red R a).get asg = red (fibre R a asg) := reduceOver_get red R a asg hr

/-- **The fibre of another layout is a permutation of the original fibre.** -/
theorem fibre_perm {a a' : Arr} (h : SameLabelled a a') (R : List String) (asg : Asg)
    (hr : InRange (keptDims R a) (keptShape R a) asg) :
    (fibre R a' asg).Perm (fibre R a asg) := by
  have hgp : ((goneDims R a').zip (goneShape R a')).Perm ((goneDims R a).zip (goneShape R a)) := by
    rw [goneZip, goneZip]; exact h.perm.filter _
  have hgn : (goneDims R a).Nodup := (goneDims_sublist R a h.wf).nodup h.wf.nodup
  have hgn' : (goneDims R a').Nodup := (goneDims_sublist R a' h.wf').nodup h.wf'.nodup
  have hA := assignments_perm hgn hgn' (gone_len R a) (gone_len R a') hgp
  have hmem : ∀ d, d ∈ a'.dims ↔ d ∈ a.dims := fun d => h.dims_perm.mem_iff
  unfold fibre
  refine ((hA.map _).symm).trans ?_
  rw [List.map_map]
  refine List.Perm.of_eq (List.map_congr_left fun r hrm => ?_)
  obtain ⟨_, hrin⟩ := of_mem_assignments _ _ r hgn (gone_len R a) hrm
  -- lookups of the two composite assignments agree on every dimension of `a`
  have hlk : ∀ d ∈ a.dims, lookup (restrict (keptDims R a') asg ++ restrict (goneDims R a') r) d
      = lookup (restrict (keptDims R a) asg ++ r) d := by
    intro d hd
    by_cases hR : d ∈ R
    · have h1 : d ∉ keptDims R a' := fun hk => (mem_keptDims h.wf').mp hk |>.2 hR
      have h2 : d ∉ keptDims R a := fun hk => (mem_keptDims h.wf).mp hk |>.2 hR
      have h3 : d ∈ goneDims R a' := (mem_goneDims h.wf').mpr ⟨(hmem d).mpr hd, hR⟩
      rw [lookup_restrict_append_not_mem _ _ _ _ h1, lookup_restrict_append_not_mem _ _ _ _ h2,
        lookup_restrict _ _ _ h3]
    · have h1 : d ∈ keptDims R a' := (mem_keptDims h.wf').mpr ⟨(hmem d).mpr hd, hR⟩
      have h2 : d ∈ keptDims R a := (mem_keptDims h.wf).mpr ⟨hd, hR⟩
      rw [lookup_restrict_append_mem _ _ _ _ h1, lookup_restrict_append_mem _ _ _ _ h2]
  -- the original composite assignment is in range
  have hin : InRange a.dims a.shape (restrict (keptDims R a) asg ++ r) := by
    rw [inRange_split R a h.wf]
    constructor
    · refine inRange_congr (fun d hd => ?_) hr
      rw [lookup_restrict_append_mem _ _ _ _ hd]
    · refine inRange_congr (fun d hd => ?_) hrin
      have : d ∉ keptDims R a := fun hk =>
        ((mem_keptDims h.wf).mp hk).2 ((mem_goneDims h.wf).mp hd).2
      rw [lookup_restrict_append_not_mem _ _ _ _ this]
  have hin' : InRange a.dims a.shape (restrict (keptDims R a') asg ++ restrict (goneDims R a') r) :=
    inRange_congr (fun d hd => (hlk d hd).symm) hin
  show a'.get _ = a.get _
  rw [h.get_eq _ hin']
  unfold get
  rw [flatIndex_congr a.dims a.shape _ _ hlk]

/-- hence any permutation-invariant reduction of another layout has the same value at every kept label -/
theorem reduceOver_sameLabelled {red : List Fl → Fl} (hred : ∀ l₁ l₂ : List Fl, l₁.Perm l₂ → red l₁ = red l₂)
    {a a' : Arr} (h : SameLabelled a a') (R : List String) (asg : Asg)
    (hr : InRange (keptDims R a) (keptShape R a) asg) :
    (reduceOver red R a').get asg = (reduceOver red R a).get asg := by
  have hr' : InRange (keptDims R a') (keptShape R a') asg := by
    refine inRange_perm ?_ (kept_len R a') hr
    rw [keptZip, keptZip]; exact h.perm.filter _
  rw [reduceOver_get_fibre red R a' asg hr', reduceOver_get_fibre red R a asg hr]
  exact hred _ _ (fibre_perm h R asg hr)

/-- the reduced array of another layout is another layout of the reduced array -/
theorem sameLabelled_reduceOver {red : List Fl → Fl} (hred : ∀ l₁ l₂ : List Fl, l₁.Perm l₂ → red l₁ = red l₂)
    {a a' : Arr} (h : SameLabelled a a') (R : List String) :
    SameLabelled (reduceOver red R a) (reduceOver red R a') := by
  refine ⟨⟨(keptDims_sublist R a h.wf).nodup h.wf.nodup, kept_len R a⟩,
    ⟨(keptDims_sublist R a' h.wf').nodup h.wf'.nodup, kept_len R a'⟩, ?_, fun x hx => ?_⟩
  · show ((keptDims R a').zip (keptShape R a')).Perm ((keptDims R a).zip (keptShape R a))
    rw [keptZip, keptZip]; exact h.perm.filter _
  · exact reduceOver_sameLabelled hred h R x hx

/-! ### Pointwise combination (broadcast by name) of other layouts -/

/-- the two operands agree on the size of every dimension they share (xarray raises otherwise) -/
def Compat (a b : Arr) : Prop :=
  ∀ d n m, (d, n) ∈ a.dims.zip a.shape → (d, m) ∈ b.dims.zip b.shape → n = m

theorem lookup_of_mem_nodup : ∀ (l : List (String × Nat)), (l.map Prod.fst).Nodup → ∀ d n, (d, n) ∈ l →
    l.lookup d = some n
  | [], _, _, _, h => by simp at h
  | (d', n') :: l, hn, d, n, h => by
    simp only [List.map_cons, List.nodup_cons] at hn
    rcases List.mem_cons.mp h with h | h
    · cases h; simp [List.lookup]
    · have hne : d ≠ d' := fun he => hn.1 (he ▸ List.mem_map.mpr ⟨(d, n), h, rfl⟩)
      have : (d == d') = false := by simpa using hne
      simp only [List.lookup, this]
      exact lookup_of_mem_nodup l hn.2 d n h

theorem zip_nodup {a : Arr} (h : WF a) : (a.dims.zip a.shape).Nodup := by
  apply List.Nodup.of_map Prod.fst
  rw [List.map_fst_zip (le_of_eq h.len)]; exact h.nodup

theorem sizeOf_eq {a : Arr} (h : WF a) {d : String} {n : Nat} (hm : (d, n) ∈ a.dims.zip a.shape) :
    a.sizeOf d = n := by
  unfold sizeOf
  rw [lookup_of_mem_nodup _ (by rw [List.map_fst_zip (le_of_eq h.len)]; exact h.nodup) d n hm]

theorem zip_map_self {α β : Type} (l : List α) (g : α → β) : l.zip (l.map g) = l.map fun x => (x, g x) := by
  induction l with
  | nil => rfl
  | cons x l ih => simp [ih]

theorem zipWith_dims (f : Fl → Fl → Fl) (a b : Arr) :
    (zipWith f a b).dims = a.dims ++ b.dims.filter (fun d => !a.dims.contains d) := rfl

theorem zipWith_shape (f : Fl → Fl → Fl) (a b : Arr) :
    (zipWith f a b).shape = a.shape ++ (b.dims.filter (fun d => !a.dims.contains d)).map b.sizeOf := rfl

theorem wf_zipWith (f : Fl → Fl → Fl) {a b : Arr} (ha : WF a) (hb : WF b) : WF (zipWith f a b) := by
  constructor
  · rw [zipWith_dims, List.nodup_append]
    refine ⟨ha.nodup, hb.nodup.filter _, fun x hx y hy hxy => ?_⟩
    have := (List.mem_filter.mp hy).2
    subst hxy
    simp [hx] at this
  · rw [zipWith_dims, zipWith_shape]; simp [ha.len]

/-- the (dimension, size) pairs of a broadcast combination: those of the first operand, then those
    of the second operand whose dimension the first lacks -/
theorem mem_zip_zipWith (f : Fl → Fl → Fl) {a b : Arr} (ha : WF a) (hb : WF b) (p : String × Nat) :
    p ∈ (zipWith f a b).dims.zip (zipWith f a b).shape ↔
      p ∈ a.dims.zip a.shape ∨ (p ∈ b.dims.zip b.shape ∧ p.1 ∉ a.dims) := by
  rw [zipWith_dims, zipWith_shape, List.zip_append ha.len, List.mem_append, zip_map_self]
  refine or_congr Iff.rfl ?_
  simp only [List.mem_map, List.mem_filter]
  constructor
  · rintro ⟨d, ⟨hd, hna⟩, rfl⟩
    obtain ⟨n, hn⟩ := mem_zip_of_mem_dims hb hd
    refine ⟨?_, by simpa using hna⟩
    rw [sizeOf_eq hb hn]; exact hn
  · rintro ⟨hp, hna⟩
    refine ⟨p.1, ⟨(List.of_mem_zip hp).1, by simpa using hna⟩, ?_⟩
    rw [sizeOf_eq hb hp]

/-- **Pointwise combination of independently re-laid-out operands is another layout of the
    combination of the originals.** -/
theorem sameLabelled_zipWith (f : Fl → Fl → Fl) {a a' b b' : Arr} (ha : SameLabelled a a') (hb : SameLabelled b b')
    (hc : Compat a b) : SameLabelled (zipWith f a b) (zipWith f a' b') := by
  have hwf := wf_zipWith f ha.wf hb.wf
  have hwf' := wf_zipWith f ha.wf' hb.wf'
  have hperm : ((zipWith f a' b').dims.zip (zipWith f a' b').shape).Perm
      ((zipWith f a b).dims.zip (zipWith f a b).shape) := by
    refine (List.perm_ext_iff_of_nodup (zip_nodup hwf') (zip_nodup hwf)).mpr fun p => ?_
    rw [mem_zip_zipWith f ha.wf' hb.wf', mem_zip_zipWith f ha.wf hb.wf, ha.perm.mem_iff, hb.perm.mem_iff,
      ha.dims_perm.mem_iff]
  refine ⟨hwf, hwf', hperm, fun x hx => ?_⟩
  rw [zipWith_get f a' b' x (inRange_perm hperm hwf'.len hx), zipWith_get f a b x hx]
  have hxz := ((inRange_iff _ _ x).mp hx).2
  have hxa : InRange a.dims a.shape x := by
    rw [inRange_iff]
    exact ⟨ha.wf.len, fun p hp => hxz p ((mem_zip_zipWith f ha.wf hb.wf p).mpr (Or.inl hp))⟩
  have hxb : InRange b.dims b.shape x := by
    rw [inRange_iff]
    refine ⟨hb.wf.len, fun p hp => ?_⟩
    by_cases hpa : p.1 ∈ a.dims
    · obtain ⟨n, hn⟩ := mem_zip_of_mem_dims ha.wf hpa
      have := hc p.1 n p.2 hn hp
      have h2 := hxz (p.1, n) ((mem_zip_zipWith f ha.wf hb.wf _).mpr (Or.inl hn))
      simpa [this] using h2
    · exact hxz p ((mem_zip_zipWith f ha.wf hb.wf p).mpr (Or.inr ⟨hp, hpa⟩))
  rw [ha.get_eq x hxa, hb.get_eq x hxb]

theorem Compat.of_sameLabelled {a a' b b' : Arr} (ha : SameLabelled a a') (hb : SameLabelled b b')
    (hc : Compat a b) : Compat a' b' :=
  fun d n m h1 h2 => hc d n m (ha.perm.mem_iff.mp h1) (hb.perm.mem_iff.mp h2)

/-- a decidable form of `Compat` for concrete arrays -/
theorem Compat.of_forall {a b : Arr}
    (h : ∀ p ∈ a.dims.zip a.shape, ∀ q ∈ b.dims.zip b.shape, p.1 = q.1 → p.2 = q.2) : Compat a b :=
  fun _ _ _ h1 h2 => h _ h1 _ h2 rfl

end SV.Arr
