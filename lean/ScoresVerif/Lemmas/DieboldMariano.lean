/-
  Lemmas for C19: algebra of the HLN rational core under negation / rescaling, and `_next_regular`.
-/
import ScoresVerif.Model.DieboldMariano
import ScoresVerif.Spec.DieboldMariano
import ScoresVerif.Lemmas.FlBasic
import Mathlib.Algebra.BigOperators.Group.List.Basic
import Mathlib.Algebra.Order.Ring.Abs

namespace SV.Model.DM
open SV

/-- the series multiplied by `c` -/
def scale (c : Rat) (d : List Rat) : List Rat := d.map fun x => c * x
/-- the negated series -/
def negate (d : List Rat) : List Rat := d.map fun x => -x

theorem negate_eq_scale (d : List Rat) : negate d = scale (-1) d := by
  simp [negate, scale]

@[simp] theorem scale_length (c : Rat) (d : List Rat) : (scale c d).length = d.length := by simp [scale]

theorem sum_scale (c : Rat) (d : List Rat) : (scale c d).sum = c * d.sum := by
  induction d with
  | nil => simp [scale]
  | cons x t ih => simp only [scale, List.map_cons, List.sum_cons] at *; rw [ih]; ring

theorem mean_scale (c : Rat) (d : List Rat) : mean (scale c d) = c * mean d := by
  unfold mean
  rw [sum_scale, scale_length, mul_div_assoc]

theorem sum_zipWith_scale (c dbar : Rat) : ∀ (l l' : List Rat),
    (List.zipWith (fun a b => (a - c * dbar) * (b - c * dbar)) (scale c l) (scale c l')).sum
      = c ^ 2 * (List.zipWith (fun a b => (a - dbar) * (b - dbar)) l l').sum := by
  intro l
  induction l with
  | nil => intro l'; simp [scale]
  | cons x t ih =>
    intro l'
    cases l' with
    | nil => simp [scale]
    | cons y t' =>
      have := ih t'
      simp only [scale, List.map_cons, List.zipWith_cons_cons, List.sum_cons] at this ⊢
      rw [this]; ring

theorem gammaHatK_scale (c : Rat) (d : List Rat) (dbar : Rat) (k : Nat) :
    gammaHatK (scale c d) (c * dbar) k = c ^ 2 * gammaHatK d dbar k := by
  unfold gammaHatK
  have : (scale c d).drop k = scale c (d.drop k) := by simp [scale, List.map_drop]
  rw [this, sum_zipWith_scale]

theorem vHatRat_scale (c : Rat) (d : List Rat) (h : Nat) : vHatRat (scale c d) h = c ^ 2 * vHatRat d h := by
  unfold vHatRat
  simp only [mean_scale, gammaHatK_scale, scale_length]
  have : ((List.range (h - 1)).map fun k => c ^ 2 * gammaHatK d (mean d) (k + 1)).sum
      = c ^ 2 * ((List.range (h - 1)).map fun k => gammaHatK d (mean d) (k + 1)).sum := by
    induction (List.range (h - 1)) with
    | nil => simp
    | cons a t ih => simp only [List.map_cons, List.sum_cons, ih]; ring
  rw [this]; ring

theorem allZero_scale (c : Rat) (hc : c ≠ 0) (d : List Rat) : allZero (scale c d) = allZero d := by
  unfold allZero scale
  rw [List.all_map]
  congr 1
  funext x
  simp [hc]

theorem statSq_scale (c : Rat) (hc : c ≠ 0) (d : List Rat) (h : Nat) : statSq (scale c d) h = statSq d h := by
  unfold statSq
  rw [allZero_scale c hc, vHatRat_scale, mean_scale, scale_length]
  have hc2 : 0 < c ^ 2 := by positivity
  by_cases hz : allZero d = true
  · simp [hz]
  · simp only [hz]
    by_cases hv : vHatRat d h ≤ 0
    · have : c ^ 2 * vHatRat d h ≤ 0 := by nlinarith
      simp [hv, this]
    · have hv' : 0 < vHatRat d h := not_le.mp hv
      have : ¬ c ^ 2 * vHatRat d h ≤ 0 := not_le.mpr (by positivity)
      simp only [hv, this, if_false]
      congr 1
      field_simp

theorem rsign_neg (q : Rat) : Fl.rsign (-q) = - Fl.rsign q := by
  unfold Fl.rsign
  rcases lt_trichotomy q 0 with h | h | h
  · have h1 : ¬ (-q < 0) := by linarith
    have h2 : ¬ (-q = 0) := by intro h'; linarith
    simp [h, h1, h2]
  · subst h; simp
  · have h1 : -q < 0 := by linarith
    have h2 : ¬ q < 0 := by linarith
    have h3 : ¬ q = 0 := by intro h'; linarith
    simp [h1, h2, h3]

theorem rsign_mul_pos (c q : Rat) (hc : 0 < c) : Fl.rsign (c * q) = Fl.rsign q := by
  unfold Fl.rsign
  rcases lt_trichotomy q 0 with h | h | h
  · have : c * q < 0 := mul_neg_of_pos_of_neg hc h
    simp [h, this]
  · subst h; simp
  · have h1 : 0 < c * q := mul_pos hc h
    have h2 : ¬ c * q < 0 := by linarith
    have h3 : ¬ c * q = 0 := by intro h'; linarith
    have h4 : ¬ q < 0 := by linarith
    have h5 : ¬ q = 0 := by intro h'; linarith
    simp [h2, h3, h4, h5]

/-! ### `_next_regular` -/

def Ge (t : Nat) (m : Option Nat) : Prop := ∀ v, m = some v → t ≤ v

theorem upd_ge {t N : Nat} {m : Option Nat} (hm : Ge t m) (hN : t ≤ N) : Ge t (upd N m) := by
  intro v hv
  unfold upd at hv
  cases m with
  | none => simp at hv; omega
  | some w =>
    simp only at hv
    split at hv
    · simp at hv; omega
    · simp at hv; subst hv; exact hm w rfl

theorem le_pow_bitLength (q : Nat) : q ≤ 2 ^ bitLength (q - 1) := by
  unfold bitLength
  split
  · rename_i h; simp; omega
  · rename_i h
    have := Nat.lt_log2_self (n := q - 1)
    omega

theorem candidate_ge (t p : Nat) (hp : 0 < p) : t ≤ 2 ^ bitLength ((t + p - 1) / p - 1) * p := by
  have h1 : (t + p - 1) / p ≤ 2 ^ bitLength ((t + p - 1) / p - 1) := le_pow_bitLength _
  have h2 : t + p - 1 < p * ((t + p - 1) / p + 1) := Nat.lt_mul_div_succ _ hp
  have h3 : (t + p - 1) / p * p ≤ 2 ^ bitLength ((t + p - 1) / p - 1) * p := Nat.mul_le_mul_right _ h1
  have h4 : p * ((t + p - 1) / p + 1) = (t + p - 1) / p * p + p := by ring
  omega

theorem inner_spec (target p35 : Nat) (m : Option Nat) (hp : 0 < p35) (hm : Ge target m) :
    (∀ v, (inner target p35 m).1 = some v → target ≤ v) ∧ Ge target (inner target p35 m).2.1 ∧
    ((inner target p35 m).1 = none → target ≤ (inner target p35 m).2.2) := by
  fun_induction inner target p35 m with
  | case1 p35 m hc heq =>
    refine ⟨?_, hm, by simp⟩
    intro v hv; simp at hv; omega
  | case2 p35 m hc hne heq =>
    refine ⟨?_, upd_ge hm (candidate_ge _ _ hp), by simp⟩
    intro v hv; simp at hv; omega
  | case3 p35 m hc hne hne' ih =>
    exact ih (by omega) (upd_ge hm (candidate_ge _ _ hp))
  | case4 p35 m hc =>
    refine ⟨by simp, hm, ?_⟩
    intro _; simp only; omega

theorem outer_spec (target p5 : Nat) (m : Option Nat) (hp : 0 < p5) (hm : Ge target m) :
    (∀ v, (outer target p5 m).1 = some v → target ≤ v) ∧ Ge target (outer target p5 m).2.1 ∧
    ((outer target p5 m).1 = none → target ≤ (outer target p5 m).2.2) := by
  fun_induction outer target p5 m with
  | case1 p5 m hc r m' x heq =>
    have := inner_spec target p5 m hp hm
    rw [heq] at this
    exact ⟨fun v hv => this.1 v hv, this.2.1, by simp⟩
  | case2 p5 m hc m' p35 heq h5 =>
    have := inner_spec target p5 m hp hm
    rw [heq] at this
    refine ⟨?_, upd_ge this.2.1 (this.2.2 rfl), by simp⟩
    intro v hv; simp at hv; omega
  | case3 p5 m hc m' p35 heq h5 ih =>
    have := inner_spec target p5 m hp hm
    rw [heq] at this
    exact ih (by omega) (upd_ge this.2.1 (this.2.2 rfl))
  | case4 p5 m hc =>
    refine ⟨by simp, hm, ?_⟩
    intro _; simp only; omega

theorem nextRegular_ge (target : Nat) : target ≤ nextRegular target := by
  unfold nextRegular
  split
  · exact le_refl _
  · split
    · exact le_refl _
    · have := outer_spec target 1 none (by omega) (by intro v hv; simp at hv)
      split
      · rename_i r _ _ heq
        rw [heq] at this
        exact this.1 r rfl
      · rename_i m p5 heq
        rw [heq] at this
        have hge := upd_ge this.2.1 (this.2.2 rfl)
        cases hu : upd p5 m with
        | none =>
          cases m with
          | none => simp [upd] at hu
          | some w => simp only [upd] at hu; split at hu <;> simp at hu
        | some v => simpa using hge v hu

/-! ### the model's estimators are the published index sums (Spec) -/

theorem map_getD_range (d : List Rat) : (List.range d.length).map (fun i => d.getD i 0) = d := by
  apply List.ext_getElem
  · simp
  · intro i h1 h2
    simp at h1
    simp [List.getD_eq_getElem?_getD, h1]

theorem mean_eq_spec (d : List Rat) : mean d = SV.Spec.DM.mean d := by
  unfold mean SV.Spec.DM.mean SV.Spec.DM.at'
  rw [map_getD_range]

theorem zipWith_eq_range (F : Rat → Rat → Rat) (a b : List Rat) :
    List.zipWith F a b = (List.range (min a.length b.length)).map (fun i => F (a.getD i 0) (b.getD i 0)) := by
  apply List.ext_getElem
  · simp
  · intro i h1 h2
    simp at h1
    simp [List.getD_eq_getElem?_getD, h1.1, h1.2]

theorem gammaHatK_eq_spec (d : List Rat) (k : Nat) :
    gammaHatK d (mean d) k / ((d.length : Int) : Rat) = SV.Spec.DM.gammaHat d k := by
  unfold gammaHatK SV.Spec.DM.gammaHat SV.Spec.DM.at'
  rw [zipWith_eq_range, ← mean_eq_spec]
  have hmin : min (d.drop k).length d.length = d.length - k := by simp
  rw [hmin]
  congr 2
  apply List.map_congr_left
  intro i hi
  simp only [List.mem_range] at hi
  congr 2
  simp [List.getD_eq_getElem?_getD, List.getElem?_drop, Nat.add_comm]

theorem vHatRat_eq_spec (d : List Rat) (h : Nat) : vHatRat d h = SV.Spec.DM.vHat d h := by
  unfold vHatRat SV.Spec.DM.vHat
  simp only [← gammaHatK_eq_spec]
  have : ((List.range (h - 1)).map fun j => gammaHatK d (mean d) (j + 1) / ((d.length : Int) : Rat)).sum
      = ((List.range (h - 1)).map fun k => gammaHatK d (mean d) (k + 1)).sum / ((d.length : Int) : Rat) := by
    induction (List.range (h - 1)) with
    | nil => simp
    | cons a t ih => simp only [List.map_cons, List.sum_cons, ih]; ring
  rw [this]
  ring
end SV.Model.DM

/-! ### HG density given the parameters: the one-sided geometric lag sum -/
namespace SV.Spec.DM

/-- Σ_{k=1}^{m} ρ^k, the one-sided lag sum of the model autocorrelations -/
def lagSum (rho : Rat) (m : Nat) : Rat := ((List.range m).map fun j => rho ^ (j + 1)).sum

theorem lagSum_succ (rho : Rat) (m : Nat) : lagSum rho (m + 1) = lagSum rho m + rho ^ (m + 1) := by
  simp [lagSum, List.range_succ]

theorem lagSum_nonneg {rho : Rat} (h : 0 ≤ rho) (m : Nat) : 0 ≤ lagSum rho m := by
  induction m with
  | zero => simp [lagSum]
  | succ k ih => rw [lagSum_succ]; have := pow_nonneg h (k + 1); linarith

theorem lagSum_strictMono {rho : Rat} (h : 0 < rho) {m n : Nat} (hmn : m < n) : lagSum rho m < lagSum rho n := by
  induction n with
  | zero => omega
  | succ k ih =>
    rw [lagSum_succ]
    have hp := pow_pos h (k + 1)
    rcases Nat.lt_succ_iff_lt_or_eq.mp hmn with hlt | heq
    · have := ih hlt; linarith
    · subst heq; linarith

theorem lagSum_closed (rho : Rat) (m : Nat) : (1 - rho) * lagSum rho m = rho - rho ^ (m + 1) := by
  induction m with
  | zero => simp [lagSum]
  | succ k ih => rw [lagSum_succ, mul_add, ih]; ring

end SV.Spec.DM
