/-
  C13 — sums of squared differences over a list: Σ(a−y)², ΣΣ(a_k−a_l)² in terms of n, Σa, Σa².
  Helper lemmas for the pairwise (Ferro) form of the fair Brier score (Props/C13Pairs.lean).
-/
import Mathlib.Tactic.Ring
import Mathlib.Tactic.Linarith
import Mathlib.Tactic.NormNum
import Mathlib.Algebra.Order.Field.Rat
import Mathlib.Algebra.BigOperators.Group.List.Basic

namespace SV.Lemmas.C13Pairs

/-- Σ (c + d·a + e·a²) = n·c + d·Σa + e·Σa² -/
theorem sum_quadratic (l : List Rat) (c d e : Rat) :
    (l.map fun a => c + d * a + e * a ^ 2).sum = l.length * c + d * l.sum + e * (l.map fun a => a ^ 2).sum := by
  induction l with
  | nil => simp
  | cons a l ih => simp only [List.map_cons, List.sum_cons, List.length_cons, Nat.cast_add, Nat.cast_one, ih]; ring

/-- Σ (a − y)² = Σa² − 2y·Σa + n·y² -/
theorem sum_sq_sub (l : List Rat) (y : Rat) :
    (l.map fun a => (a - y) ^ 2).sum = (l.map fun a => a ^ 2).sum - 2 * y * l.sum + l.length * y ^ 2 := by
  have h := sum_quadratic l (y ^ 2) (-(2 * y)) 1
  have e : (fun a : Rat => (a - y) ^ 2) = fun a => y ^ 2 + -(2 * y) * a + 1 * a ^ 2 := by funext a; ring
  rw [e, h]; ring

/-- Σ_k Σ_l (a_k − a_l)² = 2n·Σa² − 2(Σa)² (all ordered pairs) -/
theorem sum_pairs (l : List Rat) :
    (l.map fun a => (l.map fun b => (b - a) ^ 2).sum).sum = 2 * l.length * (l.map fun a => a ^ 2).sum - 2 * l.sum ^ 2 := by
  have e : (fun a : Rat => (l.map fun b => (b - a) ^ 2).sum) =
      fun a => (l.map fun b => b ^ 2).sum + -(2 * l.sum) * a + (l.length : Rat) * a ^ 2 := by
    funext a; rw [sum_sq_sub l a]; ring
  rw [e, sum_quadratic]; ring

/-- a 0/1 list: Σa² = Σa -/
theorem sum_sq_binary (l : List Rat) (h : ∀ a ∈ l, a = 0 ∨ a = 1) : (l.map fun a => a ^ 2).sum = l.sum := by
  induction l with
  | nil => rfl
  | cons a l ih =>
    simp only [List.map_cons, List.sum_cons, ih (fun b hb => h b (List.mem_cons_of_mem a hb))]
    rcases h a List.mem_cons_self with rfl | rfl <;> norm_num

/-- the sum of the indicators of a predicate is the number of elements satisfying it -/
theorem sum_indicator {α : Type} (p : α → Bool) (l : List α) :
    (l.map fun x => if p x then (1 : Rat) else 0).sum = ((l.filter p).length : Rat) := by
  induction l with
  | nil => simp
  | cons a l ih =>
    simp only [List.map_cons, List.sum_cons, List.filter_cons, ih]
    cases p a <;> simp
    ring

end SV.Lemmas.C13Pairs
