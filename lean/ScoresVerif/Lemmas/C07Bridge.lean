/-
  Lemmas/C07Bridge — integral bridge for C07: the exact CDF-CRPS cell sums of `Spec.CrpsCdf.exactParts`
  (Σ_cells w_cell · Simpson((lin − H)²)) are Lebesgue integrals of  w(t)·(F(t) − H(t))²  for the continuous
  piecewise-linear forecast CDF F through the grid ordinates, the right-continuous step weight w and H = 1{t ≥ obs}.
  Built on Lemmas/Bridge.lean (`integral_cubic`, `cell_congr`); kept separate so that the C10 / C11 / C06 bridge does not
  depend on the C07 model.
-/
import ScoresVerif.Lemmas.Bridge
import ScoresVerif.Lemmas.CrpsCdf

set_option linter.unusedVariables false

namespace SV.Bridge.C07
open MeasureTheory Set SV.Bridge
open SV.Lemmas.CrpsCdf (Incr NoStraddle cellSq_eq)
open SV.Spec.CrpsCdf (cellSq exactParts)
open SV.Spec.Murphy (lastOr)

/-- the line through (a, fa), (b, fb) — `Spec.CrpsCdf.lin` read over ℝ -/
noncomputable def linR (a b fa fb t : ℝ) : ℝ := fa + (fb - fa) * (t - a) / (b - a)

/-- forecast CDF: the continuous piecewise-linear function through (x_i, f_i) (first segment extended to the left,
    value f_n from the last grid point on) -/
noncomputable def pwLinR : List ℚ → List ℚ → ℝ → ℝ
  | x0 :: x1 :: xs, f0 :: f1 :: fs, t => if t < x1 then linR x0 x1 f0 f1 t else pwLinR (x1 :: xs) (f1 :: fs) t
  | [_], [f], _ => f
  | _, _, _ => 0

/-- threshold weight: the right-continuous step function w_k on [x_k, x_{k+1}) (0 from the last grid point on) -/
noncomputable def stepR : List ℚ → List ℚ → ℝ → ℝ
  | x0 :: x1 :: xs, w0 :: ws, t => if t < x1 then w0 else stepR (x1 :: xs) ws t
  | _, _, _ => 0

/-- the integrand of the (a, b)-masked part: mask a left of the observation, b from the observation on -/
noncomputable def partIntegrandR (a b obs : ℝ) : List ℚ → List ℚ → List ℚ → ℝ → ℝ
  | x0 :: x1 :: xs, f0 :: f1 :: fs, w0 :: ws, t =>
      if t < x1 then (if t < obs then a else b) * (w0 * (linR x0 x1 f0 f1 t - heavisideR obs t) ^ 2)
      else partIntegrandR a b obs (x1 :: xs) (f1 :: fs) ws t
  | _, _, _, _ => 0

/-- the matching cell sums: cells left of the observation count with factor a (H = 0), the others with b (H = 1) -/
def partSum (a b obs : ℚ) : List ℚ → List ℚ → List ℚ → ℚ
  | x0 :: x1 :: xs, f0 :: f1 :: fs, w0 :: ws =>
      (if x1 ≤ obs then a * (w0 * cellSq x0 x1 f0 f1 0) else b * (w0 * cellSq x0 x1 f0 f1 1))
        + partSum a b obs (x1 :: xs) (f1 :: fs) ws
  | _, _, _ => 0

/-- ∫ over one cell of the squared linear piece = `cellSq` (Simpson's rule on the quadratic is exact) -/
theorem integral_lin_sq (x0 x1 f0 f1 h : ℚ) (hlt : x0 < x1) :
    ∫ t in (x0 : ℝ)..(x1 : ℝ), (linR x0 x1 f0 f1 t - h) ^ 2 = ((cellSq x0 x1 f0 f1 h : ℚ) : ℝ) := by
  have hne : (x1 : ℝ) - x0 ≠ 0 := by
    have : (x0 : ℝ) < x1 := by exact_mod_cast hlt
    linarith
  have e : (fun t : ℝ => (linR x0 x1 f0 f1 t - h) ^ 2)
      = fun t : ℝ => ((f0 : ℝ) - (f1 - f0) / (x1 - x0) * x0 - h) ^ 2
          + 2 * ((f0 : ℝ) - (f1 - f0) / (x1 - x0) * x0 - h) * ((f1 - f0) / (x1 - x0)) * t
          + ((f1 : ℝ) - f0) ^ 2 / (x1 - x0) ^ 2 * t ^ 2 + 0 * t ^ 3 := by
    funext t; unfold linR; field_simp; ring
  rw [e, integral_cubic, cellSq_eq x0 x1 f0 f1 h hlt.ne]
  push_cast
  field_simp
  ring

theorem le_lastOr_of_incr : ∀ (rest : List ℚ) (p : ℚ), Incr (p :: rest) → p ≤ lastOr p rest
  | [], p, _ => le_rfl
  | x1 :: xs, p, h => le_trans h.1.le (le_lastOr_of_incr xs x1 h.2)

/-- a function that agrees with an integrable one on [p, q] is integrable there with the same integral -/
theorem tail_congr {F G : ℝ → ℝ} {p q : ℝ} (hpq : p ≤ q) (h : ∀ t, p ≤ t → F t = G t)
    (hG : IntervalIntegrable G volume p q) :
    IntervalIntegrable F volume p q ∧ ∫ t in p..q, F t = ∫ t in p..q, G t := by
  have hae : ∀ᵐ x ∂(volume : Measure ℝ), x ∈ uIoc p q → G x = F x := by
    refine Filter.Eventually.of_forall fun x hx => ?_
    rw [uIoc_of_le hpq] at hx
    exact (h x hx.1.le).symm
  exact ⟨hG.congr_ae ((ae_restrict_iff' measurableSet_uIoc).2 hae), (intervalIntegral.integral_congr_ae hae).symm⟩

/-- **cell sums = Lebesgue integral**, for every mask (a, b) -/
theorem part_integral (a b obs : ℚ) : ∀ (rest : List ℚ) (p : ℚ) (f w : List ℚ),
    Incr (p :: rest) → NoStraddle obs (p :: rest) → f.length = (p :: rest).length → w.length = (p :: rest).length →
    IntervalIntegrable (partIntegrandR a b obs (p :: rest) f w) volume p (lastOr p rest) ∧
      ((partSum a b obs (p :: rest) f w : ℚ) : ℝ)
        = ∫ t in (p : ℝ)..(lastOr p rest : ℝ), partIntegrandR a b obs (p :: rest) f w t := by
  intro rest
  induction rest with
  | nil =>
    intro p f w _ _ _ _
    rcases f with _ | ⟨f0, _ | ⟨f1, fs⟩⟩ <;> rcases w with _ | ⟨w0, ws⟩ <;> simp [lastOr, partSum]
  | cons x1 xs ih =>
    intro x0 f w hg hs hf hw
    rcases f with _ | ⟨f0, _ | ⟨f1, fs⟩⟩
    · simp at hf
    · simp at hf
    rcases w with _ | ⟨w0, ws⟩
    · simp at hw
    have hlt : (x0 : ℝ) < x1 := by exact_mod_cast hg.1
    obtain ⟨hi2, he2⟩ := ih x1 (f1 :: fs) ws hg.2 hs.2 (by simpa using hf) (by simpa using hw)
    have hx1last : (x1 : ℝ) ≤ lastOr x1 xs := by exact_mod_cast le_lastOr_of_incr xs x1 hg.2
    -- the tail: from x1 on the integrand is the integrand of the shorter grid
    obtain ⟨hi2', he2'⟩ := tail_congr (F := partIntegrandR a b obs (x0 :: x1 :: xs) (f0 :: f1 :: fs) (w0 :: ws)) hx1last
      (fun t ht => by
        show (if t < (x1 : ℝ) then _ else _) = _
        rw [if_neg (not_lt.mpr ht)]) hi2
    -- the first cell: a constant multiple of the squared linear piece
    have hcell : ∃ c h : ℚ, (∀ t : ℝ, (x0 : ℝ) < t → t < x1 →
          partIntegrandR a b obs (x0 :: x1 :: xs) (f0 :: f1 :: fs) (w0 :: ws) t
            = (c : ℝ) * (linR x0 x1 f0 f1 t - h) ^ 2) ∧
        (if x1 ≤ obs then a * (w0 * cellSq x0 x1 f0 f1 0) else b * (w0 * cellSq x0 x1 f0 f1 1))
          = c * cellSq x0 x1 f0 f1 h := by
      by_cases hc : x1 ≤ obs
      · refine ⟨a * w0, 0, fun t h1 h2 => ?_, by rw [if_pos hc]; ring⟩
        have hto : t < (obs : ℝ) := lt_of_lt_of_le h2 (by exact_mod_cast hc)
        show (if t < (x1 : ℝ) then _ else _) = _
        rw [if_pos h2, if_pos hto]
        unfold heavisideR
        rw [if_neg (not_le.mpr hto)]; push_cast; ring
      · refine ⟨b * w0, 1, fun t h1 h2 => ?_, by rw [if_neg hc]; ring⟩
        have hox : obs ≤ x0 := not_lt.mp fun h => hc (hs.1 h)
        have hot : (obs : ℝ) ≤ t := le_trans (by exact_mod_cast hox) h1.le
        show (if t < (x1 : ℝ) then _ else _) = _
        rw [if_pos h2, if_neg (not_lt.mpr hot)]
        unfold heavisideR
        rw [if_pos hot]; push_cast; ring
    obtain ⟨c, h, hc, hsum⟩ := hcell
    have hP : Continuous fun t : ℝ => (c : ℝ) * (linR x0 x1 f0 f1 t - h) ^ 2 := by unfold linR; fun_prop
    obtain ⟨hi1, he1⟩ := cell_congr hlt.le hP hc
    refine ⟨hi1.trans hi2', ?_⟩
    show ((partSum a b obs (x0 :: x1 :: xs) (f0 :: f1 :: fs) (w0 :: ws) : ℚ) : ℝ) = ∫ t in (x0 : ℝ)..(lastOr x1 xs : ℝ), _
    rw [← intervalIntegral.integral_add_adjacent_intervals hi1 hi2', he1, he2', ← he2,
      intervalIntegral.integral_const_mul, integral_lin_sq x0 x1 f0 f1 h hg.1]
    simp only [partSum]
    rw [hsum]; push_cast; ring

/-- the masked integrand is mask × w × (F − H)² with the piecewise-linear F and the step weight w -/
theorem partIntegrandR_eq (a b obs : ℝ) : ∀ (g f w : List ℚ), f.length = g.length → w.length = g.length → ∀ t : ℝ,
    partIntegrandR a b obs g f w t
      = (if t < obs then a else b) * (stepR g w t * (pwLinR g f t - heavisideR obs t) ^ 2) := by
  intro g
  induction g with
  | nil => intro f w _ _ t; simp [partIntegrandR, stepR]
  | cons x0 rest ih =>
    intro f w hf hw t
    rcases rest with _ | ⟨x1, xs⟩
    · rcases f with _ | ⟨f0, _ | ⟨f1, fs⟩⟩ <;> rcases w with _ | ⟨w0, ws⟩ <;> simp [partIntegrandR, stepR]
    rcases f with _ | ⟨f0, _ | ⟨f1, fs⟩⟩
    · simp at hf
    · simp at hf
    rcases w with _ | ⟨w0, ws⟩
    · simp at hw
    show (if t < (x1 : ℝ) then _ else _) = _ * ((if t < (x1 : ℝ) then _ else _) * ((if t < (x1 : ℝ) then _ else _) - _) ^ 2)
    by_cases h : t < (x1 : ℝ)
    · simp only [if_pos h]
    · simp only [if_neg h]
      exact ih (f1 :: fs) ws (by simpa using hf) (by simpa using hw) t

/-- total / under / over of `exactParts` are the cell sums with masks (1,1), (1,0), (0,1) -/
theorem exactParts_eq_partSum (obs : ℚ) : ∀ (g f w : List ℚ), f.length = g.length → w.length = g.length →
    (exactParts obs g f w).total = partSum 1 1 obs g f w ∧
    (exactParts obs g f w).under = partSum 1 0 obs g f w ∧
    (exactParts obs g f w).over = partSum 0 1 obs g f w := by
  intro g
  induction g with
  | nil => intro f w _ _; simp [exactParts, partSum]
  | cons x0 rest ih =>
    intro f w hf hw
    rcases rest with _ | ⟨x1, xs⟩
    · rcases f with _ | ⟨f0, _ | ⟨f1, fs⟩⟩ <;> rcases w with _ | ⟨w0, ws⟩ <;> simp [exactParts, partSum]
    rcases f with _ | ⟨f0, _ | ⟨f1, fs⟩⟩
    · simp at hf
    · simp at hf
    rcases w with _ | ⟨w0, ws⟩
    · simp at hw
    obtain ⟨h1, h2, h3⟩ := ih (f1 :: fs) ws (by simpa using hf) (by simpa using hw)
    simp only [exactParts, partSum]
    split_ifs <;> simp only [h1, h2, h3] <;> refine ⟨?_, ?_, ?_⟩ <;> ring

end SV.Bridge.C07
