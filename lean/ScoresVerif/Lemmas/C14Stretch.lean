/-
  C14 stretch helpers: order-independence of the sums of the ROC model (`nansum` over any permutation of the cells,
  weighted counting over any permutation of the cases), a missing pair anywhere in the list, and the Mann–Whitney
  statistic when the comparison kernel is constant over the (event, non-event) pairs.
-/
import ScoresVerif.Lemmas.RocMW
import ScoresVerif.Lemmas.FlBasic
import Mathlib.Data.List.Perm.Basic

namespace SV.Lemmas.Roc
open SV SV.Model.Roc SV.Spec.Roc

/-! ### order of the cells -/

theorem foldl_add_perm {l₁ l₂ : List Fl} (h : l₁.Perm l₂) : ∀ b : Fl, l₁.foldl Fl.add b = l₂.foldl Fl.add b := by
  induction h with
  | nil => intro b; rfl
  | cons x _ ih => intro b; simp only [List.foldl_cons]; exact ih _
  | swap x y l =>
    intro b; simp only [List.foldl_cons]; congr 1
    rw [Fl.add_assoc, Fl.add_comm y x, ← Fl.add_assoc]
  | trans _ _ ih1 ih2 => intro b; rw [ih1, ih2]

theorem nansum_perm {l₁ l₂ : List Fl} (h : l₁.Perm l₂) : nansum l₁ = nansum l₂ := by
  unfold nansum fsum valid
  exact foldl_add_perm (h.filter _) _

theorem wsum_perm (cell : Fl → Fl → Fl) {ps ps' : List Triple} (h : ps.Perm ps') (t : Fl) :
    wsum cell ps t = wsum cell ps' t := by
  unfold wsum; exact nansum_perm (h.map _)

theorem pod_perm {ps ps' : List Triple} (h : ps.Perm ps') (t : Fl) : Model.Roc.pod ps t = Model.Roc.pod ps' t := by
  unfold Model.Roc.pod; rw [wsum_perm hit h, wsum_perm miss h]
theorem pofd_perm {ps ps' : List Triple} (h : ps.Perm ps') (t : Fl) : Model.Roc.pofd ps t = Model.Roc.pofd ps' t := by
  unfold Model.Roc.pofd; rw [wsum_perm falseAlarm h, wsum_perm correctNeg h]

theorem wsumIf_perm (p : Case → Bool) {cs cs' : List Case} (h : cs.Perm cs') : wsumIf p cs = wsumIf p cs' := by
  unfold wsumIf; exact ((h.filter p).map _).sum_eq

/-! ### a missing pair anywhere in the list -/

theorem nansum_insert_nan (l₁ l₂ : List Fl) : nansum (l₁ ++ Fl.nan :: l₂) = nansum (l₁ ++ l₂) := by
  unfold nansum valid
  simp [List.filter_append, Fl.notNan]

/-! ### Mann–Whitney with a constant kernel -/

theorem mw_num_const {cs : List Case} {k : Rat}
    (hk : ∀ a ∈ cs, a.ev = true → ∀ b ∈ cs, b.ev = false →
      (if b.f < a.f then 1 else if a.f = b.f then 1 / 2 else 0 : Rat) = k) :
    ((cs.filter (·.ev)).map fun a => ((cs.filter (fun c => !c.ev)).map fun b =>
      a.w * b.w * (if b.f < a.f then 1 else if a.f = b.f then 1 / 2 else 0)).sum).sum
      = eventsW cs * nonEventsW cs * k := by
  have inner : ∀ a ∈ cs.filter (·.ev), ((cs.filter (fun c => !c.ev)).map fun b =>
      a.w * b.w * (if b.f < a.f then 1 else if a.f = b.f then 1 / 2 else 0 : Rat)).sum
      = a.w * (k * nonEventsW cs) := by
    intro a ha
    have ha' := List.mem_filter.mp ha
    rw [gsum_congr (g := fun b => (a.w * k) * b.w)]
    · rw [gsum_const_mul]; unfold nonEventsW wsumIf; ring
    · intro b hb
      have hb' := List.mem_filter.mp hb
      rw [hk a ha'.1 ha'.2 b hb'.1 (by simpa using hb'.2)]; ring
  rw [gsum_congr inner, gsum_mul_const]; unfold eventsW wsumIf; ring

theorem mannWhitney_kernel_const {cs : List Case} {k : Rat}
    (hk : ∀ a ∈ cs, a.ev = true → ∀ b ∈ cs, b.ev = false →
      (if b.f < a.f then 1 else if a.f = b.f then 1 / 2 else 0 : Rat) = k)
    (hE : eventsW cs ≠ 0) (hN : nonEventsW cs ≠ 0) : mannWhitney cs = Fl.fin k := by
  unfold mannWhitney
  simp only
  rw [mw_num_const hk, Fl.div_fin _ _ (mul_ne_zero hE hN)]
  congr 1
  field_simp

/-! ### the complemented forecast 1 − p -/

/-- the Mann–Whitney numerator with an arbitrary comparison kernel -/
def mwG (κ : Rat → Rat → Rat) (cs : List Case) : Rat :=
  ((cs.filter (·.ev)).map fun a => ((cs.filter (fun c => !c.ev)).map fun b => a.w * b.w * κ a.f b.f).sum).sum
def mwKer (u v : Rat) : Rat := if v < u then 1 else if u = v then 1 / 2 else 0

theorem mannWhitney_eq_mwG (cs : List Case) :
    mannWhitney cs = Fl.div (Fl.fin (mwG mwKer cs)) (Fl.fin (eventsW cs * nonEventsW cs)) := rfl

theorem mwG_const {κ : Rat → Rat → Rat} {cs : List Case} {k : Rat}
    (hk : ∀ a ∈ cs, a.ev = true → ∀ b ∈ cs, b.ev = false → κ a.f b.f = k) :
    mwG κ cs = eventsW cs * nonEventsW cs * k := by
  unfold mwG
  have inner : ∀ a ∈ cs.filter (·.ev), ((cs.filter (fun c => !c.ev)).map fun b => a.w * b.w * κ a.f b.f).sum
      = a.w * (k * nonEventsW cs) := by
    intro a ha
    have ha' := List.mem_filter.mp ha
    rw [gsum_congr (g := fun b => (a.w * k) * b.w)]
    · rw [gsum_const_mul]; unfold nonEventsW wsumIf; ring
    · intro b hb
      have hb' := List.mem_filter.mp hb
      rw [hk a ha'.1 ha'.2 b hb'.1 (by simpa using hb'.2)]; ring
  rw [gsum_congr inner, gsum_mul_const]; unfold eventsW wsumIf; ring

theorem mwG_add (κ κ' : Rat → Rat → Rat) (cs : List Case) :
    mwG κ cs + mwG κ' cs = mwG (fun u v => κ u v + κ' u v) cs := by
  unfold mwG
  rw [← gsum_add]
  apply gsum_congr
  intro a _
  beta_reduce
  rw [← gsum_add]
  apply gsum_congr
  intro b _
  ring

/-- the case with the complemented forecast `1 − p` (same observation, same weight) -/
def compl1 (c : Case) : Case := ⟨1 - c.f, c.ev, c.w⟩

theorem filter_map_compl (p : Case → Bool) (hp : ∀ c, p (compl1 c) = p c) (cs : List Case) :
    (cs.map compl1).filter p = (cs.filter p).map compl1 := by
  induction cs with
  | nil => rfl
  | cons c l ih =>
    simp only [List.map_cons, List.filter_cons, hp c]
    split <;> simp [ih]

theorem wsumIf_compl (p : Case → Bool) (hp : ∀ c, p (compl1 c) = p c) (cs : List Case) :
    wsumIf p (cs.map compl1) = wsumIf p cs := by
  unfold wsumIf
  rw [filter_map_compl p hp, List.map_map]
  rfl

theorem mwG_compl (κ : Rat → Rat → Rat) (cs : List Case) :
    mwG κ (cs.map compl1) = mwG (fun u v => κ (1 - u) (1 - v)) cs := by
  unfold mwG
  rw [filter_map_compl _ (fun _ => rfl), filter_map_compl _ (fun _ => rfl)]
  simp only [List.map_map]
  rfl

theorem mwKer_compl (u v : Rat) : mwKer (1 - u) (1 - v) + mwKer u v = 1 := by
  unfold mwKer
  rcases lt_trichotomy u v with h | h | h
  · have h1 : 1 - v < 1 - u := by linarith
    rw [if_pos h1, if_neg (not_lt.mpr h.le), if_neg (ne_of_lt h)]; norm_num
  · subst h
    rw [if_neg (lt_irrefl _), if_pos rfl, if_neg (lt_irrefl _), if_pos rfl]; norm_num
  · have h1 : ¬ (1 - v < 1 - u) := by intro h'; linarith
    have h2 : ¬ (1 - u = 1 - v) := by intro h'; linarith
    rw [if_neg h1, if_neg h2, if_pos h]; norm_num

theorem mannWhitney_compl {cs : List Case} (hE : eventsW cs ≠ 0) (hN : nonEventsW cs ≠ 0) :
    mannWhitney (cs.map compl1) = Fl.sub (Fl.fin 1) (mannWhitney cs) := by
  have eE : eventsW (cs.map compl1) = eventsW cs := wsumIf_compl _ (fun _ => rfl) cs
  have eN : nonEventsW (cs.map compl1) = nonEventsW cs := wsumIf_compl _ (fun _ => rfl) cs
  have hEN := mul_ne_zero hE hN
  rw [mannWhitney_eq_mwG, mannWhitney_eq_mwG, eE, eN, mwG_compl, Fl.div_fin _ _ hEN, Fl.div_fin _ _ hEN]
  have hsum : mwG (fun u v => mwKer (1 - u) (1 - v)) cs + mwG mwKer cs = eventsW cs * nonEventsW cs * 1 := by
    rw [mwG_add]; exact mwG_const (fun a _ _ b _ _ => mwKer_compl a.f b.f)
  simp only [Fl.sub, Fl.neg_fin, Fl.add_fin]
  congr 1
  field_simp
  linarith

end SV.Lemmas.Roc
