/-
  Helper lemmas for C03 with NaN weights: per-case score and weights are `Option Rat` (none = NaN);
  the product of a score and a weight is present iff both are.
-/
import ScoresVerif.Model.Fl
import ScoresVerif.Lemmas.FlBasic
import ScoresVerif.Lemmas.NanMean
import Mathlib.Tactic.Ring

namespace SV.C03Nan
open SV SV.Fl

/-- product of two possibly-missing rationals: present iff both are -/
def omul : Option Rat → Option Rat → Option Rat
  | some a, some b => some (a * b)
  | _, _ => none

/-- sum of two possibly-missing rationals: present iff both are -/
def oadd : Option Rat → Option Rat → Option Rat
  | some a, some b => some (a + b)
  | _, _ => none

@[simp] theorem omul_some (a b : Rat) : omul (some a) (some b) = some (a * b) := rfl
@[simp] theorem omul_none_left (b : Option Rat) : omul none b = none := rfl
@[simp] theorem omul_none_right (a : Option Rat) : omul a none = none := by cases a <;> rfl

theorem mul_ofOpt (a b : Option Rat) : Fl.mul (ofOpt a) (ofOpt b) = ofOpt (omul a b) := by
  cases a <;> cases b <;> simp [ofOpt, omul]

theorem add_ofOpt (a b : Option Rat) : Fl.add (ofOpt a) (ofOpt b) = ofOpt (oadd a b) := by
  cases a <;> cases b <;> simp [ofOpt, oadd]

theorem smul_ofOpt (c : Rat) (b : Option Rat) : Fl.mul (fin c) (ofOpt b) = ofOpt (b.map (c * ·)) := by
  cases b <;> simp [ofOpt]

/-- a case: per-case score, two weights; `none` = NaN in any slot -/
abbrev CaseN := Option Rat × Option Rat × Option Rat

/-- the (score, weight) pairs of the cases in which both are present -/
def both (g : CaseN → Option Rat) (l : List CaseN) : List (Rat × Rat) :=
  l.filterMap fun t => match t.1, g t with
    | some s, some w => some (s, w)
    | _, _ => none

theorem present_omul (g : CaseN → Option Rat) (l : List CaseN) :
    present (l.map fun t => omul t.1 (g t)) = (both g l).map fun p => p.1 * p.2 := by
  induction l with
  | nil => rfl
  | cons t l ih =>
    simp only [present, both, List.map_cons, List.filterMap_cons] at ih ⊢
    rw [List.filterMap_map] at ih ⊢
    simp only [Function.comp_def, id] at ih ⊢
    cases h1 : t.1 <;> cases h2 : g t <;> simp [ih]

theorem present_omul_length (g : CaseN → Option Rat) (l : List CaseN) :
    (present (l.map fun t => omul t.1 (g t))).length = (both g l).length := by
  rw [present_omul, List.length_map]

/-- same NaN mask ⇒ the sum weight is present exactly where either weight is -/
theorem both_oadd_length_left (l : List CaseN) (hm : ∀ t ∈ l, t.2.1.isSome = t.2.2.isSome) :
    (both (fun t => oadd t.2.1 t.2.2) l).length = (both (fun t => t.2.1) l).length := by
  induction l with
  | nil => rfl
  | cons t l ih =>
    have ht := hm t (List.mem_cons_self)
    have ih' := ih fun u hu => hm u (List.mem_cons_of_mem _ hu)
    rcases t with ⟨s, w1, w2⟩
    simp only [both, List.filterMap_cons] at ih' ⊢
    cases s <;> cases w1 <;> cases w2 <;> simp_all [oadd]

theorem both_oadd_length_right (l : List CaseN) (hm : ∀ t ∈ l, t.2.1.isSome = t.2.2.isSome) :
    (both (fun t => oadd t.2.1 t.2.2) l).length = (both (fun t => t.2.2) l).length := by
  induction l with
  | nil => rfl
  | cons t l ih =>
    have ht := hm t (List.mem_cons_self)
    have ih' := ih fun u hu => hm u (List.mem_cons_of_mem _ hu)
    rcases t with ⟨s, w1, w2⟩
    simp only [both, List.filterMap_cons] at ih' ⊢
    cases s <;> cases w1 <;> cases w2 <;> simp_all [oadd]

theorem both_oadd_sum (l : List CaseN) (hm : ∀ t ∈ l, t.2.1.isSome = t.2.2.isSome) :
    ((both (fun t => oadd t.2.1 t.2.2) l).map fun p => p.1 * p.2).sum =
      ((both (fun t => t.2.1) l).map fun p => p.1 * p.2).sum +
      ((both (fun t => t.2.2) l).map fun p => p.1 * p.2).sum := by
  induction l with
  | nil => simp [both]
  | cons t l ih =>
    have ht := hm t (List.mem_cons_self)
    have ih' := ih fun u hu => hm u (List.mem_cons_of_mem _ hu)
    rcases t with ⟨s, w1, w2⟩
    simp only [both, List.filterMap_cons] at ih' ⊢
    cases s <;> cases w1 <;> cases w2 <;> simp_all [oadd]
    ring

theorem both_smul_length (c : Rat) (l : List CaseN) :
    (both (fun t => t.2.1.map (c * ·)) l).length = (both (fun t => t.2.1) l).length := by
  induction l with
  | nil => rfl
  | cons t l ih =>
    rcases t with ⟨s, w1, w2⟩
    simp only [both, List.filterMap_cons] at ih ⊢
    cases s <;> cases w1 <;> simp_all

theorem both_smul_sum (c : Rat) (l : List CaseN) :
    ((both (fun t => t.2.1.map (c * ·)) l).map fun p => p.1 * p.2).sum =
      c * ((both (fun t => t.2.1) l).map fun p => p.1 * p.2).sum := by
  induction l with
  | nil => simp [both]
  | cons t l ih =>
    rcases t with ⟨s, w1, w2⟩
    simp only [both, List.filterMap_cons] at ih ⊢
    cases s <;> cases w1 <;> simp_all
    ring

/-- entries of a list that are all non-NaN: `valid` keeps everything -/
theorem valid_eq_self_of_forall {xs : List Fl} (h : ∀ x ∈ xs, x.notNan = true) : valid xs = xs := by
  unfold valid
  exact List.filter_eq_self.mpr h

theorem nanmean_eq_strictmean_of_forall {xs : List Fl} (h : ∀ x ∈ xs, x.notNan = true) :
    nanmean xs = strictmean xs := by
  unfold nanmean strictmean
  simp only [valid_eq_self_of_forall h]

/-- NaN entries do not contribute to `valid` -/
theorem valid_filter_notNan_map {α : Type} (f : α → Fl) (l : List α) :
    valid (l.map f) = valid ((l.filter fun t => (f t).notNan).map f) := by
  unfold valid
  induction l with
  | nil => rfl
  | cons t l ih =>
    by_cases h : (f t).notNan = true
    · simp [h, ih]
    · simp [h, ih]

theorem nanmean_filter_notNan_map {α : Type} (f : α → Fl) (l : List α) :
    nanmean (l.map f) = nanmean ((l.filter fun t => (f t).notNan).map f) := by
  unfold nanmean
  rw [← valid_filter_notNan_map]

end SV.C03Nan
