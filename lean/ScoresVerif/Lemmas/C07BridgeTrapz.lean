/-
  Lemmas/C07BridgeTrapz — what `crps_cdf_trapz` integrates, as a Lebesgue integral: the trapezoid sum of samples
  `L_k` at the grid points `x_k` is the integral of the continuous piecewise-linear interpolant of the SAMPLES
  (`pwLinR g L`), not of the function the samples were taken from.
-/
import ScoresVerif.Lemmas.C07Bridge

set_option linter.unusedVariables false

namespace SV.Bridge.C07
open MeasureTheory Set SV.Bridge
open SV.Lemmas.CrpsCdf (Incr trapzQ)
open SV.Spec.Murphy (lastOr)

theorem continuous_linR (a b fa fb : ℝ) : Continuous (linR a b fa fb) := by unfold linR; fun_prop

/-- ∫ of the chord over its cell = the trapezoid value -/
theorem integral_linR (x0 x1 l0 l1 : ℚ) (hlt : x0 < x1) :
    ∫ t in (x0 : ℝ)..(x1 : ℝ), linR x0 x1 l0 l1 t = (((x1 - x0) * (1 / 2) * (l1 + l0) : ℚ) : ℝ) := by
  have hne : (x1 : ℝ) - x0 ≠ 0 := by
    have : (x0 : ℝ) < x1 := by exact_mod_cast hlt
    linarith
  have e : (fun t : ℝ => linR x0 x1 l0 l1 t)
      = fun t : ℝ => ((l0 : ℝ) - (l1 - l0) / (x1 - x0) * x0) + ((l1 : ℝ) - l0) / (x1 - x0) * t + 0 * t ^ 2 + 0 * t ^ 3 := by
    funext t; unfold linR; field_simp; ring
  rw [e, integral_cubic]
  push_cast
  field_simp
  ring

/-- **trapezoid sum = Lebesgue integral of the piecewise-linear interpolant of the samples** -/
theorem trapzQ_integral : ∀ (rest : List ℚ) (p : ℚ) (L : List ℚ),
    Incr (p :: rest) → L.length = (p :: rest).length →
    IntervalIntegrable (pwLinR (p :: rest) L) volume p (lastOr p rest) ∧
      ((trapzQ (p :: rest) L : ℚ) : ℝ) = ∫ t in (p : ℝ)..(lastOr p rest : ℝ), pwLinR (p :: rest) L t := by
  intro rest
  induction rest with
  | nil =>
    intro p L _ _
    simp [lastOr, trapzQ]
  | cons x1 xs ih =>
    intro x0 L hg hL
    rcases L with _ | ⟨l0, _ | ⟨l1, ls⟩⟩
    · simp at hL
    · simp at hL
    have hlt : (x0 : ℝ) < x1 := by exact_mod_cast hg.1
    obtain ⟨hi2, he2⟩ := ih x1 (l1 :: ls) hg.2 (by simpa using hL)
    have hx1last : (x1 : ℝ) ≤ lastOr x1 xs := by exact_mod_cast le_lastOr_of_incr xs x1 hg.2
    obtain ⟨hi2', he2'⟩ := tail_congr (F := pwLinR (x0 :: x1 :: xs) (l0 :: l1 :: ls)) hx1last
      (fun t ht => by
        show (if t < (x1 : ℝ) then _ else _) = _
        rw [if_neg (not_lt.mpr ht)]) hi2
    obtain ⟨hi1, he1⟩ := cell_congr (F := pwLinR (x0 :: x1 :: xs) (l0 :: l1 :: ls)) hlt.le
      (continuous_linR x0 x1 l0 l1) (fun t _ h2 => by
        show (if t < (x1 : ℝ) then _ else _) = _
        rw [if_pos h2])
    refine ⟨hi1.trans hi2', ?_⟩
    show ((trapzQ (x0 :: x1 :: xs) (l0 :: l1 :: ls) : ℚ) : ℝ) = ∫ t in (x0 : ℝ)..(lastOr x1 xs : ℝ), _
    rw [← intervalIntegral.integral_add_adjacent_intervals hi1 hi2', he1, he2', ← he2, integral_linR x0 x1 l0 l1 hg.1]
    simp only [trapzQ]
    push_cast
    ring

/-- the interpolant takes the sample values at the grid points -/
theorem pwLinR_at_grid : ∀ (rest : List ℚ) (p : ℚ) (L : List ℚ), Incr (p :: rest) → L.length = (p :: rest).length →
    pwLinR (p :: rest) L p = ((L.headD 0 : ℚ) : ℝ) := by
  intro rest p L hg hL
  rcases rest with _ | ⟨x1, xs⟩
  · rcases L with _ | ⟨l0, _ | ⟨l1, ls⟩⟩
    · simp at hL
    · simp [pwLinR]
    · simp at hL
  · rcases L with _ | ⟨l0, _ | ⟨l1, ls⟩⟩
    · simp at hL
    · simp at hL
    · have hlt : (p : ℝ) < x1 := by exact_mod_cast hg.1
      show (if (p : ℝ) < (x1 : ℝ) then _ else _) = _
      rw [if_pos hlt]
      simp [linR]

end SV.Bridge.C07
