/-
  C16 stretch — helper lemmas for Props/C16Stretch.lean: special windows (1×1, whole field), count bounds,
  characterisation of score 1 / score 0.  All about the EXISTING `SV.Spec.Fss` / `SV.Model.Fss` definitions.
-/
import ScoresVerif.Lemmas.Fss

namespace SV.Model.Fss
open SV SV.Fl
open SV.Spec.Fss (image fieldSums sums score fss win ext sumTo)

/-- row-major listing of the H × W field itself -/
def flat (x : Nat → Nat → Int) (H W : Nat) : List Int :=
  (List.range H).flatMap fun i => (List.range W).map fun j => x i j

/-- number of events in the whole field -/
def total (x : Nat → Nat → Int) (H W : Nat) : Int := ∑ a ∈ Finset.range H, ∑ b ∈ Finset.range W, x a b

theorem ext_zero (x : Nat → Nat → Int) (H W a b : Nat) (ha : a < H) (hb : b < W) :
    ext x H W 0 0 a b = x a b := by
  unfold ext
  rw [if_pos ⟨Nat.zero_le _, by omega, Nat.zero_le _, by omega⟩]
  simp

theorem win_one (e : Nat → Nat → Int) (i j : Nat) : win e i j 1 1 = e i j := by
  simp [win, sumTo]

theorem image_1x1 (x : Nat → Nat → Int) (H W : Nat) : image x H W 0 0 0 0 1 1 = flat x H W := by
  unfold image flat
  have e1 : 0 + H + 0 + 1 - 1 = H := by omega
  have e2 : 0 + W + 0 + 1 - 1 = W := by omega
  rw [e1, e2]
  apply flatMap_range_congr
  intro i hi j hj
  rw [win_one, ext_zero x H W i j hi hj]

theorem win_whole (x : Nat → Nat → Int) (H W : Nat) : win (ext x H W 0 0) 0 0 H W = total x H W := by
  unfold win total
  simp only [sumTo_eq_sum]
  refine Finset.sum_congr rfl fun a ha => Finset.sum_congr rfl fun b hb => ?_
  rw [Nat.zero_add, Nat.zero_add]
  exact ext_zero x H W a b (Finset.mem_range.mp ha) (Finset.mem_range.mp hb)

theorem image_whole (x : Nat → Nat → Int) (H W : Nat) : image x H W 0 0 0 0 H W = [total x H W] := by
  unfold image
  have e1 : 0 + H + 0 + 1 - H = 1 := by omega
  have e2 : 0 + W + 0 + 1 - W = 1 := by omega
  rw [e1, e2]
  simp [win_whole]

/-- the score of a single pair of counts -/
theorem score_single (f o : Int) :
    score (sums [f] [o]) = 2 * (o : Rat) * (f : Rat) / ((o : Rat) * o + (f : Rat) * f) := by
  simp only [sums, score, add_zero]
  split_ifs with h0
  · have : ((o : Rat) * o + (f : Rat) * f) = 0 := by exact_mod_cast h0
    rw [this, div_zero]
  · have hne : ((o : Rat) * o + (f : Rat) * f) ≠ 0 := by exact_mod_cast h0
    push_cast
    rw [eq_div_iff hne, sub_mul, div_mul_cancel₀ _ hne]
    ring

/-! ### count bounds -/

theorem ext_le_one (x : Nat → Nat → Int) (H W pt pl : Nat) (hx : ∀ i < H, ∀ j < W, x i j ≤ 1) (a b : Nat) :
    ext x H W pt pl a b ≤ 1 := by
  unfold ext
  split_ifs with hc
  · exact hx _ (by omega) _ (by omega)
  · decide

theorem win_le_area (e : Nat → Nat → Int) (he : ∀ a b, e a b ≤ 1) (i j h w : Nat) :
    win e i j h w ≤ (h : Int) * (w : Int) := by
  unfold win
  simp only [sumTo_eq_sum]
  calc ∑ a ∈ Finset.range h, ∑ b ∈ Finset.range w, e (i + a) (j + b)
      ≤ ∑ a ∈ Finset.range h, ∑ b ∈ Finset.range w, (1 : Int) :=
        Finset.sum_le_sum fun a _ => Finset.sum_le_sum fun b _ => he _ _
    _ = (h : Int) * (w : Int) := by simp

theorem image_le_area (x : Nat → Nat → Int) (H W pt pb pl pr h w : Nat) (hx : ∀ i < H, ∀ j < W, x i j ≤ 1) :
    ∀ v ∈ image x H W pt pb pl pr h w, v ≤ (h : Int) * (w : Int) := by
  intro v hv
  unfold image at hv
  rw [List.mem_flatMap] at hv
  obtain ⟨i, _, hv⟩ := hv
  rw [List.mem_map] at hv
  obtain ⟨j, _, rfl⟩ := hv
  exact win_le_area _ (ext_le_one x H W pt pl hx) _ _ _ _

/-! ### score 1 / score 0 -/

theorem sums_diff_nonneg : ∀ (lf lo : List Int), 0 ≤ (sums lf lo).2.2
  | [], _ => by simp [sums]
  | _ :: _, [] => by simp [sums]
  | f :: fs, o :: os => by
    have := sums_diff_nonneg fs os
    simp only [sums]
    nlinarith [mul_self_nonneg (o - f)]

theorem sums_diff_zero_iff : ∀ (lf lo : List Int), lf.length = lo.length → ((sums lf lo).2.2 = 0 ↔ lf = lo)
  | [], [], _ => by simp [sums]
  | [], _ :: _, h => by simp at h
  | _ :: _, [], h => by simp at h
  | f :: fs, o :: os, h => by
    have ih := sums_diff_zero_iff fs os (by simpa using h)
    have hnn := sums_diff_nonneg fs os
    simp only [sums, List.cons.injEq]
    constructor
    · intro hz
      have hsq : 0 ≤ (o - f) * (o - f) := mul_self_nonneg _
      have h1 : (o - f) * (o - f) = 0 := by omega
      have h2 : (sums fs os).2.2 = 0 := by omega
      have h3 : o - f = 0 := mul_self_eq_zero.mp h1
      exact ⟨by omega, ih.mp h2⟩
    · rintro ⟨rfl, hl⟩
      rw [ih.mpr hl]; simp

theorem score_eq_one_iff (s : Int × Int × Int) : score s = 1 ↔ s.2.1 + s.1 ≠ 0 ∧ s.2.2 = 0 := by
  unfold score
  split_ifs with h0
  · constructor
    · intro h; norm_num at h
    · rintro ⟨h, _⟩; exact absurd h0 h
  · have hne : ((s.2.1 + s.1 : Int) : Rat) ≠ 0 := by exact_mod_cast h0
    constructor
    · intro h
      have : (s.2.2 : Rat) / ((s.2.1 + s.1 : Int) : Rat) = 0 := by linarith
      rcases div_eq_zero_iff.mp this with h' | h'
      · exact ⟨h0, by exact_mod_cast h'⟩
      · exact absurd h' hne
    · rintro ⟨_, h⟩
      rw [h]; simp

theorem sumSq_eq_zero_iff (l : List Int) : sumSq l = 0 ↔ ∀ v ∈ l, v = 0 := by
  constructor
  · intro h v hv
    by_contra hne
    have := sumSq_pos_of_mem l v hv hne
    omega
  · intro h
    induction l with
    | nil => simp [sumSq]
    | cons u t ih =>
      unfold sumSq
      rw [h u List.mem_cons_self, ih fun v hv => h v (List.mem_cons_of_mem _ hv)]
      simp

/-- paired counts never both non-zero ⇒ Σ(o−f)² = Σo² + Σf² -/
theorem sums_disjoint : ∀ (lf lo : List Int), (∀ p ∈ List.zip lf lo, p.1 * p.2 = 0) →
    (sums lf lo).2.2 = (sums lf lo).2.1 + (sums lf lo).1
  | [], _, _ => by simp [sums]
  | _ :: _, [], _ => by simp [sums]
  | f :: fs, o :: os, hd => by
    have ih := sums_disjoint fs os fun p hp => hd p (by simp [List.zip_cons_cons, hp])
    have h0 : f * o = 0 := hd (f, o) (by simp)
    simp only [sums]
    rw [ih]
    nlinarith

theorem score_zero_of_diff_eq (s : Int × Int × Int) (h : s.2.2 = s.2.1 + s.1) : score s = 0 := by
  unfold score
  split_ifs with h0
  · rfl
  · have hne : ((s.2.1 + s.1 : Int) : Rat) ≠ 0 := by exact_mod_cast h0
    rw [h, div_self hne]; norm_num

/-- paired count lists of equal length score exactly 1 iff they coincide and contain a non-zero count -/
theorem score_sums_eq_one_iff (lf lo : List Int) (hlen : lf.length = lo.length) :
    score (sums lf lo) = 1 ↔ lf = lo ∧ ∃ v ∈ lf, v ≠ 0 := by
  rw [score_eq_one_iff, sums_diff_zero_iff lf lo hlen]
  constructor
  · rintro ⟨hD, rfl⟩
    refine ⟨rfl, ?_⟩
    rw [spec_sums_self] at hD
    simp only at hD
    by_contra hno
    push Not at hno
    have := (sumSq_eq_zero_iff lf).mpr hno
    omega
  · rintro ⟨rfl, v, hv, hv0⟩
    refine ⟨?_, rfl⟩
    rw [spec_sums_self]
    have := sumSq_pos_of_mem lf v hv hv0
    simp only
    omega

end SV.Model.Fss
