/-
  C06 stretch: each threshold-weighted ensemble CRPS value INDIVIDUALLY equals the weighted integral
  `Spec.CrpsEns.twIntegral a? b? xs y = stepIntegral (1[a,b) · (F_ens − H_y)²)`.

  The chaining function of the weight 1[a,b) is the clip `vOpt a? b? x = min (max x a) b` (a missing end = no clipping on
  that side): it is the antiderivative of the weight, so |v x − v z| is the length of [x,z) ∩ [a,b) = ∫ 1[a,b) · 1[x,z)
  (`tw_stepIntegral_J`).  The integrand-level three-point identity
      (1[p≤t] − 1[y≤t]) (1[q≤t] − 1[y≤t]) = ½ (1[p,y) + 1[q,y) − 1[p,q))       (`dd_mul_dd_J`)
  transports this to ∫ w · dd p y · dd q y = K (v p) (v q) (v y), and summing over the members gives the kernel form of
  the v-transformed ensemble (`twIntegral_eq_kernelEcdf`).
-/
import ScoresVerif.Lemmas.CrpsEnsBrier

namespace SV.Lemmas.CrpsEns
open SV SV.Spec.CrpsEns

/-! ## 1. step-integral additions -/

theorem ind_empty' {lo hi : Rat} (h : hi ≤ lo) (t : Rat) : ind lo hi t = 0 := by
  unfold ind; split_ifs with h'
  · exact absurd (lt_of_le_of_lt h'.1 h'.2) (not_lt.mpr h)
  · rfl

/-- ∫ 1[lo,hi) = (hi − lo)⁺ on any sorted grid that contains both end points (empty when hi ≤ lo) -/
theorem stepIntegral_ind_pos {g : List Rat} (hg : g.Pairwise (· < ·)) {lo hi : Rat} (hlo : lo ∈ g) (hhi : hi ∈ g) :
    stepIntegral (ind lo hi) g = max (hi - lo) 0 := by
  rcases le_total lo hi with h | h
  · rw [stepIntegral_ind hg hlo hhi h, max_eq_left (by linarith)]
  · have : stepIntegral (ind lo hi) g = stepIntegral (fun _ => 0) g :=
      stepIntegral_congr (fun t _ => ind_empty' h t)
    rw [this, stepIntegral_zero, max_eq_right (by linarith)]

theorem stepIntegral_sub (f h : Rat → Rat) : ∀ (g : List Rat),
    stepIntegral (fun t => f t - h t) g = stepIntegral f g - stepIntegral h g
  | [] => by simp [stepIntegral]
  | [_] => by simp [stepIntegral]
  | p :: q :: rest => by simp only [stepIntegral, stepIntegral_sub f h (q :: rest)]; ring

/-! ## 2. the clip chaining function of the weight 1[a,b) -/

/-- `max x a`, or `x` when there is no lower end -/
def omax (a : Option Rat) (x : Rat) : Rat := match a with | some a => max x a | none => x
/-- `min x b`, or `x` when there is no upper end -/
def omin (b : Option Rat) (x : Rat) : Rat := match b with | some b => min x b | none => x
/-- the chaining function of the weight `weightOn a b` = 1[a,b): clip to [a, b] -/
def vOpt (a b : Option Rat) (x : Rat) : Rat := omin b (omax a x)

theorem vOpt_lower (t x : Rat) : vOpt none (some t) x = vLo t x := rfl
theorem vOpt_upper (t x : Rat) : vOpt (some t) none x = vHi t x := rfl
theorem vOpt_interval (a b x : Rat) : vOpt (some a) (some b) x = vMid a b x := rfl
theorem vOpt_none (x : Rat) : vOpt none none x = x := rfl

/-- weight × indicator of [lo,hi) = indicator of the intersection -/
theorem weightOn_mul_ind (a b : Option Rat) (lo hi t : Rat) :
    weightOn a b t * ind lo hi t = ind (omax a lo) (omin b hi) t := by
  unfold weightOn ind omax omin
  cases a <;> cases b <;> simp only [Bool.and_true, Bool.true_and, Bool.and_eq_true, decide_eq_true_eq, max_le_iff, lt_min_iff] <;>
    split_ifs <;> first | (norm_num; done) | (exfalso; grind)

theorem omax_mem {g : List Rat} {a b : Option Rat} (hp : ∀ p ∈ optPts a b, p ∈ g) {x : Rat} (hx : x ∈ g) : omax a x ∈ g := by
  cases a with
  | none => exact hx
  | some a =>
    have ha : a ∈ g := hp a (by simp [optPts])
    show max x a ∈ g
    rcases max_choice x a with h | h <;> rw [h] <;> assumption

theorem omin_mem {g : List Rat} {a b : Option Rat} (hp : ∀ p ∈ optPts a b, p ∈ g) {x : Rat} (hx : x ∈ g) : omin b x ∈ g := by
  cases b with
  | none => exact hx
  | some b =>
    have hb : b ∈ g := hp b (by cases a <;> simp [optPts])
    show min x b ∈ g
    rcases min_choice x b with h | h <;> rw [h] <;> assumption

/-- **the chaining function is the antiderivative of the weight**: |v x − v z| is the length of [x,z) ∩ [a,b) -/
theorem abs_vOpt_sub (a b : Option Rat) (x z : Rat) :
    |vOpt a b x - vOpt a b z| = max (omin b (max x z) - omax a (min x z)) 0 := by
  cases a <;> cases b <;> simp only [vOpt, omax, omin] <;>
    simp only [max_def, min_def, abs] <;> split_ifs <;> linarith

/-! ## 3. ∫ w · 1[x,z) = |v x − v z| and the transported three-point identity -/

/-- indicator of the half-open interval between x and z (either order) -/
def J (x z t : Rat) : Rat := ind (min x z) (max x z) t

theorem tw_stepIntegral_J {g : List Rat} (hg : g.Pairwise (· < ·)) {a b : Option Rat}
    (hp : ∀ p ∈ optPts a b, p ∈ g) {x z : Rat} (hx : x ∈ g) (hz : z ∈ g) :
    stepIntegral (fun t => weightOn a b t * J x z t) g = |vOpt a b x - vOpt a b z| := by
  have e : (fun t => weightOn a b t * J x z t) = ind (omax a (min x z)) (omin b (max x z)) := by
    funext t; exact weightOn_mul_ind a b _ _ t
  have hmin : min x z ∈ g := by rcases min_choice x z with h | h <;> rw [h] <;> assumption
  have hmax : max x z ∈ g := by rcases max_choice x z with h | h <;> rw [h] <;> assumption
  rw [e, stepIntegral_ind_pos hg (omax_mem hp hmin) (omin_mem hp hmax), abs_vOpt_sub]

/-- the three-point identity at the level of the integrand -/
theorem dd_mul_dd_J (p q y t : Rat) : dd p y t * dd q y t = (J p y t + J q y t - J p q t) * (1 / 2) := by
  unfold dd heaviside J ind
  by_cases h1 : p ≤ t <;> by_cases h2 : q ≤ t <;> by_cases h3 : y ≤ t <;>
    simp only [h1, h2, h3, min_le_iff, lt_max_iff, not_lt.mpr, or_self, or_true, or_false, false_or,
      true_and, and_false, false_and, if_true, if_false] <;>
    first | (norm_num; done) | (split_ifs <;> first | (norm_num; done) | (exfalso; grind))

/-- ∫ w · (1[p≤t] − 1[y≤t]) (1[q≤t] − 1[y≤t]) dt = K (v p) (v q) (v y) -/
theorem tw_stepIntegral_dd {g : List Rat} (hg : g.Pairwise (· < ·)) {a b : Option Rat}
    (hpts : ∀ p ∈ optPts a b, p ∈ g) {p q y : Rat} (hp : p ∈ g) (hq : q ∈ g) (hy : y ∈ g) :
    stepIntegral (fun t => weightOn a b t * (dd p y t * dd q y t)) g = K (vOpt a b p) (vOpt a b q) (vOpt a b y) := by
  have e : (fun t => weightOn a b t * (dd p y t * dd q y t)) = fun t =>
      (1 / 2) * ((weightOn a b t * J p y t + weightOn a b t * J q y t) - weightOn a b t * J p q t) := by
    funext t; rw [dd_mul_dd_J]; ring
  rw [e, stepIntegral_smul,
    stepIntegral_sub (fun t => weightOn a b t * J p y t + weightOn a b t * J q y t) (fun t => weightOn a b t * J p q t),
    stepIntegral_add (fun t => weightOn a b t * J p y t) (fun t => weightOn a b t * J q y t),
    tw_stepIntegral_J hg hpts hp hy, tw_stepIntegral_J hg hpts hq hy, tw_stepIntegral_J hg hpts hp hq,
    three_point]
  ring

/-! ## 4. summing over the members -/

theorem KK_map (v : Rat → Rat) (xs : List Rat) (y : Rat) :
    KK (xs.map v) (v y) = (xs.map fun p => (xs.map fun q => K (v p) (v q) (v y)).sum).sum := by
  unfold KK; simp only [List.map_map]; rfl

theorem twIntegral_eq_KK {xs : List Rat} (hx : xs ≠ []) {a b : Option Rat} (y : Rat) :
    twIntegral a b xs y = KK (xs.map (vOpt a b)) (vOpt a b y) / (xs.length : Rat) ^ 2 := by
  unfold twIntegral
  have e : (fun t => weightOn a b t * integrand xs y t) = fun t =>
      (1 / (xs.length : Rat) ^ 2) * (xs.map fun p => (xs.map fun q => weightOn a b t * (dd p y t * dd q y t)).sum).sum := by
    funext t
    rw [integrand_eq hx y t]
    have : (fun p => (xs.map fun q => weightOn a b t * (dd p y t * dd q y t)).sum)
        = fun p => weightOn a b t * (xs.map fun q => dd p y t * dd q y t).sum := by
      funext p; rw [sum_map_const_mul]
    rw [this, sum_map_const_mul]; ring
  rw [e, stepIntegral_smul,
    stepIntegral_listSum (fun p t => (xs.map fun q => weightOn a b t * (dd p y t * dd q y t)).sum)]
  have hg := pairwise_grid (optPts a b ++ y :: xs)
  have hy : y ∈ grid (optPts a b ++ y :: xs) := mem_grid.mpr (by simp)
  have hpts : ∀ p ∈ optPts a b, p ∈ grid (optPts a b ++ y :: xs) := fun p hp => mem_grid.mpr (by simp [hp])
  have inner : ∀ p ∈ xs,
      stepIntegral (fun t => (xs.map fun q => weightOn a b t * (dd p y t * dd q y t)).sum) (grid (optPts a b ++ y :: xs))
      = (xs.map fun q => K (vOpt a b p) (vOpt a b q) (vOpt a b y)).sum := by
    intro p hp
    rw [stepIntegral_listSum (fun q t => weightOn a b t * (dd p y t * dd q y t))]
    apply sum_map_congr
    intro q hq
    exact tw_stepIntegral_dd hg hpts (mem_grid.mpr (by simp [hp])) (mem_grid.mpr (by simp [hq])) hy
  rw [sum_map_congr inner, KK_map]; ring

/-- **weighted integral = kernel form of the v-transformed ensemble** -/
theorem twIntegral_eq_kernelEcdf {xs : List Rat} (hx : xs ≠ []) {a b : Option Rat} (y : Rat) :
    kernelEcdf (xs.map (vOpt a b)) (vOpt a b y) = twIntegral a b xs y := by
  have hne : xs.map (vOpt a b) ≠ [] := by simpa using hx
  rw [kernelEcdf_eq_KK hne, twIntegral_eq_KK hx, List.length_map]

/-- … and = the unweighted integral of the v-transformed ensemble -/
theorem crpsIntegral_map_vOpt {xs : List Rat} (hx : xs ≠ []) {a b : Option Rat} (y : Rat) :
    crpsIntegral (xs.map (vOpt a b)) (vOpt a b y) = twIntegral a b xs y := by
  have hne : xs.map (vOpt a b) ≠ [] := by simpa using hx
  rw [← kernelEcdf_eq_integral hne, twIntegral_eq_kernelEcdf hx]

end SV.Lemmas.CrpsEns
