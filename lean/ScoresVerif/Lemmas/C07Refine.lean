/-
  C07 stretch: refinement invariance of the exact integration.

  The exact CRPS of a case is a sum over the cells of the threshold grid.  When a threshold `m` is inserted into
  a cell `(p, q)` on which the (filled) forecast is affine, the weight is constant on `[p, q)` and which does not
  have the observation strictly inside, the two new cell integrals add up to the old one (`piece` additivity), so
  total / under / over do not change.  Grids are refined with the model's own `insertU` (the step of `sortU`,
  i.e. of `np.sort(pd.unique(...))`).
-/
import ScoresVerif.Lemmas.CrpsCdf

namespace SV.Lemmas.C07Refine
open SV SV.Model.Cdf SV.Model.CrpsCdf SV.Lemmas.Cdf SV.Lemmas.CrpsCdf
open SV.Fl (fin nan)
open SV.Spec.CrpsCdf (cellSq simpson lin exactParts)

/-! ### additivity of one piece -/

/-- the code's piece formula is additive when the middle ordinate is the linear interpolation -/
theorem piece_split (p m q a b : Rat) (hpm : p < m) (hmq : m < q) :
    Fl.add (piece (fin (m - p)) (fin a) (fin (lin p q a b m))) (piece (fin (q - m)) (fin (lin p q a b m)) (fin b))
      = piece (fin (q - p)) (fin a) (fin b) := by
  have h1 : m - p ≠ 0 := (sub_pos.mpr hpm).ne'
  have h2 : q - m ≠ 0 := (sub_pos.mpr hmq).ne'
  have h3 : q - p ≠ 0 := (sub_pos.mpr (hpm.trans hmq)).ne'
  rw [piece_fin _ _ _ h1, piece_fin _ _ _ h2, piece_fin _ _ _ h3, Fl.add_fin]
  congr 1
  unfold lin
  field_simp
  ring

/-- the Spec's cell integral is additive for an affine forecast `α + β t` -/
theorem cellSq_split_affine (α β h a m b : Rat) (ham : a < m) (hmb : m < b) :
    cellSq a m (α + β * a) (α + β * m) h + cellSq m b (α + β * m) (α + β * b) h
      = cellSq a b (α + β * a) (α + β * b) h := by
  rw [cellSq_eq _ _ _ _ _ ham.ne, cellSq_eq _ _ _ _ _ hmb.ne, cellSq_eq _ _ _ _ _ (ham.trans hmb).ne]
  ring

/-! ### sums over the cells of a grid and insertion of one point -/

/-- `Σ_cells c(x_k, x_{k+1})` -/
def cellSum (c : Rat → Rat → Rat) : List Rat → Rat
  | x0 :: x1 :: xs => c x0 x1 + cellSum c (x1 :: xs)
  | _ => 0

/-- a predicate that holds on every cell of the grid -/
def OnCells (P : Rat → Rat → Prop) : List Rat → Prop
  | x0 :: x1 :: xs => P x0 x1 ∧ OnCells P (x1 :: xs)
  | _ => True

theorem insertU_head_le (m q : Rat) (r : List Rat) (h : q ≤ m) : ∃ t, insertU m (q :: r) = q :: t := by
  unfold insertU
  split_ifs with h1 h2
  · exact absurd h1 (not_lt.mpr h)
  · exact ⟨r, rfl⟩
  · exact ⟨_, rfl⟩

theorem mem_insertU_of_mem {x m : Rat} {G : List Rat} (h : x ∈ G) : x ∈ insertU m G := by
  induction G with
  | nil => simp at h
  | cons y ys ih =>
    unfold insertU
    split_ifs
    · exact List.mem_cons_of_mem _ h
    · exact h
    · rcases List.mem_cons.mp h with rfl | h
      · simp
      · exact List.mem_cons_of_mem _ (ih h)

/-- inserting `m` (with `head ≤ m ≤ some grid point`) keeps a cell sum and a cell predicate, when the predicate is
    inherited by sub-cells and makes the cell functional split at `m` -/
theorem insertU_cells (P : Rat → Rat → Prop) (c : Rat → Rat → Rat) (m : Rat)
    (hher : ∀ p q a b, P p q → p ≤ a → a < b → b ≤ q → P a b)
    (hsplit : ∀ p q, P p q → p < m → m < q → c p m + c m q = c p q)
    (p : Rat) (rest : List Rat) (hc : OnCells P (p :: rest)) (hp : p ≤ m) (hq : ∃ q ∈ p :: rest, m ≤ q) :
    cellSum c (insertU m (p :: rest)) = cellSum c (p :: rest) ∧ OnCells P (insertU m (p :: rest)) := by
  induction rest generalizing p with
  | nil =>
    obtain ⟨q, hqm, hmq⟩ := hq
    simp only [List.mem_singleton] at hqm
    subst hqm
    have : m = q := le_antisymm hmq hp
    subst this
    simp [insertU, cellSum, OnCells]
  | cons q0 r ih =>
    rcases eq_or_lt_of_le hp with rfl | hlt
    · have e : insertU p (p :: q0 :: r) = p :: q0 :: r := by simp [insertU]
      rw [e]
      exact ⟨rfl, hc⟩
    · have e : insertU m (p :: q0 :: r) = p :: insertU m (q0 :: r) := by
        simp [insertU, not_lt.mpr hp, hlt.ne']
      rw [e]
      obtain ⟨hpq, hrest⟩ := hc
      by_cases hm : m < q0
      · have e2 : insertU m (q0 :: r) = m :: q0 :: r := by simp [insertU, hm]
        rw [e2]
        refine ⟨?_, ?_⟩
        · simp only [cellSum]
          rw [← hsplit p q0 hpq hlt hm]; ring
        · exact ⟨hher p q0 p m hpq le_rfl hlt hm.le, hher p q0 m q0 hpq hlt.le hm le_rfl, hrest⟩
      · have hq0 : q0 ≤ m := not_lt.mp hm
        have hq' : ∃ q ∈ q0 :: r, m ≤ q := by
          obtain ⟨q, hqm, hmq⟩ := hq
          rcases List.mem_cons.mp hqm with rfl | hqm
          · exact absurd (lt_of_lt_of_le hlt hmq) (lt_irrefl _)
          · exact ⟨q, hqm, hmq⟩
        obtain ⟨i1, i2⟩ := ih q0 hrest hq0 hq'
        obtain ⟨t, ht⟩ := insertU_head_le m q0 r hq0
        rw [ht] at i1 i2 ⊢
        refine ⟨?_, hpq, i2⟩
        simp only [cellSum] at i1 ⊢
        rw [i1]

/-- the same for a whole list of inserted points -/
theorem foldr_insertU_cells (P : Rat → Rat → Prop) (c : Rat → Rat → Rat) (ms : List Rat)
    (hher : ∀ p q a b, P p q → p ≤ a → a < b → b ≤ q → P a b)
    (hsplit : ∀ m ∈ ms, ∀ p q, P p q → p < m → m < q → c p m + c m q = c p q)
    (p : Rat) (rest : List Rat) (hc : OnCells P (p :: rest)) (hms : ∀ m ∈ ms, p ≤ m ∧ ∃ q ∈ p :: rest, m ≤ q) :
    cellSum c (ms.foldr insertU (p :: rest)) = cellSum c (p :: rest) ∧ OnCells P (ms.foldr insertU (p :: rest)) ∧
      (∃ t, ms.foldr insertU (p :: rest) = p :: t) ∧ ∀ x ∈ p :: rest, x ∈ ms.foldr insertU (p :: rest) := by
  induction ms with
  | nil => exact ⟨rfl, hc, ⟨rest, rfl⟩, fun x hx => hx⟩
  | cons m ms ih =>
    obtain ⟨i1, i2, ⟨t, ht⟩, i4⟩ := ih (fun m' hm' => hsplit m' (List.mem_cons_of_mem _ hm'))
      (fun m' hm' => hms m' (List.mem_cons_of_mem _ hm'))
    obtain ⟨hpm, q, hqm, hmq⟩ := hms m (by simp)
    simp only [List.foldr_cons]
    rw [ht] at i1 i2 i4 ⊢
    obtain ⟨j1, j2⟩ := insertU_cells P c m hher (hsplit m (by simp)) p t i2 hpm ⟨q, i4 q hqm, hmq⟩
    obtain ⟨t', ht'⟩ := insertU_head_le m p t hpm
    exact ⟨j1.trans i1, j2, ⟨t', ht'⟩, fun x hx => mem_insertU_of_mem (i4 x hx)⟩

/-! ### the exact CRPS of functions sampled on a grid -/

/-- `F` is affine on `[p, q]` -/
def AffineOn (F : Rat → Rat) (p q : Rat) : Prop := ∃ α β : Rat, ∀ t, p ≤ t → t ≤ q → F t = α + β * t
/-- `W` is constant on `[p, q)` -/
def ConstOn (W : Rat → Rat) (p q : Rat) : Prop := ∀ t, p ≤ t → t < q → W t = W p

/-- a cell that may be split at any of the points `S`: strictly increasing, the observation is not strictly inside;
    if it contains a point of `S` the forecast is affine and the weight constant on it -/
def Cell (obs : Rat) (F W : Rat → Rat) (S : Rat → Prop) (p q : Rat) : Prop :=
  p < q ∧ (p < obs → q ≤ obs) ∧ (∀ m, S m → p < m → m < q → AffineOn F p q ∧ ConstOn W p q)

theorem cell_hered (obs : Rat) (F W : Rat → Rat) (S : Rat → Prop) :
    ∀ p q a b, Cell obs F W S p q → p ≤ a → a < b → b ≤ q → Cell obs F W S a b := by
  intro p q a b ⟨_, hobs, hgood⟩ hpa hab hbq
  refine ⟨hab, fun ha => (hobs (lt_of_le_of_lt hpa ha)).trans' hbq, ?_⟩
  intro m hm ham hmb
  obtain ⟨⟨α, β, hF⟩, hW⟩ := hgood m hm (lt_of_le_of_lt hpa ham) (lt_of_lt_of_le hmb hbq)
  refine ⟨⟨α, β, fun t h1 h2 => hF t (hpa.trans h1) (h2.trans hbq)⟩, ?_⟩
  intro t h1 h2
  rw [hW t (hpa.trans h1) (lt_of_lt_of_le h2 hbq), hW a hpa (lt_of_lt_of_le hab hbq)]

/-- under- and over-forecast cell functionals of the Spec -/
def cU (obs : Rat) (F W : Rat → Rat) (p q : Rat) : Rat := if q ≤ obs then W p * cellSq p q (F p) (F q) 0 else 0
def cO (obs : Rat) (F W : Rat → Rat) (p q : Rat) : Rat := if q ≤ obs then 0 else W p * cellSq p q (F p) (F q) 1

theorem cU_split (obs : Rat) (F W : Rat → Rat) (S : Rat → Prop) (m : Rat) (hm : S m) :
    ∀ p q, Cell obs F W S p q → p < m → m < q → cU obs F W p m + cU obs F W m q = cU obs F W p q := by
  intro p q ⟨hpq, hobs, hgood⟩ hpm hmq
  obtain ⟨⟨α, β, hF⟩, hW⟩ := hgood m hm hpm hmq
  have eW : W m = W p := hW m hpm.le hmq
  rw [cU, cU, cU, hF p le_rfl hpq.le, hF m hpm.le hmq.le, hF q hpq.le le_rfl, eW]
  by_cases hq : q ≤ obs
  · have hm' : m ≤ obs := hmq.le.trans hq
    simp only [hq, hm', if_true]
    rw [← cellSq_split_affine α β 0 p m q hpm hmq]; ring
  · have hm' : ¬ m ≤ obs := fun h => hq (hobs (lt_of_lt_of_le hpm h))
    simp only [hq, hm', if_false]; ring

theorem cO_split (obs : Rat) (F W : Rat → Rat) (S : Rat → Prop) (m : Rat) (hm : S m) :
    ∀ p q, Cell obs F W S p q → p < m → m < q → cO obs F W p m + cO obs F W m q = cO obs F W p q := by
  intro p q ⟨hpq, hobs, hgood⟩ hpm hmq
  obtain ⟨⟨α, β, hF⟩, hW⟩ := hgood m hm hpm hmq
  have eW : W m = W p := hW m hpm.le hmq
  rw [cO, cO, cO, hF p le_rfl hpq.le, hF m hpm.le hmq.le, hF q hpq.le le_rfl, eW]
  by_cases hq : q ≤ obs
  · have hm' : m ≤ obs := hmq.le.trans hq
    simp only [hq, hm', if_true]; ring
  · have hm' : ¬ m ≤ obs := fun h => hq (hobs (lt_of_lt_of_le hpm h))
    simp only [hq, hm', if_false]
    rw [← cellSq_split_affine α β 1 p m q hpm hmq]; ring

/-- the Spec's parts of functions sampled on a grid are cell sums -/
theorem exactParts_map (obs : Rat) (F W : Rat → Rat) (G : List Rat) :
    (exactParts obs G (G.map F) (G.map W)).under = cellSum (cU obs F W) G ∧
    (exactParts obs G (G.map F) (G.map W)).over = cellSum (cO obs F W) G ∧
    (exactParts obs G (G.map F) (G.map W)).total = cellSum (cU obs F W) G + cellSum (cO obs F W) G := by
  induction G with
  | nil => simp [exactParts, cellSum]
  | cons x0 xs ih =>
    cases xs with
    | nil => simp [exactParts, cellSum]
    | cons x1 xs =>
      obtain ⟨i1, i2, i3⟩ := ih
      simp only [List.map_cons] at i1 i2 i3
      by_cases h : x1 ≤ obs
      · simp only [List.map_cons, exactParts, cellSum, cU, cO, h, if_true, i1, i2, i3]
        refine ⟨trivial, by ring, by ring⟩
      · simp only [List.map_cons, exactParts, cellSum, cU, cO, h, if_false, i1, i2, i3]
        refine ⟨by ring, trivial, by ring⟩

theorem incr_of_cells (obs : Rat) (F W : Rat → Rat) (S : Rat → Prop) (G : List Rat) (h : OnCells (Cell obs F W S) G) : Incr G := by
  induction G with
  | nil => trivial
  | cons x xs ih =>
    cases xs with
    | nil => trivial
    | cons y ys => exact ⟨h.1.1, ih h.2⟩

theorem noStraddle_of_cells (obs : Rat) (F W : Rat → Rat) (S : Rat → Prop) (G : List Rat) (h : OnCells (Cell obs F W S) G) :
    NoStraddle obs G := by
  induction G with
  | nil => trivial
  | cons x xs ih =>
    cases xs with
    | nil => trivial
    | cons y ys => exact ⟨h.1.2.1, ih h.2⟩

theorem cells_of (obs : Rat) (F W : Rat → Rat) (S : Rat → Prop) (G : List Rat) (hinc : Incr G) (hs : NoStraddle obs G)
    (hg : OnCells (fun p q => ∀ m, S m → p < m → m < q → AffineOn F p q ∧ ConstOn W p q) G) :
    OnCells (Cell obs F W S) G := by
  induction G with
  | nil => trivial
  | cons x xs ih =>
    cases xs with
    | nil => trivial
    | cons y ys => exact ⟨⟨hinc.1, hs.1, hg.1⟩, ih hinc.2 hs.2 hg.2⟩

theorem Parts.ext' {a b : Parts} (h1 : a.total = b.total) (h2 : a.under = b.under) (h3 : a.over = b.over) : a = b := by
  cases a; cases b; simp_all

/-- **refinement invariance, row level**: forecast `F` and weight `W` given as functions on the threshold axis,
    sampled on the grid; inserting the thresholds `ms` with the model's `insertU` leaves the three outputs of
    `crps_cdf_exact` unchanged, provided every inserted point lies within the grid span and every cell that receives
    a point carries an affine `F` and a constant `W` -/
theorem exactRow_refine (obs : Rat) (F W : Rat → Rat) (p : Rat) (rest ms : List Rat)
    (hinc : Incr (p :: rest)) (hs : NoStraddle obs (p :: rest))
    (hg : OnCells (fun a b => ∀ m ∈ ms, a < m → m < b → AffineOn F a b ∧ ConstOn W a b) (p :: rest))
    (hms : ∀ m ∈ ms, p ≤ m ∧ ∃ q ∈ p :: rest, m ≤ q) :
    exactRow (ms.foldr insertU (p :: rest)) (((ms.foldr insertU (p :: rest)).map F).map fin)
        (observedRow (ms.foldr insertU (p :: rest)) (fin obs)) (((ms.foldr insertU (p :: rest)).map W).map fin)
      = exactRow (p :: rest) (((p :: rest).map F).map fin) (observedRow (p :: rest) (fin obs)) (((p :: rest).map W).map fin) := by
  have hc := cells_of obs F W (· ∈ ms) (p :: rest) hinc hs hg
  have hher := cell_hered obs F W (· ∈ ms)
  obtain ⟨u1, u2, _, _⟩ := foldr_insertU_cells _ (cU obs F W) ms hher (fun m hm => cU_split obs F W _ m hm) p rest hc hms
  obtain ⟨o1, _, _, _⟩ := foldr_insertU_cells _ (cO obs F W) ms hher (fun m hm => cO_split obs F W _ m hm) p rest hc hms
  obtain ⟨a1, a2, a3⟩ := exactRow_eq_spec obs _ ((ms.foldr insertU (p :: rest)).map F) ((ms.foldr insertU (p :: rest)).map W)
    (incr_of_cells _ _ _ _ _ u2) (noStraddle_of_cells _ _ _ _ _ u2) (by simp) (by simp)
  obtain ⟨b1, b2, b3⟩ := exactRow_eq_spec obs _ ((p :: rest).map F) ((p :: rest).map W) hinc hs (by simp) (by simp)
  obtain ⟨e1, e2, e3⟩ := exactParts_map obs F W (ms.foldr insertU (p :: rest))
  obtain ⟨f1, f2, f3⟩ := exactParts_map obs F W (p :: rest)
  apply Parts.ext'
  · rw [a1, b1, e3, f3, u1, o1]
  · rw [a2, b2, e1, f1, u1]
  · rw [a3, b3, e2, f2, o1]

end SV.Lemmas.C07Refine
