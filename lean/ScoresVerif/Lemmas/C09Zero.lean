/-
  Helper lemmas for Props/C09Zero.lean: `Fl` quotients of natural-number counts
  (IEEE value of `m / k`, of the odds `p / (1 - p)` and of a quotient of two such quotients).
-/
import ScoresVerif.Lemmas.FlBasic

namespace SV.Lemmas.C09Zero
open SV SV.Fl

/-- IEEE value of a quotient of two natural numbers: `0/0 = nan`, `m/0 = +inf`, otherwise the rational. -/
theorem div_nat (m k : Nat) :
    div (fin (m : Rat)) (fin (k : Rat)) = if k = 0 then (if m = 0 then nan else pinf) else fin ((m : Rat) / k) := by
  by_cases hk : k = 0
  · subst hk
    by_cases hm : m = 0
    · subst hm; simp
    · have : (0 : Rat) < m := by exact_mod_cast Nat.pos_of_ne_zero hm
      simp [hm, div_fin_zero_pos _ this]
  · have : (k : Rat) ≠ 0 := by exact_mod_cast hk
    simp [hk, div_fin _ _ this]

/-- a part divided by a whole that contains it is never infinite -/
theorem div_nat_le (m k : Nat) (h : m ≤ k) :
    div (fin (m : Rat)) (fin (k : Rat)) = if k = 0 then nan else fin ((m : Rat) / k) := by
  rw [div_nat]
  by_cases hk : k = 0
  · have : m = 0 := by omega
    simp [hk, this]
  · simp [hk]

/-- … and when finite it lies in `[0, 1]` -/
theorem div_nat_le_range (m k : Nat) (h : m ≤ k) (q : Rat) (hq : div (fin (m : Rat)) (fin (k : Rat)) = fin q) :
    0 ≤ q ∧ q ≤ 1 := by
  rw [div_nat_le m k h] at hq
  by_cases hk : k = 0
  · simp [hk] at hq
  · rw [if_neg hk] at hq
    injection hq with hq
    subst hq
    have hk' : (0 : Rat) < k := by exact_mod_cast Nat.pos_of_ne_zero hk
    have hm : (m : Rat) ≤ k := by exact_mod_cast h
    exact ⟨by positivity, (div_le_one hk').mpr hm⟩

theorem div_zero_zero_of_eq (x y : Rat) (hx : x = 0) (hy : y = 0) : div (fin x) (fin y) = nan := by
  subst hx; subst hy; simp

/-- odds `p / (1 - p)` of the proportion `p = m / (m + k)`, in IEEE arithmetic, is the IEEE value of `m / k`
    (nan for `m = k = 0`, `+inf` for `k = 0 < m`). -/
theorem odds_nat (m k : Nat) (s : Rat) (hs : s = (m : Rat) + k) :
    div (div (fin (m : Rat)) (fin s)) (sub (fin 1) (div (fin (m : Rat)) (fin s))) = div (fin (m : Rat)) (fin (k : Rat)) := by
  subst hs
  rcases Nat.eq_zero_or_pos k with hk | hk
  · subst hk
    rcases Nat.eq_zero_or_pos m with hm | hm
    · subst hm; simp
    · have hm' : (0 : Rat) < m := by exact_mod_cast hm
      simp only [Nat.cast_zero, add_zero]
      rw [div_fin _ _ hm'.ne', sub_fin, div_self hm'.ne', sub_self,
          div_fin_zero_pos 1 (by norm_num), div_fin_zero_pos _ hm']
  · have hk' : (0 : Rat) < k := by exact_mod_cast hk
    have hm' : (0 : Rat) ≤ m := by positivity
    have h1 : ((m : Rat) + k) ≠ 0 := by positivity
    have e : (1 : Rat) - (m : Rat) / ((m : Rat) + k) = k / ((m : Rat) + k) := by field_simp; ring
    have h2 : (k : Rat) / ((m : Rat) + k) ≠ 0 := div_ne_zero hk'.ne' h1
    rw [div_fin _ _ h1, sub_fin, e, div_fin _ _ h2, div_fin _ _ hk'.ne']
    congr 1
    field_simp

/-- a quotient of two IEEE quotients of natural numbers is the IEEE value of the cross ratio -/
theorem div_div_nat (a c b d : Nat) :
    div (div (fin (a : Rat)) (fin (c : Rat))) (div (fin (b : Rat)) (fin (d : Rat)))
      = div (fin ((a : Rat) * d)) (fin ((b : Rat) * c)) := by
  rcases Nat.eq_zero_or_pos c with hc | hc
  · subst hc
    rcases Nat.eq_zero_or_pos a with ha | ha
    · subst ha; simp
    · have ha' : (0 : Rat) < a := by exact_mod_cast ha
      rw [show div (fin (a : Rat)) (fin ((0 : Nat) : Rat)) = pinf by simpa using div_fin_zero_pos _ ha']
      rcases Nat.eq_zero_or_pos d with hd | hd
      · subst hd
        rcases Nat.eq_zero_or_pos b with hb | hb
        · subst hb; simp [div]
        · have hb' : (0 : Rat) < b := by exact_mod_cast hb
          rw [show div (fin (b : Rat)) (fin ((0 : Nat) : Rat)) = pinf by simpa using div_fin_zero_pos _ hb']
          simp [div]
      · have hd' : (0 : Rat) < d := by exact_mod_cast hd
        have hb' : (0 : Rat) ≤ b := by positivity
        rw [div_fin _ _ hd'.ne']
        have hq : ¬ ((b : Rat) / d < 0) := not_lt.mpr (by positivity)
        have had : (0 : Rat) < (a : Rat) * d := by positivity
        have e : (b : Rat) * ((0 : Nat) : Rat) = 0 := by simp
        rw [e, div_fin_zero_pos _ had]
        simp [div, hq]
  · have hc' : (0 : Rat) < c := by exact_mod_cast hc
    rw [div_fin _ _ hc'.ne']
    rcases Nat.eq_zero_or_pos d with hd | hd
    · subst hd
      rcases Nat.eq_zero_or_pos b with hb | hb
      · subst hb; simp [div]
      · have hb' : (0 : Rat) < b := by exact_mod_cast hb
        rw [show div (fin (b : Rat)) (fin ((0 : Nat) : Rat)) = pinf by simpa using div_fin_zero_pos _ hb']
        have hbc : (b : Rat) * c ≠ 0 := by positivity
        have e : (a : Rat) * ((0 : Nat) : Rat) = 0 := by simp
        rw [e, div_fin _ _ hbc]
        simp [div]
    · have hd' : (0 : Rat) < d := by exact_mod_cast hd
      rw [div_fin _ _ hd'.ne']
      rcases Nat.eq_zero_or_pos b with hb | hb
      · subst hb
        have e : (((0 : Nat) : Rat)) / (d : Rat) = 0 := by simp
        have e2 : (((0 : Nat) : Rat)) * (c : Rat) = 0 := by simp
        rw [e, e2]
        rcases Nat.eq_zero_or_pos a with ha | ha
        · subst ha; simp
        · have ha' : (0 : Rat) < a := by exact_mod_cast ha
          rw [div_fin_zero_pos _ (by positivity : (0 : Rat) < (a : Rat) / c),
              div_fin_zero_pos _ (by positivity : (0 : Rat) < (a : Rat) * d)]
      · have hb' : (0 : Rat) < b := by exact_mod_cast hb
        have h1 : (b : Rat) / d ≠ 0 := by positivity
        have h2 : (b : Rat) * c ≠ 0 := by positivity
        rw [div_fin _ _ h1, div_fin _ _ h2]
        congr 1
        field_simp

/-- n·(a + b + c − a_r) for the ETS denominator: positive unless forecast and observation are the same constant -/
theorem ets_den_pos (a b c d : Nat) (h : ¬ (b = 0 ∧ c = 0 ∧ (a = 0 ∨ d = 0))) :
    (0 : Rat) < (b : Rat) * b + c * c + a * b + a * c + b * c + ((a : Rat) + b + c) * d := by
  have ha0 : (0 : Rat) ≤ a := by positivity
  have hb0 : (0 : Rat) ≤ b := by positivity
  have hc0 : (0 : Rat) ≤ c := by positivity
  have hd0 : (0 : Rat) ≤ d := by positivity
  rcases Nat.eq_zero_or_pos b with hb | hb
  · rcases Nat.eq_zero_or_pos c with hc | hc
    · have ha : 0 < a := by
        rcases Nat.eq_zero_or_pos a with ha | ha
        · exact absurd ⟨hb, hc, Or.inl ha⟩ h
        · exact ha
      have hd : 0 < d := by
        rcases Nat.eq_zero_or_pos d with hd | hd
        · exact absurd ⟨hb, hc, Or.inr hd⟩ h
        · exact hd
      have ha' : (0 : Rat) < a := by exact_mod_cast ha
      have hd' : (0 : Rat) < d := by exact_mod_cast hd
      have : (0 : Rat) < (a : Rat) * d := by positivity
      nlinarith [mul_nonneg ha0 hb0, mul_nonneg hc0 hc0, mul_nonneg hb0 hb0, mul_nonneg ha0 hc0,
        mul_nonneg hc0 hd0, mul_nonneg hb0 hd0, mul_nonneg hb0 hc0]
    · have hc' : (0 : Rat) < c := by exact_mod_cast hc
      have : (0 : Rat) < (c : Rat) * c := by positivity
      nlinarith [mul_nonneg ha0 hb0, mul_nonneg ha0 hd0, mul_nonneg hb0 hb0, mul_nonneg ha0 hc0,
        mul_nonneg hc0 hd0, mul_nonneg hb0 hd0, mul_nonneg hb0 hc0]
  · have hb' : (0 : Rat) < b := by exact_mod_cast hb
    have : (0 : Rat) < (b : Rat) * b := by positivity
    nlinarith [mul_nonneg ha0 hb0, mul_nonneg ha0 hd0, mul_nonneg hc0 hc0, mul_nonneg ha0 hc0,
      mul_nonneg hc0 hd0, mul_nonneg hb0 hd0, mul_nonneg hb0 hc0]

/-- the HSS denominator (a+c)(c+d) + (a+b)(b+d): positive on the same tables -/
theorem hss_den_pos (a b c d : Nat) (h : ¬ (b = 0 ∧ c = 0 ∧ (a = 0 ∨ d = 0))) :
    (0 : Rat) < ((a : Rat) + c) * (c + d) + ((a : Rat) + b) * (b + d) := by
  have := ets_den_pos a b c d h
  have ha0 : (0 : Rat) ≤ a := by positivity
  have hb0 : (0 : Rat) ≤ b := by positivity
  have hc0 : (0 : Rat) ≤ c := by positivity
  have hd0 : (0 : Rat) ≤ d := by positivity
  nlinarith [mul_nonneg ha0 hd0, mul_nonneg ha0 hb0, mul_nonneg ha0 hc0, mul_nonneg hb0 hd0,
    mul_nonneg hc0 hd0, sq_nonneg ((b : Rat) - c)]

/-- a table with a positive ETS/HSS denominator is not empty -/
theorem total_ne_zero (a b c d : Nat) (h : ¬ (b = 0 ∧ c = 0 ∧ (a = 0 ∨ d = 0))) :
    (a : Rat) + d + b + c ≠ 0 := by
  have : a + d + b + c ≠ 0 := by omega
  exact_mod_cast this

end SV.Lemmas.C09Zero
