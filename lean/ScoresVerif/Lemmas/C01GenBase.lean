/-
  Definitions and helper lemmas for Props/C01Gen.lean (regenerated `gather_dimensions` = model): how Python arguments
  look as dynamic values, the observable outcome of a run, the simp set that evaluates the generated `do` block.
  The case analysis is split over several files so that lake checks them in parallel.
-/
import ScoresVerif.Gen.Dims
import ScoresVerif.Props.C01
import Mathlib.Tactic.SplitIfs

namespace SV.Props.C01Gen
open SV.Dims SV.PyDyn SV.Gen.Dims

/-- how the caller's Python argument looks for each spelling of a request -/
def toV : DimSpec → V
  | DimSpec.none => V.none
  | DimSpec.all => V.str "all"
  | DimSpec.str s => V.str s
  | DimSpec.list l => V.list l

def wToV : Option (List String) → V
  | Option.none => V.none
  | some w => V.list w

/-- the three documented error classes, recognised by the message the source raises -/
def classify (msg : String) : Option Err :=
  if msg = "ERROR_OVERSPECIFIED_PRESERVE_REDUCE" then some Err.both
  else if msg = "ERROR_SPECIFIED_NONPRESENT_PRESERVE_DIMENSION" ∨ msg = "ERROR_SPECIFIED_NONPRESENT_REDUCE_DIMENSION" then some Err.absent
  else if msg = "`score_specific_fcst_dims` must be a subset of `fcst` dimensions"
       ∨ msg = "`obs.dims` must not contain any `score_specific_fcst_dims`"
       ∨ msg = "`weights.dims` must not contain any `score_specific_fcst_dims`"
       ∨ msg = "`reduce_dims` and `preserve_dims` must not contain any `score_specific_fcst_dims`" then some Err.specific
  else Option.none

/-- observable outcome of a run of the generated code: a set of names, or one of the documented errors;
    `none` = anything else (TypeError, AssertionError, a non-set result) -/
def outcome : M V → Option (Except Err (List String))
  | Except.ok (V.list l) => some (Except.ok l)
  | Except.ok _ => Option.none
  | Except.error (PyErr.value m) => (classify m).map Except.error
  | Except.error _ => Option.none

/-- a bare string other than "all" (the spelling "all" is `DimSpec.all`) -/
def notAllStr : DimSpec → Bool
  | DimSpec.str s => s != "all"
  | _ => true



instance : DecidableEq (Except Err (List String)) := fun a b =>
  match a, b with
  | Except.ok x, Except.ok y => if h : x = y then isTrue (by rw [h]) else isFalse (by intro e; cases e; exact h rfl)
  | Except.error x, Except.error y => if h : x = y then isTrue (by rw [h]) else isFalse (by intro e; cases e; exact h rfl)
  | Except.ok _, Except.error _ => isFalse (by intro e; cases e)
  | Except.error _, Except.ok _ => isFalse (by intro e; cases e)

macro "gd_simp" : tactic => `(tactic|
  simp [gen_gather_dimensions, gather, toV, wToV, outcome, classify, V.toSet, V.iter, V.union, V.asSet, V.isNone, V.or,
    V.truthy, V.eqStr, V.copy, V.isStr, V.issubset, V.singleton, V.len, V.intersection, V.difference, V.containsStr,
    DimSpec.isNone, DimSpec.truthy, DimSpec.asList, bind, Except.bind, pure, Except.pure,
    throw, throwThe, MonadExceptOf.throw, List.length_pos_iff, *])

/-- both options named: the regenerated code raises the "overspecified" error before anything else -/
theorem gen_both_is_error (fcst obs : List String) (w : Option (List String)) (reduce preserve specific : DimSpec)
    (hr : reduce ≠ DimSpec.none) (hp : preserve ≠ DimSpec.none) :
    outcome (gen_gather_dimensions (V.list fcst) (V.list obs) (wToV w) (toV reduce) (toV preserve) (toV specific))
      = some (Except.error Err.both) := by
  cases w <;> cases reduce <;> cases preserve <;> first | contradiction | gd_simp

end SV.Props.C01Gen
