/-
  C17 stretch: the four fill methods of `fill_cdf` (model: `interpolate_na` + clip, `ffill` + 0,
  `bfill ∘ ffill`, `ffill ∘ bfill`) equal the Spec's knot-function description (`Spec.Cdf.fillRow`):
  at a NaN position with threshold `t` the value is a function of the given knots and `t` alone —
  linear: chord between the neighbouring knots / first or last chord extended, then clipped to [0,1];
  step: last knot at or left of `t`, else 0;  forward: last knot left of `t`, else the first knot;
  backward: next knot right of `t`, else the last knot.

  Hypotheses: strictly increasing thresholds, same length, no infinities (for "linear": ordinates in [0,1],
  which `fill_cdf` guards).
-/
import ScoresVerif.Lemmas.CrpsCdf
import ScoresVerif.Lemmas.C17Lower

namespace SV.Lemmas.C17Fill
open SV SV.Model.Cdf SV.Lemmas.Cdf SV.Lemmas.CrpsCdf
open SV.Fl (fin nan)
open SV.Spec.Cdf (lastLE firstGE clip01 chord linearAt fillAt ofOpt)

/-! ### knots -/

theorem knots_eq (thr : List Rat) (xs : List Fl) : SV.Spec.Cdf.knots thr xs = knots thr xs := by
  induction thr generalizing xs with
  | nil => cases xs <;> simp [SV.Spec.Cdf.knots, knots]
  | cons t ts ih =>
    cases xs with
    | nil => simp [SV.Spec.Cdf.knots, knots]
    | cons x xs => cases x <;> simp [SV.Spec.Cdf.knots, knots, ih]

theorem mem_knots_fst {ts : List Rat} {xs : List Fl} {k : Rat × Rat} (h : k ∈ knots ts xs) : k.1 ∈ ts := by
  induction ts generalizing xs with
  | nil => cases xs <;> simp [knots] at h
  | cons t ts ih =>
    cases xs with
    | nil => simp [knots] at h
    | cons x xs =>
      cases x with
      | fin q =>
        simp only [knots, List.mem_cons] at h
        rcases h with rfl | h
        · simp
        · exact List.mem_cons_of_mem _ (ih h)
      | pinf => simp only [knots] at h; exact List.mem_cons_of_mem _ (ih h)
      | ninf => simp only [knots] at h; exact List.mem_cons_of_mem _ (ih h)
      | nan => simp only [knots] at h; exact List.mem_cons_of_mem _ (ih h)

theorem knots_map_snd (ts : List Rat) (xs : List Fl) (hlen : ts.length = xs.length) :
    (knots ts xs).map Prod.snd = finVals xs := by
  induction ts generalizing xs with
  | nil => cases xs with
    | nil => rfl
    | cons x xs => simp at hlen
  | cons t ts ih =>
    cases xs with
    | nil => simp at hlen
    | cons x xs =>
      have := ih xs (by simpa using hlen)
      cases x <;> simp [knots, finVals, this]

theorem count_eq_finVals (xs : List Fl) (h : NoInf xs) : count xs = (finVals xs).length := by
  rw [count, valid_eq_map_fin xs h, List.length_map]

theorem knots_length (ts : List Rat) (xs : List Fl) (hlen : ts.length = xs.length) (h : NoInf xs) :
    (knots ts xs).length = count xs := by
  rw [count_eq_finVals xs h, ← knots_map_snd ts xs hlen, List.length_map]

/-- strictly increasing abscissae -/
def IncrK (ks : List (Rat × Rat)) : Prop := ks.Pairwise (fun a b => a.1 < b.1)

theorem incrK_knots (ts : List Rat) (xs : List Fl) (h : Incr ts) : IncrK (knots ts xs) := by
  induction ts generalizing xs with
  | nil => cases xs <;> simp [knots, IncrK]
  | cons t ts ih =>
    cases xs with
    | nil => simp [knots, IncrK]
    | cons x xs =>
      have ht := ih xs (incr_tail h)
      cases x with
      | fin q =>
        simp only [knots, IncrK, List.pairwise_cons]
        exact ⟨fun k hk => incr_head_lt h _ (mem_knots_fst hk), ht⟩
      | pinf => simpa [knots] using ht
      | ninf => simpa [knots] using ht
      | nan => simpa [knots] using ht

/-! ### `lastLE` / `firstGE` -/

theorem lastLE_append_gt (pre post : List (Rat × Rat)) (t : Rat) (h : ∀ k ∈ post, t < k.1) :
    lastLE (pre ++ post) t = lastLE pre t := by
  have : post.filter (fun k => decide (k.1 ≤ t)) = [] := by
    rw [List.filter_eq_nil_iff]
    intro k hk
    simpa using h k hk
  simp [lastLE, List.filter_append, this]

theorem lastLE_all_le (pre : List (Rat × Rat)) (t : Rat) (h : ∀ k ∈ pre, k.1 ≤ t) :
    lastLE pre t = pre.getLast? := by
  have : pre.filter (fun k => decide (k.1 ≤ t)) = pre := by
    rw [List.filter_eq_self]
    intro k hk
    simpa using h k hk
  simp [lastLE, this]

theorem firstGE_append_lt (pre post : List (Rat × Rat)) (t : Rat) (h : ∀ k ∈ pre, k.1 < t) :
    firstGE (pre ++ post) t = firstGE post t := by
  have : pre.filter (fun k => decide (t ≤ k.1)) = [] := by
    rw [List.filter_eq_nil_iff]
    intro k hk
    simpa using h k hk
  simp [firstGE, List.filter_append, this]

theorem firstGE_all_ge (post : List (Rat × Rat)) (t : Rat) (h : ∀ k ∈ post, t ≤ k.1) :
    firstGE post t = post.head? := by
  have : post.filter (fun k => decide (t ≤ k.1)) = post := by
    rw [List.filter_eq_self]
    intro k hk
    simpa using h k hk
  simp [firstGE, this]

theorem firstGE_none (post : List (Rat × Rat)) (t : Rat) (h : ∀ k ∈ post, k.1 < t) : firstGE post t = none := by
  have := firstGE_append_lt post [] t h
  simpa [firstGE] using this

theorem lastLE_none (post : List (Rat × Rat)) (t : Rat) (h : ∀ k ∈ post, t < k.1) : lastLE post t = none := by
  have := lastLE_append_gt [] post t h
  simpa [lastLE] using this

/-! ### forward fill as a function of the knots -/

/-- the carry of a forward fill after the knots `pre` (start value `a0`) -/
def lastD (pre : List (Rat × Rat)) (a0 : Fl) : Fl :=
  match pre.getLast? with
  | some k => fin k.2
  | none => a0

theorem lastD_concat (pre : List (Rat × Rat)) (k : Rat × Rat) (a0 : Fl) : lastD (pre ++ [k]) a0 = fin k.2 := by
  simp [lastD]

/-- **ffill, knot-wise**: a forward fill started with the carry of the knots `pre` puts, at a NaN position with
    threshold `t`, the ordinate of the last knot (of `pre` and the row's own) at or left of `t`, `a0` if there is none -/
theorem ffillFrom_eq (a0 : Fl) (pre : List (Rat × Rat)) (ts : List Rat) (xs : List Fl)
    (hpre : ∀ k ∈ pre, ∀ t ∈ ts, k.1 < t) (hinc : Incr ts) (hx : NoInf xs) (hlen : ts.length = xs.length) :
    ffillFrom (lastD pre a0) xs = (ts.zip xs).map (fun p =>
      if p.2.isNan then (match lastLE (pre ++ knots ts xs) p.1 with | some k => fin k.2 | none => a0) else p.2) := by
  induction xs generalizing ts pre with
  | nil => cases ts <;> simp [ffillFrom]
  | cons x xs ih =>
    cases ts with
    | nil => simp at hlen
    | cons t ts =>
      obtain ⟨hx0, hxs⟩ := hx.cons
      have hlen' : ts.length = xs.length := by simpa using hlen
      have hgt : ∀ k ∈ knots ts xs, t < k.1 := fun k hk => incr_head_lt hinc _ (mem_knots_fst hk)
      rcases hx0 with rfl | ⟨q, rfl⟩
      · have hpre' : ∀ k ∈ pre, ∀ t' ∈ ts, k.1 < t' := fun k hk t' ht' => hpre k hk t' (List.mem_cons_of_mem _ ht')
        have hhead : lastLE (pre ++ knots ts xs) t = pre.getLast? := by
          rw [lastLE_append_gt _ _ _ hgt, lastLE_all_le _ _ (fun k hk => (hpre k hk t (by simp)).le)]
        simp only [ffillFrom, Fl.isNan_nan, if_true, List.zip_cons_cons, List.map_cons, knots, hhead]
        rw [ih pre ts hpre' (incr_tail hinc) hxs hlen']
        rfl
      · have hpre' : ∀ k ∈ pre ++ [(t, q)], ∀ t' ∈ ts, k.1 < t' := by
          intro k hk t' ht'
          rcases List.mem_append.mp hk with hk | hk
          · exact hpre k hk t' (List.mem_cons_of_mem _ ht')
          · simp only [List.mem_singleton] at hk
            subst hk
            exact incr_head_lt hinc _ ht'
        have := ih (pre ++ [(t, q)]) ts hpre' (incr_tail hinc) hxs hlen'
        rw [lastD_concat, List.append_assoc, List.singleton_append] at this
        simp [ffillFrom, knots, this]

/-! ### backward fill as a recursion from the left, and as a function of the knots -/

/-- backward fill with a default `d` for the trailing NaNs -/
def bfillD (d : Fl) (xs : List Fl) : List Fl := (ffillFrom d xs.reverse).reverse

theorem bfill_eq_bfillD (xs : List Fl) : bfill xs = bfillD nan xs := rfl

theorem ffillFrom_concat (a x : Fl) (l : List Fl) :
    ffillFrom a (l ++ [x]) = ffillFrom a l ++ [if x.isNan then (ffillFrom a l).getLast?.getD a else x] := by
  induction l generalizing a with
  | nil => simp only [List.nil_append, ffillFrom]; split <;> simp
  | cons y l ih =>
    simp only [List.cons_append, ffillFrom]
    split
    · rw [ih a]; simp [List.getLast?_cons]
    · rw [ih y]; simp [List.getLast?_cons]

theorem bfillD_nil (d : Fl) : bfillD d [] = [] := rfl

theorem bfillD_cons (d x : Fl) (xs : List Fl) :
    bfillD d (x :: xs) = (if x.isNan then (bfillD d xs).head?.getD d else x) :: bfillD d xs := by
  simp [bfillD, ffillFrom_concat, List.head?_reverse]

theorem bfillD_noNan (d : Fl) (ys : List Fl) (h : ∀ y ∈ ys, y.isNan = false) : bfillD d ys = ys := by
  induction ys with
  | nil => rfl
  | cons y ys ih =>
    rw [bfillD_cons, ih (fun z hz => h z (List.mem_cons_of_mem _ hz))]
    simp [h y (by simp)]

theorem ffillFrom_noNan (a : Fl) (ha : a.isNan = false) (xs : List Fl) (hx : NoInf xs) :
    ∀ y ∈ ffillFrom a xs, y.isNan = false := by
  induction xs generalizing a with
  | nil => intro y hy; simp [ffillFrom] at hy
  | cons x xs ih =>
    obtain ⟨hx0, hxs⟩ := hx.cons
    rcases hx0 with rfl | ⟨q, rfl⟩
    · intro y hy
      simp only [ffillFrom, Fl.isNan_nan, if_true, List.mem_cons] at hy
      rcases hy with rfl | hy
      · exact ha
      · exact ih a ha hxs y hy
    · intro y hy
      simp only [ffillFrom, Fl.isNan_fin, Bool.false_eq_true, if_false, List.mem_cons] at hy
      rcases hy with rfl | hy
      · rfl
      · exact ih (fin q) rfl hxs y hy

/-- first / last given ordinate of a row (NaN when there is none) -/
def firstVal (xs : List Fl) : Fl := ofOpt (finVals xs).head?
def lastVal (xs : List Fl) : Fl := ofOpt (finVals xs).getLast?

theorem head_ffillFrom_firstVal (xs : List Fl) (hx : NoInf xs) :
    (ffillFrom (firstVal xs) xs).head?.getD nan = firstVal xs := by
  cases xs with
  | nil => rfl
  | cons x xs =>
    rcases (hx.cons).1 with rfl | ⟨q, rfl⟩
    · simp [ffillFrom]
    · simp [ffillFrom, firstVal, finVals, ofOpt]

/-- **forward = ffill then bfill** is one forward fill whose carry starts at the first given ordinate -/
theorem bfill_ffill_eq (xs : List Fl) (hx : NoInf xs) : bfill (ffill xs) = ffillFrom (firstVal xs) xs := by
  rw [bfill_eq_bfillD]
  induction xs with
  | nil => rfl
  | cons x xs ih =>
    obtain ⟨hx0, hxs⟩ := hx.cons
    rcases hx0 with rfl | ⟨q, rfl⟩
    · have e : ffill (nan :: xs) = nan :: ffill xs := by simp [ffill, ffillFrom]
      have f : firstVal (nan :: xs) = firstVal xs := by simp [firstVal, finVals]
      rw [e, bfillD_cons, ih hxs, f, head_ffillFrom_firstVal xs hxs]
      simp [ffillFrom]
    · have e : ffill (fin q :: xs) = fin q :: ffillFrom (fin q) xs := by simp [ffill, ffillFrom]
      have f : firstVal (fin q :: xs) = fin q := by simp [firstVal, finVals, ofOpt]
      rw [e, f, bfillD_noNan]
      · simp [ffillFrom]
      · intro y hy
        rcases List.mem_cons.mp hy with rfl | hy
        · rfl
        · exact ffillFrom_noNan (fin q) rfl xs hxs y hy

theorem noInf_reverse {xs : List Fl} (h : NoInf xs) : NoInf xs.reverse := fun x hx => h x (List.mem_reverse.mp hx)

/-- **backward = bfill then ffill** is one backward fill whose default is the last given ordinate -/
theorem ffill_bfill_eq (xs : List Fl) (hx : NoInf xs) : ffill (bfill xs) = bfillD (lastVal xs) xs := by
  have h1 : ∀ zs : List Fl, ffill zs = (bfill zs.reverse).reverse := by
    intro zs; simp [bfill]
  have h2 : (bfill xs).reverse = ffill xs.reverse := by simp [bfill]
  rw [h1 (bfill xs), h2, bfill_ffill_eq _ (noInf_reverse hx)]
  have : firstVal xs.reverse = lastVal xs := by
    simp [firstVal, lastVal, finVals_reverse, List.head?_reverse]
  rw [this]
  rfl

theorem bfillD_head (d : Fl) (ts : List Rat) (xs : List Fl) (hx : NoInf xs) (hlen : ts.length = xs.length) :
    (bfillD d xs).head?.getD d = (match (knots ts xs).head? with | some k => fin k.2 | none => d) := by
  induction xs generalizing ts with
  | nil => cases ts <;> simp [bfillD_nil, knots]
  | cons x xs ih =>
    cases ts with
    | nil => simp at hlen
    | cons t ts =>
      obtain ⟨hx0, hxs⟩ := hx.cons
      rcases hx0 with rfl | ⟨q, rfl⟩
      · rw [bfillD_cons]
        simpa [knots] using ih ts hxs (by simpa using hlen)
      · rw [bfillD_cons]
        simp [knots]

/-- **bfill, knot-wise**: at a NaN position with threshold `t` a backward fill puts the ordinate of the first knot
    at or right of `t`, the default `d` if there is none -/
theorem bfillD_eq (d : Fl) (pre : List (Rat × Rat)) (ts : List Rat) (xs : List Fl)
    (hpre : ∀ k ∈ pre, ∀ t ∈ ts, k.1 < t) (hinc : Incr ts) (hx : NoInf xs) (hlen : ts.length = xs.length) :
    bfillD d xs = (ts.zip xs).map (fun p =>
      if p.2.isNan then (match firstGE (pre ++ knots ts xs) p.1 with | some k => fin k.2 | none => d) else p.2) := by
  induction xs generalizing ts pre with
  | nil => cases ts <;> simp [bfillD_nil]
  | cons x xs ih =>
    cases ts with
    | nil => simp at hlen
    | cons t ts =>
      obtain ⟨hx0, hxs⟩ := hx.cons
      have hlen' : ts.length = xs.length := by simpa using hlen
      have hgt : ∀ k ∈ knots ts xs, t ≤ k.1 := fun k hk => (incr_head_lt hinc _ (mem_knots_fst hk)).le
      rcases hx0 with rfl | ⟨q, rfl⟩
      · have hpre' : ∀ k ∈ pre, ∀ t' ∈ ts, k.1 < t' := fun k hk t' ht' => hpre k hk t' (List.mem_cons_of_mem _ ht')
        have hhead : firstGE (pre ++ knots ts xs) t = (knots ts xs).head? := by
          rw [firstGE_append_lt _ _ _ (fun k hk => hpre k hk t (by simp)), firstGE_all_ge _ _ hgt]
        rw [bfillD_cons, bfillD_head d ts xs hxs hlen', ih pre ts hpre' (incr_tail hinc) hxs hlen']
        simp only [Fl.isNan_nan, if_true, List.zip_cons_cons, List.map_cons, knots, hhead]
      · have hpre' : ∀ k ∈ pre ++ [(t, q)], ∀ t' ∈ ts, k.1 < t' := by
          intro k hk t' ht'
          rcases List.mem_append.mp hk with hk | hk
          · exact hpre k hk t' (List.mem_cons_of_mem _ ht')
          · simp only [List.mem_singleton] at hk
            subst hk
            exact incr_head_lt hinc _ ht'
        have := ih (pre ++ [(t, q)]) ts hpre' (incr_tail hinc) hxs hlen'
        rw [List.append_assoc, List.singleton_append] at this
        rw [bfillD_cons, this]
        simp [knots]

/-! ### linear interpolation: the model's segment walk is the Spec's neighbour-knot chord -/

theorem clip01_eq (q : Rat) : clip01 q = min (max q 0) 1 := by
  unfold clip01
  split_ifs with h0 h1
  · rw [max_eq_right h0.le, min_eq_left zero_le_one]
  · rw [max_eq_left (not_lt.mp h0), min_eq_right h1.le]
  · rw [max_eq_left (not_lt.mp h0), min_eq_left (not_lt.mp h1)]

theorem lineAt_eq_chord (x0 y0 x1 y1 t : Rat) : lineAt x0 y0 x1 y1 t = chord (x0, y0) (x1, y1) t := by
  unfold lineAt chord
  ring

theorem firstGE_cons (k : Rat × Rat) (ks : List (Rat × Rat)) (t : Rat) :
    firstGE (k :: ks) t = if t ≤ k.1 then some k else firstGE ks t := by
  by_cases h : t ≤ k.1 <;> simp [firstGE, h]

theorem lastLE_cons (k : Rat × Rat) (ks : List (Rat × Rat)) (t : Rat) :
    lastLE (k :: ks) t = if k.1 ≤ t then some ((lastLE ks t).getD k) else lastLE ks t := by
  by_cases h : k.1 ≤ t <;> simp [lastLE, h, List.getLast?_cons]

theorem chord_left (a b : Rat × Rat) : chord a b a.1 = a.2 := by simp [chord]
theorem chord_right (a b : Rat × Rat) (h : a.1 < b.1) : chord a b b.1 = b.2 := by
  have : b.1 - a.1 ≠ 0 := (sub_pos.mpr h).ne'
  unfold chord
  field_simp
  ring

/-- on or left of the second knot the Spec's value is the first chord -/
theorem linearAt_le (k0 k1 : Rat × Rat) (rest : List (Rat × Rat)) (t : Rat) (hinc : IncrK (k0 :: k1 :: rest))
    (ht : t ≤ k1.1) : linearAt (k0 :: k1 :: rest) t = fin (clip01 (chord k0 k1 t)) := by
  simp only [IncrK, List.pairwise_cons] at hinc
  obtain ⟨h0, h1, _⟩ := hinc
  have h01 : k0.1 < k1.1 := h0 k1 (by simp)
  have hrest : ∀ k ∈ rest, t < k.1 := fun k hk => lt_of_le_of_lt ht (h1 k hk)
  have hL : lastLE rest t = none := lastLE_none rest t hrest
  rcases lt_trichotomy t k0.1 with hlt | heq | hgt
  · have e1 : lastLE (k0 :: k1 :: rest) t = none := by
      simp [lastLE_cons, hL, not_le.mpr hlt, not_le.mpr (hlt.trans h01)]
    have e2 : firstGE (k0 :: k1 :: rest) t = some k0 := by simp [firstGE_cons, hlt.le]
    simp [linearAt, e1, e2]
  · subst heq
    have e1 : lastLE (k0 :: k1 :: rest) k0.1 = some k0 := by
      simp [lastLE_cons, hL, not_le.mpr h01]
    have e2 : firstGE (k0 :: k1 :: rest) k0.1 = some k0 := by simp [firstGE_cons]
    simp [linearAt, e1, e2, chord_left]
  · rcases lt_or_eq_of_le ht with hlt1 | heq1
    · have e1 : lastLE (k0 :: k1 :: rest) t = some k0 := by
        simp [lastLE_cons, hL, hgt.le, not_le.mpr hlt1]
      have e2 : firstGE (k0 :: k1 :: rest) t = some k1 := by
        simp [firstGE_cons, not_le.mpr hgt, hlt1.le]
      simp [linearAt, e1, e2, h01.ne]
    · subst heq1
      have e1 : lastLE (k0 :: k1 :: rest) k1.1 = some k1 := by
        simp [lastLE_cons, hL, h01.le]
      have e2 : firstGE (k0 :: k1 :: rest) k1.1 = some k1 := by
        simp [firstGE_cons, not_le.mpr h01]
      simp [linearAt, e1, e2, chord_right k0 k1 h01]

/-- right of both knots of a two-knot list the Spec's value is the (only) chord extended -/
theorem linearAt_two_gt (k0 k1 : Rat × Rat) (t : Rat) (h01 : k0.1 < k1.1) (ht : k1.1 < t) :
    linearAt [k0, k1] t = fin (clip01 (chord k0 k1 t)) := by
  have e1 : lastLE [k0, k1] t = some k1 := by
    simp [lastLE, ht.le, (h01.trans ht).le]
  have e2 : firstGE [k0, k1] t = none := by
    simp [firstGE, not_le.mpr ht, not_le.mpr (h01.trans ht)]
  simp [linearAt, e1, e2]

/-- right of the second knot the first knot plays no role -/
theorem linearAt_gt (k0 k1 k2 : Rat × Rat) (rest : List (Rat × Rat)) (t : Rat) (hinc : IncrK (k0 :: k1 :: k2 :: rest))
    (ht : k1.1 < t) : linearAt (k0 :: k1 :: k2 :: rest) t = linearAt (k1 :: k2 :: rest) t := by
  simp only [IncrK, List.pairwise_cons] at hinc
  have h01 : k0.1 < k1.1 := hinc.1 k1 (by simp)
  have hk0 : k0.1 ≤ t := (h01.trans ht).le
  have e1 : lastLE (k0 :: k1 :: k2 :: rest) t = lastLE (k1 :: k2 :: rest) t := by
    rw [lastLE_cons k0, if_pos hk0, lastLE_cons k1, if_pos ht.le]
    simp
  have e2 : firstGE (k0 :: k1 :: k2 :: rest) t = firstGE (k1 :: k2 :: rest) t := by
    rw [firstGE_cons k0, if_neg (not_le.mpr (h01.trans ht))]
  obtain ⟨b, a, r, hr⟩ : ∃ b a r, (k1 :: k2 :: rest).reverse = b :: a :: r := by
    match h : (k1 :: k2 :: rest).reverse with
    | [] => simp at h
    | [_] => have := congrArg List.length h; simp at this
    | b :: a :: r => exact ⟨b, a, r, rfl⟩
  have hr' : (k0 :: k1 :: k2 :: rest).reverse = b :: a :: (r ++ [k0]) := by
    rw [List.reverse_cons, hr]; rfl
  have hlast : ∃ a', lastLE (k1 :: k2 :: rest) t = some a' := by
    rw [lastLE_cons k1, if_pos ht.le]; exact ⟨_, rfl⟩
  obtain ⟨a', ha'⟩ := hlast
  unfold linearAt
  rw [e1, e2, ha', hr, hr']
  cases firstGE (k1 :: k2 :: rest) t <;> rfl

/-- **interpolate_na then clip = the Spec's `linearAt`** for every `t` (on, between or outside the knots) -/
theorem interp_clip_eq (ks : List (Rat × Rat)) (t : Rat) (hinc : IncrK ks) (hlen : 2 ≤ ks.length) :
    Fl.min (Fl.max (interpAt ks t) (fin 0)) (fin 1) = linearAt ks t := by
  fun_induction interpAt ks t with
  | case1 x0 y0 x1 y1 t =>
    have h01 : x0 < x1 := by simpa [IncrK] using hinc
    rw [clip_fin, lineAt_eq_chord, ← clip01_eq]
    by_cases ht : t ≤ x1
    · exact (linearAt_le (x0, y0) (x1, y1) [] t hinc ht).symm
    · exact (linearAt_two_gt (x0, y0) (x1, y1) t h01 (not_le.mp ht)).symm
  | case2 x0 y0 x1 y1 k rest t ht =>
    rw [clip_fin, lineAt_eq_chord, ← clip01_eq]
    exact (linearAt_le (x0, y0) (x1, y1) (k :: rest) t hinc ht).symm
  | case3 x0 y0 x1 y1 k rest t ht ih =>
    rw [linearAt_gt (x0, y0) (x1, y1) k rest t hinc (not_le.mp ht)]
    exact ih (List.Pairwise.of_cons hinc) (by simp)
  | case4 ks t h1 h2 =>
    exfalso
    match ks, hlen with
    | [a, b], _ => exact h1 _ _ _ _ rfl
    | a :: b :: c :: r, _ => exact h2 _ _ _ _ _ _ rfl

/-! ### the four methods -/

theorem zip_map_snd (thr : List Rat) (xs : List Fl) (hlen : thr.length = xs.length) :
    (thr.zip xs).map (fun p => p.2) = xs := by
  induction thr generalizing xs with
  | nil => cases xs with
    | nil => rfl
    | cons x xs => simp at hlen
  | cons t ts ih =>
    cases xs with
    | nil => simp at hlen
    | cons x xs => simp [ih xs (by simpa using hlen)]

theorem specBlank (thr : List Rat) (xs : List Fl) (method : String) (k : Int) (hlen : thr.length = xs.length)
    (hx : NoInf xs) (h : (count xs : Int) < k) :
    SV.Spec.Cdf.fillRow thr xs method k = List.replicate xs.length nan := by
  unfold SV.Spec.Cdf.fillRow
  simp only [knots_eq, knots_length thr xs hlen hx, h, if_true]
  simp

theorem specEnough (thr : List Rat) (xs : List Fl) (method : String) (k : Int) (hlen : thr.length = xs.length)
    (hx : NoInf xs) (h : k ≤ (count xs : Int)) :
    SV.Spec.Cdf.fillRow thr xs method k =
      (thr.zip xs).map (fun p => if p.2.isNan then fillAt method (knots thr xs) p.1 else p.2) := by
  unfold SV.Spec.Cdf.fillRow
  simp only [knots_eq, knots_length thr xs hlen hx, not_lt.mpr h, if_false]

/-- "step": last knot at or left of `t`, else 0 -/
theorem fillRow_step_eq_spec (thr : List Rat) (xs : List Fl) (k : Int) (hlen : thr.length = xs.length)
    (hinc : Incr thr) (hx : NoInf xs) :
    fillRow thr xs "step" k = SV.Spec.Cdf.fillRow thr xs "step" k := by
  by_cases h : k ≤ (count xs : Int)
  · rw [specEnough thr xs _ k hlen hx h]
    have hm : fillRow thr xs "step" k = (ffill xs).map (fun v => Fl.fillna v (fin 0)) := by simp [fillRow, h]
    have := ffillFrom_eq nan [] thr xs (by simp) hinc hx hlen
    simp only [lastD, List.getLast?_nil, List.nil_append] at this
    rw [hm, ffill, this, List.map_map]
    apply List.map_congr_left
    intro p _
    simp only [Function.comp, fillAt]
    by_cases hp : p.2.isNan = true
    · simp only [hp, if_true]
      cases lastLE (knots thr xs) p.1 <;> simp [Fl.fillna]
    · simp [hp, Fl.fillna]
  · rw [fillRow_blank thr xs _ k (not_le.mp h), specBlank thr xs _ k hlen hx (not_le.mp h)]

theorem head_knots (thr : List Rat) (xs : List Fl) (hlen : thr.length = xs.length) :
    ofOpt ((knots thr xs).head?.map (·.2)) = firstVal xs := by
  rw [firstVal, ← knots_map_snd thr xs hlen, List.head?_map]

theorem last_knots (thr : List Rat) (xs : List Fl) (hlen : thr.length = xs.length) :
    ofOpt ((knots thr xs).getLast?.map (·.2)) = lastVal xs := by
  rw [lastVal, ← knots_map_snd thr xs hlen, List.getLast?_map]

/-- "forward": last knot at or left of `t`, else the first knot -/
theorem fillRow_forward_eq_spec (thr : List Rat) (xs : List Fl) (k : Int) (hlen : thr.length = xs.length)
    (hinc : Incr thr) (hx : NoInf xs) :
    fillRow thr xs "forward" k = SV.Spec.Cdf.fillRow thr xs "forward" k := by
  by_cases h : k ≤ (count xs : Int)
  · rw [specEnough thr xs _ k hlen hx h]
    have hm : fillRow thr xs "forward" k = bfill (ffill xs) := by simp [fillRow, h]
    have := ffillFrom_eq (firstVal xs) [] thr xs (by simp) hinc hx hlen
    simp only [lastD, List.getLast?_nil, List.nil_append] at this
    rw [hm, bfill_ffill_eq xs hx, this]
    apply List.map_congr_left
    intro p _
    simp only [fillAt, head_knots thr xs hlen]
    by_cases hp : p.2.isNan = true
    · simp only [hp, if_true]
      cases lastLE (knots thr xs) p.1 <;> simp
    · simp [hp]
  · rw [fillRow_blank thr xs _ k (not_le.mp h), specBlank thr xs _ k hlen hx (not_le.mp h)]

/-- "backward": first knot at or right of `t`, else the last knot -/
theorem fillRow_backward_eq_spec (thr : List Rat) (xs : List Fl) (k : Int) (hlen : thr.length = xs.length)
    (hinc : Incr thr) (hx : NoInf xs) :
    fillRow thr xs "backward" k = SV.Spec.Cdf.fillRow thr xs "backward" k := by
  by_cases h : k ≤ (count xs : Int)
  · rw [specEnough thr xs _ k hlen hx h]
    have hm : fillRow thr xs "backward" k = ffill (bfill xs) := by simp [fillRow, h]
    have := bfillD_eq (lastVal xs) [] thr xs (by simp) hinc hx hlen
    simp only [List.nil_append] at this
    rw [hm, ffill_bfill_eq xs hx, this]
    apply List.map_congr_left
    intro p _
    simp only [fillAt, last_knots thr xs hlen]
    by_cases hp : p.2.isNan = true
    · simp only [hp, if_true]
      cases firstGE (knots thr xs) p.1 <;> simp
    · simp [hp]
  · rw [fillRow_blank thr xs _ k (not_le.mp h), specBlank thr xs _ k hlen hx (not_le.mp h)]

/-- "linear": chord between the neighbouring knots, first / last chord extended outside, clipped to [0,1];
    with fewer than two knots nothing is filled -/
theorem fillRow_linear_eq_spec (thr : List Rat) (xs : List Fl) (k : Int) (hlen : thr.length = xs.length)
    (hinc : Incr thr) (hu : Unit01 xs) :
    fillRow thr xs "linear" k = SV.Spec.Cdf.fillRow thr xs "linear" k := by
  have hx : NoInf xs := hu.noInf
  have hclip : ∀ x ∈ xs, Fl.min (Fl.max x (fin 0)) (fin 1) = x := by
    intro x hxm
    rcases hu x hxm with rfl | ⟨q, rfl, h0, h1⟩
    · simp [Fl.min, Fl.max]
    · exact clip_unit h0 h1
  by_cases h : k ≤ (count xs : Int)
  · rw [specEnough thr xs _ k hlen hx h]
    have hm : fillRow thr xs "linear" k = (interpolateNa thr xs).map (fun v => Fl.min (Fl.max v (fin 0)) (fin 1)) := by
      simp [fillRow, h]
    rw [hm]
    unfold interpolateNa
    simp only
    by_cases h2 : (knots thr xs).length < 2
    · simp only [h2, if_true, fillAt]
      have : (thr.zip xs).map (fun p => if p.2.isNan = true then nan else p.2) = (thr.zip xs).map (fun p => p.2) := by
        apply List.map_congr_left
        intro p _
        by_cases hp : p.2.isNan = true
        · simp [(Fl.isNan_iff p.2).mp hp]
        · simp [hp]
      rw [this, zip_map_snd thr xs hlen]
      conv_rhs => rw [← List.map_id xs]
      apply List.map_congr_left
      intro x hxm
      exact hclip x hxm
    · simp only [h2, if_false, fillAt, List.map_map]
      apply List.map_congr_left
      intro p hp
      simp only [Function.comp]
      by_cases hn : p.2.isNan = true
      · simp only [hn, if_true]
        exact interp_clip_eq _ _ (incrK_knots thr xs hinc) (not_lt.mp h2)
      · simp only [hn]
        exact hclip p.2 (List.of_mem_zip hp).2
  · rw [fillRow_blank thr xs _ k (not_le.mp h), specBlank thr xs _ k hlen hx (not_le.mp h)]

end SV.Lemmas.C17Fill
