/-
  Helper lemmas for the C02 stretch theorems (Props/C02Ens, C02Counts, C02Point): list surgery on the valid
  (non-NaN) entries — writing NaN at a position / erasing the position, NaN-masking / deleting by flags.
-/
import ScoresVerif.Model.Fl
import ScoresVerif.Lemmas.FlBasic
import ScoresVerif.Lemmas.NanMean

namespace SV.Lemmas.C02Lists
open SV SV.Fl

theorem valid_cons_nan (l : List Fl) : valid (nan :: l) = valid l := by
  simp [valid]

theorem valid_cons_of_notNan {a : Fl} (h : a.notNan = true) (l : List Fl) : valid (a :: l) = a :: valid l := by
  simp [valid, h]

/-- writing NaN at position `i` leaves the same valid entries as erasing position `i` -/
theorem valid_set_nan_eq_eraseIdx : ∀ (l : List Fl) (i : Nat), valid (l.set i nan) = valid (l.eraseIdx i)
  | [], _ => by simp
  | a :: l, 0 => by simp [valid_cons_nan]
  | a :: l, i + 1 => by
    have ih := valid_set_nan_eq_eraseIdx l i
    simp only [List.set_cons_succ, List.eraseIdx_cons_succ]
    unfold valid at *
    simp only [List.filter_cons, ih]

/-- the same with `Option Rat`-encoded entries (`none` = missing) -/
theorem map_ofOpt_set_none (ms : List (Option Rat)) (i : Nat) :
    (ms.set i none).map ofOpt = (ms.map ofOpt).set i nan := by
  simp [List.map_set]

theorem map_ofOpt_eraseIdx (ms : List (Option Rat)) (i : Nat) :
    (ms.eraseIdx i).map ofOpt = (ms.map ofOpt).eraseIdx i := by
  induction ms generalizing i with
  | nil => simp
  | cons a l ih => cases i <;> simp [ih]


/-! ### generic case lists: deleting the cases a per-case function maps to NaN -/

/-- if `g` is NaN on every case that `p` rejects, the valid per-case values are those of the accepted cases -/
theorem valid_map_filter {α : Type} (g : α → Fl) (p : α → Bool) (h : ∀ a, p a = false → g a = nan) :
    ∀ (l : List α), valid (l.map g) = valid ((l.filter p).map g)
  | [] => rfl
  | a :: l => by
    have ih := valid_map_filter g p h l
    unfold valid at *
    cases hp : p a
    · simp [hp, h a hp, ih]
    · simp only [List.map_cons, List.filter_cons, hp, if_true, ih]

/-- if moreover `g` is a number on every accepted case, nothing else is dropped -/
theorem valid_map_filter_eq {α : Type} (g : α → Fl) (p : α → Bool) (h : ∀ a, p a = false → g a = nan)
    (h' : ∀ a, p a = true → (g a).notNan = true) (l : List α) : valid (l.map g) = (l.filter p).map g := by
  rw [valid_map_filter g p h]
  unfold valid
  apply List.filter_eq_self.mpr
  intro x hx
  obtain ⟨a, ha, rfl⟩ := List.mem_map.mp hx
  exact h' a (List.mem_filter.mp ha).2

/-- invalidate the cases whose flag is `false` with `inval` (e.g. "write NaN into the forecast") -/
def maskWith {α : Type} (inval : α → α) : List Bool → List α → List α
  | k :: ks, x :: xs => (if k then x else inval x) :: maskWith inval ks xs
  | _, _ => []

/-- physically delete the cases whose flag is `false` -/
def deleteWith {α : Type} : List Bool → List α → List α
  | k :: ks, x :: xs => if k then x :: deleteWith ks xs else deleteWith ks xs
  | _, _ => []

theorem valid_map_maskWith {α : Type} (g : α → Fl) (inval : α → α) (h : ∀ a, g (inval a) = nan) :
    ∀ (keep : List Bool) (l : List α), valid ((maskWith inval keep l).map g) = valid ((deleteWith keep l).map g)
  | [], l => by cases l <;> rfl
  | k :: ks, [] => rfl
  | k :: ks, a :: l => by
    have ih := valid_map_maskWith g inval h ks l
    unfold valid at *
    cases k
    · simp [maskWith, deleteWith, h, ih]
    · simp only [maskWith, deleteWith, if_true, List.map_cons, List.filter_cons, ih]

theorem nanmean_congr_valid {l l' : List Fl} (h : valid l = valid l') : nanmean l = nanmean l' := by
  unfold nanmean; rw [h]
theorem nansum_congr_valid {l l' : List Fl} (h : valid l = valid l') : nansum l = nansum l' := by
  unfold nansum; rw [h]
theorem count_congr_valid {l l' : List Fl} (h : valid l = valid l') : count l = count l' := by
  unfold count; rw [h]

end SV.Lemmas.C02Lists
