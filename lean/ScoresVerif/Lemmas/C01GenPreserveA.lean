/- part of the case analysis for Props/C01Gen.lean — see Lemmas/C01GenBase.lean -/
import ScoresVerif.Lemmas.C01GenBase
namespace SV.Props.C01Gen
open SV.Dims SV.PyDyn SV.Gen.Dims

set_option maxRecDepth 2000 in
theorem gen_eq_model_preserve_all (fcst obs : List String) (w : Option (List String)) (specific : DimSpec)
    (hs : notAllStr specific = true) :
    outcome (gen_gather_dimensions (V.list fcst) (V.list obs) (wToV w) (toV DimSpec.none) (toV DimSpec.all) (toV specific))
      = some (gather fcst obs w DimSpec.none DimSpec.all specific) := by
  cases w <;> cases specific <;> simp [notAllStr] at hs <;> gd_simp <;> (try split_ifs) <;> (try simp_all)

set_option maxRecDepth 2000 in
/-- `preserve_dims` a bare string — including the falsy empty string, which Python's `or` skips -/
theorem gen_eq_model_preserve_str (fcst obs : List String) (w : Option (List String)) (s : String) (specific : DimSpec)
    (hp : s ≠ "all") (hs : notAllStr specific = true) :
    outcome (gen_gather_dimensions (V.list fcst) (V.list obs) (wToV w) (toV DimSpec.none) (toV (DimSpec.str s)) (toV specific))
      = some (gather fcst obs w DimSpec.none (DimSpec.str s) specific) := by
  by_cases h0 : s = "" <;> cases w <;> cases specific <;> simp [notAllStr] at hs <;>
    gd_simp <;> (try split_ifs) <;> (try simp_all)
end SV.Props.C01Gen
