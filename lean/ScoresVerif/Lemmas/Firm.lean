/-
  Lemmas/Firm — helper lemmas for C12: the translated FIRM kernel on finite inputs, sums in `Fl`, NaN absorption,
  insertion sort = Mathlib's `insertionSort`.
-/
import ScoresVerif.Model.Firm
import ScoresVerif.Spec.Firm
import ScoresVerif.Lemmas.FlBasic
import Mathlib.Data.List.Sort
import ScoresVerif.Lemmas.Murphy

set_option linter.unusedSimpArgs false
set_option linter.unusedVariables false

namespace SV.Lemmas.Firm
open SV SV.Fl
open SV.Spec.Firm
open SV.Spec.Murphy (rmin)

theorem min_fin (a b : Rat) : Fl.min (fin a) (fin b) = fin (rmin a b) := by
  simp only [Fl.min, isNan_fin, Bool.or_false, Bool.false_eq_true, if_false, le_fin, rmin, decide_eq_true_eq]
  split_ifs <;> rfl

theorem min_fin_pinf (a : Rat) : Fl.min (fin a) pinf = fin a := by
  simp [Fl.min, isNan, Fl.le]

/-- the `discount_distance` argument for the three admissible kinds of discounting -/
def discFl : Disc → Fl
  | .off => fin 0
  | .dist d => fin d
  | .inf => pinf

/-- a finite discount distance of 0 is read as "no discount" by the code: `.dist d` is meant with d ≠ 0 -/
def Disc.ok (D : Disc) : Prop := ∀ d, D = .dist d → d ≠ 0

/-- the string the code compares with "lower" -/
def modeStr (lower : Bool) : String := if lower then "lower" else "upper"

theorem over_lower (D : Disc) (hD : Disc.ok D) (α f o t : Rat) :
    Gen.Firm.over_penalty (fin f) (fin o) (fin α) (fin t) (discFl D) "lower" = fin (overPenalty true D α f o t) := by
  cases D with
  | off =>
    simp only [Gen.Firm.over_penalty, discFl, overPenalty, falseAlarm, scale, whereB, ofBool, truthy, isNan_fin, beq_fin,
      le_fin, lt_fin, sub_fin, mul_fin, Bool.not_false, if_true, decide_true]
    by_cases h1 : o ≤ t <;> by_cases h2 : t < f <;> simp [h1, h2]
  | dist d =>
    have hd := hD d rfl
    simp only [Gen.Firm.over_penalty, discFl, overPenalty, falseAlarm, scale, whereB, ofBool, truthy, isNan_fin, beq_fin,
      le_fin, lt_fin, sub_fin, mul_fin, min_fin, Bool.not_false, if_true, decide_true]
    by_cases h1 : o ≤ t <;> by_cases h2 : t < f <;> simp [h1, h2, hd]
  | inf =>
    simp only [Gen.Firm.over_penalty, discFl, overPenalty, falseAlarm, scale, whereB, ofBool, truthy, isNan_fin, beq_fin,
      le_fin, lt_fin, sub_fin, mul_fin, min_fin_pinf, Bool.not_false, if_true, decide_true]
    by_cases h1 : o ≤ t <;> by_cases h2 : t < f <;> simp [h1, h2, Fl.beq]

theorem under_lower (D : Disc) (hD : Disc.ok D) (α f o t : Rat) :
    Gen.Firm.under_penalty (fin f) (fin o) (fin α) (fin t) (discFl D) "lower" = fin (underPenalty true D α f o t) := by
  cases D with
  | off =>
    simp only [Gen.Firm.under_penalty, discFl, underPenalty, miss, scale, whereB, ofBool, truthy, isNan_fin, beq_fin,
      le_fin, lt_fin, sub_fin, mul_fin, Bool.not_false, if_true, decide_true]
    by_cases h1 : f ≤ t <;> by_cases h2 : t < o <;> simp [h1, h2]
  | dist d =>
    have hd := hD d rfl
    simp only [Gen.Firm.under_penalty, discFl, underPenalty, miss, scale, whereB, ofBool, truthy, isNan_fin, beq_fin,
      le_fin, lt_fin, sub_fin, mul_fin, min_fin, Bool.not_false, if_true, decide_true]
    by_cases h1 : f ≤ t <;> by_cases h2 : t < o <;> simp [h1, h2, hd]
  | inf =>
    simp only [Gen.Firm.under_penalty, discFl, underPenalty, miss, scale, whereB, ofBool, truthy, isNan_fin, beq_fin,
      le_fin, lt_fin, sub_fin, mul_fin, min_fin_pinf, Bool.not_false, if_true, decide_true]
    by_cases h1 : f ≤ t <;> by_cases h2 : t < o <;> simp [h1, h2, Fl.beq]

theorem over_upper (D : Disc) (hD : Disc.ok D) (α f o t : Rat) (mode : String) (hm : mode ≠ "lower") :
    Gen.Firm.over_penalty (fin f) (fin o) (fin α) (fin t) (discFl D) mode = fin (overPenalty false D α f o t) := by
  have hdec : decide (mode = "lower") = false := by simp [hm]
  cases D with
  | off =>
    simp only [Gen.Firm.over_penalty, hdec, discFl, overPenalty, falseAlarm, scale, whereB, ofBool, truthy, isNan_fin, beq_fin,
      le_fin, lt_fin, sub_fin, mul_fin, Bool.not_false, if_true, decide_true, Bool.false_eq_true, if_false]
    by_cases h1 : o < t <;> by_cases h2 : t ≤ f <;> simp [h1, h2]
  | dist d =>
    have hd := hD d rfl
    simp only [Gen.Firm.over_penalty, hdec, discFl, overPenalty, falseAlarm, scale, whereB, ofBool, truthy, isNan_fin, beq_fin,
      le_fin, lt_fin, sub_fin, mul_fin, min_fin, Bool.not_false, if_true, decide_true, Bool.false_eq_true, if_false]
    by_cases h1 : o < t <;> by_cases h2 : t ≤ f <;> simp [h1, h2, hd]
  | inf =>
    simp only [Gen.Firm.over_penalty, hdec, discFl, overPenalty, falseAlarm, scale, whereB, ofBool, truthy, isNan_fin, beq_fin,
      le_fin, lt_fin, sub_fin, mul_fin, min_fin_pinf, Bool.not_false, if_true, decide_true, Bool.false_eq_true, if_false]
    by_cases h1 : o < t <;> by_cases h2 : t ≤ f <;> simp [h1, h2, Fl.beq]

theorem under_upper (D : Disc) (hD : Disc.ok D) (α f o t : Rat) (mode : String) (hm : mode ≠ "lower") :
    Gen.Firm.under_penalty (fin f) (fin o) (fin α) (fin t) (discFl D) mode = fin (underPenalty false D α f o t) := by
  have hdec : decide (mode = "lower") = false := by simp [hm]
  cases D with
  | off =>
    simp only [Gen.Firm.under_penalty, hdec, discFl, underPenalty, miss, scale, whereB, ofBool, truthy, isNan_fin, beq_fin,
      le_fin, lt_fin, sub_fin, mul_fin, Bool.not_false, if_true, decide_true, Bool.false_eq_true, if_false]
    by_cases h1 : f < t <;> by_cases h2 : t ≤ o <;> simp [h1, h2]
  | dist d =>
    have hd := hD d rfl
    simp only [Gen.Firm.under_penalty, hdec, discFl, underPenalty, miss, scale, whereB, ofBool, truthy, isNan_fin, beq_fin,
      le_fin, lt_fin, sub_fin, mul_fin, min_fin, Bool.not_false, if_true, decide_true, Bool.false_eq_true, if_false]
    by_cases h1 : f < t <;> by_cases h2 : t ≤ o <;> simp [h1, h2, hd]
  | inf =>
    simp only [Gen.Firm.under_penalty, hdec, discFl, underPenalty, miss, scale, whereB, ofBool, truthy, isNan_fin, beq_fin,
      le_fin, lt_fin, sub_fin, mul_fin, min_fin_pinf, Bool.not_false, if_true, decide_true, Bool.false_eq_true, if_false]
    by_cases h1 : f < t <;> by_cases h2 : t ≤ o <;> simp [h1, h2, Fl.beq]

theorem modeStr_ne (h : modeStr false ≠ "lower") : True := trivial

theorem over_eq (lower : Bool) (D : Disc) (hD : Disc.ok D) (α f o t : Rat) :
    Gen.Firm.over_penalty (fin f) (fin o) (fin α) (fin t) (discFl D) (modeStr lower) = fin (overPenalty lower D α f o t) := by
  cases lower
  · exact over_upper D hD α f o t _ (by decide)
  · exact over_lower D hD α f o t

theorem under_eq (lower : Bool) (D : Disc) (hD : Disc.ok D) (α f o t : Rat) :
    Gen.Firm.under_penalty (fin f) (fin o) (fin α) (fin t) (discFl D) (modeStr lower) = fin (underPenalty lower D α f o t) := by
  cases lower
  · exact under_upper D hD α f o t _ (by decide)
  · exact under_lower D hD α f o t

/-- `firm_score` is literally `overforecast_penalty + underforecast_penalty`, for ALL inputs -/
theorem firm_score_eq_add (f o α t d : Fl) (mode : String) :
    Gen.Firm.firm_score f o α t d mode = Fl.add (Gen.Firm.over_penalty f o α t d mode) (Gen.Firm.under_penalty f o α t d mode) := rfl

theorem firm_eq (lower : Bool) (D : Disc) (hD : Disc.ok D) (α f o t : Rat) :
    Gen.Firm.firm_score (fin f) (fin o) (fin α) (fin t) (discFl D) (modeStr lower) = fin (single lower D α f o t) := by
  rw [firm_score_eq_add, over_eq lower D hD, under_eq lower D hD]; rfl

/-! ### sums in Fl -/

theorem foldl_weighted_fin (g : Rat → Rat) (comp : Fl → Fl) (hc : ∀ t, comp (fin t) = fin (g t)) :
    ∀ (tw : List (Rat × Rat)) (acc : Rat),
      (tw.map fun p => ((fin p.1 : Fl), (fin p.2 : Fl))).foldl (fun acc p => Fl.add acc (Fl.mul p.2 (comp p.1))) (fin acc)
        = fin (acc + (tw.map fun p => p.2 * g p.1).sum) := by
  intro tw
  induction tw with
  | nil => intro acc; simp
  | cons p ps ih =>
    intro acc
    simp only [List.map_cons, List.foldl_cons, hc, mul_fin, add_fin, List.sum_cons]
    rw [ih]; congr 1; ring

theorem foldl_add_nan (xs : List Fl) : xs.foldl Fl.add nan = nan := by
  induction xs with
  | nil => rfl
  | cons x xs ih => simp [List.foldl_cons, ih]

/-- a strict (skipna=False) sum is NaN as soon as one term is NaN -/
theorem fsum_nan_of_mem (xs : List Fl) (h : nan ∈ xs) : fsum xs = nan := by
  unfold fsum
  suffices H : ∀ acc, xs.foldl Fl.add acc = nan from H _
  induction xs with
  | nil => simp at h
  | cons x xs ih =>
    intro acc
    rcases List.mem_cons.mp h with rfl | h'
    · simp [List.foldl_cons, foldl_add_nan]
    · simp only [List.foldl_cons]; exact ih h' _

theorem fsum_fin (xs : List Rat) : fsum (xs.map fin) = fin xs.sum := by
  unfold fsum
  suffices H : ∀ acc : Rat, (xs.map fin).foldl Fl.add (fin acc) = fin (acc + xs.sum) by simpa using H 0
  induction xs with
  | nil => intro acc; simp
  | cons x xs ih => intro acc; simp only [List.map_cons, List.foldl_cons, add_fin, List.sum_cons]; rw [ih]; congr 1; ring

/-! ### np.sort as insertion sort -/

theorem insAsc_eq (x : Rat) (l : List Rat) : Model.Firm.insAsc x l = List.orderedInsert (· ≤ ·) x l := by
  induction l with
  | nil => rfl
  | cons y ys ih => simp only [Model.Firm.insAsc, List.orderedInsert_cons, ih]

theorem sortAsc_eq (l : List Rat) : Model.Firm.sortAsc l = List.insertionSort (· ≤ ·) l := by
  induction l with
  | nil => rfl
  | cons y ys ih =>
    have : Model.Firm.sortAsc (y :: ys) = Model.Firm.insAsc y (Model.Firm.sortAsc ys) := rfl
    rw [this, ih, insAsc_eq, List.insertionSort_cons]


/-! ### `_scaling_to_weight_matrix`: shape and sign invariants -/
section scaling
open SV.Model.Firm (modifyAt levelStep scalingToWeightMatrix)

theorem foldl_inv_mem {σ β : Type} (P : σ → Prop) (f : σ → β → σ) (l : List β)
    (h : ∀ s x, x ∈ l → P s → P (f s x)) (s0 : σ) (h0 : P s0) : P (l.foldl f s0) := by
  induction l generalizing s0 with
  | nil => exact h0
  | cons x xs ih =>
    simp only [List.foldl_cons]
    exact ih (fun s y hy hs => h s y (List.mem_cons_of_mem _ hy) hs) _ (h s0 x (by simp) h0)

theorem modifyAt_length {α : Type} (l : List α) (i : Nat) (f : α → α) : (modifyAt l i f).length = l.length := by
  induction l generalizing i with
  | nil => simp [modifyAt]
  | cons x xs ih => cases i <;> simp [modifyAt, ih]

theorem mem_modifyAt {α : Type} (l : List α) (i : Nat) (f : α → α) (y : α) (h : y ∈ modifyAt l i f) :
    y ∈ l ∨ ∃ x ∈ l, y = f x := by
  induction l generalizing i with
  | nil => simp [modifyAt] at h
  | cons x xs ih =>
    cases i with
    | zero =>
      simp only [modifyAt, List.mem_cons] at h
      rcases h with rfl | h
      · exact Or.inr ⟨x, by simp, rfl⟩
      · exact Or.inl (by simp [h])
    | succ i =>
      simp only [modifyAt, List.mem_cons] at h
      rcases h with rfl | h
      · exact Or.inl (by simp)
      · rcases ih i h with h | ⟨x', hx', rfl⟩
        · exact Or.inl (by simp [h])
        · exact Or.inr ⟨x', by simp [hx'], rfl⟩

/-- a weight is a non-negative finite number -/
def NonNeg (x : Fl) : Prop := ∃ q : Rat, x = fin q ∧ 0 ≤ q

/-- shape n × m with non-negative finite entries -/
def Good (n m : Nat) (M : List (List Fl)) : Prop := M.length = n ∧ ∀ r ∈ M, r.length = m ∧ ∀ x ∈ r, NonNeg x

theorem good_modify (n m : Nat) (M : List (List Fl)) (i j : Nat) (v : Fl) (hv : NonNeg v) (h : Good n m M) :
    Good n m (modifyAt M i (fun row => modifyAt row j (fun x => Fl.add x v))) := by
  refine ⟨by rw [modifyAt_length]; exact h.1, fun r hr => ?_⟩
  rcases mem_modifyAt _ _ _ _ hr with hr | ⟨r', hr', rfl⟩
  · exact h.2 r hr
  · refine ⟨by rw [modifyAt_length]; exact (h.2 r' hr').1, fun x hx => ?_⟩
    rcases mem_modifyAt _ _ _ _ hx with hx | ⟨x', hx', rfl⟩
    · exact (h.2 r' hr').2 x hx
    · obtain ⟨q, rfl, hq⟩ := (h.2 r' hr').2 x' hx'
      obtain ⟨q', rfl, hq'⟩ := hv
      exact ⟨q + q', by simp, by linarith⟩


end scaling

/-! ### 'upper' assignment as the left limit of the Murphy elementary score -/
section leftlimit
open SV.Spec.Murphy
open SV.Lemmas.Murphy (kink2 kink4)

/-- kinks of the Murphy elementary score that FIRM with discount `D` is built from -/
def kinksOf (D : Disc) (f o : Rat) : List Rat :=
  match D with
  | .dist d => kinksH d f o
  | _ => [f, o]

theorem kinksOf_pair (D : Disc) {f o θ₀ t : Rat} (h : noKinkIoo (kinksOf D f o) θ₀ t) : noKinkIoo [f, o] θ₀ t := by
  cases D with
  | dist d => exact (kink4 h).1
  | off => exact h
  | inf => exact h

theorem fa_upper_iff {f o θ₀ t θ : Rat} (hk : noKinkIoo [f, o] θ₀ t) (h1 : θ₀ ≤ θ) (h2 : θ < t) :
    falseAlarm false f o t ↔ overRegion f o θ := by
  obtain ⟨hf, ho⟩ := kink2 hk
  simp only [falseAlarm, overRegion, Bool.false_eq_true, if_false]
  constructor <;> rintro ⟨a, b⟩ <;> rcases hf with hf | hf <;> rcases ho with ho | ho <;> constructor <;> linarith

theorem miss_upper_iff {f o θ₀ t θ : Rat} (hk : noKinkIoo [f, o] θ₀ t) (h1 : θ₀ ≤ θ) (h2 : θ < t) :
    miss false f o t ↔ underRegion f o θ := by
  obtain ⟨hf, ho⟩ := kink2 hk
  simp only [miss, underRegion, Bool.false_eq_true, if_false]
  constructor <;> rintro ⟨a, b⟩ <;> rcases hf with hf | hf <;> rcases ho with ho | ho <;> constructor <;> linarith

/-- S is affine on [θ₀, t) and `v` is the value of its affine extension at t (the left limit at t) -/
def LeftLimit (S : Rat → Rat) (θ₀ t v : Rat) : Prop :=
  ∃ c₀ c₁ : Rat, (∀ θ, θ₀ ≤ θ → θ < t → S θ = c₀ + c₁ * θ) ∧ v = c₀ + c₁ * t

theorem LeftLimit.add' {S T : Rat → Rat} {θ₀ t v w : Rat} (hS : LeftLimit S θ₀ t v) (hT : LeftLimit T θ₀ t w) :
    LeftLimit (fun θ => S θ + T θ) θ₀ t (v + w) := by
  obtain ⟨a0, a1, ha, hv⟩ := hS; obtain ⟨b0, b1, hb, hw⟩ := hT
  exact ⟨a0 + b0, a1 + b1, fun θ h1 h2 => by simp only [ha θ h1 h2, hb θ h1 h2]; ring, by rw [hv, hw]; ring⟩

def murphyOver (D : Disc) (α f o θ : Rat) : Rat :=
  match D with
  | .off => overQ α f o θ | .dist d => overH α d f o θ | .inf => overE α f o θ
def murphyUnder (D : Disc) (α f o θ : Rat) : Rat :=
  match D with
  | .off => underQ α f o θ | .dist d => underH α d f o θ | .inf => underE α f o θ

theorem upper_over_left_limit (D : Disc) (α f o t θ₀ : Rat) (hθ : θ₀ < t) (hk : noKinkIoo (kinksOf D f o) θ₀ t) :
    LeftLimit (murphyOver D α f o) θ₀ t (overPenalty false D α f o t) := by
  have hp := kinksOf_pair D hk
  by_cases hfa : falseAlarm false f o t
  · have hreg : ∀ θ, θ₀ ≤ θ → θ < t → overRegion f o θ := fun θ h1 h2 => (fa_upper_iff hp h1 h2).mp hfa
    cases D with
    | off =>
      exact ⟨1 - α, 0, fun θ h1 h2 => by simp only [murphyOver, overQ, hreg θ h1 h2, if_true]; ring,
        by simp only [overPenalty, hfa, if_true, scale]; ring⟩
    | inf =>
      exact ⟨-(1 - α) * o, 1 - α, fun θ h1 h2 => by simp only [murphyOver, overE, hreg θ h1 h2, if_true]; ring,
        by simp only [overPenalty, hfa, if_true, scale]; ring⟩
    | dist d =>
      obtain ⟨_, _, hpl⟩ := kink4 hk
      have hot : o < t := by simp only [falseAlarm, Bool.false_eq_true, if_false] at hfa; exact hfa.1
      rcases hpl with hpl | hpl
      · refine ⟨(1 - α) * d, 0, fun θ h1 h2 => ?_, ?_⟩
        · simp only [murphyOver, overH, hreg θ h1 h2, if_true, rmin]
          split_ifs with hh
          · have : θ - o = d := le_antisymm hh (by linarith)
            rw [this]; ring
          · ring
        · simp only [overPenalty, hfa, if_true, scale, rmin]
          rw [if_neg (by linarith)]; ring
      · refine ⟨-(1 - α) * o, 1 - α, fun θ h1 h2 => ?_, ?_⟩
        · simp only [murphyOver, overH, hreg θ h1 h2, if_true, rmin]
          rw [if_pos (by linarith)]; ring
        · simp only [overPenalty, hfa, if_true, scale, rmin]
          rw [if_pos (by linarith)]; ring
  · have hreg : ∀ θ, θ₀ ≤ θ → θ < t → ¬ overRegion f o θ := fun θ h1 h2 => (fa_upper_iff hp h1 h2).not.mp hfa
    refine ⟨0, 0, fun θ h1 h2 => ?_, by simp only [overPenalty, hfa, if_false]; ring⟩
    cases D <;> simp [murphyOver, overQ, overE, overH, hreg θ h1 h2]

theorem upper_under_left_limit (D : Disc) (α f o t θ₀ : Rat) (hθ : θ₀ < t) (hk : noKinkIoo (kinksOf D f o) θ₀ t) :
    LeftLimit (murphyUnder D α f o) θ₀ t (underPenalty false D α f o t) := by
  have hp := kinksOf_pair D hk
  by_cases hm : miss false f o t
  · have hreg : ∀ θ, θ₀ ≤ θ → θ < t → underRegion f o θ := fun θ h1 h2 => (miss_upper_iff hp h1 h2).mp hm
    cases D with
    | off =>
      exact ⟨α, 0, fun θ h1 h2 => by simp only [murphyUnder, underQ, hreg θ h1 h2, if_true]; ring,
        by simp only [underPenalty, hm, if_true, scale]; ring⟩
    | inf =>
      exact ⟨α * o, -α, fun θ h1 h2 => by simp only [murphyUnder, underE, hreg θ h1 h2, if_true]; ring,
        by simp only [underPenalty, hm, if_true, scale]; ring⟩
    | dist d =>
      obtain ⟨_, hmi, _⟩ := kink4 hk
      rcases hmi with hmi | hmi
      · refine ⟨α * o, -α, fun θ h1 h2 => ?_, ?_⟩
        · simp only [murphyUnder, underH, hreg θ h1 h2, if_true, rmin]
          rw [if_pos (by linarith)]; ring
        · simp only [underPenalty, hm, if_true, scale, rmin]
          rw [if_pos (by linarith)]; ring
      · refine ⟨α * d, 0, fun θ h1 h2 => ?_, ?_⟩
        · simp only [murphyUnder, underH, hreg θ h1 h2, if_true, rmin]
          rw [if_neg (by linarith)]; ring
        · simp only [underPenalty, hm, if_true, scale, rmin]
          split_ifs with hh
          · have : o - t = d := le_antisymm hh (by linarith)
            rw [this]; ring
          · ring
  · have hreg : ∀ θ, θ₀ ≤ θ → θ < t → ¬ underRegion f o θ := fun θ h1 h2 => (miss_upper_iff hp h1 h2).not.mp hm
    refine ⟨0, 0, fun θ h1 h2 => ?_, by simp only [underPenalty, hm, if_false]; ring⟩
    cases D <;> simp [murphyUnder, underQ, underE, underH, hreg θ h1 h2]


end leftlimit

/-! ### input guards (`_check_firm_inputs`, `_check_risk_matrix_score_inputs`) vs the documented domains -/
section guards

theorem dec_le_not_lt (a b : Rat) : decide (a ≤ b) = !decide (b < a) := by
  by_cases h : b < a
  · simp [h, not_le.mpr h]
  · simp [h, not_lt.mp h]

theorem dec_lt_not_le (a b : Rat) : decide (a < b) = !decide (b ≤ a) := by
  by_cases h : b ≤ a
  · simp [h, not_lt.mpr h]
  · simp [h, not_le.mp h]

theorem alpha_guard (a : Fl) (ha : a ≠ nan) : (Fl.le a (fin 0) || Fl.ge a (fin 1)) = !alphaOk a := by
  cases a with
  | fin q =>
    simp only [Fl.le, Fl.ge, alphaOk]
    rw [dec_le_not_lt q 0, dec_le_not_lt 1 q, Bool.not_and]
  | pinf => simp [Fl.le, Fl.ge, alphaOk]
  | ninf => simp [Fl.le, Fl.ge, alphaOk]
  | nan => exact absurd rfl ha

theorem weight_guard (w : Fl) : Fl.le w (fin 0) = !weightOk w := by
  cases w <;> simp [Fl.le, weightOk, dec_le_not_lt]

theorem disc_guard (d : Fl) (hd : d ≠ nan) : Fl.lt d (fin 0) = !discOk d := by
  cases d <;> simp_all [Fl.lt, discOk, dec_lt_not_le]

theorem any_not_all {α : Type} (l : List α) (p q : α → Bool) (h : ∀ x, p x = !q x) : l.any p = !l.all q := by
  induction l with
  | nil => simp
  | cons x xs ih => simp [List.any_cons, List.all_cons, ih, h x, Bool.not_and]


theorem any_not_all_mem {α : Type} (l : List α) (p q : α → Bool) (h : ∀ x ∈ l, p x = !q x) : l.any p = !l.all q := by
  induction l with
  | nil => simp
  | cons x xs ih =>
    simp only [List.any_cons, List.all_cons, Bool.not_and]
    rw [h x (by simp), ih (fun y hy => h y (by simp [hy]))]

theorem any_or_any {α : Type} (l : List α) (p q : α → Bool) : (l.any p || l.any q) = l.any (fun x => p x || q x) := by
  induction l with
  | nil => simp
  | cons x xs ih =>
    simp only [List.any_cons, ← ih]
    cases p x <;> cases q x <;> simp

theorem valid_any (l : List Fl) (p : Fl → Bool) : (valid l).any p = l.any (fun x => Fl.notNan x && p x) := by
  unfold valid
  induction l with
  | nil => simp
  | cons x xs ih =>
    simp only [List.filter_cons, List.any_cons]
    cases hx : Fl.notNan x <;> simp [ih]

theorem prob_guard (x : Fl) :
    ((Fl.notNan x && Fl.gt x (fin 1)) || (Fl.notNan x && Fl.lt x (fin 0))) = !probOk x := by
  cases x <;> simp [Fl.notNan, Fl.isNan, Fl.gt, Fl.lt, probOk, dec_lt_not_le, Bool.or_comm]

theorem binary_guard (x : Fl) :
    (Fl.notNan x && !(Fl.beq x (fin 0) || Fl.beq x (fin 1))) = !binaryOk x := by
  cases x <;> simp [Fl.notNan, Fl.isNan, Fl.beq, binaryOk]

theorem thr_guard (x : Fl) (hx : x ≠ nan) : (Fl.le x (fin 0) || Fl.ge x (fin 1)) = !probThresholdOk x := by
  cases x with
  | fin q => simp only [Fl.le, Fl.ge, probThresholdOk]; rw [dec_le_not_lt q 0, dec_le_not_lt 1 q, Bool.not_and]
  | pinf => simp [Fl.le, Fl.ge, probThresholdOk]
  | ninf => simp [Fl.le, Fl.ge, probThresholdOk]
  | nan => exact absurd rfl hx

end guards
end SV.Lemmas.Firm
