/-
  Algebra of the NaN-skipping reductions (`nanmean`, `nansum`, `count`) used by C02 / C03.
-/
import ScoresVerif.Model.Fl
import ScoresVerif.Lemmas.FlBasic
import Mathlib.Algebra.BigOperators.Group.List.Basic
import Mathlib.Algebra.BigOperators.Ring.List
import Mathlib.Algebra.Order.Field.Basic

namespace SV
open Fl

/-- a per-case value that is either missing or a finite rational (no infinities) -/
def ofOpt : Option Rat → Fl
  | some q => fin q
  | none => nan

@[simp] theorem ofOpt_some (q : Rat) : ofOpt (some q) = fin q := rfl
@[simp] theorem ofOpt_none : ofOpt none = nan := rfl

/-- rational values of the non-missing entries -/
def present (xs : List (Option Rat)) : List Rat := xs.filterMap id

theorem valid_map_ofOpt (xs : List (Option Rat)) :
    valid (xs.map ofOpt) = (present xs).map fin := by
  induction xs with
  | nil => rfl
  | cons x xs ih =>
    cases x with
    | none => simpa [valid, present, notNan, isNan, List.filter] using ih
    | some q => simpa [valid, present, notNan, isNan, List.filter] using ih

theorem foldl_add_fin (qs : List Rat) (a : Rat) :
    (qs.map fin).foldl Fl.add (fin a) = fin (a + qs.sum) := by
  induction qs generalizing a with
  | nil => simp
  | cons q qs ih => simp [ih]; ring

theorem fsum_map_fin (qs : List Rat) : fsum (qs.map fin) = fin qs.sum := by
  unfold fsum; rw [foldl_add_fin]; simp

/-- closed form of `nanmean` on finite-or-missing entries -/
theorem nanmean_ofOpt (xs : List (Option Rat)) :
    nanmean (xs.map ofOpt) =
      if present xs = [] then nan else fin ((present xs).sum / (present xs).length) := by
  unfold nanmean
  simp only [valid_map_ofOpt]
  by_cases h : present xs = []
  · simp [h]
  · have hl : ((present xs).length : Rat) ≠ 0 := by
      have : (present xs).length ≠ 0 := by simpa [List.length_eq_zero_iff] using h
      exact_mod_cast this
    simp [h, fsum_map_fin, Fl.ofNat, div_fin _ _ hl]

theorem nansum_ofOpt (xs : List (Option Rat)) : nansum (xs.map ofOpt) = fin (present xs).sum := by
  unfold nansum; rw [valid_map_ofOpt, fsum_map_fin]

theorem count_ofOpt (xs : List (Option Rat)) : count (xs.map ofOpt) = (present xs).length := by
  unfold count; rw [valid_map_ofOpt]; simp

end SV
