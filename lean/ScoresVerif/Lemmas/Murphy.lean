/-
  Lemmas/Murphy — helper lemmas for C11 (and C12): θ-behaviour of the elementary scores, list lemmas for the
  model of `murphy_thetas`, exact midpoint-rule integrals via antiderivatives.
-/
import ScoresVerif.Model.Murphy
import ScoresVerif.Spec.Murphy
import ScoresVerif.Lemmas.FlBasic
import Mathlib.Data.List.Basic

set_option linter.unusedVariables false
set_option linter.unusedTactic false
set_option linter.unreachableTactic false
set_option linter.unnecessarySeqFocus false
set_option linter.unusedSimpArgs false

namespace SV.Lemmas.Murphy
open SV
open SV.Spec.Murphy

/-! ## 1. constancy / affinity in θ between kinks -/
section theta

theorem noKinkIoc_pair {f o θ₁ θ₂ : Rat} (h : noKinkIoc [f, o] θ₁ θ₂) :
    (f ≤ θ₁ ∨ θ₂ < f) ∧ (o ≤ θ₁ ∨ θ₂ < o) := by
  simp only [noKinkIoc, List.mem_cons, List.mem_nil_iff, or_false] at h
  have h1 := h f (Or.inl rfl); have h2 := h o (Or.inr rfl)
  simp only [not_and_or, not_lt, not_le] at h1 h2
  exact ⟨h1, h2⟩

theorem overRegion_iff_of_noKink {f o θ₁ θ₂ : Rat} (h12 : θ₁ ≤ θ₂) (h : noKinkIoc [f, o] θ₁ θ₂) :
    overRegion f o θ₁ ↔ overRegion f o θ₂ := by
  obtain ⟨hf, ho⟩ := noKinkIoc_pair h
  unfold overRegion
  constructor <;> rintro ⟨a, b⟩ <;> rcases hf with hf | hf <;> rcases ho with ho | ho <;> constructor <;> linarith

theorem underRegion_iff_of_noKink {f o θ₁ θ₂ : Rat} (h12 : θ₁ ≤ θ₂) (h : noKinkIoc [f, o] θ₁ θ₂) :
    underRegion f o θ₁ ↔ underRegion f o θ₂ := by
  obtain ⟨hf, ho⟩ := noKinkIoc_pair h
  unfold underRegion
  constructor <;> rintro ⟨a, b⟩ <;> rcases hf with hf | hf <;> rcases ho with ho | ho <;> constructor <;> linarith

theorem overQ_const (α f o θ₁ θ₂ : Rat) (h12 : θ₁ ≤ θ₂) (h : noKinkIoc (kinksQ f o) θ₁ θ₂) :
    overQ α f o θ₁ = overQ α f o θ₂ := by
  unfold overQ; simp only [overRegion_iff_of_noKink h12 h]

theorem underQ_const (α f o θ₁ θ₂ : Rat) (h12 : θ₁ ≤ θ₂) (h : noKinkIoc (kinksQ f o) θ₁ θ₂) :
    underQ α f o θ₁ = underQ α f o θ₂ := by
  unfold underQ; simp only [underRegion_iff_of_noKink h12 h]

theorem elemQ_const (α f o θ₁ θ₂ : Rat) (h12 : θ₁ ≤ θ₂) (h : noKinkIoc (kinksQ f o) θ₁ θ₂) :
    elemQ α f o θ₁ = elemQ α f o θ₂ := by
  unfold elemQ; rw [overQ_const α f o θ₁ θ₂ h12 h, underQ_const α f o θ₁ θ₂ h12 h]

/-- with no kink strictly inside (θ₁, θ₂), membership of the regions is the same at every point of [θ₁, θ₂) -/
theorem overRegion_iff_of_noKinkIoo {f o θ₁ θ₂ θ : Rat} (h : noKinkIoo [f, o] θ₁ θ₂) (h1 : θ₁ ≤ θ) (h2 : θ < θ₂) :
    overRegion f o θ ↔ overRegion f o θ₁ := by
  simp only [noKinkIoo, List.mem_cons, List.mem_nil_iff, or_false] at h
  have hf := h f (Or.inl rfl); have ho := h o (Or.inr rfl)
  simp only [not_and_or, not_lt] at hf ho
  unfold overRegion
  constructor <;> rintro ⟨a, b⟩ <;> rcases hf with hf | hf <;> rcases ho with ho | ho <;> constructor <;> linarith

theorem underRegion_iff_of_noKinkIoo {f o θ₁ θ₂ θ : Rat} (h : noKinkIoo [f, o] θ₁ θ₂) (h1 : θ₁ ≤ θ) (h2 : θ < θ₂) :
    underRegion f o θ ↔ underRegion f o θ₁ := by
  simp only [noKinkIoo, List.mem_cons, List.mem_nil_iff, or_false] at h
  have hf := h f (Or.inl rfl); have ho := h o (Or.inr rfl)
  simp only [not_and_or, not_lt] at hf ho
  unfold underRegion
  constructor <;> rintro ⟨a, b⟩ <;> rcases hf with hf | hf <;> rcases ho with ho | ho <;> constructor <;> linarith


theorem affineOn_add {S T : Rat → Rat} {θ₁ θ₂ : Rat} (hS : AffineOn S θ₁ θ₂) (hT : AffineOn T θ₁ θ₂) :
    AffineOn (fun θ => S θ + T θ) θ₁ θ₂ := by
  obtain ⟨a0, a1, ha⟩ := hS; obtain ⟨b0, b1, hb⟩ := hT
  exact ⟨a0 + b0, a1 + b1, fun θ h1 h2 => by simp only [ha θ h1 h2, hb θ h1 h2]; ring⟩

theorem overE_affine (α f o θ₁ θ₂ : Rat) (h : noKinkIoo (kinksE f o) θ₁ θ₂) : AffineOn (overE α f o) θ₁ θ₂ := by
  by_cases hr : overRegion f o θ₁
  · exact ⟨-(1 - α) * o, 1 - α, fun θ h1 h2 => by
      simp only [overE, (overRegion_iff_of_noKinkIoo h h1 h2).mpr hr, if_true]; ring⟩
  · exact ⟨0, 0, fun θ h1 h2 => by
      simp only [overE, (overRegion_iff_of_noKinkIoo h h1 h2).not.mpr hr, if_false]; ring⟩

theorem underE_affine (α f o θ₁ θ₂ : Rat) (h : noKinkIoo (kinksE f o) θ₁ θ₂) : AffineOn (underE α f o) θ₁ θ₂ := by
  by_cases hr : underRegion f o θ₁
  · exact ⟨α * o, -α, fun θ h1 h2 => by
      simp only [underE, (underRegion_iff_of_noKinkIoo h h1 h2).mpr hr, if_true]; ring⟩
  · exact ⟨0, 0, fun θ h1 h2 => by
      simp only [underE, (underRegion_iff_of_noKinkIoo h h1 h2).not.mpr hr, if_false]; ring⟩

theorem elemE_affine (α f o θ₁ θ₂ : Rat) (h : noKinkIoo (kinksE f o) θ₁ θ₂) : AffineOn (elemE α f o) θ₁ θ₂ :=
  affineOn_add (overE_affine α f o θ₁ θ₂ h) (underE_affine α f o θ₁ θ₂ h)

theorem noKinkIoo_H_pair {a f o θ₁ θ₂ : Rat} (h : noKinkIoo (kinksH a f o) θ₁ θ₂) : noKinkIoo [f, o] θ₁ θ₂ := by
  intro k hk; apply h k
  simp only [kinksH, List.mem_cons, List.mem_nil_iff, or_false] at hk ⊢
  rcases hk with hk | hk
  · exact Or.inl hk
  · exact Or.inr (Or.inl hk)

theorem overH_affine (α a f o θ₁ θ₂ : Rat) (h : noKinkIoo (kinksH a f o) θ₁ θ₂) : AffineOn (overH α a f o) θ₁ θ₂ := by
  have hp := noKinkIoo_H_pair h
  have hk := h (o + a) (by simp [kinksH])
  simp only [not_and_or, not_lt] at hk
  by_cases hr : overRegion f o θ₁
  · rcases hk with hk | hk
    · exact ⟨(1 - α) * a, 0, fun θ h1 h2 => by
        simp only [overH, (overRegion_iff_of_noKinkIoo hp h1 h2).mpr hr, if_true, rmin]
        split_ifs with hh
        · have : θ - o = a := le_antisymm hh (by linarith)
          rw [this]; ring
        · ring⟩
    · exact ⟨-(1 - α) * o, 1 - α, fun θ h1 h2 => by
        simp only [overH, (overRegion_iff_of_noKinkIoo hp h1 h2).mpr hr, if_true, rmin]
        rw [if_pos (by linarith)]; ring⟩
  · exact ⟨0, 0, fun θ h1 h2 => by
      simp only [overH, (overRegion_iff_of_noKinkIoo hp h1 h2).not.mpr hr, if_false]; ring⟩

theorem underH_affine (α a f o θ₁ θ₂ : Rat) (h : noKinkIoo (kinksH a f o) θ₁ θ₂) : AffineOn (underH α a f o) θ₁ θ₂ := by
  have hp := noKinkIoo_H_pair h
  have hk := h (o - a) (by simp [kinksH])
  simp only [not_and_or, not_lt] at hk
  by_cases hr : underRegion f o θ₁
  · rcases hk with hk | hk
    · exact ⟨α * o, -α, fun θ h1 h2 => by
        simp only [underH, (underRegion_iff_of_noKinkIoo hp h1 h2).mpr hr, if_true, rmin]
        rw [if_pos (by linarith)]; ring⟩
    · exact ⟨α * a, 0, fun θ h1 h2 => by
        simp only [underH, (underRegion_iff_of_noKinkIoo hp h1 h2).mpr hr, if_true, rmin]
        rw [if_neg (by linarith)]; ring⟩
  · exact ⟨0, 0, fun θ h1 h2 => by
      simp only [underH, (underRegion_iff_of_noKinkIoo hp h1 h2).not.mpr hr, if_false]; ring⟩

theorem elemH_affine (α a f o θ₁ θ₂ : Rat) (h : noKinkIoo (kinksH a f o) θ₁ θ₂) : AffineOn (elemH α a f o) θ₁ θ₂ :=
  affineOn_add (overH_affine α a f o θ₁ θ₂ h) (underH_affine α a f o θ₁ θ₂ h)

end theta

/-! ## 2. lists: `np.unique`, NaN removal, sortedness -/
section lists
open SV.Fl
open SV.Model.Murphy

theorem beq_eq_true_iff (x y : Fl) : Fl.beq x y = true ↔ x = y ∧ x ≠ nan := by
  cases x <;> cases y <;> simp [Fl.beq]

theorem mem_insertSorted (x z : Fl) (l : List Fl) : z ∈ insertSorted x l ↔ z = x ∨ z ∈ l := by
  induction l with
  | nil => simp [insertSorted]
  | cons y ys ih =>
    unfold insertSorted
    split_ifs with h1 h2
    · simp
    · have := ((beq_eq_true_iff x y).mp h2).1
      subst this; simp
    · simp only [List.mem_cons, ih]; tauto

theorem mem_sortDedup (z : Fl) (l : List Fl) : z ∈ sortDedup l ↔ z ∈ l := by
  induction l with
  | nil => simp [sortDedup]
  | cons y ys ih =>
    have : sortDedup (y :: ys) = insertSorted y (sortDedup ys) := rfl
    rw [this, mem_insertSorted, ih]; simp

theorem notNan_iff (x : Fl) : x.notNan = true ↔ x ≠ nan := by cases x <;> simp [notNan, isNan]

theorem mem_npUnique (z : Fl) (l : List Fl) : z ∈ npUnique l ↔ z ∈ l := by
  unfold npUnique
  rw [List.mem_append, mem_sortDedup, List.mem_filter, notNan_iff]
  constructor
  · rintro (⟨h, _⟩ | h)
    · exact h
    · split_ifs at h with hh
      · rw [List.any_eq_true] at hh
        obtain ⟨w, hw, hn⟩ := hh
        rw [isNan_iff] at hn; subst hn
        simp at h; subst h; exact hw
      · simp at h
  · intro h
    by_cases hz : z = nan
    · right; subst hz
      have : l.any Fl.isNan = true := List.any_eq_true.mpr ⟨nan, h, rfl⟩
      simp [this]
    · left; exact ⟨h, hz⟩

theorem mem_dropNan (z : Fl) (l : List Fl) : z ∈ dropNan l ↔ z ∈ l ∧ z ≠ nan := by
  unfold dropNan; rw [List.mem_filter, notNan_iff]

/-- exact characterisation of the set returned by `_quantile_thetas` -/
theorem mem_quantileThetas (z : Fl) (F : List (List Fl)) (O : List Fl) :
    z ∈ quantileThetas F O ↔ z ≠ nan ∧ ((∃ s ∈ F, z ∈ s) ∨ z ∈ O) := by
  simp only [quantileThetas, mem_dropNan, mem_npUnique, List.mem_append, List.mem_flatten]
  exact and_comm

theorem mem_expectileThetas (z : Fl) (F : List (List Fl)) (O : List Fl) (d : Fl) :
    z ∈ expectileThetas F O d ↔
      z ≠ nan ∧ ((∃ s ∈ F, z ∈ s) ∨ (∃ s ∈ F, ∃ y ∈ s, z = Fl.sub y d) ∨ z ∈ O) := by
  simp only [expectileThetas, mem_dropNan, mem_npUnique, List.mem_append, List.mem_flatten, List.mem_map]
  constructor
  · rintro ⟨(⟨h | ⟨y, ⟨s, hs, hy⟩, rfl⟩⟩ | h), hn⟩
    · exact ⟨hn, Or.inl h⟩
    · exact ⟨hn, Or.inr (Or.inl ⟨s, hs, y, hy, rfl⟩)⟩
    · exact ⟨hn, Or.inr (Or.inr h)⟩
  · rintro ⟨hn, (h | ⟨s, hs, y, hy, rfl⟩ | h)⟩
    · exact ⟨Or.inl (Or.inl h), hn⟩
    · exact ⟨Or.inl (Or.inr ⟨y, ⟨s, hs, hy⟩, rfl⟩), hn⟩
    · exact ⟨Or.inr h, hn⟩

theorem mem_huberThetas (z : Fl) (F : List (List Fl)) (O : List Fl) (a d : Fl) :
    z ∈ huberThetas F O a d ↔
      z ≠ nan ∧ ((∃ s ∈ F, z ∈ s) ∨ (∃ s ∈ F, ∃ y ∈ s, z = Fl.sub y d) ∨ z ∈ O ∨
        (∃ y ∈ O, z = Fl.sub y a) ∨ (∃ y ∈ O, z = Fl.add y a)) := by
  simp only [huberThetas, mem_dropNan, mem_npUnique, List.mem_append, List.mem_flatten, List.mem_map]
  constructor
  · rintro ⟨((((h | ⟨y, ⟨s, hs, hy⟩, rfl⟩) | h) | ⟨y, hy, rfl⟩) | ⟨y, hy, rfl⟩), hn⟩
    · exact ⟨hn, Or.inl h⟩
    · exact ⟨hn, Or.inr (Or.inl ⟨s, hs, y, hy, rfl⟩)⟩
    · exact ⟨hn, Or.inr (Or.inr (Or.inl h))⟩
    · exact ⟨hn, Or.inr (Or.inr (Or.inr (Or.inl ⟨y, hy, rfl⟩)))⟩
    · exact ⟨hn, Or.inr (Or.inr (Or.inr (Or.inr ⟨y, hy, rfl⟩)))⟩
  · rintro ⟨hn, (h | ⟨s, hs, y, hy, rfl⟩ | h | ⟨y, hy, rfl⟩ | ⟨y, hy, rfl⟩)⟩
    · exact ⟨Or.inl (Or.inl (Or.inl (Or.inl h))), hn⟩
    · exact ⟨Or.inl (Or.inl (Or.inl (Or.inr ⟨y, ⟨s, hs, hy⟩, rfl⟩))), hn⟩
    · exact ⟨Or.inl (Or.inl (Or.inr h)), hn⟩
    · exact ⟨Or.inl (Or.inr ⟨y, hy, rfl⟩), hn⟩
    · exact ⟨Or.inr ⟨y, hy, rfl⟩, hn⟩


theorem flt_trans {x y z : Fl} (h1 : Fl.lt x y = true) (h2 : Fl.lt y z = true) : Fl.lt x z = true := by
  cases x <;> cases y <;> cases z <;> simp_all [Fl.lt]
  exact lt_trans h1 h2

theorem flt_trichotomy (x y : Fl) (hx : x ≠ nan) (hy : y ≠ nan) :
    Fl.lt x y = true ∨ Fl.beq x y = true ∨ Fl.lt y x = true := by
  cases x <;> cases y <;> simp_all [Fl.lt, Fl.beq]
  exact lt_trichotomy _ _

def Sorted (l : List Fl) : Prop := l.Pairwise (fun x y => Fl.lt x y = true)

theorem insertSorted_sorted (x : Fl) (l : List Fl) (hx : x ≠ nan) (hl : ∀ y ∈ l, y ≠ nan) (hs : Sorted l) :
    Sorted (insertSorted x l) := by
  induction l with
  | nil => simp [insertSorted, Sorted]
  | cons y ys ih =>
    have hy : y ≠ nan := hl y (by simp)
    have hys : ∀ z ∈ ys, z ≠ nan := fun z hz => hl z (by simp [hz])
    unfold Sorted at hs
    rw [List.pairwise_cons] at hs
    unfold insertSorted
    split_ifs with h1 h2
    · unfold Sorted
      rw [List.pairwise_cons]
      refine ⟨?_, List.pairwise_cons.mpr hs⟩
      intro z hz
      rcases List.mem_cons.mp hz with rfl | hz
      · exact h1
      · exact flt_trans h1 (hs.1 z hz)
    · exact List.pairwise_cons.mpr hs
    · have h3 : Fl.lt y x = true := by
        rcases flt_trichotomy x y hx hy with h | h | h
        · exact absurd h h1
        · exact absurd h h2
        · exact h
      unfold Sorted
      rw [List.pairwise_cons]
      refine ⟨?_, ih hys hs.2⟩
      intro z hz
      rcases (mem_insertSorted x z ys).mp hz with rfl | hz
      · exact h3
      · exact hs.1 z hz

theorem sortDedup_sorted (l : List Fl) (hl : ∀ y ∈ l, y ≠ nan) : Sorted (sortDedup l) := by
  induction l with
  | nil => simp [sortDedup, Sorted]
  | cons y ys ih =>
    have e : sortDedup (y :: ys) = insertSorted y (sortDedup ys) := rfl
    rw [e]
    exact insertSorted_sorted y _ (hl y (by simp)) (fun z hz => hl z (by simp [(mem_sortDedup z ys).mp hz]))
      (ih (fun z hz => hl z (by simp [hz])))

/-- `u[~isnan(u)]` of `np.unique` is the sorted de-duplicated list of the non-NaN values -/
theorem dropNan_npUnique (l : List Fl) : dropNan (npUnique l) = sortDedup (l.filter Fl.notNan) := by
  unfold dropNan npUnique
  rw [List.filter_append]
  have h1 : (sortDedup (l.filter Fl.notNan)).filter Fl.notNan = sortDedup (l.filter Fl.notNan) := by
    apply List.filter_eq_self.mpr
    intro z hz
    exact (List.mem_filter.mp ((mem_sortDedup z _).mp hz)).2
  have h2 : (if l.any Fl.isNan then [nan] else []).filter Fl.notNan = [] := by
    split_ifs <;> simp [notNan, isNan]
  rw [h1, h2, List.append_nil]

theorem dropNan_npUnique_sorted (l : List Fl) : Sorted (dropNan (npUnique l)) := by
  rw [dropNan_npUnique]
  exact sortDedup_sorted _ (fun y hy => (notNan_iff y).mp (List.mem_filter.mp hy).2)

end lists

/-! ## 3. exact integrals: midpoint rule on a kink-complete grid -/
section integrals


/-- telescoping: if on every cell of a kink-complete grid the midpoint rule equals the increment of `F`,
    the midpoint rule over the whole grid is `F(last) − F(first)` -/
theorem midpoint_telescope (S F : Rat → Rat) (ks : List Rat)
    (hcell : ∀ p q, p ≤ q → noKinkIoo ks p q → (q - p) * S ((p + q) / 2) = F q - F p) :
    ∀ (g : List Rat) (p : Rat), KinkComplete ks (p :: g) → midpointRule S (p :: g) = F (lastOr p g) - F p := by
  intro g
  induction g with
  | nil => intro p _; simp [midpointRule, lastOr]
  | cons q rest ih =>
    intro p h
    obtain ⟨⟨hpq, hk⟩, hrest⟩ := h
    simp only [midpointRule, lastOr]
    rw [ih q hrest, hcell p q hpq hk]; ring

theorem lastOr_ge (ks : List Rat) : ∀ (g : List Rat) (p : Rat), KinkComplete ks (p :: g) → p ≤ lastOr p g := by
  intro g
  induction g with
  | nil => intro p _; exact le_refl _
  | cons q rest ih =>
    intro p h
    obtain ⟨⟨hpq, _⟩, hrest⟩ := h
    exact le_trans hpq (ih q hrest)

/-! antiderivatives (proof devices) -/
def FoverQ (α f o θ : Rat) : Rat := (1 - α) * (max o (min θ f) - o)
def FunderQ (α f o θ : Rat) : Rat := α * (max f (min θ o) - f)
def FoverE (α f o θ : Rat) : Rat := (1 - α) * (max o (min θ f) - o) ^ 2 / 2
def FunderE (α f o θ : Rat) : Rat := α * ((o - f) ^ 2 - (o - max f (min θ o)) ^ 2) / 2

theorem kink2 {f o p q : Rat} (h : noKinkIoo [f, o] p q) : (f ≤ p ∨ q ≤ f) ∧ (o ≤ p ∨ q ≤ o) := by
  simp only [noKinkIoo, List.mem_cons, List.mem_nil_iff, or_false] at h
  have hf := h f (Or.inl rfl); have ho := h o (Or.inr rfl)
  simp only [not_and_or, not_lt] at hf ho
  exact ⟨hf, ho⟩

theorem cell_overE (α f o p q : Rat) (hpq : p ≤ q) (h : noKinkIoo [f, o] p q) :
    (q - p) * overE α f o ((p + q) / 2) = FoverE α f o q - FoverE α f o p := by
  obtain ⟨hf, ho⟩ := kink2 h
  rcases eq_or_lt_of_le hpq with rfl | hlt
  · simp
  unfold FoverE overE
  rcases ho with ho | ho
  · rcases hf with hf | hf
    · rw [if_neg (by rintro ⟨h1, h2⟩; linarith : ¬ overRegion f o ((p + q) / 2)), min_eq_right (by linarith : f ≤ q), min_eq_right hf]; ring
    · rw [if_pos (show overRegion f o ((p + q) / 2) from ⟨by linarith, by linarith⟩), min_eq_left hf, min_eq_left (by linarith : p ≤ f),
        max_eq_right (by linarith : o ≤ q), max_eq_right ho]; ring
  · rw [if_neg (by rintro ⟨h1, h2⟩; linarith : ¬ overRegion f o ((p + q) / 2)), max_eq_left (le_trans (min_le_left _ _) ho),
      max_eq_left (le_trans (min_le_left _ _) (by linarith : p ≤ o))]; ring

theorem cell_underE (α f o p q : Rat) (hpq : p ≤ q) (h : noKinkIoo [f, o] p q) :
    (q - p) * underE α f o ((p + q) / 2) = FunderE α f o q - FunderE α f o p := by
  obtain ⟨hf, ho⟩ := kink2 h
  rcases eq_or_lt_of_le hpq with rfl | hlt
  · simp
  unfold FunderE underE
  rcases hf with hf | hf
  · rcases ho with ho | ho
    · rw [if_neg (by rintro ⟨h1, h2⟩; linarith : ¬ underRegion f o ((p + q) / 2)), min_eq_right (by linarith : o ≤ q), min_eq_right ho]; ring
    · rw [if_pos (show underRegion f o ((p + q) / 2) from ⟨by linarith, by linarith⟩), min_eq_left ho, min_eq_left (by linarith : p ≤ o),
        max_eq_right (by linarith : f ≤ q), max_eq_right hf]; ring
  · rw [if_neg (by rintro ⟨h1, h2⟩; linarith : ¬ underRegion f o ((p + q) / 2)), max_eq_left (le_trans (min_le_left _ _) hf),
      max_eq_left (le_trans (min_le_left _ _) (by linarith : p ≤ f))]; ring

theorem midpoint_elemE (α f o : Rat) (g : List Rat) (p : Rat) (hk : KinkComplete (kinksE f o) (p :: g))
    (hlo : p ≤ f ∧ p ≤ o) (hhi : f ≤ lastOr p g ∧ o ≤ lastOr p g) :
    midpointRule (elemE α f o) (p :: g) = halfAsymSq α f o := by
  have := midpoint_telescope (elemE α f o) (fun θ => FoverE α f o θ + FunderE α f o θ) (kinksE f o)
    (fun p q hpq hn => by
      have h1 := cell_overE α f o p q hpq hn
      have h2 := cell_underE α f o p q hpq hn
      simp only [elemE]; rw [mul_add, h1, h2]; ring) g p hk
  rw [this]
  unfold FoverE FunderE halfAsymSq
  rw [min_eq_right hhi.1, min_eq_right hhi.2, min_eq_left hlo.1, min_eq_left hlo.2, max_eq_left hlo.2, max_eq_left hlo.1]
  split_ifs with c
  · rw [max_eq_right c, max_eq_left c]; ring
  · rw [max_eq_left (le_of_lt (not_le.mp c)), max_eq_right (le_of_lt (not_le.mp c))]; ring

theorem cell_overQ (α f o p q : Rat) (hpq : p ≤ q) (h : noKinkIoo [f, o] p q) :
    (q - p) * overQ α f o ((p + q) / 2) = FoverQ α f o q - FoverQ α f o p := by
  obtain ⟨hf, ho⟩ := kink2 h
  rcases eq_or_lt_of_le hpq with rfl | hlt
  · simp
  unfold FoverQ overQ
  rcases ho with ho | ho
  · rcases hf with hf | hf
    · rw [if_neg (by rintro ⟨h1, h2⟩; linarith : ¬ overRegion f o ((p + q) / 2)), min_eq_right (by linarith : f ≤ q), min_eq_right hf]; ring
    · rw [if_pos (show overRegion f o ((p + q) / 2) from ⟨by linarith, by linarith⟩), min_eq_left hf, min_eq_left (by linarith : p ≤ f),
        max_eq_right (by linarith : o ≤ q), max_eq_right ho]; ring
  · rw [if_neg (by rintro ⟨h1, h2⟩; linarith : ¬ overRegion f o ((p + q) / 2)), max_eq_left (le_trans (min_le_left _ _) ho),
      max_eq_left (le_trans (min_le_left _ _) (by linarith : p ≤ o))]; ring

theorem cell_underQ (α f o p q : Rat) (hpq : p ≤ q) (h : noKinkIoo [f, o] p q) :
    (q - p) * underQ α f o ((p + q) / 2) = FunderQ α f o q - FunderQ α f o p := by
  obtain ⟨hf, ho⟩ := kink2 h
  rcases eq_or_lt_of_le hpq with rfl | hlt
  · simp
  unfold FunderQ underQ
  rcases hf with hf | hf
  · rcases ho with ho | ho
    · rw [if_neg (by rintro ⟨h1, h2⟩; linarith : ¬ underRegion f o ((p + q) / 2)), min_eq_right (by linarith : o ≤ q), min_eq_right ho]; ring
    · rw [if_pos (show underRegion f o ((p + q) / 2) from ⟨by linarith, by linarith⟩), min_eq_left ho, min_eq_left (by linarith : p ≤ o),
        max_eq_right (by linarith : f ≤ q), max_eq_right hf]; ring
  · rw [if_neg (by rintro ⟨h1, h2⟩; linarith : ¬ underRegion f o ((p + q) / 2)), max_eq_left (le_trans (min_le_left _ _) hf),
      max_eq_left (le_trans (min_le_left _ _) (by linarith : p ≤ f))]; ring

theorem midpoint_elemQ (α f o : Rat) (g : List Rat) (p : Rat) (hk : KinkComplete (kinksQ f o) (p :: g))
    (hlo : p ≤ f ∧ p ≤ o) (hhi : f ≤ lastOr p g ∧ o ≤ lastOr p g) :
    midpointRule (elemQ α f o) (p :: g) = pinball α f o := by
  have := midpoint_telescope (elemQ α f o) (fun θ => FoverQ α f o θ + FunderQ α f o θ) (kinksQ f o)
    (fun p q hpq hn => by
      have h1 := cell_overQ α f o p q hpq hn
      have h2 := cell_underQ α f o p q hpq hn
      simp only [elemQ]; rw [mul_add, h1, h2]; ring) g p hk
  rw [this]
  unfold FoverQ FunderQ pinball
  rw [min_eq_right hhi.1, min_eq_right hhi.2, min_eq_left hlo.1, min_eq_left hlo.2, max_eq_left hlo.2, max_eq_left hlo.1]
  split_ifs with c
  · rw [max_eq_right c, max_eq_left c]; ring
  · rw [max_eq_left (le_of_lt (not_le.mp c)), max_eq_right (le_of_lt (not_le.mp c))]; ring

/-- ∫₀ᵘ min(t, a) dt for u ≥ 0 -/
def G (a u : Rat) : Rat := (min u a) ^ 2 / 2 + a * (u - min u a)
def FoverH (α a f o θ : Rat) : Rat := (1 - α) * G a (max o (min θ f) - o)
def FunderH (α a f o θ : Rat) : Rat := α * (G a (o - f) - G a (o - max f (min θ o)))

theorem kink4 {a f o p q : Rat} (h : noKinkIoo (kinksH a f o) p q) :
    noKinkIoo [f, o] p q ∧ (o - a ≤ p ∨ q ≤ o - a) ∧ (o + a ≤ p ∨ q ≤ o + a) := by
  refine ⟨fun k hk => h k ?_, ?_, ?_⟩
  · simp only [kinksH, List.mem_cons, List.mem_nil_iff, or_false] at hk ⊢
    rcases hk with hk | hk
    · exact Or.inl hk
    · exact Or.inr (Or.inl hk)
  · have := h (o - a) (by simp [kinksH]); simpa only [not_and_or, not_lt] using this
  · have := h (o + a) (by simp [kinksH]); simpa only [not_and_or, not_lt] using this

theorem cell_overH (α a f o p q : Rat) (hpq : p ≤ q) (h : noKinkIoo (kinksH a f o) p q) :
    (q - p) * overH α a f o ((p + q) / 2) = FoverH α a f o q - FoverH α a f o p := by
  obtain ⟨h2, _, hp⟩ := kink4 h
  obtain ⟨hf, ho⟩ := kink2 h2
  rcases eq_or_lt_of_le hpq with rfl | hlt
  · simp
  unfold FoverH overH
  rcases ho with ho | ho
  · rcases hf with hf | hf
    · rw [if_neg (by rintro ⟨h1, h2⟩; linarith : ¬ overRegion f o ((p + q) / 2)), min_eq_right (by linarith : f ≤ q), min_eq_right hf]; ring
    · rw [if_pos (show overRegion f o ((p + q) / 2) from ⟨by linarith, by linarith⟩), min_eq_left hf, min_eq_left (by linarith : p ≤ f),
        max_eq_right (by linarith : o ≤ q), max_eq_right ho]
      unfold G rmin
      rcases hp with hp | hp
      · rw [if_neg (by linarith), min_eq_right (by linarith : a ≤ q - o), min_eq_right (by linarith : a ≤ p - o)]; ring
      · rw [if_pos (by linarith), min_eq_left (by linarith : q - o ≤ a), min_eq_left (by linarith : p - o ≤ a)]; ring
  · rw [if_neg (by rintro ⟨h1, h2⟩; linarith : ¬ overRegion f o ((p + q) / 2)), max_eq_left (le_trans (min_le_left _ _) ho),
      max_eq_left (le_trans (min_le_left _ _) (by linarith : p ≤ o))]; ring

theorem cell_underH (α a f o p q : Rat) (hpq : p ≤ q) (h : noKinkIoo (kinksH a f o) p q) :
    (q - p) * underH α a f o ((p + q) / 2) = FunderH α a f o q - FunderH α a f o p := by
  obtain ⟨h2, hm, _⟩ := kink4 h
  obtain ⟨hf, ho⟩ := kink2 h2
  rcases eq_or_lt_of_le hpq with rfl | hlt
  · simp
  unfold FunderH underH
  rcases hf with hf | hf
  · rcases ho with ho | ho
    · rw [if_neg (by rintro ⟨h1, h2⟩; linarith : ¬ underRegion f o ((p + q) / 2)), min_eq_right (by linarith : o ≤ q), min_eq_right ho]; ring
    · rw [if_pos (show underRegion f o ((p + q) / 2) from ⟨by linarith, by linarith⟩), min_eq_left ho, min_eq_left (by linarith : p ≤ o),
        max_eq_right (by linarith : f ≤ q), max_eq_right hf]
      unfold G rmin
      rcases hm with hm | hm
      · rw [if_pos (by linarith), min_eq_left (by linarith : o - q ≤ a), min_eq_left (by linarith : o - p ≤ a)]; ring
      · rw [if_neg (by linarith), min_eq_right (by linarith : a ≤ o - q), min_eq_right (by linarith : a ≤ o - p)]; ring
  · rw [if_neg (by rintro ⟨h1, h2⟩; linarith : ¬ underRegion f o ((p + q) / 2)), max_eq_left (le_trans (min_le_left _ _) hf),
      max_eq_left (le_trans (min_le_left _ _) (by linarith : p ≤ f))]; ring

theorem G_zero (a : Rat) (ha : 0 ≤ a) : G a 0 = 0 := by unfold G; rw [min_eq_left ha]; ring

theorem G_eq_huber (a u : Rat) (hu : 0 ≤ u) : G a u = huberLoss a u := by
  unfold G huberLoss
  rw [rabs_eq_abs, abs_of_nonneg hu]
  split_ifs with c
  · rw [min_eq_left c]; ring
  · rw [min_eq_right (le_of_lt (not_le.mp c))]; ring

theorem huberLoss_neg (a u : Rat) : huberLoss a (-u) = huberLoss a u := by
  unfold huberLoss; rw [rabs_eq_abs, rabs_eq_abs, abs_neg]; ring_nf

theorem midpoint_elemH (α a f o : Rat) (ha : 0 ≤ a) (g : List Rat) (p : Rat) (hk : KinkComplete (kinksH a f o) (p :: g))
    (hlo : p ≤ f ∧ p ≤ o) (hhi : f ≤ lastOr p g ∧ o ≤ lastOr p g) :
    midpointRule (elemH α a f o) (p :: g) = asymHuber α a f o := by
  have := midpoint_telescope (elemH α a f o) (fun θ => FoverH α a f o θ + FunderH α a f o θ) (kinksH a f o)
    (fun p q hpq hn => by
      have h1 := cell_overH α a f o p q hpq hn
      have h2 := cell_underH α a f o p q hpq hn
      simp only [elemH]; rw [mul_add, h1, h2]; ring) g p hk
  rw [this]
  unfold FoverH FunderH asymHuber
  rw [min_eq_right hhi.1, min_eq_right hhi.2, min_eq_left hlo.1, min_eq_left hlo.2, max_eq_left hlo.2, max_eq_left hlo.1]
  split_ifs with c
  · rw [max_eq_right c, max_eq_left c, sub_self, sub_self, G_zero a ha, G_eq_huber a (f - o) (by linarith)]; ring
  · have c' := le_of_lt (not_le.mp c)
    rw [max_eq_left c', max_eq_right c', sub_self, sub_self, G_zero a ha, G_eq_huber a (o - f) (by linarith),
      ← huberLoss_neg a (o - f), neg_sub]; ring

end integrals

/-! ## 4. the returned thetas as a rational grid -/
section grid
open SV.Model.Murphy
/-- the finite values of a list of floats, in order -/
def toRats : List Fl → List Rat
  | [] => []
  | Fl.fin q :: xs => q :: toRats xs
  | _ :: xs => toRats xs

theorem mem_toRats (q : Rat) (l : List Fl) : q ∈ toRats l ↔ Fl.fin q ∈ l := by
  induction l with
  | nil => simp [toRats]
  | cons x xs ih => cases x <;> simp [toRats, ih]

theorem toRats_pairwise (l : List Fl) (h : Sorted l) : (toRats l).Pairwise (· < ·) := by
  induction l with
  | nil => simp [toRats]
  | cons x xs ih =>
    unfold Sorted at h
    rw [List.pairwise_cons] at h
    cases x with
    | fin q =>
      simp only [toRats, List.pairwise_cons]
      refine ⟨fun r hr => ?_, ih h.2⟩
      have := h.1 (Fl.fin r) ((mem_toRats r xs).mp hr)
      simpa using this
    | pinf => exact ih h.2
    | ninf => exact ih h.2
    | nan => exact ih h.2

/-- a strictly increasing grid that contains every kink (or has it at/below all its points) is kink-complete -/
theorem kinkComplete_of_sorted (ks : List Rat) : ∀ g : List Rat, g.Pairwise (· < ·) →
    (∀ k ∈ ks, k ∈ g ∨ ∀ x ∈ g, k ≤ x) → KinkComplete ks g := by
  intro g
  induction g with
  | nil => intro _ _; trivial
  | cons a t ih =>
    intro hp hk
    cases t with
    | nil => trivial
    | cons b rest =>
      rw [List.pairwise_cons] at hp
      have hab : a < b := hp.1 b (by simp)
      refine ⟨⟨le_of_lt hab, ?_⟩, ih hp.2 ?_⟩
      · intro k hkm ⟨h1, h2⟩
        rcases hk k hkm with hin | hle
        · rcases List.mem_cons.mp hin with rfl | hin
          · exact lt_irrefl _ h1
          · rcases List.mem_cons.mp hin with rfl | hin
            · exact lt_irrefl _ h2
            · have : b < k := (List.pairwise_cons.mp hp.2).1 k hin
              linarith
        · have := hle a (by simp); linarith
      · intro k hkm
        rcases hk k hkm with hin | hle
        · rcases List.mem_cons.mp hin with rfl | hin
          · right; intro x hx; exact le_of_lt (hp.1 x hx)
          · left; exact hin
        · right; intro x hx; exact hle x (List.mem_cons_of_mem _ hx)

theorem head_le_of_sorted (p : Rat) (g : List Rat) (h : (p :: g).Pairwise (· < ·)) (x : Rat) (hx : x ∈ p :: g) : p ≤ x := by
  rcases List.mem_cons.mp hx with rfl | hx
  · exact le_refl _
  · exact le_of_lt ((List.pairwise_cons.mp h).1 x hx)

theorem le_lastOr_of_sorted : ∀ (g : List Rat) (p : Rat), (p :: g).Pairwise (· < ·) → ∀ x ∈ p :: g, x ≤ lastOr p g := by
  intro g
  induction g with
  | nil => intro p _ x hx; simp at hx; subst hx; exact le_refl _
  | cons q rest ih =>
    intro p h x hx
    rw [List.pairwise_cons] at h
    simp only [lastOr]
    rcases List.mem_cons.mp hx with rfl | hx
    · exact le_trans (le_of_lt (h.1 q (by simp))) (ih q h.2 q (by simp))
    · exact ih q h.2 x hx


end grid

/-! ## 5. NaN-skipping mean over cases = mean over the valid cases -/
section means
open SV.Fl
/-- a case is either missing (NaN forecast or observation) or finite -/
def CaseOK (c : Fl × Fl) : Prop := (c.1 = nan ∨ c.2 = nan) ∨ ∃ f o : Rat, c = (fin f, fin o)

theorem fsum_fin' (xs : List Rat) : fsum (xs.map fin) = fin xs.sum := by
  unfold fsum
  suffices H : ∀ acc : Rat, (xs.map fin).foldl Fl.add (fin acc) = fin (acc + xs.sum) by simpa using H 0
  induction xs with
  | nil => intro acc; simp
  | cons x xs ih => intro acc; simp only [List.map_cons, List.foldl_cons, add_fin, List.sum_cons]; rw [ih]; congr 1; ring

theorem nanmean_fin (xs : List Rat) : nanmean (xs.map fin) = meanOf xs := by
  unfold nanmean meanOf valid
  have hv : (xs.map fin).filter Fl.notNan = xs.map fin := by
    apply List.filter_eq_self.mpr; intro z hz
    obtain ⟨q, _, rfl⟩ := List.mem_map.mp hz; rfl
  simp only [hv]
  cases xs with
  | nil => simp
  | cons x t =>
    simp only [List.map_cons, List.isEmpty_cons, Bool.false_eq_true, if_false, List.length_cons, List.length_map]
    rw [← List.map_cons, fsum_fin']
    have hne : ((t.length + 1 : Nat) : Rat) ≠ 0 := by positivity
    simp only [Fl.ofNat]
    rw [div_fin _ _ hne]

/-- generic: if `g` is NaN on missing cases and `fin (h f o)` on finite ones, the NaN-skipping mean of `g` over the cases
    is the plain mean of `h` over the valid cases (NaN when there is none) -/
theorem nanmean_cases (g : Fl × Fl → Fl) (h : Rat → Rat → Rat)
    (hnan : ∀ c : Fl × Fl, (c.1 = nan ∨ c.2 = nan) → g c = nan) (hfin : ∀ f o : Rat, g (fin f, fin o) = fin (h f o))
    (cases : List (Fl × Fl)) (hok : ∀ c ∈ cases, CaseOK c) :
    nanmean (cases.map g) = meanOf ((validCases cases).map fun c => h c.1 c.2) := by
  rw [← nanmean_fin]
  unfold nanmean
  have hv : valid (cases.map g) = valid (((validCases cases).map fun c => h c.1 c.2).map fin) := by
    unfold valid
    induction cases with
    | nil => simp [validCases]
    | cons c cs ih =>
      have ih' := ih (fun c' hc' => hok c' (List.mem_cons_of_mem _ hc'))
      rcases hok c (by simp) with hn | ⟨f, o, rfl⟩
      · have : validCases (c :: cs) = validCases cs := by
          obtain ⟨c1, c2⟩ := c
          rcases hn with hn | hn
          · simp only at hn; subst hn; simp [validCases]
          · simp only at hn; subst hn; cases c1 <;> simp [validCases]
        rw [this, List.map_cons, List.filter_cons, hnan c hn]
        simpa using ih'
      · simp only [validCases, List.map_cons, List.filter_cons, hfin, notNan_fin, if_true]
        rw [ih']
  rw [hv]


end means
end SV.Lemmas.Murphy
