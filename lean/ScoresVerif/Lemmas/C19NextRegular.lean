/-
  Lemmas for C19, `_next_regular`: the value returned by the model `SV.Model.DM.nextRegular` is 5-smooth
  (`2^a·3^b·5^c`) and is below every 5-smooth number that is ≥ the target.

  Loop invariants (both loops are well-founded recursions in the model — no fuel):
    * smoothness: `p5`, `p35` are 5-smooth, every stored `match` and every early return value is 5-smooth;
    * minimality: an early return value is the target itself; `match` only decreases (`Bound` is kept by `upd`);
      when `inner target p m` falls through, then for every `j`, `a` with `target ≤ 2^a·(p·3^j)` either `match ≤` that
      number or the exit value of `p35` is `≤` it; likewise for `outer` with `p·5^c·3^j`.
-/
import ScoresVerif.Lemmas.DieboldMariano
import Mathlib.Tactic.Ring
import Mathlib.Tactic.Linarith

namespace SV.Model.DM
open SV

/-- `n = 2^a · 3^b · 5^c` (5-smooth / regular / Hamming number) -/
def Smooth5 (n : Nat) : Prop := ∃ a b c : Nat, n = 2 ^ a * 3 ^ b * 5 ^ c

theorem smooth5_one : Smooth5 1 := ⟨0, 0, 0, by norm_num⟩

theorem smooth5_two_pow (k : Nat) : Smooth5 (2 ^ k) := ⟨k, 0, 0, by simp⟩

theorem smooth5_two_pow_mul {p : Nat} (k : Nat) (h : Smooth5 p) : Smooth5 (2 ^ k * p) := by
  obtain ⟨a, b, c, rfl⟩ := h
  exact ⟨k + a, b, c, by ring⟩

theorem smooth5_mul_three {p : Nat} (h : Smooth5 p) : Smooth5 (p * 3) := by
  obtain ⟨a, b, c, rfl⟩ := h
  exact ⟨a, b + 1, c, by ring⟩

theorem smooth5_mul_five {p : Nat} (h : Smooth5 p) : Smooth5 (p * 5) := by
  obtain ⟨a, b, c, rfl⟩ := h
  exact ⟨a, b, c + 1, by ring⟩

/-! ### `target & (target − 1) == 0` means power of two -/

theorem pow_two_of_and_pred_eq_zero : ∀ n : Nat, n ≠ 0 → n &&& (n - 1) = 0 → ∃ k, n = 2 ^ k := by
  intro n
  induction n using Nat.strong_induction_on with
  | _ n ih =>
    intro hn h
    have hd : n / 2 &&& (n - 1) / 2 = 0 := by rw [← Nat.and_div_two, h]
    rcases Nat.mod_two_eq_zero_or_one n with he | ho
    · -- n = 2 m, m ≥ 1
      have hm : n / 2 ≠ 0 := by omega
      have e : (n - 1) / 2 = n / 2 - 1 := by omega
      rw [e] at hd
      obtain ⟨k, hk⟩ := ih (n / 2) (by omega) hm hd
      exact ⟨k + 1, by rw [pow_succ, ← hk]; omega⟩
    · have e : (n - 1) / 2 = n / 2 := by omega
      rw [e, Nat.and_self] at hd
      exact ⟨0, by omega⟩

/-! ### smoothness invariant -/

def SmoothOpt (m : Option Nat) : Prop := ∀ v, m = some v → Smooth5 v

theorem smoothOpt_none : SmoothOpt none := by intro v hv; simp at hv

theorem upd_smooth {N : Nat} {m : Option Nat} (hm : SmoothOpt m) (hN : Smooth5 N) : SmoothOpt (upd N m) := by
  intro v hv
  unfold upd at hv
  cases m with
  | none => simp at hv; subst hv; exact hN
  | some w =>
    simp only at hv
    split at hv
    · simp at hv; subst hv; exact hN
    · simp at hv; subst hv; exact hm w rfl

theorem upd_isSome (N : Nat) (m : Option Nat) : ∃ v, upd N m = some v := by
  unfold upd
  cases m with
  | none => exact ⟨N, rfl⟩
  | some w => simp only; split <;> exact ⟨_, rfl⟩

theorem inner_smooth (target p35 : Nat) (m : Option Nat) (hp : Smooth5 p35) (hm : SmoothOpt m) :
    (∀ v, (inner target p35 m).1 = some v → Smooth5 v) ∧ SmoothOpt (inner target p35 m).2.1 ∧
    Smooth5 (inner target p35 m).2.2 := by
  fun_induction inner target p35 m with
  | case1 p35 m hc heq =>
    refine ⟨?_, hm, hp⟩
    intro v hv; simp at hv; rw [← hv]; exact smooth5_two_pow_mul _ hp
  | case2 p35 m hc hne heq =>
    refine ⟨?_, upd_smooth hm (smooth5_two_pow_mul _ hp), smooth5_mul_three hp⟩
    intro v hv; simp at hv; rw [← hv]; exact smooth5_mul_three hp
  | case3 p35 m hc hne hne' ih =>
    exact ih (smooth5_mul_three hp) (upd_smooth hm (smooth5_two_pow_mul _ hp))
  | case4 p35 m hc =>
    exact ⟨by simp, hm, hp⟩

theorem outer_smooth (target p5 : Nat) (m : Option Nat) (hp : Smooth5 p5) (hm : SmoothOpt m) :
    (∀ v, (outer target p5 m).1 = some v → Smooth5 v) ∧ SmoothOpt (outer target p5 m).2.1 ∧
    Smooth5 (outer target p5 m).2.2 := by
  fun_induction outer target p5 m with
  | case1 p5 m hc r m' x heq =>
    have := inner_smooth target p5 m hp hm
    rw [heq] at this
    exact ⟨fun v hv => this.1 v hv, this.2.1, hp⟩
  | case2 p5 m hc m' p35 heq h5 =>
    have := inner_smooth target p5 m hp hm
    rw [heq] at this
    refine ⟨?_, upd_smooth this.2.1 this.2.2, smooth5_mul_five hp⟩
    intro v hv; simp at hv; rw [← hv]; exact smooth5_mul_five hp
  | case3 p5 m hc m' p35 heq h5 ih =>
    have := inner_smooth target p5 m hp hm
    rw [heq] at this
    exact ih (smooth5_mul_five hp) (upd_smooth this.2.1 this.2.2)
  | case4 p5 m hc =>
    exact ⟨by simp, hm, hp⟩

theorem nextRegular_smooth (target : Nat) (ht : 1 ≤ target) : Smooth5 (nextRegular target) := by
  unfold nextRegular
  split
  · rename_i h6
    have : target = 1 ∨ target = 2 ∨ target = 3 ∨ target = 4 ∨ target = 5 ∨ target = 6 := by omega
    rcases this with h | h | h | h | h | h <;> subst h
    · exact ⟨0, 0, 0, by norm_num⟩
    · exact ⟨1, 0, 0, by norm_num⟩
    · exact ⟨0, 1, 0, by norm_num⟩
    · exact ⟨2, 0, 0, by norm_num⟩
    · exact ⟨0, 0, 1, by norm_num⟩
    · exact ⟨1, 1, 0, by norm_num⟩
  · split
    · rename_i h6 hland
      obtain ⟨k, hk⟩ := pow_two_of_and_pred_eq_zero target (by omega) hland
      rw [hk]; exact smooth5_two_pow k
    · have := outer_smooth target 1 none smooth5_one smoothOpt_none
      split
      · rename_i r _ _ heq
        rw [heq] at this
        exact this.1 r rfl
      · rename_i m p5 heq
        rw [heq] at this
        have hs := upd_smooth this.2.1 this.2.2
        obtain ⟨v, hv⟩ := upd_isSome p5 m
        rw [hv]; exact hs v hv

/-! ### minimality invariant -/

/-- `match ≤ M` (with `match = inf` excluded) -/
def Bound (m : Option Nat) (M : Nat) : Prop := ∃ w, m = some w ∧ w ≤ M

theorem upd_bound_of_le {N M : Nat} (m : Option Nat) (h : N ≤ M) : Bound (upd N m) M := by
  unfold upd
  cases m with
  | none => exact ⟨N, rfl, h⟩
  | some w =>
    simp only
    split
    · exact ⟨N, rfl, h⟩
    · exact ⟨w, rfl, by omega⟩

theorem upd_bound_mono {M : Nat} (N : Nat) {m : Option Nat} (h : Bound m M) : Bound (upd N m) M := by
  obtain ⟨w, rfl, hw⟩ := h
  unfold upd
  simp only
  split
  · exact ⟨N, rfl, by omega⟩
  · exact ⟨w, rfl, hw⟩

/-- the candidate `2^bit_length(⌈t/p⌉ − 1) · p` is the smallest `2^a · p` that is `≥ t` -/
theorem candidate_min (t p a : Nat) (hp : 0 < p) (h : t ≤ 2 ^ a * p) :
    2 ^ bitLength ((t + p - 1) / p - 1) * p ≤ 2 ^ a * p := by
  apply Nat.mul_le_mul_right
  have hq : (t + p - 1) / p ≤ 2 ^ a := by
    have : (t + p - 1) / p < 2 ^ a + 1 := by
      rw [Nat.div_lt_iff_lt_mul hp]
      have : (2 ^ a + 1) * p = 2 ^ a * p + p := by ring
      omega
    omega
  unfold bitLength
  split
  · simp; exact Nat.one_le_two_pow
  · rename_i hne
    apply Nat.pow_le_pow_right (by omega)
    have : ((t + p - 1) / p - 1).log2 < a := by
      rw [Nat.log2_lt hne]
      have : 0 < 2 ^ a := Nat.two_pow_pos a
      omega
    omega

theorem inner_early (target p35 : Nat) (m : Option Nat) :
    ∀ v, (inner target p35 m).1 = some v → v = target := by
  fun_induction inner target p35 m with
  | case1 p35 m hc heq => intro v hv; simp at hv; omega
  | case2 p35 m hc hne heq => intro v hv; simp at hv; omega
  | case3 p35 m hc hne hne' ih => exact ih
  | case4 p35 m hc => intro v hv; simp at hv

theorem inner_mono (target p35 : Nat) (m : Option Nat) (M : Nat) (hm : Bound m M) :
    Bound (inner target p35 m).2.1 M := by
  fun_induction inner target p35 m with
  | case1 p35 m hc heq => exact hm
  | case2 p35 m hc hne heq => exact upd_bound_mono _ hm
  | case3 p35 m hc hne hne' ih => exact ih (upd_bound_mono _ hm)
  | case4 p35 m hc => exact hm

/-- fall-through of the inner loop started at `p`: every `2^a·(p·3^j) ≥ target` is `≥ match` or `≥` the exit `p35` -/
theorem inner_min (target p35 : Nat) (m : Option Nat) (hp : 0 < p35)
    (hnone : (inner target p35 m).1 = none) (a j : Nat) (hM : target ≤ 2 ^ a * (p35 * 3 ^ j)) :
    Bound (inner target p35 m).2.1 (2 ^ a * (p35 * 3 ^ j)) ∨ (inner target p35 m).2.2 ≤ 2 ^ a * (p35 * 3 ^ j) := by
  fun_induction inner target p35 m generalizing j with
  | case1 p35 m hc heq => simp at hnone
  | case2 p35 m hc hne heq => simp at hnone
  | case3 p35 m hc hne hne' ih =>
    cases j with
    | zero =>
      left
      simp only [pow_zero, mul_one] at hM ⊢
      exact inner_mono _ _ _ _ (upd_bound_of_le _ (candidate_min _ _ _ hp hM))
    | succ j =>
      have e : p35 * 3 ^ (j + 1) = p35 * 3 * 3 ^ j := by ring
      rw [e] at hM ⊢
      exact ih (by omega) hnone j hM
  | case4 p35 m hc =>
    right
    simp only
    have h1 : 0 < 2 ^ a := Nat.two_pow_pos a
    have h2 : 0 < 3 ^ j := Nat.pow_pos (by omega)
    calc p35 = 1 * (p35 * 1) := by ring
      _ ≤ 2 ^ a * (p35 * 3 ^ j) := Nat.mul_le_mul h1 (Nat.mul_le_mul_left _ h2)

theorem outer_early (target p5 : Nat) (m : Option Nat) :
    ∀ v, (outer target p5 m).1 = some v → v = target := by
  fun_induction outer target p5 m with
  | case1 p5 m hc r m' x heq =>
    intro v hv
    have := inner_early target p5 m r (by rw [heq])
    simp at hv; omega
  | case2 p5 m hc m' p35 heq h5 => intro v hv; simp at hv; omega
  | case3 p5 m hc m' p35 heq h5 ih => exact ih
  | case4 p5 m hc => intro v hv; simp at hv

theorem outer_mono (target p5 : Nat) (m : Option Nat) (M : Nat) (hm : Bound m M) :
    Bound (outer target p5 m).2.1 M := by
  fun_induction outer target p5 m with
  | case1 p5 m hc r m' x heq =>
    have := inner_mono target p5 m M hm
    rw [heq] at this; exact this
  | case2 p5 m hc m' p35 heq h5 =>
    have := inner_mono target p5 m M hm
    rw [heq] at this; exact upd_bound_mono _ this
  | case3 p5 m hc m' p35 heq h5 ih =>
    have := inner_mono target p5 m M hm
    rw [heq] at this; exact ih (upd_bound_mono _ this)
  | case4 p5 m hc => exact hm

/-- fall-through of the outer loop started at `p`: every `2^a·(p·5^c·3^j) ≥ target` is `≥ match` or `≥` the exit `p5` -/
theorem outer_min (target p5 : Nat) (m : Option Nat) (hp : 0 < p5)
    (hnone : (outer target p5 m).1 = none) (a j c : Nat) (hM : target ≤ 2 ^ a * (p5 * 5 ^ c * 3 ^ j)) :
    Bound (outer target p5 m).2.1 (2 ^ a * (p5 * 5 ^ c * 3 ^ j)) ∨
      (outer target p5 m).2.2 ≤ 2 ^ a * (p5 * 5 ^ c * 3 ^ j) := by
  fun_induction outer target p5 m generalizing c with
  | case1 p5 m hc r m' x heq => simp at hnone
  | case2 p5 m hc m' p35 heq h5 => simp at hnone
  | case3 p5 m hc m' p35 heq h5 ih =>
    cases c with
    | zero =>
      left
      simp only [pow_zero, mul_one] at hM ⊢
      have hin := inner_min target p5 m hp (by rw [heq]) a j hM
      rw [heq] at hin
      apply outer_mono
      rcases hin with hb | hle
      · exact upd_bound_mono _ hb
      · exact upd_bound_of_le _ hle
    | succ c =>
      have e : p5 * 5 ^ (c + 1) = p5 * 5 * 5 ^ c := by ring
      rw [e] at hM ⊢
      exact ih (by omega) hnone c hM
  | case4 p5 m hc =>
    right
    simp only
    have h1 : 0 < 2 ^ a := Nat.two_pow_pos a
    have h2 : 0 < 3 ^ j := Nat.pow_pos (by omega)
    have h3 : 0 < 5 ^ c := Nat.pow_pos (by omega)
    calc p5 = 1 * (p5 * 1 * 1) := by ring
      _ ≤ 2 ^ a * (p5 * 5 ^ c * 3 ^ j) :=
        Nat.mul_le_mul h1 (Nat.mul_le_mul (Nat.mul_le_mul_left _ h3) h2)

theorem nextRegular_min (target a b c : Nat) (hM : target ≤ 2 ^ a * 3 ^ b * 5 ^ c) :
    nextRegular target ≤ 2 ^ a * 3 ^ b * 5 ^ c := by
  unfold nextRegular
  split
  · exact hM
  · split
    · exact hM
    · have e : 2 ^ a * 3 ^ b * 5 ^ c = 2 ^ a * (1 * 5 ^ c * 3 ^ b) := by ring
      split
      · rename_i r _ _ heq
        have := outer_early target 1 none r (by rw [heq])
        omega
      · rename_i m p5 heq
        rw [e] at hM ⊢
        have hmin := outer_min target 1 none (by omega) (by rw [heq]) a b c hM
        rw [heq] at hmin
        have hb : Bound (upd p5 m) (2 ^ a * (1 * 5 ^ c * 3 ^ b)) := by
          rcases hmin with hb | hle
          · exact upd_bound_mono _ hb
          · exact upd_bound_of_le _ hle
        obtain ⟨w, hw, hle⟩ := hb
        rw [hw]; simpa using hle

end SV.Model.DM
