/-
  C18 — `skipna=True` with NaN in the input: after `% 360` and the sort (NaN last) the routine rotates by the smallest
  angle and replaces the NaN by 0, which leaves a CYCLIC ROTATION of a sorted list of residues (the zeros sit at the end
  instead of the front).  The routine is equivariant under cyclic rotation, so it returns the smallest arc covering the
  non-NaN directions.
-/
import ScoresVerif.Lemmas.FlipFlopC18Mixed
import ScoresVerif.Lemmas.FlipFlopC18Rotate

namespace SV.Model.FlipFlop
open SV SV.Fl
open SV.Spec.FlipFlop

/-- sorted residues shifted by their smallest element stay sorted residues with the same sector -/
theorem shift_sorted (a : Rat) (t : List Rat) (hs : (a :: t).Pairwise (· ≤ ·)) (hr : ∀ x ∈ a :: t, 0 ≤ x ∧ x < 360) :
    ((a :: t).map fun v => rmod (v - a) 360).Pairwise (· ≤ ·) ∧
    (∀ x ∈ (a :: t).map fun v => rmod (v - a) 360, 0 ≤ x ∧ x < 360) ∧
    sector ((a :: t).map fun v => rmod (v - a) 360) = sector (a :: t) := by
  have hle : ∀ x ∈ a :: t, a ≤ x := by
    intro x hx
    rcases List.mem_cons.mp hx with rfl | hx
    · exact le_refl _
    · exact (List.pairwise_cons.mp hs).1 x hx
  have hval : ∀ x ∈ a :: t, rmod (x - a) 360 = x - a := by
    intro x hx
    have := hle x hx
    have h1 := hr x hx
    have h2 := hr a List.mem_cons_self
    exact rmod360_of_mem _ (by linarith) (by linarith)
  refine ⟨?_, ?_, ?_⟩
  · rw [List.pairwise_map]
    refine hs.imp_of_mem ?_
    intro x y hx hy hxy
    rw [hval x hx, hval y hy]; linarith
  · intro x hx
    obtain ⟨v, _, rfl⟩ := List.mem_map.mp hx
    exact ⟨rmod360_nonneg _, rmod360_lt _⟩
  · have h1 : ((a :: t).map fun v => rmod (v - a) 360) = ((a :: t).map (· + -a)).map fun v => rmod v 360 := by
      rw [List.map_map]
      apply List.map_congr_left
      intro v _
      simp [Function.comp, sub_eq_add_neg]
    rw [h1, sector_residues, sector_rotate]

/-- `skipna=True`: NaN entries are ignored — the routine returns the smallest arc covering the non-NaN directions -/
theorem sectorNp_true_mixed (vs : List (Option Rat)) (hne : vs.filterMap id ≠ []) :
    sectorNp true (vs.map optFl) = fin (sector (vs.filterMap id)) := by
  set qs := vs.filterMap id with hqs
  have hmem : ∀ x, x ∈ sortedResidues qs ↔ x ∈ qs.map fun v => rmod v 360 := fun x => List.mem_insertionSort _
  have hs : (sortedResidues qs).Pairwise (· ≤ ·) := List.pairwise_insertionSort _ _
  have hr : ∀ x ∈ sortedResidues qs, 0 ≤ x ∧ x < 360 := by
    intro x hx
    obtain ⟨v, _, rfl⟩ := List.mem_map.mp ((hmem x).mp hx)
    exact ⟨rmod360_nonneg v, rmod360_lt v⟩
  have hd : sortedResidues qs ≠ [] := by
    obtain ⟨b, u, hbu⟩ := List.exists_cons_of_ne_nil hne
    intro h
    have := (hmem (rmod b 360)).mpr (by rw [hbu]; simp)
    rw [h] at this; simp at this
  have hsec : sector (sortedResidues qs) = sector qs := by
    rw [sector_congr_mem _ _ hmem, sector_residues]
  rw [sectorNp_true_eq, sortFl_mixed]
  obtain ⟨a, t, hat⟩ := List.exists_cons_of_ne_nil hd
  rw [← hqs, hat, skipnaPre_mixed]
  rw [hat] at hs hr hsec
  obtain ⟨hs', hr', hsec'⟩ := shift_sorted a t hs hr
  set d' := (a :: t).map fun v => rmod (v - a) 360 with hd'
  set m := nNone vs
  -- the data is the rotation by m of the sorted list `zeros ++ d'`
  have hrot : d' ++ List.replicate m (0 : Rat) = (List.replicate m (0 : Rat) ++ d').rotate m := by
    have := List.rotate_append_length_eq (List.replicate m (0 : Rat)) d'
    rw [List.length_replicate] at this
    exact this.symm
  have h0 : (0 : Rat) ∈ d' := by
    rw [hd']; exact List.mem_map.mpr ⟨a, List.mem_cons_self, by rw [sub_self]; exact rmod360_zero⟩
  have hSs : (List.replicate m (0 : Rat) ++ d').Pairwise (· ≤ ·) := by
    rw [List.pairwise_append]
    refine ⟨?_, hs', ?_⟩
    · rw [List.pairwise_replicate]; exact Or.inr (le_refl _)
    · intro x hx y hy
      rw [List.eq_of_mem_replicate hx]; exact (hr' y hy).1
  have hSr : ∀ x ∈ List.replicate m (0 : Rat) ++ d', 0 ≤ x ∧ x < 360 := by
    intro x hx
    rcases List.mem_append.mp hx with hx | hx
    · rw [List.eq_of_mem_replicate hx]; norm_num
    · exact hr' x hx
  have hSne : List.replicate m (0 : Rat) ++ d' ≠ [] := by
    intro h; rw [h] at hSr; simp [hd'] at h
  have hSsec : sector (List.replicate m (0 : Rat) ++ d') = sector d' := by
    apply sector_congr_mem
    intro x
    rw [List.mem_append]
    constructor
    · rintro (hx | hx)
      · rw [List.eq_of_mem_replicate hx]; exact h0
      · exact hx
    · intro hx; exact Or.inr hx
  rw [hrot, sectorPost_rotate_fin _ m hSne hSs hSr, hSsec, hsec', hsec]

/-- `skipna=True`, all entries NaN (or no entry): NaN -/
theorem sectorNp_true_all_nan (vs : List (Option Rat)) (h : vs.filterMap id = []) :
    sectorNp true (vs.map optFl) = Fl.nan := by
  rw [sectorNp_true_eq, sortFl_mixed, h]
  exact sectorPost_skipnaPre_all_nan _

end SV.Model.FlipFlop
