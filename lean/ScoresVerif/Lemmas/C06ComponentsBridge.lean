/-
  C06 — the component step integrals of Lemmas/C06Components.lean are Lebesgue integrals:
      ∫ 1{t<y} F_ens  (step, grid of y :: xs)  =  ∫_p^y F_ens  =  ∫_{(−∞, y]} F_ens
      ∫ 1{y≤t} (1 − F_ens)                     =  ∫_y^U (1 − F_ens)  =  ∫_{(y, ∞)} (1 − F_ens)
      ∫ F_ens (1 − F_ens)                      =  ∫_p^U F_ens (1 − F_ens)
  (p / U = smallest / largest of members ∪ {y}), and the weighted ones = ∫ over the hull of thresholds ∪ {y} ∪ members of
  `weightOnR a? b? ·` the same integrands; for an interval a ≤ b: ∫_a^b.  `ecdfR`, `heavisideR` are the Spec functions
  read over ℝ (Lemmas/Bridge.lean, imported only).
-/
import ScoresVerif.Lemmas.C06TwBridge
import ScoresVerif.Lemmas.C06Components

namespace SV.Bridge
open MeasureTheory Set
open SV.Spec.CrpsEns (grid stepIntegral ecdf heaviside integrand weightOn optPts twIntegral)
open SV.Lemmas.CrpsEns (underIntegrand overIntegrand spreadIntegrand twUnderIntegral twOverIntegral twSpreadIntegral)
open SV.Spec.Murphy (lastOr)

/-! ## 1. the integrands over ℝ -/

/-- 1{t < y} · F_ens(t) over ℝ -/
noncomputable def underIntegrandR (xs : List ℚ) (y : ℚ) (t : ℝ) : ℝ := (if t < (y : ℝ) then 1 else 0) * ecdfR xs t
/-- 1{y ≤ t} · (1 − F_ens(t)) over ℝ -/
noncomputable def overIntegrandR (xs : List ℚ) (y : ℚ) (t : ℝ) : ℝ := heavisideR y t * (1 - ecdfR xs t)
/-- F_ens(t) (1 − F_ens(t)) over ℝ -/
noncomputable def spreadIntegrandR (xs : List ℚ) (t : ℝ) : ℝ := ecdfR xs t * (1 - ecdfR xs t)

theorem ecdfR_cast (xs : List ℚ) (t : ℚ) : ecdfR xs t = ((ecdf xs t : ℚ) : ℝ) := by
  have hf : (xs.filter (fun x : ℚ => decide ((x : ℝ) ≤ (t : ℝ)))) = xs.filter (fun x => decide (x ≤ t)) :=
    List.filter_congr (fun x _ => by simp only [Rat.cast_le])
  unfold ecdfR ecdf
  rw [hf]; push_cast; rfl

theorem heavisideR_cast (y t : ℚ) : heavisideR y t = ((heaviside y t : ℚ) : ℝ) := by
  unfold heavisideR heaviside; simp only [Rat.cast_le]; split_ifs <;> simp

theorem underIntegrandR_cast (xs : List ℚ) (y t : ℚ) : underIntegrandR xs y t = ((underIntegrand xs y t : ℚ) : ℝ) := by
  unfold underIntegrandR underIntegrand
  rw [ecdfR_cast]; simp only [Rat.cast_lt]; split_ifs <;> simp

theorem overIntegrandR_cast (xs : List ℚ) (y t : ℚ) : overIntegrandR xs y t = ((overIntegrand xs y t : ℚ) : ℝ) := by
  unfold overIntegrandR overIntegrand
  rw [ecdfR_cast, heavisideR_cast]; push_cast; rfl

theorem spreadIntegrandR_cast (xs : List ℚ) (t : ℚ) : spreadIntegrandR xs t = ((spreadIntegrand xs t : ℚ) : ℝ) := by
  unfold spreadIntegrandR spreadIntegrand
  rw [ecdfR_cast]; push_cast; rfl

/-- on an open cell (a, b) that contains no point x of a set, `x ≤ θ ↔ x ≤ a` -/
theorem cell_le_iff {a b x : ℚ} (h : x ≤ a ∨ b ≤ x) {θ : ℝ} (h1 : (a : ℝ) < θ) (h2 : θ < b) :
    ((x : ℝ) ≤ θ) ↔ ((x : ℝ) ≤ a) := by
  rcases h with h | h
  · have : (x : ℝ) ≤ a := by exact_mod_cast h
    exact ⟨fun _ => this, fun _ => by linarith⟩
  · have : (b : ℝ) ≤ x := by exact_mod_cast h
    exact ⟨fun h' => by linarith, fun h' => by linarith⟩

theorem ecdfR_const (xs : List ℚ) (a b : ℚ) (hno : ∀ x, x ∈ xs → x ≤ a ∨ b ≤ x) (θ : ℝ)
    (h1 : (a : ℝ) < θ) (h2 : θ < b) : ecdfR xs θ = ecdfR xs a := by
  have hf : xs.filter (fun x : ℚ => decide ((x : ℝ) ≤ θ)) = xs.filter (fun x : ℚ => decide ((x : ℝ) ≤ (a : ℝ))) :=
    List.filter_congr (fun x hx => by simp only [cell_le_iff (hno x hx) h1 h2])
  unfold ecdfR; rw [hf]

theorem underIntegrandR_const (xs : List ℚ) (y a b : ℚ) (hno : ∀ x, x ∈ y :: xs → x ≤ a ∨ b ≤ x) (θ : ℝ)
    (h1 : (a : ℝ) < θ) (h2 : θ < b) : underIntegrandR xs y θ = underIntegrandR xs y a := by
  unfold underIntegrandR
  rw [ecdfR_const xs a b (fun x hx => hno x (List.mem_cons_of_mem _ hx)) θ h1 h2]
  simp only [← not_le, cell_le_iff (hno y (by simp)) h1 h2]

theorem overIntegrandR_const (xs : List ℚ) (y a b : ℚ) (hno : ∀ x, x ∈ y :: xs → x ≤ a ∨ b ≤ x) (θ : ℝ)
    (h1 : (a : ℝ) < θ) (h2 : θ < b) : overIntegrandR xs y θ = overIntegrandR xs y a := by
  unfold overIntegrandR heavisideR
  rw [ecdfR_const xs a b (fun x hx => hno x (List.mem_cons_of_mem _ hx)) θ h1 h2]
  simp only [cell_le_iff (hno y (by simp)) h1 h2]

theorem spreadIntegrandR_const (xs : List ℚ) (y a b : ℚ) (hno : ∀ x, x ∈ y :: xs → x ≤ a ∨ b ≤ x) (θ : ℝ)
    (h1 : (a : ℝ) < θ) (h2 : θ < b) : spreadIntegrandR xs θ = spreadIntegrandR xs a := by
  unfold spreadIntegrandR
  rw [ecdfR_const xs a b (fun x hx => hno x (List.mem_cons_of_mem _ hx)) θ h1 h2]

/-- left of every member F_ens = 0 -/
theorem ecdfR_zero_left (xs : List ℚ) (θ : ℝ) (h : ∀ x ∈ xs, θ < (x : ℝ)) : ecdfR xs θ = 0 := by
  have hf : xs.filter (fun x : ℚ => decide ((x : ℝ) ≤ θ)) = [] :=
    List.filter_eq_nil_iff.mpr (fun x hx' => by simpa using h x hx')
  unfold ecdfR; rw [hf]; simp

/-- right of every member F_ens = 1 -/
theorem ecdfR_one_right {xs : List ℚ} (hx : xs ≠ []) (θ : ℝ) (h : ∀ x ∈ xs, (x : ℝ) ≤ θ) : ecdfR xs θ = 1 := by
  have hf : xs.filter (fun x : ℚ => decide ((x : ℝ) ≤ θ)) = xs :=
    List.filter_eq_self.mpr (fun x hx' => by simpa using h x hx')
  have hM : (xs.length : ℝ) ≠ 0 := by
    have : xs.length ≠ 0 := by simpa using hx
    exact_mod_cast this
  unfold ecdfR; rw [hf, div_self hM]

/-! ## 2. a generic bridge on the grid of a point list -/

/-- if `F` agrees with `f` on ℚ and is constant (= value at the left end) on every open cell free of points of `pts`,
    the step integral of `f` on `grid pts` is the Lebesgue integral of `F` over the hull of `pts` -/
theorem stepIntegral_grid_eq_lebesgue (pts : List ℚ) (f : ℚ → ℚ) (F : ℝ → ℝ) (hF : ∀ t : ℚ, F t = f t)
    (hc : ∀ lo hi : ℚ, (∀ x, x ∈ pts → x ≤ lo ∨ hi ≤ x) → ∀ θ : ℝ, (lo : ℝ) < θ → θ < hi → F θ = F lo)
    (p : ℚ) (g : List ℚ) (hg : grid pts = p :: g) :
    IntervalIntegrable F volume p (lastOr p g) ∧
      ((stepIntegral f (grid pts) : ℚ) : ℝ) = ∫ t in (p : ℝ)..(lastOr p g : ℝ), F t := by
  rw [hg]
  apply stepIntegral_eq_intervalIntegral _ _ hF
  have hs := SV.Lemmas.CrpsEns.pairwise_grid pts
  rw [hg] at hs
  refine (sorted_chain_noInside (fun x => x ∈ pts) g p hs ?_).imp ?_
  · intro x hx
    have : x ∈ grid pts := SV.Lemmas.CrpsEns.mem_grid.mpr hx
    rw [hg] at this
    rcases List.mem_cons.mp this with rfl | h
    · exact Or.inl le_rfl
    · exact Or.inr h
  · rintro lo hi ⟨hab, hno⟩
    exact ⟨hab, hc lo hi hno⟩

/-! ## 3. unweighted components -/

/-- ∫ 1{t<y} F_ens (step) = ∫_p^y F_ens, p = smallest of members ∪ {y} -/
theorem underIntegral_eq_lebesgue (xs : List ℚ) (y p : ℚ) (g : List ℚ) (hg : grid (y :: xs) = p :: g) :
    IntervalIntegrable (ecdfR xs) volume p y ∧
      ((stepIntegral (underIntegrand xs y) (grid (y :: xs)) : ℚ) : ℝ) = ∫ t in (p : ℝ)..(y : ℝ), ecdfR xs t := by
  obtain ⟨hi, he⟩ := stepIntegral_grid_eq_lebesgue (y :: xs) (underIntegrand xs y) (underIntegrandR xs y)
    (underIntegrandR_cast xs y) (underIntegrandR_const xs y) p g hg
  have hy := grid_hull hg (x := y) (by simp)
  have hA : (p : ℝ) ≤ y := by exact_mod_cast hy.1
  have hB : (y : ℝ) ≤ lastOr p g := by exact_mod_cast hy.2
  obtain ⟨hi', he'⟩ := integral_restrict_support (F := ecdfR xs) le_rfl hA hB
    (fun t h h' => absurd (lt_trans h h') (lt_irrefl _))
    (fun t _ h' => by unfold underIntegrandR; simp [h'])
    (fun t h _ => by unfold underIntegrandR; simp [not_lt.mpr h.le]) hi
  exact ⟨hi', by rw [he, he']⟩

/-- … = ∫_{(−∞, y]} F_ens (left of all members F_ens = 0) -/
theorem underIntegral_eq_improper (xs : List ℚ) (y : ℚ) :
    IntegrableOn (ecdfR xs) (Iic (y : ℝ)) volume ∧
      ((stepIntegral (underIntegrand xs y) (grid (y :: xs)) : ℚ) : ℝ) = ∫ t in Iic (y : ℝ), ecdfR xs t := by
  rcases hgr : grid (y :: xs) with _ | ⟨p, g⟩
  · have : y ∈ grid (y :: xs) := SV.Lemmas.CrpsEns.mem_grid.mpr (by simp)
    rw [hgr] at this; simp at this
  obtain ⟨hi, he⟩ := underIntegral_eq_lebesgue xs y p g hgr
  have hA : (p : ℝ) ≤ y := by exact_mod_cast (grid_hull hgr (x := y) (by simp)).1
  obtain ⟨hi', he'⟩ := integral_Iic_of_zero_left hA hi (fun t ht => ecdfR_zero_left xs t (fun x hx => by
    have : (p : ℝ) ≤ x := by exact_mod_cast (grid_hull hgr (x := x) (List.mem_cons_of_mem _ hx)).1
    linarith))
  exact ⟨hi', by rw [← hgr, he, he']⟩

/-- ∫ 1{y≤t} (1 − F_ens) (step) = ∫_y^U (1 − F_ens), U = largest of members ∪ {y} -/
theorem overIntegral_eq_lebesgue (xs : List ℚ) (y p : ℚ) (g : List ℚ) (hg : grid (y :: xs) = p :: g) :
    IntervalIntegrable (fun t => 1 - ecdfR xs t) volume y (lastOr p g) ∧
      ((stepIntegral (overIntegrand xs y) (grid (y :: xs)) : ℚ) : ℝ)
        = ∫ t in (y : ℝ)..(lastOr p g : ℝ), (1 - ecdfR xs t) := by
  obtain ⟨hi, he⟩ := stepIntegral_grid_eq_lebesgue (y :: xs) (overIntegrand xs y) (overIntegrandR xs y)
    (overIntegrandR_cast xs y) (overIntegrandR_const xs y) p g hg
  have hy := grid_hull hg (x := y) (by simp)
  have hA : (p : ℝ) ≤ y := by exact_mod_cast hy.1
  have hB : (y : ℝ) ≤ lastOr p g := by exact_mod_cast hy.2
  obtain ⟨hi', he'⟩ := integral_restrict_support (F := fun t => 1 - ecdfR xs t) hA hB le_rfl
    (fun t _ h => by unfold overIntegrandR heavisideR; simp [not_le.mpr h])
    (fun t h _ => by unfold overIntegrandR heavisideR; simp [h.le])
    (fun t h h' => absurd (lt_of_lt_of_le h h') (lt_irrefl _)) hi
  exact ⟨hi', by rw [he, he']⟩

/-- … = ∫_{(y, ∞)} (1 − F_ens) (right of all members F_ens = 1) -/
theorem overIntegral_eq_improper {xs : List ℚ} (hx : xs ≠ []) (y : ℚ) :
    IntegrableOn (fun t => 1 - ecdfR xs t) (Ioi (y : ℝ)) volume ∧
      ((stepIntegral (overIntegrand xs y) (grid (y :: xs)) : ℚ) : ℝ) = ∫ t in Ioi (y : ℝ), (1 - ecdfR xs t) := by
  rcases hgr : grid (y :: xs) with _ | ⟨p, g⟩
  · have : y ∈ grid (y :: xs) := SV.Lemmas.CrpsEns.mem_grid.mpr (by simp)
    rw [hgr] at this; simp at this
  obtain ⟨hi, he⟩ := overIntegral_eq_lebesgue xs y p g hgr
  have hB : (y : ℝ) ≤ lastOr p g := by exact_mod_cast (grid_hull hgr (x := y) (by simp)).2
  obtain ⟨hi', he'⟩ := integral_Ioi_of_zero_right hB hi (fun t ht => by
    rw [ecdfR_one_right hx t (fun x hx' => by
      have : (x : ℝ) ≤ lastOr p g := by exact_mod_cast (grid_hull hgr (x := x) (List.mem_cons_of_mem _ hx')).2
      linarith)]
    ring)
  exact ⟨hi', by rw [← hgr, he, he']⟩

/-- ∫ F_ens (1 − F_ens) (step) = the Lebesgue integral over the hull -/
theorem spreadIntegral_eq_lebesgue (xs : List ℚ) (y p : ℚ) (g : List ℚ) (hg : grid (y :: xs) = p :: g) :
    IntervalIntegrable (spreadIntegrandR xs) volume p (lastOr p g) ∧
      ((stepIntegral (spreadIntegrand xs) (grid (y :: xs)) : ℚ) : ℝ)
        = ∫ t in (p : ℝ)..(lastOr p g : ℝ), spreadIntegrandR xs t :=
  stepIntegral_grid_eq_lebesgue (y :: xs) (spreadIntegrand xs) (spreadIntegrandR xs)
    (spreadIntegrandR_cast xs) (spreadIntegrandR_const xs y) p g hg

/-! ## 4. weighted components: Lebesgue integrals over the hull of thresholds ∪ {y} ∪ members -/

theorem tw_cast {f : ℚ → ℚ} {F : ℝ → ℝ} (hF : ∀ t : ℚ, F t = f t) (a b : Option ℚ) (t : ℚ) :
    weightOnR a b t * F t = ((weightOn a b t * f t : ℚ) : ℝ) := by
  rw [weightOnR_cast, hF]; push_cast; rfl

theorem tw_const {F : ℝ → ℝ} {pts : List ℚ}
    (hc : ∀ lo hi : ℚ, (∀ x, x ∈ pts → x ≤ lo ∨ hi ≤ x) → ∀ θ : ℝ, (lo : ℝ) < θ → θ < hi → F θ = F lo)
    (a b : Option ℚ) (lo hi : ℚ) (hno : ∀ x, x ∈ optPts a b ++ pts → x ≤ lo ∨ hi ≤ x) (θ : ℝ)
    (h1 : (lo : ℝ) < θ) (h2 : θ < hi) : weightOnR a b θ * F θ = weightOnR a b lo * F lo := by
  rw [weightOnR_const a b lo hi (fun x hx => hno x (List.mem_append_left _ hx)) θ h1 h2,
    hc lo hi (fun x hx => hno x (List.mem_append_right _ hx)) θ h1 h2]

theorem twUnderIntegral_eq_lebesgue (a b : Option ℚ) (xs : List ℚ) (y p : ℚ) (g : List ℚ)
    (hg : grid (optPts a b ++ y :: xs) = p :: g) :
    IntervalIntegrable (fun t => weightOnR a b t * underIntegrandR xs y t) volume p (lastOr p g) ∧
      ((twUnderIntegral a b xs y : ℚ) : ℝ)
        = ∫ t in (p : ℝ)..(lastOr p g : ℝ), weightOnR a b t * underIntegrandR xs y t :=
  stepIntegral_grid_eq_lebesgue (optPts a b ++ y :: xs) (fun t => weightOn a b t * underIntegrand xs y t)
    (fun t => weightOnR a b t * underIntegrandR xs y t) (tw_cast (underIntegrandR_cast xs y) a b)
    (tw_const (underIntegrandR_const xs y) a b) p g hg

theorem twOverIntegral_eq_lebesgue (a b : Option ℚ) (xs : List ℚ) (y p : ℚ) (g : List ℚ)
    (hg : grid (optPts a b ++ y :: xs) = p :: g) :
    IntervalIntegrable (fun t => weightOnR a b t * overIntegrandR xs y t) volume p (lastOr p g) ∧
      ((twOverIntegral a b xs y : ℚ) : ℝ)
        = ∫ t in (p : ℝ)..(lastOr p g : ℝ), weightOnR a b t * overIntegrandR xs y t :=
  stepIntegral_grid_eq_lebesgue (optPts a b ++ y :: xs) (fun t => weightOn a b t * overIntegrand xs y t)
    (fun t => weightOnR a b t * overIntegrandR xs y t) (tw_cast (overIntegrandR_cast xs y) a b)
    (tw_const (overIntegrandR_const xs y) a b) p g hg

/-- interval weight, a ≤ b: ∫_a^b of the bare under / over integrands -/
theorem tw_interval_restrict {a b : ℚ} (hab : a ≤ b) {G : ℝ → ℝ} {xs : List ℚ} {y p : ℚ} {g : List ℚ}
    (hg : grid (optPts (some a) (some b) ++ y :: xs) = p :: g)
    (hi : IntervalIntegrable (fun t => weightOnR (some a) (some b) t * G t) volume p (lastOr p g)) :
    IntervalIntegrable G volume a b ∧
      ∫ t in (p : ℝ)..(lastOr p g : ℝ), weightOnR (some a) (some b) t * G t = ∫ t in (a : ℝ)..(b : ℝ), G t := by
  have ha := grid_hull hg (x := a) (by simp [optPts])
  have hb := grid_hull hg (x := b) (by simp [optPts])
  have hA : (p : ℝ) ≤ a := by exact_mod_cast ha.1
  have hAB : (a : ℝ) ≤ b := by exact_mod_cast hab
  have hB : (b : ℝ) ≤ lastOr p g := by exact_mod_cast hb.2
  exact integral_restrict_support (F := G) hA hAB hB
    (fun t _ h => by unfold weightOnR; simp [not_le.mpr h])
    (fun t h h' => by unfold weightOnR; simp [h.le, h'])
    (fun t h _ => by unfold weightOnR; simp [not_lt.mpr h.le]) hi

theorem twUnderIntegral_interval_eq_lebesgue {a b : ℚ} (hab : a ≤ b) (xs : List ℚ) (y : ℚ) :
    IntervalIntegrable (underIntegrandR xs y) volume a b ∧
      ((twUnderIntegral (some a) (some b) xs y : ℚ) : ℝ) = ∫ t in (a : ℝ)..(b : ℝ), underIntegrandR xs y t := by
  rcases hgr : grid (optPts (some a) (some b) ++ y :: xs) with _ | ⟨p, g⟩
  · have : a ∈ grid (optPts (some a) (some b) ++ y :: xs) := SV.Lemmas.CrpsEns.mem_grid.mpr (by simp [optPts])
    rw [hgr] at this; simp at this
  obtain ⟨hi, he⟩ := twUnderIntegral_eq_lebesgue (some a) (some b) xs y p g hgr
  obtain ⟨hi', he'⟩ := tw_interval_restrict hab hgr hi
  exact ⟨hi', by rw [he, he']⟩

theorem twOverIntegral_interval_eq_lebesgue {a b : ℚ} (hab : a ≤ b) (xs : List ℚ) (y : ℚ) :
    IntervalIntegrable (overIntegrandR xs y) volume a b ∧
      ((twOverIntegral (some a) (some b) xs y : ℚ) : ℝ) = ∫ t in (a : ℝ)..(b : ℝ), overIntegrandR xs y t := by
  rcases hgr : grid (optPts (some a) (some b) ++ y :: xs) with _ | ⟨p, g⟩
  · have : a ∈ grid (optPts (some a) (some b) ++ y :: xs) := SV.Lemmas.CrpsEns.mem_grid.mpr (by simp [optPts])
    rw [hgr] at this; simp at this
  obtain ⟨hi, he⟩ := twOverIntegral_eq_lebesgue (some a) (some b) xs y p g hgr
  obtain ⟨hi', he'⟩ := tw_interval_restrict hab hgr hi
  exact ⟨hi', by rw [he, he']⟩

end SV.Bridge
