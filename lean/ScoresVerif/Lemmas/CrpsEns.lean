/-
  Helper lemmas for C06: step-function calculus on a sorted grid, the three-point identity, list-sum algebra,
  and the evaluation of the `Fl` model on finite inputs.
-/
import ScoresVerif.Model.CrpsEns
import ScoresVerif.Spec.CrpsEns
import ScoresVerif.Lemmas.FlBasic
import Mathlib.Algebra.BigOperators.Group.List.Basic
import Mathlib.Algebra.BigOperators.Ring.List
import Mathlib.Algebra.Order.BigOperators.Group.List
import Mathlib.Data.List.Perm.Basic

namespace SV.Lemmas.CrpsEns
open SV SV.Spec.CrpsEns

/-! ## 1. sorted grid -/

theorem mem_insertU {a x : Rat} : ∀ {l : List Rat}, x ∈ insertU a l ↔ x = a ∨ x ∈ l
  | [] => by simp [insertU]
  | b :: l => by
    unfold insertU
    split_ifs with h1 h2
    · simp
    · subst h2; simp
    · simp only [List.mem_cons, mem_insertU (l := l)]; tauto

theorem pairwise_insertU (a : Rat) : ∀ {l : List Rat}, l.Pairwise (· < ·) → (insertU a l).Pairwise (· < ·)
  | [], _ => by simp [insertU]
  | b :: l, h => by
    unfold insertU
    have hb := List.pairwise_cons.mp h
    split_ifs with h1 h2
    · refine List.pairwise_cons.mpr ⟨?_, h⟩
      intro x hx
      rcases List.mem_cons.mp hx with rfl | hx
      · exact h1
      · exact lt_trans h1 (hb.1 x hx)
    · exact h
    · refine List.pairwise_cons.mpr ⟨?_, pairwise_insertU a hb.2⟩
      intro x hx
      rcases mem_insertU.mp hx with rfl | hx
      · exact lt_of_le_of_ne (not_lt.mp h1) (Ne.symm h2)
      · exact hb.1 x hx

theorem mem_grid {x : Rat} : ∀ {pts : List Rat}, x ∈ grid pts ↔ x ∈ pts
  | [] => by simp [grid]
  | a :: l => by
    have := mem_grid (x := x) (pts := l)
    simp only [grid, List.foldr_cons, List.mem_cons] at this ⊢
    rw [mem_insertU, this]

theorem pairwise_grid : ∀ (pts : List Rat), (grid pts).Pairwise (· < ·)
  | [] => by simp [grid]
  | a :: l => by
    simp only [grid, List.foldr_cons]
    exact pairwise_insertU a (pairwise_grid l)

/-! ## 2. step integral: linearity, congruence, indicator of a grid cell range -/

theorem stepIntegral_congr {f h : Rat → Rat} : ∀ {g : List Rat}, (∀ t ∈ g, f t = h t) →
    stepIntegral f g = stepIntegral h g
  | [], _ => rfl
  | [_], _ => rfl
  | p :: q :: rest, H => by
    simp only [stepIntegral]
    rw [H p (by simp), stepIntegral_congr (g := q :: rest) (fun t ht => H t (List.mem_cons_of_mem _ ht))]

theorem stepIntegral_zero : ∀ (g : List Rat), stepIntegral (fun _ => 0) g = 0
  | [] => rfl
  | [_] => rfl
  | p :: q :: rest => by simp [stepIntegral, stepIntegral_zero (q :: rest)]

theorem stepIntegral_add (f h : Rat → Rat) : ∀ (g : List Rat),
    stepIntegral (fun t => f t + h t) g = stepIntegral f g + stepIntegral h g
  | [] => by simp [stepIntegral]
  | [_] => by simp [stepIntegral]
  | p :: q :: rest => by simp only [stepIntegral, stepIntegral_add f h (q :: rest)]; ring

theorem stepIntegral_smul (c : Rat) (f : Rat → Rat) : ∀ (g : List Rat),
    stepIntegral (fun t => c * f t) g = c * stepIntegral f g
  | [] => by simp [stepIntegral]
  | [_] => by simp [stepIntegral]
  | p :: q :: rest => by simp only [stepIntegral, stepIntegral_smul c f (q :: rest)]; ring

theorem stepIntegral_listSum {α : Type} (F : α → Rat → Rat) (g : List Rat) : ∀ (l : List α),
    stepIntegral (fun t => (l.map fun a => F a t).sum) g = (l.map fun a => stepIntegral (F a) g).sum
  | [] => by simp [stepIntegral_zero]
  | a :: l => by
    simp only [List.map_cons, List.sum_cons]
    rw [stepIntegral_add (F a) (fun t => (l.map fun a => F a t).sum) g, stepIntegral_listSum F g l]

theorem stepIntegral_nonneg {f : Rat → Rat} (hf : ∀ t, 0 ≤ f t) : ∀ {g : List Rat}, g.Pairwise (· < ·) →
    0 ≤ stepIntegral f g
  | [], _ => le_refl _
  | [_], _ => le_refl _
  | p :: q :: rest, H => by
    simp only [stepIntegral]
    have h1 := List.pairwise_cons.mp H
    have : 0 ≤ (q - p) * f p := mul_nonneg (by linarith [h1.1 q (by simp)]) (hf p)
    linarith [stepIntegral_nonneg hf h1.2]

/-- indicator of `[lo, hi)` -/
def ind (lo hi t : Rat) : Rat := if lo ≤ t ∧ t < hi then 1 else 0

theorem ind_empty (lo t : Rat) : ind lo lo t = 0 := by
  unfold ind; split_ifs with h
  · exact absurd h.2 (not_lt.mpr h.1)
  · rfl

/-- ∫ 1[lo,hi) = hi − lo on any sorted grid that contains both end points -/
theorem stepIntegral_ind {hi : Rat} : ∀ {g : List Rat} {lo : Rat}, g.Pairwise (· < ·) → lo ∈ g → hi ∈ g → lo ≤ hi →
    stepIntegral (ind lo hi) g = hi - lo
  | [], _, _, h, _, _ => by simp at h
  | [p], lo, _, hlo, hhi, _ => by
    simp only [List.mem_singleton] at hlo hhi
    subst hlo; subst hhi; simp [stepIntegral]
  | p :: q :: rest, lo, H, hlo, hhi, hle => by
    have h1 := List.pairwise_cons.mp H
    have hpq : p < q := h1.1 q (by simp)
    simp only [stepIntegral]
    rcases List.mem_cons.mp hlo with rfl | hlo'
    · -- lo = p
      rcases List.mem_cons.mp hhi with rfl | hhi'
      · -- hi = lo: empty
        have : stepIntegral (ind hi hi) (q :: rest) = stepIntegral (fun _ => 0) (q :: rest) :=
          stepIntegral_congr (fun t _ => ind_empty hi t)
        rw [this, stepIntegral_zero, ind_empty]; ring
      · have hlt : lo < hi := h1.1 hi hhi'
        have e1 : ind lo hi lo = 1 := by simp [ind, hlt]
        have hq_le : q ≤ hi := by
          rcases List.mem_cons.mp hhi' with rfl | h3
          · exact le_refl _
          · exact le_of_lt ((List.pairwise_cons.mp h1.2).1 hi h3)
        have e2 : stepIntegral (ind lo hi) (q :: rest) = stepIntegral (ind q hi) (q :: rest) := by
          apply stepIntegral_congr
          intro t ht
          have hqt : q ≤ t := by
            rcases List.mem_cons.mp ht with rfl | h3
            · exact le_refl _
            · exact le_of_lt ((List.pairwise_cons.mp h1.2).1 t h3)
          have : lo ≤ t := le_of_lt (lt_of_lt_of_le hpq hqt)
          simp [ind, this, hqt]
        rw [e1, e2, stepIntegral_ind h1.2 (by simp) hhi' hq_le]; ring
    · have hplo : p < lo := h1.1 lo hlo'
      have hhi' : hi ∈ q :: rest := by
        rcases List.mem_cons.mp hhi with rfl | h3
        · exact absurd hle (not_le.mpr hplo)
        · exact h3
      have e1 : ind lo hi p = 0 := by simp [ind, not_le.mpr hplo]
      rw [e1, stepIntegral_ind h1.2 hlo' hhi' hle]; ring


/-! ## 3. the three-point identity -/

/-- ∫ (1[a≤t] − 1[y≤t]) (1[b≤t] − 1[y≤t]) dt in closed form -/
def K (a b y : Rat) : Rat :=
  if a < y ∧ b < y then y - max a b
  else if y < a ∧ y < b then min a b - y
  else 0

theorem three_point (a b y : Rat) : K a b y = (|a - y| + |b - y| - |a - b|) / 2 := by
  unfold K
  rcases le_total a y with h1 | h1 <;> rcases le_total b y with h2 | h2 <;> rcases le_total a b with h3 | h3 <;>
    simp only [abs_of_nonneg, abs_of_nonpos, sub_nonneg, sub_nonpos, h1, h2, h3, max_def, min_def] <;>
    split_ifs
  all_goals (try simp only [not_and_or, not_lt] at *)
  all_goals first
    | linarith
    | (exfalso; linarith)
    | (rename_i hA hB; rcases hA with hA | hA <;> rcases hB with hB | hB <;> linarith)
    | (rename_i hA; rcases hA with hA | hA <;> linarith)
    | (rename_i hA; obtain ⟨hA, hA'⟩ := hA; linarith)

theorem K_nonneg (a b y : Rat) : 0 ≤ K a b y := by
  unfold K
  split_ifs with h1 h2
  · have := max_lt h1.1 h1.2; linarith
  · have := lt_min h2.1 h2.2; linarith
  · exact le_refl _

theorem K_self (a y : Rat) : K a a y = |a - y| := by
  rw [three_point]; simp

/-- difference of the two indicator CDFs at t -/
def dd (a y t : Rat) : Rat := (if a ≤ t then 1 else 0) - heaviside y t

theorem dd_mul_dd (a b y t : Rat) : dd a y t * dd b y t =
    if a < y ∧ b < y then ind (max a b) y t else if y < a ∧ y < b then ind y (min a b) t else 0 := by
  unfold dd heaviside ind
  by_cases h1 : a ≤ t <;> by_cases h2 : b ≤ t <;> by_cases h3 : y ≤ t <;>
    simp only [h1, h2, h3, max_le_iff, lt_min_iff, true_and, and_true, and_false, false_and] <;>
    split_ifs <;> first | (norm_num; done) | (exfalso; grind)


/-! ## 4. list-sum algebra -/

theorem sum_map_sub_const (f : Rat → Rat) (c : Rat) : ∀ (l : List Rat),
    (l.map fun a => f a - c).sum = (l.map f).sum - l.length * c
  | [] => by simp
  | a :: l => by simp only [List.map_cons, List.sum_cons, List.length_cons, sum_map_sub_const f c l]; push_cast; ring

theorem filter_length_eq_sum (p : Rat → Bool) : ∀ (l : List Rat),
    ((l.filter p).length : Rat) = (l.map fun a => if p a then (1 : Rat) else 0).sum
  | [] => by simp
  | a :: l => by
    by_cases h : p a <;> simp [List.filter_cons, h, filter_length_eq_sum p l] <;> ring

theorem sum_map_congr {α : Type} {f g : α → Rat} : ∀ {l : List α}, (∀ a ∈ l, f a = g a) → (l.map f).sum = (l.map g).sum
  | [], _ => rfl
  | a :: l, H => by
    simp only [List.map_cons, List.sum_cons]
    rw [H a (by simp), sum_map_congr (l := l) (fun b hb => H b (List.mem_cons_of_mem _ hb))]

theorem sum_map_const_add (c : Rat) (f : Rat → Rat) : ∀ (l : List Rat),
    (l.map fun b => c + f b).sum = l.length * c + (l.map f).sum
  | [] => by simp
  | a :: l => by simp only [List.map_cons, List.sum_cons, List.length_cons, sum_map_const_add c f l]; push_cast; ring

theorem sum_map_add' (f h : Rat → Rat) : ∀ (l : List Rat),
    (l.map fun b => f b + h b).sum = (l.map f).sum + (l.map h).sum
  | [] => by simp
  | a :: l => by simp only [List.map_cons, List.sum_cons, sum_map_add' f h l]; ring

theorem sum_map_sub' (f h : Rat → Rat) : ∀ (l : List Rat),
    (l.map fun b => f b - h b).sum = (l.map f).sum - (l.map h).sum
  | [] => by simp
  | a :: l => by simp only [List.map_cons, List.sum_cons, sum_map_sub' f h l]; ring

theorem sum_map_mul_const (f : Rat → Rat) (c : Rat) : ∀ (l : List Rat),
    (l.map fun b => f b * c).sum = (l.map f).sum * c
  | [] => by simp
  | a :: l => by simp only [List.map_cons, List.sum_cons, sum_map_mul_const f c l]; ring

theorem sum_map_const_mul (f : Rat → Rat) (c : Rat) : ∀ (l : List Rat),
    (l.map fun b => c * f b).sum = c * (l.map f).sum
  | [] => by simp
  | a :: l => by simp only [List.map_cons, List.sum_cons, sum_map_const_mul f c l]; ring

theorem sum_map_const (c : Rat) : ∀ (l : List Rat), (l.map fun _ => c).sum = l.length * c
  | [] => by simp
  | a :: l => by simp only [List.map_cons, List.sum_cons, List.length_cons, sum_map_const c l]; push_cast; ring

/-! ## 5. kernel form, K-form and integral form of the ensemble CRPS -/

def absSum (xs : List Rat) (y : Rat) : Rat := (xs.map fun x => |x - y|).sum
def pairAbs (xs : List Rat) : Rat := (xs.map fun a => (xs.map fun b => |a - b|).sum).sum
/-- kernel form with the 'ecdf' normalisation -/
def kernelEcdf (xs : List Rat) (y : Rat) : Rat :=
  absSum xs y / xs.length - pairAbs xs / (2 * (xs.length : Rat) ^ 2)
/-- kernel form with the 'fair' normalisation -/
def kernelFair (xs : List Rat) (y : Rat) : Rat :=
  absSum xs y / xs.length - pairAbs xs / (2 * (xs.length : Rat) * ((xs.length : Rat) - 1))
def KK (xs : List Rat) (y : Rat) : Rat := (xs.map fun a => (xs.map fun b => K a b y).sum).sum

theorem pairSum_eq (xs : List Rat) : pairSum xs = pairAbs xs := by
  unfold pairSum pairAbs; simp only [rabs_eq_abs]

theorem KK_eq (xs : List Rat) (y : Rat) : KK xs y = xs.length * absSum xs y - pairAbs xs / 2 := by
  unfold KK absSum pairAbs
  have inner : ∀ a, (xs.map fun b => K a b y).sum =
      (xs.length * |a - y| + (xs.map fun b => |b - y|).sum - (xs.map fun b => |a - b|).sum) / 2 := by
    intro a
    have : (fun b => K a b y) = fun b => ((|a - y| + |b - y|) - |a - b|) * (1 / 2) := by
      funext b; rw [three_point]; ring
    rw [this, sum_map_mul_const, sum_map_sub', sum_map_const_add]; ring
  simp only [inner]
  have : (fun a => ((xs.length : Rat) * |a - y| + (xs.map fun b => |b - y|).sum - (xs.map fun b => |a - b|).sum) / 2)
      = fun a => (((xs.map fun b => |b - y|).sum + (xs.length : Rat) * |a - y|) - (xs.map fun b => |a - b|).sum) * (1 / 2) := by
    funext a; ring
  rw [this, sum_map_mul_const, sum_map_sub', sum_map_const_add, sum_map_const_mul]; ring

theorem ecdf_sub_heaviside (xs : List Rat) (y t : Rat) :
    ecdf xs t - heaviside y t * ((xs.length : Rat) / xs.length) = (xs.map fun a => dd a y t).sum / xs.length := by
  unfold ecdf dd
  rw [filter_length_eq_sum, sum_map_sub_const]
  simp only [decide_eq_true_eq]
  ring

theorem integrand_eq {xs : List Rat} (hx : xs ≠ []) (y t : Rat) :
    integrand xs y t = (1 / (xs.length : Rat) ^ 2) * (xs.map fun a => (xs.map fun b => dd a y t * dd b y t).sum).sum := by
  have hM : (xs.length : Rat) ≠ 0 := by
    have : xs.length ≠ 0 := by simpa using hx
    exact_mod_cast this
  have h := ecdf_sub_heaviside xs y t
  rw [div_self hM, mul_one] at h
  unfold integrand
  rw [h]
  have e : (xs.map fun a => (xs.map fun b => dd a y t * dd b y t).sum).sum
      = (xs.map fun a => dd a y t).sum * (xs.map fun a => dd a y t).sum := by
    have : (fun a => (xs.map fun b => dd a y t * dd b y t).sum) = fun a => dd a y t * (xs.map fun b => dd b y t).sum := by
      funext a; rw [sum_map_const_mul]
    rw [this, sum_map_mul_const]
  rw [e]; field_simp

theorem stepIntegral_dd {g : List Rat} (hg : g.Pairwise (· < ·)) {a b y : Rat} (ha : a ∈ g) (hb : b ∈ g) (hy : y ∈ g) :
    stepIntegral (fun t => dd a y t * dd b y t) g = K a b y := by
  have e : (fun t => dd a y t * dd b y t) = fun t =>
      if a < y ∧ b < y then ind (max a b) y t else if y < a ∧ y < b then ind y (min a b) t else 0 := by
    funext t; exact dd_mul_dd a b y t
  rw [e]; unfold K
  split_ifs with h1 h2
  · have hm : max a b ∈ g := by rcases max_choice a b with h | h <;> rw [h] <;> assumption
    exact stepIntegral_ind hg hm hy (le_of_lt (max_lt h1.1 h1.2))
  · have hm : min a b ∈ g := by rcases min_choice a b with h | h <;> rw [h] <;> assumption
    exact stepIntegral_ind hg hy hm (le_of_lt (lt_min h2.1 h2.2))
  · exact stepIntegral_zero g

theorem crpsIntegral_eq_KK {xs : List Rat} (hx : xs ≠ []) (y : Rat) :
    crpsIntegral xs y = KK xs y / (xs.length : Rat) ^ 2 := by
  unfold crpsIntegral
  have e : integrand xs y = fun t =>
      (1 / (xs.length : Rat) ^ 2) * (xs.map fun a => (xs.map fun b => dd a y t * dd b y t).sum).sum := by
    funext t; exact integrand_eq hx y t
  rw [e, stepIntegral_smul, stepIntegral_listSum (fun a t => (xs.map fun b => dd a y t * dd b y t).sum)]
  have hg := pairwise_grid (y :: xs)
  have hy : y ∈ grid (y :: xs) := mem_grid.mpr (by simp)
  have inner : ∀ a ∈ xs, stepIntegral (fun t => (xs.map fun b => dd a y t * dd b y t).sum) (grid (y :: xs))
      = (xs.map fun b => K a b y).sum := by
    intro a ha
    rw [stepIntegral_listSum (fun b t => dd a y t * dd b y t)]
    apply sum_map_congr
    intro b hb
    exact stepIntegral_dd hg (mem_grid.mpr (by simp [ha])) (mem_grid.mpr (by simp [hb])) hy
  rw [sum_map_congr inner]; unfold KK; ring

/-- **kernel form = exact integral** of (F_ens − H_y)² -/
theorem kernelEcdf_eq_integral {xs : List Rat} (hx : xs ≠ []) (y : Rat) :
    kernelEcdf xs y = crpsIntegral xs y := by
  have hM : (xs.length : Rat) ≠ 0 := by
    have : xs.length ≠ 0 := by simpa using hx
    exact_mod_cast this
  rw [crpsIntegral_eq_KK hx, KK_eq]; unfold kernelEcdf
  field_simp

theorem KK_nonneg (xs : List Rat) (y : Rat) : 0 ≤ KK xs y := by
  unfold KK
  apply List.sum_nonneg
  intro v hv
  obtain ⟨a, _, rfl⟩ := List.mem_map.mp hv
  apply List.sum_nonneg
  intro w hw
  obtain ⟨b, _, rfl⟩ := List.mem_map.mp hw
  exact K_nonneg a b y

open SV.Model.CrpsEns

/-! ## 6. the `Fl` model on finite inputs -/

theorem valid_map_fin (l : List Rat) : valid (l.map Fl.fin) = l.map Fl.fin := by
  unfold valid
  apply List.filter_eq_self.mpr
  intro x hx
  obtain ⟨a, _, rfl⟩ := List.mem_map.mp hx
  rfl

theorem foldl_add_fin : ∀ (l : List Rat) (c : Rat), (l.map Fl.fin).foldl Fl.add (Fl.fin c) = Fl.fin (c + l.sum)
  | [], c => by simp
  | a :: l, c => by
    simp only [List.map_cons, List.foldl_cons, Fl.add_fin, foldl_add_fin l (c + a), List.sum_cons]
    rw [add_assoc]

theorem fsum_map_fin (l : List Rat) : fsum (l.map Fl.fin) = Fl.fin l.sum := by
  unfold fsum
  have := foldl_add_fin l 0
  simpa using this

theorem nansum_map_fin (l : List Rat) : nansum (l.map Fl.fin) = Fl.fin l.sum := by
  unfold nansum; rw [valid_map_fin, fsum_map_fin]

theorem count_map_fin (l : List Rat) : count (l.map Fl.fin) = l.length := by
  unfold count; rw [valid_map_fin]; simp

theorem nanmean_map_fin {l : List Rat} (h : l ≠ []) : nanmean (l.map Fl.fin) = Fl.fin (l.sum / l.length) := by
  unfold nanmean
  simp only [valid_map_fin, fsum_map_fin]
  have hM : (l.length : Rat) ≠ 0 := by
    have : l.length ≠ 0 := by simpa using h
    exact_mod_cast this
  simp [h, Fl.ofNat, Fl.div_fin _ _ hM]

theorem spreadRow_fin (xs : List Rat) (a : Rat) :
    spreadRow (xs.map Fl.fin) (Fl.fin a) = Fl.fin ((xs.map fun b => |b - a|).sum) := by
  unfold spreadRow
  rw [List.map_map]
  have : ((fun xj => Fl.abs (Fl.sub xj (Fl.fin a))) ∘ Fl.fin) = Fl.fin ∘ (fun b => |b - a|) := by
    funext b; simp
  rw [this, ← List.map_map, nansum_map_fin]

theorem spreadRaw_fin (xs : List Rat) : spreadRaw (xs.map Fl.fin) = Fl.fin (pairAbs xs) := by
  unfold spreadRaw
  rw [List.map_map]
  have : (spreadRow (xs.map Fl.fin) ∘ Fl.fin) = Fl.fin ∘ (fun a => (xs.map fun b => |a - b|).sum) := by
    funext a; simp only [Function.comp, spreadRow_fin]; simp only [abs_sub_comm]
  rw [this, ← List.map_map, fsum_map_fin]; rfl

theorem ensCount_fin (xs : List Rat) : ensCount (xs.map Fl.fin) = (xs.length : Int) := by
  unfold ensCount; rw [count_map_fin]

theorem fcstObsTerm_fin {xs : List Rat} (hx : xs ≠ []) (y : Rat) :
    fcstObsTerm (xs.map Fl.fin) (Fl.fin y) = Fl.fin (absSum xs y / xs.length) := by
  unfold fcstObsTerm
  rw [List.map_map]
  have : ((fun x => Fl.abs (Fl.sub x (Fl.fin y))) ∘ Fl.fin) = Fl.fin ∘ (fun x => |x - y|) := by
    funext b; simp
  rw [this, ← List.map_map, nanmean_map_fin (by simpa using hx)]
  simp [absSum]

theorem length_ne_zero {xs : List Rat} (hx : xs ≠ []) : (xs.length : Rat) ≠ 0 := by
  have : xs.length ≠ 0 := by simpa using hx
  exact_mod_cast this

theorem spreadTerm_ecdf_fin {xs : List Rat} (hx : xs ≠ []) :
    spreadTerm .ecdf (xs.map Fl.fin) = Fl.fin (pairAbs xs / (2 * (xs.length : Rat) ^ 2)) := by
  unfold spreadTerm spreadDen
  rw [spreadRaw_fin, ensCount_fin]
  have hM := length_ne_zero hx
  have e : Fl.ofInt (2 * (xs.length : Int) ^ 2) = Fl.fin (2 * (xs.length : Rat) ^ 2) := by
    unfold Fl.ofInt; congr 1; push_cast; ring
  rw [e, Fl.div_fin _ _ (by positivity)]

theorem spreadTerm_fair_fin {xs : List Rat} (hx : 2 ≤ xs.length) :
    spreadTerm .fair (xs.map Fl.fin) = Fl.fin (pairAbs xs / (2 * (xs.length : Rat) * ((xs.length : Rat) - 1))) := by
  unfold spreadTerm spreadDen
  rw [spreadRaw_fin, ensCount_fin]
  have h2 : (2 : Rat) ≤ xs.length := by exact_mod_cast hx
  have e : Fl.ofInt (2 * (xs.length : Int) * ((xs.length : Int) - 1)) = Fl.fin (2 * (xs.length : Rat) * ((xs.length : Rat) - 1)) := by
    unfold Fl.ofInt; congr 1; push_cast; ring
  have hne : 2 * (xs.length : Rat) * ((xs.length : Rat) - 1) ≠ 0 := by
    apply mul_ne_zero <;> [apply mul_ne_zero; skip] <;> linarith
  rw [e, Fl.div_fin _ _ hne]

theorem total_ecdf_fin {xs : List Rat} (hx : xs ≠ []) (y : Rat) :
    total .ecdf (xs.map Fl.fin) (Fl.fin y) = Fl.fin (kernelEcdf xs y) := by
  unfold total
  rw [fcstObsTerm_fin hx, spreadTerm_ecdf_fin hx, Fl.sub_fin]; rfl

theorem total_fair_fin {xs : List Rat} (hx : 2 ≤ xs.length) (y : Rat) :
    total .fair (xs.map Fl.fin) (Fl.fin y) = Fl.fin (kernelFair xs y) := by
  unfold total
  have hne : xs ≠ [] := by intro h; simp [h] at hx
  rw [fcstObsTerm_fin hne, spreadTerm_fair_fin hx, Fl.sub_fin]; rfl

theorem total_fair_single (a : Rat) (y : Fl) : total .fair [Fl.fin a] y = Fl.nan := by
  have h := spreadRaw_fin [a]
  simp only [List.map_cons, List.map_nil] at h
  unfold total spreadTerm spreadDen
  rw [h]
  have e : ensCount [Fl.fin a] = 1 := by have := ensCount_fin [a]; simpa using this
  rw [e]
  simp [pairAbs, Fl.ofInt]

/-! ## 7. components on finite inputs -/

def underSum (xs : List Rat) (y : Rat) : Rat := (xs.map fun x => if x < y then y - x else 0).sum
def overSum (xs : List Rat) (y : Rat) : Rat := (xs.map fun x => if y < x then x - y else 0).sum

theorem under_fin {xs : List Rat} (hx : xs ≠ []) (y : Rat) :
    under (xs.map Fl.fin) (Fl.fin y) = Fl.fin (underSum xs y / xs.length) := by
  unfold under
  rw [List.map_map]
  have : ((fun x => Fl.whereB (Fl.whereB (Fl.sub (Fl.fin y) x) (Fl.gt (Fl.fin y) x) (Fl.fin 0)) (mask x (Fl.fin y))) ∘ Fl.fin)
      = Fl.fin ∘ (fun x => if x < y then y - x else 0) := by
    funext b
    by_cases h : b < y <;> simp [Fl.whereB, mask, h]
  rw [this, ← List.map_map, nanmean_map_fin (by simpa using hx)]
  simp [underSum]

theorem over_fin {xs : List Rat} (hx : xs ≠ []) (y : Rat) :
    over (xs.map Fl.fin) (Fl.fin y) = Fl.fin (overSum xs y / xs.length) := by
  unfold over
  rw [List.map_map]
  have : ((fun x => Fl.whereB (Fl.whereB (Fl.sub x (Fl.fin y)) (Fl.gt x (Fl.fin y)) (Fl.fin 0)) (mask x (Fl.fin y))) ∘ Fl.fin)
      = Fl.fin ∘ (fun x => if y < x then x - y else 0) := by
    funext b
    by_cases h : y < b <;> simp [Fl.whereB, mask, h]
  rw [this, ← List.map_map, nanmean_map_fin (by simpa using hx)]
  simp [overSum]

theorem absSum_eq_under_add_over (xs : List Rat) (y : Rat) : absSum xs y = underSum xs y + overSum xs y := by
  unfold absSum underSum overSum
  rw [← sum_map_add']
  apply sum_map_congr
  intro a _
  rcases lt_trichotomy a y with h | h | h
  · simp [h, not_lt.mpr h.le, abs_of_neg (sub_neg.mpr h)]
  · subst h; simp
  · simp [h, not_lt.mpr h.le, abs_of_pos (sub_pos.mpr h)]

theorem spreadComp_fin {xs : List Rat} (hx : xs ≠ []) (m : Method) (y : Rat) :
    spreadComp m (xs.map Fl.fin) (Fl.fin y) = spreadTerm m (xs.map Fl.fin) := by
  unfold spreadComp; rw [fcstObsTerm_fin hx]; simp [Fl.whereB]

theorem fcstObs_eq_under_add_over {xs : List Rat} (hx : xs ≠ []) (y : Rat) :
    fcstObsTerm (xs.map Fl.fin) (Fl.fin y) = Fl.add (under (xs.map Fl.fin) (Fl.fin y)) (over (xs.map Fl.fin) (Fl.fin y)) := by
  rw [fcstObsTerm_fin hx, under_fin hx, over_fin hx, Fl.add_fin, absSum_eq_under_add_over]; congr 1; ring

/-! ## 8. the partition identity and chaining functions -/

theorem min_fin (x a : Rat) : Fl.min (Fl.fin x) (Fl.fin a) = Fl.fin (min x a) := by
  unfold Fl.min; by_cases h : x ≤ a <;> simp [h, min_def]
theorem max_fin (x a : Rat) : Fl.max (Fl.fin x) (Fl.fin a) = Fl.fin (max x a) := by
  unfold Fl.max; by_cases h : x ≤ a <;> simp [h, max_def]

theorem partition_abs {a b : Rat} (hab : a ≤ b) (x y : Rat) :
    |min x a - min y a| + |min (max x a) b - min (max y a) b| + |max x b - max y b| = |x - y| := by
  simp only [max_def, min_def, abs]
  split_ifs <;> linarith

/-- kernel form for either method -/
def kernel (m : Method) (xs : List Rat) (y : Rat) : Rat :=
  match m with
  | .ecdf => kernelEcdf xs y
  | .fair => kernelFair xs y

/-- hypotheses under which the model value is a number: at least one member, two for 'fair' -/
def enough (m : Method) (n : Nat) : Prop :=
  match m with
  | .ecdf => 1 ≤ n
  | .fair => 2 ≤ n

theorem total_fin {m : Method} {xs : List Rat} (h : enough m xs.length) (y : Rat) :
    total m (xs.map Fl.fin) (Fl.fin y) = Fl.fin (kernel m xs y) := by
  cases m
  · have : xs ≠ [] := by intro e; simp [enough, e] at h
    exact total_ecdf_fin this y
  · exact total_fair_fin h y

/-- the kernel is a fixed linear combination of `absSum` and `pairAbs` (coefficients depend on M only) -/
theorem kernel_lin (m : Method) (xs : List Rat) (y : Rat) :
    kernel m xs y = absSum xs y * (1 / xs.length) - pairAbs xs *
      (match m with | .ecdf => 1 / (2 * (xs.length : Rat) ^ 2) | .fair => 1 / (2 * (xs.length : Rat) * ((xs.length : Rat) - 1))) := by
  cases m <;> simp only [kernel, kernelEcdf, kernelFair] <;> ring

theorem absSum_map (v : Rat → Rat) (xs : List Rat) (y : Rat) :
    absSum (xs.map v) (v y) = (xs.map fun x => |v x - v y|).sum := by
  unfold absSum; rw [List.map_map]; rfl

theorem pairAbs_map (v : Rat → Rat) (xs : List Rat) :
    pairAbs (xs.map v) = (xs.map fun a => (xs.map fun b => |v a - v b|).sum).sum := by
  unfold pairAbs; simp only [List.map_map]; rfl

def vLo (a x : Rat) : Rat := min x a
def vMid (a b x : Rat) : Rat := min (max x a) b
def vHi (b x : Rat) : Rat := max x b

theorem absSum_partition {a b : Rat} (hab : a ≤ b) (xs : List Rat) (y : Rat) :
    absSum (xs.map (vLo a)) (vLo a y) + absSum (xs.map (vMid a b)) (vMid a b y) + absSum (xs.map (vHi b)) (vHi b y)
      = absSum xs y := by
  rw [absSum_map, absSum_map, absSum_map, ← sum_map_add', ← sum_map_add']
  unfold absSum
  apply sum_map_congr
  intro x _
  exact partition_abs hab x y

theorem pairAbs_partition {a b : Rat} (hab : a ≤ b) (xs : List Rat) :
    pairAbs (xs.map (vLo a)) + pairAbs (xs.map (vMid a b)) + pairAbs (xs.map (vHi b)) = pairAbs xs := by
  rw [pairAbs_map, pairAbs_map, pairAbs_map, ← sum_map_add', ← sum_map_add']
  unfold pairAbs
  apply sum_map_congr
  intro x _
  rw [← sum_map_add', ← sum_map_add']
  apply sum_map_congr
  intro z _
  exact partition_abs hab x z

theorem kernel_partition (m : Method) {a b : Rat} (hab : a ≤ b) (xs : List Rat) (y : Rat) :
    kernel m (xs.map (vLo a)) (vLo a y) + kernel m (xs.map (vMid a b)) (vMid a b y) + kernel m (xs.map (vHi b)) (vHi b y)
      = kernel m xs y := by
  simp only [kernel_lin, List.length_map]
  rw [← absSum_partition hab xs y, ← pairAbs_partition hab xs]
  ring

theorem map_chainLower (a : Rat) (xs : List Rat) :
    (xs.map Fl.fin).map (chainLower (Fl.fin a)) = (xs.map (vLo a)).map Fl.fin := by
  simp only [List.map_map]; congr 1; funext x; simp [chainLower, vLo, min_fin]
theorem map_chainUpper (b : Rat) (xs : List Rat) :
    (xs.map Fl.fin).map (chainUpper (Fl.fin b)) = (xs.map (vHi b)).map Fl.fin := by
  simp only [List.map_map]; congr 1; funext x; simp [chainUpper, vHi, max_fin]
theorem map_chainInterval (a b : Rat) (xs : List Rat) :
    (xs.map Fl.fin).map (chainInterval (Fl.fin a) (Fl.fin b)) = (xs.map (vMid a b)).map Fl.fin := by
  simp only [List.map_map]; congr 1; funext x; simp [chainInterval, vMid, min_fin, max_fin]

/-! ## 9. invariances of the kernel -/

theorem absSum_translate (c : Rat) (xs : List Rat) (y : Rat) : absSum (xs.map (· + c)) (y + c) = absSum xs y := by
  rw [absSum_map (· + c)]; unfold absSum; apply sum_map_congr; intro x _; congr 1; ring
theorem pairAbs_translate (c : Rat) (xs : List Rat) : pairAbs (xs.map (· + c)) = pairAbs xs := by
  rw [pairAbs_map (· + c)]; unfold pairAbs; apply sum_map_congr; intro x _; apply sum_map_congr; intro z _; congr 1; ring
theorem absSum_scale (c : Rat) (xs : List Rat) (y : Rat) : absSum (xs.map (c * ·)) (c * y) = |c| * absSum xs y := by
  rw [absSum_map (c * ·)]; unfold absSum; rw [← sum_map_const_mul]; apply sum_map_congr; intro x _
  rw [← abs_mul]; congr 1; ring
theorem pairAbs_scale (c : Rat) (xs : List Rat) : pairAbs (xs.map (c * ·)) = |c| * pairAbs xs := by
  rw [pairAbs_map (c * ·)]; unfold pairAbs; rw [← sum_map_const_mul]; apply sum_map_congr; intro x _
  rw [← sum_map_const_mul]; apply sum_map_congr; intro z _
  rw [← abs_mul]; congr 1; ring

theorem kernel_translate (m : Method) (c : Rat) (xs : List Rat) (y : Rat) :
    kernel m (xs.map (· + c)) (y + c) = kernel m xs y := by
  simp only [kernel_lin, List.length_map, absSum_translate, pairAbs_translate]
theorem kernel_scale (m : Method) (c : Rat) (xs : List Rat) (y : Rat) :
    kernel m (xs.map (c * ·)) (c * y) = |c| * kernel m xs y := by
  simp only [kernel_lin, List.length_map, absSum_scale, pairAbs_scale]; ring

/-! ## 10. sign, and zero exactly for a perfect ensemble -/

theorem sum_eq_zero_of_nonneg : ∀ {l : List Rat}, (∀ v ∈ l, 0 ≤ v) → l.sum = 0 → ∀ v ∈ l, v = 0
  | [], _, _ => by simp
  | a :: l, H, hs => by
    have ha : 0 ≤ a := H a (by simp)
    have hl : 0 ≤ l.sum := List.sum_nonneg (fun v hv => H v (List.mem_cons_of_mem _ hv))
    simp only [List.sum_cons] at hs
    have ha0 : a = 0 := by linarith
    have hl0 : l.sum = 0 := by linarith
    intro v hv
    rcases List.mem_cons.mp hv with rfl | hv
    · exact ha0
    · exact sum_eq_zero_of_nonneg (fun v hv => H v (List.mem_cons_of_mem _ hv)) hl0 v hv

theorem kernelEcdf_eq_KK {xs : List Rat} (hx : xs ≠ []) (y : Rat) : kernelEcdf xs y = KK xs y / (xs.length : Rat) ^ 2 := by
  rw [kernelEcdf_eq_integral hx, crpsIntegral_eq_KK hx]

theorem kernelEcdf_nonneg {xs : List Rat} (hx : xs ≠ []) (y : Rat) : 0 ≤ kernelEcdf xs y := by
  rw [kernelEcdf_eq_KK hx]; exact div_nonneg (KK_nonneg xs y) (by positivity)

theorem kernelEcdf_eq_zero_iff {xs : List Rat} (hx : xs ≠ []) (y : Rat) : kernelEcdf xs y = 0 ↔ ∀ x ∈ xs, x = y := by
  have hM := length_ne_zero hx
  constructor
  · intro h
    rw [kernelEcdf_eq_KK hx, div_eq_zero_iff] at h
    have hK : KK xs y = 0 := by
      rcases h with h | h
      · exact h
      · exact absurd (pow_eq_zero_iff (by norm_num) |>.mp h) hM
    intro x hx'
    unfold KK at hK
    have h1 := sum_eq_zero_of_nonneg (l := xs.map fun a => (xs.map fun b => K a b y).sum) (by
      intro v hv; obtain ⟨a, _, rfl⟩ := List.mem_map.mp hv
      apply List.sum_nonneg; intro w hw; obtain ⟨b, _, rfl⟩ := List.mem_map.mp hw; exact K_nonneg a b y) hK
      _ (List.mem_map.mpr ⟨x, hx', rfl⟩)
    have h2 := sum_eq_zero_of_nonneg (l := xs.map fun b => K x b y) (by
      intro w hw; obtain ⟨b, _, rfl⟩ := List.mem_map.mp hw; exact K_nonneg x b y) h1
      _ (List.mem_map.mpr ⟨x, hx', rfl⟩)
    rw [K_self] at h2
    exact sub_eq_zero.mp (abs_eq_zero.mp h2)
  · intro h
    unfold kernelEcdf
    have h1 : absSum xs y = 0 := by
      unfold absSum
      rw [sum_map_congr (g := fun _ => (0 : Rat)) (fun a ha => by rw [h a ha]; simp)]; simp
    have h2 : pairAbs xs = 0 := by
      unfold pairAbs
      rw [sum_map_congr (g := fun _ => (0 : Rat)) (fun a ha => by
        rw [sum_map_congr (g := fun _ => (0 : Rat)) (fun b hb => by rw [h a ha, h b hb]; simp)]; simp)]; simp
    rw [h1, h2]; simp

/-! ## 11. member order: everything in the model is a symmetric function of the member list -/

instance : RightCommutative Fl.add :=
  ⟨fun b a1 a2 => by rw [Fl.add_assoc, Fl.add_comm a1 a2, ← Fl.add_assoc]⟩

theorem fsum_perm {l l' : List Fl} (p : l.Perm l') : fsum l = fsum l' := p.foldl_eq _
theorem valid_perm {l l' : List Fl} (p : l.Perm l') : (valid l).Perm (valid l') := p.filter _
theorem nansum_perm {l l' : List Fl} (p : l.Perm l') : nansum l = nansum l' := fsum_perm (valid_perm p)
theorem count_perm {l l' : List Fl} (p : l.Perm l') : count l = count l' := (valid_perm p).length_eq
theorem nanmean_perm {l l' : List Fl} (p : l.Perm l') : nanmean l = nanmean l' := by
  unfold nanmean
  have h := valid_perm p
  have he : (valid l).isEmpty = (valid l').isEmpty := by
    have := h.length_eq
    cases hv : valid l <;> cases hv' : valid l' <;> simp_all
  simp only [he, fsum_perm h, h.length_eq]

theorem spreadRow_perm {xs xs' : List Fl} (p : xs.Perm xs') (xi : Fl) : spreadRow xs xi = spreadRow xs' xi :=
  nansum_perm (p.map _)

theorem spreadRaw_perm {xs xs' : List Fl} (p : xs.Perm xs') : spreadRaw xs = spreadRaw xs' := by
  unfold spreadRaw
  have : spreadRow xs = spreadRow xs' := funext (spreadRow_perm p)
  rw [this]; exact fsum_perm (p.map _)

theorem spreadTerm_perm (m : Method) {xs xs' : List Fl} (p : xs.Perm xs') : spreadTerm m xs = spreadTerm m xs' := by
  unfold spreadTerm spreadDen ensCount; rw [spreadRaw_perm p, count_perm p]

theorem fcstObsTerm_perm {xs xs' : List Fl} (p : xs.Perm xs') (y : Fl) : fcstObsTerm xs y = fcstObsTerm xs' y :=
  nanmean_perm (p.map _)

theorem components_perm (m : Method) {xs xs' : List Fl} (p : xs.Perm xs') (y : Fl) :
    components m xs y = components m xs' y := by
  unfold components total under over spreadComp
  rw [spreadTerm_perm m p, fcstObsTerm_perm p, nanmean_perm (p.map _)]
  congr 1
  exact nanmean_perm (p.map _)

/-! ## 12. missing members are dropped -/

theorem add_zero' (x : Fl) : Fl.add x (Fl.fin 0) = x := by cases x <;> simp [Fl.add]

theorem valid_valid (l : List Fl) : valid (valid l) = valid l := by unfold valid; simp

theorem valid_map_of_nan {f : Fl → Fl} (hf : f Fl.nan = Fl.nan) : ∀ (l : List Fl), valid (l.map f) = valid ((valid l).map f)
  | [] => rfl
  | a :: l => by
    have ih := valid_map_of_nan hf l
    cases a <;> simp_all [valid, List.filter_cons, hf, Fl.notNan, Fl.isNan]

theorem foldl_add_skip_zero (g : Fl → Fl) (hg : g Fl.nan = Fl.fin 0) : ∀ (l : List Fl) (c : Fl),
    (l.map g).foldl Fl.add c = ((valid l).map g).foldl Fl.add c
  | [], _ => rfl
  | a :: l, c => by
    cases a <;> simp [valid, List.filter_cons, Fl.notNan, Fl.isNan, hg, add_zero'] <;>
      exact foldl_add_skip_zero g hg l _

theorem spreadRow_valid (xs : List Fl) (xi : Fl) : spreadRow xs xi = spreadRow (valid xs) xi := by
  unfold spreadRow nansum
  rw [valid_map_of_nan (f := fun xj => Fl.abs (Fl.sub xj xi)) (by simp)]

theorem spreadRow_nan (xs : List Fl) : spreadRow xs Fl.nan = Fl.fin 0 := by
  unfold spreadRow nansum
  have : valid (xs.map fun xj => Fl.abs (Fl.sub xj Fl.nan)) = [] := by
    unfold valid; apply List.filter_eq_nil_iff.mpr; intro a ha
    obtain ⟨b, _, rfl⟩ := List.mem_map.mp ha; simp
  rw [this]; rfl

theorem spreadRaw_valid (xs : List Fl) : spreadRaw xs = spreadRaw (valid xs) := by
  unfold spreadRaw fsum
  have : spreadRow xs = spreadRow (valid xs) := funext (spreadRow_valid xs)
  rw [this]
  exact foldl_add_skip_zero _ (spreadRow_nan _) xs _

theorem count_valid (xs : List Fl) : count xs = count (valid xs) := by unfold count; rw [valid_valid]

theorem nanmean_map_valid {f : Fl → Fl} (hf : f Fl.nan = Fl.nan) (l : List Fl) :
    nanmean (l.map f) = nanmean ((valid l).map f) := by
  unfold nanmean; rw [valid_map_of_nan hf l]

theorem fcstObsTerm_valid (xs : List Fl) (y : Fl) : fcstObsTerm xs y = fcstObsTerm (valid xs) y :=
  nanmean_map_valid (by simp) xs

theorem spreadTerm_valid (m : Method) (xs : List Fl) : spreadTerm m xs = spreadTerm m (valid xs) := by
  unfold spreadTerm spreadDen ensCount; rw [spreadRaw_valid xs, count_valid xs]

theorem components_valid (m : Method) (xs : List Fl) (y : Fl) : components m xs y = components m (valid xs) y := by
  unfold components total under over spreadComp
  rw [← spreadTerm_valid, ← fcstObsTerm_valid,
    nanmean_map_valid (f := fun x => Fl.whereB (Fl.whereB (Fl.sub y x) (Fl.gt y x) (Fl.fin 0)) (mask x y)) (by simp [mask, Fl.whereB]),
    nanmean_map_valid (f := fun x => Fl.whereB (Fl.whereB (Fl.sub x y) (Fl.gt x y) (Fl.fin 0)) (mask x y)) (by simp [mask, Fl.whereB])]

/-- a missing observation or an ensemble without valid members gives NaN everywhere -/
theorem total_nan_obs (m : Method) (xs : List Fl) : total m xs Fl.nan = Fl.nan := by
  unfold total fcstObsTerm nanmean
  have : valid (xs.map fun x => Fl.abs (Fl.sub x Fl.nan)) = [] := by
    unfold valid; apply List.filter_eq_nil_iff.mpr; intro a ha
    obtain ⟨b, _, rfl⟩ := List.mem_map.mp ha; simp
  rw [this]; simp

end SV.Lemmas.CrpsEns
