/-
  Helper lemmas for C06: step-function calculus on a sorted grid, the three-point identity, list-sum algebra,
  and the evaluation of the `Fl` model on finite inputs.
-/
import ScoresVerif.Model.CrpsEns
import ScoresVerif.Spec.CrpsEns
import ScoresVerif.Lemmas.FlBasic
import Mathlib.Algebra.BigOperators.Group.List.Basic
import Mathlib.Algebra.BigOperators.Ring.List
import Mathlib.Algebra.Order.BigOperators.Group.List
import Mathlib.Data.List.Perm.Basic

namespace SV.Lemmas.CrpsEns
open SV SV.Spec.CrpsEns

/-! ## 1. sorted grid -/

theorem mem_insertU {a x : Rat} : ∀ {l : List Rat}, x ∈ insertU a l ↔ x = a ∨ x ∈ l
  | [] => by simp [insertU]
  | b :: l => by
    unfold insertU
    split_ifs with h1 h2
    · simp
    · subst h2; simp
    · simp only [List.mem_cons, mem_insertU (l := l)]; tauto

theorem pairwise_insertU (a : Rat) : ∀ {l : List Rat}, l.Pairwise (· < ·) → (insertU a l).Pairwise (· < ·)
  | [], _ => by simp [insertU]
  | b :: l, h => by
    unfold insertU
    have hb := List.pairwise_cons.mp h
    split_ifs with h1 h2
    · refine List.pairwise_cons.mpr ⟨?_, h⟩
      intro x hx
      rcases List.mem_cons.mp hx with rfl | hx
      · exact h1
      · exact lt_trans h1 (hb.1 x hx)
    · exact h
    · refine List.pairwise_cons.mpr ⟨?_, pairwise_insertU a hb.2⟩
      intro x hx
      rcases mem_insertU.mp hx with rfl | hx
      · exact lt_of_le_of_ne (not_lt.mp h1) (Ne.symm h2)
      · exact hb.1 x hx

theorem mem_grid {x : Rat} : ∀ {pts : List Rat}, x ∈ grid pts ↔ x ∈ pts
  | [] => by simp [grid]
  | a :: l => by
    have := mem_grid (x := x) (pts := l)
    simp only [grid, List.foldr_cons, List.mem_cons] at this ⊢
    rw [mem_insertU, this]

theorem pairwise_grid : ∀ (pts : List Rat), (grid pts).Pairwise (· < ·)
  | [] => by simp [grid]
  | a :: l => by
    simp only [grid, List.foldr_cons]
    exact pairwise_insertU a (pairwise_grid l)

/-! ## 2. step integral: linearity, congruence, indicator of a grid cell range -/

theorem stepIntegral_congr {f h : Rat → Rat} : ∀ {g : List Rat}, (∀ t ∈ g, f t = h t) →
    stepIntegral f g = stepIntegral h g
  | [], _ => rfl
  | [_], _ => rfl
  | p :: q :: rest, H => by
    simp only [stepIntegral]
    rw [H p (by simp), stepIntegral_congr (g := q :: rest) (fun t ht => H t (List.mem_cons_of_mem _ ht))]

theorem stepIntegral_zero : ∀ (g : List Rat), stepIntegral (fun _ => 0) g = 0
  | [] => rfl
  | [_] => rfl
  | p :: q :: rest => by simp [stepIntegral, stepIntegral_zero (q :: rest)]

theorem stepIntegral_add (f h : Rat → Rat) : ∀ (g : List Rat),
    stepIntegral (fun t => f t + h t) g = stepIntegral f g + stepIntegral h g
  | [] => by simp [stepIntegral]
  | [_] => by simp [stepIntegral]
  | p :: q :: rest => by simp only [stepIntegral, stepIntegral_add f h (q :: rest)]; ring

theorem stepIntegral_smul (c : Rat) (f : Rat → Rat) : ∀ (g : List Rat),
    stepIntegral (fun t => c * f t) g = c * stepIntegral f g
  | [] => by simp [stepIntegral]
  | [_] => by simp [stepIntegral]
  | p :: q :: rest => by simp only [stepIntegral, stepIntegral_smul c f (q :: rest)]; ring

theorem stepIntegral_listSum {α : Type} (F : α → Rat → Rat) (g : List Rat) : ∀ (l : List α),
    stepIntegral (fun t => (l.map fun a => F a t).sum) g = (l.map fun a => stepIntegral (F a) g).sum
  | [] => by simp [stepIntegral_zero]
  | a :: l => by
    simp only [List.map_cons, List.sum_cons]
    rw [stepIntegral_add (F a) (fun t => (l.map fun a => F a t).sum) g, stepIntegral_listSum F g l]

theorem stepIntegral_nonneg {f : Rat → Rat} (hf : ∀ t, 0 ≤ f t) : ∀ {g : List Rat}, g.Pairwise (· < ·) →
    0 ≤ stepIntegral f g
  | [], _ => le_refl _
  | [_], _ => le_refl _
  | p :: q :: rest, H => by
    simp only [stepIntegral]
    have h1 := List.pairwise_cons.mp H
    have : 0 ≤ (q - p) * f p := mul_nonneg (by linarith [h1.1 q (by simp)]) (hf p)
    linarith [stepIntegral_nonneg hf h1.2]

/-- indicator of `[lo, hi)` -/
def ind (lo hi t : Rat) : Rat := if lo ≤ t ∧ t < hi then 1 else 0

theorem ind_empty (lo t : Rat) : ind lo lo t = 0 := by
  unfold ind; split_ifs with h
  · exact absurd h.2 (not_lt.mpr h.1)
  · rfl

/-- ∫ 1[lo,hi) = hi − lo on any sorted grid that contains both end points -/
theorem stepIntegral_ind {hi : Rat} : ∀ {g : List Rat} {lo : Rat}, g.Pairwise (· < ·) → lo ∈ g → hi ∈ g → lo ≤ hi →
    stepIntegral (ind lo hi) g = hi - lo
  | [], _, _, h, _, _ => by simp at h
  | [p], lo, _, hlo, hhi, _ => by
    simp only [List.mem_singleton] at hlo hhi
    subst hlo; subst hhi; simp [stepIntegral]
  | p :: q :: rest, lo, H, hlo, hhi, hle => by
    have h1 := List.pairwise_cons.mp H
    have hpq : p < q := h1.1 q (by simp)
    simp only [stepIntegral]
    rcases List.mem_cons.mp hlo with rfl | hlo'
    · -- lo = p
      rcases List.mem_cons.mp hhi with rfl | hhi'
      · -- hi = lo: empty
        have : stepIntegral (ind hi hi) (q :: rest) = stepIntegral (fun _ => 0) (q :: rest) :=
          stepIntegral_congr (fun t _ => ind_empty hi t)
        rw [this, stepIntegral_zero, ind_empty]; ring
      · have hlt : lo < hi := h1.1 hi hhi'
        have e1 : ind lo hi lo = 1 := by simp [ind, hlt]
        have hq_le : q ≤ hi := by
          rcases List.mem_cons.mp hhi' with rfl | h3
          · exact le_refl _
          · exact le_of_lt ((List.pairwise_cons.mp h1.2).1 hi h3)
        have e2 : stepIntegral (ind lo hi) (q :: rest) = stepIntegral (ind q hi) (q :: rest) := by
          apply stepIntegral_congr
          intro t ht
          have hqt : q ≤ t := by
            rcases List.mem_cons.mp ht with rfl | h3
            · exact le_refl _
            · exact le_of_lt ((List.pairwise_cons.mp h1.2).1 t h3)
          have : lo ≤ t := le_of_lt (lt_of_lt_of_le hpq hqt)
          simp [ind, this, hqt]
        rw [e1, e2, stepIntegral_ind h1.2 (by simp) hhi' hq_le]; ring
    · have hplo : p < lo := h1.1 lo hlo'
      have hhi' : hi ∈ q :: rest := by
        rcases List.mem_cons.mp hhi with rfl | h3
        · exact absurd hle (not_le.mpr hplo)
        · exact h3
      have e1 : ind lo hi p = 0 := by simp [ind, not_le.mpr hplo]
      rw [e1, stepIntegral_ind h1.2 hlo' hhi' hle]; ring


/-! ## 3. the three-point identity -/

/-- ∫ (1[a≤t] − 1[y≤t]) (1[b≤t] − 1[y≤t]) dt in closed form -/
def K (a b y : Rat) : Rat :=
  if a < y ∧ b < y then y - max a b
  else if y < a ∧ y < b then min a b - y
  else 0

theorem three_point (a b y : Rat) : K a b y = (|a - y| + |b - y| - |a - b|) / 2 := by
  unfold K
  rcases le_total a y with h1 | h1 <;> rcases le_total b y with h2 | h2 <;> rcases le_total a b with h3 | h3 <;>
    simp only [abs_of_nonneg, abs_of_nonpos, sub_nonneg, sub_nonpos, h1, h2, h3, max_def, min_def] <;>
    split_ifs
  all_goals (try simp only [not_and_or, not_lt] at *)
  all_goals first
    | linarith
    | (exfalso; linarith)
    | (rename_i hA hB; rcases hA with hA | hA <;> rcases hB with hB | hB <;> linarith)
    | (rename_i hA; rcases hA with hA | hA <;> linarith)
    | (rename_i hA; obtain ⟨hA, hA'⟩ := hA; linarith)

theorem K_nonneg (a b y : Rat) : 0 ≤ K a b y := by
  unfold K
  split_ifs with h1 h2
  · have := max_lt h1.1 h1.2; linarith
  · have := lt_min h2.1 h2.2; linarith
  · exact le_refl _

theorem K_self (a y : Rat) : K a a y = |a - y| := by
  rw [three_point]; simp

/-- difference of the two indicator CDFs at t -/
def dd (a y t : Rat) : Rat := (if a ≤ t then 1 else 0) - heaviside y t

theorem dd_mul_dd (a b y t : Rat) : dd a y t * dd b y t =
    if a < y ∧ b < y then ind (max a b) y t else if y < a ∧ y < b then ind y (min a b) t else 0 := by
  unfold dd heaviside ind
  by_cases h1 : a ≤ t <;> by_cases h2 : b ≤ t <;> by_cases h3 : y ≤ t <;>
    simp only [h1, h2, h3, max_le_iff, lt_min_iff, true_and, and_true, and_false, false_and] <;>
    split_ifs <;> first | (norm_num; done) | (exfalso; grind)


/-! ## 4. list-sum algebra -/

theorem sum_map_sub_const (f : Rat → Rat) (c : Rat) : ∀ (l : List Rat),
    (l.map fun a => f a - c).sum = (l.map f).sum - l.length * c
  | [] => by simp
  | a :: l => by simp only [List.map_cons, List.sum_cons, List.length_cons, sum_map_sub_const f c l]; push_cast; ring

theorem filter_length_eq_sum (p : Rat → Bool) : ∀ (l : List Rat),
    ((l.filter p).length : Rat) = (l.map fun a => if p a then (1 : Rat) else 0).sum
  | [] => by simp
  | a :: l => by
    by_cases h : p a <;> simp [List.filter_cons, h, filter_length_eq_sum p l] <;> ring

theorem sum_map_congr {α : Type} {f g : α → Rat} : ∀ {l : List α}, (∀ a ∈ l, f a = g a) → (l.map f).sum = (l.map g).sum
  | [], _ => rfl
  | a :: l, H => by
    simp only [List.map_cons, List.sum_cons]
    rw [H a (by simp), sum_map_congr (l := l) (fun b hb => H b (List.mem_cons_of_mem _ hb))]

theorem sum_map_const_add (c : Rat) (f : Rat → Rat) : ∀ (l : List Rat),
    (l.map fun b => c + f b).sum = l.length * c + (l.map f).sum
  | [] => by simp
  | a :: l => by simp only [List.map_cons, List.sum_cons, List.length_cons, sum_map_const_add c f l]; push_cast; ring

theorem sum_map_add' (f h : Rat → Rat) : ∀ (l : List Rat),
    (l.map fun b => f b + h b).sum = (l.map f).sum + (l.map h).sum
  | [] => by simp
  | a :: l => by simp only [List.map_cons, List.sum_cons, sum_map_add' f h l]; ring

theorem sum_map_sub' (f h : Rat → Rat) : ∀ (l : List Rat),
    (l.map fun b => f b - h b).sum = (l.map f).sum - (l.map h).sum
  | [] => by simp
  | a :: l => by simp only [List.map_cons, List.sum_cons, sum_map_sub' f h l]; ring

theorem sum_map_mul_const (f : Rat → Rat) (c : Rat) : ∀ (l : List Rat),
    (l.map fun b => f b * c).sum = (l.map f).sum * c
  | [] => by simp
  | a :: l => by simp only [List.map_cons, List.sum_cons, sum_map_mul_const f c l]; ring

theorem sum_map_const_mul (f : Rat → Rat) (c : Rat) : ∀ (l : List Rat),
    (l.map fun b => c * f b).sum = c * (l.map f).sum
  | [] => by simp
  | a :: l => by simp only [List.map_cons, List.sum_cons, sum_map_const_mul f c l]; ring

theorem sum_map_const (c : Rat) : ∀ (l : List Rat), (l.map fun _ => c).sum = l.length * c
  | [] => by simp
  | a :: l => by simp only [List.map_cons, List.sum_cons, List.length_cons, sum_map_const c l]; push_cast; ring

/-! ## 5. kernel form, K-form and integral form of the ensemble CRPS -/

def absSum (xs : List Rat) (y : Rat) : Rat := (xs.map fun x => |x - y|).sum
def pairAbs (xs : List Rat) : Rat := (xs.map fun a => (xs.map fun b => |a - b|).sum).sum
/-- kernel form with the 'ecdf' normalisation -/
def kernelEcdf (xs : List Rat) (y : Rat) : Rat :=
  absSum xs y / xs.length - pairAbs xs / (2 * (xs.length : Rat) ^ 2)
/-- kernel form with the 'fair' normalisation -/
def kernelFair (xs : List Rat) (y : Rat) : Rat :=
  absSum xs y / xs.length - pairAbs xs / (2 * (xs.length : Rat) * ((xs.length : Rat) - 1))
def KK (xs : List Rat) (y : Rat) : Rat := (xs.map fun a => (xs.map fun b => K a b y).sum).sum

theorem pairSum_eq (xs : List Rat) : pairSum xs = pairAbs xs := by
  unfold pairSum pairAbs; simp only [rabs_eq_abs]

theorem KK_eq (xs : List Rat) (y : Rat) : KK xs y = xs.length * absSum xs y - pairAbs xs / 2 := by
  unfold KK absSum pairAbs
  have inner : ∀ a, (xs.map fun b => K a b y).sum =
      (xs.length * |a - y| + (xs.map fun b => |b - y|).sum - (xs.map fun b => |a - b|).sum) / 2 := by
    intro a
    have : (fun b => K a b y) = fun b => ((|a - y| + |b - y|) - |a - b|) * (1 / 2) := by
      funext b; rw [three_point]; ring
    rw [this, sum_map_mul_const, sum_map_sub', sum_map_const_add]; ring
  simp only [inner]
  have : (fun a => ((xs.length : Rat) * |a - y| + (xs.map fun b => |b - y|).sum - (xs.map fun b => |a - b|).sum) / 2)
      = fun a => (((xs.map fun b => |b - y|).sum + (xs.length : Rat) * |a - y|) - (xs.map fun b => |a - b|).sum) * (1 / 2) := by
    funext a; ring
  rw [this, sum_map_mul_const, sum_map_sub', sum_map_const_add, sum_map_const_mul]; ring

theorem ecdf_sub_heaviside (xs : List Rat) (y t : Rat) :
    ecdf xs t - heaviside y t * ((xs.length : Rat) / xs.length) = (xs.map fun a => dd a y t).sum / xs.length := by
  unfold ecdf dd
  rw [filter_length_eq_sum, sum_map_sub_const]
  simp only [decide_eq_true_eq]
  ring

theorem integrand_eq {xs : List Rat} (hx : xs ≠ []) (y t : Rat) :
    integrand xs y t = (1 / (xs.length : Rat) ^ 2) * (xs.map fun a => (xs.map fun b => dd a y t * dd b y t).sum).sum := by
  have hM : (xs.length : Rat) ≠ 0 := by
    have : xs.length ≠ 0 := by simpa using hx
    exact_mod_cast this
  have h := ecdf_sub_heaviside xs y t
  rw [div_self hM, mul_one] at h
  unfold integrand
  rw [h]
  have e : (xs.map fun a => (xs.map fun b => dd a y t * dd b y t).sum).sum
      = (xs.map fun a => dd a y t).sum * (xs.map fun a => dd a y t).sum := by
    have : (fun a => (xs.map fun b => dd a y t * dd b y t).sum) = fun a => dd a y t * (xs.map fun b => dd b y t).sum := by
      funext a; rw [sum_map_const_mul]
    rw [this, sum_map_mul_const]
  rw [e]; field_simp

theorem stepIntegral_dd {g : List Rat} (hg : g.Pairwise (· < ·)) {a b y : Rat} (ha : a ∈ g) (hb : b ∈ g) (hy : y ∈ g) :
    stepIntegral (fun t => dd a y t * dd b y t) g = K a b y := by
  have e : (fun t => dd a y t * dd b y t) = fun t =>
      if a < y ∧ b < y then ind (max a b) y t else if y < a ∧ y < b then ind y (min a b) t else 0 := by
    funext t; exact dd_mul_dd a b y t
  rw [e]; unfold K
  split_ifs with h1 h2
  · have hm : max a b ∈ g := by rcases max_choice a b with h | h <;> rw [h] <;> assumption
    exact stepIntegral_ind hg hm hy (le_of_lt (max_lt h1.1 h1.2))
  · have hm : min a b ∈ g := by rcases min_choice a b with h | h <;> rw [h] <;> assumption
    exact stepIntegral_ind hg hy hm (le_of_lt (lt_min h2.1 h2.2))
  · exact stepIntegral_zero g

theorem crpsIntegral_eq_KK {xs : List Rat} (hx : xs ≠ []) (y : Rat) :
    crpsIntegral xs y = KK xs y / (xs.length : Rat) ^ 2 := by
  unfold crpsIntegral
  have e : integrand xs y = fun t =>
      (1 / (xs.length : Rat) ^ 2) * (xs.map fun a => (xs.map fun b => dd a y t * dd b y t).sum).sum := by
    funext t; exact integrand_eq hx y t
  rw [e, stepIntegral_smul, stepIntegral_listSum (fun a t => (xs.map fun b => dd a y t * dd b y t).sum)]
  have hg := pairwise_grid (y :: xs)
  have hy : y ∈ grid (y :: xs) := mem_grid.mpr (by simp)
  have inner : ∀ a ∈ xs, stepIntegral (fun t => (xs.map fun b => dd a y t * dd b y t).sum) (grid (y :: xs))
      = (xs.map fun b => K a b y).sum := by
    intro a ha
    rw [stepIntegral_listSum (fun b t => dd a y t * dd b y t)]
    apply sum_map_congr
    intro b hb
    exact stepIntegral_dd hg (mem_grid.mpr (by simp [ha])) (mem_grid.mpr (by simp [hb])) hy
  rw [sum_map_congr inner]; unfold KK; ring

/-- **kernel form = exact integral** of (F_ens − H_y)² -/
theorem kernelEcdf_eq_integral {xs : List Rat} (hx : xs ≠ []) (y : Rat) :
    kernelEcdf xs y = crpsIntegral xs y := by
  have hM : (xs.length : Rat) ≠ 0 := by
    have : xs.length ≠ 0 := by simpa using hx
    exact_mod_cast this
  rw [crpsIntegral_eq_KK hx, KK_eq]; unfold kernelEcdf
  field_simp

theorem KK_nonneg (xs : List Rat) (y : Rat) : 0 ≤ KK xs y := by
  unfold KK
  apply List.sum_nonneg
  intro v hv
  obtain ⟨a, _, rfl⟩ := List.mem_map.mp hv
  apply List.sum_nonneg
  intro w hw
  obtain ⟨b, _, rfl⟩ := List.mem_map.mp hw
  exact K_nonneg a b y

end SV.Lemmas.CrpsEns
