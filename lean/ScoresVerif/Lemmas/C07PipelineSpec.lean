/-
  C07 stretch, fourth part: for one NaN-free case the model of `crps_cdf` (linear fill, exact integration, no threshold
  weight) equals the executable Spec `SV.Spec.CrpsCdf.crps` — grid union (merge sort + dedup), knot-function fill
  (`Spec.Cdf.fillRow`), and the weighted cell sums `exactParts`.
-/
import ScoresVerif.Lemmas.C07Pipeline

namespace SV.Lemmas.C07Refine
open SV SV.Model.Cdf SV.Model.CrpsCdf SV.Lemmas.Cdf SV.Lemmas.CrpsCdf SV.Lemmas.C17Fill
open SV.Fl (fin nan)
open SV.Spec.CrpsCdf (exactParts)
open SV.Spec.Cdf (dedup union valueAt)

/-! ### the Spec's union (merge sort, then drop neighbours that are equal) is `sortU` -/

theorem dedup_spec (L : List Rat) (h : L.Pairwise (· ≤ ·)) : Incr (dedup L) ∧ ∀ x, x ∈ dedup L ↔ x ∈ L := by
  fun_induction dedup L with
  | case1 x1 xs ih =>
    obtain ⟨i1, i2⟩ := ih (List.Pairwise.of_cons h)
    refine ⟨i1, fun x => ?_⟩
    rw [i2 x]
    simp
  | case2 x0 x1 xs hne ih =>
    have h' := List.pairwise_cons.mp h
    obtain ⟨i1, i2⟩ := ih h'.2
    have hlt : ∀ y ∈ x1 :: xs, x0 < y := by
      intro y hy
      have h01 : x0 < x1 := lt_of_le_of_ne (h'.1 x1 (by simp)) hne
      rcases List.mem_cons.mp hy with rfl | hy
      · exact h01
      · exact lt_of_lt_of_le h01 ((List.pairwise_cons.mp h'.2).1 y hy)
    refine ⟨incr_cons_of i1 (fun y hy => hlt y ((i2 y).mp hy)), fun x => ?_⟩
    simp only [List.mem_cons] at i2 ⊢
    rw [i2 x]
  | case3 xs hnot =>
    refine ⟨?_, fun _ => Iff.rfl⟩
    match xs, hnot with
    | [], _ => trivial
    | [_], _ => trivial
    | a :: b :: r, hnot => exact (hnot a b r rfl).elim

theorem union_eq_sortU (a b : List Rat) : union a b = sortU (a ++ b) := by
  have hs : ((a ++ b).mergeSort (fun x y => decide (x ≤ y))).Pairwise (· ≤ ·) := by
    have := List.pairwise_mergeSort (le := fun (x y : Rat) => decide (x ≤ y))
      (by intro a b c; simp; exact le_trans) (by intro a b; simp; exact le_total a b) (a ++ b)
    simpa using this
  obtain ⟨d1, d2⟩ := dedup_spec _ hs
  exact incr_ext _ _ d1 (incr_sortU _) (fun x => by rw [union, d2, List.mem_mergeSort, mem_sortU_iff])

theorem valueAt_eq_lookupAt (thr : List Rat) (xs : List Fl) (t : Rat) : valueAt thr xs t = lookupAt thr xs t := by
  induction thr generalizing xs with
  | nil => simp [valueAt, lookupAt]
  | cons x thr ih =>
    cases xs with
    | nil => simp [valueAt, lookupAt]
    | cons v vs =>
      by_cases h : x = t
      · simp [valueAt, lookupAt, h]
      · have := ih vs
        simp only [valueAt] at this
        simp [valueAt, lookupAt, h, this]

theorem allFin_map_fin (L : List Rat) : SV.Spec.CrpsCdf.allFin (L.map fin) = some L := by
  induction L with
  | nil => rfl
  | cons x xs ih => simp [SV.Spec.CrpsCdf.allFin, ih]

/-- Spec parts as the model's three outputs (`none` = NaN) -/
def ofSpec : Option SV.Spec.CrpsCdf.Parts → Parts
  | some P => { total := fin P.total, under := fin P.under, over := fin P.over }
  | none => { total := nan, under := nan, over := nan }

theorem spec_grid (fthr : List Rat) (obs : Rat) (addl : List Rat) :
    union (union (union [] fthr) (union [obs] [])) addl = sortU (fthr ++ [obs] ++ addl) := by
  simp only [union_eq_sortU]
  refine incr_ext _ _ (incr_sortU _) (incr_sortU _) (fun x => ?_)
  simp only [mem_sortU_iff, List.mem_append, List.nil_append, List.append_nil]

/-- the Spec's filled forecast on the common grid is the sampled interpolant `Fhat` -/
theorem spec_addRow (G fthr fq : List Rat) (hG : Incr G) (hf : Incr fthr) (hlen : fq.length = fthr.length)
    (h2 : 2 ≤ fthr.length) (hu : ∀ v ∈ fq, 0 ≤ v ∧ v ≤ 1) (hsub : ∀ t ∈ fthr, t ∈ G) :
    SV.Spec.Cdf.addRow fthr (fq.map fin) G "linear" 2 = (G.map (Fhat (fthr.zip fq))).map fin := by
  have hv : (fun t => valueAt fthr (fq.map fin) t) = lookupAt fthr (fq.map fin) := by
    funext t; exact valueAt_eq_lookupAt _ _ t
  have hne : ("linear" = "none") = False := by decide
  unfold SV.Spec.Cdf.addRow
  simp only [union_eq_sortU, sortU_append_sub fthr G hG hsub, hne, if_false]
  rw [show (valueAt fthr (fq.map fin)) = lookupAt fthr (fq.map fin) from hv,
    ← fillRow_linear_eq_spec G _ 2 (by simp) hG (unit01_relay G fthr fq hu),
    fillRow_relay G fthr fq hG hf hlen h2 hu hsub]

/-- **whole pipeline = Spec** for one NaN-free case (observation on or off the forecast thresholds, any additional
    thresholds, any `propagate_nans`): the model of `crps_cdf(…, fcst_fill_method="linear", integration_method="exact")`
    returns exactly the parts of `Spec.CrpsCdf.crps` (grid union → knot-function fill → observed CDF → exact cell sums) -/
theorem crpsCdf_eq_spec (fthr fq : List Rat) (obs : Rat) (additional : List Fl) (cfg : Cfg)
    (hfill : cfg.fillF = "linear") (hinteg : cfg.integ = "exact")
    (hf : Incr fthr) (hlen : fq.length = fthr.length) (h2 : 2 ≤ fthr.length) (hu : ∀ v ∈ fq, 0 ≤ v ∧ v ≤ 1) :
    crpsCdf fthr [fq.map fin] [fin obs] none additional cfg =
      .ok [ofSpec (SV.Spec.CrpsCdf.crps fthr (fq.map fin) (fin obs) [] none (finVals additional) cfg.propagate
        "linear" cfg.fillW "exact").parts] ∧
    (SV.Spec.CrpsCdf.crps fthr (fq.map fin) (fin obs) [] none (finVals additional) cfg.propagate
        "linear" cfg.fillW "exact").grid = gridOf fthr obs additional := by
  have hG : Incr (gridOf fthr obs additional) := incr_sortU _
  have hobs := obs_mem_gridOf fthr obs additional
  have hsub : ∀ t ∈ fthr, t ∈ gridOf fthr obs additional := by
    intro t ht
    rw [gridOf, mem_sortU_iff]
    simp [ht]
  have hnan : (fq.map fin).any Fl.isNan = false := anyNan_map_fin fq
  have hgrid : union (union (union [] fthr) (union [obs] [])) (finVals additional) = gridOf fthr obs additional :=
    spec_grid fthr obs (finVals additional)
  have hw : (gridOf fthr obs additional).map (fun _ => fin 1) = (ones (gridOf fthr obs additional)).map fin := by
    simp [ones]
  have hspec : (SV.Spec.CrpsCdf.crps fthr (fq.map fin) (fin obs) [] none (finVals additional) cfg.propagate
        "linear" cfg.fillW "exact").parts =
      some (exactParts obs (gridOf fthr obs additional) ((gridOf fthr obs additional).map (Fhat (fthr.zip fq)))
        (ones (gridOf fthr obs additional))) := by
    unfold SV.Spec.CrpsCdf.crps
    simp only [hgrid, hnan, Bool.and_false, Bool.false_eq_true, if_false,
      spec_addRow _ fthr fq hG hf hlen h2 hu hsub, hw, allFin_map_fin, if_true]
  refine ⟨?_, ?_⟩
  · rw [crpsCdf_single fthr fq obs additional cfg hfill hinteg hf hlen h2 hu, hspec,
      fillRow_relay _ fthr fq hG hf hlen h2 hu hsub]
    obtain ⟨e1, e2, e3⟩ := exactRow_eq_spec obs (gridOf fthr obs additional)
      ((gridOf fthr obs additional).map (Fhat (fthr.zip fq))) (ones (gridOf fthr obs additional)) hG
      (noStraddle_of_mem hG hobs) (by simp) (by simp [ones])
    congr 2
    exact Parts.ext' e1 e2 e3
  · unfold SV.Spec.CrpsCdf.crps
    simp only [hgrid]

end SV.Lemmas.C07Refine
