/-
  C18 — what the model's `% 360`, `np.sort` (NaN last) and the `skipna=True` pre-processing do on a column that mixes
  finite values and NaN: the sort puts the sorted residues of the finite entries first and the NaNs last; the
  pre-processing rotates the finite part by its smallest angle and turns every NaN into 0; an all-NaN column gives NaN.
-/
import ScoresVerif.Lemmas.FlipFlopC18Skipna

namespace SV.Model.FlipFlop
open SV SV.Fl SV.Spec.FlipFlop

/-- number of NaN (`none`) entries -/
def nNone (vs : List (Option Rat)) : Nat := (vs.filter fun o => o.isNone).length

theorem nNone_nil : nNone [] = 0 := rfl
theorem nNone_none (vs : List (Option Rat)) : nNone (none :: vs) = nNone vs + 1 := by simp [nNone]
theorem nNone_some (q : Rat) (vs : List (Option Rat)) : nNone (some q :: vs) = nNone vs := by simp [nNone]

/-- the two descriptions of the NaN count agree -/
theorem nNone_eq_sub (vs : List (Option Rat)) : nNone vs = vs.length - (vs.filterMap id).length := by
  induction vs with
  | nil => rfl
  | cons o vs ih =>
    have hle : (vs.filterMap id).length ≤ vs.length := List.length_filterMap_le _ _
    cases o with
    | none => rw [nNone_none, ih, List.filterMap_cons_none rfl, List.length_cons]; omega
    | some q => rw [nNone_some, ih, List.filterMap_cons_some (f := id) (b := q) rfl, List.length_cons, List.length_cons]; omega

/-! ### the sort order on NaN -/

theorem sortLe_nan_left (b : Fl) : sortLe nan b = b.isNan := by simp [sortLe]
theorem sortLe_fin_nan (x : Rat) : sortLe (fin x) nan = true := by simp [sortLe]

theorem insertSorted_nan_replicate (m : Nat) :
    insertSorted nan (List.replicate m nan) = List.replicate (m + 1) nan := by
  cases m with
  | zero => rfl
  | succ m => simp [List.replicate_succ, insertSorted, sortLe_nan_left]

theorem insertSorted_nan_mixed (l : List Rat) (m : Nat) :
    insertSorted nan (l.map fin ++ List.replicate m nan) = l.map fin ++ List.replicate (m + 1) nan := by
  induction l with
  | nil => simpa using insertSorted_nan_replicate m
  | cons b t ih =>
    simp only [List.map_cons, List.cons_append, insertSorted, sortLe_nan_left, isNan_fin, Bool.false_eq_true,
      if_false, ih]

theorem insertSorted_fin_mixed (x : Rat) (l : List Rat) (m : Nat) :
    insertSorted (fin x) (l.map fin ++ List.replicate m nan)
      = (List.orderedInsert (· ≤ ·) x l).map fin ++ List.replicate m nan := by
  induction l with
  | nil =>
    cases m with
    | zero => rfl
    | succ m => simp [List.replicate_succ, insertSorted, sortLe_fin_nan]
  | cons b t ih =>
    simp only [List.map_cons, List.cons_append, insertSorted, sortLe_fin, List.orderedInsert_cons,
      decide_eq_true_eq]
    split_ifs with h
    · simp
    · simp [ih]

/-- `% 360` then `np.sort` on a mixed column: sorted residues of the finite entries, then the NaNs -/
theorem sortFl_mixed (vs : List (Option Rat)) :
    sortFl ((vs.map optFl).map fun v => Fl.mod v 360)
      = (sortedResidues (vs.filterMap id)).map fin ++ List.replicate (nNone vs) Fl.nan := by
  induction vs with
  | nil => rfl
  | cons o vs ih =>
    cases o with
    | none =>
      have h : Fl.mod (optFl none) 360 = nan := rfl
      simp only [List.map_cons, sortFl, h, ih, insertSorted_nan_mixed, nNone_none, List.filterMap_cons, id]
    | some q =>
      have h : Fl.mod (optFl (some q)) 360 = fin (rmod q 360) := mod360_fin q
      simp only [List.map_cons, sortFl, h, ih, insertSorted_fin_mixed, nNone_some, List.filterMap_cons, id]
      rfl

example : sortFl (([some 370, none, some 20, none, some 350] : List (Option Rat)).map optFl |>.map fun v => Fl.mod v 360)
    = [fin 10, fin 20, fin 350, nan, nan] := by decide +kernel

/-! ### the `skipna=True` pre-processing -/

/-- finite values first, then NaNs: rotate the finite part by its first entry, every NaN becomes 0 -/
theorem skipnaPre_mixed (a : Rat) (t : List Rat) (m : Nat) :
    skipnaPre ((a :: t).map fin ++ List.replicate m Fl.nan)
      = (((a :: t).map fun v => rmod (v - a) 360) ++ List.replicate m 0).map fin := by
  unfold skipnaPre
  simp only [List.map_cons, List.cons_append, List.headD_cons, sub_fin, mod360_fin, List.all_cons, isNan_fin,
    Bool.false_and, Bool.false_eq_true, if_false, List.map_map, List.map_append, List.map_replicate]
  congr 1
  congr 1
  apply List.map_congr_left
  intro v _
  simp [Function.comp, mod360_fin]

example : skipnaPre [fin 10, fin 20, fin 350, nan, nan] = [fin 0, fin 10, fin 340, fin 0, fin 0] := by decide +kernel

theorem skipnaPre_all_nan (m : Nat) : skipnaPre (List.replicate m Fl.nan) = List.replicate m Fl.nan := by
  cases m with
  | zero => rfl
  | succ m =>
    unfold skipnaPre
    simp [List.replicate_succ, Fl.mod, List.map_replicate]

theorem getD_replicate_nan (n k : Nat) : (List.replicate n Fl.nan).getD k Fl.nan = Fl.nan := by
  rw [List.getD_eq_getElem?_getD, List.getElem?_replicate]
  split_ifs <;> rfl

theorem rollBack_replicate_nan (m : Nat) : rollBack (List.replicate m Fl.nan) = List.replicate m Fl.nan := by
  cases m with
  | zero => rfl
  | succ m => rw [List.replicate_succ, rollBack, ← List.replicate_succ']; rfl

theorem foldDiff_nan : foldDiff Fl.nan = Fl.nan := by decide +kernel

theorem sectorPost_all_nan (m : Nat) : sectorPost (List.replicate m Fl.nan) = Fl.nan := by
  cases m with
  | zero => decide +kernel
  | succ m =>
    unfold sectorPost
    simp only [rollBack_replicate_nan, List.zipWith_replicate, List.map_replicate, sub_nan_left, abs_nan,
      foldDiff_nan, Nat.min_self]
    have hmod : Fl.mod Fl.nan 360 = Fl.nan := rfl
    simp only [hmod, getD_replicate_nan, beq_nan_right, Bool.false_eq_true, if_false, sub_nan_right]
    rw [maxStrict_of_mem_nan _ (by simp [List.replicate_succ])]
    split_ifs <;> rfl

/-- `skipna=True` on an all-NaN (or empty) sorted column: NaN -/
theorem sectorPost_skipnaPre_all_nan (m : Nat) : sectorPost (skipnaPre (List.replicate m Fl.nan)) = Fl.nan := by
  rw [skipnaPre_all_nan, sectorPost_all_nan]

example : sectorPost (skipnaPre (List.replicate 0 Fl.nan)) = Fl.nan ∧ sectorPost (skipnaPre (List.replicate 1 Fl.nan)) = Fl.nan ∧
    sectorPost (skipnaPre (List.replicate 2 Fl.nan)) = Fl.nan ∧ sectorPost (skipnaPre (List.replicate 3 Fl.nan)) = Fl.nan ∧
    sectorPost (skipnaPre (List.replicate 4 Fl.nan)) = Fl.nan := by decide +kernel

end SV.Model.FlipFlop
