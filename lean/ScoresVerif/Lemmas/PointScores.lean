/-
  Helper lemmas for C05: list sums in the `Fl` model, `rmod` (Python `%`), raw-moment algebra.
-/
import ScoresVerif.Lemmas.FlBasic
import ScoresVerif.Model.PointScores
import ScoresVerif.Spec.PointScores
import Mathlib.Algebra.BigOperators.Group.List.Basic
import Mathlib.Algebra.Order.Floor.Ring
import Mathlib.Data.Rat.Floor

namespace SV
open Fl (fin nan isNan notNan div_fin le_fin)

theorem rmax_eq_max (a b : Rat) : Spec.PointScores.rmax a b = max a b := by
  unfold Spec.PointScores.rmax; simp only [max_def]
theorem rmin_eq_min (a b : Rat) : Spec.PointScores.rmin a b = min a b := by
  unfold Spec.PointScores.rmin; simp only [min_def]

/-! ### sums and NaN-skipping means of lists of finite numbers -/

theorem foldl_add_fin (qs : List Rat) (a : Rat) :
    List.foldl Fl.add (fin a) (qs.map fin) = fin (a + qs.sum) := by
  induction qs generalizing a with
  | nil => simp
  | cons q qs ih => simp [List.foldl_cons, ih, _root_.add_assoc]

theorem fsum_map_fin (qs : List Rat) : fsum (qs.map fin) = fin qs.sum := by
  unfold fsum; rw [foldl_add_fin]; simp

theorem valid_map_fin (qs : List Rat) : valid (qs.map fin) = qs.map fin := by
  unfold valid
  rw [List.filter_eq_self]
  intro x hx
  obtain ⟨q, _, rfl⟩ := List.mem_map.mp hx
  rfl

theorem nanmean_map_fin (qs : List Rat) (h : qs ≠ []) :
    nanmean (qs.map fin) = fin (qs.sum / (qs.length : Rat)) := by
  unfold nanmean
  simp only [valid_map_fin, List.isEmpty_iff, List.map_eq_nil_iff, h, if_false, fsum_map_fin, List.length_map]
  have hl : ((qs.length : Nat) : Rat) ≠ 0 := by
    have : qs.length ≠ 0 := fun h0 => h (List.length_eq_zero_iff.mp h0)
    exact_mod_cast this
  show Fl.div (fin qs.sum) (fin ((qs.length : Nat) : Rat)) = _
  rw [div_fin _ _ hl]

theorem nanmean_nil : nanmean [] = nan := rfl

/-- a missing value is dropped from the mean and from the count -/
theorem nanmean_cons_nan (x : Fl) (xs : List Fl) (hx : x.isNan = true) : nanmean (x :: xs) = nanmean xs := by
  unfold nanmean valid
  simp [notNan, hx]

/-- a present value is kept -/
theorem valid_cons_fin (q : Rat) (xs : List Fl) : valid (fin q :: xs) = fin q :: valid xs := by
  unfold valid; simp [List.filter_cons]

/-- the NaN-skipping mean only depends on the present values -/
theorem nanmean_eq_of_valid_eq {xs ys : List Fl} (h : valid xs = valid ys) : nanmean xs = nanmean ys := by
  unfold nanmean; rw [h]

theorem nanmean_of_valid (xs : List Fl) (qs : List Rat) (h : valid xs = qs.map fin) (hq : qs ≠ []) :
    nanmean xs = fin (qs.sum / (qs.length : Rat)) := by
  rw [← nanmean_map_fin qs hq]
  exact nanmean_eq_of_valid_eq (by rw [h, valid_map_fin])

theorem Fl.max_fin (a b : Rat) : Fl.max (fin a) (fin b) = fin (Max.max a b) := by
  unfold Fl.max; simp only [isNan, Bool.or_self, le_fin, max_def]
  by_cases h : a ≤ b <;> simp [h]
theorem Fl.min_fin (a b : Rat) : Fl.min (fin a) (fin b) = fin (Min.min a b) := by
  unfold Fl.min; simp only [isNan, Bool.or_self, le_fin, min_def]
  by_cases h : a ≤ b <;> simp [h]
@[simp] theorem Fl.max_nan_left (x : Fl) : Fl.max nan x = nan := by simp [Fl.max]
@[simp] theorem Fl.max_nan_right (x : Fl) : Fl.max x nan = nan := by cases x <;> simp [Fl.max, isNan]
theorem Fl.mod_fin (a m : Rat) (hm : m ≠ 0) : Fl.mod (fin a) m = fin (rmod a m) := by simp [Fl.mod, hm]
@[simp] theorem Fl.mod_nan (m : Rat) : Fl.mod nan m = nan := rfl

/-! ### Python `%` on rationals -/

theorem rat_floor_eq (q : Rat) : (q.floor : Int) = ⌊q⌋ := rfl

theorem rmod_eq (a m : Rat) : rmod a m = a - m * (⌊a / m⌋ : Rat) := rfl

theorem rmod_nonneg (a m : Rat) (hm : 0 < m) : 0 ≤ rmod a m := by
  rw [rmod_eq]
  have h := Int.floor_le (a / m)
  have : (⌊a / m⌋ : Rat) * m ≤ a := by
    calc (⌊a / m⌋ : Rat) * m ≤ a / m * m := by gcongr
      _ = a := by field_simp
  linarith

theorem rmod_lt (a m : Rat) (hm : 0 < m) : rmod a m < m := by
  rw [rmod_eq]
  have h := Int.lt_floor_add_one (a / m)
  have : a < ((⌊a / m⌋ : Rat) + 1) * m := by
    calc a = a / m * m := by field_simp
      _ < ((⌊a / m⌋ : Rat) + 1) * m := by gcongr
  linarith

/-- characterisation: `rmod a m` is the unique `r ∈ [0, m)` with `a = m·k + r` for an integer `k` -/
theorem rmod_unique (a m r : Rat) (k : Int) (hm : 0 < m) (h0 : 0 ≤ r) (h1 : r < m) (h : a = m * k + r) :
    rmod a m = r := by
  rw [rmod_eq]
  have hk : ⌊a / m⌋ = k := by
    rw [Int.floor_eq_iff]
    constructor
    · rw [le_div_iff₀ hm]; rw [h]; nlinarith
    · rw [div_lt_iff₀ hm]; rw [h]; nlinarith
  rw [hk, h]; ring

theorem rmod_add_int_mul (a m : Rat) (k : Int) (hm : 0 < m) : rmod (a + m * k) m = rmod a m := by
  apply rmod_unique (a + m * k) m (rmod a m) (⌊a / m⌋ + k) hm (rmod_nonneg a m hm) (rmod_lt a m hm)
  rw [rmod_eq]; push_cast; ring

theorem rmod_neg (a m : Rat) (hm : 0 < m) :
    rmod (-a) m = if rmod a m = 0 then 0 else m - rmod a m := by
  have h0 := rmod_nonneg a m hm
  have h1 := rmod_lt a m hm
  have ha : a = m * (⌊a / m⌋ : Rat) + rmod a m := by rw [rmod_eq]; ring
  split_ifs with hz
  · apply rmod_unique (-a) m 0 (-⌊a / m⌋) hm le_rfl hm
    rw [hz] at ha; push_cast; linarith
  · apply rmod_unique (-a) m (m - rmod a m) (-⌊a / m⌋ - 1) hm
    · linarith
    · have : 0 < rmod a m := lt_of_le_of_ne h0 (Ne.symm hz)
      linarith
    · push_cast; linarith

end SV
