/-
  C07 stretch, second half: the linear fill of the model IS a function of the threshold, and that function is
  affine on every grid cell inside the span of the forecast's own thresholds.

  `Fhat ks t = clip01 (interpQ ks t)` is the value `fill_cdf(method="linear")` puts at a threshold `t`, where `ks`
  are the forecast's given (threshold, ordinate) pairs; re-laying the forecast on any finer increasing grid
  `G ⊇ fthr` (`add_thresholds`: NaN at the new points) and filling gives `G.map (Fhat ks)`.
-/
import ScoresVerif.Lemmas.C07Refine
import ScoresVerif.Lemmas.C17Fill

namespace SV.Lemmas.C07Refine
open SV SV.Model.Cdf SV.Model.CrpsCdf SV.Lemmas.Cdf SV.Lemmas.CrpsCdf SV.Lemmas.C17Fill
open SV.Fl (fin nan)
open SV.Spec.Cdf (clip01)

/-! ### the interpolant as a rational function -/

/-- `interpAt` with values in `Rat` -/
def interpQ : List (Rat × Rat) → Rat → Rat
  | [(x0, y0), (x1, y1)], t => lineAt x0 y0 x1 y1 t
  | (x0, y0) :: (x1, y1) :: k :: rest, t =>
      if t ≤ x1 then lineAt x0 y0 x1 y1 t else interpQ ((x1, y1) :: k :: rest) t
  | _, _ => 0

/-- the value `fill_cdf(method="linear")` gives at threshold `t` from the knots `ks` -/
def Fhat (ks : List (Rat × Rat)) (t : Rat) : Rat := clip01 (interpQ ks t)

theorem interpAt_eq (ks : List (Rat × Rat)) (t : Rat) (hlen : 2 ≤ ks.length) : interpAt ks t = fin (interpQ ks t) := by
  fun_induction interpAt ks t with
  | case1 x0 y0 x1 y1 t => simp [interpQ]
  | case2 x0 y0 x1 y1 k rest t ht => simp [interpQ, ht]
  | case3 x0 y0 x1 y1 k rest t ht ih => simp only [interpQ, ht, if_false]; exact ih (by simp)
  | case4 ks t h1 h2 =>
    exfalso
    match ks, hlen with
    | [a, b], _ => exact h1 _ _ _ _ rfl
    | a :: b :: c :: r, _ => exact h2 _ _ _ _ _ _ rfl

theorem interpQ_le (x0 y0 x1 y1 t : Rat) (rest : List (Rat × Rat)) (ht : t ≤ x1) :
    interpQ ((x0, y0) :: (x1, y1) :: rest) t = lineAt x0 y0 x1 y1 t := by
  cases rest with
  | nil => simp [interpQ]
  | cons k r => simp [interpQ, ht]

theorem interpQ_gt (x0 y0 x1 y1 t : Rat) (k : Rat × Rat) (rest : List (Rat × Rat)) (ht : x1 < t) :
    interpQ ((x0, y0) :: (x1, y1) :: k :: rest) t = interpQ ((x1, y1) :: k :: rest) t := by
  simp [interpQ, not_le.mpr ht]

theorem lineAt_left (x0 y0 x1 y1 : Rat) : lineAt x0 y0 x1 y1 x0 = y0 := by simp [lineAt]
theorem lineAt_right (x0 y0 x1 y1 : Rat) (h : x0 < x1) : lineAt x0 y0 x1 y1 x1 = y1 := by
  have : x1 - x0 ≠ 0 := (sub_pos.mpr h).ne'
  unfold lineAt
  field_simp
  ring

/-- between two ordinates in [0,1] the chord stays in [0,1] -/
theorem lineAt_unit (x0 y0 x1 y1 t : Rat) (h : x0 < x1) (h0 : 0 ≤ y0 ∧ y0 ≤ 1) (h1 : 0 ≤ y1 ∧ y1 ≤ 1)
    (ht0 : x0 ≤ t) (ht1 : t ≤ x1) : 0 ≤ lineAt x0 y0 x1 y1 t ∧ lineAt x0 y0 x1 y1 t ≤ 1 := by
  have hd : 0 < x1 - x0 := sub_pos.mpr h
  have e : lineAt x0 y0 x1 y1 t = (y0 * (x1 - t) + y1 * (t - x0)) / (x1 - x0) := by
    unfold lineAt
    field_simp
    ring
  rw [e]
  constructor
  · apply div_nonneg _ hd.le
    nlinarith [mul_nonneg h0.1 (sub_nonneg.mpr ht1), mul_nonneg h1.1 (sub_nonneg.mpr ht0)]
  · rw [div_le_one hd]
    nlinarith [mul_nonneg (sub_nonneg.mpr h0.2) (sub_nonneg.mpr ht1), mul_nonneg (sub_nonneg.mpr h1.2) (sub_nonneg.mpr ht0)]

theorem clip01_unit {v : Rat} (h0 : 0 ≤ v) (h1 : v ≤ 1) : clip01 v = v := by
  simp [clip01, not_lt.mpr h0, not_lt.mpr h1]

/-- the interpolant passes through its knots -/
theorem interpQ_knot (ks : List (Rat × Rat)) (hinc : IncrK ks) (hlen : 2 ≤ ks.length) (k : Rat × Rat) (hk : k ∈ ks) :
    interpQ ks k.1 = k.2 := by
  match ks, hlen with
  | [(x0, y0), (x1, y1)], _ =>
    have h01 : x0 < x1 := by simpa [IncrK] using hinc
    simp only [List.mem_cons, List.not_mem_nil, or_false] at hk
    rcases hk with rfl | rfl
    · simp [interpQ, lineAt_left]
    · simp [interpQ, lineAt_right _ _ _ _ h01]
  | (x0, y0) :: (x1, y1) :: k2 :: rest, _ =>
    simp only [IncrK, List.pairwise_cons] at hinc
    have h01 : x0 < x1 := hinc.1 (x1, y1) (by simp)
    simp only [List.mem_cons] at hk
    rcases hk with rfl | rfl | hk
    · rw [interpQ_le _ _ _ _ _ _ h01.le, lineAt_left]
    · rw [interpQ_le _ _ _ _ _ _ le_rfl, lineAt_right _ _ _ _ h01]
    · have hgt : x1 < k.1 := hinc.2.1 k (by simpa using hk)
      rw [interpQ_gt _ _ _ _ _ _ _ hgt]
      exact interpQ_knot ((x1, y1) :: k2 :: rest) (by simpa [IncrK] using hinc.2) (by simp) k
        (List.mem_cons_of_mem _ (List.mem_cons.mpr hk))

/-- **on a cell that lies between knots and has no knot strictly inside, the filled forecast is affine**
    (no kink of the interpolant, and the clip to [0,1] is inactive because the knot ordinates are in [0,1]) -/
theorem affineOn_Fhat (ks : List (Rat × Rat)) (hinc : IncrK ks) (hu : ∀ k ∈ ks, 0 ≤ k.2 ∧ k.2 ≤ 1) (a b : Rat) (hab : a < b)
    (hlo : ∃ k ∈ ks, k.1 ≤ a) (hhi : ∃ k ∈ ks, b ≤ k.1) (hsep : ∀ k ∈ ks, k.1 ≤ a ∨ b ≤ k.1) :
    AffineOn (Fhat ks) a b := by
  match ks with
  | [] => obtain ⟨k, hk, _⟩ := hlo; simp at hk
  | [k0] =>
    obtain ⟨k, hk, h1⟩ := hlo
    obtain ⟨k', hk', h2⟩ := hhi
    simp only [List.mem_singleton] at hk hk'
    subst hk; subst hk'
    exact absurd (lt_of_lt_of_le hab h2) (not_lt.mpr h1)
  | (x0, y0) :: (x1, y1) :: rest =>
    have hinc' := hinc
    simp only [IncrK, List.pairwise_cons] at hinc
    have h01 : x0 < x1 := hinc.1 (x1, y1) (by simp)
    by_cases hb : b ≤ x1
    · -- the cell lies in the first segment
      have ha : x0 ≤ a := by
        obtain ⟨k, hk, h1⟩ := hlo
        rcases List.mem_cons.mp hk with rfl | hk
        · exact h1
        · exact (hinc.1 k hk).le.trans h1
      refine ⟨y0 - (y1 - y0) / (x1 - x0) * x0, (y1 - y0) / (x1 - x0), fun t h1 h2 => ?_⟩
      have hv := lineAt_unit x0 y0 x1 y1 t h01 (hu (x0, y0) (by simp)) (hu (x1, y1) (by simp)) (ha.trans h1) (h2.trans hb)
      rw [Fhat, interpQ_le _ _ _ _ _ _ (h2.trans hb), clip01_unit hv.1 hv.2]
      unfold lineAt
      ring
    · have hb' : x1 < b := not_le.mp hb
      have ha : x1 ≤ a := by
        rcases hsep (x1, y1) (by simp) with h | h
        · exact h
        · exact absurd (lt_of_lt_of_le hb' h) (lt_irrefl _)
      match rest with
      | [] =>
        obtain ⟨k, hk, h2⟩ := hhi
        simp only [List.mem_cons, List.not_mem_nil, or_false] at hk
        rcases hk with rfl | rfl
        · exact absurd (lt_of_lt_of_le (h01.trans hb') h2) (lt_irrefl _)
        · exact absurd (lt_of_lt_of_le hb' h2) (lt_irrefl _)
      | k2 :: r =>
        have hL : IncrK ((x1, y1) :: k2 :: r) := by simpa [IncrK] using hinc.2
        have h12 : x1 < k2.1 := by
          simp only [IncrK, List.pairwise_cons] at hL
          exact hL.1 k2 (by simp)
        have hhi' : ∃ k ∈ (x1, y1) :: k2 :: r, b ≤ k.1 := by
          obtain ⟨k, hk, h2⟩ := hhi
          rcases List.mem_cons.mp hk with rfl | hk
          · exact absurd (lt_of_lt_of_le (h01.trans hb') h2) (lt_irrefl _)
          · exact ⟨k, hk, h2⟩
        obtain ⟨α, β, hF⟩ := affineOn_Fhat ((x1, y1) :: k2 :: r) hL
          (fun k hk => hu k (List.mem_cons_of_mem _ hk)) a b hab ⟨(x1, y1), by simp, ha⟩ hhi'
          (fun k hk => hsep k (List.mem_cons_of_mem _ hk))
        refine ⟨α, β, fun t h1 h2 => ?_⟩
        rw [← hF t h1 h2, Fhat, Fhat]
        congr 1
        rcases lt_or_eq_of_le (ha.trans h1) with hlt | heq
        · exact interpQ_gt _ _ _ _ _ _ _ hlt
        · subst heq
          rw [interpQ_le _ _ _ _ _ _ le_rfl, lineAt_right _ _ _ _ h01]
          obtain ⟨x2, y2⟩ := k2
          rw [interpQ_le _ _ _ _ _ _ h12.le, lineAt_left]

/-! ### re-laying a forecast on a finer grid and filling it -/

theorem lookupAt_nil_right (xs : List Rat) (t : Rat) : lookupAt xs [] t = nan := by
  cases xs <;> rfl

theorem lookupAt_not_mem (fthr : List Rat) (vals : List Fl) (t : Rat) (h : t ∉ fthr) : lookupAt fthr vals t = nan := by
  induction fthr generalizing vals with
  | nil => rfl
  | cons x xs ih =>
    cases vals with
    | nil => rfl
    | cons v vs =>
      have hx : x ≠ t := fun e => h (by simp [e])
      simp only [lookupAt, hx, if_false]
      exact ih vs (fun hm => h (List.mem_cons_of_mem _ hm))

/-- the value found at `t` is NaN (`t` is no forecast threshold) or the ordinate of a knot at `t` -/
theorem lookupAt_cases (fthr fq : List Rat) (t : Rat) :
    lookupAt fthr (fq.map fin) t = nan ∨ ∃ v, lookupAt fthr (fq.map fin) t = fin v ∧ (t, v) ∈ fthr.zip fq := by
  induction fthr generalizing fq with
  | nil => exact Or.inl rfl
  | cons x xs ih =>
    cases fq with
    | nil => exact Or.inl rfl
    | cons v vs =>
      simp only [List.map_cons, lookupAt, List.zip_cons_cons, List.mem_cons]
      by_cases hx : x = t
      · subst hx
        exact Or.inr ⟨v, by simp, Or.inl rfl⟩
      · simp only [hx, if_false]
        rcases ih vs with h | ⟨w, h1, h2⟩
        · exact Or.inl h
        · exact Or.inr ⟨w, h1, Or.inr h2⟩

theorem knots_map_nan (G : List Rat) (g : Rat → Fl) (h : ∀ t ∈ G, g t = nan) : knots G (G.map g) = [] := by
  induction G with
  | nil => rfl
  | cons t ts ih =>
    simp only [List.map_cons, h t (by simp), knots]
    exact ih (fun t' ht' => h t' (List.mem_cons_of_mem _ ht'))

/-- **`add_thresholds` keeps exactly the forecast's knots**: on an increasing grid `G ⊇ fthr` the non-NaN entries of the
    re-laid row are the forecast's (threshold, ordinate) pairs -/
theorem knots_relay (G fthr fq : List Rat) (hG : Incr G) (hf : Incr fthr) (hlen : fq.length = fthr.length)
    (hsub : ∀ t ∈ fthr, t ∈ G) :
    knots G (G.map (lookupAt fthr (fq.map fin))) = fthr.zip fq := by
  induction G generalizing fthr fq with
  | nil =>
    cases fthr with
    | nil => rfl
    | cons f0 fs => exact absurd (hsub f0 (by simp)) (by simp)
  | cons g gs ih =>
    match fthr, fq, hlen with
    | [], [], _ => exact knots_map_nan _ _ (fun t _ => rfl)
    | f0 :: fs, v0 :: vs, hlen =>
      have hgs : ∀ t ∈ gs, g < t := incr_head_lt hG
      have hfs : ∀ t ∈ fs, f0 < t := incr_head_lt hf
      by_cases hgf : g = f0
      · subst hgf
        have hsub' : ∀ t ∈ fs, t ∈ gs := by
          intro t ht
          rcases List.mem_cons.mp (hsub t (List.mem_cons_of_mem _ ht)) with h | h
          · exact absurd (hfs t ht) (by rw [h]; exact lt_irrefl _)
          · exact h
        simp only [List.map_cons, lookupAt, if_true, knots, List.zip_cons_cons]
        congr 1
        rw [← ih fs vs (incr_tail hG) (incr_tail hf) (by simpa using hlen) hsub']
        congr 1
        apply List.map_congr_left
        intro t ht
        simp [(hgs t ht).ne]
      · have hlt : g < f0 := by
          rcases List.mem_cons.mp (hsub f0 (by simp)) with h | h
          · exact absurd h.symm hgf
          · exact hgs f0 h
        have hnot : g ∉ f0 :: fs := by
          intro hm
          rcases List.mem_cons.mp hm with h | h
          · exact hgf h
          · exact absurd (hlt.trans (hfs g h)) (lt_irrefl _)
        have hsub' : ∀ t ∈ f0 :: fs, t ∈ gs := by
          intro t ht
          rcases List.mem_cons.mp (hsub t ht) with h | h
          · exact absurd (h ▸ ht) hnot
          · exact h
        have := ih (f0 :: fs) (v0 :: vs) (incr_tail hG) hf hlen hsub'
        simp only [List.map_cons] at this ⊢
        rw [show lookupAt (f0 :: fs) (fin v0 :: vs.map fin) g = nan from
          lookupAt_not_mem (f0 :: fs) (fin v0 :: vs.map fin) g hnot]
        exact this

theorem incrK_zip (fthr fq : List Rat) (hf : Incr fthr) : IncrK (fthr.zip fq) := by
  induction fthr generalizing fq with
  | nil => simp [IncrK]
  | cons t ts ih =>
    cases fq with
    | nil => simp [IncrK]
    | cons v vs =>
      simp only [List.zip_cons_cons, IncrK, List.pairwise_cons]
      exact ⟨fun k hk => incr_head_lt hf _ (List.of_mem_zip hk).1, ih vs (incr_tail hf)⟩

theorem noInf_map_lookup (G fthr fq : List Rat) : NoInf (G.map (lookupAt fthr (fq.map fin))) := by
  intro x hx
  obtain ⟨t, _, rfl⟩ := List.mem_map.mp hx
  rcases lookupAt_cases fthr fq t with h | ⟨v, h, _⟩
  · exact Or.inl h
  · exact Or.inr ⟨v, h⟩

theorem zip_map_self {α β γ : Type} (G : List α) (g : α → β) (h : α × β → γ) :
    (G.zip (G.map g)).map h = G.map (fun t => h (t, g t)) := by
  induction G with
  | nil => rfl
  | cons t ts ih => simp [ih]

/-- **re-lay + linear fill = sampling `Fhat`**: for an increasing grid `G ⊇ fthr`, a NaN-free forecast with ordinates
    in [0,1] on at least two increasing thresholds -/
theorem fillRow_relay (G fthr fq : List Rat) (hG : Incr G) (hf : Incr fthr) (hlen : fq.length = fthr.length)
    (h2 : 2 ≤ fthr.length) (hu : ∀ v ∈ fq, 0 ≤ v ∧ v ≤ 1) (hsub : ∀ t ∈ fthr, t ∈ G) :
    fillRow G (G.map (lookupAt fthr (fq.map fin))) "linear" 2 = (G.map (Fhat (fthr.zip fq))).map fin := by
  have hk := knots_relay G fthr fq hG hf hlen hsub
  have hx := noInf_map_lookup G fthr fq
  have hkl : (fthr.zip fq).length = fthr.length := by simp [hlen]
  have hcount : (2 : Int) ≤ (count (G.map (lookupAt fthr (fq.map fin))) : Int) := by
    rw [← knots_length G _ (by simp) hx, hk, hkl]; exact_mod_cast h2
  have hinc := incrK_zip fthr fq hf
  have hm : fillRow G (G.map (lookupAt fthr (fq.map fin))) "linear" 2 =
      (interpolateNa G (G.map (lookupAt fthr (fq.map fin)))).map (fun v => Fl.min (Fl.max v (fin 0)) (fin 1)) := by
    simp [fillRow, hcount]
  rw [hm]
  unfold interpolateNa
  simp only [hk, hkl, not_lt.mpr h2, if_false, List.map_map]
  rw [zip_map_self]
  apply List.map_congr_left
  intro t _
  simp only [Function.comp]
  rcases lookupAt_cases fthr fq t with h | ⟨v, h, hmem⟩
  · simp only [h, Fl.isNan_nan, if_true]
    rw [interpAt_eq _ _ (by rw [hkl]; exact h2), clip_fin, ← clip01_eq]
    rfl
  · have hv := hu v (List.of_mem_zip hmem).2
    have hq := interpQ_knot _ hinc (by rw [hkl]; exact h2) (t, v) hmem
    simp only at hq
    simp only [h, Fl.isNan_fin, Bool.false_eq_true, if_false, Fhat, hq]
    rw [clip_unit hv.1 hv.2, clip01_unit hv.1 hv.2]

/-! ### grids: `insertU` keeps a grid increasing; consecutive points of an increasing grid have no grid point between them -/

theorem mem_insertU {y m : Rat} {G : List Rat} (h : y ∈ insertU m G) : y = m ∨ y ∈ G := by
  induction G with
  | nil => simpa [insertU] using h
  | cons x xs ih =>
    unfold insertU at h
    split_ifs at h
    · rcases List.mem_cons.mp h with h | h
      · exact Or.inl h
      · exact Or.inr h
    · exact Or.inr h
    · rcases List.mem_cons.mp h with h | h
      · exact Or.inr (by simp [h])
      · rcases ih h with h | h
        · exact Or.inl h
        · exact Or.inr (List.mem_cons_of_mem _ h)

theorem incr_cons_of {x : Rat} {L : List Rat} (hL : Incr L) (h : ∀ y ∈ L, x < y) : Incr (x :: L) := by
  cases L with
  | nil => trivial
  | cons y ys => exact ⟨h y (by simp), hL⟩

theorem incr_insertU (m : Rat) (G : List Rat) (hG : Incr G) : Incr (insertU m G) := by
  induction G with
  | nil => trivial
  | cons x xs ih =>
    unfold insertU
    split_ifs with h1 h2
    · exact ⟨h1, hG⟩
    · exact hG
    · have hxm : x < m := lt_of_le_of_ne (not_lt.mp h1) (Ne.symm h2)
      refine incr_cons_of (ih (incr_tail hG)) ?_
      intro y hy
      rcases mem_insertU hy with rfl | hy
      · exact hxm
      · exact incr_head_lt hG y hy

theorem incr_foldr_insertU (ms G : List Rat) (hG : Incr G) : Incr (ms.foldr insertU G) := by
  induction ms with
  | nil => exact hG
  | cons m ms ih => exact incr_insertU m _ ih

theorem mem_foldr_insertU {x : Rat} (ms G : List Rat) (h : x ∈ G) : x ∈ ms.foldr insertU G := by
  induction ms with
  | nil => exact h
  | cons m ms ih => exact mem_insertU_of_mem ih

theorem onCells_mono {P Q : Rat → Rat → Prop} (h : ∀ a b, P a b → Q a b) (G : List Rat) (hP : OnCells P G) : OnCells Q G := by
  induction G with
  | nil => trivial
  | cons x xs ih =>
    cases xs with
    | nil => trivial
    | cons y ys => exact ⟨h x y hP.1, ih hP.2⟩

theorem onCells_and {P Q : Rat → Rat → Prop} (G : List Rat) (hP : OnCells P G) (hQ : OnCells Q G) :
    OnCells (fun a b => P a b ∧ Q a b) G := by
  induction G with
  | nil => trivial
  | cons x xs ih =>
    cases xs with
    | nil => trivial
    | cons y ys => exact ⟨⟨hP.1, hQ.1⟩, ih hP.2 hQ.2⟩

theorem cells_sep_aux (pre G : List Rat) (hG : Incr G) (hpre : ∀ x ∈ pre, ∀ y ∈ G, x < y) :
    OnCells (fun a b => ∀ x ∈ pre ++ G, x ≤ a ∨ b ≤ x) G := by
  induction G generalizing pre with
  | nil => trivial
  | cons a xs ih =>
    cases xs with
    | nil => trivial
    | cons b ys =>
      refine ⟨?_, ?_⟩
      · intro x hx
        rcases List.mem_append.mp hx with hx | hx
        · exact Or.inl (hpre x hx a (by simp)).le
        · rcases List.mem_cons.mp hx with rfl | hx
          · exact Or.inl le_rfl
          · rcases List.mem_cons.mp hx with rfl | hx
            · exact Or.inr le_rfl
            · exact Or.inr (incr_head_lt hG.2 x hx).le
      · have := ih (pre ++ [a]) hG.2 (by
          intro x hx y hy
          rcases List.mem_append.mp hx with hx | hx
          · exact hpre x hx y (List.mem_cons_of_mem _ hy)
          · simp only [List.mem_singleton] at hx
            subst hx
            exact incr_head_lt hG y hy)
        simpa using this

/-- between two consecutive points of an increasing grid there is no grid point -/
theorem cells_sep (G : List Rat) (hG : Incr G) : OnCells (fun a b => ∀ x ∈ G, x ≤ a ∨ b ≤ x) G := by
  simpa using cells_sep_aux [] G hG (by simp)

/-! ### refinement invariance with the model's linear fill -/

/-- **refine_invariant (row level, model's own fill)**: a NaN-free forecast with ordinates in [0,1] on `fthr`; a common
    grid `G ⊇ fthr` without the observation strictly inside a cell; extra thresholds `ms` inside the span of `fthr`;
    a weight function constant on the cells that receive a point.  Re-laying + linear fill + exact integration on the
    refined grid gives the same three outputs as on `G`. -/
theorem exactRow_refine_fill (obs : Rat) (fthr fq : List Rat) (W : Rat → Rat) (p : Rat) (rest ms : List Rat)
    (hG : Incr (p :: rest)) (hs : NoStraddle obs (p :: rest))
    (hf : Incr fthr) (hlen : fq.length = fthr.length) (h2 : 2 ≤ fthr.length) (hu : ∀ v ∈ fq, 0 ≤ v ∧ v ≤ 1)
    (hsub : ∀ t ∈ fthr, t ∈ p :: rest)
    (hms : ∀ m ∈ ms, (∃ t ∈ fthr, t ≤ m) ∧ (∃ t ∈ fthr, m ≤ t))
    (hW : OnCells (fun a b => ∀ m ∈ ms, a < m → m < b → ConstOn W a b) (p :: rest)) :
    exactRow (ms.foldr insertU (p :: rest))
        (fillRow (ms.foldr insertU (p :: rest)) ((ms.foldr insertU (p :: rest)).map (lookupAt fthr (fq.map fin))) "linear" 2)
        (observedRow (ms.foldr insertU (p :: rest)) (fin obs)) (((ms.foldr insertU (p :: rest)).map W).map fin)
      = exactRow (p :: rest) (fillRow (p :: rest) ((p :: rest).map (lookupAt fthr (fq.map fin))) "linear" 2)
        (observedRow (p :: rest) (fin obs)) (((p :: rest).map W).map fin) := by
  rw [fillRow_relay _ fthr fq (incr_foldr_insertU ms _ hG) hf hlen h2 hu (fun t ht => mem_foldr_insertU ms _ (hsub t ht)),
    fillRow_relay _ fthr fq hG hf hlen h2 hu hsub]
  have hfst : (fthr.zip fq).map Prod.fst = fthr := List.map_fst_zip (by rw [hlen])
  have hkmem : ∀ t ∈ fthr, ∃ k ∈ fthr.zip fq, k.1 = t := by
    intro t ht
    rw [← hfst] at ht
    obtain ⟨k, hk, rfl⟩ := List.mem_map.mp ht
    exact ⟨k, hk, rfl⟩
  apply exactRow_refine obs (Fhat (fthr.zip fq)) W p rest ms hG hs
  · refine onCells_mono ?_ _ (onCells_and _ (cells_sep _ hG) hW)
    intro a b ⟨hsep, hw⟩ m hm ham hmb
    refine ⟨?_, hw m hm ham hmb⟩
    obtain ⟨⟨t1, ht1, h1⟩, ⟨t2, ht2, h2'⟩⟩ := hms m hm
    have hlo : t1 ≤ a := by
      rcases hsep t1 (hsub t1 ht1) with h | h
      · exact h
      · exact absurd (lt_of_le_of_lt (h.trans h1) hmb) (lt_irrefl _)
    have hhi : b ≤ t2 := by
      rcases hsep t2 (hsub t2 ht2) with h | h
      · exact absurd (lt_of_lt_of_le ham (h2'.trans h)) (lt_irrefl _)
      · exact h
    obtain ⟨k1, hk1, e1⟩ := hkmem t1 ht1
    obtain ⟨k2, hk2, e2⟩ := hkmem t2 ht2
    exact affineOn_Fhat _ (incrK_zip fthr fq hf) (fun k hk => hu k.2 (List.of_mem_zip hk).2) a b (ham.trans hmb)
      ⟨k1, hk1, e1 ▸ hlo⟩ ⟨k2, hk2, e2 ▸ hhi⟩ (fun k hk => hsep k.1 (hsub k.1 (List.of_mem_zip hk).1))
  · intro m hm
    obtain ⟨⟨t1, ht1, h1⟩, ⟨t2, ht2, h2'⟩⟩ := hms m hm
    refine ⟨?_, t2, hsub t2 ht2, h2'⟩
    rcases List.mem_cons.mp (hsub t1 ht1) with h | h
    · exact h ▸ h1
    · exact (incr_head_lt hG t1 h).le.trans h1

end SV.Lemmas.C07Refine
