/-
  Lemmas/Quad — the calculus of `Spec.Quad.integral`: if on every cell without a kink strictly inside the Milne value of
  `f` is `G q − G p` (G an antiderivative in the exact cell sense), then `integral f lo hi kinks = G hi − G lo`
  (sorting, clamping and telescoping are done here once and for all).
-/
import ScoresVerif.Spec.Quad
import Mathlib.Tactic.Linarith
import Mathlib.Tactic.Ring
import Mathlib.Tactic.FieldSimp
import Mathlib.Tactic.NormNum
import Mathlib.Algebra.Order.Field.Rat

namespace SV.Spec.Quad

theorem rmin_eq_min (x y : Rat) : rmin x y = min x y := by
  unfold rmin; simp only [min_def]
theorem rmax_eq_max (x y : Rat) : rmax x y = max x y := by
  unfold rmax; simp only [max_def]

theorem clamp_mem (lo hi t : Rat) (h : lo ≤ hi) : lo ≤ clamp lo hi t ∧ clamp lo hi t ≤ hi := by
  unfold clamp rmax rmin; split_ifs <;> constructor <;> linarith

/-- no kink strictly inside the cell (p, q) -/
def NoKinkInside (kinks : List Rat) (p q : Rat) : Prop := ∀ k ∈ kinks, k ≤ p ∨ q ≤ k

/-- the three Milne nodes lie strictly inside a non-degenerate cell -/
theorem milne_congr {f f' : Rat → Rat} {p q : Rat} (hpq : p ≤ q)
    (h : ∀ θ, p < θ → θ < q → f θ = f' θ) : milne f p q = milne f' p q := by
  rcases hpq.lt_or_eq with hlt | rfl
  · unfold milne
    rw [h (p + (q - p) / 4) (by linarith) (by linarith), h (p + (q - p) / 2) (by linarith) (by linarith),
        h (p + 3 * (q - p) / 4) (by linarith) (by linarith)]
  · unfold milne; simp

/-- Milne's rule is exact for cubics: the value is the difference of the antiderivative polynomial -/
theorem milne_cubic (c0 c1 c2 c3 p q : Rat) :
    milne (fun θ => c0 + c1 * θ + c2 * θ ^ 2 + c3 * θ ^ 3) p q
      = (c0 * q + c1 * q ^ 2 / 2 + c2 * q ^ 3 / 3 + c3 * q ^ 4 / 4)
        - (c0 * p + c1 * p ^ 2 / 2 + c2 * p ^ 3 / 3 + c3 * p ^ 4 / 4) := by
  unfold milne; ring

/-- on a cell where `f` is a cubic polynomial (on the open interior), Milne = antiderivative difference -/
theorem milne_of_cubic {f : Rat → Rat} {p q : Rat} (hpq : p ≤ q) (c0 c1 c2 c3 : Rat)
    (h : ∀ θ, p < θ → θ < q → f θ = c0 + c1 * θ + c2 * θ ^ 2 + c3 * θ ^ 3) :
    milne f p q = (c0 * q + c1 * q ^ 2 / 2 + c2 * q ^ 3 / 3 + c3 * q ^ 4 / 4)
        - (c0 * p + c1 * p ^ 2 / 2 + c2 * p ^ 3 / 3 + c3 * p ^ 4 / 4) := by
  rw [milne_congr hpq h, milne_cubic]

theorem milne_smul (c : Rat) (f : Rat → Rat) (p q : Rat) :
    milne (fun θ => c * f θ) p q = c * milne f p q := by
  unfold milne; ring

theorem milne_add (f g : Rat → Rat) (p q : Rat) :
    milne (fun θ => f θ + g θ) p q = milne f p q + milne g p q := by
  unfold milne; ring

theorem milne_self (f : Rat → Rat) (p : Rat) : milne f p p = 0 := by
  unfold milne; simp

theorem cellSum_telescope (f G : Rat → Rat) (z : Rat) : ∀ (l : List Rat) (a : Rat),
    (a :: (l ++ [z])).Pairwise (· ≤ ·) →
    (∀ p q, a ≤ p → p ≤ q → q ≤ z → (∀ t ∈ a :: (l ++ [z]), t ≤ p ∨ q ≤ t) → milne f p q = G q - G p) →
    cellSum f (a :: (l ++ [z])) = G z - G a := by
  intro l
  induction l with
  | nil =>
    intro a hs h
    have haz : a ≤ z := by
      have := (List.pairwise_cons.mp hs).1 z (by simp)
      exact this
    simp only [List.nil_append, cellSum]
    rw [h a z le_rfl haz le_rfl]
    · ring
    · intro t ht
      simp only [List.nil_append, List.mem_cons, List.not_mem_nil, or_false] at ht
      rcases ht with rfl | rfl
      · exact Or.inl le_rfl
      · exact Or.inr le_rfl
  | cons b l ih =>
    intro a hs h
    have hs' := List.pairwise_cons.mp hs
    have hab : a ≤ b := hs'.1 b (by simp)
    have hbz : b ≤ z := (List.pairwise_cons.mp hs'.2).1 z (by simp)
    simp only [List.cons_append, cellSum]
    rw [ih b hs'.2]
    · rw [h a b le_rfl hab hbz]
      · ring
      · intro t ht
        simp only [List.cons_append, List.mem_cons] at ht
        rcases ht with rfl | ht
        · exact Or.inl le_rfl
        · right
          rcases ht with rfl | ht
          · exact le_rfl
          · exact (List.pairwise_cons.mp hs'.2).1 t ht
    · intro p q hbp hpq hqz hno
      apply h p q (le_trans hab hbp) hpq hqz
      intro t ht
      simp only [List.cons_append, List.mem_cons] at ht
      rcases ht with rfl | ht
      · exact Or.inl (le_trans hab hbp)
      · exact hno t (by simpa using ht)

theorem sortRat_pairwise (l : List Rat) : (sortRat l).Pairwise (· ≤ ·) := by
  unfold sortRat
  have := List.pairwise_mergeSort (le := fun (a b : Rat) => decide (a ≤ b))
    (by intro a b c h1 h2; simp only [decide_eq_true_eq] at *; exact le_trans h1 h2)
    (by intro a b; simp only [Bool.or_eq_true, decide_eq_true_eq]; exact le_total a b) l
  exact this.imp (by intro a b h; simpa using h)

theorem mem_sortRat {l : List Rat} {t : Rat} : t ∈ sortRat l ↔ t ∈ l := by
  unfold sortRat
  exact (List.mergeSort_perm l _).mem_iff

/-- **fundamental lemma**: a cell-wise antiderivative gives the integral -/
theorem integral_eq_of_antiderivative (f G : Rat → Rat) (lo hi : Rat) (kinks : List Rat) (hlh : lo ≤ hi)
    (hcell : ∀ p q, lo ≤ p → p ≤ q → q ≤ hi → NoKinkInside kinks p q → milne f p q = G q - G p) :
    integral f lo hi kinks = G hi - G lo := by
  unfold integral grid
  have hmem : ∀ t ∈ sortRat (kinks.map (clamp lo hi)), lo ≤ t ∧ t ≤ hi := by
    intro t ht
    rw [mem_sortRat, List.mem_map] at ht
    obtain ⟨k, _, rfl⟩ := ht
    exact clamp_mem lo hi k hlh
  apply cellSum_telescope
  · rw [List.pairwise_cons]
    constructor
    · intro t ht
      rw [List.mem_append] at ht
      rcases ht with ht | ht
      · exact (hmem t ht).1
      · simp only [List.mem_cons, List.not_mem_nil, or_false] at ht; rw [ht]; exact hlh
    · rw [List.pairwise_append]
      refine ⟨sortRat_pairwise _, List.pairwise_singleton _ _, ?_⟩
      intro t ht u hu
      simp only [List.mem_cons, List.not_mem_nil, or_false] at hu
      rw [hu]; exact (hmem t ht).2
  · intro p q hlp hpq hqh hno
    apply hcell p q hlp hpq hqh
    intro k hk
    have hc : clamp lo hi k ∈ lo :: (sortRat (kinks.map (clamp lo hi)) ++ [hi]) := by
      apply List.mem_cons_of_mem
      apply List.mem_append_left
      rw [mem_sortRat]
      exact List.mem_map_of_mem hk
    have := hno _ hc
    unfold clamp rmax rmin at this
    split_ifs at this <;> rcases this with h | h <;>
      first
        | (left; linarith)
        | (right; linarith)

end SV.Spec.Quad
