/-
  C18 — the covering-arc sector equals the gap formula: for a non-empty list of directions, the shortest arc that
  starts at a data point and covers every direction is 360 minus the largest gap between cyclically adjacent distinct
  residues (`sector xs = sectorGap xs`).
-/
import ScoresVerif.Lemmas.FlipFlopC18Base

namespace SV.Spec.FlipFlop
open SV
open SV.Model.FlipFlop (rmod360_nonneg rmod360_lt)

/-! ### last element of a strictly increasing list -/

theorem getLastD_mem : ∀ (t : List Rat) (a : Rat), t.getLastD a ∈ a :: t
  | [], a => by simp
  | b :: t, a => by
    rw [List.getLastD_cons]
    exact List.mem_cons_of_mem _ (getLastD_mem t b)

theorem le_getLastD : ∀ (t : List Rat) (a : Rat), (a :: t).Pairwise (· < ·) → ∀ x ∈ a :: t, x ≤ t.getLastD a
  | [], a, _, x, hx => by
    rw [List.mem_singleton] at hx
    rw [hx]; exact le_rfl
  | b :: t, a, h, x, hx => by
    rw [List.getLastD_cons]
    obtain ⟨h1, h2⟩ := List.pairwise_cons.mp h
    have ih := le_getLastD t b h2
    rcases List.mem_cons.mp hx with hxa | hx
    · rw [hxa]
      exact le_trans (le_of_lt (h1 b List.mem_cons_self)) (ih b List.mem_cons_self)
    · exact ih x hx

/-! ### covering arcs from the points of a strictly increasing list in [0, 360) -/

/-- from the smallest direction the covering arc runs up to the largest one -/
theorem coverFrom_head (a : Rat) (t : List Rat) (hp : (a :: t).Pairwise (· < ·))
    (hr : ∀ x ∈ a :: t, 0 ≤ x ∧ x < 360) : coverFrom (a :: t) a = t.getLastD a - a := by
  unfold coverFrom
  apply maxL_eq_of
  · refine List.mem_map.mpr ⟨t.getLastD a, getLastD_mem t a, ?_⟩
    exact arc_of_le _ _ (hr a List.mem_cons_self).1 (hr _ (getLastD_mem t a)).2
      (le_getLastD t a hp a List.mem_cons_self)
  · intro x hx
    obtain ⟨b, hb, rfl⟩ := List.mem_map.mp hx
    have hab : a ≤ b := by
      rcases List.mem_cons.mp hb with hba | hb'
      · rw [hba]
      · exact le_of_lt ((List.pairwise_cons.mp hp).1 b hb')
    rw [arc_of_le a b (hr a List.mem_cons_self).1 (hr b hb).2 hab]
    have := le_getLastD t a hp b hb
    linarith

/-- from a direction q with predecessor p the covering arc goes all the way round to p: 360 − (q − p) -/
theorem coverFrom_mid (l r : List Rat) (p q : Rat) (hp : (l ++ p :: q :: r).Pairwise (· < ·))
    (hr : ∀ x ∈ l ++ p :: q :: r, 0 ≤ x ∧ x < 360) : coverFrom (l ++ p :: q :: r) q = 360 - (q - p) := by
  have hpm : p ∈ l ++ p :: q :: r := by simp
  have hqm : q ∈ l ++ p :: q :: r := by simp
  obtain ⟨_, hpq0, hlr⟩ := List.pairwise_append.mp hp
  obtain ⟨hp1, hpq1⟩ := List.pairwise_cons.mp hpq0
  obtain ⟨hq1, _⟩ := List.pairwise_cons.mp hpq1
  have hpq : p < q := hp1 q List.mem_cons_self
  have hq360 := (hr q hqm).2
  have hq0 := (hr q hqm).1
  have hp0 := (hr p hpm).1
  unfold coverFrom
  apply maxL_eq_of
  · refine List.mem_map.mpr ⟨p, hpm, ?_⟩
    rw [arc_of_gt q p hq360 hp0 hpq]; ring
  · intro x hx
    obtain ⟨b, hb, rfl⟩ := List.mem_map.mp hx
    have hb0 := (hr b hb).1
    have hb360 := (hr b hb).2
    rcases List.mem_append.mp hb with hbl | hb'
    · have hbp : b < p := hlr b hbl p List.mem_cons_self
      rw [arc_of_gt q b hq360 hb0 (by linarith)]; linarith
    · rcases List.mem_cons.mp hb' with hbp | hb''
      · rw [hbp, arc_of_gt q p hq360 hp0 hpq]; linarith
      · have hqb : q ≤ b := by
          rcases List.mem_cons.mp hb'' with hbq | h3
          · rw [hbq]
          · exact le_of_lt (hq1 b h3)
        rw [arc_of_le q b hq0 hb360 hqb]
        linarith

/-! ### gaps ↔ adjacent pairs -/

theorem mem_gaps_decomp : ∀ (s : List Rat) (g : Rat), g ∈ gaps s → ∃ l p q r, s = l ++ p :: q :: r ∧ g = q - p
  | [], g, h => by simp [gaps] at h
  | [_], g, h => by simp [gaps] at h
  | a :: b :: t, g, h => by
    rw [gaps, List.mem_cons] at h
    rcases h with h | h
    · exact ⟨[], a, b, t, rfl, h⟩
    · obtain ⟨l, p, q, r, e, hg⟩ := mem_gaps_decomp (b :: t) g h
      exact ⟨a :: l, p, q, r, by rw [e]; rfl, hg⟩

theorem gaps_mem_of_decomp : ∀ (l : List Rat) (p q : Rat) (r : List Rat), q - p ∈ gaps (l ++ p :: q :: r)
  | [], p, q, r => by simp [gaps]
  | [c], p, q, r => by simp [gaps]
  | c :: d :: l, p, q, r => by
    have := gaps_mem_of_decomp (d :: l) p q r
    simp only [List.cons_append] at this ⊢
    rw [gaps]; exact List.mem_cons_of_mem _ this

/-! ### the gap formula -/

/-- strictly increasing directions in [0, 360): the smallest covering arc is 360 − the largest cyclic gap -/
theorem sector_sorted (a : Rat) (t : List Rat) (hp : (a :: t).Pairwise (· < ·))
    (hr : ∀ x ∈ a :: t, 0 ≤ x ∧ x < 360) :
    sector (a :: t) = 360 - maxL ((360 - t.getLastD a + a) :: gaps (a :: t)) := by
  obtain ⟨hGm, hGu⟩ := maxL_spec (360 - t.getLastD a + a) (gaps (a :: t))
  unfold sector
  apply minL_eq_of
  · rcases List.mem_cons.mp hGm with h | h
    · refine List.mem_map.mpr ⟨a, List.mem_cons_self, ?_⟩
      rw [coverFrom_head a t hp hr, h]; ring
    · obtain ⟨l, p, q, r, e, hg⟩ := mem_gaps_decomp _ _ h
      have hc := coverFrom_mid l r p q (e ▸ hp) (e ▸ hr)
      rw [← e] at hc
      refine List.mem_map.mpr ⟨q, by rw [e]; simp, ?_⟩
      rw [hc, hg]
  · intro x hx
    obtain ⟨b, hb, rfl⟩ := List.mem_map.mp hx
    rcases List.mem_cons.mp hb with h | h
    · rw [h, coverFrom_head a t hp hr]
      have := hGu _ List.mem_cons_self
      linarith
    · obtain ⟨l', r, e⟩ := List.append_of_mem h
      rcases List.eq_nil_or_concat (a :: l') with h0 | ⟨l, p, e2⟩
      · exact absurd h0 (by simp)
      · have e3 : a :: t = l ++ p :: b :: r := by
          rw [e, ← List.cons_append, e2]; simp
        have hg := gaps_mem_of_decomp l p b r
        rw [← e3] at hg
        have h2 := hGu _ (List.mem_cons_of_mem _ hg)
        have h3 := coverFrom_mid l r p b (e3 ▸ hp) (e3 ▸ hr)
        rw [← e3] at h3
        linarith

/-- GAP FORMULA: for a non-empty list of directions the smallest covering sector (shortest arc from a data point
    covering all directions) is 360 minus the largest gap between cyclically adjacent distinct residues mod 360. -/
theorem sector_eq_sectorGap (xs : List Rat) (hne : xs ≠ []) : sector xs = sectorGap xs := by
  have hs1 : sector xs = sector (sortDistinct (xs.map fun v => rmod v 360)) := by
    rw [← sector_residues xs]
    exact sector_congr_mem _ _ (fun x => (mem_sortDistinct x _).symm)
  have hp := sortDistinct_pairwise (xs.map fun v => rmod v 360)
  have hr : ∀ x ∈ sortDistinct (xs.map fun v => rmod v 360), 0 ≤ x ∧ x < 360 := by
    intro x hx
    obtain ⟨v, _, rfl⟩ := List.mem_map.mp ((mem_sortDistinct x _).mp hx)
    exact ⟨rmod360_nonneg v, rmod360_lt v⟩
  have hn : sortDistinct (xs.map fun v => rmod v 360) ≠ [] := by
    obtain ⟨a, t, rfl⟩ := List.exists_cons_of_ne_nil hne
    intro h
    have hm : rmod a 360 ∈ sortDistinct ((a :: t).map fun v => rmod v 360) :=
      (mem_sortDistinct _ _).mpr (by simp)
    rw [h] at hm; simp at hm
  rw [hs1]; unfold sectorGap
  generalize sortDistinct (xs.map fun v => rmod v 360) = s at *
  cases s with
  | nil => exact absurd rfl hn
  | cons a t =>
    show sector (a :: t) = 360 - maxL ((360 - (a :: t).getLastD a + a) :: gaps (a :: t))
    rw [List.getLastD_cons]
    exact sector_sorted a t hp hr

example : ([350, 10, 100] : List Rat) ≠ [] := by simp

theorem sector_eq_sectorGap_example :
    sector [350, 10, 100, 10] = 110 ∧ sectorGap [350, 10, 100, 10] = 110 := by decide +kernel

end SV.Spec.FlipFlop
