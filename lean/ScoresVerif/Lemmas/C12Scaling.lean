/-
  Lemmas/C12Scaling — the Appendix-B loop of `_scaling_to_weight_matrix` (model `Model.Firm.scalingToWeightMatrix`) in closed
  form.  Part 1 (no hypothesis on the scaling matrix): the nested `foldl` with in-place updates equals a tabulated matrix
  whose entry is a fold over the levels of "this column's crossover was accepted at this row".  Part 2 (documented domain):
  accepted crossovers = corner points of the staircase {S ≥ level} of height ≤ max_level.
-/
import ScoresVerif.Lemmas.Firm
import Mathlib.Tactic.Linarith
import Mathlib.Algebra.BigOperators.Group.List.Basic
import Mathlib.Algebra.BigOperators.Ring.List

set_option linter.unusedSimpArgs false
set_option linter.unusedVariables false

namespace SV.Lemmas.C12Scaling
open SV SV.Fl
open SV.Spec.Firm
open SV.Model.Firm (modifyAt levelStep scalingToWeightMatrix argmaxGe idxOf?)

/-! ### tabulated matrices and in-place updates -/

/-- the n × m matrix with entry `F a b` -/
def tab {α : Type} (n m : Nat) (F : Nat → Nat → α) : List (List α) :=
  (List.range n).map fun a => (List.range m).map fun b => F a b

theorem modifyAt_eq_modify {α : Type} (l : List α) (i : Nat) (f : α → α) : modifyAt l i f = l.modify i f := by
  induction l generalizing i with
  | nil => simp [modifyAt]
  | cons x xs ih => cases i <;> simp [modifyAt, ih]

theorem modifyAt_map_range {α : Type} (n : Nat) (g : Nat → α) (i : Nat) (f : α → α) :
    modifyAt ((List.range n).map g) i f = (List.range n).map (fun k => if k = i then f (g k) else g k) := by
  rw [modifyAt_eq_modify]
  apply List.ext_getElem?
  intro k
  rw [List.getElem?_modify, List.getElem?_map, List.getElem?_map]
  by_cases hk : k < n
  · rw [List.getElem?_range hk]
    by_cases hki : k = i
    · subst hki; simp
    · have : ¬ i = k := fun h => hki h.symm
      simp [hki, this]
  · have : (List.range n)[k]? = none := by
      rw [List.getElem?_eq_none_iff]; simpa using hk
    simp [this]

theorem tab_modify {α : Type} (n m : Nat) (F : Nat → Nat → α) (a b : Nat) (f : α → α) :
    modifyAt (tab n m F) a (fun row => modifyAt row b f)
      = tab n m (fun a' b' => if a' = a ∧ b' = b then f (F a' b') else F a' b') := by
  unfold tab
  rw [modifyAt_map_range]
  apply List.map_congr_left
  intro k _
  by_cases hk : k = a
  · simp only [hk, if_true, true_and]; rw [modifyAt_map_range]
  · simp [hk]

theorem tab_congr {α : Type} (n m : Nat) (F G : Nat → Nat → α) (h : ∀ a < n, ∀ b < m, F a b = G a b) :
    tab n m F = tab n m G := by
  unfold tab
  apply List.map_congr_left
  intro a ha
  apply List.map_congr_left
  intro b hb
  exact h a (List.mem_range.mp ha) b (List.mem_range.mp hb)

theorem tab_reverse {α : Type} (n m : Nat) (F : Nat → Nat → α) :
    (tab n m F).reverse = tab n m (fun i b => F (n - 1 - i) b) := by
  have hr : (List.range n).reverse = (List.range n).map (fun x => n - 1 - x) := by
    simpa [List.range_eq_range'] using (List.reverse_range' (s := 0) (n := n))
  unfold tab
  rw [← List.map_reverse, hr, List.map_map]
  rfl

theorem replicate_eq_tab {α : Type} (n m : Nat) (x : α) :
    List.replicate n (List.replicate m x) = tab n m (fun _ _ => x) := by
  unfold tab
  simp [List.map_const']

/-! ### part 1: the loop in closed form (any scaling matrix, any weights) -/

/-- `prob_index` of the code before the comparison with `lowest_prob_index`: height (counted from the bottom row = 0) of the
    lowest row of scaling column `c + 1` that reaches level `l`; 0 = none (or the bottom row itself) -/
def cross (S : List (List Nat)) (l c : Nat) : Nat :=
  argmaxGe ((S.map fun row => row.getD (c + 1) 0).reverse) l

/-- `lowest_prob_index` before column `c` is processed -/
def low (S : List (List Nat)) (ML l : Nat) : Nat → Nat
  | 0 => ML + 1
  | c + 1 =>
    if cross S l c ≥ low S ML l c then low S ML l c
    else if cross S l c > 0 then cross S l c else low S ML l c

/-- column `c` receives the weight of level `l` (at row `cross S l c`) -/
abbrev acc (S : List (List Nat)) (ML l c : Nat) : Prop := 0 < cross S l c ∧ cross S l c < low S ML l c

theorem levelStep_tab (S : List (List Nat)) (w : List Fl) (l n m : Nat) (F : Nat → Nat → Fl) (lo c : Nat) :
    levelStep S w l (tab n m F, lo) c =
      if 0 < cross S l c ∧ cross S l c < lo then
        (tab n m (fun a b => if a = cross S l c - 1 ∧ b = c then Fl.add (F a b) (w.getD (l - 1) nan) else F a b), cross S l c)
      else (tab n m F, lo) := by
  unfold levelStep cross
  simp only [Nat.add_sub_cancel]
  generalize argmaxGe ((S.map fun row => row.getD (c + 1) 0).reverse) l = p
  by_cases h1 : p ≥ lo
  · have : ¬ (0 < p ∧ p < lo) := fun h => by omega
    simp [h1, this]
  · by_cases h2 : p > 0
    · have : 0 < p ∧ p < lo := ⟨h2, by omega⟩
      simp only [h1, if_false, h2, if_true, this]
      rw [tab_modify]; simp
    · have : ¬ (0 < p ∧ p < lo) := fun h => h2 h.1
      simp [h1, h2, this]

theorem level_fold (S : List (List Nat)) (w : List Fl) (l ML n m : Nat) (F : Nat → Nat → Fl) (c : Nat) :
    (List.range c).foldl (levelStep S w l) (tab n m F, ML + 1) =
      (tab n m (fun a b => if b < c ∧ acc S ML l b ∧ cross S l b = a + 1 then Fl.add (F a b) (w.getD (l - 1) nan) else F a b),
        low S ML l c) := by
  induction c with
  | zero => simp [low]
  | succ c ih =>
    rw [List.range_succ, List.foldl_append, ih, List.foldl_cons, List.foldl_nil, levelStep_tab]
    by_cases hacc : 0 < cross S l c ∧ cross S l c < low S ML l c
    · rw [if_pos hacc]
      have hlow : low S ML l (c + 1) = cross S l c := by
        rw [low]; rw [if_neg (by omega), if_pos hacc.1]
      rw [hlow]
      congr 1
      congr 1
      funext a b
      by_cases hb : b = c
      · subst hb
        have e1 : (a = cross S l b - 1) ↔ (cross S l b = a + 1) := by omega
        simp [acc, hacc, e1]
      · have e2 : (b < c + 1) ↔ (b < c) := by omega
        simp [hb, e2]
    · rw [if_neg hacc]
      have hlow : low S ML l (c + 1) = low S ML l c := by
        rw [low]
        by_cases h1 : cross S l c ≥ low S ML l c
        · rw [if_pos h1]
        · rw [if_neg h1, if_neg (fun h => hacc ⟨h, by omega⟩)]
      rw [hlow]
      congr 1
      congr 1
      funext a b
      by_cases hb : b = c
      · subst hb
        simp [acc, hacc]
      · have e2 : (b < c + 1) ↔ (b < c) := by omega
        simp [hb, e2]

/-- entry (height a + 1, column b) after the first `K` levels -/
def H (S : List (List Nat)) (w : List Fl) (ML K a b : Nat) : Fl :=
  (List.range K).foldl (fun x l0 =>
    if acc S ML (l0 + 1) b ∧ cross S (l0 + 1) b = a + 1 then Fl.add x (w.getD l0 nan) else x) (fin 0)

theorem levels_fold (S : List (List Nat)) (w : List Fl) (ML n m K : Nat) :
    (List.range K).foldl (fun wts l0 => ((List.range m).foldl (levelStep S w (l0 + 1)) (wts, ML + 1)).1)
        (tab n m fun _ _ => fin 0)
      = tab n m (fun a b => H S w ML K a b) := by
  induction K with
  | zero => simp [H]
  | succ K ih =>
    rw [List.range_succ, List.foldl_append, ih, List.foldl_cons, List.foldl_nil, level_fold]
    simp only [Nat.add_sub_cancel]
    apply tab_congr
    intro a _ b hb
    simp only [H, List.range_succ, List.foldl_append, List.foldl_cons, List.foldl_nil, hb, true_and]

/-- the model of `_scaling_to_weight_matrix` in closed form, for every scaling matrix and weight list -/
theorem scaling_closed_form (S : List (List Nat)) (w : List Fl) :
    scalingToWeightMatrix S w =
      tab (S.length - 1) ((S.headD []).length - 1) (fun i b =>
        H S w (Nat.max (S.flatten.foldl Nat.max 0) w.length) (Nat.max (S.flatten.foldl Nat.max 0) w.length)
          (S.length - 1 - 1 - i) b) := by
  unfold scalingToWeightMatrix
  simp only
  rw [replicate_eq_tab, levels_fold, tab_reverse]

/-! ### part 2: on the documented domain, accepted crossovers = staircase corners of height ≤ max_level -/

theorem sAt_of_lt (S : List (List Nat)) (i j : Nat) (hi : i < S.length) : sAt S i j = (S[i]).getD j 0 := by
  unfold sAt
  simp [List.getD, List.getElem?_eq_getElem hi]

/-- entry `r` of the flipped scaling column = the scaling matrix at height `r` -/
theorem colrev_get (S : List (List Nat)) (c r : Nat) (hr : r < S.length)
    (h : r < ((S.map fun row => row.getD (c + 1) 0).reverse).length) :
    ((S.map fun row => row.getD (c + 1) 0).reverse)[r] = sAt S (S.length - 1 - r) (c + 1) := by
  rw [List.getElem_reverse, List.getElem_map, sAt_of_lt S _ _ (by omega)]
  simp

/-- a positive crossover index points at the lowest row reaching the level -/
theorem cross_pos_spec (S : List (List Nat)) (l c : Nat) (h : 0 < cross S l c) :
    cross S l c < S.length ∧ l ≤ sAt S (S.length - 1 - cross S l c) (c + 1) ∧
      ∀ r' < cross S l c, sAt S (S.length - 1 - r') (c + 1) < l := by
  unfold cross argmaxGe at h ⊢
  cases hf : List.findIdx? (fun v => decide (l ≤ v)) (S.map fun row => row.getD (c + 1) 0).reverse with
  | none => rw [hf] at h; simp at h
  | some i =>
    simp only [hf]
    obtain ⟨hlt, hp, hall⟩ := List.findIdx?_eq_some_iff_getElem.mp hf
    have hi : i < S.length := by simpa using hlt
    refine ⟨hi, ?_, ?_⟩
    · rw [colrev_get S c i hi hlt] at hp; simpa using hp
    · intro r' hr'
      have := hall r' hr'
      rw [colrev_get S c r' (by omega) (by omega)] at this
      simpa using this

/-- if height `r` reaches the level and the bottom row does not, the crossover index is positive and at most `r` -/
theorem cross_le_of_reach (S : List (List Nat)) (l c r : Nat) (hr : r < S.length)
    (hreach : l ≤ sAt S (S.length - 1 - r) (c + 1)) (hbot : sAt S (S.length - 1) (c + 1) < l) :
    0 < cross S l c ∧ cross S l c ≤ r := by
  unfold cross argmaxGe
  have hlen : ((S.map fun row => row.getD (c + 1) 0).reverse).length = S.length := by simp
  cases hf : List.findIdx? (fun v => decide (l ≤ v)) (S.map fun row => row.getD (c + 1) 0).reverse with
  | none =>
    exfalso
    rw [List.findIdx?_eq_none_iff] at hf
    have := hf _ (List.getElem_mem (l := (S.map fun row => row.getD (c + 1) 0).reverse) (by omega : r < _))
    rw [colrev_get S c r hr (by omega)] at this
    simp at this; omega
  | some i =>
    simp only
    obtain ⟨hlt, hp, hall⟩ := List.findIdx?_eq_some_iff_getElem.mp hf
    have hi : i < S.length := by omega
    constructor
    · rcases Nat.eq_zero_or_pos i with h0 | h0
      · exfalso
        subst h0
        rw [colrev_get S c 0 hi hlt] at hp
        simp at hp; omega
      · exact h0
    · by_contra hgt
      have := hall r (by omega)
      rw [colrev_get S c r hr (by omega)] at this
      simp at this; omega

/-- `lowest_prob_index` = min(max_level + 1, positive crossovers of the columns already seen) -/
theorem low_spec (S : List (List Nat)) (ML l j : Nat) :
    low S ML l j ≤ ML + 1 ∧ (∀ j' < j, 0 < cross S l j' → low S ML l j ≤ cross S l j') ∧
      (low S ML l j = ML + 1 ∨ ∃ j' < j, 0 < cross S l j' ∧ low S ML l j = cross S l j') := by
  induction j with
  | zero => exact ⟨by simp [low], by intro j' h; omega, Or.inl (by simp [low])⟩
  | succ j ih =>
    obtain ⟨h1, h2, h3⟩ := ih
    have hcases : (low S ML l (j + 1) = low S ML l j ∧ (cross S l j ≥ low S ML l j ∨ cross S l j = 0)) ∨
        (low S ML l (j + 1) = cross S l j ∧ 0 < cross S l j ∧ cross S l j < low S ML l j) := by
      rw [low]
      by_cases ha : cross S l j ≥ low S ML l j
      · left; rw [if_pos ha]; exact ⟨rfl, Or.inl ha⟩
      · rw [if_neg ha]
        by_cases hb : cross S l j > 0
        · right; rw [if_pos hb]; exact ⟨rfl, hb, by omega⟩
        · left; rw [if_neg hb]; exact ⟨rfl, Or.inr (by omega)⟩
    rcases hcases with ⟨e, hc⟩ | ⟨e, hc1, hc2⟩
    · rw [e]
      refine ⟨h1, ?_, ?_⟩
      · intro j' hj' hpos
        rcases Nat.lt_succ_iff_lt_or_eq.mp hj' with hlt | heq
        · exact h2 j' hlt hpos
        · subst heq; rcases hc with hc | hc <;> omega
      · rcases h3 with h3 | ⟨j', hj', hp, he⟩
        · exact Or.inl h3
        · exact Or.inr ⟨j', by omega, hp, he⟩
    · rw [e]
      refine ⟨by omega, ?_, Or.inr ⟨j, by omega, hc1, rfl⟩⟩
      intro j' hj' hpos
      rcases Nat.lt_succ_iff_lt_or_eq.mp hj' with hlt | heq
      · have := h2 j' hlt hpos; omega
      · subst heq; exact le_refl _

theorem col_mono (S : List (List Nat)) (nw : Nat) (hd : scalingDocDomain S nw) (j : Nat) (hj : j < (S.headD []).length)
    (i k : Nat) (hk : i + k < S.length) : sAt S (i + k) j ≤ sAt S i j := by
  induction k with
  | zero => exact le_refl _
  | succ k ih =>
    have := hd.2.2.2.1 (i + k) (by omega) (by omega) j hj
    exact le_trans this (ih (by omega))

theorem row_mono (S : List (List Nat)) (nw : Nat) (hd : scalingDocDomain S nw) (i : Nat) (hi : i < S.length)
    (j k : Nat) (hk : j + k < (S.headD []).length) : sAt S i j ≤ sAt S i (j + k) := by
  induction k with
  | zero => exact le_refl _
  | succ k ih =>
    have := hd.2.2.1 i hi (j + k) (by omega) (by omega)
    exact le_trans (ih (by omega)) this

/-- the loop puts the weight of level `l` on decision point (row i, column j) iff that point is a corner of the staircase
    {S ≥ l} AND its height `S.length − 1 − i` does not exceed `max_level` (the initial `lowest_prob_index − 1`) -/
theorem acc_iff_corner (S : List (List Nat)) (nw ML : Nat) (hd : scalingDocDomain S nw) (l i j : Nat) (hl : 1 ≤ l)
    (hi : i < S.length - 1) (hj : j < (S.headD []).length - 1) :
    (acc S ML l j ∧ cross S l j = (S.length - 1 - 1 - i) + 1) ↔ (isCorner S l i j = true ∧ S.length - 1 - i ≤ ML) := by
  obtain ⟨hcol0, hrow0, hrow, hcol, _⟩ := id hd
  have hbot : ∀ c, c + 1 < (S.headD []).length → sAt S (S.length - 1) (c + 1) < l := by
    intro c hc; rw [hrow0 (c + 1) hc]; omega
  have hr : S.length - 1 - 1 - i + 1 = S.length - 1 - i := by omega
  rw [hr]
  simp only [isCorner, Bool.and_eq_true, decide_eq_true_eq]
  constructor
  · rintro ⟨⟨hpos, hlt⟩, hc⟩
    have lw1 := (low_spec S ML l j).1
    have lw2 := (low_spec S ML l j).2.1
    obtain ⟨_, c2, c3⟩ := cross_pos_spec S l j hpos
    rw [hc] at c2 c3 hlt
    have e1 : S.length - 1 - (S.length - 1 - i) = i := by omega
    rw [e1] at c2
    refine ⟨⟨⟨c2, ?_⟩, ?_⟩, by omega⟩
    · have := c3 (S.length - 1 - i - 1) (by omega)
      have e2 : S.length - 1 - (S.length - 1 - i - 1) = i + 1 := by omega
      rwa [e2] at this
    · rcases Nat.eq_zero_or_pos j with h0 | h0
      · subst h0; rw [hcol0 i (by omega)]; omega
      · by_contra hge
        have hge : l ≤ sAt S i j := by omega
        obtain ⟨j0, rfl⟩ : ∃ j0, j = j0 + 1 := ⟨j - 1, by omega⟩
        have := cross_le_of_reach S l j0 (S.length - 1 - i) (by omega) (by rw [e1]; exact hge) (hbot j0 (by omega))
        have := lw2 j0 (by omega) this.1
        omega
  · rintro ⟨⟨⟨h1, h2⟩, h3⟩, hML⟩
    have e1 : S.length - 1 - (S.length - 1 - i) = i := by omega
    have hreach := cross_le_of_reach S l j (S.length - 1 - i) (by omega) (by rw [e1]; exact h1) (hbot j (by omega))
    have hcross : cross S l j = S.length - 1 - i := by
      by_contra hne
      have hlt : cross S l j < S.length - 1 - i := by omega
      obtain ⟨_, c2, _⟩ := cross_pos_spec S l j hreach.1
      -- the row at height `cross` is at or below row i + 1
      have := col_mono S nw hd (j + 1) (by omega) (i + 1) (S.length - 1 - cross S l j - (i + 1)) (by omega)
      have e3 : i + 1 + (S.length - 1 - cross S l j - (i + 1)) = S.length - 1 - cross S l j := by omega
      rw [e3] at this
      omega
    refine ⟨⟨hreach.1, ?_⟩, hcross⟩
    rw [hcross]
    rcases (low_spec S ML l j).2.2 with lw3 | ⟨j', hj', hp, he⟩
    · omega
    · rw [he]
      by_contra hle
      have hle : cross S l j' ≤ S.length - 1 - i := by omega
      obtain ⟨q1, q2, _⟩ := cross_pos_spec S l j' hp
      have m1 := col_mono S nw hd (j' + 1) (by omega) i (S.length - 1 - cross S l j' - i) (by omega)
      have e4 : i + (S.length - 1 - cross S l j' - i) = S.length - 1 - cross S l j' := by omega
      rw [e4] at m1
      have m2 := row_mono S nw hd i (by omega) (j' + 1) (j - (j' + 1)) (by omega)
      have e5 : j' + 1 + (j - (j' + 1)) = j := by omega
      rw [e5] at m2
      omega

/-! ### finite weights: the entry is the exact sum -/

theorem foldl_cond_fin (ws : List Rat) (P : Nat → Prop) [DecidablePred P] (K : Nat) (hK : K ≤ ws.length) :
    (List.range K).foldl (fun x l0 => if P l0 then Fl.add x ((ws.map fin).getD l0 nan) else x) (fin 0)
      = fin (((List.range K).map fun l0 => if P l0 then ws.getD l0 0 else 0).sum) := by
  induction K with
  | zero => simp
  | succ K ih =>
    rw [List.range_succ, List.foldl_append, ih (by omega), List.foldl_cons, List.foldl_nil, List.map_append,
      List.sum_append]
    have hK' : K < ws.length := by omega
    have e : (ws.map fin).getD K nan = fin (ws.getD K 0) := by
      simp [List.getD, List.getElem?_eq_getElem hK']
    by_cases hp : P K
    · simp only [hp, if_true, e, add_fin, List.map_cons, List.map_nil, List.sum_cons, List.sum_nil, add_zero]
    · simp [hp]

theorem max_len (S : List (List Nat)) (nw : Nat) (h : S.flatten.foldl Nat.max 0 ≤ nw) :
    Nat.max (S.flatten.foldl Nat.max 0) nw = nw := Nat.max_eq_right h

theorem tab_map_fin (n m : Nat) (G : Nat → Nat → Rat) :
    (tab n m G).map (fun row => row.map fin) = tab n m (fun a b => fin (G a b)) := by
  unfold tab
  simp [List.map_map, Function.comp]

/-- on the documented domain the model returns the corner weights for the rows of height ≤ number of assessment weights and
    0 above -/
theorem scaling_eq_cut (S : List (List Nat)) (ws : List Rat) (hd : scalingDocDomain S ws.length) :
    scalingToWeightMatrix S (ws.map fin) = (scalingWeightsCut S ws).map (fun row => row.map fin) := by
  rw [scaling_closed_form]
  have hML : Nat.max (S.flatten.foldl Nat.max 0) (ws.map fin).length = ws.length := by
    rw [List.length_map]; exact max_len S _ hd.2.2.2.2
  rw [hML]
  unfold scalingWeightsCut
  change _ = (tab _ _ _).map _
  rw [tab_map_fin]
  apply tab_congr
  intro i hi j hj
  unfold H
  rw [foldl_cond_fin ws _ ws.length (le_refl _)]
  congr 1
  by_cases hh : S.length - 1 - i ≤ ws.length
  · rw [if_pos hh]
    unfold scalingWeight
    congr 1
    apply List.map_congr_left
    intro l0 _
    have := acc_iff_corner S ws.length ws.length hd (l0 + 1) i j (by omega) hi hj
    by_cases hc : isCorner S (l0 + 1) i j = true
    · rw [if_pos hc, if_pos (this.mpr ⟨hc, hh⟩)]
    · rw [if_neg hc, if_neg (fun h => hc (this.mp h).1)]
  · rw [if_neg hh]
    apply List.sum_eq_zero
    intro x hx
    rw [List.mem_map] at hx
    obtain ⟨l0, _, rfl⟩ := hx
    have := acc_iff_corner S ws.length ws.length hd (l0 + 1) i j (by omega) hi hj
    rw [if_neg (fun h => hh (this.mp h).2)]

theorem scaling_eq_spec (S : List (List Nat)) (ws : List Rat) (hd : scalingDomain S ws.length) :
    scalingToWeightMatrix S (ws.map fin) = (scalingWeights S ws).map (fun row => row.map fin) := by
  rw [scaling_eq_cut S ws hd.1]
  congr 1
  unfold scalingWeightsCut scalingWeights
  apply List.map_congr_left
  intro i hi
  apply List.map_congr_left
  intro j _
  have := hd.2
  rw [if_pos (by omega)]

/-! ### sums over lists, the risk matrix score of a tabulated weight matrix, label lookup -/

theorem list_sum_comm {α β : Type} (A : List α) (B : List β) (f : α → β → Rat) :
    (A.map fun a => (B.map fun b => f a b).sum).sum = (B.map fun b => (A.map fun a => f a b).sum).sum := by
  induction A with
  | nil => simp
  | cons a A ih => simp only [List.map_cons, List.sum_cons, ih, List.sum_map_add]

theorem rmScore_tab (lower : Bool) (fo : List (Rat × Rat)) (probs : List Rat) (n m : Nat) (F : Nat → Nat → Rat) :
    rmScore lower fo (probs.zip (tab n m F))
      = ((probs.zip (List.range n)).map fun pi => ((fo.zip (List.range m)).map fun cj =>
          F pi.2 cj.2 * rmPenalty lower cj.1.1 cj.1.2 pi.1).sum).sum := by
  unfold rmScore tab
  rw [List.zip_map_right, List.map_map]
  congr 1; apply List.map_congr_left; intro pi _
  simp only [Function.comp, Prod.map, id]
  rw [List.zip_map_right, List.map_map]
  rfl

theorem idxOf?_getElem {α : Type} [BEq α] [LawfulBEq α] (l : List α) (hn : l.Nodup) (k : Nat) (x : α)
    (hk : l[k]? = some x) : idxOf? x l = some k := by
  induction l generalizing k with
  | nil => simp at hk
  | cons y ys ih =>
    rw [List.nodup_cons] at hn
    cases k with
    | zero =>
      simp at hk; subst hk; simp [idxOf?]
    | succ k =>
      simp at hk
      have hne : (x == y) = false := by
        rw [beq_eq_false_iff_ne]
        intro h; subst h
        exact hn.1 (List.mem_of_getElem? hk)
      simp [idxOf?, hne, ih hn.2 k hk]

/-! ### every cell of the staircase {S ≥ l} has a corner of that staircase below-left of it -/

theorem corner_below (S : List (List Nat)) (nw : Nat) (hd : scalingDocDomain S nw) (l : Nat) (hl : 1 ≤ l) (k : Nat) :
    ∀ i j, (S.length - i) + j ≤ k → i < S.length → j + 1 < (S.headD []).length → l ≤ sAt S i (j + 1) →
      ∃ i' j', i ≤ i' ∧ i' < S.length - 1 ∧ j' ≤ j ∧ isCorner S l i' j' = true := by
  obtain ⟨hcol0, hrow0, _, _, _⟩ := id hd
  induction k with
  | zero => intro i j hk hi; omega
  | succ k ih =>
    intro i j hk hi hj hreach
    have hi1 : i < S.length - 1 := by
      by_contra hge
      have : i = S.length - 1 := by omega
      rw [this, hrow0 (j + 1) hj] at hreach
      omega
    by_cases hb : l ≤ sAt S (i + 1) (j + 1)
    · obtain ⟨i', j', h1, h2, h3, h4⟩ := ih (i + 1) j (by omega) (by omega) hj hb
      exact ⟨i', j', by omega, h2, h3, h4⟩
    · by_cases hleft : l ≤ sAt S i j
      · rcases Nat.eq_zero_or_pos j with h0 | h0
        · subst h0; rw [hcol0 i hi] at hleft; omega
        · obtain ⟨j0, rfl⟩ : ∃ j0, j = j0 + 1 := ⟨j - 1, by omega⟩
          obtain ⟨i', j', h1, h2, h3, h4⟩ := ih i j0 (by omega) hi (by omega) hleft
          exact ⟨i', j', h1, h2, by omega, h4⟩
      · refine ⟨i, j, le_refl _, hi1, le_refl _, ?_⟩
        simp only [isCorner, Bool.and_eq_true, decide_eq_true_eq]
        exact ⟨⟨hreach, by omega⟩, by omega⟩

/-! ### the warning level issued by the service that the scaling matrix encodes -/

theorem le_foldl_max (L : List Nat) (a l : Nat) : l ≤ L.foldl Nat.max a ↔ l ≤ a ∨ ∃ x ∈ L, l ≤ x := by
  induction L generalizing a with
  | nil => simp
  | cons y ys ih =>
    rw [List.foldl_cons, ih]
    have hm : l ≤ Nat.max a y ↔ l ≤ a ∨ l ≤ y := le_max_iff
    rw [hm]
    simp only [List.mem_cons, exists_eq_or_imp, or_assoc]

theorem above_mono (lower : Bool) (f f' p p' : Rat) (hf : f ≤ f') (hp : p' ≤ p) (h : above lower f p) : above lower f' p' := by
  unfold above at h ⊢
  cases lower
  · simp only [Bool.false_eq_true, if_false] at h ⊢; linarith
  · simp only [if_true] at h ⊢; linarith

theorem certaintyRow_le_length (lower : Bool) (probs : List Rat) (f : Rat) : certaintyRow lower probs f ≤ probs.length := by
  unfold certaintyRow
  cases hf : probs.findIdx? (fun p => decide (above lower f p)) with
  | none => simp
  | some i =>
    obtain ⟨hlt, _, _⟩ := List.findIdx?_eq_some_iff_getElem.mp hf
    simp; omega

theorem certaintyRow_above (lower : Bool) (probs : List Rat) (f : Rat) (h : certaintyRow lower probs f < probs.length) :
    above lower f (probs.getD (certaintyRow lower probs f) 0) := by
  unfold certaintyRow at h ⊢
  cases hf : probs.findIdx? (fun p => decide (above lower f p)) with
  | none => rw [hf] at h; simp at h
  | some i =>
    obtain ⟨hlt, hp, _⟩ := List.findIdx?_eq_some_iff_getElem.mp hf
    simp only [Option.getD_some]
    have : probs.getD i 0 = probs[i] := by simp [List.getD, List.getElem?_eq_getElem hlt]
    rw [this]; simpa using hp

theorem certaintyRow_le (lower : Bool) (probs : List Rat) (f : Rat) (i : Nat) (hi : i < probs.length)
    (h : above lower f (probs.getD i 0)) : certaintyRow lower probs f ≤ i := by
  have e : probs.getD i 0 = probs[i] := by simp [List.getD, List.getElem?_eq_getElem hi]
  rw [e] at h
  unfold certaintyRow
  cases hf : probs.findIdx? (fun p => decide (above lower f p)) with
  | none =>
    exfalso
    rw [List.findIdx?_eq_none_iff] at hf
    have := hf _ (List.getElem_mem hi)
    simp at this; exact this h
  | some i' =>
    obtain ⟨hlt, _, hall⟩ := List.findIdx?_eq_some_iff_getElem.mp hf
    simp only [Option.getD_some]
    by_contra hgt
    have := hall i (by omega)
    simp at this; exact this h

theorem getD_antitone (l : List Rat) (hl : l.Pairwise (· ≥ ·)) (i j : Nat) (hij : i ≤ j) (hj : j < l.length) :
    l.getD j 0 ≤ l.getD i 0 := by
  have e1 : l.getD i 0 = l[i]'(by omega) := by simp [List.getD, List.getElem?_eq_getElem (show i < l.length by omega)]
  have e2 : l.getD j 0 = l[j] := by simp [List.getD, List.getElem?_eq_getElem hj]
  rw [e1, e2]
  rcases Nat.lt_or_eq_of_le hij with h | h
  · exact List.pairwise_iff_getElem.mp hl i j (by omega) hj h
  · subst h; exact le_refl _

end SV.Lemmas.C12Scaling
