/-
  Lemmas for C17 (CDF repair tools): running maxima on rationals, NaN-skipping, fill primitives.
-/
import ScoresVerif.Model.Cdf
import ScoresVerif.Spec.Cdf
import ScoresVerif.Lemmas.FlBasic
import Mathlib.Data.List.Chain
import Mathlib.Data.List.Forall2
import Mathlib.Order.MinMax
import Mathlib.Data.Rat.Floor
import Mathlib.Algebra.Order.Floor.Ring

namespace SV.Lemmas.Cdf
open SV SV.Model.Cdf
open SV.Fl (fin nan)

/-- every entry is a finite number or NaN (no infinities) -/
def NoInf (xs : List Fl) : Prop := ∀ x ∈ xs, x = nan ∨ ∃ q, x = fin q

theorem NoInf.cons {x : Fl} {xs : List Fl} (h : NoInf (x :: xs)) : (x = nan ∨ ∃ q, x = fin q) ∧ NoInf xs :=
  ⟨h x (by simp), fun y hy => h y (by simp [hy])⟩

theorem noInf_map_fin (qs : List Rat) : NoInf (qs.map fin) := by
  intro x hx; simp at hx; obtain ⟨q, _, rfl⟩ := hx; exact Or.inr ⟨q, rfl⟩

/-! ### running maximum / minimum of rationals -/

def accMaxQ : Rat → List Rat → List Rat
  | _, [] => []
  | m, x :: xs => max m x :: accMaxQ (max m x) xs

/-- running maximum -/
def runMaxQ : List Rat → List Rat
  | [] => []
  | x :: xs => x :: accMaxQ x xs

def accMinQ : Rat → List Rat → List Rat
  | _, [] => []
  | m, x :: xs => min m x :: accMinQ (min m x) xs

/-- running minimum -/
def runMinQ : List Rat → List Rat
  | [] => []
  | x :: xs => x :: accMinQ x xs

/-- reverse running minimum: element `i` is the minimum of the entries at positions `≥ i` -/
def revMinQ (q : List Rat) : List Rat := (runMinQ q.reverse).reverse

@[simp] theorem accMaxQ_length (m : Rat) (q : List Rat) : (accMaxQ m q).length = q.length := by
  induction q generalizing m with
  | nil => rfl
  | cons x xs ih => simp [accMaxQ, ih]

@[simp] theorem runMaxQ_length (q : List Rat) : (runMaxQ q).length = q.length := by
  cases q <;> simp [runMaxQ]

/-- prefix maximum: entry `i` of the running maximum is the maximum of the first `i+1` entries -/
theorem accMaxQ_getElem? (m : Rat) (q : List Rat) (i : Nat) (hi : i < q.length) :
    (accMaxQ m q)[i]? = some ((q.take (i + 1)).foldl max m) := by
  induction q generalizing m i with
  | nil => simp at hi
  | cons x xs ih =>
    cases i with
    | zero => simp [accMaxQ]
    | succ i =>
      simp only [List.length_cons, Nat.add_lt_add_iff_right] at hi
      simp [accMaxQ, ih (max m x) i hi]

theorem runMaxQ_getElem? (x : Rat) (q : List Rat) (i : Nat) (hi : i < (x :: q).length) :
    (runMaxQ (x :: q))[i]? = some (((x :: q).take (i + 1)).foldl max x) := by
  cases i with
  | zero => simp [runMaxQ]
  | succ i =>
    simp only [List.length_cons, Nat.add_lt_add_iff_right] at hi
    simp [runMaxQ, accMaxQ_getElem? x q i hi]

/-- all entries of `accMaxQ m q` are ≥ m and the list is non-decreasing -/
theorem accMaxQ_chain (m : Rat) (q : List Rat) : List.IsChain (· ≤ ·) (m :: accMaxQ m q) := by
  induction q generalizing m with
  | nil => simp [accMaxQ]
  | cons x xs ih =>
    simp only [accMaxQ]
    exact List.IsChain.cons_cons (le_max_left m x) (ih (max m x))

/-- the running maximum is non-decreasing -/
theorem runMaxQ_chain (q : List Rat) : List.IsChain (· ≤ ·) (runMaxQ q) := by
  cases q with
  | nil => simp [runMaxQ]
  | cons x xs => exact accMaxQ_chain x xs

theorem accMaxQ_ge (m : Rat) (q : List Rat) : List.Forall₂ (· ≤ ·) q (accMaxQ m q) := by
  induction q generalizing m with
  | nil => simp [accMaxQ]
  | cons x xs ih => exact List.Forall₂.cons (le_max_right m x) (ih (max m x))

/-- the running maximum dominates the input pointwise -/
theorem runMaxQ_ge (q : List Rat) : List.Forall₂ (· ≤ ·) q (runMaxQ q) := by
  cases q with
  | nil => simp [runMaxQ]
  | cons x xs => exact List.Forall₂.cons le_rfl (accMaxQ_ge x xs)

theorem accMaxQ_least (m b : Rat) (q ys : List Rat) (hq : List.Forall₂ (· ≤ ·) q ys)
    (hs : List.IsChain (· ≤ ·) (b :: ys)) (hm : m ≤ b) : List.Forall₂ (· ≤ ·) (accMaxQ m q) ys := by
  induction hq generalizing m b with
  | nil => simp [accMaxQ]
  | @cons x y xs ys hxy _ ih =>
    have hby : b ≤ y := (List.isChain_cons_cons.mp hs).1
    have hs' : List.IsChain (· ≤ ·) (y :: ys) := (List.isChain_cons_cons.mp hs).2
    have : max m x ≤ y := max_le (hm.trans hby) hxy
    exact List.Forall₂.cons this (ih (max m x) y hs' this)

/-- LEAST monotone majorant: every non-decreasing list that dominates the input dominates the running maximum -/
theorem runMaxQ_least (q ys : List Rat) (hq : List.Forall₂ (· ≤ ·) q ys) (hs : List.IsChain (· ≤ ·) ys) :
    List.Forall₂ (· ≤ ·) (runMaxQ q) ys := by
  cases hq with
  | nil => simp [runMaxQ]
  | @cons x y xs ys hxy hrest =>
    exact List.Forall₂.cons hxy (accMaxQ_least x y xs ys hrest hs hxy)

theorem accMaxQ_of_chain (m : Rat) (q : List Rat) (hs : List.IsChain (· ≤ ·) (m :: q)) : accMaxQ m q = q := by
  induction q generalizing m with
  | nil => rfl
  | cons x xs ih =>
    have hmx : m ≤ x := (List.isChain_cons_cons.mp hs).1
    have hs' := (List.isChain_cons_cons.mp hs).2
    simp only [accMaxQ, max_eq_right hmx, ih x hs']

/-- a non-decreasing input is its own running maximum -/
theorem runMaxQ_of_chain (q : List Rat) (hs : List.IsChain (· ≤ ·) q) : runMaxQ q = q := by
  cases q with
  | nil => rfl
  | cons x xs => simp [runMaxQ, accMaxQ_of_chain x xs hs]

/-! duality: running minimum = − running maximum of the negated list -/

theorem max_neg_neg' (a b : Rat) : max (-a) (-b) = -(min a b) := by
  rcases le_total a b with h | h <;> simp [h]

theorem accMinQ_eq_neg (m : Rat) (q : List Rat) :
    accMinQ m q = (accMaxQ (-m) (q.map (- ·))).map (- ·) := by
  induction q generalizing m with
  | nil => rfl
  | cons x xs ih =>
    simp [accMinQ, accMaxQ, ih, max_neg_neg']

theorem runMinQ_eq_neg (q : List Rat) : runMinQ q = (runMaxQ (q.map (- ·))).map (- ·) := by
  cases q with
  | nil => rfl
  | cons x xs => simp [runMinQ, runMaxQ, accMinQ_eq_neg]

theorem forall₂_neg {a b : List Rat} (h : List.Forall₂ (· ≤ ·) a b) :
    List.Forall₂ (· ≤ ·) (b.map (- ·)) (a.map (- ·)) := by
  induction h with
  | nil => simp
  | cons hab _ ih => exact List.Forall₂.cons (neg_le_neg hab) ih

theorem isChain_neg {a : List Rat} (h : List.IsChain (· ≤ ·) a) : List.IsChain (· ≥ ·) (a.map (- ·)) := by
  induction a with
  | nil => simp
  | cons x xs ih =>
    cases xs with
    | nil => simp
    | cons y ys =>
      have := List.isChain_cons_cons.mp h
      simp only [List.map_cons]
      exact List.IsChain.cons_cons (neg_le_neg this.1) (by simpa using ih this.2)

theorem isChain_neg' {a : List Rat} (h : List.IsChain (· ≥ ·) a) : List.IsChain (· ≤ ·) (a.map (- ·)) := by
  induction a with
  | nil => simp
  | cons x xs ih =>
    cases xs with
    | nil => simp
    | cons y ys =>
      have := List.isChain_cons_cons.mp h
      simp only [List.map_cons]
      exact List.IsChain.cons_cons (neg_le_neg this.1) (by simpa using ih this.2)

theorem map_neg_neg (a : List Rat) : (a.map (- ·)).map (- ·) = a := by simp

/-- the running minimum is non-increasing -/
theorem runMinQ_chain (q : List Rat) : List.IsChain (· ≥ ·) (runMinQ q) := by
  rw [runMinQ_eq_neg]; exact isChain_neg (runMaxQ_chain _)

theorem runMinQ_le (q : List Rat) : List.Forall₂ (· ≤ ·) (runMinQ q) q := by
  rw [runMinQ_eq_neg]
  have := forall₂_neg (runMaxQ_ge (q.map (- ·)))
  rwa [map_neg_neg] at this

theorem runMinQ_greatest (q ys : List Rat) (hq : List.Forall₂ (· ≤ ·) ys q) (hs : List.IsChain (· ≥ ·) ys) :
    List.Forall₂ (· ≤ ·) ys (runMinQ q) := by
  rw [runMinQ_eq_neg]
  have := forall₂_neg (runMaxQ_least (q.map (- ·)) (ys.map (- ·)) (forall₂_neg hq) (isChain_neg' hs))
  rwa [map_neg_neg] at this

theorem runMinQ_of_chain (q : List Rat) (hs : List.IsChain (· ≥ ·) q) : runMinQ q = q := by
  rw [runMinQ_eq_neg, runMaxQ_of_chain _ (isChain_neg' hs), map_neg_neg]

/-! reverse running minimum -/

theorem isChain_reverse_ge {a : List Rat} (h : List.IsChain (· ≥ ·) a) : List.IsChain (· ≤ ·) a.reverse := by
  rw [List.isChain_reverse]; exact h.imp (fun _ _ h => h)

theorem isChain_reverse_le {a : List Rat} (h : List.IsChain (· ≤ ·) a) : List.IsChain (· ≥ ·) a.reverse := by
  rw [List.isChain_reverse]; exact h.imp (fun _ _ h => h)

/-- the reverse running minimum is non-decreasing -/
theorem revMinQ_chain (q : List Rat) : List.IsChain (· ≤ ·) (revMinQ q) :=
  isChain_reverse_ge (runMinQ_chain _)

/-- … is dominated by the input pointwise -/
theorem revMinQ_le (q : List Rat) : List.Forall₂ (· ≤ ·) (revMinQ q) q := by
  have := List.rel_reverse (runMinQ_le q.reverse)
  simpa [revMinQ] using this

/-- GREATEST monotone minorant -/
theorem revMinQ_greatest (q ys : List Rat) (hq : List.Forall₂ (· ≤ ·) ys q) (hs : List.IsChain (· ≤ ·) ys) :
    List.Forall₂ (· ≤ ·) ys (revMinQ q) := by
  have := List.rel_reverse (runMinQ_greatest q.reverse ys.reverse (List.rel_reverse hq) (isChain_reverse_le hs))
  simpa [revMinQ] using this

/-- a non-decreasing input is its own reverse running minimum -/
theorem revMinQ_of_chain (q : List Rat) (hs : List.IsChain (· ≤ ·) q) : revMinQ q = q := by
  simp [revMinQ, runMinQ_of_chain _ (isChain_reverse_le hs)]

theorem forall₂_le_trans {a b c : List Rat} (h1 : List.Forall₂ (· ≤ ·) a b) (h2 : List.Forall₂ (· ≤ ·) b c) :
    List.Forall₂ (· ≤ ·) a c := by
  induction h1 generalizing c with
  | nil => cases h2; exact List.Forall₂.nil
  | cons hab _ ih =>
    cases h2 with
    | cons hbc hrest => exact List.Forall₂.cons (hab.trans hbc) (ih hrest)

/-- lower ≤ upper -/
theorem revMinQ_le_runMaxQ (q : List Rat) : List.Forall₂ (· ≤ ·) (revMinQ q) (runMaxQ q) := by
  exact forall₂_le_trans (revMinQ_le q) (runMaxQ_ge q)

/-! ### the model's envelopes, through `finVals` (NaN positions are preserved and ignored) -/

theorem fmax_fin_fin (m q : Rat) : Fl.fmax (fin m) (fin q) = fin (max m q) := by
  rcases le_total m q with h | h
  · simp [Fl.fmax, h]
  · by_cases h' : m ≤ q
    · have : m = q := le_antisymm h' h
      simp [Fl.fmax, this]
    · simp [Fl.fmax, h', max_eq_left h]

@[simp] theorem fmax_fin_nan (m : Rat) : Fl.fmax (fin m) nan = fin m := by simp [Fl.fmax]
@[simp] theorem fmax_nan_left (x : Fl) : Fl.fmax nan x = x := by simp [Fl.fmax]

theorem finVals_mask_acc_fin (m : Rat) (xs : List Fl) (h : NoInf xs) :
    finVals (maskLike xs (accFmax (fin m) xs)) = accMaxQ m (finVals xs) := by
  induction xs generalizing m with
  | nil => rfl
  | cons x xs ih =>
    obtain ⟨hx, hxs⟩ := h.cons
    rcases hx with rfl | ⟨q, rfl⟩
    · simpa [maskLike, accFmax, finVals] using ih m hxs
    · simpa [maskLike, accFmax, finVals, fmax_fin_fin, accMaxQ] using ih (max m q) hxs

theorem finVals_mask_acc_nan (xs : List Fl) (h : NoInf xs) :
    finVals (maskLike xs (accFmax nan xs)) = runMaxQ (finVals xs) := by
  induction xs with
  | nil => rfl
  | cons x xs ih =>
    obtain ⟨hx, hxs⟩ := h.cons
    rcases hx with rfl | ⟨q, rfl⟩
    · simpa [maskLike, accFmax, finVals] using ih hxs
    · simpa [maskLike, accFmax, finVals, runMaxQ] using finVals_mask_acc_fin q xs hxs

/-- the finite values of the upper envelope are the running maximum of the finite input values -/
theorem upperRow_finVals (xs : List Fl) (h : NoInf xs) : finVals (upperRow xs) = runMaxQ (finVals xs) :=
  finVals_mask_acc_nan xs h

theorem isNan_mask_acc (a : Fl) (ha : a = nan ∨ ∃ m, a = fin m) (xs : List Fl) (h : NoInf xs) :
    (maskLike xs (accFmax a xs)).map Fl.isNan = xs.map Fl.isNan := by
  induction xs generalizing a with
  | nil => rfl
  | cons x xs ih =>
    obtain ⟨hx, hxs⟩ := h.cons
    rcases hx with rfl | ⟨q, rfl⟩
    · rcases ha with rfl | ⟨m, rfl⟩
      · simpa [maskLike, accFmax] using ih nan (Or.inl rfl) hxs
      · simpa [maskLike, accFmax] using ih (fin m) (Or.inr ⟨m, rfl⟩) hxs
    · rcases ha with rfl | ⟨m, rfl⟩
      · simpa [maskLike, accFmax] using ih (fin q) (Or.inr ⟨q, rfl⟩) hxs
      · simpa [maskLike, accFmax, fmax_fin_fin] using ih (fin (max m q)) (Or.inr ⟨_, rfl⟩) hxs

/-- NaN positions of the input are exactly the NaN positions of the upper envelope -/
theorem upperRow_isNan (xs : List Fl) (h : NoInf xs) : (upperRow xs).map Fl.isNan = xs.map Fl.isNan :=
  isNan_mask_acc nan (Or.inl rfl) xs h

@[simp] theorem accFmax_length (a : Fl) (xs : List Fl) : (accFmax a xs).length = xs.length := by
  induction xs generalizing a with
  | nil => rfl
  | cons x xs ih => simp [accFmax, ih]

@[simp] theorem upperRow_length (xs : List Fl) : (upperRow xs).length = xs.length := by
  simp [upperRow, maskLike, runFmax]

/-! lower envelope: `flip(1 − fmax.accumulate(1 − flip x))` -/

/-- `1 − x` -/
abbrev cpl (x : Fl) : Fl := Fl.sub one x

theorem cpl_isNan (x : Fl) : (cpl x).isNan = x.isNan := by cases x <;> rfl
@[simp] theorem cpl_nan : cpl nan = nan := rfl
@[simp] theorem cpl_fin (q : Rat) : cpl (fin q) = fin (1 - q) := by simp [cpl, one]

theorem noInf_reverse_cpl {xs : List Fl} (h : NoInf xs) : NoInf (xs.reverse.map cpl) := by
  intro y hy
  simp only [List.mem_map, List.mem_reverse] at hy
  obtain ⟨x, hx, rfl⟩ := hy
  rcases h x hx with rfl | ⟨q, rfl⟩
  · exact Or.inl rfl
  · exact Or.inr ⟨1 - q, cpl_fin q⟩

theorem lowerRow_eq (xs : List Fl) :
    lowerRow xs = ((upperRow (xs.reverse.map cpl)).map cpl).reverse := by
  unfold lowerRow upperRow maskLike runFmax
  have hlen : ((accFmax nan (List.map (fun x => Fl.sub one x) xs.reverse)).map (fun x => Fl.sub one x)).length = xs.reverse.length := by
    simp
  rw [← List.reverse_reverse xs, ← List.reverse_zipWith (by simpa using hlen.symm)]
  congr 1
  simp only [List.reverse_reverse, List.zipWith_map_left, List.zipWith_map_right, List.map_zipWith]
  have hf : (fun (a b : Fl) => if a.isNan = true then nan else one.sub b) =
      (fun a b => cpl (if (cpl a).isNan = true then nan else b)) := by
    funext a b
    rw [cpl_isNan]
    split <;> rfl
  rw [hf]

theorem finVals_append (a b : List Fl) : finVals (a ++ b) = finVals a ++ finVals b := by
  induction a with
  | nil => rfl
  | cons x xs ih => cases x <;> simp [finVals, ih]

theorem finVals_reverse (a : List Fl) : finVals a.reverse = (finVals a).reverse := by
  induction a with
  | nil => rfl
  | cons x xs ih => cases x <;> simp [finVals, finVals_append, ih]

theorem finVals_map_cpl (a : List Fl) : finVals (a.map cpl) = (finVals a).map (1 - ·) := by
  induction a with
  | nil => rfl
  | cons x xs ih =>
    cases x with
    | fin q => simp [finVals, ih]
    | pinf => simpa [finVals, cpl, one, Fl.sub, Fl.neg, Fl.add] using ih
    | ninf => simpa [finVals, cpl, one, Fl.sub, Fl.neg, Fl.add] using ih
    | nan => simpa [finVals] using ih

theorem max_cpl (a b : Rat) : max (1 - a) (1 - b) = 1 - min a b := by
  rcases le_total a b with h | h
  · rw [min_eq_left h, max_eq_left (by linarith)]
  · rw [min_eq_right h, max_eq_right (by linarith)]

theorem accMinQ_eq_cpl (m : Rat) (q : List Rat) :
    accMinQ m q = (accMaxQ (1 - m) (q.map (1 - ·))).map (1 - ·) := by
  induction q generalizing m with
  | nil => rfl
  | cons x xs ih => simp [accMinQ, accMaxQ, ih, max_cpl]

theorem runMinQ_eq_cpl (q : List Rat) : runMinQ q = (runMaxQ (q.map (1 - ·))).map (1 - ·) := by
  cases q with
  | nil => rfl
  | cons x xs => simp [runMinQ, runMaxQ, accMinQ_eq_cpl]

/-- the finite values of the lower envelope are the reverse running minimum of the finite input values -/
theorem lowerRow_finVals (xs : List Fl) (h : NoInf xs) : finVals (lowerRow xs) = revMinQ (finVals xs) := by
  rw [lowerRow_eq, finVals_reverse, finVals_map_cpl, upperRow_finVals _ (noInf_reverse_cpl h), finVals_map_cpl,
    finVals_reverse, revMinQ, runMinQ_eq_cpl]

/-- NaN positions of the input are exactly the NaN positions of the lower envelope -/
theorem lowerRow_isNan (xs : List Fl) (h : NoInf xs) : (lowerRow xs).map Fl.isNan = xs.map Fl.isNan := by
  rw [lowerRow_eq, List.map_reverse, List.map_map]
  have : (Fl.isNan ∘ cpl) = Fl.isNan := by funext x; exact cpl_isNan x
  rw [this, upperRow_isNan _ (noInf_reverse_cpl h), List.map_map, this, List.map_reverse, List.reverse_reverse]

/-! ### decreasing_cdfs -/

theorem valid_map_fin (L : List Rat) : valid (L.map fin) = L.map fin := by
  induction L with
  | nil => rfl
  | cons x xs ih => simp_all [valid, List.filter]

theorem foldl_add_fin (a : Rat) (L : List Rat) : List.foldl Fl.add (fin a) (L.map fin) = fin (a + L.sum) := by
  induction L generalizing a with
  | nil => simp
  | cons x xs ih => simp [ih, add_assoc]

theorem nansum_map_fin (L : List Rat) : nansum (L.map fin) = fin L.sum := by
  simp [nansum, valid_map_fin, fsum, foldl_add_fin]

def diffsQ : List Rat → List Rat
  | x0 :: x1 :: xs => (x1 - x0) :: diffsQ (x1 :: xs)
  | _ => []

theorem diffs_map_fin (q : List Rat) : diffs (q.map fin) = (diffsQ q).map fin := by
  induction q with
  | nil => rfl
  | cons x xs ih =>
    cases xs with
    | nil => rfl
    | cons y ys => simpa [diffs, diffsQ] using ih

theorem min_fin_zero (d : Rat) : Fl.min (fin d) (fin 0) = fin (min d 0) := by
  rcases le_total d 0 with h | h
  · simp [Fl.min, h]
  · by_cases h' : d ≤ 0
    · have : d = 0 := le_antisymm h' h
      simp [Fl.min, this]
    · simp [Fl.min, h', min_eq_right h]

theorem sum_clipped (q : List Rat) : ((diffsQ q).map (fun d => min d 0)).sum = - Spec.Cdf.totalDecrease q := by
  induction q with
  | nil => simp [diffsQ, Spec.Cdf.totalDecrease]
  | cons x xs ih =>
    cases xs with
    | nil => simp [diffsQ, Spec.Cdf.totalDecrease]
    | cons y ys =>
      simp only [diffsQ, Spec.Cdf.totalDecrease, List.map_cons, List.sum_cons, ih]
      split_ifs with h
      · rw [min_eq_left (by linarith)]; ring
      · rw [min_eq_right (by linarith)]; ring

/-- `decreasing_cdfs` flags a NaN-free CDF exactly when its total decrease exceeds the tolerance -/
theorem decreasingRow_iff (q : List Rat) (tol : Rat) :
    decreasingRow (q.map fin) tol = decide (tol < Spec.Cdf.totalDecrease q) := by
  unfold decreasingRow
  rw [diffs_map_fin, List.map_map]
  have : ((fun d => Fl.min d (fin 0)) ∘ fin) = (fin ∘ fun d => min d 0) := by
    funext d; exact min_fin_zero d
  rw [this, ← List.map_map, nansum_map_fin, sum_clipped]
  simp only [Fl.neg_fin, Fl.lt_fin, neg_lt_neg_iff]

theorem diffs_replicate_nan (n : Nat) : diffs (List.replicate n nan) = List.replicate (n - 1) nan := by
  induction n with
  | zero => rfl
  | succ n ih =>
    cases n with
    | zero => rfl
    | succ n => simp [List.replicate_succ, diffs] at ih ⊢; exact ih

/-- an all-NaN CDF is never flagged -/
theorem decreasingRow_allNan (n : Nat) (tol : Rat) (h : 0 ≤ tol) : decreasingRow (List.replicate n nan) tol = false := by
  unfold decreasingRow
  rw [diffs_replicate_nan]
  have : nansum ((List.replicate (n - 1) nan).map (fun d => Fl.min d (fin 0))) = fin 0 := by
    simp [nansum, valid, Fl.min, fsum, List.filter_replicate]
  rw [this]
  simp [h]

/-! ### fill_cdf -/

/-- every given (non-NaN) ordinate of `xs` is found unchanged at the same position of `ys` -/
def Keeps (xs ys : List Fl) : Prop := List.Forall₂ (fun x y => x.isNan = false → y = x) xs ys

/-- every entry is NaN or a number in [0,1] -/
def Unit01 (xs : List Fl) : Prop := ∀ x ∈ xs, x = nan ∨ ∃ q, x = fin q ∧ 0 ≤ q ∧ q ≤ 1

theorem Unit01.noInf {xs : List Fl} (h : Unit01 xs) : NoInf xs := fun x hx => by
  rcases h x hx with h | ⟨q, h, _⟩
  · exact Or.inl h
  · exact Or.inr ⟨q, h⟩

theorem Unit01.cons {x : Fl} {xs : List Fl} (h : Unit01 (x :: xs)) :
    (x = nan ∨ ∃ q, x = fin q ∧ 0 ≤ q ∧ q ≤ 1) ∧ Unit01 xs :=
  ⟨h x (by simp), fun y hy => h y (by simp [hy])⟩

theorem keeps_refl (xs : List Fl) : Keeps xs xs := List.forall₂_same.mpr (fun _ _ _ => rfl)

theorem keeps_trans {a b c : List Fl} (h1 : Keeps a b) (h2 : Keeps b c) : Keeps a c := by
  induction h1 generalizing c with
  | nil => cases h2; exact List.Forall₂.nil
  | cons hab _ ih =>
    cases h2 with
    | cons hbc hrest =>
      refine List.Forall₂.cons (fun hx => ?_) (ih hrest)
      have := hab hx
      rw [hbc (by rw [this]; exact hx), this]

theorem keeps_reverse {a b : List Fl} (h : Keeps a b) : Keeps a.reverse b.reverse := List.rel_reverse h

theorem keeps_ffillFrom (a : Fl) (xs : List Fl) : Keeps xs (ffillFrom a xs) := by
  induction xs generalizing a with
  | nil => exact List.Forall₂.nil
  | cons x xs ih =>
    unfold ffillFrom
    split
    · next h => exact List.Forall₂.cons (fun hx => by simp [h] at hx) (ih a)
    · exact List.Forall₂.cons (fun _ => rfl) (ih x)

theorem keeps_ffill (xs : List Fl) : Keeps xs (ffill xs) := keeps_ffillFrom nan xs

theorem keeps_bfill (xs : List Fl) : Keeps xs (bfill xs) := by
  have := keeps_reverse (keeps_ffill xs.reverse)
  simpa [bfill] using this

theorem keeps_zipMap (g : Rat → Fl) (thr : List Rat) (xs : List Fl) (hlen : thr.length = xs.length) :
    Keeps xs ((thr.zip xs).map fun (p : Rat × Fl) => if p.2.isNan then g p.1 else p.2) := by
  induction xs generalizing thr with
  | nil => cases thr <;> simp [Keeps]
  | cons x xs ih =>
    cases thr with
    | nil => simp at hlen
    | cons t ts =>
      simp only [List.zip_cons_cons, List.map_cons]
      exact List.Forall₂.cons (fun hx => by simp [hx]) (ih ts (by simpa using hlen))

theorem keeps_interpolateNa (thr : List Rat) (xs : List Fl) (hlen : thr.length = xs.length) :
    Keeps xs (interpolateNa thr xs) := by
  unfold interpolateNa
  simp only
  split
  · exact keeps_refl xs
  · exact keeps_zipMap _ thr xs hlen

theorem clip_unit {q : Rat} (h0 : 0 ≤ q) (h1 : q ≤ 1) : Fl.min (Fl.max (fin q) (fin 0)) (fin 1) = fin q := by
  have : ¬ (q ≤ 0) ∨ q = 0 := by
    by_cases h : q ≤ 0
    · exact Or.inr (le_antisymm h h0)
    · exact Or.inl h
  rcases this with h | rfl
  · simp [Fl.min, Fl.max, h, h1]
  · simp [Fl.min, Fl.max]

theorem keeps_clip (xs : List Fl) (h : Unit01 xs) :
    Keeps xs (xs.map fun v => Fl.min (Fl.max v (fin 0)) (fin 1)) := by
  induction xs with
  | nil => exact List.Forall₂.nil
  | cons x xs ih =>
    obtain ⟨hx, hxs⟩ := h.cons
    refine List.Forall₂.cons (fun hn => ?_) (ih hxs)
    rcases hx with rfl | ⟨q, rfl, h0, h1⟩
    · simp at hn
    · exact clip_unit h0 h1

theorem keeps_map_of_nonNan (f : Fl → Fl) (hf : ∀ x, x.isNan = false → f x = x) (xs : List Fl) : Keeps xs (xs.map f) := by
  induction xs with
  | nil => exact List.Forall₂.nil
  | cons x xs ih => exact List.Forall₂.cons (hf x) ih

theorem keeps_of_keeps_clip {xs ys : List Fl} (h : Keeps xs ys) (hu : Unit01 xs) :
    Keeps xs (ys.map fun v => Fl.min (Fl.max v (fin 0)) (fin 1)) := by
  induction h with
  | nil => exact List.Forall₂.nil
  | @cons x y xs ys hxy _ ih =>
    obtain ⟨hx, hxs⟩ := hu.cons
    refine List.Forall₂.cons (fun hn => ?_) (ih hxs)
    rcases hx with rfl | ⟨q, rfl, h0, h1⟩
    · simp at hn
    · rw [hxy hn]; exact clip_unit h0 h1

/-- **fill_cdf keeps every given ordinate** (all four methods), when the row has enough points -/
theorem fillRow_keeps (thr : List Rat) (xs : List Fl) (method : String) (k : Int)
    (hlen : thr.length = xs.length) (hu : Unit01 xs) (henough : k ≤ (count xs : Int)) :
    Keeps xs (fillRow thr xs method k) := by
  unfold fillRow
  simp only [henough, decide_true, if_true]
  split_ifs
  · exact keeps_of_keeps_clip (keeps_interpolateNa thr xs hlen) hu
  · exact keeps_trans (keeps_ffill xs) (keeps_map_of_nonNan _ (fun x hx => by simp [Fl.fillna, hx]) _)
  · exact keeps_trans (keeps_ffill xs) (keeps_bfill _)
  · exact keeps_trans (keeps_bfill xs) (keeps_ffill _)
  · exact keeps_refl xs

/-! filled values stay in [0,1] -/

theorem unit01_ffillFrom (a : Fl) (ha : a = nan ∨ ∃ q, a = fin q ∧ 0 ≤ q ∧ q ≤ 1) (xs : List Fl) (h : Unit01 xs) :
    Unit01 (ffillFrom a xs) := by
  induction xs generalizing a with
  | nil => intro x hx; simp [ffillFrom] at hx
  | cons x xs ih =>
    obtain ⟨hx, hxs⟩ := h.cons
    unfold ffillFrom
    split
    · intro y hy
      rcases List.mem_cons.mp hy with rfl | hy
      · exact ha
      · exact ih a ha hxs y hy
    · intro y hy
      rcases List.mem_cons.mp hy with rfl | hy
      · exact hx
      · exact ih x hx hxs y hy

theorem unit01_reverse {xs : List Fl} (h : Unit01 xs) : Unit01 xs.reverse :=
  fun x hx => h x (List.mem_reverse.mp hx)

theorem unit01_ffill {xs : List Fl} (h : Unit01 xs) : Unit01 (ffill xs) := unit01_ffillFrom nan (Or.inl rfl) xs h

theorem unit01_bfill {xs : List Fl} (h : Unit01 xs) : Unit01 (bfill xs) :=
  unit01_reverse (unit01_ffill (unit01_reverse h))

theorem unit01_allNan (xs : List Fl) : Unit01 (allNan xs) := by
  intro x hx; simp [allNan] at hx; exact Or.inl hx.2

theorem unit01_fillna0 {xs : List Fl} (h : Unit01 xs) : Unit01 (xs.map fun v => Fl.fillna v (fin 0)) := by
  intro y hy
  simp only [List.mem_map] at hy
  obtain ⟨x, hx, rfl⟩ := hy
  rcases h x hx with rfl | ⟨q, rfl, h0, h1⟩
  · exact Or.inr ⟨0, by simp [Fl.fillna], le_rfl, zero_le_one⟩
  · exact Or.inr ⟨q, by simp [Fl.fillna], h0, h1⟩

theorem clip_fin (v : Rat) : Fl.min (Fl.max (fin v) (fin 0)) (fin 1) = fin (min (max v 0) 1) := by
  by_cases h0 : v ≤ 0
  · have : max v 0 = 0 := max_eq_right h0
    simp [Fl.min, Fl.max, h0, this]
  · have hm : max v 0 = v := max_eq_left (le_of_not_ge h0)
    by_cases h1 : v ≤ 1
    · simp [Fl.min, Fl.max, h0, hm, h1]
    · simp [Fl.min, Fl.max, h0, hm, h1, min_eq_right (le_of_not_ge h1)]

theorem unit01_clip {xs : List Fl} (h : NoInf xs) : Unit01 (xs.map fun v => Fl.min (Fl.max v (fin 0)) (fin 1)) := by
  intro y hy
  simp only [List.mem_map] at hy
  obtain ⟨x, hx, rfl⟩ := hy
  rcases h x hx with rfl | ⟨q, rfl⟩
  · exact Or.inl (by simp [Fl.min, Fl.max])
  · exact Or.inr ⟨min (max q 0) 1, clip_fin q, le_min (le_max_right _ _) zero_le_one, min_le_right _ _⟩

theorem interpAt_noInf (ks : List (Rat × Rat)) (t : Rat) : interpAt ks t = nan ∨ ∃ q, interpAt ks t = fin q := by
  fun_induction interpAt ks t
  · exact Or.inr ⟨_, rfl⟩
  · exact Or.inr ⟨_, rfl⟩
  · assumption
  · exact Or.inl rfl

theorem noInf_interpolateNa (thr : List Rat) {xs : List Fl} (h : NoInf xs) : NoInf (interpolateNa thr xs) := by
  unfold interpolateNa
  simp only
  split
  · exact h
  · intro y hy
    simp only [List.mem_map] at hy
    obtain ⟨⟨t, x⟩, hp, rfl⟩ := hy
    simp only
    split
    · exact interpAt_noInf _ _
    · exact h x (List.of_mem_zip hp).2

/-- **fill_cdf stays in [0,1]**: every value of the filled row is NaN or in [0,1] (all methods, any `min_nonnan`) -/
theorem fillRow_unit (thr : List Rat) (xs : List Fl) (method : String) (k : Int) (hu : Unit01 xs) :
    Unit01 (fillRow thr xs method k) := by
  unfold fillRow
  simp only
  by_cases he : k ≤ (count xs : Int)
  · simp only [he, decide_true, if_true]
    split_ifs
    · exact unit01_clip (noInf_interpolateNa thr hu.noInf)
    · exact unit01_fillna0 (unit01_ffill hu)
    · exact unit01_bfill (unit01_ffill hu)
    · exact unit01_ffill (unit01_bfill hu)
    · exact hu
  · have hc := unit01_allNan xs
    simp only [he, decide_false, Bool.false_eq_true, if_false]
    split_ifs
    · exact unit01_clip (noInf_interpolateNa thr hc.noInf)
    · exact unit01_allNan _
    · exact unit01_bfill (unit01_ffill hc)
    · exact unit01_ffill (unit01_bfill hc)
    · exact hc

/-! too few points: the whole CDF is blanked -/

theorem allNan_eq (xs : List Fl) : allNan xs = List.replicate xs.length nan := by simp [allNan]

theorem ffillFrom_nan_replicate (n : Nat) : ffillFrom nan (List.replicate n nan) = List.replicate n nan := by
  induction n with
  | zero => rfl
  | succ n ih => simp [List.replicate_succ, ffillFrom, ih]

theorem ffill_replicate (n : Nat) : ffill (List.replicate n nan) = List.replicate n nan := ffillFrom_nan_replicate n
theorem bfill_replicate (n : Nat) : bfill (List.replicate n nan) = List.replicate n nan := by
  simp [bfill, ffill_replicate]

theorem knots_replicate_nan (thr : List Rat) (n : Nat) : knots thr (List.replicate n nan) = [] := by
  induction thr generalizing n with
  | nil => cases n <;> simp [List.replicate_succ, knots]
  | cons t ts ih =>
    cases n with
    | zero => simp [knots]
    | succ n => simp [List.replicate_succ, knots, ih]

theorem interpolateNa_replicate (thr : List Rat) (n : Nat) :
    interpolateNa thr (List.replicate n nan) = List.replicate n nan := by
  simp [interpolateNa, knots_replicate_nan]

@[simp] theorem ffillFrom_length (a : Fl) (xs : List Fl) : (ffillFrom a xs).length = xs.length := by
  induction xs generalizing a with
  | nil => rfl
  | cons x xs ih => unfold ffillFrom; split <;> simp [ih]

/-- **fewer than `min_nonnan` given ordinates ⇒ the whole CDF is NaN** (every method) -/
theorem fillRow_blank (thr : List Rat) (xs : List Fl) (method : String) (k : Int) (h : (count xs : Int) < k) :
    fillRow thr xs method k = List.replicate xs.length nan := by
  unfold fillRow
  have he : ¬ k ≤ (count xs : Int) := not_le.mpr h
  simp only [he, decide_false, Bool.false_eq_true, if_false, allNan_eq]
  split_ifs
  · simp [interpolateNa_replicate, Fl.min, Fl.max]
  · simp [ffill]
  · simp [ffill_replicate, bfill_replicate]
  · simp [ffill_replicate, bfill_replicate]
  · rfl

/-! ### propagate_nan, observed_cdf -/

theorem propagateNan_of_nan (xs : List Fl) (h : anyNan xs = true) : propagateNan xs = List.replicate xs.length nan := by
  simp [propagateNan, h]

theorem propagateNan_of_noNan (xs : List Fl) (h : anyNan xs = false) : propagateNan xs = xs := by
  simp [propagateNan, h]

/-- the observed CDF is the indicator of `threshold ≥ obs` -/
theorem observedRow_fin (grid : List Rat) (o : Rat) :
    observedRow grid (fin o) = grid.map fun t => if o ≤ t then fin 1 else fin 0 := by
  simp [observedRow, Fl.ofBool, Fl.ge]

theorem observedRow_nan (grid : List Rat) : observedRow grid nan = List.replicate grid.length nan := by
  simp [observedRow]

/-! ### round_values -/

theorem floor_le' (q : Rat) : ((q.floor : Int) : Rat) ≤ q := Rat.le_floor_iff.mp le_rfl

theorem lt_floor_add_one' (q : Rat) : q < ((q.floor : Int) : Rat) + 1 := by
  by_contra h
  have h' : (((q.floor + 1 : Int)) : Rat) ≤ q := by push_cast; exact not_lt.mp h
  have := Rat.le_floor_iff.mpr h'
  omega

/-- `rint` is a nearest integer, and on a tie the even one -/
theorem rint_spec (q : Rat) :
    |q - (rint q : Rat)| ≤ 1 / 2 ∧ (|q - (rint q : Rat)| = 1 / 2 → rint q % 2 = 0) := by
  have h1 := floor_le' q
  have h2 := lt_floor_add_one' q
  unfold rint
  simp only
  split_ifs with ha hb hc
  · have : |q - (q.floor : Rat)| = q - q.floor := abs_of_nonneg (by linarith)
    rw [this]; constructor
    · linarith
    · intro h; linarith
  · have : |q - ((q.floor + 1 : Int) : Rat)| = -(q - ((q.floor + 1 : Int) : Rat)) := abs_of_nonpos (by push_cast; linarith)
    rw [this]; push_cast; constructor
    · linarith
    · intro h; linarith
  · have hr : q - (q.floor : Rat) = 1 / 2 := le_antisymm (not_lt.mp hb) (not_lt.mp ha)
    have : |q - (q.floor : Rat)| = 1 / 2 := by rw [hr]; norm_num
    rw [this]; exact ⟨le_rfl, fun _ => hc⟩
  · have hr : q - (q.floor : Rat) = 1 / 2 := le_antisymm (not_lt.mp hb) (not_lt.mp ha)
    have : |q - ((q.floor + 1 : Int) : Rat)| = 1 / 2 := by
      have : q - ((q.floor + 1 : Int) : Rat) = -(1 / 2) := by push_cast; linarith
      rw [this]; norm_num
    rw [this]; exact ⟨le_rfl, fun _ => by omega⟩

theorem rint_intCast (k : Int) : rint (k : Rat) = k := by
  have hf : (k : Rat).floor = k := Rat.floor_intCast k
  unfold rint
  simp [hf]

/-- the final decimal rounding leaves a value with at most `d` decimals unchanged -/
theorem roundDec_of_int (x : Rat) (d : Nat) (k : Int) (h : x * (10 : Rat) ^ d = k) : roundDec x d = x := by
  unfold roundDec
  rw [h, rint_intCast, ← h]
  have : (10 : Rat) ^ d ≠ 0 := pow_ne_zero _ (by norm_num)
  field_simp

/-- **round_values**: for a precision `p > 0` whose multiples have at most `decpl` decimals (every dyadic
    precision down to 2⁻⁷ with the default 7), the result is `n·p` with `n·p` a nearest multiple of `p` to
    `q`, and on a tie `n` is even -/
theorem roundQ_nearest (q p : Rat) (decpl : Nat) (hp : 0 < p)
    (hrep : ∀ n : Int, ∃ k : Int, ((n : Rat) * p) * (10 : Rat) ^ decpl = k) :
    ∃ n : Int, roundQ q p decpl = n * p ∧ |q - n * p| ≤ p / 2 ∧ (|q - n * p| = p / 2 → n % 2 = 0) := by
  refine ⟨rint (q / p), ?_, ?_, ?_⟩
  · obtain ⟨k, hk⟩ := hrep (rint (q / p))
    simp only [roundQ, hp, if_true]
    exact roundDec_of_int _ _ k hk
  all_goals
    have hs := rint_spec (q / p)
    have hq : q - (rint (q / p) : Rat) * p = (q / p - (rint (q / p) : Rat)) * p := by field_simp
    rw [hq, abs_mul, abs_of_pos hp]
  · nlinarith [hs.1]
  · intro h
    apply hs.2
    have : |q / p - (rint (q / p) : Rat)| * p = (1 / 2) * p := by rw [h]; ring
    exact mul_right_cancel₀ hp.ne' this

/-- precision 0 means no rounding -/
theorem roundQ_zero (q : Rat) (d : Nat) : roundQ q 0 d = q := by simp [roundQ]

end SV.Lemmas.Cdf
