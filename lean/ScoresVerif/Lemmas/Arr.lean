/-
  Index arithmetic of labelled arrays: reading back an array built from a function of the assignment.
-/
import ScoresVerif.Model.Arr
import Mathlib.Tactic.Linarith
import Mathlib.Tactic.Ring
import Mathlib.Data.List.Range

namespace SV.Arr

/-- product of the sizes -/
def vol (ns : List Nat) : Nat := ns.foldl (· * ·) 1

theorem foldl_mul (ns : List Nat) (a : Nat) : ns.foldl (· * ·) a = a * ns.foldl (· * ·) 1 := by
  induction ns generalizing a with
  | nil => simp
  | cons n ns ih => simp only [List.foldl_cons]; rw [ih (a * n), ih (1 * n)]; ring

theorem vol_cons (n : Nat) (ns : List Nat) : vol (n :: ns) = n * vol ns := by
  unfold vol; simp only [List.foldl_cons]; rw [foldl_mul]; ring

/-- the assignment restricted (and re-ordered) to `dims` -/
def restrict (dims : List String) (asg : Asg) : Asg := dims.map fun d => (d, lookup asg d)

/-- every index of `asg` is inside the shape -/
def InRange : List String → List Nat → Asg → Prop
  | d :: ds, n :: ns, asg => lookup asg d < n ∧ InRange ds ns asg
  | [], [], _ => True
  | _, _, _ => False

theorem length_assignments : ∀ (ds : List String) (ns : List Nat), ds.length = ns.length →
    (assignments ds ns).length = vol ns
  | [], [], _ => by simp [assignments, vol]
  | d :: ds, n :: ns, h => by
    have ih := length_assignments ds ns (by simpa using h)
    rw [vol_cons]
    simp only [assignments, List.length_flatMap, List.length_map, ih]
    simp
  | [], _ :: _, h => by simp at h
  | _ :: _, [], h => by simp at h

theorem flatIndex_lt : ∀ (ds : List String) (ns : List Nat) (asg : Asg), InRange ds ns asg →
    flatIndex ds ns asg < vol ns
  | [], [], _, _ => by simp [flatIndex, vol]
  | d :: ds, n :: ns, asg, h => by
    obtain ⟨h1, h2⟩ := h
    have ih := flatIndex_lt ds ns asg h2
    rw [vol_cons]
    simp only [flatIndex]
    show lookup asg d * vol ns + flatIndex ds ns asg < n * vol ns
    calc lookup asg d * vol ns + flatIndex ds ns asg
        < lookup asg d * vol ns + vol ns := by omega
      _ = (lookup asg d + 1) * vol ns := by ring
      _ ≤ n * vol ns := Nat.mul_le_mul_right _ h1
  | [], _ :: _, _, h => by simp [InRange] at h
  | _ :: _, [], _, h => by simp [InRange] at h

/-- indexing a `flatMap` over `range n` whose pieces all have length `m` -/
theorem getElem?_flatMap_range {α : Type} (f : Nat → List α) (m : Nat) (hf : ∀ i, (f i).length = m) :
    ∀ (n i j : Nat), i < n → j < m → ((List.range n).flatMap f)[i * m + j]? = (f i)[j]?
  | 0, _, _, hi, _ => by omega
  | n + 1, i, j, hi, hj => by
    have hlen : ((List.range n).flatMap f).length = n * m := by
      simp [List.length_flatMap, hf]
    rw [List.range_succ, List.flatMap_append]
    by_cases hin : i < n
    · have : i * m + j < ((List.range n).flatMap f).length := by
        rw [hlen]
        calc i * m + j < i * m + m := by omega
          _ = (i + 1) * m := by ring
          _ ≤ n * m := Nat.mul_le_mul_right _ hin
      rw [List.getElem?_append_left this]
      exact getElem?_flatMap_range f m hf n i j hin hj
    · have hi' : i = n := by omega
      subst hi'
      have : ((List.range i).flatMap f).length ≤ i * m + j := by rw [hlen]; omega
      rw [List.getElem?_append_right this, hlen]
      simp

theorem getElem?_assignments : ∀ (ds : List String) (ns : List Nat) (asg : Asg), InRange ds ns asg →
    (assignments ds ns)[flatIndex ds ns asg]? = some (restrict ds asg)
  | [], [], _, _ => by simp [assignments, flatIndex, restrict]
  | d :: ds, n :: ns, asg, h => by
    obtain ⟨h1, h2⟩ := h
    have hlen : ds.length = ns.length := by
      clear h1
      induction ds generalizing ns with
      | nil => cases ns <;> simp_all [InRange]
      | cons d' ds' ih => cases ns with
        | nil => simp [InRange] at h2
        | cons n' ns' => simp only [List.length_cons]; rw [ih ns' h2.2]
    have ih := getElem?_assignments ds ns asg h2
    have hj := flatIndex_lt ds ns asg h2
    simp only [assignments, flatIndex]
    have key := getElem?_flatMap_range (fun i => (assignments ds ns).map fun r => (d, i) :: r) (vol ns)
      (by intro i; simp [length_assignments ds ns hlen]) n (lookup asg d) (flatIndex ds ns asg) h1 hj
    show ((List.range n).flatMap fun i => (assignments ds ns).map fun r => (d, i) :: r)[lookup asg d * vol ns + flatIndex ds ns asg]? = _
    rw [key, List.getElem?_map, ih]
    simp [restrict]
  | [], _ :: _, _, h => by simp [InRange] at h
  | _ :: _, [], _, h => by simp [InRange] at h

/-- reading an array built by `ofFn` gives back the function at the (restricted) assignment -/
theorem get_ofFn (dims : List String) (shape : List Nat) (f : Asg → Fl) (asg : Asg)
    (h : InRange dims shape asg) : (ofFn dims shape f).get asg = f (restrict dims asg) := by
  unfold get ofFn
  simp only
  have := getElem?_assignments dims shape asg h
  rw [Array.getD_eq_getD_getElem?]
  simp [List.getElem?_map, this]

end SV.Arr

namespace SV.Arr

theorem lookup_restrict (dims : List String) (asg : Asg) (d : String) (hd : d ∈ dims) :
    lookup (restrict dims asg) d = lookup asg d := by
  unfold restrict
  induction dims with
  | nil => simp at hd
  | cons d' ds ih =>
    by_cases h : d = d'
    · subst h; simp [lookup, List.lookup]
    · have hd' : d ∈ ds := by
        rcases List.mem_cons.mp hd with h' | h'
        · exact absurd h' h
        · exact h'
      have hne : (d == d') = false := by simpa using h
      simp only [List.map_cons, lookup, List.lookup, hne]
      exact ih hd'

theorem flatIndex_congr : ∀ (ds : List String) (ns : List Nat) (a₁ a₂ : Asg),
    (∀ d ∈ ds, lookup a₁ d = lookup a₂ d) → flatIndex ds ns a₁ = flatIndex ds ns a₂
  | [], _, _, _, _ => by simp [flatIndex]
  | _ :: _, [], _, _, _ => by simp [flatIndex]
  | d :: ds, n :: ns, a₁, a₂, h => by
    simp only [flatIndex]
    rw [h d (by simp), flatIndex_congr ds ns a₁ a₂ (fun d' hd' => h d' (by simp [hd']))]

/-- an array only looks at the indices of its own dimensions -/
theorem get_restrict (a : Arr) (dims : List String) (asg : Asg) (h : ∀ d ∈ a.dims, d ∈ dims) :
    a.get (restrict dims asg) = a.get asg := by
  unfold get
  rw [flatIndex_congr a.dims a.shape (restrict dims asg) asg (fun d hd => lookup_restrict dims asg d (h d hd))]

/-- the same labelled values stored with another dimension order (or with extra broadcast dims) -/
def relayout (a : Arr) (dims : List String) (shape : List Nat) : Arr := ofFn dims shape a.get

/-- transposition / broadcasting does not change the value attached to any label -/
theorem relayout_get (a : Arr) (dims : List String) (shape : List Nat) (asg : Asg)
    (hsub : ∀ d ∈ a.dims, d ∈ dims) (hr : InRange dims shape asg) :
    (a.relayout dims shape).get asg = a.get asg := by
  unfold relayout
  rw [get_ofFn dims shape a.get asg hr, get_restrict a dims asg hsub]

/-- broadcasting by name: the value at a label of a pointwise combination is the combination of the
    operands' values at that label -/
theorem zipWith_get (f : Fl → Fl → Fl) (a b : Arr) (asg : Asg)
    (hr : InRange (zipWith f a b).dims (zipWith f a b).shape asg) :
    (zipWith f a b).get asg = f (a.get asg) (b.get asg) := by
  have hd : (zipWith f a b).dims = a.dims ++ b.dims.filter (fun d => !a.dims.contains d) := rfl
  have hs : (zipWith f a b).shape = a.shape ++ (b.dims.filter (fun d => !a.dims.contains d)).map b.sizeOf := rfl
  rw [hd, hs] at hr
  show (ofFn _ _ _).get asg = _
  rw [get_ofFn _ _ _ asg hr]
  have ha : ∀ d ∈ a.dims, d ∈ a.dims ++ b.dims.filter (fun d => !a.dims.contains d) := by
    intro d h; simp [h]
  have hb : ∀ d ∈ b.dims, d ∈ a.dims ++ b.dims.filter (fun d => !a.dims.contains d) := by
    intro d h
    by_cases hc : d ∈ a.dims
    · simp [hc]
    · simp [h, hc]
  rw [get_restrict a _ asg ha, get_restrict b _ asg hb]

end SV.Arr

namespace SV.Arr

/-- the dims / sizes kept and removed by a reduction over `R` -/
def keptDims (R : List String) (a : Arr) : List String := ((a.dims.zip a.shape).filter (fun p => !R.contains p.1)).map (·.1)
def keptShape (R : List String) (a : Arr) : List Nat := ((a.dims.zip a.shape).filter (fun p => !R.contains p.1)).map (·.2)
def goneDims (R : List String) (a : Arr) : List String := ((a.dims.zip a.shape).filter (fun p => R.contains p.1)).map (·.1)
def goneShape (R : List String) (a : Arr) : List Nat := ((a.dims.zip a.shape).filter (fun p => R.contains p.1)).map (·.2)

theorem reduceOver_dims (red : List Fl → Fl) (R : List String) (a : Arr) :
    (reduceOver red R a).dims = keptDims R a := rfl

/-- no reduced dimension survives, and nothing else disappears -/
theorem mem_reduceOver_dims (red : List Fl → Fl) (R : List String) (a : Arr) (h : a.dims.length = a.shape.length)
    (d : String) : d ∈ (reduceOver red R a).dims ↔ d ∈ a.dims ∧ d ∉ R := by
  rw [reduceOver_dims]
  unfold keptDims
  constructor
  · intro hm
    obtain ⟨p, hp, rfl⟩ := List.mem_map.mp hm
    obtain ⟨hz, hR⟩ := List.mem_filter.mp hp
    refine ⟨(List.of_mem_zip hz).1, ?_⟩
    simpa using hR
  · rintro ⟨hd, hR⟩
    obtain ⟨i, hi, rfl⟩ := List.getElem_of_mem hd
    have hi' : i < a.shape.length := by omega
    apply List.mem_map.mpr
    refine ⟨(a.dims[i], a.shape[i]), ?_, rfl⟩
    apply List.mem_filter.mpr
    refine ⟨?_, by simpa using hR⟩
    rw [List.mem_iff_getElem]
    exact ⟨i, by simp [List.length_zip]; omega, by simp⟩

/-- the value at a kept label is the reduction of the fibre over the removed dimensions -/
theorem reduceOver_get (red : List Fl → Fl) (R : List String) (a : Arr) (asg : Asg)
    (hr : InRange (keptDims R a) (keptShape R a) asg) :
    (reduceOver red R a).get asg =
      red ((assignments (goneDims R a) (goneShape R a)).map fun r => a.get (restrict (keptDims R a) asg ++ r)) := by
  show (ofFn (keptDims R a) (keptShape R a) _).get asg = _
  rw [get_ofFn _ _ _ asg hr]
  rfl

end SV.Arr
