/-
  C18 — `skipna=True` on NaN-free input: the extra rotation by the smallest angle keeps the data sorted residues, so the
  routine again returns the smallest covering arc.
-/
import ScoresVerif.Lemmas.FlipFlopC18Core
import ScoresVerif.Lemmas.FlipFlopC18Model

namespace SV.Model.FlipFlop
open SV SV.Fl
open SV.Spec.FlipFlop

/-- the `skipna=True` pre-processing after the sort: rotate by the first angle, NaN → 0 unless all NaN -/
def skipnaPre (data0 : List Fl) : List Fl :=
  let d0 := data0.headD Fl.nan
  let r := data0.map fun v => Fl.mod (Fl.sub v d0) 360
  let allNan := r.all Fl.isNan
  r.map fun v => if v.isNan && !allNan then Fl.fin 0 else v

theorem sectorNp_true_eq (xs : List Fl) :
    sectorNp true xs = sectorPost (skipnaPre (sortFl (xs.map fun v => Fl.mod v 360))) := rfl

theorem skipnaPre_fin (a : Rat) (t : List Rat) :
    skipnaPre ((a :: t).map fin) = ((a :: t).map fun v => rmod (v - a) 360).map fin := by
  unfold skipnaPre
  simp only [List.map_cons, List.headD_cons, sub_fin, mod360_fin, List.all_cons, isNan_fin, Bool.false_and,
    Bool.false_eq_true, if_false, List.map_map]
  congr 1
  apply List.map_congr_left
  intro v _
  simp [Function.comp, mod360_fin]

/-- `skipna=True`, NaN-free input: the same value as `skipna=False`, the smallest covering arc -/
theorem sectorNp_true_fin (xs : List Rat) (hne : xs ≠ []) : sectorNp true (xs.map fin) = fin (sector xs) := by
  have hmem : ∀ x, x ∈ sortedResidues xs ↔ x ∈ xs.map fun v => rmod v 360 := fun x => List.mem_insertionSort _
  have hs : (sortedResidues xs).Pairwise (· ≤ ·) := List.pairwise_insertionSort _ _
  have hr : ∀ x ∈ sortedResidues xs, 0 ≤ x ∧ x < 360 := by
    intro x hx
    obtain ⟨v, _, rfl⟩ := List.mem_map.mp ((hmem x).mp hx)
    exact ⟨rmod360_nonneg v, rmod360_lt v⟩
  have hd : sortedResidues xs ≠ [] := by
    obtain ⟨b, u, rfl⟩ := List.exists_cons_of_ne_nil hne
    intro h
    have := (hmem (rmod b 360)).mpr (by simp)
    rw [h] at this; simp at this
  rw [sectorNp_true_eq, map_mod360_fin, sortFl_fin]
  change sectorPost (skipnaPre ((sortedResidues xs).map fin)) = _
  obtain ⟨a, t, hat⟩ := List.exists_cons_of_ne_nil hd
  rw [hat] at hs hr
  rw [hat, skipnaPre_fin]
  have hle : ∀ x ∈ a :: t, a ≤ x := by
    intro x hx
    rcases List.mem_cons.mp hx with rfl | hx
    · exact le_refl _
    · exact (List.pairwise_cons.mp hs).1 x hx
  have hval : ∀ x ∈ a :: t, rmod (x - a) 360 = x - a := by
    intro x hx
    have := hle x hx
    have h1 := hr x hx
    have h2 := hr a List.mem_cons_self
    exact rmod360_of_mem _ (by linarith) (by linarith)
  set d' := (a :: t).map fun v => rmod (v - a) 360 with hd'
  have hne' : d' ≠ [] := by simp [hd']
  have hs' : d'.Pairwise (· ≤ ·) := by
    rw [hd', List.pairwise_map]
    refine hs.imp_of_mem ?_
    intro x y hx hy hxy
    rw [hval x hx, hval y hy]; linarith
  have hr' : ∀ x ∈ d', 0 ≤ x ∧ x < 360 := by
    intro x hx
    obtain ⟨v, _, rfl⟩ := List.mem_map.mp hx
    exact ⟨rmod360_nonneg _, rmod360_lt _⟩
  have hdq : diffsQ d' ≠ [] := by
    intro h; apply hne'; apply List.eq_nil_of_length_eq_zero; rw [← length_diffsQ, h]; rfl
  obtain ⟨hk, hmax⟩ := argmax_fin (diffsQ d') hdq
  rw [length_diffsQ] at hk
  rw [sectorPost_fin d' hne', sectorQ_eq_sector d' hne' hs' hr' hk hmax]
  congr 1
  -- sector d' = sector xs: d' is the sorted residues rotated by −a, taken mod 360
  have h1 : d' = ((a :: t).map (· + -a)).map fun v => rmod v 360 := by
    rw [hd', List.map_map]
    apply List.map_congr_left
    intro v _
    simp [Function.comp, sub_eq_add_neg]
  rw [h1, sector_residues, sector_rotate, ← hat, sector_congr_mem _ _ hmem, sector_residues]

end SV.Model.FlipFlop
