/-
  C13 — the NaN-skipping mean of entries that are each missing or a rational in [lo, hi] is missing or in [lo, hi].
-/
import ScoresVerif.Model.Fl
import ScoresVerif.Lemmas.FlBasic
import ScoresVerif.Lemmas.NanMean

namespace SV.Lemmas.C13Mean
open SV SV.Fl

/-- "missing, or a rational between lo and hi" -/
def NanOrIn (lo hi : Rat) (x : Fl) : Prop := x = nan ∨ ∃ q : Rat, x = fin q ∧ lo ≤ q ∧ q ≤ hi

theorem valid_eq_map_fin (lo hi : Rat) (xs : List Fl) (h : ∀ x ∈ xs, NanOrIn lo hi x) :
    ∃ qs : List Rat, valid xs = qs.map fin ∧ ∀ q ∈ qs, lo ≤ q ∧ q ≤ hi := by
  induction xs with
  | nil => exact ⟨[], rfl, by simp⟩
  | cons x xs ih =>
    obtain ⟨qs, hq, hb⟩ := ih (fun y hy => h y (List.mem_cons_of_mem x hy))
    rcases h x List.mem_cons_self with rfl | ⟨q, rfl, hlo, hhi⟩
    · refine ⟨qs, ?_, hb⟩
      simpa [valid, List.filter_cons, notNan, isNan] using hq
    · refine ⟨q :: qs, ?_, ?_⟩
      · simpa [valid, List.filter_cons, notNan, isNan] using hq
      · intro r hr
        rcases List.mem_cons.mp hr with rfl | hr
        · exact ⟨hlo, hhi⟩
        · exact hb r hr

theorem sum_bounds (lo hi : Rat) (qs : List Rat) (h : ∀ q ∈ qs, lo ≤ q ∧ q ≤ hi) :
    lo * qs.length ≤ qs.sum ∧ qs.sum ≤ hi * qs.length := by
  induction qs with
  | nil => simp
  | cons q qs ih =>
    have hq := h q List.mem_cons_self
    have := ih (fun r hr => h r (List.mem_cons_of_mem q hr))
    simp only [List.sum_cons, List.length_cons, Nat.cast_add, Nat.cast_one]
    constructor <;> nlinarith [this.1, this.2, hq.1, hq.2]

/-- the NaN-skipping mean stays in the interval (or is missing when nothing is valid) -/
theorem nanmean_bounds (lo hi : Rat) (xs : List Fl) (h : ∀ x ∈ xs, NanOrIn lo hi x) :
    NanOrIn lo hi (nanmean xs) := by
  obtain ⟨qs, hq, hb⟩ := valid_eq_map_fin lo hi xs h
  unfold nanmean
  simp only [hq]
  cases qs with
  | nil => left; rfl
  | cons q qs =>
    right
    have hlen : (((q :: qs).length : Nat) : Rat) ≠ 0 := by simp; positivity
    have hpos : (0 : Rat) < (((q :: qs).length : Nat) : Rat) := by simp; positivity
    refine ⟨(q :: qs).sum / ((q :: qs).length : Nat), ?_, ?_, ?_⟩
    · simp only [List.map_cons, List.isEmpty_cons, Bool.false_eq_true, if_false]
      rw [← List.map_cons, fsum_map_fin, List.length_map]
      exact div_fin _ _ hlen
    · rw [le_div_iff₀ hpos]; exact (sum_bounds lo hi _ hb).1
    · rw [div_le_iff₀ hpos]; exact (sum_bounds lo hi _ hb).2

end SV.Lemmas.C13Mean
