/-
  Lemmas/ThresholdWeighted — helper lemmas for C10: closed forms over the rationals of the translated g / phi / phi'
  and consistent kernels (tie between Gen and Rat), and the cell lemmas 'g is the first, phi/4 the second
  antiderivative of the weight' that feed Lemmas/Quad.integral_eq_of_antiderivative.
-/
import ScoresVerif.Gen.ThresholdWeighted
import ScoresVerif.Spec.ThresholdWeighted
import ScoresVerif.Model.ThresholdWeighted
import ScoresVerif.Lemmas.Quad
import ScoresVerif.Lemmas.FlBasic

set_option linter.unusedSectionVars false
set_option linter.unusedTactic false
set_option linter.unreachableTactic false
set_option linter.unusedVariables false
set_option linter.unusedSimpArgs false

namespace SV.TW
open SV SV.Fl SV.Spec.Quad SV.Spec.TW
open SV.Gen.ThresholdWeighted

/-! ### closed forms over the rationals (rows of Table B1, Taggart 2022) -/

def gRect (a b x : Rat) : Rat := if x < a then 0 else if x < b then x - a else b - a
def phiRect (a b x : Rat) : Rat :=
  if x < a then 0 else if x < b then 2 * (x - a) ^ 2 else 4 * (b - a) * x + 2 * (a ^ 2 - b ^ 2)
def gTrap (a b c d x : Rat) : Rat :=
  if x < a then 0
  else if x < b then (x - a) ^ 2 / (2 * (b - a))
  else if x < c then x - (b + a) / 2
  else if x < d then -((d - x) ^ 2) / (2 * (d - c)) + (d + c - a - b) / 2
  else (d + c - a - b) / 2
def phiTrap (a b c d x : Rat) : Rat :=
  if x < a then 0
  else if x < b then 2 * (x - a) ^ 3 / (3 * (b - a))
  else if x < c then 2 * x ^ 2 - 2 * (a + b) * x + 2 * (b - a) ^ 2 / 3 + 2 * a * b
  else if x < d then 2 * (d - x) ^ 3 / (3 * (d - c)) + 2 * (d + c - a - b) * x
      + 2 * ((b - a) ^ 2 + 3 * a * b - (d - c) ^ 2 - 3 * c * d) / 3
  else 2 * (d + c - a - b) * x + 2 * ((b - a) ^ 2 + 3 * a * b - (d - c) ^ 2 - 3 * c * d) / 3

theorem powNat_fin (a : Rat) (n : Nat) : powNat (fin a) n = fin (a ^ n) := by
  induction n with
  | zero => simp [powNat]
  | succ n ih => simp [powNat, ih, pow_succ]

theorem max_fin (a b : Rat) : Fl.max (fin a) (fin b) = fin (max a b) := by
  by_cases h : a ≤ b <;> simp [Fl.max, h, max_def]
theorem min_fin (a b : Rat) : Fl.min (fin a) (fin b) = fin (min a b) := by
  by_cases h : a ≤ b <;> simp [Fl.min, h, min_def]

/-- closes the goals left when a `.where` comparison is taken strictly / non-strictly at a kink where the two
    pieces agree (so a harmless `<` ↔ `<=` at an end point does not break the tie): x equals one of the kinks -/
syntax "kink_close" term:max term:max term:max term:max term:max : tactic
macro_rules
  | `(tactic| kink_close $x $a $b $c $d) => `(tactic| first
      | done
      | linarith
      | (exfalso; linarith)
      | (ring_nf; done)
      | (field_simp; ring_nf; done)
      | (have hk : $x = $a := by linarith
         rw [hk]; first | (ring_nf; done) | (field_simp; ring_nf; done) | (field_simp; ring))
      | (have hk : $x = $b := by linarith
         rw [hk]; first | (ring_nf; done) | (field_simp; ring_nf; done) | (field_simp; ring))
      | (have hk : $x = $c := by linarith
         rw [hk]; first | (ring_nf; done) | (field_simp; ring_nf; done) | (field_simp; ring))
      | (have hk : $x = $d := by linarith
         rw [hk]; first | (ring_nf; done) | (field_simp; ring_nf; done) | (field_simp; ring)))

theorem g_j_rect_fin (a b x : Rat) (hab : a < b) : g_j_rect (fin a) (fin b) (fin x) = fin (gRect a b x) := by
  simp only [g_j_rect, gRect, sub_fin, lt_fin, le_fin, gt_fin, ge_fin, isNan_fin, whereB, decide_eq_true_eq,
    Bool.not_false, if_true]
  split_ifs <;> (congr 1; kink_close x a b a b)

theorem phi_j_rect_fin (a b x : Rat) (hab : a < b) : phi_j_rect (fin a) (fin b) (fin x) = fin (phiRect a b x) := by
  simp only [phi_j_rect, phiRect, sub_fin, mul_fin, add_fin, powNat_fin, lt_fin, le_fin, gt_fin, ge_fin, isNan_fin, whereB,
    decide_eq_true_eq, Bool.not_false, if_true]
  split_ifs <;> (congr 1; kink_close x a b a b)

theorem phi_j_prime_rect_fin (a b x : Rat) (hab : a < b) :
    phi_j_prime_rect (fin a) (fin b) (fin x) = fin (4 * gRect a b x) := by
  simp only [phi_j_prime_rect, g_j_rect_fin a b x hab, mul_fin]

theorem g_j_trap_fin (a b c d x : Rat) (hab : a < b) (hbc : b < c) (hcd : c < d) :
    g_j_trap (fin a) (fin b) (fin c) (fin d) (fin x) = fin (gTrap a b c d x) := by
  have h1 : (2 : Rat) * (b - a) ≠ 0 := mul_ne_zero two_ne_zero (sub_ne_zero.mpr hab.ne')
  have h2 : (2 : Rat) * (d - c) ≠ 0 := mul_ne_zero two_ne_zero (sub_ne_zero.mpr hcd.ne')
  have h3 : (2 : Rat) ≠ 0 := two_ne_zero
  have n1 : b - a ≠ 0 := sub_ne_zero.mpr hab.ne'
  have n2 : d - c ≠ 0 := sub_ne_zero.mpr hcd.ne'
  simp only [g_j_trap, gTrap, sub_fin, add_fin, mul_fin, neg_fin, powNat_fin, div_fin _ _ h1, div_fin _ _ h2,
    div_fin _ _ h3, lt_fin, le_fin, gt_fin, ge_fin, isNan_fin, whereB, decide_eq_true_eq, Bool.not_false, if_true]
  split_ifs <;> (congr 1; kink_close x a b c d)

theorem phi_j_trap_fin (a b c d x : Rat) (hab : a < b) (hbc : b < c) (hcd : c < d) :
    phi_j_trap (fin a) (fin b) (fin c) (fin d) (fin x) = fin (phiTrap a b c d x) := by
  have h1 : (3 : Rat) * (b - a) ≠ 0 := mul_ne_zero three_ne_zero (sub_ne_zero.mpr hab.ne')
  have h2 : (3 : Rat) * (d - c) ≠ 0 := mul_ne_zero three_ne_zero (sub_ne_zero.mpr hcd.ne')
  have h3 : (3 : Rat) ≠ 0 := three_ne_zero
  have n1 : b - a ≠ 0 := sub_ne_zero.mpr hab.ne'
  have n2 : d - c ≠ 0 := sub_ne_zero.mpr hcd.ne'
  simp only [phi_j_trap, phiTrap, sub_fin, add_fin, mul_fin, neg_fin, powNat_fin, div_fin _ _ h1, div_fin _ _ h2,
    div_fin _ _ h3, lt_fin, le_fin, gt_fin, ge_fin, isNan_fin, whereB, decide_eq_true_eq, Bool.not_false, if_true]
  split_ifs <;> (congr 1; kink_close x a b c d)

theorem phi_j_prime_trap_fin (a b c d x : Rat) (hab : a < b) (hbc : b < c) (hcd : c < d) :
    phi_j_prime_trap (fin a) (fin b) (fin c) (fin d) (fin x) = fin (4 * gTrap a b c d x) := by
  simp only [phi_j_prime_trap, g_j_trap_fin a b c d x hab hbc hcd, mul_fin]

/-! NaN forecasts / observations give NaN -/
theorem g_j_rect_nan (a b : Fl) : g_j_rect a b nan = nan := by simp [g_j_rect, whereB]
theorem phi_j_rect_nan (a b : Fl) : phi_j_rect a b nan = nan := by simp [phi_j_rect, whereB]
theorem g_j_trap_nan (a b c d : Fl) : g_j_trap a b c d nan = nan := by simp [g_j_trap, whereB]
theorem phi_j_trap_nan (a b c d : Fl) : phi_j_trap a b c d nan = nan := by simp [phi_j_trap, whereB]

/-! ### the consistent scoring functions over the rationals -/

def cq (α : Rat) (g : Rat → Rat) (x y : Rat) : Rat :=
  if y < x then (1 - α) * (g x - g y) else -α * (g x - g y)
/-- Bregman-type term φ(y) − φ(x) − φ′(x)(y − x) -/
def bregman (φ φ' : Rat → Rat) (x y : Rat) : Rat := φ y - φ x - φ' x * (y - x)
def ce (α : Rat) (φ φ' : Rat → Rat) (x y : Rat) : Rat :=
  if y < x then (1 - α) * bregman φ φ' x y else α * bregman φ φ' x y
/-- capping function κ_h(x − y) -/
def kappa (h x y : Rat) : Rat := min (max (x - y) (-h)) h
def ch (h : Rat) (φ φ' : Rat → Rat) (x y : Rat) : Rat :=
  1 / 2 * (φ y - φ (kappa h x y + y) + kappa h x y * φ' x)

theorem consistent_quantile_fin (g : Fl → Fl) (g' : Rat → Rat) (hg : ∀ t, g (fin t) = fin (g' t)) (α x y : Rat) :
    consistent_quantile_score (fin x) (fin y) (fin α) g = fin (cq α g' x y) := by
  simp only [consistent_quantile_score, cq, hg, sub_fin, mul_fin, neg_fin, lt_fin, le_fin, gt_fin, ge_fin, whereB,
    decide_eq_true_eq]
  split_ifs <;> (congr 1; first | done | (exfalso; linarith) | (have hk : x = y := by linarith
                                                                rw [hk]; ring))

theorem consistent_expectile_fin (φ φ' : Fl → Fl) (p p' : Rat → Rat) (hp : ∀ t, φ (fin t) = fin (p t))
    (hp' : ∀ t, φ' (fin t) = fin (p' t)) (α x y : Rat) :
    consistent_expectile_score (fin x) (fin y) (fin α) φ φ' = fin (ce α p p' x y) := by
  simp only [consistent_expectile_score, ce, bregman, hp, hp', sub_fin, mul_fin, lt_fin, le_fin, gt_fin, ge_fin, whereB,
    decide_eq_true_eq]
  split_ifs <;> (congr 1; first | done | (exfalso; linarith) | (have hk : x = y := by linarith
                                                                rw [hk]; ring))

theorem consistent_huber_fin (φ φ' : Fl → Fl) (p p' : Rat → Rat) (hp : ∀ t, φ (fin t) = fin (p t))
    (hp' : ∀ t, φ' (fin t) = fin (p' t)) (h x y : Rat) :
    consistent_huber_score (fin x) (fin y) (fin h) φ φ' = fin (ch h p p' x y) := by
  simp only [consistent_huber_score, ch, kappa, hp, hp', sub_fin, mul_fin, add_fin, neg_fin, max_fin, min_fin]


/-! ### antiderivatives of the weights, cell by cell -/

/-- (w, g, φ) on [L, U] : g is the first antiderivative of the weight w and φ/4 the second (φ′ = 4g), in the exact
    cell sense, for every cell inside [L, U] that has no kink strictly inside -/
structure Antider (w g φ : Rat → Rat) (kinks : List Rat) (L U : Rat) : Prop where
  cell1 : ∀ p q, L ≤ p → p ≤ q → q ≤ U → NoKinkInside kinks p q → milne w p q = g q - g p
  cell2 : ∀ y p q, L ≤ p → p ≤ q → q ≤ U → NoKinkInside kinks p q →
    milne (fun θ => w θ * (θ - y)) p q = (g q * (q - y) - φ q / 4) - (g p * (p - y) - φ p / 4)

/-! closed-piece forms: the pieces agree at the kinks, so each formula is valid on the CLOSED piece -/
section rect
variable (a b : Rat) (hab : a < b)
include hab
theorem gRect_lo (x : Rat) (h : x ≤ a) : gRect a b x = 0 := by
  unfold gRect; rcases h.lt_or_eq with h | rfl <;> split_ifs <;> first | (exfalso; linarith) | (ring_nf; done)
theorem gRect_mid (x : Rat) (h : a ≤ x) (h' : x ≤ b) : gRect a b x = x - a := by
  unfold gRect; rcases h'.lt_or_eq with h' | rfl <;> split_ifs <;> first | (exfalso; linarith) | (ring_nf; done)
theorem gRect_hi (x : Rat) (h : b ≤ x) : gRect a b x = b - a := by
  unfold gRect; split_ifs <;> first | (exfalso; linarith) | (ring_nf; done)
theorem phiRect_lo (x : Rat) (h : x ≤ a) : phiRect a b x = 0 := by
  unfold phiRect; rcases h.lt_or_eq with h | rfl <;> split_ifs <;> first | (exfalso; linarith) | (ring_nf; done)
theorem phiRect_mid (x : Rat) (h : a ≤ x) (h' : x ≤ b) : phiRect a b x = 2 * (x - a) ^ 2 := by
  unfold phiRect; rcases h'.lt_or_eq with h' | rfl <;> split_ifs <;> first | (exfalso; linarith) | (ring_nf; done)
theorem phiRect_hi (x : Rat) (h : b ≤ x) : phiRect a b x = 4 * (b - a) * x + 2 * (a ^ 2 - b ^ 2) := by
  unfold phiRect; split_ifs <;> first | (exfalso; linarith) | (ring_nf; done)

theorem rect_cell1 (p q : Rat) (hpq : p ≤ q) (hno : NoKinkInside [a, b] p q) :
    milne (wRect a b) p q = gRect a b q - gRect a b p := by
  have ha := hno a (by simp); have hb := hno b (by simp)
  rcases hb with hb | hb
  · rw [milne_of_cubic hpq 0 0 0 0 (fun θ h1 h2 => by
      unfold wRect; rw [if_neg (by intro h; linarith [h.2])]; ring),
      gRect_hi a b hab q (by linarith), gRect_hi a b hab p hb]; ring
  · rcases ha with ha | ha
    · rw [milne_of_cubic hpq 1 0 0 0 (fun θ h1 h2 => by
        unfold wRect; rw [if_pos ⟨by linarith, by linarith⟩]; ring),
        gRect_mid a b hab q (by linarith) hb, gRect_mid a b hab p ha (by linarith)]; ring
    · rw [milne_of_cubic hpq 0 0 0 0 (fun θ h1 h2 => by
        unfold wRect; rw [if_neg (by intro h; linarith [h.1])]; ring),
        gRect_lo a b hab q ha, gRect_lo a b hab p (by linarith)]; ring

theorem rect_cell2 (y p q : Rat) (hpq : p ≤ q) (hno : NoKinkInside [a, b] p q) :
    milne (fun θ => wRect a b θ * (θ - y)) p q
      = (gRect a b q * (q - y) - phiRect a b q / 4) - (gRect a b p * (p - y) - phiRect a b p / 4) := by
  have ha := hno a (by simp); have hb := hno b (by simp)
  rcases hb with hb | hb
  · rw [milne_of_cubic hpq 0 0 0 0 (fun θ h1 h2 => by
      unfold wRect; rw [if_neg (by intro h; linarith [h.2])]; ring),
      gRect_hi a b hab q (by linarith), gRect_hi a b hab p hb,
      phiRect_hi a b hab q (by linarith), phiRect_hi a b hab p hb]; ring
  · rcases ha with ha | ha
    · rw [milne_of_cubic hpq (-y) 1 0 0 (fun θ h1 h2 => by
        unfold wRect; rw [if_pos ⟨by linarith, by linarith⟩]; ring),
        gRect_mid a b hab q (by linarith) hb, gRect_mid a b hab p ha (by linarith),
        phiRect_mid a b hab q (by linarith) hb, phiRect_mid a b hab p ha (by linarith)]; ring
    · rw [milne_of_cubic hpq 0 0 0 0 (fun θ h1 h2 => by
        unfold wRect; rw [if_neg (by intro h; linarith [h.1])]; ring),
        gRect_lo a b hab q ha, gRect_lo a b hab p (by linarith),
        phiRect_lo a b hab q ha, phiRect_lo a b hab p (by linarith)]; ring

theorem antider_rect (L U : Rat) : Antider (wRect a b) (gRect a b) (phiRect a b) [a, b] L U :=
  ⟨fun p q _ hpq _ hno => rect_cell1 a b hab p q hpq hno, fun y p q _ hpq _ hno => rect_cell2 a b hab y p q hpq hno⟩
end rect

section trap
variable (a b c d : Rat) (hab : a < b) (hbc : b < c) (hcd : c < d)
include hab hbc hcd

theorem gTrap_0 (x : Rat) (h : x ≤ a) : gTrap a b c d x = 0 := by
  unfold gTrap; rcases h.lt_or_eq with h | rfl <;> split_ifs <;> first | (exfalso; linarith) | (ring_nf; done) | (field_simp; ring)
theorem gTrap_1 (x : Rat) (h : a ≤ x) (h' : x ≤ b) : gTrap a b c d x = (x - a) ^ 2 / (2 * (b - a)) := by
  have h1 : b - a ≠ 0 := ne_of_gt (by linarith)
  unfold gTrap; rcases h'.lt_or_eq with h' | rfl <;> split_ifs <;> first | (exfalso; linarith) | (ring_nf; done) | (field_simp; ring)
theorem gTrap_2 (x : Rat) (h : b ≤ x) (h' : x ≤ c) : gTrap a b c d x = x - (b + a) / 2 := by
  have h2 : d - c ≠ 0 := ne_of_gt (by linarith)
  unfold gTrap; rcases h'.lt_or_eq with h' | rfl <;> split_ifs <;> first | (exfalso; linarith) | (ring_nf; done) | (field_simp; ring)
theorem gTrap_3 (x : Rat) (h : c ≤ x) (h' : x ≤ d) :
    gTrap a b c d x = -((d - x) ^ 2) / (2 * (d - c)) + (d + c - a - b) / 2 := by
  unfold gTrap; rcases h'.lt_or_eq with h' | rfl <;> split_ifs <;> first | (exfalso; linarith) | (ring_nf; done) | (field_simp; ring)
theorem gTrap_4 (x : Rat) (h : d ≤ x) : gTrap a b c d x = (d + c - a - b) / 2 := by
  unfold gTrap; split_ifs <;> first | (exfalso; linarith) | (ring_nf; done)

theorem phiTrap_0 (x : Rat) (h : x ≤ a) : phiTrap a b c d x = 0 := by
  unfold phiTrap; rcases h.lt_or_eq with h | rfl <;> split_ifs <;> first | (exfalso; linarith) | (ring_nf; done) | (field_simp; ring)
theorem phiTrap_1 (x : Rat) (h : a ≤ x) (h' : x ≤ b) : phiTrap a b c d x = 2 * (x - a) ^ 3 / (3 * (b - a)) := by
  have h1 : b - a ≠ 0 := ne_of_gt (by linarith)
  unfold phiTrap; rcases h'.lt_or_eq with h' | rfl <;> split_ifs <;> first | (exfalso; linarith) | (ring_nf; done) | (field_simp; ring)
theorem phiTrap_2 (x : Rat) (h : b ≤ x) (h' : x ≤ c) :
    phiTrap a b c d x = 2 * x ^ 2 - 2 * (a + b) * x + 2 * (b - a) ^ 2 / 3 + 2 * a * b := by
  have h2 : d - c ≠ 0 := ne_of_gt (by linarith)
  unfold phiTrap; rcases h'.lt_or_eq with h' | rfl <;> split_ifs <;> first | (exfalso; linarith) | (ring_nf; done) | (field_simp; ring)
theorem phiTrap_3 (x : Rat) (h : c ≤ x) (h' : x ≤ d) :
    phiTrap a b c d x = 2 * (d - x) ^ 3 / (3 * (d - c)) + 2 * (d + c - a - b) * x
      + 2 * ((b - a) ^ 2 + 3 * a * b - (d - c) ^ 2 - 3 * c * d) / 3 := by
  have h2 : d - c ≠ 0 := ne_of_gt (by linarith)
  unfold phiTrap; rcases h'.lt_or_eq with h' | rfl <;> split_ifs <;> first | (exfalso; linarith) | (ring_nf; done) | (field_simp; ring)
theorem phiTrap_4 (x : Rat) (h : d ≤ x) :
    phiTrap a b c d x = 2 * (d + c - a - b) * x + 2 * ((b - a) ^ 2 + 3 * a * b - (d - c) ^ 2 - 3 * c * d) / 3 := by
  unfold phiTrap; split_ifs <;> first | (exfalso; linarith) | (ring_nf; done)

theorem wTrap_0 (x : Rat) (h : x < a) : wTrap a b c d x = 0 := by
  unfold wTrap; rw [if_pos h]
theorem wTrap_1 (x : Rat) (h : a ≤ x) (h' : x < b) : wTrap a b c d x = (x - a) / (b - a) := by
  unfold wTrap; rw [if_neg (by linarith), if_pos h']
theorem wTrap_2 (x : Rat) (h : b ≤ x) (h' : x < c) : wTrap a b c d x = 1 := by
  unfold wTrap; rw [if_neg (by linarith), if_neg (by linarith), if_pos h']
theorem wTrap_3 (x : Rat) (h : c ≤ x) (h' : x < d) : wTrap a b c d x = (d - x) / (d - c) := by
  unfold wTrap; rw [if_neg (by linarith), if_neg (by linarith), if_neg (by linarith), if_pos h']
theorem wTrap_4 (x : Rat) (h : d ≤ x) : wTrap a b c d x = 0 := by
  unfold wTrap; rw [if_neg (by linarith), if_neg (by linarith), if_neg (by linarith), if_neg (by linarith)]

theorem trap_pieces (p q : Rat) (hpq : p ≤ q) (hno : NoKinkInside [a, b, c, d] p q) :
    q ≤ a ∨ (a ≤ p ∧ q ≤ b) ∨ (b ≤ p ∧ q ≤ c) ∨ (c ≤ p ∧ q ≤ d) ∨ d ≤ p := by
  have ha := hno a (by simp); have hb := hno b (by simp); have hc := hno c (by simp); have hd := hno d (by simp)
  rcases hd with hd | hd
  · exact Or.inr (Or.inr (Or.inr (Or.inr hd)))
  rcases hc with hc | hc
  · exact Or.inr (Or.inr (Or.inr (Or.inl ⟨hc, hd⟩)))
  rcases hb with hb | hb
  · exact Or.inr (Or.inr (Or.inl ⟨hb, hc⟩))
  rcases ha with ha | ha
  · exact Or.inr (Or.inl ⟨ha, hb⟩)
  · exact Or.inl ha

theorem trap_cell1 (p q : Rat) (hpq : p ≤ q) (hno : NoKinkInside [a, b, c, d] p q) :
    milne (wTrap a b c d) p q = gTrap a b c d q - gTrap a b c d p := by
  have h1 : b - a ≠ 0 := ne_of_gt (by linarith)
  have h2 : d - c ≠ 0 := ne_of_gt (by linarith)
  rcases trap_pieces a b c d hab hbc hcd p q hpq hno with h | ⟨h, h'⟩ | ⟨h, h'⟩ | ⟨h, h'⟩ | h
  · rw [milne_of_cubic hpq 0 0 0 0 (fun θ t1 t2 => by rw [wTrap_0 a b c d hab hbc hcd θ (by linarith)]; ring),
      gTrap_0 a b c d hab hbc hcd q h, gTrap_0 a b c d hab hbc hcd p (by linarith)]; ring
  · rw [milne_of_cubic hpq (-a / (b - a)) (1 / (b - a)) 0 0 (fun θ t1 t2 => by
        rw [wTrap_1 a b c d hab hbc hcd θ (by linarith) (by linarith)]; field_simp; ring),
      gTrap_1 a b c d hab hbc hcd q (by linarith) h', gTrap_1 a b c d hab hbc hcd p h (by linarith)]; field_simp; ring
  · rw [milne_of_cubic hpq 1 0 0 0 (fun θ t1 t2 => by
        rw [wTrap_2 a b c d hab hbc hcd θ (by linarith) (by linarith)]; ring),
      gTrap_2 a b c d hab hbc hcd q (by linarith) h', gTrap_2 a b c d hab hbc hcd p h (by linarith)]; ring
  · rw [milne_of_cubic hpq (d / (d - c)) (-1 / (d - c)) 0 0 (fun θ t1 t2 => by
        rw [wTrap_3 a b c d hab hbc hcd θ (by linarith) (by linarith)]; field_simp; ring),
      gTrap_3 a b c d hab hbc hcd q (by linarith) h', gTrap_3 a b c d hab hbc hcd p h (by linarith)]; field_simp; ring
  · rw [milne_of_cubic hpq 0 0 0 0 (fun θ t1 t2 => by rw [wTrap_4 a b c d hab hbc hcd θ (by linarith)]; ring),
      gTrap_4 a b c d hab hbc hcd q (by linarith), gTrap_4 a b c d hab hbc hcd p h]; ring

theorem trap_cell2 (y p q : Rat) (hpq : p ≤ q) (hno : NoKinkInside [a, b, c, d] p q) :
    milne (fun θ => wTrap a b c d θ * (θ - y)) p q
      = (gTrap a b c d q * (q - y) - phiTrap a b c d q / 4) - (gTrap a b c d p * (p - y) - phiTrap a b c d p / 4) := by
  have h1 : b - a ≠ 0 := ne_of_gt (by linarith)
  have h2 : d - c ≠ 0 := ne_of_gt (by linarith)
  rcases trap_pieces a b c d hab hbc hcd p q hpq hno with h | ⟨h, h'⟩ | ⟨h, h'⟩ | ⟨h, h'⟩ | h
  · rw [milne_of_cubic hpq 0 0 0 0 (fun θ t1 t2 => by rw [wTrap_0 a b c d hab hbc hcd θ (by linarith)]; ring),
      gTrap_0 a b c d hab hbc hcd q h, gTrap_0 a b c d hab hbc hcd p (by linarith),
      phiTrap_0 a b c d hab hbc hcd q h, phiTrap_0 a b c d hab hbc hcd p (by linarith)]; ring
  · rw [milne_of_cubic hpq (a * y / (b - a)) (-(a + y) / (b - a)) (1 / (b - a)) 0 (fun θ t1 t2 => by
        rw [wTrap_1 a b c d hab hbc hcd θ (by linarith) (by linarith)]; field_simp; ring),
      gTrap_1 a b c d hab hbc hcd q (by linarith) h', gTrap_1 a b c d hab hbc hcd p h (by linarith),
      phiTrap_1 a b c d hab hbc hcd q (by linarith) h', phiTrap_1 a b c d hab hbc hcd p h (by linarith)]; field_simp; ring
  · rw [milne_of_cubic hpq (-y) 1 0 0 (fun θ t1 t2 => by
        rw [wTrap_2 a b c d hab hbc hcd θ (by linarith) (by linarith)]; ring),
      gTrap_2 a b c d hab hbc hcd q (by linarith) h', gTrap_2 a b c d hab hbc hcd p h (by linarith),
      phiTrap_2 a b c d hab hbc hcd q (by linarith) h', phiTrap_2 a b c d hab hbc hcd p h (by linarith)]; ring
  · rw [milne_of_cubic hpq (-(d * y) / (d - c)) ((d + y) / (d - c)) (-1 / (d - c)) 0 (fun θ t1 t2 => by
        rw [wTrap_3 a b c d hab hbc hcd θ (by linarith) (by linarith)]; field_simp; ring),
      gTrap_3 a b c d hab hbc hcd q (by linarith) h', gTrap_3 a b c d hab hbc hcd p h (by linarith),
      phiTrap_3 a b c d hab hbc hcd q (by linarith) h', phiTrap_3 a b c d hab hbc hcd p h (by linarith)]; field_simp; ring
  · rw [milne_of_cubic hpq 0 0 0 0 (fun θ t1 t2 => by rw [wTrap_4 a b c d hab hbc hcd θ (by linarith)]; ring),
      gTrap_4 a b c d hab hbc hcd q (by linarith), gTrap_4 a b c d hab hbc hcd p h,
      phiTrap_4 a b c d hab hbc hcd q (by linarith), phiTrap_4 a b c d hab hbc hcd p h]; ring
end trap

theorem antider_trap (a b c d : Rat) (hab : a < b) (hbc : b < c) (hcd : c < d) (L U : Rat) :
    Antider (wTrap a b c d) (gTrap a b c d) (phiTrap a b c d) [a, b, c, d] L U :=
  ⟨fun p q _ hpq _ hno => trap_cell1 a b c d hab hbc hcd p q hpq hno,
   fun y p q _ hpq _ hno => trap_cell2 a b c d hab hbc hcd y p q hpq hno⟩


/-! ### from the antiderivatives to the integrals of weight × elementary score -/

theorem noKink_append_left {k1 k2 : List Rat} {p q : Rat} (h : NoKinkInside (k1 ++ k2) p q) : NoKinkInside k1 p q :=
  fun k hk => h k (List.mem_append_left _ hk)

section genericH
variable {w g φ : Rat → Rat} {ks : List Rat} {L U : Rat} (A : Antider w g φ ks L U)
include A

/-- 2 ∫ w·S^H_θ (α = ½) = ½ · the consistent Huber score built from φ, φ′ = 4g -/
theorem intHuber_eq (h x y : Rat) (hh : 0 < h) (hLx : L ≤ x) (hLy : L ≤ y) (hxU : x ≤ U) (hyU : y ≤ U) :
    2 * intHuber w ks (1 / 2) h x y = 1 / 2 * ch h φ (fun t => 4 * g t) x y := by
  unfold intHuber lo hi rmin rmax ch kappa
  by_cases hyx : y < x
  · rw [if_neg (not_le.mpr hyx), if_neg (not_le.mpr hyx)]
    -- antiderivative: H up to y+h, then affine in g
    let H : Rat → Rat := fun t => g t * (t - y) - φ t / 4
    let G : Rat → Rat := fun t => 1 / 2 * (if t ≤ y + h then H t else H (y + h) + h * (g t - g (y + h)))
    have Glo : ∀ t, t ≤ y + h → G t = 1 / 2 * H t := fun t ht => by simp only [G, if_pos ht]
    have Ghi : ∀ t, y + h ≤ t → G t = 1 / 2 * (H (y + h) + h * (g t - g (y + h))) := fun t ht => by
      rcases ht.lt_or_eq with ht | rfl
      · simp only [G, if_neg (not_le.mpr ht)]
      · simp only [G, le_refl, if_true]; ring
    rw [integral_eq_of_antiderivative _ G y x _ hyx.le]
    · rw [Glo y (by linarith)]
      by_cases hx : x ≤ y + h
      · rw [Glo x hx, max_eq_left (by linarith), min_eq_left (by linarith)]
        simp only [H]; ring_nf
      · have hx' : y + h ≤ x := le_of_lt (not_le.mp hx)
        rw [Ghi x hx', max_eq_left (by linarith), min_eq_right (by linarith)]
        simp only [H]; ring_nf
    · intro p q hp hpq hq hno
      have hk := hno (y + h) (by simp)
      have hno' := noKink_append_left hno
      rcases hk with hk | hk
      · -- the cell lies right of y + h : integrand ½·h·w
        rw [milne_congr (f' := fun θ => (1 / 2 * h) * w θ) hpq, milne_smul, A.cell1 p q (by linarith) hpq (by linarith) hno',
          Ghi q (by linarith), Ghi p hk]
        · ring
        · intro θ h1 h2
          unfold elemHuber rmin
          rw [if_pos ⟨by linarith, by linarith⟩, if_neg (by linarith)]; ring
      · rw [milne_congr (f' := fun θ => (1 / 2) * (w θ * (θ - y))) hpq, milne_smul, A.cell2 y p q (by linarith) hpq (by linarith) hno',
          Glo q hk, Glo p (by linarith)]
        · simp only [H]; ring
        · intro θ h1 h2
          unfold elemHuber rmin
          rw [if_pos ⟨by linarith, by linarith⟩, if_pos (by linarith)]; ring
  · have hxy : x ≤ y := not_lt.mp hyx
    rw [if_pos hxy, if_pos hxy]
    let H : Rat → Rat := fun t => g t * (t - y) - φ t / 4
    let G : Rat → Rat := fun t => 1 / 2 * (if y - h ≤ t then -H t else -H (y - h) - h * (g (y - h) - g t))
    have Ghi : ∀ t, y - h ≤ t → G t = 1 / 2 * (-H t) := fun t ht => by simp only [G, if_pos ht]
    have Glo : ∀ t, t ≤ y - h → G t = 1 / 2 * (-H (y - h) - h * (g (y - h) - g t)) := fun t ht => by
      rcases ht.lt_or_eq with ht | rfl
      · simp only [G, if_neg (not_le.mpr ht)]
      · simp only [G, le_refl, if_true]; ring
    rw [integral_eq_of_antiderivative _ G x y _ hxy]
    · rw [Ghi y (by linarith)]
      by_cases hx : y - h ≤ x
      · rw [Ghi x hx, max_eq_left (by linarith), min_eq_left (by linarith)]
        simp only [H]; ring_nf
      · have hx' : x ≤ y - h := le_of_lt (not_le.mp hx)
        rw [Glo x hx', max_eq_right (by linarith), min_eq_left (by linarith)]
        simp only [H]; ring_nf
    · intro p q hp hpq hq hno
      have hk := hno (y - h) (by simp)
      have hno' := noKink_append_left hno
      rcases hk with hk | hk
      · -- right of y − h : integrand ½·w·(y − θ)
        rw [milne_congr (f' := fun θ => (-(1 / 2)) * (w θ * (θ - y))) hpq, milne_smul, A.cell2 y p q (by linarith) hpq (by linarith) hno',
          Ghi q (by linarith), Ghi p hk]
        · simp only [H]; ring
        · intro θ h1 h2
          unfold elemHuber rmin
          rw [if_neg (by intro hc; linarith [hc.1]), if_pos ⟨by linarith, by linarith⟩, if_pos (by linarith)]; ring
      · rw [milne_congr (f' := fun θ => (1 / 2 * h) * w θ) hpq, milne_smul, A.cell1 p q (by linarith) hpq (by linarith) hno',
          Glo q hk, Glo p (by linarith)]
        · ring
        · intro θ h1 h2
          unfold elemHuber rmin
          rw [if_neg (by intro hc; linarith [hc.1]), if_pos ⟨by linarith, by linarith⟩, if_neg (by linarith)]; ring
end genericH

section generic
variable {w g φ : Rat → Rat} {ks : List Rat} {L U : Rat} (A : Antider w g φ ks L U)
include A

/-- ∫ w·S^Q_θ = the consistent quantile score built from g -/
theorem intQuantile_eq (α x y : Rat) (hLx : L ≤ x) (hLy : L ≤ y) (hxU : x ≤ U) (hyU : y ≤ U) : intQuantile w ks α x y = cq α g x y := by
  unfold intQuantile lo hi rmin rmax cq
  by_cases hyx : y < x
  · rw [if_neg (not_le.mpr hyx), if_neg (not_le.mpr hyx), if_pos hyx]
    rw [integral_eq_of_antiderivative _ (fun t => (1 - α) * g t) y x ks hyx.le]
    · ring
    · intro p q hp hpq hq hno
      rw [milne_congr (f' := fun θ => (1 - α) * w θ) hpq, milne_smul, A.cell1 p q (by linarith) hpq (by linarith) hno]
      · ring
      · intro θ h1 h2
        unfold elemQuantile; rw [if_pos ⟨by linarith, by linarith⟩]; ring
  · have hxy : x ≤ y := not_lt.mp hyx
    rw [if_pos hxy, if_pos hxy, if_neg hyx]
    rw [integral_eq_of_antiderivative _ (fun t => α * g t) x y ks hxy]
    · ring
    · intro p q hp hpq hq hno
      rw [milne_congr (f' := fun θ => α * w θ) hpq, milne_smul, A.cell1 p q (by linarith) hpq (by linarith) hno]
      · ring
      · intro θ h1 h2
        unfold elemQuantile
        rw [if_neg (by intro h; linarith [h.1]), if_pos ⟨by linarith, by linarith⟩]; ring

/-- 2 ∫ w·S^E_θ = ½ · the consistent expectile score built from φ, φ′ = 4g -/
theorem intExpectile_eq (α x y : Rat) (hLx : L ≤ x) (hLy : L ≤ y) (hxU : x ≤ U) (hyU : y ≤ U) :
    2 * intExpectile w ks α x y = 1 / 2 * ce α φ (fun t => 4 * g t) x y := by
  unfold intExpectile lo hi rmin rmax ce bregman
  by_cases hyx : y < x
  · rw [if_neg (not_le.mpr hyx), if_neg (not_le.mpr hyx), if_pos hyx]
    rw [integral_eq_of_antiderivative _ (fun t => (1 - α) * (g t * (t - y) - φ t / 4)) y x ks hyx.le]
    · ring
    · intro p q hp hpq hq hno
      rw [milne_congr (f' := fun θ => (1 - α) * (w θ * (θ - y))) hpq, milne_smul, A.cell2 y p q (by linarith) hpq (by linarith) hno]
      · ring
      · intro θ h1 h2
        unfold elemExpectile Spec.TW.rabs
        rw [if_pos ⟨by linarith, by linarith⟩, if_pos (by linarith)]; ring
  · have hxy : x ≤ y := not_lt.mp hyx
    rw [if_pos hxy, if_pos hxy, if_neg hyx]
    rw [integral_eq_of_antiderivative _ (fun t => (-α) * (g t * (t - y) - φ t / 4)) x y ks hxy]
    · ring
    · intro p q hp hpq hq hno
      rw [milne_congr (f' := fun θ => (-α) * (w θ * (θ - y))) hpq, milne_smul, A.cell2 y p q (by linarith) hpq (by linarith) hno]
      · ring
      · intro θ h1 h2
        unfold elemExpectile Spec.TW.rabs
        rw [if_neg (by intro h; linarith [h.1]), if_pos ⟨by linarith, by linarith⟩, if_neg (by linarith)]; ring

end generic

/-! ### ideal weights with infinite end points: the replaced finite end point only has to lie beyond the data -/

theorem Antider.congr {w w' g φ : Rat → Rat} {ks ks' : List Rat} {L U : Rat} (A : Antider w g φ ks L U)
    (hw : ∀ θ, L < θ → θ < U → w' θ = w θ)
    (hk : ∀ p q, L ≤ p → p ≤ q → q ≤ U → NoKinkInside ks' p q → NoKinkInside ks p q) : Antider w' g φ ks' L U := by
  constructor
  · intro p q hp hpq hq hno
    rw [milne_congr hpq (fun θ h1 h2 => hw θ (by linarith) (by linarith))]
    exact A.cell1 p q hp hpq hq (hk p q hp hpq hq hno)
  · intro y p q hp hpq hq hno
    rw [milne_congr (f' := fun θ => w θ * (θ - y)) hpq (fun θ h1 h2 => by rw [hw θ (by linarith) (by linarith)])]
    exact A.cell2 y p q hp hpq hq (hk p q hp hpq hq hno)

theorem wRectE_fin (a b θ : Rat) : wRectE (fin a) (fin b) θ = wRect a b θ := by
  simp [wRectE, wRect]

/-- (−∞, b): any finite A below the data (and below b) serves as left end point -/
theorem antider_rectE_left (A b U : Rat) (hAb : A < b) :
    Antider (wRectE ninf (fin b)) (gRect A b) (phiRect A b) [b] A U := by
  refine (antider_rect A b hAb A U).congr ?_ ?_
  · intro θ h1 h2
    have : Fl.le ninf (fin θ) = true := rfl
    simp only [wRectE, wRect, this, Bool.true_and, lt_fin, decide_eq_true_eq]
    by_cases h : θ < b <;> simp [h, h1.le]
  · intro p q hp hpq hq hno k hk
    simp only [List.mem_cons, List.not_mem_nil, or_false] at hk
    rcases hk with rfl | rfl
    · exact Or.inl hp
    · exact hno _ (by simp)

/-- [a, +∞): any finite B above the data (and above a) serves as right end point -/
theorem antider_rectE_right (a B L : Rat) (haB : a < B) :
    Antider (wRectE (fin a) pinf) (gRect a B) (phiRect a B) [a] L B := by
  refine (antider_rect a B haB L B).congr ?_ ?_
  · intro θ h1 h2
    have : Fl.lt (fin θ) pinf = true := rfl
    simp only [wRectE, wRect, this, Bool.and_true, le_fin, decide_eq_true_eq]
    by_cases h : a ≤ θ <;> simp [h, h2]
  · intro p q hp hpq hq hno k hk
    simp only [List.mem_cons, List.not_mem_nil, or_false] at hk
    rcases hk with rfl | rfl
    · exact hno _ (by simp)
    · exact Or.inr hq

/-- (−∞, +∞) -/
theorem antider_rectE_both (A B : Rat) (hAB : A < B) :
    Antider (wRectE ninf pinf) (gRect A B) (phiRect A B) [] A B := by
  refine (antider_rect A B hAB A B).congr ?_ ?_
  · intro θ h1 h2
    have e1 : Fl.lt (fin θ) pinf = true := rfl
    have e2 : Fl.le ninf (fin θ) = true := rfl
    simp [wRectE, wRect, e1, e2, h1.le, h2]
  · intro p q hp hpq hq hno k hk
    simp only [List.mem_cons, List.not_mem_nil, or_false] at hk
    rcases hk with rfl | rfl
    · exact Or.inl hp
    · exact Or.inr hq

theorem rampDown_eq (c d θ : Rat) (hcd : c < d) (hθ : θ < c ∨ True) :
    rmin 1 (rampDown (fin c) (fin d) θ) = if θ < c then 1 else if θ < d then (d - θ) / (d - c) else 0 := by
  have hpos : 0 < d - c := by linarith
  unfold rampDown rmin
  by_cases h1 : θ < c
  · simp [h1]
  · by_cases h2 : θ < d
    · simp only [h1, h2, if_false, if_true]
      have : (d - θ) / (d - c) ≤ 1 := by rw [div_le_one hpos]; linarith
      split_ifs with h3
      · linarith
      · rfl
    · simp [h1, h2]

theorem rampUp_eq (a b θ : Rat) (hab : a < b) :
    rmin (rampUp (fin a) (fin b) θ) 1 = if θ < a then 0 else if θ < b then (θ - a) / (b - a) else 1 := by
  have hpos : 0 < b - a := by linarith
  unfold rampUp rmin
  by_cases h1 : θ < a
  · simp [h1]
  · by_cases h2 : θ < b
    · simp only [h1, h2, if_false, if_true]
      have : (θ - a) / (b - a) ≤ 1 := by rw [div_le_one hpos]; linarith
      rw [if_pos this]
    · simp [h1, h2]

/-- (−∞, −∞, c, d): the ramp-down weight 1 below c; replaced end points A0 < A with A below the data -/
theorem antider_trapE_left (A0 A c d U : Rat) (h0 : A0 < A) (hAc : A < c) (hcd : c < d) :
    Antider (wTrapE ninf ninf (fin c) (fin d)) (gTrap A0 A c d) (phiTrap A0 A c d) [c, d] A U := by
  refine (antider_trap A0 A c d h0 hAc hcd A U).congr ?_ ?_
  · intro θ h1 h2
    have e : rampUp ninf ninf θ = 1 := rfl
    rw [wTrapE, e, rampDown_eq c d θ hcd (Or.inr trivial)]
    by_cases c1 : θ < c
    · rw [if_pos c1, wTrap_2 A0 A c d h0 hAc hcd θ (by linarith) c1]
    · by_cases c2 : θ < d
      · rw [if_neg c1, if_pos c2, wTrap_3 A0 A c d h0 hAc hcd θ (by linarith) c2]
      · rw [if_neg c1, if_neg c2, wTrap_4 A0 A c d h0 hAc hcd θ (by linarith)]
  · intro p q hp hpq hq hno k hk
    simp only [List.mem_cons, List.not_mem_nil, or_false] at hk
    rcases hk with rfl | rfl | rfl | rfl
    · exact Or.inl (by linarith)
    · exact Or.inl hp
    · exact hno _ (by simp)
    · exact hno _ (by simp)

/-- (a, b, +∞, +∞): the ramp-up weight; replaced end points D < D0 with D above the data -/
theorem antider_trapE_right (a b D D0 L : Rat) (hab : a < b) (hbD : b < D) (hD : D < D0) :
    Antider (wTrapE (fin a) (fin b) pinf pinf) (gTrap a b D D0) (phiTrap a b D D0) [a, b] L D := by
  refine (antider_trap a b D D0 hab hbD hD L D).congr ?_ ?_
  · intro θ h1 h2
    have e : rampDown pinf pinf θ = 1 := rfl
    rw [wTrapE, e, rampUp_eq a b θ hab]
    by_cases c1 : θ < a
    · rw [if_pos c1, wTrap_0 a b D D0 hab hbD hD θ c1]
    · by_cases c2 : θ < b
      · rw [if_neg c1, if_pos c2, wTrap_1 a b D D0 hab hbD hD θ (by linarith) c2]
      · rw [if_neg c1, if_neg c2, wTrap_2 a b D D0 hab hbD hD θ (by linarith) h2]
  · intro p q hp hpq hq hno k hk
    simp only [List.mem_cons, List.not_mem_nil, or_false] at hk
    rcases hk with rfl | rfl | rfl | rfl
    · exact hno _ (by simp)
    · exact hno _ (by simp)
    · exact Or.inr hq
    · exact Or.inr (by linarith)

/-- all four end points infinite: weight 1 -/
theorem antider_trapE_both (A0 A D D0 : Rat) (h0 : A0 < A) (hAD : A < D) (hD : D < D0) :
    Antider (wTrapE ninf ninf pinf pinf) (gTrap A0 A D D0) (phiTrap A0 A D D0) [] A D := by
  refine (antider_trap A0 A D D0 h0 hAD hD A D).congr ?_ ?_
  · intro θ h1 h2
    have e : wTrapE ninf ninf pinf pinf θ = 1 := by simp [wTrapE, rampUp, rampDown, rmin]
    rw [e, wTrap_2 A0 A D D0 h0 hAD hD θ (by linarith) h2]
  · intro p q hp hpq hq hno k hk
    simp only [List.mem_cons, List.not_mem_nil, or_false] at hk
    rcases hk with rfl | rfl | rfl | rfl
    · exact Or.inl (by linarith)
    · exact Or.inl hp
    · exact Or.inr hq
    · exact Or.inr (by linarith)

theorem wTrapE_fin (a b c d θ : Rat) (hab : a < b) (hbc : b < c) (hcd : c < d) :
    wTrapE (fin a) (fin b) (fin c) (fin d) θ = wTrap a b c d θ := by
  have hp1 : 0 < b - a := by linarith
  have hp2 : 0 < d - c := by linarith
  unfold wTrapE rampUp rampDown rmin wTrap
  by_cases c1 : θ < a
  · have : θ < c := by linarith
    simp [c1, this]
  by_cases c2 : θ < b
  · have : θ < c := by linarith
    have l1 : (θ - a) / (b - a) ≤ 1 := by rw [div_le_one hp1]; linarith
    simp [c1, c2, this, l1]
  by_cases c3 : θ < c
  · simp [c1, c2, c3]
  by_cases c4 : θ < d
  · have l1 : (d - θ) / (d - c) ≤ 1 := by rw [div_le_one hp2]; linarith
    simp only [c1, c2, c3, c4, if_false, if_true]
    split_ifs with h3
    · linarith
    · rfl
  · have : (1 : Rat) ≤ 0 ↔ False := by norm_num
    simp [c1, c2, c3, c4]

/-! ### weight one on the data range: g(t) = t − k and φ(t) = 2t² − 4kt + m for t ∈ [A, B] -/

def UnitPair (g φ : Rat → Rat) (A B : Rat) : Prop :=
  ∃ k m, ∀ t, A ≤ t → t ≤ B → g t = t - k ∧ φ t = 2 * t ^ 2 - 4 * k * t + m

theorem cq_unit {g φ : Rat → Rat} {A B : Rat} (hu : UnitPair g φ A B) (α x y : Rat)
    (hx : A ≤ x) (hx' : x ≤ B) (hy : A ≤ y) (hy' : y ≤ B) : cq α g x y = pinball α x y := by
  obtain ⟨k, m, hk⟩ := hu
  unfold cq pinball; rw [(hk x hx hx').1, (hk y hy hy').1]; split_ifs <;> ring

theorem ce_unit {g φ : Rat → Rat} {A B : Rat} (hu : UnitPair g φ A B) (α x y : Rat)
    (hx : A ≤ x) (hx' : x ≤ B) (hy : A ≤ y) (hy' : y ≤ B) :
    1 / 2 * ce α φ (fun t => 4 * g t) x y = asymSquared α x y := by
  obtain ⟨k, m, hk⟩ := hu
  unfold ce bregman asymSquared
  beta_reduce
  rw [(hk x hx hx').1, (hk x hx hx').2, (hk y hy hy').2]; split_ifs <;> ring

theorem kappa_mem (h x y A B : Rat) (hh : 0 < h) (hx : A ≤ x) (hx' : x ≤ B) (hy : A ≤ y) (hy' : y ≤ B) :
    A ≤ kappa h x y + y ∧ kappa h x y + y ≤ B := by
  unfold kappa; simp only [max_def, min_def]; split_ifs <;> constructor <;> linarith

theorem ch_unit {g φ : Rat → Rat} {A B : Rat} (hu : UnitPair g φ A B) (h x y : Rat) (hh : 0 < h)
    (hx : A ≤ x) (hx' : x ≤ B) (hy : A ≤ y) (hy' : y ≤ B) :
    1 / 2 * ch h φ (fun t => 4 * g t) x y = huberLoss h x y := by
  obtain ⟨k, m, hk⟩ := hu
  have hz := kappa_mem h x y A B hh hx hx' hy hy'
  unfold ch
  beta_reduce
  rw [(hk x hx hx').1, (hk y hy hy').2, (hk _ hz.1 hz.2).2]
  unfold kappa huberLoss Spec.TW.rabs; simp only [max_def, min_def]
  split_ifs
  all_goals first
    | (ring_nf; done)
    | (exfalso; linarith)
    | (obtain rfl : x = y - h := by linarith
       ring)
    | (obtain rfl : x = y + h := by linarith
       ring)

/-! linearity of the consistent scores in (g, φ) -/
theorem cq_add (α : Rat) (g1 g2 : Rat → Rat) (x y : Rat) :
    cq α (fun t => g1 t + g2 t) x y = cq α g1 x y + cq α g2 x y := by
  unfold cq; split_ifs <;> ring
theorem ce_add (α : Rat) (p1 p2 g1 g2 : Rat → Rat) (x y : Rat) :
    ce α (fun t => p1 t + p2 t) (fun t => 4 * (g1 t + g2 t)) x y
      = ce α p1 (fun t => 4 * g1 t) x y + ce α p2 (fun t => 4 * g2 t) x y := by
  unfold ce bregman; split_ifs <;> ring
theorem ch_add (h : Rat) (p1 p2 g1 g2 : Rat → Rat) (x y : Rat) :
    ch h (fun t => p1 t + p2 t) (fun t => 4 * (g1 t + g2 t)) x y
      = ch h p1 (fun t => 4 * g1 t) x y + ch h p2 (fun t => 4 * g2 t) x y := by
  unfold ch; ring

theorem unitPair_rect (A B : Rat) (hAB : A < B) : UnitPair (gRect A B) (phiRect A B) A B :=
  ⟨A, 2 * A ^ 2, fun t h1 h2 => by rw [gRect_mid A B hAB t h1 h2, phiRect_mid A B hAB t h1 h2]; constructor <;> ring⟩

theorem unitPair_trap (A0 A D D0 : Rat) (h0 : A0 < A) (hAD : A < D) (hD : D < D0) :
    UnitPair (gTrap A0 A D D0) (phiTrap A0 A D D0) A D :=
  ⟨(A + A0) / 2, 2 * (A - A0) ^ 2 / 3 + 2 * A0 * A, fun t h1 h2 => by
    rw [gTrap_2 A0 A D D0 h0 hAD hD t h1 h2, phiTrap_2 A0 A D D0 h0 hAD hD t h1 h2]; constructor <;> ring⟩

/-- two half-lines at b: 1(−∞,b) + 1[b,∞) ≡ 1 -/
theorem unitPair_halves (A b B : Rat) (hAb : A < b) (hbB : b < B) :
    UnitPair (fun t => gRect A b t + gRect b B t) (fun t => phiRect A b t + phiRect b B t) A B :=
  ⟨A, 2 * A ^ 2, fun t h1 h2 => by
    beta_reduce
    rcases le_total t b with h | h
    · rw [gRect_mid A b hAb t h1 h, phiRect_mid A b hAb t h1 h, gRect_lo b B hbB t h, phiRect_lo b B hbB t h]
      constructor <;> ring
    · rw [gRect_hi A b hAb t h, phiRect_hi A b hAb t h, gRect_mid b B hbB t h h2, phiRect_mid b B hbB t h h2]
      constructor <;> ring⟩

/-- trapezoid (a,b,c,d) + left ramp (1 below a, down to 0 at b) + right ramp (0 below c, up to 1 at d) ≡ 1 -/
theorem unitPair_trap_ramps (A0 A a b c d D D0 : Rat) (h0 : A0 < A) (hAa : A < a) (hab : a < b) (hbc : b < c)
    (hcd : c < d) (hdD : d < D) (hD : D < D0) :
    UnitPair (fun t => gTrap A0 A a b t + gTrap a b c d t + gTrap c d D D0 t)
      (fun t => phiTrap A0 A a b t + phiTrap a b c d t + phiTrap c d D D0 t) A D := by
  have n1 : b - a ≠ 0 := ne_of_gt (by linarith)
  have n2 : d - c ≠ 0 := ne_of_gt (by linarith)
  refine ⟨(A + A0) / 2, 2 * (A - A0) ^ 2 / 3 + 2 * A0 * A, fun t h1 h2 => ?_⟩
  beta_reduce
  rcases le_total t a with ta | ta
  · rw [gTrap_2 A0 A a b h0 hAa hab t h1 ta, phiTrap_2 A0 A a b h0 hAa hab t h1 ta,
      gTrap_0 a b c d hab hbc hcd t ta, phiTrap_0 a b c d hab hbc hcd t ta,
      gTrap_0 c d D D0 hcd hdD hD t (by linarith), phiTrap_0 c d D D0 hcd hdD hD t (by linarith)]
    constructor <;> ring
  rcases le_total t b with tb | tb
  · rw [gTrap_3 A0 A a b h0 hAa hab t ta tb, phiTrap_3 A0 A a b h0 hAa hab t ta tb,
      gTrap_1 a b c d hab hbc hcd t ta tb, phiTrap_1 a b c d hab hbc hcd t ta tb,
      gTrap_0 c d D D0 hcd hdD hD t (by linarith), phiTrap_0 c d D D0 hcd hdD hD t (by linarith)]
    constructor <;> (field_simp; ring)
  rcases le_total t c with tc | tc
  · rw [gTrap_4 A0 A a b h0 hAa hab t tb, phiTrap_4 A0 A a b h0 hAa hab t tb,
      gTrap_2 a b c d hab hbc hcd t tb tc, phiTrap_2 a b c d hab hbc hcd t tb tc,
      gTrap_0 c d D D0 hcd hdD hD t tc, phiTrap_0 c d D D0 hcd hdD hD t tc]
    constructor <;> ring
  rcases le_total t d with td | td
  · rw [gTrap_4 A0 A a b h0 hAa hab t (by linarith), phiTrap_4 A0 A a b h0 hAa hab t (by linarith),
      gTrap_3 a b c d hab hbc hcd t tc td, phiTrap_3 a b c d hab hbc hcd t tc td,
      gTrap_1 c d D D0 hcd hdD hD t tc td, phiTrap_1 c d D D0 hcd hdD hD t tc td]
    constructor <;> (field_simp; ring)
  · rw [gTrap_4 A0 A a b h0 hAa hab t (by linarith), phiTrap_4 A0 A a b h0 hAa hab t (by linarith),
      gTrap_4 a b c d hab hbc hcd t td, phiTrap_4 a b c d hab hbc hcd t td,
      gTrap_2 c d D D0 hcd hdD hD t td h2, phiTrap_2 c d D D0 hcd hdD hD t td h2]
    constructor <;> ring


/-! ### non-negativity -/

theorem cq_nonneg {g : Rat → Rat} (hg : ∀ s t, s ≤ t → g s ≤ g t) (α x y : Rat) (h0 : 0 ≤ α) (h1 : α ≤ 1) :
    0 ≤ cq α g x y := by
  unfold cq
  split_ifs with h
  · have := hg y x h.le; apply mul_nonneg <;> linarith
  · have := hg x y (not_lt.mp h); nlinarith
theorem cq_self (α : Rat) (g : Rat → Rat) (x : Rat) : cq α g x x = 0 := by unfold cq; simp

theorem ce_nonneg {φ φ' : Rat → Rat} (hsub : ∀ x y, 0 ≤ bregman φ φ' x y) (α x y : Rat) (h0 : 0 ≤ α) (h1 : α ≤ 1) :
    0 ≤ ce α φ φ' x y := by
  unfold ce; have := hsub x y; split_ifs <;> apply mul_nonneg <;> linarith
theorem ce_self (α : Rat) (φ φ' : Rat → Rat) (x : Rat) : ce α φ φ' x x = 0 := by unfold ce bregman; simp

theorem kappa_cases (h x y : Rat) (hh : 0 < h) :
    (kappa h x y = x - y ∧ -h ≤ x - y ∧ x - y ≤ h) ∨ (kappa h x y = h ∧ h < x - y) ∨ (kappa h x y = -h ∧ x - y < -h) := by
  unfold kappa
  by_cases c1 : x - y < -h
  · right; right
    rw [max_eq_right c1.le, min_eq_left (by linarith)]; exact ⟨rfl, c1⟩
  by_cases c2 : h < x - y
  · right; left
    rw [max_eq_left (by linarith), min_eq_right c2.le]; exact ⟨rfl, c2⟩
  · left
    rw [max_eq_left (not_lt.mp c1), min_eq_left (not_lt.mp c2)]; exact ⟨rfl, not_lt.mp c1, not_lt.mp c2⟩

theorem ch_nonneg {φ φ' : Rat → Rat} (hsub : ∀ x y, 0 ≤ bregman φ φ' x y) (h x y : Rat) (hh : 0 < h) :
    0 ≤ ch h φ φ' x y := by
  unfold ch
  rcases kappa_cases h x y hh with ⟨e, _, _⟩ | ⟨e, hk⟩ | ⟨e, hk⟩
  · rw [e]; have := hsub x y; unfold bregman at this
    have e2 : x - y + y = x := by ring
    rw [e2]; nlinarith
  · rw [e]
    have b1 := hsub (h + y) y; have b2 := hsub x (h + y); have b3 := hsub (h + y) x
    unfold bregman at b1 b2 b3
    have hu : 0 ≤ φ' x - φ' (h + y) := by
      by_contra hc; rw [not_le] at hc
      nlinarith
    nlinarith
  · rw [e]
    have b1 := hsub (-h + y) y; have b2 := hsub x (-h + y); have b3 := hsub (-h + y) x
    unfold bregman at b1 b2 b3
    have hu : φ' x - φ' (-h + y) ≤ 0 := by
      by_contra hc; rw [not_le] at hc
      nlinarith
    nlinarith
theorem ch_self (h : Rat) (φ φ' : Rat → Rat) (x : Rat) (hh : 0 < h) : ch h φ φ' x x = 0 := by
  have : kappa h x x = 0 := by
    unfold kappa; simp only [sub_self, max_def, min_def]; split_ifs <;> linarith
  unfold ch; rw [this]; simp

/-- a function that is non-decreasing on every cell without a kink strictly inside is non-decreasing -/
theorem mono_of_piecewise (G : Rat → Rat) : ∀ (ks : List Rat),
    (∀ p q, p ≤ q → NoKinkInside ks p q → G p ≤ G q) → ∀ s t, s ≤ t → G s ≤ G t := by
  intro ks
  induction ks with
  | nil => intro h s t hst; exact h s t hst (by intro k hk; simp at hk)
  | cons k ks ih =>
    intro h
    apply ih
    intro p q hpq hno
    by_cases hk : k ≤ p ∨ q ≤ k
    · apply h p q hpq
      intro k' hk'
      simp only [List.mem_cons] at hk'
      rcases hk' with rfl | hk'
      · exact hk
      · exact hno k' hk'
    · simp only [not_or, not_le] at hk
      have h1 : G p ≤ G k := by
        apply h p k hk.1.le
        intro k' hk'
        simp only [List.mem_cons] at hk'
        rcases hk' with rfl | hk'
        · exact Or.inr le_rfl
        · rcases hno k' hk' with h' | h'
          · exact Or.inl h'
          · exact Or.inr (by linarith)
      have h2 : G k ≤ G q := by
        apply h k q hk.2.le
        intro k' hk'
        simp only [List.mem_cons] at hk'
        rcases hk' with rfl | hk'
        · exact Or.inl le_rfl
        · rcases hno k' hk' with h' | h'
          · exact Or.inl (by linarith)
          · exact Or.inr h'
      linarith

theorem gRect_mono (a b : Rat) (hab : a < b) : ∀ s t, s ≤ t → gRect a b s ≤ gRect a b t := by
  apply mono_of_piecewise _ [a, b]
  intro p q hpq hno
  have ha := hno a (by simp); have hb := hno b (by simp)
  rcases hb with hb | hb
  · rw [gRect_hi a b hab q (by linarith), gRect_hi a b hab p hb]
  · rcases ha with ha | ha
    · rw [gRect_mid a b hab q (by linarith) hb, gRect_mid a b hab p ha (by linarith)]; linarith
    · rw [gRect_lo a b hab q ha, gRect_lo a b hab p (by linarith)]

theorem gTrap_mono (a b c d : Rat) (hab : a < b) (hbc : b < c) (hcd : c < d) :
    ∀ s t, s ≤ t → gTrap a b c d s ≤ gTrap a b c d t := by
  apply mono_of_piecewise _ [a, b, c, d]
  intro p q hpq hno
  have p1 : 0 < 2 * (b - a) := by linarith
  have p2 : 0 < 2 * (d - c) := by linarith
  rcases trap_pieces a b c d hab hbc hcd p q hpq hno with h | ⟨h, h'⟩ | ⟨h, h'⟩ | ⟨h, h'⟩ | h
  · rw [gTrap_0 a b c d hab hbc hcd q h, gTrap_0 a b c d hab hbc hcd p (by linarith)]
  · rw [gTrap_1 a b c d hab hbc hcd q (by linarith) h', gTrap_1 a b c d hab hbc hcd p h (by linarith)]
    rw [div_le_div_iff_of_pos_right p1]; nlinarith
  · rw [gTrap_2 a b c d hab hbc hcd q (by linarith) h', gTrap_2 a b c d hab hbc hcd p h (by linarith)]; linarith
  · rw [gTrap_3 a b c d hab hbc hcd q (by linarith) h', gTrap_3 a b c d hab hbc hcd p h (by linarith)]
    have : -(d - p) ^ 2 / (2 * (d - c)) ≤ -(d - q) ^ 2 / (2 * (d - c)) := by
      rw [div_le_div_iff_of_pos_right p2]; nlinarith
    linarith
  · rw [gTrap_4 a b c d hab hbc hcd q (by linarith), gTrap_4 a b c d hab hbc hcd p h]


/-- convexity from the pieces: if g is non-decreasing, φ′ = 4g, and the Bregman term is non-negative whenever
    x and y lie in one closed piece, it is non-negative everywhere (three-point identity across each kink) -/
theorem bregman_nonneg_of_piecewise (g φ : Rat → Rat) (hmono : ∀ s t, s ≤ t → g s ≤ g t) : ∀ (ks : List Rat),
    (∀ x y, NoKinkInside ks (Min.min x y) (Max.max x y) → 0 ≤ bregman φ (fun t => 4 * g t) x y) →
    ∀ x y, 0 ≤ bregman φ (fun t => 4 * g t) x y := by
  intro ks
  induction ks with
  | nil => intro h x y; exact h x y (by intro k hk; simp at hk)
  | cons k ks ih =>
    intro h
    apply ih
    intro x y hno
    by_cases hk : k ≤ Min.min x y ∨ Max.max x y ≤ k
    · apply h x y
      intro k' hk'
      simp only [List.mem_cons] at hk'
      rcases hk' with rfl | hk'
      · exact hk
      · exact hno k' hk'
    · simp only [not_or, not_le] at hk
      have e : bregman φ (fun t => 4 * g t) x y
          = bregman φ (fun t => 4 * g t) x k + bregman φ (fun t => 4 * g t) k y + 4 * (g k - g x) * (y - k) := by
        unfold bregman; ring
      rw [e]
      rcases le_total x y with hxy | hxy
      · rw [min_eq_left hxy, max_eq_right hxy] at hk hno
        have d1 : 0 ≤ bregman φ (fun t => 4 * g t) x k := by
          apply h x k
          rw [min_eq_left hk.1.le, max_eq_right hk.1.le]
          intro k' hk'
          simp only [List.mem_cons] at hk'
          rcases hk' with rfl | hk'
          · exact Or.inr le_rfl
          · rcases hno k' hk' with h' | h'
            · exact Or.inl h'
            · exact Or.inr (by linarith)
        have d2 : 0 ≤ bregman φ (fun t => 4 * g t) k y := by
          apply h k y
          rw [min_eq_left hk.2.le, max_eq_right hk.2.le]
          intro k' hk'
          simp only [List.mem_cons] at hk'
          rcases hk' with rfl | hk'
          · exact Or.inl le_rfl
          · rcases hno k' hk' with h' | h'
            · exact Or.inl (by linarith)
            · exact Or.inr h'
        have d3 := hmono x k hk.1.le
        have : 0 ≤ 4 * (g k - g x) * (y - k) := by
          apply mul_nonneg <;> linarith
        linarith
      · rw [min_eq_right hxy, max_eq_left hxy] at hk hno
        have d1 : 0 ≤ bregman φ (fun t => 4 * g t) x k := by
          apply h x k
          rw [min_eq_right hk.2.le, max_eq_left hk.2.le]
          intro k' hk'
          simp only [List.mem_cons] at hk'
          rcases hk' with rfl | hk'
          · exact Or.inl le_rfl
          · rcases hno k' hk' with h' | h'
            · exact Or.inl (by linarith)
            · exact Or.inr h'
        have d2 : 0 ≤ bregman φ (fun t => 4 * g t) k y := by
          apply h k y
          rw [min_eq_right hk.1.le, max_eq_left hk.1.le]
          intro k' hk'
          simp only [List.mem_cons] at hk'
          rcases hk' with rfl | hk'
          · exact Or.inr le_rfl
          · rcases hno k' hk' with h' | h'
            · exact Or.inl h'
            · exact Or.inr (by linarith)
        have d3 := hmono k x hk.2.le
        have : 0 ≤ 4 * (g k - g x) * (y - k) := by
          have : 4 * (g k - g x) * (y - k) = 4 * (g x - g k) * (k - y) := by ring
          rw [this]; apply mul_nonneg <;> linarith
        linarith

theorem bregman_rect_nonneg (a b : Rat) (hab : a < b) :
    ∀ x y, 0 ≤ bregman (phiRect a b) (fun t => 4 * gRect a b t) x y := by
  apply bregman_nonneg_of_piecewise _ _ (gRect_mono a b hab) [a, b]
  intro x y hno
  have ha := hno a (by simp); have hb := hno b (by simp)
  have l1 := min_le_left x y; have l2 := min_le_right x y; have u1 := le_max_left x y; have u2 := le_max_right x y
  unfold bregman
  beta_reduce
  rcases hb with hb | hb
  · rw [phiRect_hi a b hab y (by linarith), phiRect_hi a b hab x (by linarith), gRect_hi a b hab x (by linarith)]
    apply le_of_eq; ring
  · rcases ha with ha | ha
    · rw [phiRect_mid a b hab y (by linarith) (by linarith), phiRect_mid a b hab x (by linarith) (by linarith),
        gRect_mid a b hab x (by linarith) (by linarith)]
      nlinarith [sq_nonneg (y - x)]
    · rw [phiRect_lo a b hab y (by linarith), phiRect_lo a b hab x (by linarith), gRect_lo a b hab x (by linarith)]
      apply le_of_eq; ring

theorem bregman_trap_nonneg (a b c d : Rat) (hab : a < b) (hbc : b < c) (hcd : c < d) :
    ∀ x y, 0 ≤ bregman (phiTrap a b c d) (fun t => 4 * gTrap a b c d t) x y := by
  apply bregman_nonneg_of_piecewise _ _ (gTrap_mono a b c d hab hbc hcd) [a, b, c, d]
  intro x y hno
  have l1 := min_le_left x y; have l2 := min_le_right x y; have u1 := le_max_left x y; have u2 := le_max_right x y
  have n1 : b - a ≠ 0 := ne_of_gt (by linarith)
  have n2 : d - c ≠ 0 := ne_of_gt (by linarith)
  have p1 : 0 < b - a := by linarith
  have p2 : 0 < d - c := by linarith
  unfold bregman
  beta_reduce
  rcases trap_pieces a b c d hab hbc hcd _ _ (le_trans l1 u1) hno with h | ⟨h, h'⟩ | ⟨h, h'⟩ | ⟨h, h'⟩ | h
  · rw [phiTrap_0 a b c d hab hbc hcd y (by linarith), phiTrap_0 a b c d hab hbc hcd x (by linarith),
      gTrap_0 a b c d hab hbc hcd x (by linarith)]
    apply le_of_eq; ring
  · rw [phiTrap_1 a b c d hab hbc hcd y (by linarith) (by linarith), phiTrap_1 a b c d hab hbc hcd x (by linarith) (by linarith),
      gTrap_1 a b c d hab hbc hcd x (by linarith) (by linarith)]
    have e : 2 * (y - a) ^ 3 / (3 * (b - a)) - 2 * (x - a) ^ 3 / (3 * (b - a)) - 4 * ((x - a) ^ 2 / (2 * (b - a))) * (y - x)
        = (2 / (3 * (b - a))) * ((y - x) ^ 2 * ((y - a) + 2 * (x - a))) := by field_simp; ring
    rw [e]
    apply mul_nonneg (by positivity)
    apply mul_nonneg (sq_nonneg _); linarith
  · rw [phiTrap_2 a b c d hab hbc hcd y (by linarith) (by linarith), phiTrap_2 a b c d hab hbc hcd x (by linarith) (by linarith),
      gTrap_2 a b c d hab hbc hcd x (by linarith) (by linarith)]
    nlinarith [sq_nonneg (y - x)]
  · rw [phiTrap_3 a b c d hab hbc hcd y (by linarith) (by linarith), phiTrap_3 a b c d hab hbc hcd x (by linarith) (by linarith),
      gTrap_3 a b c d hab hbc hcd x (by linarith) (by linarith)]
    have e : 2 * (d - y) ^ 3 / (3 * (d - c)) + 2 * (d + c - a - b) * y
          + 2 * ((b - a) ^ 2 + 3 * a * b - (d - c) ^ 2 - 3 * c * d) / 3
        - (2 * (d - x) ^ 3 / (3 * (d - c)) + 2 * (d + c - a - b) * x
          + 2 * ((b - a) ^ 2 + 3 * a * b - (d - c) ^ 2 - 3 * c * d) / 3)
        - 4 * (-(d - x) ^ 2 / (2 * (d - c)) + (d + c - a - b) / 2) * (y - x)
        = (2 / (3 * (d - c))) * ((y - x) ^ 2 * ((d - y) + 2 * (d - x))) := by field_simp; ring
    rw [e]
    apply mul_nonneg (by positivity)
    apply mul_nonneg (sq_nonneg _); linarith
  · rw [phiTrap_4 a b c d hab hbc hcd y (by linarith), phiTrap_4 a b c d hab hbc hcd x (by linarith),
      gTrap_4 a b c d hab hbc hcd x (by linarith)]
    apply le_of_eq; ring


/-! ### the five wrappers on finite inputs, for auxiliary functions that are finite-valued -/

/-- the Fl-valued auxiliary functions (gF, φF, φ′F) take finite values g, φ, 4g on finite arguments -/
structure AuxFin (gF φF φ'F : Fl → Fl) (g φ : Rat → Rat) : Prop where
  hg : ∀ t, gF (fin t) = fin (g t)
  hφ : ∀ t, φF (fin t) = fin (φ t)
  hφ' : ∀ t, φ'F (fin t) = fin (4 * g t)

theorem auxFin_rect (a b : Rat) (hab : a < b) :
    AuxFin (g_j_rect (fin a) (fin b)) (phi_j_rect (fin a) (fin b)) (phi_j_prime_rect (fin a) (fin b)) (gRect a b) (phiRect a b) :=
  ⟨fun t => g_j_rect_fin a b t hab, fun t => phi_j_rect_fin a b t hab, fun t => phi_j_prime_rect_fin a b t hab⟩

theorem auxFin_trap (a b c d : Rat) (hab : a < b) (hbc : b < c) (hcd : c < d) :
    AuxFin (g_j_trap (fin a) (fin b) (fin c) (fin d)) (phi_j_trap (fin a) (fin b) (fin c) (fin d))
      (phi_j_prime_trap (fin a) (fin b) (fin c) (fin d)) (gTrap a b c d) (phiTrap a b c d) :=
  ⟨fun t => g_j_trap_fin a b c d t hab hbc hcd, fun t => phi_j_trap_fin a b c d t hab hbc hcd,
   fun t => phi_j_prime_trap_fin a b c d t hab hbc hcd⟩

section wrappers
variable {gF φF φ'F : Fl → Fl} {g φ : Rat → Rat} (F : AuxFin gF φF φ'F g φ)
include F
theorem tw_quantile_fin (α x y : Rat) : tw_quantile_score (fin x) (fin y) (fin α) gF = fin (cq α g x y) := by
  rw [tw_quantile_score, consistent_quantile_fin gF g F.hg]
theorem tw_absolute_error_fin (x y : Rat) : tw_absolute_error (fin x) (fin y) gF = fin (2 * cq (1 / 2) g x y) := by
  rw [tw_absolute_error, consistent_quantile_fin gF g F.hg, mul_fin]
theorem tw_expectile_fin (α x y : Rat) :
    tw_expectile_score (fin x) (fin y) (fin α) φF φ'F = fin (1 / 2 * ce α φ (fun t => 4 * g t) x y) := by
  rw [tw_expectile_score, consistent_expectile_fin φF φ'F φ (fun t => 4 * g t) F.hφ F.hφ', mul_fin]
theorem tw_squared_error_fin (x y : Rat) :
    tw_squared_error (fin x) (fin y) φF φ'F = fin (ce (1 / 2) φ (fun t => 4 * g t) x y) := by
  rw [tw_squared_error, consistent_expectile_fin φF φ'F φ (fun t => 4 * g t) F.hφ F.hφ']
theorem tw_huber_fin (h x y : Rat) :
    tw_huber_loss (fin x) (fin y) (fin h) φF φ'F = fin (1 / 2 * ch h φ (fun t => 4 * g t) x y) := by
  rw [tw_huber_loss, consistent_huber_fin φF φ'F φ (fun t => 4 * g t) F.hφ F.hφ', mul_fin]
end wrappers


section model
open SV.Model.TW
/-! ### the hand model of `_auxiliary_funcs`: the replaced end points lie beyond the data -/

theorem le_of_lt_false {t m : Fl} (ht : t ≠ nan) (hm : m ≠ nan) (h : Fl.lt t m = false) : Fl.le m t = true := by
  cases t <;> cases m <;> simp_all [Fl.lt, Fl.le] 
theorem le_of_lt_true {t m : Fl} (h : Fl.lt t m = true) : Fl.le t m = true := by
  cases t <;> cases m <;> simp_all [Fl.lt, Fl.le]
  exact le_of_lt h
theorem fl_le_refl {t : Fl} (ht : t ≠ nan) : Fl.le t t = true := by
  cases t <;> simp_all [Fl.le]
theorem fl_le_trans {x y z : Fl} (h1 : Fl.le x y = true) (h2 : Fl.le y z = true) : Fl.le x z = true := by
  cases x <;> cases y <;> cases z <;> simp_all [Fl.le]
  exact le_trans h1 h2

/-- folding "keep the smaller" over non-NaN values returns a member that is ≤ every member -/
theorem foldl_min_spec : ∀ (l : List Fl) (init : Fl), (∀ t ∈ init :: l, t ≠ nan) →
    (l.foldl (fun m t => if Fl.lt t m then t else m) init) ∈ init :: l ∧
    ∀ t ∈ init :: l, Fl.le (l.foldl (fun m t => if Fl.lt t m then t else m) init) t = true := by
  intro l
  induction l with
  | nil => intro init h; simp only [List.foldl_nil]; exact ⟨by simp, fun t ht => by
      simp only [List.mem_cons, List.not_mem_nil, or_false] at ht; rw [ht]; exact fl_le_refl (h init (by simp))⟩
  | cons a l ih =>
    intro init h
    simp only [List.foldl_cons]
    have hinit := h init (by simp); have ha := h a (by simp)
    by_cases c : Fl.lt a init = true
    · rw [if_pos c]
      have := ih a (fun t ht => h t (by simp only [List.mem_cons] at ht ⊢; tauto))
      refine ⟨by have := this.1; simp only [List.mem_cons] at this ⊢; tauto, ?_⟩
      intro t ht
      simp only [List.mem_cons] at ht
      rcases ht with rfl | rfl | ht
      · exact fl_le_trans (this.2 a (by simp)) (le_of_lt_true c)
      · exact this.2 _ (by simp)
      · exact this.2 t (by simp [ht])
    · have c' : Fl.lt a init = false := by simpa using c
      rw [if_neg c]
      have := ih init (fun t ht => h t (by simp only [List.mem_cons] at ht ⊢; tauto))
      refine ⟨by have := this.1; simp only [List.mem_cons] at this ⊢; tauto, ?_⟩
      intro t ht
      simp only [List.mem_cons] at ht
      rcases ht with rfl | rfl | ht
      · exact this.2 _ (by simp)
      · exact fl_le_trans (this.2 init (by simp)) (le_of_lt_false ha hinit c')
      · exact this.2 t (by simp [ht])


theorem valid_of_no_nan (l : List Fl) (h : ∀ t ∈ l, t ≠ nan) : valid l = l := by
  unfold valid
  rw [List.filter_eq_self]
  intro t ht
  have := h t ht
  cases t <;> simp_all [notNan, isNan]

theorem nanMin_spec (l : List Fl) (hne : l ≠ []) (h : ∀ t ∈ l, t ≠ nan) :
    nanMin l ∈ l ∧ ∀ t ∈ l, Fl.le (nanMin l) t = true := by
  unfold nanMin; rw [valid_of_no_nan l h]
  cases l with
  | nil => exact absurd rfl hne
  | cons v vs => exact foldl_min_spec vs v h

theorem pyMin_spec (l : List Fl) (hne : l ≠ []) (h : ∀ t ∈ l, t ≠ nan) :
    pyMin l ∈ l ∧ ∀ t ∈ l, Fl.le (pyMin l) t = true := by
  cases l with
  | nil => exact absurd rfl hne
  | cons v vs => exact foldl_min_spec vs v h

theorem nanMin_map_fin (xs : List Rat) (hne : xs ≠ []) :
    ∃ m, nanMin (xs.map fin) = fin m ∧ m ∈ xs ∧ ∀ x ∈ xs, m ≤ x := by
  have hs := nanMin_spec (xs.map fin) (by simpa using hne) (by
    intro t ht; rw [List.mem_map] at ht; obtain ⟨q, _, rfl⟩ := ht; simp)
  obtain ⟨hm, hle⟩ := hs
  rw [List.mem_map] at hm
  obtain ⟨m, hm1, hm2⟩ := hm
  refine ⟨m, hm2.symm, hm1, fun x hx => ?_⟩
  have := hle (fin x) (List.mem_map_of_mem hx)
  rw [← hm2] at this
  simpa using this

/-- **left replacement value of the rectangular branch** (`min(fcst.min(), obs.min(), b.min()) − 1`): finite, at least 1
    below every forecast, every observation and every finite right end point -/
theorem aux_rect_left_replacement (fc ob : List Rat) (bs : List Fl) (hf : fc ≠ []) (ho : ob ≠ []) (hb : bs ≠ [])
    (hbs : ∀ t ∈ bs, t = pinf ∨ ∃ q, t = fin q) :
    ∃ A, Fl.sub (pyMin [nanMin (fc.map fin), nanMin (ob.map fin), nanMin bs]) (fin 1) = fin A ∧
      (∀ x ∈ fc, A + 1 ≤ x) ∧ (∀ y ∈ ob, A + 1 ≤ y) ∧ (∀ q, fin q ∈ bs → A + 1 ≤ q) := by
  obtain ⟨m1, e1, _, h1⟩ := nanMin_map_fin fc hf
  obtain ⟨m2, e2, _, h2⟩ := nanMin_map_fin ob ho
  have hbn : ∀ t ∈ bs, t ≠ nan := by
    intro t ht; rcases hbs t ht with rfl | ⟨q, rfl⟩ <;> simp
  obtain ⟨m3mem, h3⟩ := nanMin_spec bs hb hbn
  have n3 : nanMin bs ≠ nan := hbn _ m3mem
  rw [e1, e2]
  have hp := pyMin_spec [fin m1, fin m2, nanMin bs] (by simp) (by
    intro t ht; simp only [List.mem_cons, List.not_mem_nil, or_false] at ht
    rcases ht with rfl | rfl | rfl <;> simp [n3])
  obtain ⟨pm, ple⟩ := hp
  have l1 := ple (fin m1) (by simp); have l2 := ple (fin m2) (by simp); have l3 := ple (nanMin bs) (by simp)
  -- the minimum is one of fin m1, fin m2, nanMin bs and is ≤ fin m1 : it is finite
  generalize pyMin [fin m1, fin m2, nanMin bs] = r at pm ple l1 l2 l3
  have hr : ∃ A0, r = fin A0 := by
    simp only [List.mem_cons, List.not_mem_nil, or_false] at pm
    rcases pm with rfl | rfl | rfl
    · exact ⟨m1, rfl⟩
    · exact ⟨m2, rfl⟩
    · rcases hbs _ m3mem with e | ⟨q, e⟩
      · rw [e] at l1; simp [Fl.le] at l1
      · exact ⟨q, e⟩
  obtain ⟨A0, rfl⟩ := hr
  refine ⟨A0 - 1, by simp, fun x hx => ?_, fun y hy => ?_, fun q hq => ?_⟩
  · have := h1 x hx; simp at l1; linarith
  · have := h2 y hy; simp at l2; linarith
  · have := fl_le_trans l3 (h3 (fin q) hq); simp at this; linarith

theorem foldl_max_spec : ∀ (l : List Fl) (init : Fl), (∀ t ∈ init :: l, t ≠ nan) →
    (l.foldl (fun m t => if Fl.gt t m then t else m) init) ∈ init :: l ∧
    ∀ t ∈ init :: l, Fl.le t (l.foldl (fun m t => if Fl.gt t m then t else m) init) = true := by
  intro l
  induction l with
  | nil => intro init h; simp only [List.foldl_nil]; exact ⟨by simp, fun t ht => by
      simp only [List.mem_cons, List.not_mem_nil, or_false] at ht; rw [ht]; exact fl_le_refl (h init (by simp))⟩
  | cons a l ih =>
    intro init h
    simp only [List.foldl_cons]
    have hinit := h init (by simp); have ha := h a (by simp)
    by_cases c : Fl.gt a init = true
    · rw [if_pos c]
      have := ih a (fun t ht => h t (by simp only [List.mem_cons] at ht ⊢; tauto))
      refine ⟨by have := this.1; simp only [List.mem_cons] at this ⊢; tauto, ?_⟩
      intro t ht
      simp only [List.mem_cons] at ht
      rcases ht with rfl | rfl | ht
      · exact fl_le_trans (le_of_lt_true (by simpa [Fl.gt] using c)) (this.2 a (by simp))
      · exact this.2 _ (by simp)
      · exact this.2 t (by simp [ht])
    · have c' : Fl.lt init a = false := by simpa [Fl.gt] using c
      rw [if_neg c]
      have := ih init (fun t ht => h t (by simp only [List.mem_cons] at ht ⊢; tauto))
      refine ⟨by have := this.1; simp only [List.mem_cons] at this ⊢; tauto, ?_⟩
      intro t ht
      simp only [List.mem_cons] at ht
      rcases ht with rfl | rfl | ht
      · exact this.2 _ (by simp)
      · exact fl_le_trans (le_of_lt_false hinit ha c') (this.2 init (by simp))
      · exact this.2 t (by simp [ht])

theorem nanMax_spec (l : List Fl) (hne : l ≠ []) (h : ∀ t ∈ l, t ≠ nan) :
    nanMax l ∈ l ∧ ∀ t ∈ l, Fl.le t (nanMax l) = true := by
  unfold nanMax; rw [valid_of_no_nan l h]
  cases l with
  | nil => exact absurd rfl hne
  | cons v vs => exact foldl_max_spec vs v h

theorem pyMax_spec (l : List Fl) (hne : l ≠ []) (h : ∀ t ∈ l, t ≠ nan) :
    pyMax l ∈ l ∧ ∀ t ∈ l, Fl.le t (pyMax l) = true := by
  cases l with
  | nil => exact absurd rfl hne
  | cons v vs => exact foldl_max_spec vs v h

theorem nanMax_map_fin (xs : List Rat) (hne : xs ≠ []) :
    ∃ m, nanMax (xs.map fin) = fin m ∧ m ∈ xs ∧ ∀ x ∈ xs, x ≤ m := by
  have hs := nanMax_spec (xs.map fin) (by simpa using hne) (by
    intro t ht; rw [List.mem_map] at ht; obtain ⟨q, _, rfl⟩ := ht; simp)
  obtain ⟨hm, hle⟩ := hs
  rw [List.mem_map] at hm
  obtain ⟨m, hm1, hm2⟩ := hm
  refine ⟨m, hm2.symm, hm1, fun x hx => ?_⟩
  have := hle (fin x) (List.mem_map_of_mem hx)
  rw [← hm2] at this
  simpa using this

/-- **right replacement value** (`max(fcst.max(), obs.max(), a.max()) + 1`): finite, at least 1 above every forecast,
    every observation and every finite left end point -/
theorem aux_rect_right_replacement (fc ob : List Rat) (as : List Fl) (hf : fc ≠ []) (ho : ob ≠ []) (ha : as ≠ [])
    (has : ∀ t ∈ as, t = ninf ∨ ∃ q, t = fin q) :
    ∃ B, Fl.add (pyMax [nanMax (fc.map fin), nanMax (ob.map fin), nanMax as]) (fin 1) = fin B ∧
      (∀ x ∈ fc, x + 1 ≤ B) ∧ (∀ y ∈ ob, y + 1 ≤ B) ∧ (∀ q, fin q ∈ as → q + 1 ≤ B) := by
  obtain ⟨m1, e1, _, h1⟩ := nanMax_map_fin fc hf
  obtain ⟨m2, e2, _, h2⟩ := nanMax_map_fin ob ho
  have han : ∀ t ∈ as, t ≠ nan := by
    intro t ht; rcases has t ht with rfl | ⟨q, rfl⟩ <;> simp
  obtain ⟨m3mem, h3⟩ := nanMax_spec as ha han
  have n3 : nanMax as ≠ nan := han _ m3mem
  rw [e1, e2]
  have hp := pyMax_spec [fin m1, fin m2, nanMax as] (by simp) (by
    intro t ht; simp only [List.mem_cons, List.not_mem_nil, or_false] at ht
    rcases ht with rfl | rfl | rfl <;> simp [n3])
  obtain ⟨pm, ple⟩ := hp
  have l1 := ple (fin m1) (by simp); have l2 := ple (fin m2) (by simp); have l3 := ple (nanMax as) (by simp)
  generalize pyMax [fin m1, fin m2, nanMax as] = r at pm ple l1 l2 l3
  have hr : ∃ B0, r = fin B0 := by
    simp only [List.mem_cons, List.not_mem_nil, or_false] at pm
    rcases pm with rfl | rfl | rfl
    · exact ⟨m1, rfl⟩
    · exact ⟨m2, rfl⟩
    · rcases has _ m3mem with e | ⟨q, e⟩
      · rw [e] at l1; simp [Fl.le] at l1
      · exact ⟨q, e⟩
  obtain ⟨B0, rfl⟩ := hr
  refine ⟨B0 + 1, by simp, fun x hx => ?_, fun y hy => ?_, fun q hq => ?_⟩
  · have := h1 x hx; simp at l1; linarith
  · have := h2 y hy; simp at l2; linarith
  · have := fl_le_trans (h3 (fin q) hq) l3; simp at this; linarith
end model

end SV.TW
