/-
  C06 stretch: integrating the ensemble Brier score over all thresholds gives the ensemble CRPS.
  Left-continuous step calculus (θ ↦ Brier(θ) is constant on (p, q]) mirroring Lemmas/CrpsEns.lean.
-/
import ScoresVerif.Lemmas.CrpsEns

namespace SV.Lemmas.CrpsEns
open SV SV.Spec.CrpsEns

theorem stepIntegralLeft_congr {f h : Rat → Rat} : ∀ {g : List Rat}, (∀ t ∈ g, f t = h t) →
    stepIntegralLeft f g = stepIntegralLeft h g
  | [], _ => rfl
  | [_], _ => rfl
  | p :: q :: rest, H => by
    simp only [stepIntegralLeft]
    rw [H q (by simp), stepIntegralLeft_congr (g := q :: rest) (fun t ht => H t (List.mem_cons_of_mem _ ht))]

theorem stepIntegralLeft_zero : ∀ (g : List Rat), stepIntegralLeft (fun _ => 0) g = 0
  | [] => rfl
  | [_] => rfl
  | p :: q :: rest => by simp [stepIntegralLeft, stepIntegralLeft_zero (q :: rest)]

theorem stepIntegralLeft_add (f h : Rat → Rat) : ∀ (g : List Rat),
    stepIntegralLeft (fun t => f t + h t) g = stepIntegralLeft f g + stepIntegralLeft h g
  | [] => by simp [stepIntegralLeft]
  | [_] => by simp [stepIntegralLeft]
  | p :: q :: rest => by simp only [stepIntegralLeft, stepIntegralLeft_add f h (q :: rest)]; ring

theorem stepIntegralLeft_sub (f h : Rat → Rat) : ∀ (g : List Rat),
    stepIntegralLeft (fun t => f t - h t) g = stepIntegralLeft f g - stepIntegralLeft h g
  | [] => by simp [stepIntegralLeft]
  | [_] => by simp [stepIntegralLeft]
  | p :: q :: rest => by simp only [stepIntegralLeft, stepIntegralLeft_sub f h (q :: rest)]; ring

theorem stepIntegralLeft_smul (c : Rat) (f : Rat → Rat) : ∀ (g : List Rat),
    stepIntegralLeft (fun t => c * f t) g = c * stepIntegralLeft f g
  | [] => by simp [stepIntegralLeft]
  | [_] => by simp [stepIntegralLeft]
  | p :: q :: rest => by simp only [stepIntegralLeft, stepIntegralLeft_smul c f (q :: rest)]; ring

theorem stepIntegralLeft_listSum {α : Type} (F : α → Rat → Rat) (g : List Rat) : ∀ (l : List α),
    stepIntegralLeft (fun t => (l.map fun a => F a t).sum) g = (l.map fun a => stepIntegralLeft (F a) g).sum
  | [] => by simp [stepIntegralLeft_zero]
  | a :: l => by
    simp only [List.map_cons, List.sum_cons]
    rw [stepIntegralLeft_add (F a) (fun t => (l.map fun a => F a t).sum) g, stepIntegralLeft_listSum F g l]

/-- indicator of `(lo, hi]` -/
def indL (lo hi t : Rat) : Rat := if lo < t ∧ t ≤ hi then 1 else 0

theorem indL_empty {lo hi : Rat} (h : hi ≤ lo) (t : Rat) : indL lo hi t = 0 := by
  unfold indL; split_ifs with h'
  · exact absurd (lt_of_lt_of_le h'.1 h'.2) (not_lt.mpr h)
  · rfl

/-- ∫ 1(lo,hi] = hi − lo on any sorted grid that contains both end points -/
theorem stepIntegralLeft_indL {hi : Rat} : ∀ {g : List Rat} {lo : Rat}, g.Pairwise (· < ·) → lo ∈ g → hi ∈ g → lo ≤ hi →
    stepIntegralLeft (indL lo hi) g = hi - lo
  | [], _, _, h, _, _ => by simp at h
  | [p], lo, _, hlo, hhi, _ => by
    simp only [List.mem_singleton] at hlo hhi
    subst hlo; subst hhi; simp [stepIntegralLeft]
  | p :: q :: rest, lo, H, hlo, hhi, hle => by
    have h1 := List.pairwise_cons.mp H
    have hpq : p < q := h1.1 q (by simp)
    simp only [stepIntegralLeft]
    rcases List.mem_cons.mp hlo with rfl | hlo'
    · rcases List.mem_cons.mp hhi with rfl | hhi'
      · have : stepIntegralLeft (indL hi hi) (q :: rest) = stepIntegralLeft (fun _ => 0) (q :: rest) :=
          stepIntegralLeft_congr (fun t _ => indL_empty (le_refl _) t)
        rw [this, stepIntegralLeft_zero, indL_empty (le_refl _)]; ring
      · have hq_le : q ≤ hi := by
          rcases List.mem_cons.mp hhi' with rfl | h3
          · exact le_refl _
          · exact le_of_lt ((List.pairwise_cons.mp h1.2).1 hi h3)
        have e1 : indL lo hi q = 1 := by simp [indL, hpq, hq_le]
        have e2 : stepIntegralLeft (indL lo hi) (q :: rest) = stepIntegralLeft (indL q hi) (q :: rest) := by
          -- on the remaining grid the first cell is (q, ·], so the lower end can be moved to q
          cases rest with
          | nil => rfl
          | cons r rest' =>
            have h2 := List.pairwise_cons.mp h1.2
            simp only [stepIntegralLeft]
            have hqr : q < r := h2.1 r (by simp)
            have er : indL lo hi r = indL q hi r := by simp [indL, hqr, lt_trans hpq hqr]
            rw [er]
            congr 1
            apply stepIntegralLeft_congr
            intro t ht
            have hrt : r ≤ t := by
              rcases List.mem_cons.mp ht with rfl | h3
              · exact le_refl _
              · exact le_of_lt ((List.pairwise_cons.mp h2.2).1 t h3)
            have h1' : lo < t := lt_of_lt_of_le (lt_trans hpq hqr) hrt
            have h2' : q < t := lt_of_lt_of_le hqr hrt
            simp [indL, h1', h2']
        rw [e1, e2, stepIntegralLeft_indL h1.2 (by simp) hhi' hq_le]; ring
    · have hplo : p < lo := h1.1 lo hlo'
      have hhi' : hi ∈ q :: rest := by
        rcases List.mem_cons.mp hhi with rfl | h3
        · exact absurd hle (not_le.mpr hplo)
        · exact h3
      have hqlo : q ≤ lo := by
        rcases List.mem_cons.mp hlo' with rfl | h3
        · exact le_refl _
        · exact le_of_lt ((List.pairwise_cons.mp h1.2).1 lo h3)
      have e1 : indL lo hi q = 0 := by simp [indL, not_lt.mpr hqlo]
      rw [e1, stepIntegralLeft_indL h1.2 hlo' hhi' hle]; ring

/-- 1[θ ≤ a] − 1[θ ≤ y] -/
def ee (a y t : Rat) : Rat := (if t ≤ a then 1 else 0) - (if t ≤ y then 1 else 0)

theorem ee_mul_ee (a b y t : Rat) : ee a y t * ee b y t =
    if a < y ∧ b < y then indL (max a b) y t else if y < a ∧ y < b then indL y (min a b) t else 0 := by
  unfold ee indL
  by_cases h1 : t ≤ a <;> by_cases h2 : t ≤ b <;> by_cases h3 : t ≤ y <;>
    simp only [h1, h2, h3, max_lt_iff, le_min_iff, true_and, and_true, and_false, false_and] <;>
    split_ifs <;> first | (norm_num; done) | (exfalso; grind)

theorem stepIntegralLeft_ee {g : List Rat} (hg : g.Pairwise (· < ·)) {a b y : Rat} (ha : a ∈ g) (hb : b ∈ g) (hy : y ∈ g) :
    stepIntegralLeft (fun t => ee a y t * ee b y t) g = K a b y := by
  have e : (fun t => ee a y t * ee b y t) = fun t =>
      if a < y ∧ b < y then indL (max a b) y t else if y < a ∧ y < b then indL y (min a b) t else 0 := by
    funext t; exact ee_mul_ee a b y t
  rw [e]; unfold K
  split_ifs with h1 h2
  · have hm : max a b ∈ g := by rcases max_choice a b with h | h <;> rw [h] <;> assumption
    exact stepIntegralLeft_indL hg hm hy (le_of_lt (max_lt h1.1 h1.2))
  · have hm : min a b ∈ g := by rcases min_choice a b with h | h <;> rw [h] <;> assumption
    exact stepIntegralLeft_indL hg hy hm (le_of_lt (lt_min h2.1 h2.2))
  · exact stepIntegralLeft_zero g

theorem eventFrac_sub (xs : List Rat) (y t : Rat) :
    eventFrac xs t - (if t ≤ y then 1 else 0) * ((xs.length : Rat) / xs.length) = (xs.map fun a => ee a y t).sum / xs.length := by
  unfold eventFrac ee
  rw [filter_length_eq_sum, sum_map_sub_const]
  simp only [decide_eq_true_eq]
  ring

theorem brier_eq {xs : List Rat} (hx : xs ≠ []) (y t : Rat) :
    brier xs y t = (1 / (xs.length : Rat) ^ 2) * (xs.map fun a => (xs.map fun b => ee a y t * ee b y t).sum).sum := by
  have hM := length_ne_zero hx
  have h := eventFrac_sub xs y t
  rw [div_self hM, mul_one] at h
  unfold brier
  rw [h]
  have e : (xs.map fun a => (xs.map fun b => ee a y t * ee b y t).sum).sum
      = (xs.map fun a => ee a y t).sum * (xs.map fun a => ee a y t).sum := by
    have : (fun a => (xs.map fun b => ee a y t * ee b y t).sum) = fun a => ee a y t * (xs.map fun b => ee b y t).sum := by
      funext a; rw [sum_map_const_mul]
    rw [this, sum_map_mul_const]
  rw [e]; field_simp

/-- ∫ Brier(θ) dθ (no fair correction) = KK / M² -/
theorem brierIntegral_eq_KK {xs : List Rat} (hx : xs ≠ []) (y : Rat) :
    stepIntegralLeft (brier xs y) (grid (y :: xs)) = KK xs y / (xs.length : Rat) ^ 2 := by
  have e : brier xs y = fun t =>
      (1 / (xs.length : Rat) ^ 2) * (xs.map fun a => (xs.map fun b => ee a y t * ee b y t).sum).sum := by
    funext t; exact brier_eq hx y t
  rw [e, stepIntegralLeft_smul, stepIntegralLeft_listSum (fun a t => (xs.map fun b => ee a y t * ee b y t).sum)]
  have hg := pairwise_grid (y :: xs)
  have hy : y ∈ grid (y :: xs) := mem_grid.mpr (by simp)
  have inner : ∀ a ∈ xs, stepIntegralLeft (fun t => (xs.map fun b => ee a y t * ee b y t).sum) (grid (y :: xs))
      = (xs.map fun b => K a b y).sum := by
    intro a ha
    rw [stepIntegralLeft_listSum (fun b t => ee a y t * ee b y t)]
    apply sum_map_congr
    intro b hb
    exact stepIntegralLeft_ee hg (mem_grid.mpr (by simp [ha])) (mem_grid.mpr (by simp [hb])) hy
  rw [sum_map_congr inner]; unfold KK; ring

end SV.Lemmas.CrpsEns
