/-
  C06 stretch: integrating the ensemble Brier score over all thresholds gives the ensemble CRPS.
  Left-continuous step calculus (θ ↦ Brier(θ) is constant on (p, q]) mirroring Lemmas/CrpsEns.lean.
-/
import ScoresVerif.Lemmas.CrpsEns

namespace SV.Lemmas.CrpsEns
open SV SV.Spec.CrpsEns

theorem stepIntegralLeft_congr {f h : Rat → Rat} : ∀ {g : List Rat}, (∀ t ∈ g, f t = h t) →
    stepIntegralLeft f g = stepIntegralLeft h g
  | [], _ => rfl
  | [_], _ => rfl
  | p :: q :: rest, H => by
    simp only [stepIntegralLeft]
    rw [H q (by simp), stepIntegralLeft_congr (g := q :: rest) (fun t ht => H t (List.mem_cons_of_mem _ ht))]

theorem stepIntegralLeft_zero : ∀ (g : List Rat), stepIntegralLeft (fun _ => 0) g = 0
  | [] => rfl
  | [_] => rfl
  | p :: q :: rest => by simp [stepIntegralLeft, stepIntegralLeft_zero (q :: rest)]

theorem stepIntegralLeft_add (f h : Rat → Rat) : ∀ (g : List Rat),
    stepIntegralLeft (fun t => f t + h t) g = stepIntegralLeft f g + stepIntegralLeft h g
  | [] => by simp [stepIntegralLeft]
  | [_] => by simp [stepIntegralLeft]
  | p :: q :: rest => by simp only [stepIntegralLeft, stepIntegralLeft_add f h (q :: rest)]; ring

theorem stepIntegralLeft_sub (f h : Rat → Rat) : ∀ (g : List Rat),
    stepIntegralLeft (fun t => f t - h t) g = stepIntegralLeft f g - stepIntegralLeft h g
  | [] => by simp [stepIntegralLeft]
  | [_] => by simp [stepIntegralLeft]
  | p :: q :: rest => by simp only [stepIntegralLeft, stepIntegralLeft_sub f h (q :: rest)]; ring

theorem stepIntegralLeft_smul (c : Rat) (f : Rat → Rat) : ∀ (g : List Rat),
    stepIntegralLeft (fun t => c * f t) g = c * stepIntegralLeft f g
  | [] => by simp [stepIntegralLeft]
  | [_] => by simp [stepIntegralLeft]
  | p :: q :: rest => by simp only [stepIntegralLeft, stepIntegralLeft_smul c f (q :: rest)]; ring

theorem stepIntegralLeft_listSum {α : Type} (F : α → Rat → Rat) (g : List Rat) : ∀ (l : List α),
    stepIntegralLeft (fun t => (l.map fun a => F a t).sum) g = (l.map fun a => stepIntegralLeft (F a) g).sum
  | [] => by simp [stepIntegralLeft_zero]
  | a :: l => by
    simp only [List.map_cons, List.sum_cons]
    rw [stepIntegralLeft_add (F a) (fun t => (l.map fun a => F a t).sum) g, stepIntegralLeft_listSum F g l]

/-- indicator of `(lo, hi]` -/
def indL (lo hi t : Rat) : Rat := if lo < t ∧ t ≤ hi then 1 else 0

theorem indL_empty {lo hi : Rat} (h : hi ≤ lo) (t : Rat) : indL lo hi t = 0 := by
  unfold indL; split_ifs with h'
  · exact absurd (lt_of_lt_of_le h'.1 h'.2) (not_lt.mpr h)
  · rfl

/-- ∫ 1(lo,hi] = hi − lo on any sorted grid that contains both end points -/
theorem stepIntegralLeft_indL {hi : Rat} : ∀ {g : List Rat} {lo : Rat}, g.Pairwise (· < ·) → lo ∈ g → hi ∈ g → lo ≤ hi →
    stepIntegralLeft (indL lo hi) g = hi - lo
  | [], _, _, h, _, _ => by simp at h
  | [p], lo, _, hlo, hhi, _ => by
    simp only [List.mem_singleton] at hlo hhi
    subst hlo; subst hhi; simp [stepIntegralLeft]
  | p :: q :: rest, lo, H, hlo, hhi, hle => by
    have h1 := List.pairwise_cons.mp H
    have hpq : p < q := h1.1 q (by simp)
    simp only [stepIntegralLeft]
    rcases List.mem_cons.mp hlo with rfl | hlo'
    · rcases List.mem_cons.mp hhi with rfl | hhi'
      · have : stepIntegralLeft (indL hi hi) (q :: rest) = stepIntegralLeft (fun _ => 0) (q :: rest) :=
          stepIntegralLeft_congr (fun t _ => indL_empty (le_refl _) t)
        rw [this, stepIntegralLeft_zero, indL_empty (le_refl _)]; ring
      · have hq_le : q ≤ hi := by
          rcases List.mem_cons.mp hhi' with rfl | h3
          · exact le_refl _
          · exact le_of_lt ((List.pairwise_cons.mp h1.2).1 hi h3)
        have e1 : indL lo hi q = 1 := by simp [indL, hpq, hq_le]
        have e2 : stepIntegralLeft (indL lo hi) (q :: rest) = stepIntegralLeft (indL q hi) (q :: rest) := by
          -- on the remaining grid the first cell is (q, ·], so the lower end can be moved to q
          cases rest with
          | nil => rfl
          | cons r rest' =>
            have h2 := List.pairwise_cons.mp h1.2
            simp only [stepIntegralLeft]
            have hqr : q < r := h2.1 r (by simp)
            have er : indL lo hi r = indL q hi r := by simp [indL, hqr, lt_trans hpq hqr]
            rw [er]
            congr 1
            apply stepIntegralLeft_congr
            intro t ht
            have hrt : r ≤ t := by
              rcases List.mem_cons.mp ht with rfl | h3
              · exact le_refl _
              · exact le_of_lt ((List.pairwise_cons.mp h2.2).1 t h3)
            have h1' : lo < t := lt_of_lt_of_le (lt_trans hpq hqr) hrt
            have h2' : q < t := lt_of_lt_of_le hqr hrt
            simp [indL, h1', h2']
        rw [e1, e2, stepIntegralLeft_indL h1.2 (by simp) hhi' hq_le]; ring
    · have hplo : p < lo := h1.1 lo hlo'
      have hhi' : hi ∈ q :: rest := by
        rcases List.mem_cons.mp hhi with rfl | h3
        · exact absurd hle (not_le.mpr hplo)
        · exact h3
      have hqlo : q ≤ lo := by
        rcases List.mem_cons.mp hlo' with rfl | h3
        · exact le_refl _
        · exact le_of_lt ((List.pairwise_cons.mp h1.2).1 lo h3)
      have e1 : indL lo hi q = 0 := by simp [indL, not_lt.mpr hqlo]
      rw [e1, stepIntegralLeft_indL h1.2 hlo' hhi' hle]; ring

/-- 1[θ ≤ a] − 1[θ ≤ y] -/
def ee (a y t : Rat) : Rat := (if t ≤ a then 1 else 0) - (if t ≤ y then 1 else 0)

theorem ee_mul_ee (a b y t : Rat) : ee a y t * ee b y t =
    if a < y ∧ b < y then indL (max a b) y t else if y < a ∧ y < b then indL y (min a b) t else 0 := by
  unfold ee indL
  by_cases h1 : t ≤ a <;> by_cases h2 : t ≤ b <;> by_cases h3 : t ≤ y <;>
    simp only [h1, h2, h3, max_lt_iff, le_min_iff, true_and, and_true, and_false, false_and] <;>
    split_ifs <;> first | (norm_num; done) | (exfalso; grind)

theorem stepIntegralLeft_ee {g : List Rat} (hg : g.Pairwise (· < ·)) {a b y : Rat} (ha : a ∈ g) (hb : b ∈ g) (hy : y ∈ g) :
    stepIntegralLeft (fun t => ee a y t * ee b y t) g = K a b y := by
  have e : (fun t => ee a y t * ee b y t) = fun t =>
      if a < y ∧ b < y then indL (max a b) y t else if y < a ∧ y < b then indL y (min a b) t else 0 := by
    funext t; exact ee_mul_ee a b y t
  rw [e]; unfold K
  split_ifs with h1 h2
  · have hm : max a b ∈ g := by rcases max_choice a b with h | h <;> rw [h] <;> assumption
    exact stepIntegralLeft_indL hg hm hy (le_of_lt (max_lt h1.1 h1.2))
  · have hm : min a b ∈ g := by rcases min_choice a b with h | h <;> rw [h] <;> assumption
    exact stepIntegralLeft_indL hg hy hm (le_of_lt (lt_min h2.1 h2.2))
  · exact stepIntegralLeft_zero g

theorem eventFrac_sub (xs : List Rat) (y t : Rat) :
    eventFrac xs t - (if t ≤ y then 1 else 0) * ((xs.length : Rat) / xs.length) = (xs.map fun a => ee a y t).sum / xs.length := by
  unfold eventFrac ee
  rw [filter_length_eq_sum, sum_map_sub_const]
  simp only [decide_eq_true_eq]
  ring

theorem brier_eq {xs : List Rat} (hx : xs ≠ []) (y t : Rat) :
    brier xs y t = (1 / (xs.length : Rat) ^ 2) * (xs.map fun a => (xs.map fun b => ee a y t * ee b y t).sum).sum := by
  have hM := length_ne_zero hx
  have h := eventFrac_sub xs y t
  rw [div_self hM, mul_one] at h
  unfold brier
  rw [h]
  have e : (xs.map fun a => (xs.map fun b => ee a y t * ee b y t).sum).sum
      = (xs.map fun a => ee a y t).sum * (xs.map fun a => ee a y t).sum := by
    have : (fun a => (xs.map fun b => ee a y t * ee b y t).sum) = fun a => ee a y t * (xs.map fun b => ee b y t).sum := by
      funext a; rw [sum_map_const_mul]
    rw [this, sum_map_mul_const]
  rw [e]; field_simp

/-- ∫ Brier(θ) dθ (no fair correction) = KK / M² -/
theorem brierIntegral_eq_KK {xs : List Rat} (hx : xs ≠ []) (y : Rat) :
    stepIntegralLeft (brier xs y) (grid (y :: xs)) = KK xs y / (xs.length : Rat) ^ 2 := by
  have e : brier xs y = fun t =>
      (1 / (xs.length : Rat) ^ 2) * (xs.map fun a => (xs.map fun b => ee a y t * ee b y t).sum).sum := by
    funext t; exact brier_eq hx y t
  rw [e, stepIntegralLeft_smul, stepIntegralLeft_listSum (fun a t => (xs.map fun b => ee a y t * ee b y t).sum)]
  have hg := pairwise_grid (y :: xs)
  have hy : y ∈ grid (y :: xs) := mem_grid.mpr (by simp)
  have inner : ∀ a ∈ xs, stepIntegralLeft (fun t => (xs.map fun b => ee a y t * ee b y t).sum) (grid (y :: xs))
      = (xs.map fun b => K a b y).sum := by
    intro a ha
    rw [stepIntegralLeft_listSum (fun b t => ee a y t * ee b y t)]
    apply sum_map_congr
    intro b hb
    exact stepIntegralLeft_ee hg (mem_grid.mpr (by simp [ha])) (mem_grid.mpr (by simp [hb])) hy
  rw [sum_map_congr inner]; unfold KK; ring

theorem sum_map_swap (f : Rat → Rat → Rat) (ys : List Rat) : ∀ (xs : List Rat),
    (xs.map fun a => (ys.map fun b => f a b).sum).sum = (ys.map fun b => (xs.map fun a => f a b).sum).sum
  | [] => by simp
  | a :: xs => by
    simp only [List.map_cons, List.sum_cons]
    rw [sum_map_swap f ys xs, ← sum_map_add']

theorem stepIntegralLeft_indL_pos {g : List Rat} (hg : g.Pairwise (· < ·)) {a b : Rat} (ha : a ∈ g) (hb : b ∈ g) :
    stepIntegralLeft (indL b a) g = max (a - b) 0 := by
  rcases le_total b a with h | h
  · rw [stepIntegralLeft_indL hg hb ha h, max_eq_left (by linarith)]
  · have : stepIntegralLeft (indL b a) g = stepIntegralLeft (fun _ => 0) g :=
      stepIntegralLeft_congr (fun t _ => indL_empty h t)
    rw [this, stepIntegralLeft_zero, max_eq_right (by linarith)]

theorem pos_parts_sum (xs : List Rat) :
    (xs.map fun a => (xs.map fun b => max (a - b) 0).sum).sum = pairAbs xs / 2 := by
  have h2 : pairAbs xs = (xs.map fun a => (xs.map fun b => max (a - b) 0).sum).sum
      + (xs.map fun a => (xs.map fun b => max (b - a) 0).sum).sum := by
    unfold pairAbs
    rw [← sum_map_add']
    apply sum_map_congr; intro a _
    rw [← sum_map_add']
    apply sum_map_congr; intro b _
    rcases le_total a b with h | h
    · rw [abs_of_nonpos (by linarith), max_eq_right (by linarith), max_eq_left (by linarith)]; ring
    · rw [abs_of_nonneg (by linarith), max_eq_left (by linarith), max_eq_right (by linarith)]; ring
  have hs := sum_map_swap (fun a b => max (b - a) 0) xs xs
  rw [hs] at h2
  linarith

theorem count_mul_count (xs : List Rat) (t : Rat) :
    ((xs.filter (fun x => decide (t ≤ x))).length : Rat) * ((xs.length : Rat) - (xs.filter (fun x => decide (t ≤ x))).length)
      = (xs.map fun a => (xs.map fun b => indL b a t).sum).sum := by
  have h1 := filter_length_eq_sum (fun x => decide (t ≤ x)) xs
  simp only [decide_eq_true_eq] at h1
  have h2 : (xs.length : Rat) - (xs.filter (fun x => decide (t ≤ x))).length
      = (xs.map fun b => if b < t then (1 : Rat) else 0).sum := by
    rw [h1]
    have : (fun b : Rat => if b < t then (1 : Rat) else 0) = fun b => 1 - (if t ≤ b then (1 : Rat) else 0) := by
      funext b; by_cases h : t ≤ b <;> simp [h, not_lt.mpr, not_le.mp]
    rw [this, sum_map_sub', sum_map_const]; ring
  rw [h2, h1, ← sum_map_mul_const]
  apply sum_map_congr; intro a _
  rw [← sum_map_const_mul]
  apply sum_map_congr; intro b _
  unfold indL
  by_cases h3 : t ≤ a <;> by_cases h4 : b < t <;> simp [h3, h4]

theorem fairCorr_integral {xs : List Rat} (hx : 2 ≤ xs.length) (y : Rat) :
    stepIntegralLeft (brierFairCorr xs) (grid (y :: xs)) = fairOffset xs := by
  have hlen : ¬ xs.length ≤ 1 := by omega
  have e : brierFairCorr xs = fun t =>
      (1 / ((xs.length : Rat) ^ 2 * ((xs.length : Rat) - 1))) * (xs.map fun a => (xs.map fun b => indL b a t).sum).sum := by
    funext t
    unfold brierFairCorr
    simp only [hlen, if_false]
    rw [← count_mul_count]; ring
  rw [e, stepIntegralLeft_smul, stepIntegralLeft_listSum (fun a t => (xs.map fun b => indL b a t).sum)]
  have hg := pairwise_grid (y :: xs)
  have inner : ∀ a ∈ xs, stepIntegralLeft (fun t => (xs.map fun b => indL b a t).sum) (grid (y :: xs))
      = (xs.map fun b => max (a - b) 0).sum := by
    intro a ha
    rw [stepIntegralLeft_listSum (fun b t => indL b a t)]
    apply sum_map_congr
    intro b hb
    exact stepIntegralLeft_indL_pos hg (mem_grid.mpr (by simp [ha])) (mem_grid.mpr (by simp [hb]))
  rw [sum_map_congr inner, pos_parts_sum]
  unfold fairOffset; rw [pairSum_eq]
  have h2 : (2 : Rat) ≤ xs.length := by exact_mod_cast hx
  have h1 : (xs.length : Rat) - 1 ≠ 0 := by linarith
  have h0 : (xs.length : Rat) ≠ 0 := by linarith
  field_simp

theorem brierIntegral_false_eq {xs : List Rat} (hx : xs ≠ []) (y : Rat) :
    brierIntegral false xs y = crpsIntegral xs y := by
  unfold brierIntegral
  simp only [Bool.false_eq_true, if_false, sub_zero]
  rw [crpsIntegral_eq_KK hx]
  exact brierIntegral_eq_KK hx y

theorem brierIntegral_true_eq {xs : List Rat} (hx : 2 ≤ xs.length) (y : Rat) :
    brierIntegral true xs y = crpsIntegral xs y - fairOffset xs := by
  have hne : xs ≠ [] := by intro h; simp [h] at hx
  unfold brierIntegral
  simp only [if_true]
  rw [stepIntegralLeft_sub, fairCorr_integral hx, crpsIntegral_eq_KK hne]
  congr 1
  exact brierIntegral_eq_KK hne y

open SV.Model.CrpsEns

theorem eventCount_fin (xs : List Rat) (θ : Rat) :
    eventCount (xs.map Fl.fin) (Fl.fin θ) = ((xs.filter (fun x => decide (θ ≤ x))).length : Int) := by
  unfold eventCount
  congr 1
  induction xs with
  | nil => rfl
  | cons a l ih =>
    by_cases h : θ ≤ a <;> simp [List.filter_cons, h, ih]

theorem binaryObs_fin (y θ : Rat) : binaryObs (Fl.fin y) (Fl.fin θ) = Fl.fin (if θ ≤ y then 1 else 0) := by
  unfold binaryObs; by_cases h : θ ≤ y <;> simp [Fl.whereB, Fl.ofBool, h]

theorem brierEns_fin (fair : Bool) {xs : List Rat} (hx : xs ≠ []) (y θ : Rat) :
    brierEns fair (xs.map Fl.fin) (Fl.fin y) (Fl.fin θ)
      = Fl.fin (brier xs y θ - (if fair then brierFairCorr xs θ else 0)) := by
  have hM := length_ne_zero hx
  unfold brierEns
  simp only [eventCount_fin, ensCount_fin, binaryObs_fin]
  set i : Nat := (xs.filter (fun x => decide (θ ≤ x))).length with hi
  have hr : Fl.sq (Fl.sub (Fl.div (Fl.ofInt (i : Int)) (Fl.ofInt (xs.length : Int))) (Fl.fin (if θ ≤ y then 1 else 0)))
      = Fl.fin (brier xs y θ) := by
    have e1 : Fl.ofInt (i : Int) = Fl.fin (i : Rat) := by simp [Fl.ofInt]
    have e2 : Fl.ofInt (xs.length : Int) = Fl.fin (xs.length : Rat) := by simp [Fl.ofInt]
    rw [e1, e2, Fl.div_fin _ _ hM, Fl.sub_fin]
    unfold Fl.sq brier eventFrac
    rw [Fl.mul_fin, ← hi]; congr 1; ring
  rw [hr]
  cases fair
  · simp
  · simp only [if_true]
    by_cases h1 : xs.length ≤ 1
    · have hlen : xs.length = 1 := by
        have : xs.length ≠ 0 := by simpa using hx
        omega
      have hc : brierFairCorr xs θ = 0 := by unfold brierFairCorr; simp [h1]
      have hden : Fl.ofInt ((xs.length : Int) ^ 2 * ((xs.length : Int) - 1)) = Fl.fin 0 := by
        rw [hlen]; simp [Fl.ofInt]
      have hi1 : i ≤ 1 := by rw [hi, ← hlen]; exact List.length_filter_le _ _
      have hnum : Fl.ofInt ((i : Int) * ((xs.length : Int) - i)) = Fl.fin 0 := by
        rw [hlen]
        have hcase : i = 0 ∨ i = 1 := by omega
        rcases hcase with h | h <;> simp [h, Fl.ofInt]
      rw [hden, hnum, hc]; simp [Fl.fillna]
    · have h2 : (2 : Rat) ≤ xs.length := by
        have : 2 ≤ xs.length := by omega
        exact_mod_cast this
      have hne : (xs.length : Rat) ^ 2 * ((xs.length : Rat) - 1) ≠ 0 := by
        apply mul_ne_zero
        · exact pow_ne_zero _ hM
        · linarith
      have e1 : Fl.ofInt ((i : Int) * ((xs.length : Int) - i)) = Fl.fin ((i : Rat) * ((xs.length : Rat) - i)) := by
        simp [Fl.ofInt]
      have e2 : Fl.ofInt ((xs.length : Int) ^ 2 * ((xs.length : Int) - 1)) = Fl.fin ((xs.length : Rat) ^ 2 * ((xs.length : Rat) - 1)) := by
        simp [Fl.ofInt]
      rw [e1, e2, Fl.div_fin _ _ hne]
      simp only [Fl.fillna, Fl.isNan_fin, Bool.false_eq_true, if_false, Fl.sub_fin]
      congr 1
      unfold brierFairCorr
      simp only [h1, if_false, ← hi]


/-! ## components of the partition -/

theorem partition_under {a b : Rat} (hab : a ≤ b) (x y : Rat) :
    (if vLo a x < vLo a y then vLo a y - vLo a x else 0) + (if vMid a b x < vMid a b y then vMid a b y - vMid a b x else 0)
      + (if vHi b x < vHi b y then vHi b y - vHi b x else 0) = if x < y then y - x else 0 := by
  unfold vLo vMid vHi
  simp only [max_def, min_def]
  split_ifs <;> first | linarith | (exfalso; linarith)

theorem partition_over {a b : Rat} (hab : a ≤ b) (x y : Rat) :
    (if vLo a y < vLo a x then vLo a x - vLo a y else 0) + (if vMid a b y < vMid a b x then vMid a b x - vMid a b y else 0)
      + (if vHi b y < vHi b x then vHi b x - vHi b y else 0) = if y < x then x - y else 0 := by
  unfold vLo vMid vHi
  simp only [max_def, min_def]
  split_ifs <;> first | linarith | (exfalso; linarith)

theorem underSum_map (v : Rat → Rat) (xs : List Rat) (y : Rat) :
    underSum (xs.map v) (v y) = (xs.map fun x => if v x < v y then v y - v x else 0).sum := by
  unfold underSum; rw [List.map_map]; rfl
theorem overSum_map (v : Rat → Rat) (xs : List Rat) (y : Rat) :
    overSum (xs.map v) (v y) = (xs.map fun x => if v y < v x then v x - v y else 0).sum := by
  unfold overSum; rw [List.map_map]; rfl

theorem underSum_partition {a b : Rat} (hab : a ≤ b) (xs : List Rat) (y : Rat) :
    underSum (xs.map (vLo a)) (vLo a y) + underSum (xs.map (vMid a b)) (vMid a b y) + underSum (xs.map (vHi b)) (vHi b y)
      = underSum xs y := by
  rw [underSum_map, underSum_map, underSum_map, ← sum_map_add', ← sum_map_add']
  unfold underSum
  apply sum_map_congr; intro x _
  exact partition_under hab x y

theorem overSum_partition {a b : Rat} (hab : a ≤ b) (xs : List Rat) (y : Rat) :
    overSum (xs.map (vLo a)) (vLo a y) + overSum (xs.map (vMid a b)) (vMid a b y) + overSum (xs.map (vHi b)) (vHi b y)
      = overSum xs y := by
  rw [overSum_map, overSum_map, overSum_map, ← sum_map_add', ← sum_map_add']
  unfold overSum
  apply sum_map_congr; intro x _
  exact partition_over hab x y

/-- the spread component on finite inputs, for either method -/
def spreadQ (m : Method) (xs : List Rat) : Rat :=
  pairAbs xs * (match m with | .ecdf => 1 / (2 * (xs.length : Rat) ^ 2) | .fair => 1 / (2 * (xs.length : Rat) * ((xs.length : Rat) - 1)))

theorem spreadTerm_fin {m : Method} {xs : List Rat} (h : enough m xs.length) :
    spreadTerm m (xs.map Fl.fin) = Fl.fin (spreadQ m xs) := by
  cases m
  · have : xs ≠ [] := by intro e; simp [enough, e] at h
    rw [spreadTerm_ecdf_fin this]; unfold spreadQ; congr 1; ring
  · rw [spreadTerm_fair_fin h]; unfold spreadQ; congr 1; ring

theorem spreadQ_partition (m : Method) {a b : Rat} (hab : a ≤ b) (xs : List Rat) :
    spreadQ m (xs.map (vLo a)) + spreadQ m (xs.map (vMid a b)) + spreadQ m (xs.map (vHi b)) = spreadQ m xs := by
  unfold spreadQ
  simp only [List.length_map]
  rw [← pairAbs_partition hab xs]; ring

end SV.Lemmas.CrpsEns
