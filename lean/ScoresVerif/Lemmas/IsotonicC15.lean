/-
  Lemmas for C15 (stretch): permutation invariance of the mean fit (through optimality + uniqueness of the
  minimiser) and the max-min characterisation of the mean fit (through the block structure + KKT prefix invariant).
-/
import ScoresVerif.Lemmas.Isotonic
import ScoresVerif.Spec.Isotonic

namespace SV.Model.Isotonic

/-! ### A. permutation invariance -/

/-- weighted squared error of a fitted sequence -/
def sseFit (Z : List (Pair × Rat)) : Rat := (Z.map fun pv => pv.1.2.2 * (pv.1.2.1 - pv.2) ^ 2).sum

/-- the fitted value attached to (the first pair with) forecast `u` -/
def valAt (Z : List (Pair × Rat)) (u : Rat) : Rat :=
  match Z.find? (fun pv => decide (pv.1.1 = u)) with
  | some pv => pv.2
  | none => 0

/-- the fitted values are a monotone function of the forecast value (symmetric form) -/
def FcstMono (Z : List (Pair × Rat)) : Prop :=
  ∀ a ∈ Z, ∀ b ∈ Z, a.1.1 ≤ b.1.1 → a.2 ≤ b.2

theorem valAt_mem {Z : List (Pair × Rat)} (hZ : FcstMono Z) : ∀ pv ∈ Z, valAt Z pv.1.1 = pv.2 := by
  intro pv hpv
  unfold valAt
  split
  · rename_i a ha
    have hmem : a ∈ Z := List.mem_of_find?_eq_some ha
    have hk : a.1.1 = pv.1.1 := by simpa using List.find?_some ha
    exact le_antisymm (hZ a hmem pv hpv (le_of_eq hk)) (hZ pv hpv a hmem (le_of_eq hk.symm))
  · rename_i hnone
    have := List.find?_eq_none.mp hnone pv hpv
    simp at this

theorem keyLe_fcst_le {a b : Pair} (h : keyLe a b = true) : a.1 ≤ b.1 := by
  rcases (keyLe_iff a b).mp h with h | ⟨h, _⟩
  · exact le_of_lt h
  · exact le_of_eq h

/-- the mean fit over a tidied list is a monotone function of the forecast -/
theorem fit_fcstMono (solve : Solver) (ps : List Pair) : FcstMono (fitPairs solve (tidy ps)) := by
  let S : Pair × Rat → Pair × Rat → Prop := fun a b => (a.1.1 ≤ b.1.1 → a.2 ≤ b.2) ∧ (b.1.1 ≤ a.1.1 → b.2 ≤ a.2)
  have hsym : Std.Symm S := ⟨fun a b h => ⟨h.2, h.1⟩⟩
  have hP : (fitPairs solve (tidy ps)).Pairwise S := by
    -- ordered: forecasts ascending, values non-decreasing, ties share a value
    have h1 : (fitPairs solve (tidy ps)).Pairwise (fun a b => a.2 ≤ b.2) := fit_monotone _ _ _
    have h2 : (fitPairs solve (tidy ps)).Pairwise (fun a b => a.1.1 ≤ b.1.1) := by
      have hs : ((fitPairs solve (tidy ps)).map (·.1)).Pairwise (fun a b : Pair => a.1 ≤ b.1) := by
        unfold fitPairs
        rw [fit_fst]
        exact (tidy_sorted ps).imp keyLe_fcst_le
      exact (List.pairwise_map (f := fun pv : Pair × Rat => pv.1) (R := fun a b : Pair => a.1 ≤ b.1)).mp hs
    have h3 : (fitPairs solve (tidy ps)).Pairwise (fun a b => a.1.1 = b.1.1 → a.2 = b.2) := by
      -- as in Props.C15.tied_forecasts_share_value
      let R : Pair × Rat → Pair × Rat → Prop := fun a b => a.1.1 ≤ b.1.1 ∧ (a.1.1 = b.1.1 → a.2 = b.2)
      have hadj : (fitPairs solve (tidy ps)).IsChain (fun a b => a.1.1 = b.1.1 → a.2 = b.2) := by
        apply fit_ties obsOf (fun p : Pair => p.1)
        refine (tidy_sorted ps).isChain.imp ?_
        intro a b hab heq
        rcases (keyLe_iff a b).mp hab with h | ⟨_, h⟩
        · exact absurd heq (ne_of_lt h)
        · exact h
      have hR : (fitPairs solve (tidy ps)).IsChain R := isChain_and h2.isChain hadj
      have : Trans R R R := ⟨fun {a b c} h1 h2 => ⟨le_trans h1.1 h2.1, fun h => by
        have hab : a.1.1 = b.1.1 := le_antisymm h1.1 (h ▸ h2.1)
        have hbc : b.1.1 = c.1.1 := hab ▸ h
        exact (h1.2 hab).trans (h2.2 hbc)⟩⟩
      exact (List.isChain_iff_pairwise.mp hR).imp (fun h => h.2)
    have h123 := (h1.and h2).and h3
    refine h123.imp ?_
    rintro a b ⟨⟨hv, hf⟩, ht⟩
    exact ⟨fun _ => hv, fun hba => le_of_eq (ht (le_antisymm hf hba)).symm⟩
  intro a ha b hb hab
  exact (List.Pairwise.forall_of_forall (fun x _ => ⟨fun _ => le_refl _, fun _ => le_refl _⟩) hP ha hb).1 hab

theorem fitPairs_fst (solve : Solver) (t : List Pair) : (fitPairs solve t).map (·.1) = t := fit_fst _ _ t

theorem fitPairs_mem_fst (solve : Solver) (t : List Pair) {pv : Pair × Rat} (h : pv ∈ fitPairs solve t) : pv.1 ∈ t := by
  have := List.mem_map_of_mem (f := fun x : Pair × Rat => x.1) h
  rwa [fitPairs_fst] at this

/-- optimality with the strong-convexity gap (same statement as `Props.C15.mean_fit_optimal_gap`) -/
theorem fit_optimal_gap (t : List Pair) (hw : ∀ p ∈ t, 0 < p.2.2) (z : Pair → Rat)
    (hz : (t.map z).Pairwise (· ≤ ·)) :
    sseFit (fitPairs wmean t) + ((fitPairs wmean t).map fun pv => pv.1.2.2 * (pv.2 - z pv.1) ^ 2).sum
      ≤ (t.map fun p => p.2.2 * (p.2.1 - z p) ^ 2).sum := by
  have := blocks_optimal (pav obsOf (fun l => wmean (itemsOf l)) t) (pav_kblk t hw) z (by rw [pav_flat]; exact hz)
  rw [pav_flat] at this
  exact this

theorem gap_nonneg (t : List Pair) (hw : ∀ p ∈ t, 0 < p.2.2) (z : Pair → Rat) :
    0 ≤ ((fitPairs wmean t).map fun pv => pv.1.2.2 * (pv.2 - z pv.1) ^ 2).sum := by
  apply List.sum_nonneg
  intro x hx
  obtain ⟨pv, hpv, rfl⟩ := List.mem_map.mp hx
  have := hw pv.1 (fitPairs_mem_fst _ _ hpv)
  positivity

/-- the squared error of a fitted sequence whose values are `g (forecast)` -/
theorem sseFit_eq_of_val {t : List Pair} {Z : List (Pair × Rat)} (hfst : Z.map (·.1) = t) (g : Rat → Rat)
    (hg : ∀ pv ∈ Z, g pv.1.1 = pv.2) : sseFit Z = (t.map fun p => p.2.2 * (p.2.1 - g p.1) ^ 2).sum := by
  rw [← hfst, List.map_map]
  unfold sseFit
  congr 1
  apply List.map_congr_left
  intro pv hpv
  simp [hg pv hpv]

/-- the fit of `ps`, read as a function of the forecast, is a monotone competitor on the tidied permuted list `qs`
    with the same squared error -/
theorem cross_competitor (ps qs : List Pair) (hperm : ps.Perm qs) (solve : Solver) :
    ((tidy qs).map fun p => valAt (fitPairs solve (tidy ps)) p.1).Pairwise (· ≤ ·) ∧
    ((tidy qs).map fun p => p.2.2 * (p.2.1 - valAt (fitPairs solve (tidy ps)) p.1) ^ 2).sum
      = sseFit (fitPairs solve (tidy ps)) := by
  have hmono := fit_fcstMono solve ps
  have hval := valAt_mem hmono
  have hpt : (tidy qs).Perm (tidy ps) := (tidy_perm qs).trans (hperm.symm.trans (tidy_perm ps).symm)
  constructor
  · rw [List.pairwise_map]
    refine (tidy_sorted qs).imp_of_mem ?_
    intro a b ha hb hab
    have ha' : a ∈ (fitPairs solve (tidy ps)).map (·.1) := by rw [fitPairs_fst]; exact hpt.mem_iff.mp ha
    have hb' : b ∈ (fitPairs solve (tidy ps)).map (·.1) := by rw [fitPairs_fst]; exact hpt.mem_iff.mp hb
    obtain ⟨pa, hpa, rfl⟩ := List.mem_map.mp ha'
    obtain ⟨pb, hpb, rfl⟩ := List.mem_map.mp hb'
    rw [hval pa hpa, hval pb hpb]
    exact hmono pa hpa pb hpb (keyLe_fcst_le hab)
  · rw [sseFit_eq_of_val (fitPairs_fst solve (tidy ps)) _ hval]
    exact (hpt.map _).sum_eq

/-- KEY: for a permuted input the fit at every pair is the value the fit of the original input attaches to that
    pair's forecast (optimality of both fits + uniqueness of the minimiser) -/
theorem fit_val_of_perm (ps qs : List Pair) (hperm : ps.Perm qs) (hw : ∀ p ∈ ps, 0 < p.2.2) :
    ∀ pv ∈ fitPairs wmean (tidy qs), valAt (fitPairs wmean (tidy ps)) pv.1.1 = pv.2 := by
  have hwq : ∀ p ∈ qs, 0 < p.2.2 := fun p hp => hw p (hperm.mem_iff.mpr hp)
  have hwtp : ∀ p ∈ tidy ps, 0 < p.2.2 := fun p hp => hw p ((tidy_perm ps).mem_iff.mp hp)
  have hwtq : ∀ p ∈ tidy qs, 0 < p.2.2 := fun p hp => hwq p ((tidy_perm qs).mem_iff.mp hp)
  obtain ⟨m1, e1⟩ := cross_competitor ps qs hperm wmean
  obtain ⟨m2, e2⟩ := cross_competitor qs ps hperm.symm wmean
  have g1 := fit_optimal_gap (tidy qs) hwtq (fun p => valAt (fitPairs wmean (tidy ps)) p.1) m1
  have g2 := fit_optimal_gap (tidy ps) hwtp (fun p => valAt (fitPairs wmean (tidy qs)) p.1) m2
  have n2 := gap_nonneg (tidy ps) hwtp (fun p => valAt (fitPairs wmean (tidy qs)) p.1)
  rw [e1] at g1
  rw [e2] at g2
  have hz0 := all_zero_of_sum_nonpos (fitPairs wmean (tidy qs))
    (fun pv => pv.1.2.2 * (pv.2 - valAt (fitPairs wmean (tidy ps)) pv.1.1) ^ 2)
    (by intro pv hpv; have := hwtq pv.1 (fitPairs_mem_fst _ _ hpv); positivity) (by linarith)
  intro pv hpv
  have h0 := hz0 pv hpv
  have hwp := hwtq pv.1 (fitPairs_mem_fst _ _ hpv)
  have : (pv.2 - valAt (fitPairs wmean (tidy ps)) pv.1.1) ^ 2 = 0 := by
    rcases mul_eq_zero.mp h0 with h1 | h1
    · exact absurd h1 (ne_of_gt hwp)
    · exact h1
  have := pow_eq_zero_iff (n := 2) (by norm_num) |>.mp this
  linarith

/-- the (forecast, observation) sequence of the tidied list is determined by the multiset of the input -/
theorem tidy_keys_perm (ps qs : List Pair) (hperm : ps.Perm qs) :
    (tidy ps).map (fun p => (p.1, p.2.1)) = (tidy qs).map (fun p => (p.1, p.2.1)) := by
  have hpt : (tidy ps).Perm (tidy qs) := (tidy_perm ps).trans (hperm.trans (tidy_perm qs).symm)
  refine List.Perm.eq_of_pairwise (le := fun a b : Rat × Rat => a.1 < b.1 ∨ (a.1 = b.1 ∧ b.2 ≤ a.2)) ?_ ?_ ?_ (hpt.map _)
  · rintro ⟨a1, a2⟩ ⟨b1, b2⟩ _ _ hab hba
    simp only at hab hba
    rcases hab with h | ⟨h, h'⟩ <;> rcases hba with k | ⟨k, k'⟩
    · exact absurd h (not_lt.mpr (le_of_lt k))
    · exact absurd h (by rw [k]; exact lt_irrefl _)
    · exact absurd k (by rw [h]; exact lt_irrefl _)
    · rw [h, le_antisymm h' k']
  · rw [List.pairwise_map]
    exact (tidy_sorted ps).imp (fun {a b} h => (keyLe_iff a b).mp h)
  · rw [List.pairwise_map]
    exact (tidy_sorted qs).imp (fun {a b} h => (keyLe_iff a b).mp h)

theorem map_triple {t : List Pair} {Z : List (Pair × Rat)} (hfst : Z.map (·.1) = t) (g : Rat → Rat)
    (hg : ∀ pv ∈ Z, g pv.1.1 = pv.2) :
    Z.map (fun pv => (pv.1.1, pv.1.2.1, pv.2)) = (t.map (fun p => (p.1, p.2.1))).map (fun k => (k.1, k.2, g k.1)) := by
  rw [← hfst, List.map_map, List.map_map]
  apply List.map_congr_left
  intro pv hpv
  simp [hg pv hpv]

/-- PERMUTATION INVARIANCE (sequence form): the (forecast, observation, fitted value) sequence produced for the
    tidied input does not depend on the order of the input triples -/
theorem fit_perm (ps qs : List Pair) (hperm : ps.Perm qs) (hw : ∀ p ∈ ps, 0 < p.2.2) :
    (fitPairs wmean (tidy ps)).map (fun pv => (pv.1.1, pv.1.2.1, pv.2))
      = (fitPairs wmean (tidy qs)).map (fun pv => (pv.1.1, pv.1.2.1, pv.2)) := by
  have h1 := valAt_mem (fit_fcstMono wmean ps)
  have h2 := fit_val_of_perm ps qs hperm hw
  rw [map_triple (fitPairs_fst wmean (tidy ps)) _ h1, map_triple (fitPairs_fst wmean (tidy qs)) _ h2,
    tidy_keys_perm ps qs hperm]

/-! ### B. the max-min formula -/

open SV.Spec.Isotonic (maxL minL avg maxmin maxminSeq)

theorem foldl_max_le {v : Rat} (xs : List Rat) (x : Rat) (hx : x ≤ v) (h : ∀ y ∈ xs, y ≤ v) : xs.foldl max x ≤ v := by
  induction xs generalizing x with
  | nil => simpa using hx
  | cons a t ih =>
    simp only [List.foldl_cons]
    exact ih _ (max_le hx (h a (by simp))) (fun y hy => h y (by simp [hy]))

theorem le_foldl_max (xs : List Rat) (x : Rat) : x ≤ xs.foldl max x ∧ ∀ y ∈ xs, y ≤ xs.foldl max x := by
  induction xs generalizing x with
  | nil => simp
  | cons a t ih =>
    simp only [List.foldl_cons]
    obtain ⟨h1, h2⟩ := ih (max x a)
    refine ⟨le_trans (le_max_left _ _) h1, ?_⟩
    intro y hy
    rcases List.mem_cons.mp hy with rfl | hm
    · exact le_trans (le_max_right _ _) h1
    · exact h2 y hm

theorem le_foldl_min {v : Rat} (xs : List Rat) (x : Rat) (hx : v ≤ x) (h : ∀ y ∈ xs, v ≤ y) : v ≤ xs.foldl min x := by
  induction xs generalizing x with
  | nil => simpa using hx
  | cons a t ih =>
    simp only [List.foldl_cons]
    exact ih _ (le_min hx (h a (by simp))) (fun y hy => h y (by simp [hy]))

theorem foldl_min_le (xs : List Rat) (x : Rat) : xs.foldl min x ≤ x ∧ ∀ y ∈ xs, xs.foldl min x ≤ y := by
  induction xs generalizing x with
  | nil => simp
  | cons a t ih =>
    simp only [List.foldl_cons]
    obtain ⟨h1, h2⟩ := ih (min x a)
    refine ⟨le_trans h1 (min_le_left _ _), ?_⟩
    intro y hy
    rcases List.mem_cons.mp hy with rfl | hm
    · exact le_trans h1 (min_le_right _ _)
    · exact h2 y hm

theorem maxL_le {l : List Rat} {v : Rat} (hne : l ≠ []) (h : ∀ x ∈ l, x ≤ v) : maxL l ≤ v := by
  cases l with
  | nil => exact absurd rfl hne
  | cons x xs => exact foldl_max_le xs x (h x (by simp)) (fun y hy => h y (by simp [hy]))

theorem le_maxL {l : List Rat} {x : Rat} (hx : x ∈ l) : x ≤ maxL l := by
  cases l with
  | nil => simp at hx
  | cons a xs =>
    rcases List.mem_cons.mp hx with rfl | hm
    · exact (le_foldl_max xs _).1
    · exact (le_foldl_max xs a).2 x hm

theorem le_minL {l : List Rat} {v : Rat} (hne : l ≠ []) (h : ∀ x ∈ l, v ≤ x) : v ≤ minL l := by
  cases l with
  | nil => exact absurd rfl hne
  | cons x xs => exact le_foldl_min xs x (h x (by simp)) (fun y hy => h y (by simp [hy]))

theorem minL_le {l : List Rat} {x : Rat} (hx : x ∈ l) : minL l ≤ x := by
  cases l with
  | nil => simp at hx
  | cons a xs =>
    rcases List.mem_cons.mp hx with rfl | hm
    · exact (foldl_min_le xs _).1
    · exact (foldl_min_le xs a).2 x hm

/-- max-min from its two certificates: every start `a ≤ i` has an end `≥ i` with average ≤ v, and some start
    `a ≤ i` has all its averages ≥ v -/
theorem maxmin_eq_of_bounds (gs : List (Rat × Rat)) (i : Nat) (v : Rat) (hi : i < gs.length)
    (hup : ∀ a, a ≤ i → ∃ d, d < gs.length - i ∧ avg ((gs.drop a).take (i + d - a + 1)) ≤ v)
    (hlo : ∃ a, a ≤ i ∧ ∀ d, d < gs.length - i → v ≤ avg ((gs.drop a).take (i + d - a + 1))) :
    maxmin gs i = v := by
  unfold maxmin
  apply le_antisymm
  · apply maxL_le (by simp)
    intro x hx
    obtain ⟨a, ha, rfl⟩ := List.mem_map.mp hx
    obtain ⟨d, hd, hle⟩ := hup a (by have := List.mem_range.mp ha; omega)
    exact le_trans (minL_le (List.mem_map.mpr ⟨d, List.mem_range.mpr hd, rfl⟩)) hle
  · obtain ⟨a, ha, hall⟩ := hlo
    refine le_trans ?_ (le_maxL (List.mem_map.mpr ⟨a, List.mem_range.mpr (by omega), rfl⟩))
    apply le_minL
    · have : 0 < gs.length - i := by omega
      intro h
      have := congrArg List.length h
      simp at this
      omega
    · intro x hx
      obtain ⟨d, hd, rfl⟩ := List.mem_map.mp hx
      exact hall d (List.mem_range.mp hd)

/-- the (Σ w·y, Σ w) entries the Spec averages over -/
def wy (p : Pair) : Rat × Rat := (p.2.2 * p.2.1, p.2.2)

theorem seq_gs (t : List Pair) : (itemsOf t).map (fun x => (x.2 * x.1, x.2)) = t.map wy := by
  simp [itemsOf, wy, List.map_map, Function.comp_def]

theorem avg_wy (l : List Pair) : avg (l.map wy) = Sp l / Wp l := by
  simp [avg, wy, Sp, Wp, List.map_map, Function.comp_def]

theorem avg_seg (t : List Pair) (a k : Nat) : avg (((t.map wy).drop a).take k) = Sp ((t.drop a).take k) / Wp ((t.drop a).take k) := by
  rw [← List.map_drop, ← List.map_take, avg_wy]

theorem suffix_append_cases {Q A R : List Pair} (h : Q <:+ A ++ R) : Q <:+ R ∨ ∃ Q', Q' <:+ A ∧ Q = Q' ++ R := by
  obtain ⟨p, hp⟩ := h
  rcases List.append_eq_append_iff.mp hp with ⟨a', h1, h2⟩ | ⟨c', h1, h2⟩
  · exact Or.inr ⟨a', ⟨p, h1.symm⟩, h2⟩
  · exact Or.inl ⟨c', h2.symm⟩

/-- every suffix of a KKT block has weighted mean ≤ the block value -/
theorem kblk_suffix {b : Blk Pair} (hb : KBlk b) {Q : List Pair} (hQ : Q <:+ b.items) : Sp Q ≤ b.val * Wp Q := by
  obtain ⟨_, _, hbal, hK⟩ := hb
  obtain ⟨P, hP⟩ := hQ
  have h1 := hK P ⟨Q, hP⟩
  rw [← hP, Sp_append, Wp_append] at hbal
  linarith

/-- blocks with values ≤ v: every suffix of their concatenation has weighted mean ≤ v -/
theorem blocks_suffix_le (v : Rat) (L : List (Blk Pair)) (hK : ∀ b ∈ L, KBlk b) (hv : ∀ b ∈ L, b.val ≤ v) :
    ∀ Q, Q <:+ flat L → Sp Q ≤ v * Wp Q := by
  induction L with
  | nil => intro Q hQ; have : Q = [] := by simpa using hQ
           subst this; simp
  | cons b L' ih =>
    intro Q hQ
    have ih' := ih (fun c hc => hK c (by simp [hc])) (fun c hc => hv c (by simp [hc]))
    rw [flat_cons] at hQ
    rcases suffix_append_cases hQ with h | ⟨Q', hQ', rfl⟩
    · exact ih' Q h
    · have hb := hK b (by simp)
      have h1 := kblk_suffix hb hQ'
      have h2 := ih' (flat L') (List.suffix_refl _)
      have h3 : 0 ≤ Wp Q' := Wp_nonneg (fun q hq => hb.2.1 q (hQ'.subset hq))
      have h4 := hv b (by simp)
      rw [Sp_append, Wp_append]
      nlinarith

/-- blocks with values ≥ v: every prefix of their concatenation has weighted mean ≥ v -/
theorem blocks_prefix_ge (v : Rat) (L : List (Blk Pair)) (hK : ∀ b ∈ L, KBlk b) (hv : ∀ b ∈ L, v ≤ b.val) :
    ∀ P, P <+: flat L → v * Wp P ≤ Sp P := by
  induction L with
  | nil => intro P hP; have : P = [] := by simpa using hP
           subst this; simp
  | cons b L' ih =>
    intro P hP
    have ih' := ih (fun c hc => hK c (by simp [hc])) (fun c hc => hv c (by simp [hc]))
    rw [flat_cons] at hP
    have hb := hK b (by simp)
    have h4 := hv b (by simp)
    rcases prefix_append_cases hP with h | ⟨Q, hQ, rfl⟩
    · have h1 := hb.2.2.2 P h
      have h3 : 0 ≤ Wp P := Wp_nonneg (fun q hq => hb.2.1 q (h.subset hq))
      nlinarith
    · have h2 := ih' Q hQ
      have h3 : 0 < Wp b.items := Wp_pos hb.1 hb.2.1
      rw [Sp_append, Wp_append, hb.2.2.1]
      nlinarith

theorem mem_flat {L : List (Blk Pair)} {p : Pair} (h : p ∈ flat L) : ∃ c ∈ L, p ∈ c.items := by
  unfold flat at h
  exact List.mem_flatMap.mp h

/-- a position inside block `b` (blocks before it have values ≤, blocks after it values ≥): max-min = block value -/
theorem maxmin_of_blocks (pre post : List (Blk Pair)) (b : Blk Pair)
    (hK : ∀ c ∈ pre ++ b :: post, KBlk c)
    (hpre : ∀ c ∈ pre, c.val ≤ b.val) (hpost : ∀ c ∈ post, b.val ≤ c.val)
    (i : Nat) (hi1 : (flat pre).length ≤ i) (hi2 : i < (flat pre).length + b.items.length) :
    maxminSeq (itemsOf (flat (pre ++ b :: post))) i = b.val := by
  unfold maxminSeq
  rw [seq_gs]
  have htdef : flat (pre ++ b :: post) = flat pre ++ (b.items ++ flat post) := by simp
  have hw : ∀ p ∈ flat (pre ++ b :: post), 0 < p.2.2 := by
    intro p hp
    obtain ⟨c, hc, hpc⟩ := mem_flat hp
    exact (hK c hc).2.1 p hpc
  rw [htdef] at hw ⊢
  have hKb : KBlk b := hK b (by simp)
  apply maxmin_eq_of_bounds
  · simp only [List.length_map, List.length_append]; omega
  · intro a ha
    refine ⟨(flat pre).length + b.items.length - 1 - i, ?_, ?_⟩
    · simp only [List.length_map, List.length_append]; omega
    · rw [avg_seg]
      have hk : i + ((flat pre).length + b.items.length - 1 - i) - a + 1 = (flat pre).length + b.items.length - a := by omega
      rw [hk]
      have hseg : ((flat pre ++ (b.items ++ flat post)).drop a).take ((flat pre).length + b.items.length - a)
          = (flat (pre ++ [b])).drop a := by
        rw [← List.drop_take, ← List.append_assoc, List.take_left' (by simp)]
        simp
      rw [hseg]
      have hsuf : (flat (pre ++ [b])).drop a <:+ flat (pre ++ [b]) := List.drop_suffix _ _
      have h1 := blocks_suffix_le b.val (pre ++ [b]) (fun c hc => hK c (by
          simp only [List.mem_append, List.mem_cons, List.not_mem_nil, or_false] at hc ⊢; tauto))
        (fun c hc => by
          simp only [List.mem_append, List.mem_singleton] at hc
          rcases hc with h | rfl
          · exact hpre c h
          · exact le_refl _) _ hsuf
      have hne : (flat (pre ++ [b])).drop a ≠ [] := by
        intro h
        have := congrArg List.length h
        simp at this
        omega
      have hpos : 0 < Wp ((flat (pre ++ [b])).drop a) := Wp_pos hne (by
        intro p hp
        apply hw p
        have := hsuf.subset hp
        simp only [flat_append, flat_cons, flat_nil, List.append_nil, List.mem_append] at this ⊢
        tauto)
      rw [div_le_iff₀ hpos]
      exact h1
  · refine ⟨(flat pre).length, hi1, ?_⟩
    intro d _
    rw [avg_seg, List.drop_left' rfl]
    have hpfx : (b.items ++ flat post).take (i + d - (flat pre).length + 1) <+: flat (b :: post) := by
      rw [flat_cons]; exact List.take_prefix _ _
    have h1 := blocks_prefix_ge b.val (b :: post) (fun c hc => hK c (by simp only [List.mem_append]; exact Or.inr hc))
      (fun c hc => by
        rcases List.mem_cons.mp hc with rfl | h
        · exact le_refl _
        · exact hpost c h) _ hpfx
    have hne : (b.items ++ flat post).take (i + d - (flat pre).length + 1) ≠ [] := by
      intro h
      have := congrArg List.length h
      have hb1 : 0 < b.items.length := List.length_pos_of_ne_nil hKb.1
      rw [List.length_take, List.length_append, List.length_nil] at this
      omega
    have hpos : 0 < Wp ((b.items ++ flat post).take (i + d - (flat pre).length + 1)) := Wp_pos hne (by
      intro p hp
      apply hw p
      have := (List.take_prefix _ _).subset hp
      simp only [List.mem_append] at this ⊢
      tauto)
    rw [le_div_iff₀ hpos]
    exact h1

theorem expand_vals_aux (bs : List (Blk Pair)) (hK : ∀ b ∈ bs, KBlk b) (hinc : bs.Pairwise (fun a b => a.val < b.val)) :
    ∀ post pre, pre ++ post = bs →
      (expand post).map (·.2) = (List.range' (flat pre).length (flat post).length).map (maxminSeq (itemsOf (flat bs))) := by
  intro post
  induction post with
  | nil => intro pre _; simp [expand]
  | cons b post' ih =>
    intro pre h
    have ih' := ih (pre ++ [b]) (by rw [← h]; simp)
    have hsplit := hinc
    rw [← h, List.pairwise_append] at hsplit
    obtain ⟨_, hbp, hcross⟩ := hsplit
    have hpre : ∀ c ∈ pre, c.val ≤ b.val := fun c hc => le_of_lt (hcross c hc b (by simp))
    have hpost : ∀ c ∈ post', b.val ≤ c.val := fun c hc => le_of_lt ((List.pairwise_cons.mp hbp).1 c hc)
    have hE : (expand (b :: post')).map (·.2) = (b.items.map fun _ => b.val) ++ (expand post').map (·.2) := by
      simp [expand, List.map_map, Function.comp_def]
    rw [hE, ih', flat_cons, List.length_append, ← List.range'_append_1, List.map_append]
    congr 1
    · rw [List.map_const']
      have : ∀ i ∈ List.range' (flat pre).length b.items.length,
          maxminSeq (itemsOf (flat bs)) i = (fun _ => b.val) i := by
        intro i hi
        obtain ⟨h1, h2⟩ := List.mem_range'_1.mp hi
        rw [← h]
        exact maxmin_of_blocks pre post' b (by rw [h]; exact hK) hpre hpost i h1 h2
      rw [List.map_congr_left this, List.map_const', List.length_range']
    · simp

/-- MAX-MIN for a list of KKT blocks with strictly increasing values -/
theorem expand_vals_eq_maxmin (bs : List (Blk Pair)) (hK : ∀ b ∈ bs, KBlk b)
    (hinc : bs.Pairwise (fun a b => a.val < b.val)) :
    (expand bs).map (·.2) = (List.range (flat bs).length).map (maxminSeq (itemsOf (flat bs))) := by
  have := expand_vals_aux bs hK hinc bs [] rfl
  simpa [List.range_eq_range'] using this

/-- the mean fit of ANY sequence of pairs with positive weights is given by the max-min formula -/
theorem fitPairs_eq_maxmin (t : List Pair) (hw : ∀ p ∈ t, 0 < p.2.2) :
    (fitPairs wmean t).map (·.2) = (List.range t.length).map (maxminSeq (itemsOf t)) := by
  have := expand_vals_eq_maxmin (pav obsOf (fun l => wmean (itemsOf l)) t) (pav_kblk t hw) (pav_increasing _ _ t)
  rw [pav_flat] at this
  exact this

/-! ### C. the quantile solver lies between two observations of its block -/

theorem sortAsc_mem (y : Rat) (xs : List Rat) : y ∈ sortAsc xs ↔ y ∈ xs := by
  induction xs with
  | nil => simp [sortAsc]
  | cons a t ih =>
    have : sortAsc (a :: t) = insertSorted a (sortAsc t) := by simp [sortAsc]
    rw [this, insertSorted_mem, ih]; simp

theorem quantileSorted_between (v : List Rat) (q : Rat) (hs : v.Pairwise (· ≤ ·)) (hne : v ≠ []) (h0 : 0 ≤ q) (h1 : q ≤ 1) :
    ∃ x ∈ v, ∃ y ∈ v, x ≤ quantileSorted v q ∧ quantileSorted v q ≤ y := by
  have hlen : 0 < v.length := List.length_pos_of_ne_nil hne
  set pos : Rat := (((v.length : Int) - 1 : Int) : Rat) * q with hpos
  have hn : (0 : Rat) ≤ (((v.length : Int) - 1 : Int) : Rat) := by
    have : (0 : Int) ≤ (v.length : Int) - 1 := by omega
    exact_mod_cast this
  have hp0 : 0 ≤ pos := mul_nonneg hn h0
  have hp1 : pos ≤ (((v.length : Int) - 1 : Int) : Rat) := by
    calc pos ≤ (((v.length : Int) - 1 : Int) : Rat) * 1 := mul_le_mul_of_nonneg_left h1 hn
      _ = _ := by ring
  have f0 : 0 ≤ pos.floor := Rat.le_floor_iff.mpr (by exact_mod_cast hp0)
  have c1 : pos.ceil ≤ (v.length : Int) - 1 := Rat.ceil_le_iff.mpr hp1
  have fc : pos.floor ≤ pos.ceil := by
    have : (pos.floor : Rat) ≤ (pos.ceil : Rat) := le_trans (Rat.floor_le pos) Rat.le_ceil
    exact_mod_cast this
  have hlo : pos.floor.toNat < v.length := by omega
  have hhi : pos.ceil.toNat < v.length := by omega
  have hlh : pos.floor.toNat ≤ pos.ceil.toNat := by omega
  have hcast : ((pos.floor.toNat : Int) : Rat) = (pos.floor : Rat) := by
    rw [Int.toNat_of_nonneg f0]
  have hfr0 : 0 ≤ pos - (pos.floor : Rat) := sub_nonneg.mpr (Rat.floor_le pos)
  have hfr1 : pos - (pos.floor : Rat) ≤ 1 := by
    have := Rat.lt_floor_add_one pos; push_cast at this; linarith
  have hab : v[pos.floor.toNat] ≤ v[pos.ceil.toNat] := by
    rcases Nat.lt_or_ge pos.floor.toNat pos.ceil.toNat with h | h
    · exact (List.pairwise_iff_getElem.mp hs) _ _ hlo hhi h
    · have : pos.floor.toNat = pos.ceil.toNat := by omega
      simp [this]
  have hval : quantileSorted v q = v[pos.floor.toNat] + (v[pos.ceil.toNat] - v[pos.floor.toNat]) * (pos - (pos.floor : Rat)) := by
    unfold quantileSorted
    simp only [← hpos]
    rw [List.getD_eq_getElem?_getD, List.getD_eq_getElem?_getD, List.getElem?_eq_getElem hlo, List.getElem?_eq_getElem hhi,
      hcast]
    simp
  refine ⟨v[pos.floor.toNat], List.getElem_mem _, v[pos.ceil.toNat], List.getElem_mem _, ?_, ?_⟩
  · rw [hval]; nlinarith [mul_nonneg (sub_nonneg.mpr hab) hfr0]
  · rw [hval]; nlinarith [mul_nonneg (sub_nonneg.mpr hab) (sub_nonneg.mpr hfr1)]

/-- `np.quantile(block, q)` with 0 ≤ q ≤ 1 lies between two observations of the (non-empty) block -/
theorem quantileSolver_between (q : Rat) (h0 : 0 ≤ q) (h1 : q ≤ 1) (l : List Item) (hne : l ≠ []) :
    ∃ x ∈ l, ∃ y ∈ l, x.1 ≤ quantileSolver q l ∧ quantileSolver q l ≤ y.1 := by
  unfold quantileSolver
  have hne' : sortAsc (l.map (·.1)) ≠ [] := by
    intro h
    have := congrArg List.length h
    rw [sortAsc_length] at this
    simp at this
    exact hne this
  obtain ⟨x, hx, y, hy, hxy⟩ := quantileSorted_between _ q (sortAsc_sorted _) hne' h0 h1
  obtain ⟨x', hx', rfl⟩ := List.mem_map.mp ((sortAsc_mem _ _).mp hx)
  obtain ⟨y', hy', rfl⟩ := List.mem_map.mp ((sortAsc_mem _ _).mp hy)
  exact ⟨x', hx', y', hy', hxy⟩

/-! ### D. the group-level max-min formula of the Spec (`Spec.Isotonic.isoFit`): the tidied pairs are collapsed to one
        weighted observation per distinct forecast; the collapsed fit is the same function of the forecast
        (uniqueness of the minimiser) and is given by the sequence max-min formula (section B) -/

open SV.Spec.Isotonic (insertU distinct groupSum)

theorem insertU_mem (x y : Rat) (l : List Rat) : y ∈ insertU x l ↔ y = x ∨ y ∈ l := by
  induction l with
  | nil => simp [insertU]
  | cons a t ih =>
    unfold insertU
    split
    · simp
    · split
      · rename_i h; subst h; simp
      · simp [ih]; tauto

theorem insertU_sorted (x : Rat) (l : List Rat) (h : l.Pairwise (· < ·)) : (insertU x l).Pairwise (· < ·) := by
  induction l with
  | nil => simp [insertU]
  | cons a t ih =>
    unfold insertU
    split
    · rename_i hxa
      refine List.pairwise_cons.mpr ⟨?_, h⟩
      intro y hy
      rcases List.mem_cons.mp hy with rfl | hm
      · exact hxa
      · exact lt_trans hxa ((List.pairwise_cons.mp h).1 y hm)
    · split
      · exact h
      · rename_i h1 h2
        have hax : a < x := lt_of_le_of_ne (not_lt.mp h1) (Ne.symm h2)
        refine List.pairwise_cons.mpr ⟨?_, ih (List.pairwise_cons.mp h).2⟩
        intro y hy
        rcases (insertU_mem x y t).mp hy with rfl | hm
        · exact hax
        · exact (List.pairwise_cons.mp h).1 y hm

theorem distinct_sorted (ps : List Pair) : (distinct ps).Pairwise (· < ·) := by
  unfold distinct
  induction ps with
  | nil => simp
  | cons p t ih => simpa using insertU_sorted _ _ ih

theorem distinct_mem (ps : List Pair) (u : Rat) : u ∈ distinct ps ↔ ∃ p ∈ ps, p.1 = u := by
  unfold distinct
  induction ps with
  | nil => simp
  | cons p t ih =>
    rw [List.map_cons, List.foldr_cons, insertU_mem, ih]
    constructor
    · rintro (rfl | ⟨q, hq, rfl⟩)
      · exact ⟨p, by simp, rfl⟩
      · exact ⟨q, by simp [hq], rfl⟩
    · rintro ⟨q, hq, rfl⟩
      rcases List.mem_cons.mp hq with rfl | hm
      · exact Or.inl rfl
      · exact Or.inr ⟨q, hm, rfl⟩

theorem sum_ite_zero (us : List Rat) (x c : Rat) (hx : x ∉ us) : (us.map fun u => if x = u then c else 0).sum = 0 := by
  induction us with
  | nil => simp
  | cons a t ih =>
    have h1 : x ≠ a := fun h => hx (by simp [h])
    have h2 : x ∉ t := fun h => hx (by simp [h])
    simp [h1, ih h2]

theorem sum_ite_nodup (us : List Rat) (hnd : us.Nodup) (x c : Rat) (hx : x ∈ us) :
    (us.map fun u => if x = u then c else 0).sum = c := by
  induction us with
  | nil => simp at hx
  | cons a t ih =>
    obtain ⟨hat, hnt⟩ := List.nodup_cons.mp hnd
    by_cases h : x = a
    · subst h
      simp [sum_ite_zero t x c hat]
    · have hxt : x ∈ t := by
        rcases List.mem_cons.mp hx with h' | h'
        · exact absurd h' h
        · exact h'
      simp [h, ih hnt hxt]

/-- a sum over the pairs = the sum over the distinct forecasts of the sums over each forecast's pairs -/
theorem sum_by_groups (us : List Rat) (hnd : us.Nodup) (t : List Pair) (hc : ∀ p ∈ t, p.1 ∈ us) (F : Pair → Rat) :
    (t.map F).sum = (us.map fun u => ((t.filter fun p => decide (p.1 = u)).map F).sum).sum := by
  induction t with
  | nil => simp
  | cons p t ih =>
    have ih' := ih (fun q hq => hc q (by simp [hq]))
    have hstep : ∀ u, (((p :: t).filter fun q => decide (q.1 = u)).map F).sum
        = (if p.1 = u then F p else 0) + ((t.filter fun q => decide (q.1 = u)).map F).sum := by
      intro u
      rw [List.filter_cons]
      by_cases h : p.1 = u <;> simp [h]
    simp only [hstep, List.map_cons, List.sum_cons]
    rw [List.sum_map_add, sum_ite_nodup us hnd p.1 (F p) (hc p (by simp)), ih']

theorem sq_expand (G : List Pair) (h : Rat) :
    (G.map fun p => p.2.2 * (p.2.1 - h) ^ 2).sum = (G.map fun p => p.2.2 * p.2.1 ^ 2).sum - 2 * h * Sp G + h ^ 2 * Wp G := by
  induction G with
  | nil => simp
  | cons p t ih => simp only [List.map_cons, List.sum_cons, Sp_cons, Wp_cons, ih]; ring

/-- between/within decomposition of the squared error of a constant on one group -/
theorem group_sse (G : List Pair) (h : Rat) (hW : Wp G ≠ 0) :
    (G.map fun p => p.2.2 * (p.2.1 - h) ^ 2).sum
      = Wp G * (Sp G / Wp G - h) ^ 2 + ((G.map fun p => p.2.2 * p.2.1 ^ 2).sum - Sp G ^ 2 / Wp G) := by
  rw [sq_expand]; field_simp; ring

/-- the pairs with forecast `u` -/
def grp (ps : List Pair) (u : Rat) : List Pair := ps.filter fun p => decide (p.1 = u)

/-- one weighted observation (group mean, group weight) per distinct forecast -/
def collapse (ps : List Pair) : List Pair :=
  (distinct ps).map fun u => (u, Sp (grp ps u) / Wp (grp ps u), Wp (grp ps u))

def withinSS (ps : List Pair) : Rat :=
  ((distinct ps).map fun u => ((grp ps u).map fun p => p.2.2 * p.2.1 ^ 2).sum - Sp (grp ps u) ^ 2 / Wp (grp ps u)).sum

theorem grp_pos (ps : List Pair) (hw : ∀ p ∈ ps, 0 < p.2.2) {u : Rat} (hu : u ∈ distinct ps) : 0 < Wp (grp ps u) := by
  obtain ⟨p, hp, rfl⟩ := (distinct_mem ps u).mp hu
  apply Wp_pos
  · intro h
    have : p ∈ grp ps p.1 := List.mem_filter.mpr ⟨hp, by simp⟩
    rw [h] at this; simp at this
  · intro q hq
    exact hw q (List.mem_filter.mp hq).1

theorem collapse_fst (ps : List Pair) : (collapse ps).map (·.1) = distinct ps := by
  unfold collapse; rw [List.map_map]; simp [Function.comp_def]

theorem collapse_pos (ps : List Pair) (hw : ∀ p ∈ ps, 0 < p.2.2) : ∀ p ∈ collapse ps, 0 < p.2.2 := by
  intro p hp
  obtain ⟨u, hu, rfl⟩ := List.mem_map.mp hp
  exact grp_pos ps hw hu

theorem collapse_sorted (ps : List Pair) : (collapse ps).Pairwise (fun a b => a.1 < b.1) := by
  have := distinct_sorted ps
  rw [← collapse_fst, List.pairwise_map] at this
  exact this

/-- squared error of a function of the forecast: over the pairs = over the collapsed pairs + a constant -/
theorem sse_collapse (ps : List Pair) (hw : ∀ p ∈ ps, 0 < p.2.2) (h : Rat → Rat) :
    (ps.map fun p => p.2.2 * (p.2.1 - h p.1) ^ 2).sum
      = ((collapse ps).map fun p => p.2.2 * (p.2.1 - h p.1) ^ 2).sum + withinSS ps := by
  rw [sum_by_groups (distinct ps) ((distinct_sorted ps).imp ne_of_lt) ps (fun p hp => (distinct_mem ps p.1).mpr ⟨p, hp, rfl⟩)]
  unfold collapse withinSS
  rw [List.map_map, ← List.sum_map_add]
  congr 1
  apply List.map_congr_left
  intro u hu
  have hW := grp_pos ps hw hu
  have e : ((ps.filter fun p => decide (p.1 = u)).map fun p => p.2.2 * (p.2.1 - h p.1) ^ 2)
      = (grp ps u).map fun p => p.2.2 * (p.2.1 - h u) ^ 2 := by
    apply List.map_congr_left
    intro p hp
    have : p.1 = u := by simpa using (List.mem_filter.mp hp).2
    rw [this]
  rw [e, group_sse _ _ (ne_of_gt hW)]
  simp

theorem fcstMono_of_strict (Z : List (Pair × Rat)) (h1 : Z.Pairwise (fun a b => a.2 ≤ b.2))
    (h2 : Z.Pairwise (fun a b => a.1.1 < b.1.1)) : FcstMono Z := by
  let S : Pair × Rat → Pair × Rat → Prop := fun a b => (a.1.1 ≤ b.1.1 → a.2 ≤ b.2) ∧ (b.1.1 ≤ a.1.1 → b.2 ≤ a.2)
  have hsym : Std.Symm S := ⟨fun a b h => ⟨h.2, h.1⟩⟩
  have hP : Z.Pairwise S := by
    refine (h1.and h2).imp ?_
    rintro a b ⟨hv, hf⟩
    exact ⟨fun _ => hv, fun hba => absurd hf (not_lt.mpr hba)⟩
  intro a ha b hb hab
  exact (List.Pairwise.forall_of_forall (fun x _ => ⟨fun _ => le_refl _, fun _ => le_refl _⟩) hP ha hb).1 hab

theorem collapse_fit_fcstMono (ps : List Pair) : FcstMono (fitPairs wmean (collapse ps)) := by
  apply fcstMono_of_strict _ (fit_monotone _ _ _)
  have hs : ((fitPairs wmean (collapse ps)).map (·.1)).Pairwise (fun a b : Pair => a.1 < b.1) := by
    rw [fitPairs_fst]; exact collapse_sorted ps
  exact (List.pairwise_map (f := fun pv : Pair × Rat => pv.1) (R := fun a b : Pair => a.1 < b.1)).mp hs

/-- uniqueness of the minimiser, in the form used here -/
theorem fit_unique_of_le (t : List Pair) (hw : ∀ p ∈ t, 0 < p.2.2) (z : Pair → Rat) (hz : (t.map z).Pairwise (· ≤ ·))
    (hbest : (t.map fun p => p.2.2 * (p.2.1 - z p) ^ 2).sum ≤ sseFit (fitPairs wmean t)) :
    ∀ pv ∈ fitPairs wmean t, z pv.1 = pv.2 := by
  have g1 := fit_optimal_gap t hw z hz
  have hz0 := all_zero_of_sum_nonpos (fitPairs wmean t) (fun pv => pv.1.2.2 * (pv.2 - z pv.1) ^ 2)
    (by intro pv hpv; have := hw pv.1 (fitPairs_mem_fst _ _ hpv); positivity) (by linarith)
  intro pv hpv
  have h0 := hz0 pv hpv
  have hwp := hw pv.1 (fitPairs_mem_fst _ _ hpv)
  have : (pv.2 - z pv.1) ^ 2 = 0 := by
    rcases mul_eq_zero.mp h0 with h1 | h1
    · exact absurd h1 (ne_of_gt hwp)
    · exact h1
  have := pow_eq_zero_iff (n := 2) (by norm_num) |>.mp this
  linarith

/-- KEY: the fit of the collapsed pairs is the fit of the tidied pairs, read as a function of the forecast -/
theorem collapse_fit_val (ps : List Pair) (hw : ∀ p ∈ ps, 0 < p.2.2) :
    ∀ pv ∈ fitPairs wmean (collapse ps), valAt (fitPairs wmean (tidy ps)) pv.1.1 = pv.2 := by
  have hwc := collapse_pos ps hw
  have hwt : ∀ p ∈ tidy ps, 0 < p.2.2 := fun p hp => hw p ((tidy_perm ps).mem_iff.mp hp)
  have hm1 := fit_fcstMono wmean ps
  have hv1 := valAt_mem hm1
  have hm2 := collapse_fit_fcstMono ps
  have hv2 := valAt_mem hm2
  -- every distinct forecast carries a fitted pair in both fits
  have hin1 : ∀ u ∈ distinct ps, ∃ pa ∈ fitPairs wmean (tidy ps), pa.1.1 = u := by
    intro u hu
    obtain ⟨p, hp, rfl⟩ := (distinct_mem ps u).mp hu
    have : p ∈ (fitPairs wmean (tidy ps)).map (·.1) := by rw [fitPairs_fst]; exact (tidy_perm ps).mem_iff.mpr hp
    obtain ⟨pa, hpa, rfl⟩ := List.mem_map.mp this
    exact ⟨pa, hpa, rfl⟩
  have hin2 : ∀ u ∈ distinct ps, ∃ pa ∈ fitPairs wmean (collapse ps), pa.1.1 = u := by
    intro u hu
    rw [← collapse_fst, ← fitPairs_fst wmean (collapse ps), List.map_map] at hu
    obtain ⟨pa, hpa, rfl⟩ := List.mem_map.mp hu
    exact ⟨pa, hpa, rfl⟩
  have m1 : ((collapse ps).map fun p => valAt (fitPairs wmean (tidy ps)) p.1).Pairwise (· ≤ ·) := by
    rw [List.pairwise_map]
    refine (collapse_sorted ps).imp_of_mem ?_
    intro a b ha hb hab
    have ha' : a.1 ∈ distinct ps := by rw [← collapse_fst]; exact List.mem_map_of_mem ha
    have hb' : b.1 ∈ distinct ps := by rw [← collapse_fst]; exact List.mem_map_of_mem hb
    obtain ⟨pa, hpa, ea⟩ := hin1 _ ha'
    obtain ⟨pb, hpb, eb⟩ := hin1 _ hb'
    rw [← ea, ← eb, hv1 pa hpa, hv1 pb hpb]
    exact hm1 pa hpa pb hpb (by rw [ea, eb]; exact le_of_lt hab)
  have m2 : ((tidy ps).map fun p => valAt (fitPairs wmean (collapse ps)) p.1).Pairwise (· ≤ ·) := by
    rw [List.pairwise_map]
    refine (tidy_sorted ps).imp_of_mem ?_
    intro a b ha hb hab
    have ha' : a.1 ∈ distinct ps := (distinct_mem ps _).mpr ⟨a, (tidy_perm ps).mem_iff.mp ha, rfl⟩
    have hb' : b.1 ∈ distinct ps := (distinct_mem ps _).mpr ⟨b, (tidy_perm ps).mem_iff.mp hb, rfl⟩
    obtain ⟨pa, hpa, ea⟩ := hin2 _ ha'
    obtain ⟨pb, hpb, eb⟩ := hin2 _ hb'
    rw [← ea, ← eb, hv2 pa hpa, hv2 pb hpb]
    exact hm2 pa hpa pb hpb (by rw [ea, eb]; exact keyLe_fcst_le hab)
  -- squared errors
  have s1 : sseFit (fitPairs wmean (tidy ps))
      = ((collapse ps).map fun p => p.2.2 * (p.2.1 - valAt (fitPairs wmean (tidy ps)) p.1) ^ 2).sum + withinSS ps := by
    rw [sseFit_eq_of_val (fitPairs_fst wmean (tidy ps)) _ hv1, ((tidy_perm ps).map _).sum_eq, sse_collapse ps hw]
  have s2 : ((tidy ps).map fun p => p.2.2 * (p.2.1 - valAt (fitPairs wmean (collapse ps)) p.1) ^ 2).sum
      = sseFit (fitPairs wmean (collapse ps)) + withinSS ps := by
    rw [((tidy_perm ps).map _).sum_eq, sse_collapse ps hw, sseFit_eq_of_val (fitPairs_fst wmean (collapse ps)) _ hv2]
  have g := fit_optimal_gap (tidy ps) hwt (fun p => valAt (fitPairs wmean (collapse ps)) p.1) m2
  have n := gap_nonneg (tidy ps) hwt (fun p => valAt (fitPairs wmean (collapse ps)) p.1)
  rw [s2, s1] at g
  exact fit_unique_of_le (collapse ps) hwc (fun p => valAt (fitPairs wmean (tidy ps)) p.1) m1 (by linarith)

/-- the Spec's group table is the (Σ w·y, Σ w) table of the collapsed pairs -/
theorem groupSum_collapse (ps : List Pair) (hw : ∀ p ∈ ps, 0 < p.2.2) :
    (distinct ps).map (groupSum ps) = (collapse ps).map wy := by
  unfold collapse
  rw [List.map_map]
  apply List.map_congr_left
  intro u hu
  have hW := grp_pos ps hw hu
  show (Sp (grp ps u), Wp (grp ps u)) = _
  simp only [Function.comp_def, wy]
  congr 1
  field_simp

/-- GROUP MAX-MIN: the fitted value of any tidied pair whose forecast is the i-th distinct forecast is the Spec's
    max-min over the forecast groups -/
theorem fit_eq_group_maxmin (ps : List Pair) (hw : ∀ p ∈ ps, 0 < p.2.2) (pv : Pair × Rat)
    (hpv : pv ∈ fitPairs wmean (tidy ps)) (i : Nat) (hi : (distinct ps)[i]? = some pv.1.1) :
    pv.2 = maxmin ((distinct ps).map (groupSum ps)) i := by
  have hv1 := valAt_mem (fit_fcstMono wmean ps) pv hpv
  have hfst : (fitPairs wmean (collapse ps)).map (fun x => x.1.1) = distinct ps := by
    have := congrArg (List.map fun p : Pair => p.1) (fitPairs_fst wmean (collapse ps))
    rw [List.map_map, collapse_fst] at this
    exact this
  rw [← hfst, List.getElem?_map, Option.map_eq_some_iff] at hi
  obtain ⟨pv', hget, hf⟩ := hi
  have hmem : pv' ∈ fitPairs wmean (collapse ps) := List.mem_of_getElem? hget
  have hv2 := collapse_fit_val ps hw pv' hmem
  have hmm := fitPairs_eq_maxmin (collapse ps) (collapse_pos ps hw)
  have h1 : ((fitPairs wmean (collapse ps)).map (·.2))[i]? = some pv'.2 := by
    rw [List.getElem?_map, hget]; rfl
  have hlt : i < (collapse ps).length := by
    have := (List.getElem?_eq_some_iff.mp hget).1
    have hl := congrArg List.length (fitPairs_fst wmean (collapse ps))
    simp only [List.length_map] at hl
    omega
  rw [hmm, List.getElem?_map, List.getElem?_range hlt] at h1
  simp only [Option.map_some, Option.some.injEq] at h1
  rw [groupSum_collapse ps hw, ← seq_gs]
  change pv.2 = maxminSeq (itemsOf (collapse ps)) i
  rw [h1, ← hv2, hf, hv1]

/-! ### E. `groups` (np.unique + interp) on a forecast-sorted sequence -/

/-- what `groups` returns on a sequence sorted by forecast: strictly increasing forecasts, each with the number of
    its pairs and the value of one of its pairs; head forecast = head forecast; every forecast is covered -/
def GroupsSpec (L : List (Rat × Rat)) (G : List (Rat × Nat × Rat)) : Prop :=
  (G.map (·.1)).Pairwise (· < ·) ∧
  (∀ e ∈ G, e.2.1 = (L.filter fun x => decide (x.1 = e.1)).length ∧ (e.1, e.2.2) ∈ L) ∧
  (G.head?.map (·.1)) = (L.head?.map (·.1)) ∧
  (∀ x ∈ L, x.1 ∈ G.map (·.1))

theorem groups_spec (L : List (Rat × Rat)) (hs : (L.map (·.1)).Pairwise (· ≤ ·)) : GroupsSpec L (groups L) := by
  induction L with
  | nil => simp [groups, GroupsSpec]
  | cons a rest ih =>
    obtain ⟨f, y⟩ := a
    rw [List.map_cons, List.pairwise_cons] at hs
    obtain ⟨hle, hs'⟩ := hs
    obtain ⟨i1, i2, i3, i4⟩ := ih hs'
    unfold groups
    split
    · rename_i heq
      rw [heq] at i4
      have hrest : rest = [] := by
        cases rest with
        | nil => rfl
        | cons x t => exact absurd (i4 x (by simp)) (by simp)
      subst hrest
      refine ⟨by simp, ?_, by simp, by simp⟩
      intro e he
      simp only [List.mem_singleton] at he
      subst he
      simp
    · rename_i f' c y' g heq
      rw [heq] at i1 i2 i3 i4
      -- the head of `rest` has forecast f'
      have hhead : ∃ y0 rest', rest = (f', y0) :: rest' := by
        cases rest with
        | nil => simp at i3
        | cons x t =>
          simp only [List.head?_cons, Option.map_some, Option.some.injEq] at i3
          exact ⟨x.2, t, by rw [i3]⟩
      obtain ⟨y0, rest', hr⟩ := hhead
      have hff : f ≤ f' := hle f' (by rw [hr]; simp)
      have hg_gt : ∀ e ∈ g, f' < e.1 := by
        intro e he
        have := (List.pairwise_cons.mp (by simpa using i1)).1 e.1 (List.mem_map_of_mem he)
        exact this
      have hrest_ge : ∀ x ∈ rest, f' ≤ x.1 := by
        intro x hx
        have := i4 x hx
        simp only [List.map_cons, List.mem_cons] at this
        rcases this with h | h
        · exact le_of_eq h.symm
        · obtain ⟨e, he, hex⟩ := List.mem_map.mp h
          rw [← hex]
          exact le_of_lt (hg_gt e he)
      split
      · rename_i hEq
        subst hEq
        refine ⟨by simpa using i1, ?_, by simp, ?_⟩
        · intro e he
          rcases List.mem_cons.mp he with rfl | hm
          · have := i2 (f, c, y') (by simp)
            simp only at this ⊢
            refine ⟨?_, List.mem_cons_of_mem _ this.2⟩
            rw [List.filter_cons]
            simp [this.1]
          · have := i2 e (by simp [hm])
            have hne : ¬ f = e.1 := ne_of_lt (hg_gt e hm)
            refine ⟨?_, List.mem_cons_of_mem _ this.2⟩
            rw [List.filter_cons]
            simp [hne, this.1]
        · intro x hx
          rcases List.mem_cons.mp hx with rfl | hm
          · simp
          · simpa using i4 x hm
      · rename_i hNe
        have hlt : f < f' := lt_of_le_of_ne hff hNe
        refine ⟨?_, ?_, by simp, ?_⟩
        · simp only [List.map_cons, List.pairwise_cons]
          refine ⟨?_, by simpa using i1⟩
          intro u hu
          rcases List.mem_cons.mp hu with rfl | hm
          · exact hlt
          · obtain ⟨e, he, rfl⟩ := List.mem_map.mp hm
            exact lt_trans hlt (hg_gt e he)
        · intro e he
          rcases List.mem_cons.mp he with rfl | hm
          · simp only
            refine ⟨?_, by simp⟩
            rw [List.filter_cons]
            have : (rest.filter fun x => decide (x.1 = f)) = [] := by
              rw [List.filter_eq_nil_iff]
              intro x hx
              have := hrest_ge x hx
              simp only [decide_eq_true_eq]
              exact fun h => absurd (h ▸ this) (not_le.mpr hlt)
            simp [this]
          · have := i2 e hm
            have hne : ¬ f = e.1 := by
              rcases List.mem_cons.mp hm with rfl | hm'
              · exact hNe
              · exact ne_of_lt (lt_trans hlt (hg_gt e hm'))
            refine ⟨?_, List.mem_cons_of_mem _ this.2⟩
            rw [List.filter_cons]
            simp [hne, this.1]
        · intro x hx
          rcases List.mem_cons.mp hx with rfl | hm
          · simp
          · have := i4 x hm
            simp only [List.map_cons, List.mem_cons] at this ⊢
            exact Or.inr this

theorem zip3_proj (G : List (Rat × Nat × Rat)) :
    List.zip (G.map (·.1)) (List.zip (G.map (·.2.1)) (G.map (·.2.2))) = G := by
  induction G with
  | nil => simp
  | cons a t ih => simp [ih]

theorem strict_sorted_ext {l1 l2 : List Rat} (h1 : l1.Pairwise (· < ·)) (h2 : l2.Pairwise (· < ·))
    (hm : ∀ a, a ∈ l1 ↔ a ∈ l2) : l1 = l2 := by
  have hp : l1.Perm l2 := (List.perm_ext_iff_of_nodup (h1.imp ne_of_lt) (h2.imp ne_of_lt)).mpr hm
  exact List.Perm.eq_of_pairwise (le := (· < ·)) (fun a b _ _ hab hba => absurd hab (not_lt.mpr (le_of_lt hba))) h1 h2 hp

/-- the reduction to distinct forecasts applied to the mean fit IS the Spec's table
    (forecast, number of pairs, max-min over the forecast groups) -/
theorem groups_fit_eq_isoFit (ps : List Pair) (hw : ∀ p ∈ ps, 0 < p.2.2) :
    groups ((fitPairs wmean (tidy ps)).map fun pv => (pv.1.1, pv.2)) = Spec.Isotonic.isoFit ps := by
  have hv1 := valAt_mem (fit_fcstMono wmean ps)
  have hLs : (((fitPairs wmean (tidy ps)).map fun pv => (pv.1.1, pv.2)).map (·.1)).Pairwise (· ≤ ·) := by
    have := congrArg (List.map fun p : Pair => p.1) (fitPairs_fst wmean (tidy ps))
    rw [List.map_map] at this
    rw [List.map_map]
    have e : ((fun x : Rat × Rat => x.1) ∘ fun pv : Pair × Rat => (pv.1.1, pv.2)) = ((fun p : Pair => p.1) ∘ fun x : Pair × Rat => x.1) := rfl
    rw [e, this, List.pairwise_map]
    exact (tidy_sorted ps).imp keyLe_fcst_le
  obtain ⟨g1, g2, _, g4⟩ := groups_spec _ hLs
  have hZmem : ∀ u, (∃ pv ∈ fitPairs wmean (tidy ps), pv.1.1 = u) ↔ u ∈ distinct ps := by
    intro u
    rw [distinct_mem]
    constructor
    · rintro ⟨pv, hpv, rfl⟩
      exact ⟨pv.1, (tidy_perm ps).mem_iff.mp (fitPairs_mem_fst _ _ hpv), rfl⟩
    · rintro ⟨p, hp, rfl⟩
      have : p ∈ (fitPairs wmean (tidy ps)).map (·.1) := by rw [fitPairs_fst]; exact (tidy_perm ps).mem_iff.mpr hp
      obtain ⟨pa, hpa, rfl⟩ := List.mem_map.mp this
      exact ⟨pa, hpa, rfl⟩
  have hfst : (groups ((fitPairs wmean (tidy ps)).map fun pv => (pv.1.1, pv.2))).map (·.1) = distinct ps := by
    apply strict_sorted_ext g1 (distinct_sorted ps)
    intro u
    rw [← hZmem]
    constructor
    · intro hu
      obtain ⟨e, he, rfl⟩ := List.mem_map.mp hu
      obtain ⟨pv, hpv, hpe⟩ := List.mem_map.mp (g2 e he).2
      exact ⟨pv, hpv, (Prod.ext_iff.mp hpe).1⟩
    · rintro ⟨pv, hpv, rfl⟩
      exact g4 (pv.1.1, pv.2) (List.mem_map.mpr ⟨pv, hpv, rfl⟩)
  have hcount : ∀ u : Rat, (((fitPairs wmean (tidy ps)).map fun pv => (pv.1.1, pv.2)).filter fun x => decide (x.1 = u)).length
      = (ps.filter fun p => decide (p.1 = u)).length := by
    intro u
    rw [List.filter_map, List.length_map]
    have h2 : ((tidy ps).filter fun p => decide (p.1 = u)).length
        = ((fitPairs wmean (tidy ps)).filter ((fun p : Pair => decide (p.1 = u)) ∘ fun x => x.1)).length := by
      conv_lhs => rw [← fitPairs_fst wmean (tidy ps)]
      rw [List.filter_map, List.length_map]
    have h3 := ((tidy_perm ps).filter fun p => decide (p.1 = u)).length_eq
    rw [← h3, h2]
    rfl
  have hG : groups ((fitPairs wmean (tidy ps)).map fun pv => (pv.1.1, pv.2))
      = (distinct ps).map fun u => (u, (ps.filter fun p => decide (p.1 = u)).length, valAt (fitPairs wmean (tidy ps)) u) := by
    rw [← hfst, List.map_map]
    conv_lhs => rw [← List.map_id (groups _)]
    apply List.map_congr_left
    intro e he
    obtain ⟨hc, hm⟩ := g2 e he
    obtain ⟨pv, hpv, hpe⟩ := List.mem_map.mp hm
    have h1 : pv.1.1 = e.1 := (Prod.ext_iff.mp hpe).1
    have h2 : pv.2 = e.2.2 := (Prod.ext_iff.mp hpe).2
    simp only [id, Function.comp_def]
    rw [← hcount, ← hc, ← h1, hv1 pv hpv, h2, h1]
  rw [hG]
  unfold Spec.Isotonic.isoFit
  simp only
  apply List.ext_getElem
  · simp
  · intro i h1 h2
    have hi : i < (distinct ps).length := by simpa using h1
    simp only [List.getElem_map, List.getElem_range]
    have hgd : (distinct ps).getD i 0 = (distinct ps)[i] := by
      rw [List.getD_eq_getElem?_getD, List.getElem?_eq_getElem hi]; rfl
    rw [hgd]
    obtain ⟨pv, hpv, hpu⟩ := (hZmem _).mpr (List.getElem_mem hi)
    have hmm := fit_eq_group_maxmin ps hw pv hpv i (by rw [List.getElem?_eq_getElem hi, hpu])
    rw [← hmm, ← hpu, hv1 pv hpv]

end SV.Model.Isotonic
