/-
  Lemmas for C15 (stretch): permutation invariance of the mean fit (through optimality + uniqueness of the
  minimiser) and the max-min characterisation of the mean fit (through the block structure + KKT prefix invariant).
-/
import ScoresVerif.Lemmas.Isotonic
import ScoresVerif.Spec.Isotonic

namespace SV.Model.Isotonic

/-! ### A. permutation invariance -/

/-- weighted squared error of a fitted sequence -/
def sseFit (Z : List (Pair × Rat)) : Rat := (Z.map fun pv => pv.1.2.2 * (pv.1.2.1 - pv.2) ^ 2).sum

/-- the fitted value attached to (the first pair with) forecast `u` -/
def valAt (Z : List (Pair × Rat)) (u : Rat) : Rat :=
  match Z.find? (fun pv => decide (pv.1.1 = u)) with
  | some pv => pv.2
  | none => 0

/-- the fitted values are a monotone function of the forecast value (symmetric form) -/
def FcstMono (Z : List (Pair × Rat)) : Prop :=
  ∀ a ∈ Z, ∀ b ∈ Z, a.1.1 ≤ b.1.1 → a.2 ≤ b.2

theorem valAt_mem {Z : List (Pair × Rat)} (hZ : FcstMono Z) : ∀ pv ∈ Z, valAt Z pv.1.1 = pv.2 := by
  intro pv hpv
  unfold valAt
  split
  · rename_i a ha
    have hmem : a ∈ Z := List.mem_of_find?_eq_some ha
    have hk : a.1.1 = pv.1.1 := by simpa using List.find?_some ha
    exact le_antisymm (hZ a hmem pv hpv (le_of_eq hk)) (hZ pv hpv a hmem (le_of_eq hk.symm))
  · rename_i hnone
    have := List.find?_eq_none.mp hnone pv hpv
    simp at this

theorem keyLe_fcst_le {a b : Pair} (h : keyLe a b = true) : a.1 ≤ b.1 := by
  rcases (keyLe_iff a b).mp h with h | ⟨h, _⟩
  · exact le_of_lt h
  · exact le_of_eq h

/-- the mean fit over a tidied list is a monotone function of the forecast -/
theorem fit_fcstMono (solve : Solver) (ps : List Pair) : FcstMono (fitPairs solve (tidy ps)) := by
  let S : Pair × Rat → Pair × Rat → Prop := fun a b => (a.1.1 ≤ b.1.1 → a.2 ≤ b.2) ∧ (b.1.1 ≤ a.1.1 → b.2 ≤ a.2)
  have hsym : Std.Symm S := ⟨fun a b h => ⟨h.2, h.1⟩⟩
  have hP : (fitPairs solve (tidy ps)).Pairwise S := by
    -- ordered: forecasts ascending, values non-decreasing, ties share a value
    have h1 : (fitPairs solve (tidy ps)).Pairwise (fun a b => a.2 ≤ b.2) := fit_monotone _ _ _
    have h2 : (fitPairs solve (tidy ps)).Pairwise (fun a b => a.1.1 ≤ b.1.1) := by
      have hs : ((fitPairs solve (tidy ps)).map (·.1)).Pairwise (fun a b : Pair => a.1 ≤ b.1) := by
        unfold fitPairs
        rw [fit_fst]
        exact (tidy_sorted ps).imp keyLe_fcst_le
      exact (List.pairwise_map (f := fun pv : Pair × Rat => pv.1) (R := fun a b : Pair => a.1 ≤ b.1)).mp hs
    have h3 : (fitPairs solve (tidy ps)).Pairwise (fun a b => a.1.1 = b.1.1 → a.2 = b.2) := by
      -- as in Props.C15.tied_forecasts_share_value
      let R : Pair × Rat → Pair × Rat → Prop := fun a b => a.1.1 ≤ b.1.1 ∧ (a.1.1 = b.1.1 → a.2 = b.2)
      have hadj : (fitPairs solve (tidy ps)).IsChain (fun a b => a.1.1 = b.1.1 → a.2 = b.2) := by
        apply fit_ties obsOf (fun p : Pair => p.1)
        refine (tidy_sorted ps).isChain.imp ?_
        intro a b hab heq
        rcases (keyLe_iff a b).mp hab with h | ⟨_, h⟩
        · exact absurd heq (ne_of_lt h)
        · exact h
      have hR : (fitPairs solve (tidy ps)).IsChain R := isChain_and h2.isChain hadj
      have : Trans R R R := ⟨fun {a b c} h1 h2 => ⟨le_trans h1.1 h2.1, fun h => by
        have hab : a.1.1 = b.1.1 := le_antisymm h1.1 (h ▸ h2.1)
        have hbc : b.1.1 = c.1.1 := hab ▸ h
        exact (h1.2 hab).trans (h2.2 hbc)⟩⟩
      exact (List.isChain_iff_pairwise.mp hR).imp (fun h => h.2)
    have h123 := (h1.and h2).and h3
    refine h123.imp ?_
    rintro a b ⟨⟨hv, hf⟩, ht⟩
    exact ⟨fun _ => hv, fun hba => le_of_eq (ht (le_antisymm hf hba)).symm⟩
  intro a ha b hb hab
  exact (List.Pairwise.forall_of_forall (fun x _ => ⟨fun _ => le_refl _, fun _ => le_refl _⟩) hP ha hb).1 hab

theorem fitPairs_fst (solve : Solver) (t : List Pair) : (fitPairs solve t).map (·.1) = t := fit_fst _ _ t

theorem fitPairs_mem_fst (solve : Solver) (t : List Pair) {pv : Pair × Rat} (h : pv ∈ fitPairs solve t) : pv.1 ∈ t := by
  have := List.mem_map_of_mem (f := fun x : Pair × Rat => x.1) h
  rwa [fitPairs_fst] at this

/-- optimality with the strong-convexity gap (same statement as `Props.C15.mean_fit_optimal_gap`) -/
theorem fit_optimal_gap (t : List Pair) (hw : ∀ p ∈ t, 0 < p.2.2) (z : Pair → Rat)
    (hz : (t.map z).Pairwise (· ≤ ·)) :
    sseFit (fitPairs wmean t) + ((fitPairs wmean t).map fun pv => pv.1.2.2 * (pv.2 - z pv.1) ^ 2).sum
      ≤ (t.map fun p => p.2.2 * (p.2.1 - z p) ^ 2).sum := by
  have := blocks_optimal (pav obsOf (fun l => wmean (itemsOf l)) t) (pav_kblk t hw) z (by rw [pav_flat]; exact hz)
  rw [pav_flat] at this
  exact this

theorem gap_nonneg (t : List Pair) (hw : ∀ p ∈ t, 0 < p.2.2) (z : Pair → Rat) :
    0 ≤ ((fitPairs wmean t).map fun pv => pv.1.2.2 * (pv.2 - z pv.1) ^ 2).sum := by
  apply List.sum_nonneg
  intro x hx
  obtain ⟨pv, hpv, rfl⟩ := List.mem_map.mp hx
  have := hw pv.1 (fitPairs_mem_fst _ _ hpv)
  positivity

/-- the squared error of a fitted sequence whose values are `g (forecast)` -/
theorem sseFit_eq_of_val {t : List Pair} {Z : List (Pair × Rat)} (hfst : Z.map (·.1) = t) (g : Rat → Rat)
    (hg : ∀ pv ∈ Z, g pv.1.1 = pv.2) : sseFit Z = (t.map fun p => p.2.2 * (p.2.1 - g p.1) ^ 2).sum := by
  rw [← hfst, List.map_map]
  unfold sseFit
  congr 1
  apply List.map_congr_left
  intro pv hpv
  simp [hg pv hpv]

/-- the fit of `ps`, read as a function of the forecast, is a monotone competitor on the tidied permuted list `qs`
    with the same squared error -/
theorem cross_competitor (ps qs : List Pair) (hperm : ps.Perm qs) (solve : Solver) :
    ((tidy qs).map fun p => valAt (fitPairs solve (tidy ps)) p.1).Pairwise (· ≤ ·) ∧
    ((tidy qs).map fun p => p.2.2 * (p.2.1 - valAt (fitPairs solve (tidy ps)) p.1) ^ 2).sum
      = sseFit (fitPairs solve (tidy ps)) := by
  have hmono := fit_fcstMono solve ps
  have hval := valAt_mem hmono
  have hpt : (tidy qs).Perm (tidy ps) := (tidy_perm qs).trans (hperm.symm.trans (tidy_perm ps).symm)
  constructor
  · rw [List.pairwise_map]
    refine (tidy_sorted qs).imp_of_mem ?_
    intro a b ha hb hab
    have ha' : a ∈ (fitPairs solve (tidy ps)).map (·.1) := by rw [fitPairs_fst]; exact hpt.mem_iff.mp ha
    have hb' : b ∈ (fitPairs solve (tidy ps)).map (·.1) := by rw [fitPairs_fst]; exact hpt.mem_iff.mp hb
    obtain ⟨pa, hpa, rfl⟩ := List.mem_map.mp ha'
    obtain ⟨pb, hpb, rfl⟩ := List.mem_map.mp hb'
    rw [hval pa hpa, hval pb hpb]
    exact hmono pa hpa pb hpb (keyLe_fcst_le hab)
  · rw [sseFit_eq_of_val (fitPairs_fst solve (tidy ps)) _ hval]
    exact (hpt.map _).sum_eq

/-- KEY: for a permuted input the fit at every pair is the value the fit of the original input attaches to that
    pair's forecast (optimality of both fits + uniqueness of the minimiser) -/
theorem fit_val_of_perm (ps qs : List Pair) (hperm : ps.Perm qs) (hw : ∀ p ∈ ps, 0 < p.2.2) :
    ∀ pv ∈ fitPairs wmean (tidy qs), valAt (fitPairs wmean (tidy ps)) pv.1.1 = pv.2 := by
  have hwq : ∀ p ∈ qs, 0 < p.2.2 := fun p hp => hw p (hperm.mem_iff.mpr hp)
  have hwtp : ∀ p ∈ tidy ps, 0 < p.2.2 := fun p hp => hw p ((tidy_perm ps).mem_iff.mp hp)
  have hwtq : ∀ p ∈ tidy qs, 0 < p.2.2 := fun p hp => hwq p ((tidy_perm qs).mem_iff.mp hp)
  obtain ⟨m1, e1⟩ := cross_competitor ps qs hperm wmean
  obtain ⟨m2, e2⟩ := cross_competitor qs ps hperm.symm wmean
  have g1 := fit_optimal_gap (tidy qs) hwtq (fun p => valAt (fitPairs wmean (tidy ps)) p.1) m1
  have g2 := fit_optimal_gap (tidy ps) hwtp (fun p => valAt (fitPairs wmean (tidy qs)) p.1) m2
  have n2 := gap_nonneg (tidy ps) hwtp (fun p => valAt (fitPairs wmean (tidy qs)) p.1)
  rw [e1] at g1
  rw [e2] at g2
  have hz0 := all_zero_of_sum_nonpos (fitPairs wmean (tidy qs))
    (fun pv => pv.1.2.2 * (pv.2 - valAt (fitPairs wmean (tidy ps)) pv.1.1) ^ 2)
    (by intro pv hpv; have := hwtq pv.1 (fitPairs_mem_fst _ _ hpv); positivity) (by linarith)
  intro pv hpv
  have h0 := hz0 pv hpv
  have hwp := hwtq pv.1 (fitPairs_mem_fst _ _ hpv)
  have : (pv.2 - valAt (fitPairs wmean (tidy ps)) pv.1.1) ^ 2 = 0 := by
    rcases mul_eq_zero.mp h0 with h1 | h1
    · exact absurd h1 (ne_of_gt hwp)
    · exact h1
  have := pow_eq_zero_iff (n := 2) (by norm_num) |>.mp this
  linarith

/-- the (forecast, observation) sequence of the tidied list is determined by the multiset of the input -/
theorem tidy_keys_perm (ps qs : List Pair) (hperm : ps.Perm qs) :
    (tidy ps).map (fun p => (p.1, p.2.1)) = (tidy qs).map (fun p => (p.1, p.2.1)) := by
  have hpt : (tidy ps).Perm (tidy qs) := (tidy_perm ps).trans (hperm.trans (tidy_perm qs).symm)
  refine List.Perm.eq_of_pairwise (le := fun a b : Rat × Rat => a.1 < b.1 ∨ (a.1 = b.1 ∧ b.2 ≤ a.2)) ?_ ?_ ?_ (hpt.map _)
  · rintro ⟨a1, a2⟩ ⟨b1, b2⟩ _ _ hab hba
    simp only at hab hba
    rcases hab with h | ⟨h, h'⟩ <;> rcases hba with k | ⟨k, k'⟩
    · exact absurd h (not_lt.mpr (le_of_lt k))
    · exact absurd h (by rw [k]; exact lt_irrefl _)
    · exact absurd k (by rw [h]; exact lt_irrefl _)
    · rw [h, le_antisymm h' k']
  · rw [List.pairwise_map]
    exact (tidy_sorted ps).imp (fun {a b} h => (keyLe_iff a b).mp h)
  · rw [List.pairwise_map]
    exact (tidy_sorted qs).imp (fun {a b} h => (keyLe_iff a b).mp h)

theorem map_triple {t : List Pair} {Z : List (Pair × Rat)} (hfst : Z.map (·.1) = t) (g : Rat → Rat)
    (hg : ∀ pv ∈ Z, g pv.1.1 = pv.2) :
    Z.map (fun pv => (pv.1.1, pv.1.2.1, pv.2)) = (t.map (fun p => (p.1, p.2.1))).map (fun k => (k.1, k.2, g k.1)) := by
  rw [← hfst, List.map_map, List.map_map]
  apply List.map_congr_left
  intro pv hpv
  simp [hg pv hpv]

/-- PERMUTATION INVARIANCE (sequence form): the (forecast, observation, fitted value) sequence produced for the
    tidied input does not depend on the order of the input triples -/
theorem fit_perm (ps qs : List Pair) (hperm : ps.Perm qs) (hw : ∀ p ∈ ps, 0 < p.2.2) :
    (fitPairs wmean (tidy ps)).map (fun pv => (pv.1.1, pv.1.2.1, pv.2))
      = (fitPairs wmean (tidy qs)).map (fun pv => (pv.1.1, pv.1.2.1, pv.2)) := by
  have h1 := valAt_mem (fit_fcstMono wmean ps)
  have h2 := fit_val_of_perm ps qs hperm hw
  rw [map_triple (fitPairs_fst wmean (tidy ps)) _ h1, map_triple (fitPairs_fst wmean (tidy qs)) _ h2,
    tidy_keys_perm ps qs hperm]

end SV.Model.Isotonic
