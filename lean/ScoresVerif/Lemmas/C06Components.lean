/-
  C06 stretch: the under- / over-forecast components of the ensemble CRPS as (weighted) integrals of the ensemble CDF.

  With F(t) = `ecdf xs t` (fraction of members ≤ t) and M members:
      1[t < y] · F(t)        = (1/M) Σ_i 1[x_i, y)(t)          (`underIntegrand_eq`)
      1[y ≤ t] · (1 − F(t))  = (1/M) Σ_i 1[y, x_i)(t)          (`overIntegrand_eq`)
  and for the weight w = 1[a,b) with its clip chaining function v = `vOpt a b` (the antiderivative of w)
      ∫ w · 1[lo,hi) = (v hi − v lo)⁺                          (`tw_stepIntegral_ind`)
  (from `weightOn_mul_ind`, `stepIntegral_ind_pos` of Lemmas/CrpsEnsC06Tw.lean).  Summing over the members gives
      ∫_{t<y} w F = mean_i (v y − v x_i)⁺ ,   ∫_{t≥y} w (1 − F) = mean_i (v x_i − v y)⁺ ,
  the under / over components of the v-transformed ensemble (`under_fin`, `over_fin`).
-/
import ScoresVerif.Lemmas.CrpsEnsC06Tw

namespace SV.Lemmas.CrpsEns
open SV SV.Spec.CrpsEns SV.Model.CrpsEns

/-! ## 1. the integrands -/

/-- 1{t < y} · F_ens(t): the ensemble CDF below the observation -/
def underIntegrand (xs : List Rat) (y t : Rat) : Rat := (if t < y then 1 else 0) * ecdf xs t
/-- 1{y ≤ t} · (1 − F_ens(t)): the ensemble survival function from the observation on -/
def overIntegrand (xs : List Rat) (y t : Rat) : Rat := heaviside y t * (1 - ecdf xs t)
/-- F_ens(t) (1 − F_ens(t)) -/
def spreadIntegrand (xs : List Rat) (t : Rat) : Rat := ecdf xs t * (1 - ecdf xs t)

/-- ∫ 1[a,b)(t) 1{t<y} F_ens(t) dt on the grid of thresholds ∪ {y} ∪ members -/
def twUnderIntegral (a b : Option Rat) (xs : List Rat) (y : Rat) : Rat :=
  stepIntegral (fun t => weightOn a b t * underIntegrand xs y t) (grid (optPts a b ++ y :: xs))
/-- ∫ 1[a,b)(t) 1{y≤t} (1 − F_ens(t)) dt on the same grid -/
def twOverIntegral (a b : Option Rat) (xs : List Rat) (y : Rat) : Rat :=
  stepIntegral (fun t => weightOn a b t * overIntegrand xs y t) (grid (optPts a b ++ y :: xs))
/-- ∫ 1[a,b)(t) F_ens(t) (1 − F_ens(t)) dt on the same grid -/
def twSpreadIntegral (a b : Option Rat) (xs : List Rat) (y : Rat) : Rat :=
  stepIntegral (fun t => weightOn a b t * spreadIntegrand xs t) (grid (optPts a b ++ y :: xs))

theorem ecdf_eq_sum (xs : List Rat) (t : Rat) :
    ecdf xs t = (xs.map fun x => if x ≤ t then (1 : Rat) else 0).sum / xs.length := by
  unfold ecdf
  rw [filter_length_eq_sum]
  simp only [decide_eq_true_eq]

theorem one_sub_ecdf_eq_sum {xs : List Rat} (hx : xs ≠ []) (t : Rat) :
    1 - ecdf xs t = (xs.map fun x => if x ≤ t then (0 : Rat) else 1).sum / xs.length := by
  have hM := length_ne_zero hx
  rw [ecdf_eq_sum]
  have e : (fun x : Rat => if x ≤ t then (0 : Rat) else 1) = fun x => 1 - (if x ≤ t then (1 : Rat) else 0) := by
    funext x; split_ifs <;> norm_num
  rw [e, sum_map_sub' (fun _ => (1 : Rat)), sum_map_const]
  field_simp

theorem underIntegrand_eq (xs : List Rat) (y t : Rat) :
    underIntegrand xs y t = (1 / (xs.length : Rat)) * (xs.map fun x => ind x y t).sum := by
  unfold underIntegrand
  rw [ecdf_eq_sum]
  have e : (fun x => ind x y t) = fun x => (if t < y then (1 : Rat) else 0) * (if x ≤ t then (1 : Rat) else 0) := by
    funext x; unfold ind
    by_cases h1 : t < y <;> by_cases h2 : x ≤ t <;> simp [h1, h2]
  rw [e, sum_map_const_mul]; ring

theorem overIntegrand_eq {xs : List Rat} (hx : xs ≠ []) (y t : Rat) :
    overIntegrand xs y t = (1 / (xs.length : Rat)) * (xs.map fun x => ind y x t).sum := by
  unfold overIntegrand
  rw [one_sub_ecdf_eq_sum hx]
  have e : (fun x => ind y x t) = fun x => heaviside y t * (if x ≤ t then (0 : Rat) else 1) := by
    funext x; unfold ind heaviside
    by_cases h1 : y ≤ t <;> by_cases h2 : x ≤ t <;> simp [h1, h2, not_lt.mpr, not_le.mp]
  rw [e, sum_map_const_mul]; ring

/-- pointwise: (F − H)² = 1{t<y} F + 1{y≤t} (1 − F) − F (1 − F) -/
theorem integrand_eq_under_add_over_sub_spread (xs : List Rat) (y t : Rat) :
    integrand xs y t = underIntegrand xs y t + overIntegrand xs y t - spreadIntegrand xs t := by
  unfold integrand underIntegrand overIntegrand spreadIntegrand heaviside
  by_cases h : y ≤ t
  · simp only [h, not_lt.mpr h, if_true, if_false]; ring
  · simp only [h, not_le.mp h, if_true, if_false]; ring

/-! ## 2. ∫ w · 1[lo,hi) = (v hi − v lo)⁺ -/

theorem pos_vOpt_sub (a b : Option Rat) (lo hi : Rat) :
    max (omin b hi - omax a lo) 0 = if vOpt a b lo < vOpt a b hi then vOpt a b hi - vOpt a b lo else 0 := by
  rcases lt_or_ge (vOpt a b lo) (vOpt a b hi) with h | h
  · rw [if_pos h]; revert h
    cases a <;> cases b <;> simp only [vOpt, omax, omin, max_def, min_def] <;> intro h <;>
      split_ifs at h ⊢ <;> linarith
  · rw [if_neg (not_lt.mpr h)]; revert h
    cases a <;> cases b <;> simp only [vOpt, omax, omin, max_def, min_def] <;> intro h <;>
      split_ifs at h ⊢ <;> linarith

theorem tw_stepIntegral_ind {g : List Rat} (hg : g.Pairwise (· < ·)) {a b : Option Rat}
    (hp : ∀ p ∈ optPts a b, p ∈ g) {lo hi : Rat} (hlo : lo ∈ g) (hhi : hi ∈ g) :
    stepIntegral (fun t => weightOn a b t * ind lo hi t) g
      = if vOpt a b lo < vOpt a b hi then vOpt a b hi - vOpt a b lo else 0 := by
  have e : (fun t => weightOn a b t * ind lo hi t) = ind (omax a lo) (omin b hi) := by
    funext t; exact weightOn_mul_ind a b _ _ t
  rw [e, stepIntegral_ind_pos hg (omax_mem hp hlo) (omin_mem hp hhi), pos_vOpt_sub]

/-! ## 3. summing over the members -/

theorem twUnderIntegral_eq (a b : Option Rat) (xs : List Rat) (y : Rat) :
    twUnderIntegral a b xs y = underSum (xs.map (vOpt a b)) (vOpt a b y) / xs.length := by
  unfold twUnderIntegral
  have e : (fun t => weightOn a b t * underIntegrand xs y t) = fun t =>
      (1 / (xs.length : Rat)) * (xs.map fun x => weightOn a b t * ind x y t).sum := by
    funext t; rw [underIntegrand_eq, sum_map_const_mul]; ring
  rw [e, stepIntegral_smul, stepIntegral_listSum (fun x t => weightOn a b t * ind x y t), underSum_map]
  have hg := pairwise_grid (optPts a b ++ y :: xs)
  have hy : y ∈ grid (optPts a b ++ y :: xs) := mem_grid.mpr (by simp)
  have hpts : ∀ p ∈ optPts a b, p ∈ grid (optPts a b ++ y :: xs) := fun p hp => mem_grid.mpr (by simp [hp])
  rw [sum_map_congr (fun x hx => tw_stepIntegral_ind hg hpts (mem_grid.mpr (by simp [hx])) hy)]
  ring

theorem twOverIntegral_eq {xs : List Rat} (hx : xs ≠ []) (a b : Option Rat) (y : Rat) :
    twOverIntegral a b xs y = overSum (xs.map (vOpt a b)) (vOpt a b y) / xs.length := by
  unfold twOverIntegral
  have e : (fun t => weightOn a b t * overIntegrand xs y t) = fun t =>
      (1 / (xs.length : Rat)) * (xs.map fun x => weightOn a b t * ind y x t).sum := by
    funext t; rw [overIntegrand_eq hx, sum_map_const_mul]; ring
  rw [e, stepIntegral_smul, stepIntegral_listSum (fun x t => weightOn a b t * ind y x t), overSum_map]
  have hg := pairwise_grid (optPts a b ++ y :: xs)
  have hy : y ∈ grid (optPts a b ++ y :: xs) := mem_grid.mpr (by simp)
  have hpts : ∀ p ∈ optPts a b, p ∈ grid (optPts a b ++ y :: xs) := fun p hp => mem_grid.mpr (by simp [hp])
  rw [sum_map_congr (fun x hx' => tw_stepIntegral_ind hg hpts hy (mem_grid.mpr (by simp [hx'])))]
  ring

/-- ∫ w (F − H)² = ∫ w 1{t<y} F + ∫ w 1{y≤t} (1 − F) − ∫ w F (1 − F) -/
theorem twIntegral_eq_under_add_over_sub_spread (a b : Option Rat) (xs : List Rat) (y : Rat) :
    twIntegral a b xs y = twUnderIntegral a b xs y + twOverIntegral a b xs y - twSpreadIntegral a b xs y := by
  unfold twIntegral twUnderIntegral twOverIntegral twSpreadIntegral
  rw [← stepIntegral_add, ← stepIntegral_sub]
  apply stepIntegral_congr
  intro t _
  rw [integrand_eq_under_add_over_sub_spread]; ring

/-! ## 4. the model on finite inputs -/

theorem map_v_fin {v : Fl → Fl} {a b : Option Rat} (hv : ∀ q, v (Fl.fin q) = Fl.fin (vOpt a b q)) (xs : List Rat) :
    (xs.map Fl.fin).map v = (xs.map (vOpt a b)).map Fl.fin := by
  simp only [List.map_map]; exact List.map_congr_left (fun q _ => hv q)

theorem tw_under_fin {v : Fl → Fl} {a b : Option Rat} (hv : ∀ q, v (Fl.fin q) = Fl.fin (vOpt a b q))
    {xs : List Rat} (hx : xs ≠ []) (m : Method) (y : Rat) :
    (tw v m (xs.map Fl.fin) (Fl.fin y)).under = Fl.fin (twUnderIntegral a b xs y) := by
  have hne : xs.map (vOpt a b) ≠ [] := by simpa using hx
  show under ((xs.map Fl.fin).map v) (v (Fl.fin y)) = _
  rw [map_v_fin hv, hv, under_fin hne, twUnderIntegral_eq, List.length_map]

theorem tw_over_fin {v : Fl → Fl} {a b : Option Rat} (hv : ∀ q, v (Fl.fin q) = Fl.fin (vOpt a b q))
    {xs : List Rat} (hx : xs ≠ []) (m : Method) (y : Rat) :
    (tw v m (xs.map Fl.fin) (Fl.fin y)).over = Fl.fin (twOverIntegral a b xs y) := by
  have hne : xs.map (vOpt a b) ≠ [] := by simpa using hx
  show over ((xs.map Fl.fin).map v) (v (Fl.fin y)) = _
  rw [map_v_fin hv, hv, over_fin hne, twOverIntegral_eq hx, List.length_map]

/-- the unweighted integrals (`none none`: weight 1, grid of y :: xs) -/
theorem weightOn_none (t : Rat) : weightOn none none t = 1 := by simp [weightOn]

theorem twUnderIntegral_none (xs : List Rat) (y : Rat) :
    twUnderIntegral none none xs y = stepIntegral (underIntegrand xs y) (grid (y :: xs)) := by
  unfold twUnderIntegral
  exact stepIntegral_congr (fun t _ => by rw [weightOn_none, one_mul])

theorem twOverIntegral_none (xs : List Rat) (y : Rat) :
    twOverIntegral none none xs y = stepIntegral (overIntegrand xs y) (grid (y :: xs)) := by
  unfold twOverIntegral
  exact stepIntegral_congr (fun t _ => by rw [weightOn_none, one_mul])

theorem twSpreadIntegral_none (xs : List Rat) (y : Rat) :
    twSpreadIntegral none none xs y = stepIntegral (spreadIntegrand xs) (grid (y :: xs)) := by
  unfold twSpreadIntegral
  exact stepIntegral_congr (fun t _ => by rw [weightOn_none, one_mul])

theorem vOpt_none_map (xs : List Rat) : xs.map (vOpt none none) = xs := by
  have : vOpt none none = id := rfl
  rw [this, List.map_id]

/-- ∫ w F (1 − F) = Σ_i Σ_j |v x_i − v x_j| / (2M²): the 'ecdf' spread term of the v-transformed ensemble -/
theorem twSpreadIntegral_eq {xs : List Rat} (hx : xs ≠ []) (a b : Option Rat) (y : Rat) :
    twSpreadIntegral a b xs y = pairAbs (xs.map (vOpt a b)) / (2 * (xs.length : Rat) ^ 2) := by
  have h := twIntegral_eq_under_add_over_sub_spread a b xs y
  rw [twUnderIntegral_eq, twOverIntegral_eq hx, ← twIntegral_eq_kernelEcdf hx] at h
  unfold kernelEcdf at h
  rw [absSum_eq_under_add_over, List.length_map, add_div] at h
  linarith

theorem tw_spread_ecdf_fin {v : Fl → Fl} {a b : Option Rat} (hv : ∀ q, v (Fl.fin q) = Fl.fin (vOpt a b q))
    {xs : List Rat} (hx : xs ≠ []) (y : Rat) :
    (tw v .ecdf (xs.map Fl.fin) (Fl.fin y)).spread = Fl.fin (twSpreadIntegral a b xs y) := by
  have hne : xs.map (vOpt a b) ≠ [] := by simpa using hx
  show spreadComp .ecdf ((xs.map Fl.fin).map v) (v (Fl.fin y)) = _
  rw [map_v_fin hv, hv, spreadComp_fin hne, spreadTerm_ecdf_fin hne, twSpreadIntegral_eq hx, List.length_map]

/-! ## 5. unweighted components and missing members -/

theorem under_fin_integral {xs : List Rat} (hx : xs ≠ []) (y : Rat) :
    under (xs.map Fl.fin) (Fl.fin y) = Fl.fin (stepIntegral (underIntegrand xs y) (grid (y :: xs))) := by
  rw [under_fin hx, ← twUnderIntegral_none, twUnderIntegral_eq, vOpt_none_map]; rfl

theorem over_fin_integral {xs : List Rat} (hx : xs ≠ []) (y : Rat) :
    over (xs.map Fl.fin) (Fl.fin y) = Fl.fin (stepIntegral (overIntegrand xs y) (grid (y :: xs))) := by
  rw [over_fin hx, ← twOverIntegral_none, twOverIntegral_eq hx, vOpt_none_map]; rfl

theorem spread_ecdf_fin_integral {xs : List Rat} (hx : xs ≠ []) (y : Rat) :
    spreadComp .ecdf (xs.map Fl.fin) (Fl.fin y) = Fl.fin (stepIntegral (spreadIntegrand xs) (grid (y :: xs))) := by
  rw [spreadComp_fin hx, spreadTerm_ecdf_fin hx, ← twSpreadIntegral_none, twSpreadIntegral_eq hx, vOpt_none_map]

theorem valid_eq_finVals {xs : List Fl} (hfin : ∀ x ∈ xs, x = Fl.nan ∨ ∃ q, x = Fl.fin q) :
    valid xs = (finVals xs).map Fl.fin := by
  induction xs with
  | nil => rfl
  | cons a l ih =>
    have ih' := ih (fun x hx => hfin x (List.mem_cons_of_mem _ hx))
    rcases hfin a (by simp) with rfl | ⟨q, rfl⟩
    · simpa [valid, finVals] using ih'
    · simp only [valid, List.filter_cons, Fl.notNan_fin, if_true, finVals, List.map_cons] at ih' ⊢; rw [ih']

theorem finVals_map_v {v : Fl → Fl} {a b : Option Rat} (hv : ∀ q, v (Fl.fin q) = Fl.fin (vOpt a b q))
    (hnan : v Fl.nan = Fl.nan) {xs : List Fl} (hfin : ∀ x ∈ xs, x = Fl.nan ∨ ∃ q, x = Fl.fin q) :
    finVals (xs.map v) = (finVals xs).map (vOpt a b) := by
  induction xs with
  | nil => rfl
  | cons z l ih =>
    have ih' := ih (fun x hx => hfin x (List.mem_cons_of_mem _ hx))
    rcases hfin z (by simp) with rfl | ⟨q, rfl⟩
    · simp only [List.map_cons, hnan, finVals]; exact ih'
    · simp only [List.map_cons, hv, finVals, ih']

theorem map_v_nanfin {v : Fl → Fl} {a b : Option Rat} (hv : ∀ q, v (Fl.fin q) = Fl.fin (vOpt a b q))
    (hnan : v Fl.nan = Fl.nan) {xs : List Fl} (hfin : ∀ x ∈ xs, x = Fl.nan ∨ ∃ q, x = Fl.fin q) :
    ∀ x ∈ xs.map v, x = Fl.nan ∨ ∃ q, x = Fl.fin q := by
  intro x hx
  obtain ⟨z, hz, rfl⟩ := List.mem_map.mp hx
  rcases hfin z hz with rfl | ⟨q, rfl⟩
  · exact Or.inl hnan
  · exact Or.inr ⟨_, hv q⟩

theorem under_valid (xs : List Fl) (y : Fl) : under xs y = under (valid xs) y :=
  congrArg Components.under (components_valid .ecdf xs y)
theorem over_valid (xs : List Fl) (y : Fl) : over xs y = over (valid xs) y :=
  congrArg Components.over (components_valid .ecdf xs y)

end SV.Lemmas.CrpsEns
