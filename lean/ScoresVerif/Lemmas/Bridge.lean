/-
  Lemmas/Bridge — the INTEGRAL BRIDGE (DESIGN §3.4): the exact, executable integral calculus of the framework
  (`SV.Spec.Quad.integral`: open 3-point Newton–Cotes / Milne rule on every cell of the sorted, clamped grid) IS the
  Lebesgue integral (Mathlib `intervalIntegral`, over ℝ) for every integrand that is a polynomial of degree ≤ 3 on
  each open cell between consecutive kinks.  This replaces the trusted fact "Milne's rule integrates cubics exactly and
  integrals are additive over adjacent cells" by kernel-checked theorems.

  Contents
   1. `integral_cubic`, `milne_exact_cubic` (+ ℚ-cast form `milne_cast_exact_cubic`), midpoint / trapezoid exact for
      affine functions, Simpson exact for cubics (same formulas as `Spec.Quad.milne / trapezoid / simpson`, cast to ℝ);
   2. `integral_indicator` : ∫_lo^hi 1[a,b) = max 0 (min hi b − max lo a);
      `integral_step_cell` : a function constant on an open cell integrates to width × value (step calculus C06/C11);
   3. `cell_integral` (one cell: integrable, ∫ = Milne), `cellSumR_eq_integral` (sorted real grid, additivity),
      `quad_integral_eq_intervalIntegral` : `((Spec.SV.Spec.Quad.integral f lo hi kinks : ℚ) : ℝ) = ∫ θ in lo..hi, F θ`
      for EVERY `F : ℝ → ℝ` that agrees with `f` on ℚ and is cubic on each open cell without a kink inside;
   4. a small calculus to discharge the "cubic on each cell" hypothesis compositionally (`AffineOn`, `CubicOn`,
      `ite` on thresholds / half-open intervals, products), and the real readings `wRectR … elemHuberR` of the
      Spec functions of Spec/ThresholdWeighted.lean with their agreement on ℚ, `WeightBridge` (a weight that is
      affine between its kinks: rect, trap, 1, and the half-infinite `wRectE` / `wTrapE`) and the generic
      `intQuantile_bridge / intExpectile_bridge / intHuber_bridge` (used by Props/C10Bridge.lean);
   5. the other two grid calculi: `midpointRule_eq_intervalIntegral` (Spec.Murphy.midpointRule, C11),
      `stepIntegral(_Left)_eq_intervalIntegral` (Spec.CrpsEns, C06), `stepFn_term_integral` (Spec.Murphy.StepFn term);
   6. C11 instances `murphy_midpoint_{quantile,expectile,huber}_eq_lebesgue` (KinkComplete grid);
   7. C06 instance `crpsIntegral_eq_lebesgue` (∫ (F_ens − 1{y ≤ ·})² over the hull of members ∪ {y}).

  This file imports Mathlib's measure theory (≈ 3 s warm load); nothing else in the framework imports it except
  Props/C10Bridge.lean, so drivers and the other property files do not pay for it.
-/
import ScoresVerif.Spec.Quad
import ScoresVerif.Spec.ThresholdWeighted
import ScoresVerif.Spec.Murphy
import ScoresVerif.Spec.CrpsEns
import ScoresVerif.Lemmas.Quad
import ScoresVerif.Lemmas.CrpsEns
import Mathlib.Analysis.SpecialFunctions.Integrals.Basic

set_option linter.unusedVariables false

namespace SV.Bridge
open MeasureTheory Set
open SV.Spec.Quad

/-! ## 1. Single-cell rules over ℝ -/

/-- Milne's rule over ℝ — the SAME formula as `SV.Spec.Quad.milne` -/
noncomputable def milneR (f : ℝ → ℝ) (p q : ℝ) : ℝ :=
  (q - p) / 3 * (2 * f (p + (q - p) / 4) - f (p + (q - p) / 2) + 2 * f (p + 3 * (q - p) / 4))

/-- the rational Milne value, cast to ℝ, is the real Milne value of any real function that agrees with `f` on ℚ -/
theorem milne_cast (f : ℚ → ℚ) (F : ℝ → ℝ) (hF : ∀ t : ℚ, F t = f t) (p q : ℚ) :
    ((milne f p q : ℚ) : ℝ) = milneR F p q := by
  have h1 := hF (p + (q - p) / 4)
  have h2 := hF (p + (q - p) / 2)
  have h3 := hF (p + 3 * (q - p) / 4)
  push_cast at h1 h2 h3
  unfold milne milneR
  push_cast
  rw [h1, h2, h3]

/-- ∫ of a cubic polynomial = difference of the antiderivative polynomial (fundamental theorem of calculus) -/
theorem integral_cubic (c0 c1 c2 c3 p q : ℝ) :
    ∫ x in p..q, (c0 + c1 * x + c2 * x ^ 2 + c3 * x ^ 3)
      = (c0 * q + c1 * q ^ 2 / 2 + c2 * q ^ 3 / 3 + c3 * q ^ 4 / 4)
        - (c0 * p + c1 * p ^ 2 / 2 + c2 * p ^ 3 / 3 + c3 * p ^ 4 / 4) := by
  have hd : ∀ x ∈ uIcc p q,
      HasDerivAt (fun x : ℝ => c0 * x + c1 * x ^ 2 / 2 + c2 * x ^ 3 / 3 + c3 * x ^ 4 / 4)
        (c0 + c1 * x + c2 * x ^ 2 + c3 * x ^ 3) x := by
    intro x _
    have h1 := (hasDerivAt_id x).const_mul c0
    have h2 := ((hasDerivAt_pow 2 x).const_mul c1).div_const 2
    have h3 := ((hasDerivAt_pow 3 x).const_mul c2).div_const 3
    have h4 := ((hasDerivAt_pow 4 x).const_mul c3).div_const 4
    have h := ((h1.add h2).add h3).add h4
    have hf : (fun x : ℝ => c0 * x + c1 * x ^ 2 / 2 + c2 * x ^ 3 / 3 + c3 * x ^ 4 / 4)
        = (((fun y => c0 * id y) + fun x => c1 * x ^ 2 / 2) + fun x => c2 * x ^ 3 / 3) + fun x => c3 * x ^ 4 / 4 := by
      funext y; simp only [Pi.add_apply, id]
    rw [hf]
    exact h.congr_deriv (by push_cast; ring)
  have hc : Continuous fun x : ℝ => c0 + c1 * x + c2 * x ^ 2 + c3 * x ^ 3 := by fun_prop
  rw [intervalIntegral.integral_eq_sub_of_hasDerivAt hd (hc.intervalIntegrable _ _)]

/-- **Milne's rule is exact for cubics**: the Lebesgue integral of a cubic over [p, q] is the Milne cell value -/
theorem milne_exact_cubic (c0 c1 c2 c3 p q : ℝ) :
    ∫ x in p..q, (c0 + c1 * x + c2 * x ^ 2 + c3 * x ^ 3)
      = milneR (fun x => c0 + c1 * x + c2 * x ^ 2 + c3 * x ^ 3) p q := by
  rw [integral_cubic]; unfold milneR; ring

/-- the same, stated with the Lean definition `SV.Spec.Quad.milne` itself (rational data, value cast to ℝ) -/
theorem milne_cast_exact_cubic (c0 c1 c2 c3 p q : ℚ) :
    ((milne (fun θ => c0 + c1 * θ + c2 * θ ^ 2 + c3 * θ ^ 3) p q : ℚ) : ℝ)
      = ∫ x in (p : ℝ)..(q : ℝ), ((c0 : ℝ) + c1 * x + c2 * x ^ 2 + c3 * x ^ 3) := by
  rw [milne_exact_cubic, milne_cast _ (fun x : ℝ => (c0 : ℝ) + c1 * x + c2 * x ^ 2 + c3 * x ^ 3)]
  intro t; push_cast; ring

/-- Simpson's rule (`Spec.Quad.simpson`) is exact for cubics -/
theorem simpson_cast_exact_cubic (c0 c1 c2 c3 p q : ℚ) :
    ((simpson (fun θ => c0 + c1 * θ + c2 * θ ^ 2 + c3 * θ ^ 3) p q : ℚ) : ℝ)
      = ∫ x in (p : ℝ)..(q : ℝ), ((c0 : ℝ) + c1 * x + c2 * x ^ 2 + c3 * x ^ 3) := by
  rw [integral_cubic]; unfold simpson; push_cast; ring

/-- the trapezoid rule (`Spec.Quad.trapezoid`) is exact for affine functions -/
theorem trapezoid_cast_exact_affine (c0 c1 p q : ℚ) :
    ((trapezoid (fun θ => c0 + c1 * θ) p q : ℚ) : ℝ) = ∫ x in (p : ℝ)..(q : ℝ), ((c0 : ℝ) + c1 * x) := by
  have := integral_cubic c0 c1 0 0 p q
  simp only [zero_mul, add_zero, zero_div] at this
  rw [this]; unfold trapezoid; push_cast; ring

/-- the midpoint rule (one cell of `Spec.Murphy.midpointRule`) is exact for affine functions -/
theorem midpoint_exact_affine (c0 c1 p q : ℝ) :
    ∫ x in p..q, (c0 + c1 * x) = (q - p) * (c0 + c1 * ((p + q) / 2)) := by
  have := integral_cubic c0 c1 0 0 p q
  simp only [zero_mul, add_zero, zero_div] at this
  rw [this]; ring

/-! ## 2. Indicators and steps -/

/-- ∫_lo^hi 1[a,b)(x) dx = length of [lo,hi] ∩ [a,b) -/
theorem integral_indicator (a b lo hi : ℝ) (h : lo ≤ hi) :
    ∫ x in lo..hi, (if a ≤ x ∧ x < b then (1 : ℝ) else 0) = max 0 (min hi b - max lo a) := by
  have e : (fun x : ℝ => if a ≤ x ∧ x < b then (1 : ℝ) else 0) = (Ico a b).indicator (fun _ => (1 : ℝ)) := by
    funext x; simp only [indicator, mem_Ico]
  rw [e, intervalIntegral.integral_of_le h, setIntegral_indicator measurableSet_Ico, setIntegral_const,
    smul_eq_mul, mul_one]
  have hm : volume (Ioc lo hi ∩ Ico a b) = volume (Ioc lo hi ∩ Ioc a b) :=
    measure_congr (ae_eq_set_inter (ae_eq_refl _) Ico_ae_eq_Ioc)
  rw [Measure.real, hm, Ioc_inter_Ioc, Real.volume_Ioc, ENNReal.toReal_ofReal', max_comm]

/-! ## 3. One cell, then a sorted grid -/

/-- `F` coincides with a cubic polynomial on the OPEN cell (p, q) -/
def CubicOn (F : ℝ → ℝ) (p q : ℝ) : Prop :=
  ∃ c0 c1 c2 c3 : ℝ, ∀ θ, p < θ → θ < q → F θ = c0 + c1 * θ + c2 * θ ^ 2 + c3 * θ ^ 3

/-- the Milne nodes lie in the open cell, so the Milne value only depends on `F` there -/
theorem milneR_congr {F P : ℝ → ℝ} {p q : ℝ} (hpq : p ≤ q) (h : ∀ θ, p < θ → θ < q → F θ = P θ) :
    milneR F p q = milneR P p q := by
  rcases hpq.lt_or_eq with hlt | rfl
  · unfold milneR
    rw [h (p + (q - p) / 4) (by linarith) (by linarith), h (p + (q - p) / 2) (by linarith) (by linarith),
        h (p + 3 * (q - p) / 4) (by linarith) (by linarith)]
  · unfold milneR; simp

/-- a function that agrees with a continuous one on the open cell is integrable on the cell, with the same integral
    (the end points have measure 0) -/
theorem cell_congr {F P : ℝ → ℝ} {p q : ℝ} (hpq : p ≤ q) (hP : Continuous P)
    (h : ∀ θ, p < θ → θ < q → F θ = P θ) :
    IntervalIntegrable F volume p q ∧ ∫ x in p..q, F x = ∫ x in p..q, P x := by
  have hae : ∀ᵐ x ∂(volume : Measure ℝ), x ∈ uIoc p q → P x = F x := by
    have hq : ({q} : Set ℝ)ᶜ ∈ ae (volume : Measure ℝ) := compl_mem_ae_iff.2 (measure_singleton q)
    filter_upwards [hq] with x hx hx'
    rw [uIoc_of_le hpq] at hx'
    exact (h x hx'.1 (lt_of_le_of_ne hx'.2 hx)).symm
  refine ⟨(hP.intervalIntegrable p q).congr_ae ((ae_restrict_iff' measurableSet_uIoc).2 hae), ?_⟩
  exact (intervalIntegral.integral_congr_ae hae).symm

/-- **one cell**: a function that is cubic on the open cell (p, q) — whatever its values at p and q — is integrable
    there and its Lebesgue integral is the Milne value -/
theorem cell_integral {F : ℝ → ℝ} {p q : ℝ} (hpq : p ≤ q) (h : CubicOn F p q) :
    IntervalIntegrable F volume p q ∧ ∫ x in p..q, F x = milneR F p q := by
  obtain ⟨c0, c1, c2, c3, hc⟩ := h
  have hP : Continuous fun x : ℝ => c0 + c1 * x + c2 * x ^ 2 + c3 * x ^ 3 := by fun_prop
  obtain ⟨hi, he⟩ := cell_congr hpq hP hc
  exact ⟨hi, by rw [he, milne_exact_cubic, milneR_congr hpq hc]⟩

/-- a step: a function constant (= v) on the open cell integrates to width × v (cell of `Spec.CrpsEns.stepIntegral`,
    `Spec.Murphy.StepFn`) -/
theorem integral_step_cell {F : ℝ → ℝ} {p q v : ℝ} (hpq : p ≤ q) (h : ∀ θ, p < θ → θ < q → F θ = v) :
    IntervalIntegrable F volume p q ∧ ∫ x in p..q, F x = (q - p) * v := by
  obtain ⟨hi, he⟩ := cell_congr hpq (continuous_const (y := v)) h
  exact ⟨hi, by rw [he, intervalIntegral.integral_const, smul_eq_mul]⟩

/-- Σ of Milne values over consecutive points of a real grid — the SAME recursion as `SV.Spec.Quad.cellSum` -/
noncomputable def cellSumR (F : ℝ → ℝ) : List ℝ → ℝ
  | p :: q :: rest => milneR F p q + cellSumR F (q :: rest)
  | _ => 0

theorem cellSum_cast (f : ℚ → ℚ) (F : ℝ → ℝ) (hF : ∀ t : ℚ, F t = f t) :
    ∀ l : List ℚ, ((cellSum f l : ℚ) : ℝ) = cellSumR F (l.map (fun t : ℚ => (t : ℝ)))
  | [] => by simp [cellSum, cellSumR]
  | [_] => by simp [cellSum, cellSumR]
  | p :: q :: rest => by
    have ih := cellSum_cast f F hF (q :: rest)
    simp only [List.map_cons] at ih
    simp only [cellSum, cellSumR, List.map_cons, Rat.cast_add, milne_cast f F hF, ih]

/-- **additivity over a sorted grid**: if `F` is cubic on every open cell that contains no grid point, then `F` is
    integrable on [a, z] and ∫_a^z F = Σ over the cells of the Milne values -/
theorem cellSumR_eq_integral (F : ℝ → ℝ) (z : ℝ) : ∀ (l : List ℝ) (a : ℝ),
    (a :: (l ++ [z])).Pairwise (· ≤ ·) →
    (∀ p q, a ≤ p → p ≤ q → q ≤ z → (∀ t ∈ a :: (l ++ [z]), t ≤ p ∨ q ≤ t) → CubicOn F p q) →
    IntervalIntegrable F volume a z ∧ ∫ x in a..z, F x = cellSumR F (a :: (l ++ [z])) := by
  intro l
  induction l with
  | nil =>
    intro a hs h
    have haz : a ≤ z := (List.pairwise_cons.mp hs).1 z (by simp)
    have hc : CubicOn F a z := by
      apply h a z le_rfl haz le_rfl
      intro t ht
      simp only [List.nil_append, List.mem_cons, List.not_mem_nil, or_false] at ht
      rcases ht with rfl | rfl
      · exact Or.inl le_rfl
      · exact Or.inr le_rfl
    obtain ⟨hi, he⟩ := cell_integral haz hc
    exact ⟨hi, by simp only [List.nil_append, cellSumR, add_zero, he]⟩
  | cons b l ih =>
    intro a hs h
    have hs' := List.pairwise_cons.mp hs
    have hab : a ≤ b := hs'.1 b (by simp)
    have hbz : b ≤ z := (List.pairwise_cons.mp hs'.2).1 z (by simp)
    have hc : CubicOn F a b := by
      apply h a b le_rfl hab hbz
      intro t ht
      simp only [List.cons_append, List.mem_cons] at ht
      rcases ht with rfl | ht
      · exact Or.inl le_rfl
      · right
        rcases ht with rfl | ht
        · exact le_rfl
        · exact (List.pairwise_cons.mp hs'.2).1 t ht
    obtain ⟨hi1, he1⟩ := cell_integral hab hc
    obtain ⟨hi2, he2⟩ := ih b hs'.2 (by
      intro p q hbp hpq hqz hno
      apply h p q (le_trans hab hbp) hpq hqz
      intro t ht
      simp only [List.cons_append, List.mem_cons] at ht
      rcases ht with rfl | ht
      · exact Or.inl (le_trans hab hbp)
      · exact hno t (by simpa using ht))
    refine ⟨hi1.trans hi2, ?_⟩
    rw [← intervalIntegral.integral_add_adjacent_intervals hi1 hi2, he1, he2]
    simp only [List.cons_append, cellSumR]

theorem clamp_cast (lo hi t : ℚ) : ((clamp lo hi t : ℚ) : ℝ) = max (lo : ℝ) (min (hi : ℝ) (t : ℝ)) := by
  unfold clamp; rw [rmax_eq_max, rmin_eq_min, Rat.cast_max, Rat.cast_min]

/-- **the bridge**: `SV.Spec.Quad.integral f lo hi kinks`, cast to ℝ, IS the Lebesgue integral ∫_lo^hi F for every
    real function `F` that agrees with `f` on the rationals and is a cubic polynomial on every open cell
    (p, q) ⊆ [lo, hi] that contains none of the `kinks` (values AT the kinks are irrelevant).  Such an `F` is determined
    by `f` up to its values at the kinks (a cubic is determined by its values at rational points), so nothing is chosen. -/
theorem quad_integral_eq_intervalIntegral (f : ℚ → ℚ) (F : ℝ → ℝ) (hF : ∀ t : ℚ, F t = f t)
    (lo hi : ℚ) (kinks : List ℚ) (hlh : lo ≤ hi)
    (hcell : ∀ p q : ℝ, (lo : ℝ) ≤ p → p ≤ q → q ≤ hi → (∀ k ∈ kinks, (k : ℝ) ≤ p ∨ q ≤ k) → CubicOn F p q) :
    IntervalIntegrable F volume lo hi ∧ ((SV.Spec.Quad.integral f lo hi kinks : ℚ) : ℝ) = ∫ θ in (lo : ℝ)..(hi : ℝ), F θ := by
  have hlh' : (lo : ℝ) ≤ hi := by exact_mod_cast hlh
  have hmem : ∀ t ∈ sortRat (kinks.map (clamp lo hi)), lo ≤ t ∧ t ≤ hi := by
    intro t ht
    rw [mem_sortRat, List.mem_map] at ht
    obtain ⟨k, _, rfl⟩ := ht
    exact clamp_mem lo hi k hlh
  have hsorted : (lo :: (sortRat (kinks.map (clamp lo hi)) ++ [hi])).Pairwise (· ≤ ·) := by
    rw [List.pairwise_cons]
    constructor
    · intro t ht
      rw [List.mem_append] at ht
      rcases ht with ht | ht
      · exact (hmem t ht).1
      · simp only [List.mem_cons, List.not_mem_nil, or_false] at ht; rw [ht]; exact hlh
    · rw [List.pairwise_append]
      refine ⟨sortRat_pairwise _, List.pairwise_singleton _ _, ?_⟩
      intro t ht u hu
      simp only [List.mem_cons, List.not_mem_nil, or_false] at hu
      rw [hu]; exact (hmem t ht).2
  have key := cellSumR_eq_integral F (hi : ℝ) ((sortRat (kinks.map (clamp lo hi))).map (fun t : ℚ => (t : ℝ))) (lo : ℝ)
    (by
      have := hsorted.map (fun t : ℚ => (t : ℝ)) (fun a b hab => (by exact_mod_cast hab : (a : ℝ) ≤ b))
      simpa using this)
    (by
      intro p q hlp hpq hqh hno
      apply hcell p q hlp hpq hqh
      intro k hk
      have hc : ((clamp lo hi k : ℚ) : ℝ) ∈
          (lo : ℝ) :: ((sortRat (kinks.map (clamp lo hi))).map (fun t : ℚ => (t : ℝ)) ++ [(hi : ℝ)]) := by
        apply List.mem_cons_of_mem
        apply List.mem_append_left
        apply List.mem_map_of_mem
        rw [mem_sortRat]
        exact List.mem_map_of_mem hk
      have := hno _ hc
      rw [clamp_cast] at this
      simp only [max_def, min_def] at this
      split_ifs at this <;> rcases this with h | h <;>
        first
          | (left; linarith)
          | (right; linarith))
  refine ⟨key.1, ?_⟩
  rw [key.2]
  unfold SV.Spec.Quad.integral grid
  rw [cellSum_cast f F hF]
  simp

/-! ## 4. Discharging "cubic on each open cell" compositionally -/

/-- `F` coincides with an affine function on the open cell (p, q) -/
def AffineOn (F : ℝ → ℝ) (p q : ℝ) : Prop := ∃ c0 c1 : ℝ, ∀ θ, p < θ → θ < q → F θ = c0 + c1 * θ

theorem AffineOn.of_eq {F : ℝ → ℝ} (c0 c1 p q : ℝ) (h : ∀ θ, F θ = c0 + c1 * θ) : AffineOn F p q :=
  ⟨c0, c1, fun θ _ _ => h θ⟩

theorem affineOn_const (v p q : ℝ) : AffineOn (fun _ => v) p q := ⟨v, 0, fun θ _ _ => by ring⟩

theorem AffineOn.congr {F G : ℝ → ℝ} {p q : ℝ} (h : AffineOn F p q) (he : ∀ θ, p < θ → θ < q → G θ = F θ) :
    AffineOn G p q := by
  obtain ⟨c0, c1, hc⟩ := h
  exact ⟨c0, c1, fun θ h1 h2 => by rw [he θ h1 h2, hc θ h1 h2]⟩

theorem AffineOn.const_mul {F : ℝ → ℝ} {p q : ℝ} (c : ℝ) (h : AffineOn F p q) : AffineOn (fun θ => c * F θ) p q := by
  obtain ⟨c0, c1, hc⟩ := h
  exact ⟨c * c0, c * c1, fun θ h1 h2 => by beta_reduce; rw [hc θ h1 h2]; ring⟩

theorem AffineOn.cubicOn {F : ℝ → ℝ} {p q : ℝ} (h : AffineOn F p q) : CubicOn F p q := by
  obtain ⟨c0, c1, hc⟩ := h
  exact ⟨c0, c1, 0, 0, fun θ h1 h2 => by rw [hc θ h1 h2]; ring⟩

/-- affine × affine is a polynomial of degree ≤ 2 ≤ 3 -/
theorem AffineOn.mul {F G : ℝ → ℝ} {p q : ℝ} (hF : AffineOn F p q) (hG : AffineOn G p q) :
    CubicOn (fun θ => F θ * G θ) p q := by
  obtain ⟨a0, a1, ha⟩ := hF
  obtain ⟨b0, b1, hb⟩ := hG
  exact ⟨a0 * b0, a0 * b1 + a1 * b0, a1 * b1, 0, fun θ h1 h2 => by beta_reduce; rw [ha θ h1 h2, hb θ h1 h2]; ring⟩

theorem CubicOn.const_mul {F : ℝ → ℝ} {p q : ℝ} (c : ℝ) (h : CubicOn F p q) : CubicOn (fun θ => c * F θ) p q := by
  obtain ⟨c0, c1, c2, c3, hc⟩ := h
  exact ⟨c * c0, c * c1, c * c2, c * c3, fun θ h1 h2 => by beta_reduce; rw [hc θ h1 h2]; ring⟩

theorem CubicOn.congr {F G : ℝ → ℝ} {p q : ℝ} (h : CubicOn F p q) (he : ∀ θ, p < θ → θ < q → G θ = F θ) :
    CubicOn G p q := by
  obtain ⟨c0, c1, c2, c3, hc⟩ := h
  exact ⟨c0, c1, c2, c3, fun θ h1 h2 => by rw [he θ h1 h2, hc θ h1 h2]⟩

/-- a threshold `k` that is not strictly inside the cell decides `θ < k` uniformly on the cell -/
theorem AffineOn.ite_lt {G H : ℝ → ℝ} {k p q : ℝ} (hk : k ≤ p ∨ q ≤ k) (hG : AffineOn G p q) (hH : AffineOn H p q) :
    AffineOn (fun θ => if θ < k then G θ else H θ) p q := by
  rcases hk with hk | hk
  · exact hH.congr fun θ h1 h2 => if_neg (by linarith)
  · exact hG.congr fun θ h1 h2 => if_pos (by linarith)

theorem CubicOn.ite_lt {G H : ℝ → ℝ} {k p q : ℝ} (hk : k ≤ p ∨ q ≤ k) (hG : CubicOn G p q) (hH : CubicOn H p q) :
    CubicOn (fun θ => if θ < k then G θ else H θ) p q := by
  rcases hk with hk | hk
  · exact hH.congr fun θ h1 h2 => if_neg (by linarith)
  · exact hG.congr fun θ h1 h2 => if_pos (by linarith)

/-- a half-open interval [l, u) whose end points are not strictly inside the cell contains all or none of the cell -/
theorem AffineOn.ite_Ico {G H : ℝ → ℝ} {l u p q : ℝ} (hl : l ≤ p ∨ q ≤ l) (hu : u ≤ p ∨ q ≤ u)
    (hG : AffineOn G p q) (hH : AffineOn H p q) :
    AffineOn (fun θ => if l ≤ θ ∧ θ < u then G θ else H θ) p q := by
  rcases hl with hl | hl
  · rcases hu with hu | hu
    · exact hH.congr fun θ h1 h2 => if_neg (by rintro ⟨_, h⟩; linarith)
    · exact hG.congr fun θ h1 h2 => if_pos ⟨by linarith, by linarith⟩
  · exact hH.congr fun θ h1 h2 => if_neg (by rintro ⟨h, _⟩; linarith)

theorem CubicOn.ite_Ico {G H : ℝ → ℝ} {l u p q : ℝ} (hl : l ≤ p ∨ q ≤ l) (hu : u ≤ p ∨ q ≤ u)
    (hG : CubicOn G p q) (hH : CubicOn H p q) :
    CubicOn (fun θ => if l ≤ θ ∧ θ < u then G θ else H θ) p q := by
  rcases hl with hl | hl
  · rcases hu with hu | hu
    · exact hH.congr fun θ h1 h2 => if_neg (by rintro ⟨_, h⟩; linarith)
    · exact hG.congr fun θ h1 h2 => if_pos ⟨by linarith, by linarith⟩
  · exact hH.congr fun θ h1 h2 => if_neg (by rintro ⟨h, _⟩; linarith)

/-- |y − θ| is affine on a cell that does not contain y -/
theorem affineOn_abs_sub {y p q : ℝ} (hy : y ≤ p ∨ q ≤ y) : AffineOn (fun θ => |y - θ|) p q := by
  rcases hy with hy | hy
  · exact ⟨-y, 1, fun θ h1 h2 => by beta_reduce; rw [abs_of_nonpos (by linarith)]; ring⟩
  · exact ⟨y, -1, fun θ h1 h2 => by beta_reduce; rw [abs_of_nonneg (by linarith)]; ring⟩

/-- min(θ − y, h) is affine on a cell that does not contain y + h -/
theorem affineOn_min_sub_left {y h p q : ℝ} (hk : y + h ≤ p ∨ q ≤ y + h) : AffineOn (fun θ => min (θ - y) h) p q := by
  rcases hk with hk | hk
  · exact ⟨h, 0, fun θ h1 h2 => by beta_reduce; rw [min_eq_right (by linarith)]; ring⟩
  · exact ⟨-y, 1, fun θ h1 h2 => by beta_reduce; rw [min_eq_left (by linarith)]; ring⟩

/-- min(y − θ, h) is affine on a cell that does not contain y − h -/
theorem affineOn_min_sub_right {y h p q : ℝ} (hk : y - h ≤ p ∨ q ≤ y - h) : AffineOn (fun θ => min (y - θ) h) p q := by
  rcases hk with hk | hk
  · exact ⟨y, -1, fun θ h1 h2 => by beta_reduce; rw [min_eq_left (by linarith)]; ring⟩
  · exact ⟨h, 0, fun θ h1 h2 => by beta_reduce; rw [min_eq_right (by linarith)]; ring⟩

/-! ### the real readings of the Spec functions of Spec/ThresholdWeighted.lean (same formulas, over ℝ) -/

open SV.Spec.TW

noncomputable def wRectR (a b θ : ℝ) : ℝ := if a ≤ θ ∧ θ < b then 1 else 0

noncomputable def wTrapR (a b c d θ : ℝ) : ℝ :=
  if θ < a then 0 else if θ < b then (θ - a) / (b - a) else if θ < c then 1
  else if θ < d then (d - θ) / (d - c) else 0

noncomputable def elemQuantileR (α x y θ : ℝ) : ℝ :=
  if y ≤ θ ∧ θ < x then 1 - α else if x ≤ θ ∧ θ < y then α else 0

noncomputable def elemExpectileR (α x y θ : ℝ) : ℝ :=
  if y ≤ θ ∧ θ < x then (1 - α) * |y - θ| else if x ≤ θ ∧ θ < y then α * |y - θ| else 0

noncomputable def elemHuberR (α h x y θ : ℝ) : ℝ :=
  if y ≤ θ ∧ θ < x then (1 - α) * min (θ - y) h else if x ≤ θ ∧ θ < y then α * min (y - θ) h else 0

theorem rabs_cast (q : ℚ) : ((SV.Spec.TW.rabs q : ℚ) : ℝ) = |(q : ℝ)| := by
  unfold SV.Spec.TW.rabs
  split_ifs with h
  · rw [abs_of_neg (by exact_mod_cast h)]; push_cast; ring
  · rw [abs_of_nonneg (by exact_mod_cast not_lt.mp h)]

theorem rmin_cast (x y : ℚ) : ((rmin x y : ℚ) : ℝ) = min (x : ℝ) (y : ℝ) := by rw [rmin_eq_min, Rat.cast_min]
theorem rmax_cast (x y : ℚ) : ((rmax x y : ℚ) : ℝ) = max (x : ℝ) (y : ℝ) := by rw [rmax_eq_max, Rat.cast_max]

/-- on rational arguments the real readings ARE the Spec functions -/
theorem wRectR_cast (a b t : ℚ) : wRectR a b t = ((wRect a b t : ℚ) : ℝ) := by
  unfold wRectR wRect
  simp only [Rat.cast_le, Rat.cast_lt]
  split_ifs <;> simp

theorem wTrapR_cast (a b c d t : ℚ) : wTrapR a b c d t = ((wTrap a b c d t : ℚ) : ℝ) := by
  unfold wTrapR wTrap
  simp only [Rat.cast_lt]
  split_ifs <;> push_cast <;> rfl

theorem elemQuantileR_cast (α x y t : ℚ) : elemQuantileR α x y t = ((elemQuantile α x y t : ℚ) : ℝ) := by
  unfold elemQuantileR elemQuantile
  simp only [Rat.cast_le, Rat.cast_lt]
  split_ifs <;> push_cast <;> rfl

theorem elemExpectileR_cast (α x y t : ℚ) : elemExpectileR α x y t = ((elemExpectile α x y t : ℚ) : ℝ) := by
  unfold elemExpectileR elemExpectile
  simp only [Rat.cast_le, Rat.cast_lt]
  split_ifs <;> simp only [Rat.cast_mul, Rat.cast_sub, Rat.cast_one, Rat.cast_zero, rabs_cast, Rat.cast_sub]

theorem elemHuberR_cast (α h x y t : ℚ) : elemHuberR α h x y t = ((elemHuber α h x y t : ℚ) : ℝ) := by
  unfold elemHuberR elemHuber
  simp only [Rat.cast_le, Rat.cast_lt]
  split_ifs <;> simp only [Rat.cast_mul, Rat.cast_sub, Rat.cast_one, Rat.cast_zero, rmin_cast]

/-! ### they are affine on every cell without a kink inside -/

theorem wRectR_affineOn {a b p q : ℝ} (ha : a ≤ p ∨ q ≤ a) (hb : b ≤ p ∨ q ≤ b) : AffineOn (wRectR a b) p q :=
  AffineOn.ite_Ico ha hb (affineOn_const 1 p q) (affineOn_const 0 p q)

theorem wTrapR_affineOn {a b c d p q : ℝ} (ha : a ≤ p ∨ q ≤ a) (hb : b ≤ p ∨ q ≤ b) (hc : c ≤ p ∨ q ≤ c)
    (hd : d ≤ p ∨ q ≤ d) : AffineOn (wTrapR a b c d) p q :=
  AffineOn.ite_lt ha (affineOn_const 0 p q)
    (AffineOn.ite_lt hb (AffineOn.of_eq (-a / (b - a)) (1 / (b - a)) p q (fun θ => by ring))
      (AffineOn.ite_lt hc (affineOn_const 1 p q)
        (AffineOn.ite_lt hd (AffineOn.of_eq (d / (d - c)) (-1 / (d - c)) p q (fun θ => by ring))
          (affineOn_const 0 p q))))

theorem elemQuantileR_affineOn (α : ℝ) {x y p q : ℝ} (hx : x ≤ p ∨ q ≤ x) (hy : y ≤ p ∨ q ≤ y) :
    AffineOn (elemQuantileR α x y) p q :=
  AffineOn.ite_Ico hy hx (affineOn_const _ p q) (AffineOn.ite_Ico hx hy (affineOn_const _ p q) (affineOn_const 0 p q))

theorem elemExpectileR_affineOn (α : ℝ) {x y p q : ℝ} (hx : x ≤ p ∨ q ≤ x) (hy : y ≤ p ∨ q ≤ y) :
    AffineOn (elemExpectileR α x y) p q :=
  AffineOn.ite_Ico hy hx ((affineOn_abs_sub hy).const_mul _)
    (AffineOn.ite_Ico hx hy ((affineOn_abs_sub hy).const_mul _) (affineOn_const 0 p q))

theorem elemHuberR_affineOn (α h : ℝ) {x y p q : ℝ} (hx : x ≤ p ∨ q ≤ x) (hy : y ≤ p ∨ q ≤ y)
    (hm : y - h ≤ p ∨ q ≤ y - h) (hp : y + h ≤ p ∨ q ≤ y + h) :
    AffineOn (elemHuberR α h x y) p q :=
  AffineOn.ite_Ico hy hx ((affineOn_min_sub_left hp).const_mul _)
    (AffineOn.ite_Ico hx hy ((affineOn_min_sub_right hm).const_mul _) (affineOn_const 0 p q))

/-- the end points min(x,y), max(x,y) of the integration range are never strictly inside a cell of the range -/
theorem no_xy_inside {x y p q : ℝ} (hlo : min x y ≤ p) (hhi : q ≤ max x y) (hpq : p ≤ q) :
    (x ≤ p ∨ q ≤ x) ∧ (y ≤ p ∨ q ≤ y) := by
  rcases le_total x y with h | h
  · rw [min_eq_left h] at hlo; rw [max_eq_right h] at hhi; exact ⟨Or.inl hlo, Or.inr hhi⟩
  · rw [min_eq_right h] at hlo; rw [max_eq_left h] at hhi; exact ⟨Or.inr hhi, Or.inl hlo⟩

/-! ### generic C10 bridge: any weight that is affine between its kinks -/

/-- `W : ℝ → ℝ` is the real reading of the rational weight `w`, affine on every cell avoiding the kinks `ks` -/
structure WeightBridge (w : ℚ → ℚ) (W : ℝ → ℝ) (ks : List ℚ) : Prop where
  cast : ∀ t : ℚ, W t = ((w t : ℚ) : ℝ)
  affine : ∀ p q : ℝ, (∀ k ∈ ks, (k : ℝ) ≤ p ∨ q ≤ k) → AffineOn W p q

theorem weightBridge_rect (a b : ℚ) : WeightBridge (wRect a b) (wRectR a b) [a, b] where
  cast := wRectR_cast a b
  affine p q h := wRectR_affineOn (h a (by simp)) (h b (by simp))

theorem weightBridge_trap (a b c d : ℚ) : WeightBridge (wTrap a b c d) (wTrapR a b c d) [a, b, c, d] where
  cast := wTrapR_cast a b c d
  affine p q h := wTrapR_affineOn (h a (by simp)) (h b (by simp)) (h c (by simp)) (h d (by simp))

theorem weightBridge_one : WeightBridge wOne (fun _ => 1) [] where
  cast t := by simp [wOne]
  affine p q _ := affineOn_const 1 p q

section generic
variable {w : ℚ → ℚ} {W : ℝ → ℝ} {ks : List ℚ}

theorem intQuantile_bridge (hw : WeightBridge w W ks) (α x y : ℚ) :
    ((intQuantile w ks α x y : ℚ) : ℝ)
      = ∫ θ in (min (x : ℝ) y)..(max (x : ℝ) y), W θ * elemQuantileR α x y θ := by
  have h := (quad_integral_eq_intervalIntegral (fun θ => w θ * elemQuantile α x y θ)
    (fun θ => W θ * elemQuantileR α x y θ) (fun t => by rw [hw.cast, elemQuantileR_cast]; push_cast; rfl)
    (lo x y) (hi x y) ks (by unfold lo hi; rw [rmin_eq_min, rmax_eq_max]; exact min_le_max)
    (fun p q hlo hpq hhi hno => by
      unfold lo at hlo; unfold hi at hhi; rw [rmin_cast] at hlo; rw [rmax_cast] at hhi
      obtain ⟨hx, hy⟩ := no_xy_inside hlo hhi hpq
      exact (hw.affine p q hno).mul (elemQuantileR_affineOn α hx hy))).2
  unfold lo hi at h; rw [rmin_cast, rmax_cast] at h
  exact h

theorem intExpectile_bridge (hw : WeightBridge w W ks) (α x y : ℚ) :
    ((intExpectile w ks α x y : ℚ) : ℝ)
      = ∫ θ in (min (x : ℝ) y)..(max (x : ℝ) y), W θ * elemExpectileR α x y θ := by
  have h := (quad_integral_eq_intervalIntegral (fun θ => w θ * elemExpectile α x y θ)
    (fun θ => W θ * elemExpectileR α x y θ) (fun t => by rw [hw.cast, elemExpectileR_cast]; push_cast; rfl)
    (lo x y) (hi x y) ks (by unfold lo hi; rw [rmin_eq_min, rmax_eq_max]; exact min_le_max)
    (fun p q hlo hpq hhi hno => by
      unfold lo at hlo; unfold hi at hhi; rw [rmin_cast] at hlo; rw [rmax_cast] at hhi
      obtain ⟨hx, hy⟩ := no_xy_inside hlo hhi hpq
      exact (hw.affine p q hno).mul (elemExpectileR_affineOn α hx hy))).2
  unfold lo hi at h; rw [rmin_cast, rmax_cast] at h
  exact h

theorem intHuber_bridge (hw : WeightBridge w W ks) (α h x y : ℚ) :
    ((intHuber w ks α h x y : ℚ) : ℝ)
      = ∫ θ in (min (x : ℝ) y)..(max (x : ℝ) y), W θ * elemHuberR α h x y θ := by
  have h := (quad_integral_eq_intervalIntegral (fun θ => w θ * elemHuber α h x y θ)
    (fun θ => W θ * elemHuberR α h x y θ) (fun t => by rw [hw.cast, elemHuberR_cast]; push_cast; rfl)
    (lo x y) (hi x y) (ks ++ [y - h, y + h]) (by unfold lo hi; rw [rmin_eq_min, rmax_eq_max]; exact min_le_max)
    (fun p q hlo hpq hhi hno => by
      unfold lo at hlo; unfold hi at hhi; rw [rmin_cast] at hlo; rw [rmax_cast] at hhi
      obtain ⟨hx, hy⟩ := no_xy_inside hlo hhi hpq
      have hm := hno (y - h) (by simp)
      have hp := hno (y + h) (by simp)
      push_cast at hm hp
      exact (hw.affine p q (fun k hk => hno k (List.mem_append_left _ hk))).mul
        (elemHuberR_affineOn α h hx hy hm hp))).2
  unfold lo hi at h; rw [rmin_cast, rmax_cast] at h
  exact h

end generic

/-! ## 5. The other two grid calculi: midpoint rule (Spec.Murphy, C11) and step integrals (Spec.CrpsEns, C06) -/

open SV.Spec.Murphy (lastOr)

/-- generic chain lemma: a grid sum that adds `rule a b` per consecutive pair is ∫ F as soon as every cell value is
    the integral of `F` over that cell -/
theorem chain_cells (F : ℝ → ℝ) (rule : ℚ → ℚ → ℚ) (sum : List ℚ → ℚ) (h1 : ∀ p, sum [p] = 0)
    (hs : ∀ p q rest, sum (p :: q :: rest) = rule p q + sum (q :: rest)) : ∀ (g : List ℚ) (p : ℚ),
    List.IsChain (fun a b : ℚ => IntervalIntegrable F volume a b ∧ ∫ x in (a : ℝ)..(b : ℝ), F x = ((rule a b : ℚ) : ℝ))
      (p :: g) →
    IntervalIntegrable F volume p (lastOr p g) ∧ ((sum (p :: g) : ℚ) : ℝ) = ∫ x in (p : ℝ)..(lastOr p g : ℝ), F x := by
  intro g
  induction g with
  | nil => intro p _; simp [lastOr, h1]
  | cons b g ih =>
    intro p hc
    obtain ⟨⟨hi1, he1⟩, hc'⟩ := List.isChain_cons_cons.mp hc
    obtain ⟨hi2, he2⟩ := ih b hc'
    refine ⟨hi1.trans hi2, ?_⟩
    rw [hs, Rat.cast_add, he2, ← he1]
    exact intervalIntegral.integral_add_adjacent_intervals hi1 hi2

/-- **midpoint rule on a grid** (`Spec.Murphy.midpointRule`, C11): if `F` agrees with `S` on ℚ and is affine on every
    open cell of the increasing grid, the midpoint-rule value is the Lebesgue integral from the first to the last grid point -/
theorem midpointRule_eq_intervalIntegral (S : ℚ → ℚ) (F : ℝ → ℝ) (hF : ∀ t : ℚ, F t = S t) (g : List ℚ) (p : ℚ)
    (hc : List.IsChain (fun a b : ℚ => a ≤ b ∧ AffineOn F a b) (p :: g)) :
    IntervalIntegrable F volume p (lastOr p g) ∧
      ((Spec.Murphy.midpointRule S (p :: g) : ℚ) : ℝ) = ∫ θ in (p : ℝ)..(lastOr p g : ℝ), F θ := by
  apply chain_cells F (fun a b => (b - a) * S ((a + b) / 2)) (Spec.Murphy.midpointRule S)
    (fun p => by simp [Spec.Murphy.midpointRule]) (fun p q rest => by simp [Spec.Murphy.midpointRule])
  refine hc.imp ?_
  rintro a b ⟨hab, c0, c1, hc⟩
  have hab' : (a : ℝ) ≤ b := by exact_mod_cast hab
  obtain ⟨hi, he⟩ := cell_congr hab' (by fun_prop : Continuous fun x : ℝ => c0 + c1 * x) hc
  refine ⟨hi, ?_⟩
  rw [he, midpoint_exact_affine]
  have hm := hF ((a + b) / 2)
  push_cast at hm ⊢
  rw [← hm]
  rcases hab'.lt_or_eq with hlt | heq
  · rw [hc _ (by linarith) (by linarith)]
  · rw [heq]; ring

/-- **right-continuous step integral** (`Spec.CrpsEns.stepIntegral`, C06): if `F` agrees with `f` on ℚ and on every open
    cell (p, q) of the increasing grid is constant, equal to its value at the left end point p -/
theorem stepIntegral_eq_intervalIntegral (f : ℚ → ℚ) (F : ℝ → ℝ) (hF : ∀ t : ℚ, F t = f t) (g : List ℚ) (p : ℚ)
    (hc : List.IsChain (fun a b : ℚ => a ≤ b ∧ ∀ θ : ℝ, (a : ℝ) < θ → θ < b → F θ = F a) (p :: g)) :
    IntervalIntegrable F volume p (lastOr p g) ∧
      ((Spec.CrpsEns.stepIntegral f (p :: g) : ℚ) : ℝ) = ∫ θ in (p : ℝ)..(lastOr p g : ℝ), F θ := by
  apply chain_cells F (fun a b => (b - a) * f a) (Spec.CrpsEns.stepIntegral f)
    (fun p => by simp [Spec.CrpsEns.stepIntegral]) (fun p q rest => by simp [Spec.CrpsEns.stepIntegral])
  refine hc.imp ?_
  rintro a b ⟨hab, hc⟩
  obtain ⟨hi, he⟩ := integral_step_cell (by exact_mod_cast hab : (a : ℝ) ≤ b) hc
  exact ⟨hi, by rw [he, hF]; push_cast; ring⟩

/-- **left-continuous step integral** (`Spec.CrpsEns.stepIntegralLeft`): constant = value at the right end point -/
theorem stepIntegralLeft_eq_intervalIntegral (f : ℚ → ℚ) (F : ℝ → ℝ) (hF : ∀ t : ℚ, F t = f t) (g : List ℚ) (p : ℚ)
    (hc : List.IsChain (fun a b : ℚ => a ≤ b ∧ ∀ θ : ℝ, (a : ℝ) < θ → θ < b → F θ = F b) (p :: g)) :
    IntervalIntegrable F volume p (lastOr p g) ∧
      ((Spec.CrpsEns.stepIntegralLeft f (p :: g) : ℚ) : ℝ) = ∫ θ in (p : ℝ)..(lastOr p g : ℝ), F θ := by
  apply chain_cells F (fun a b => (b - a) * f b) (Spec.CrpsEns.stepIntegralLeft f)
    (fun p => by simp [Spec.CrpsEns.stepIntegralLeft]) (fun p q rest => by simp [Spec.CrpsEns.stepIntegralLeft])
  refine hc.imp ?_
  rintro a b ⟨hab, hc⟩
  obtain ⟨hi, he⟩ := integral_step_cell (by exact_mod_cast hab : (a : ℝ) ≤ b) hc
  exact ⟨hi, by rw [he, hF]; push_cast; ring⟩

/-- one term of a step function `Spec.Murphy.StepFn` (Σ c·1[lo,hi)): c·(hi − lo)⁺ is its integral over any range
    [L, U] that contains [lo, hi] -/
theorem stepFn_term_integral (c lo hi L U : ℝ) (hL : L ≤ lo) (hU : hi ≤ U) (hLU : L ≤ U) :
    ∫ θ in L..U, (if lo ≤ θ ∧ θ < hi then c else 0) = c * (if lo ≤ hi then hi - lo else 0) := by
  have e : (fun θ : ℝ => if lo ≤ θ ∧ θ < hi then c else 0) = fun θ => c * (if lo ≤ θ ∧ θ < hi then (1 : ℝ) else 0) := by
    funext θ; split_ifs <;> simp
  rw [e, intervalIntegral.integral_const_mul, integral_indicator lo hi L U hLU, min_eq_right hU, max_eq_right hL]
  split_ifs with h
  · rw [max_eq_right (by linarith)]
  · rw [max_eq_left (by linarith)]

/-! ## 6. C11 instances: the midpoint-rule integrals of the Murphy elementary scores (`Spec.Murphy.elemQ/elemE/elemH` on
    a `KinkComplete` grid) are Lebesgue integrals of the same real readings `elemQuantileR / elemExpectileR / elemHuberR` -/

section murphy
open SV.Spec.Murphy (KinkComplete noKinkIoo kinksQ kinksE kinksH midpointRule)

/-- a `KinkComplete` grid is an increasing chain of cells on each of which `F` is affine, provided `F` is affine on every
    cell without a kink strictly inside -/
theorem kinkComplete_chain {ks : List ℚ} {F : ℝ → ℝ}
    (h : ∀ a b : ℚ, a ≤ b → (∀ k ∈ ks, (k : ℝ) ≤ a ∨ (b : ℝ) ≤ k) → AffineOn F a b) :
    ∀ (g : List ℚ) (p : ℚ), KinkComplete ks (p :: g) →
      List.IsChain (fun a b : ℚ => a ≤ b ∧ AffineOn F a b) (p :: g) := by
  intro g
  induction g with
  | nil => intro p _; exact List.isChain_singleton p
  | cons b g ih =>
    intro p hk
    obtain ⟨⟨hpb, hno⟩, hk'⟩ := hk
    refine List.isChain_cons_cons.mpr ⟨⟨hpb, h p b hpb ?_⟩, ih b hk'⟩
    intro k hk
    have := hno k hk
    rcases le_or_gt k p with h1 | h1
    · left; exact_mod_cast h1
    · right
      have : b ≤ k := not_lt.mp fun h2 => this ⟨h1, h2⟩
      exact_mod_cast this

theorem murphy_rmin_cast (x y : ℚ) : ((Spec.Murphy.rmin x y : ℚ) : ℝ) = min (x : ℝ) (y : ℝ) := by
  have : Spec.Murphy.rmin x y = min x y := by unfold Spec.Murphy.rmin; simp only [min_def]
  rw [this, Rat.cast_min]

theorem murphy_elemQ_cast (α f o t : ℚ) : elemQuantileR α f o t = ((Spec.Murphy.elemQ α f o t : ℚ) : ℝ) := by
  unfold elemQuantileR Spec.Murphy.elemQ Spec.Murphy.overQ Spec.Murphy.underQ Spec.Murphy.overRegion
    Spec.Murphy.underRegion
  simp only [Rat.cast_le, Rat.cast_lt]
  by_cases h1 : o ≤ t ∧ t < f <;> by_cases h2 : f ≤ t ∧ t < o
  · exfalso; linarith [h1.1, h1.2, h2.1, h2.2]
  all_goals simp [h1, h2]

theorem murphy_elemE_cast (α f o t : ℚ) : elemExpectileR α f o t = ((Spec.Murphy.elemE α f o t : ℚ) : ℝ) := by
  unfold elemExpectileR Spec.Murphy.elemE Spec.Murphy.overE Spec.Murphy.underE Spec.Murphy.overRegion
    Spec.Murphy.underRegion
  simp only [Rat.cast_le, Rat.cast_lt]
  by_cases h1 : o ≤ t ∧ t < f <;> by_cases h2 : f ≤ t ∧ t < o
  · exfalso; linarith [h1.1, h1.2, h2.1, h2.2]
  · have : ((o : ℝ) - t) ≤ 0 := by have : (o : ℝ) ≤ t := by exact_mod_cast h1.1
                                   linarith
    simp [h1, h2, abs_of_nonpos this]
  · have : 0 ≤ ((o : ℝ) - t) := by have : (t : ℝ) < o := by exact_mod_cast h2.2
                                   linarith
    simp [h1, h2, abs_of_nonneg this]
  · simp [h1, h2]

theorem murphy_elemH_cast (α a f o t : ℚ) : elemHuberR α a f o t = ((Spec.Murphy.elemH α a f o t : ℚ) : ℝ) := by
  unfold elemHuberR Spec.Murphy.elemH Spec.Murphy.overH Spec.Murphy.underH Spec.Murphy.overRegion
    Spec.Murphy.underRegion
  simp only [Rat.cast_le, Rat.cast_lt]
  by_cases h1 : o ≤ t ∧ t < f <;> by_cases h2 : f ≤ t ∧ t < o
  · exfalso; linarith [h1.1, h1.2, h2.1, h2.2]
  all_goals simp [h1, h2, murphy_rmin_cast]

/-- C11, quantile: the midpoint-rule value of `elemQ` on a kink-complete grid is ∫ from the first to the last grid point -/
theorem murphy_midpoint_quantile_eq_lebesgue (α f o : ℚ) (g : List ℚ) (p : ℚ) (hk : KinkComplete (kinksQ f o) (p :: g)) :
    IntervalIntegrable (elemQuantileR α f o) volume p (lastOr p g) ∧
      ((midpointRule (Spec.Murphy.elemQ α f o) (p :: g) : ℚ) : ℝ)
        = ∫ θ in (p : ℝ)..(lastOr p g : ℝ), elemQuantileR α f o θ :=
  midpointRule_eq_intervalIntegral _ _ (murphy_elemQ_cast α f o) g p
    (kinkComplete_chain (fun a b _ h => elemQuantileR_affineOn α (h f (by simp [kinksQ])) (h o (by simp [kinksQ]))) g p hk)

/-- C11, expectile -/
theorem murphy_midpoint_expectile_eq_lebesgue (α f o : ℚ) (g : List ℚ) (p : ℚ) (hk : KinkComplete (kinksE f o) (p :: g)) :
    IntervalIntegrable (elemExpectileR α f o) volume p (lastOr p g) ∧
      ((midpointRule (Spec.Murphy.elemE α f o) (p :: g) : ℚ) : ℝ)
        = ∫ θ in (p : ℝ)..(lastOr p g : ℝ), elemExpectileR α f o θ :=
  midpointRule_eq_intervalIntegral _ _ (murphy_elemE_cast α f o) g p
    (kinkComplete_chain (fun a b _ h => elemExpectileR_affineOn α (h f (by simp [kinksE])) (h o (by simp [kinksE]))) g p hk)

/-- C11, Huber -/
theorem murphy_midpoint_huber_eq_lebesgue (α a f o : ℚ) (g : List ℚ) (p : ℚ) (hk : KinkComplete (kinksH a f o) (p :: g)) :
    IntervalIntegrable (elemHuberR α a f o) volume p (lastOr p g) ∧
      ((midpointRule (Spec.Murphy.elemH α a f o) (p :: g) : ℚ) : ℝ)
        = ∫ θ in (p : ℝ)..(lastOr p g : ℝ), elemHuberR α a f o θ :=
  midpointRule_eq_intervalIntegral _ _ (murphy_elemH_cast α a f o) g p
    (kinkComplete_chain (fun p q _ h => by
      have hm := h (o - a) (by simp [kinksH])
      have hp := h (o + a) (by simp [kinksH])
      push_cast at hm hp
      exact elemHuberR_affineOn α a (h f (by simp [kinksH])) (h o (by simp [kinksH])) hm hp) g p hk)

end murphy

/-! ## 7. C06 instance: the ensemble CRPS integral `Spec.CrpsEns.crpsIntegral` (right-continuous step integral of
    (F_ens − 1{y ≤ ·})² over the grid of distinct values of y :: xs) is a Lebesgue integral -/

section crps
open SV.Spec.CrpsEns (grid stepIntegral ecdf heaviside integrand crpsIntegral)

/-- empirical CDF, Heaviside step and CRPS integrand of Spec/CrpsEns.lean read over ℝ (same formulas) -/
noncomputable def ecdfR (xs : List ℚ) (t : ℝ) : ℝ :=
  ((xs.filter (fun x : ℚ => decide ((x : ℝ) ≤ t))).length : ℝ) / (xs.length : ℝ)
noncomputable def heavisideR (y t : ℝ) : ℝ := if y ≤ t then 1 else 0
noncomputable def crpsIntegrandR (xs : List ℚ) (y t : ℝ) : ℝ := (ecdfR xs t - heavisideR y t) ^ 2

theorem crpsIntegrandR_cast (xs : List ℚ) (y t : ℚ) : crpsIntegrandR xs y t = ((integrand xs y t : ℚ) : ℝ) := by
  have hf : (xs.filter (fun x : ℚ => decide ((x : ℝ) ≤ (t : ℝ)))) = xs.filter (fun x => decide (x ≤ t)) :=
    List.filter_congr (fun x _ => by simp only [Rat.cast_le])
  have hh : heavisideR y t = ((heaviside y t : ℚ) : ℝ) := by
    unfold heavisideR heaviside; simp only [Rat.cast_le]; split_ifs <;> simp
  unfold crpsIntegrandR integrand ecdfR ecdf
  rw [hf, hh]; push_cast; rfl

/-- between two consecutive points of a strictly increasing list there is no point of the list -/
theorem sorted_chain_noInside (P : ℚ → Prop) : ∀ (l : List ℚ) (p : ℚ), (p :: l).Pairwise (· < ·) →
    (∀ x, P x → x ≤ p ∨ x ∈ l) →
    List.IsChain (fun a b : ℚ => a ≤ b ∧ ∀ x, P x → x ≤ a ∨ b ≤ x) (p :: l) := by
  intro l
  induction l with
  | nil => intro p _ _; exact List.isChain_singleton p
  | cons b l ih =>
    intro p hs hP
    have hs' := List.pairwise_cons.mp hs
    have hpb : p < b := hs'.1 b (by simp)
    refine List.isChain_cons_cons.mpr ⟨⟨hpb.le, fun x hx => ?_⟩, ih b hs'.2 fun x hx => ?_⟩
    · rcases hP x hx with h | h
      · exact Or.inl h
      · rcases List.mem_cons.mp h with rfl | h
        · exact Or.inr le_rfl
        · exact Or.inr ((List.pairwise_cons.mp hs'.2).1 x h).le
    · rcases hP x hx with h | h
      · exact Or.inl (h.trans hpb.le)
      · rcases List.mem_cons.mp h with rfl | h
        · exact Or.inl le_rfl
        · exact Or.inr h

/-- on an open cell (a, b) that contains neither y nor a member, the integrand keeps its value at a -/
theorem crpsIntegrandR_const (xs : List ℚ) (y a b : ℚ) (hno : ∀ x, x ∈ y :: xs → x ≤ a ∨ b ≤ x) (θ : ℝ)
    (h1 : (a : ℝ) < θ) (h2 : θ < b) : crpsIntegrandR xs y θ = crpsIntegrandR xs y a := by
  have key : ∀ x, x ∈ y :: xs → (((x : ℝ) ≤ θ) ↔ ((x : ℝ) ≤ a)) := by
    intro x hx
    rcases hno x hx with h | h
    · have : (x : ℝ) ≤ a := by exact_mod_cast h
      exact ⟨fun _ => this, fun _ => by linarith⟩
    · have : (b : ℝ) ≤ x := by exact_mod_cast h
      exact ⟨fun h' => by linarith, fun h' => by linarith⟩
  have hf : xs.filter (fun x : ℚ => decide ((x : ℝ) ≤ θ)) = xs.filter (fun x : ℚ => decide ((x : ℝ) ≤ (a : ℝ))) :=
    List.filter_congr (fun x hx => by simp only [key x (List.mem_cons_of_mem _ hx)])
  have hh : heavisideR y θ = heavisideR y a := by
    unfold heavisideR; simp only [key y (by simp)]
  unfold crpsIntegrandR ecdfR
  rw [hf, hh]

/-- **C06**: the exact step integral `crpsIntegral xs y` is ∫ (F_ens(t) − 1{y ≤ t})² dt over the hull of the members and the
    observation (first to last point of the grid of distinct values) -/
theorem crpsIntegral_eq_lebesgue (xs : List ℚ) (y p : ℚ) (g : List ℚ) (hg : grid (y :: xs) = p :: g) :
    IntervalIntegrable (crpsIntegrandR xs y) volume p (lastOr p g) ∧
      ((crpsIntegral xs y : ℚ) : ℝ) = ∫ t in (p : ℝ)..(lastOr p g : ℝ), crpsIntegrandR xs y t := by
  unfold crpsIntegral
  rw [hg]
  apply stepIntegral_eq_intervalIntegral _ _ (crpsIntegrandR_cast xs y)
  have hs := SV.Lemmas.CrpsEns.pairwise_grid (y :: xs)
  rw [hg] at hs
  refine (sorted_chain_noInside (fun x => x ∈ y :: xs) g p hs ?_).imp ?_
  · intro x hx
    have : x ∈ grid (y :: xs) := SV.Lemmas.CrpsEns.mem_grid.mpr hx
    rw [hg] at this
    rcases List.mem_cons.mp this with rfl | h
    · exact Or.inl le_rfl
    · exact Or.inr h
  · rintro a b ⟨hab, hno⟩
    exact ⟨hab, crpsIntegrandR_const xs y a b hno⟩

/-! ### the ensemble Brier score as a function of the threshold (left-continuous step function), `Spec.CrpsEns.brierIntegral` -/

section brier
open SV.Spec.CrpsEns (eventFrac brier brierFairCorr brierIntegral stepIntegralLeft)

/-- fraction of members ≥ θ, Brier score of the event "value ≥ θ" and its fair correction, read over ℝ -/
noncomputable def eventCountR (xs : List ℚ) (θ : ℝ) : ℝ := ((xs.filter (fun x : ℚ => decide (θ ≤ (x : ℝ)))).length : ℝ)
noncomputable def brierR (xs : List ℚ) (y θ : ℝ) : ℝ :=
  (eventCountR xs θ / (xs.length : ℝ) - (if θ ≤ y then 1 else 0)) ^ 2
noncomputable def brierFairCorrR (xs : List ℚ) (θ : ℝ) : ℝ :=
  if xs.length ≤ 1 then 0
  else eventCountR xs θ * ((xs.length : ℝ) - eventCountR xs θ) / ((xs.length : ℝ) ^ 2 * ((xs.length : ℝ) - 1))
/-- the integrand of `brierIntegral fair` -/
noncomputable def brierIntegrandR (fair : Bool) (xs : List ℚ) (y θ : ℝ) : ℝ :=
  brierR xs y θ - (if fair then brierFairCorrR xs θ else 0)

theorem eventCountR_cast (xs : List ℚ) (t : ℚ) :
    eventCountR xs t = (((xs.filter (fun x => decide (t ≤ x))).length : ℚ) : ℝ) := by
  have hf : (xs.filter (fun x : ℚ => decide ((t : ℝ) ≤ (x : ℝ)))) = xs.filter (fun x => decide (t ≤ x)) :=
    List.filter_congr (fun x _ => by simp only [Rat.cast_le])
  unfold eventCountR; rw [hf]; push_cast; rfl

theorem brierIntegrandR_cast (fair : Bool) (xs : List ℚ) (y t : ℚ) :
    brierIntegrandR fair xs y t
      = (((brier xs y t - (if fair then brierFairCorr xs t else 0)) : ℚ) : ℝ) := by
  have hb : brierR xs y t = ((brier xs y t : ℚ) : ℝ) := by
    unfold brierR brier eventFrac
    rw [eventCountR_cast]
    by_cases h : t ≤ y
    · have h' : (t : ℝ) ≤ y := by exact_mod_cast h
      simp [h, h']
    · have h' : ¬ (t : ℝ) ≤ y := by exact_mod_cast h
      simp [h, h']
  have hc : brierFairCorrR xs t = ((brierFairCorr xs t : ℚ) : ℝ) := by
    unfold brierFairCorrR brierFairCorr
    rw [eventCountR_cast]
    split_ifs <;> push_cast <;> rfl
  unfold brierIntegrandR
  rw [hb, hc]
  cases fair <;> simp

/-- on an open cell (a, b) that contains neither y nor a member, the Brier integrand keeps its value at b -/
theorem brierIntegrandR_const (fair : Bool) (xs : List ℚ) (y a b : ℚ) (hno : ∀ x, x ∈ y :: xs → x ≤ a ∨ b ≤ x) (θ : ℝ)
    (h1 : (a : ℝ) < θ) (h2 : θ < b) : brierIntegrandR fair xs y θ = brierIntegrandR fair xs y b := by
  have key : ∀ x, x ∈ y :: xs → ((θ ≤ (x : ℝ)) ↔ ((b : ℝ) ≤ x)) := by
    intro x hx
    rcases hno x hx with h | h
    · have : (x : ℝ) ≤ a := by exact_mod_cast h
      exact ⟨fun h' => by linarith, fun h' => by linarith⟩
    · have : (b : ℝ) ≤ x := by exact_mod_cast h
      exact ⟨fun _ => this, fun _ => by linarith⟩
  have hf : eventCountR xs θ = eventCountR xs b := by
    have : xs.filter (fun x : ℚ => decide (θ ≤ (x : ℝ))) = xs.filter (fun x : ℚ => decide ((b : ℝ) ≤ (x : ℝ))) :=
      List.filter_congr (fun x hx => by simp only [key x (List.mem_cons_of_mem _ hx)])
    unfold eventCountR; rw [this]
  unfold brierIntegrandR brierR brierFairCorrR
  rw [hf]; simp only [key y (by simp)]

/-- **C06 / C13**: `brierIntegral fair xs y` is ∫ (Brier score of the ensemble at threshold θ [− fair correction]) dθ
    over the hull of the members and the observation -/
theorem brierIntegral_eq_lebesgue (fair : Bool) (xs : List ℚ) (y p : ℚ) (g : List ℚ)
    (hg : SV.Spec.CrpsEns.grid (y :: xs) = p :: g) :
    IntervalIntegrable (brierIntegrandR fair xs y) volume p (lastOr p g) ∧
      ((brierIntegral fair xs y : ℚ) : ℝ) = ∫ θ in (p : ℝ)..(lastOr p g : ℝ), brierIntegrandR fair xs y θ := by
  unfold brierIntegral
  rw [hg]
  apply stepIntegralLeft_eq_intervalIntegral _ _ (brierIntegrandR_cast fair xs y)
  have hs := SV.Lemmas.CrpsEns.pairwise_grid (y :: xs)
  rw [hg] at hs
  refine (sorted_chain_noInside (fun x => x ∈ y :: xs) g p hs ?_).imp ?_
  · intro x hx
    have : x ∈ SV.Spec.CrpsEns.grid (y :: xs) := SV.Lemmas.CrpsEns.mem_grid.mpr hx
    rw [hg] at this
    rcases List.mem_cons.mp this with rfl | h
    · exact Or.inl le_rfl
    · exact Or.inr h
  · rintro a b ⟨hab, hno⟩
    exact ⟨hab, brierIntegrandR_const fair xs y a b hno⟩

end brier

end crps

/-! ### weights with infinite end points (`wRectE`, `wTrapE` of Spec/ThresholdWeighted.lean) -/

open SV.Fl (fin ninf pinf)

/-- 1 below d … the down-ramp 1 → 0 between c and d, read over ℝ -/
noncomputable def rampDownR (c d θ : ℝ) : ℝ := if θ < c then 1 else if θ < d then (d - θ) / (d - c) else 0
/-- the up-ramp 0 → 1 between a and b, read over ℝ -/
noncomputable def rampUpR (a b θ : ℝ) : ℝ := if θ < a then 0 else if θ < b then (θ - a) / (b - a) else 1

theorem weightBridge_rectE_all : WeightBridge (wRectE ninf pinf) (fun _ => 1) [] where
  cast t := by simp [wRectE, Fl.le, Fl.lt]
  affine p q _ := affineOn_const 1 p q

theorem weightBridge_rectE_left (b : ℚ) : WeightBridge (wRectE ninf (fin b)) (fun θ => if θ < (b : ℝ) then 1 else 0) [b] where
  cast t := by
    by_cases h : t < b
    · have h' : (t : ℝ) < b := by exact_mod_cast h
      simp [wRectE, Fl.le, Fl.lt, h, h']
    · have h' : ¬ (t : ℝ) < b := by exact_mod_cast h
      simp [wRectE, Fl.le, Fl.lt, h, h']
  affine p q h := AffineOn.ite_lt (h b (by simp)) (affineOn_const 1 p q) (affineOn_const 0 p q)

theorem weightBridge_rectE_right (a : ℚ) : WeightBridge (wRectE (fin a) pinf) (fun θ => if θ < (a : ℝ) then 0 else 1) [a] where
  cast t := by
    by_cases h : t < a
    · have h' : (t : ℝ) < a := by exact_mod_cast h
      simp [wRectE, Fl.le, Fl.lt, h', not_le.mpr h]
    · have h' : ¬ (t : ℝ) < a := by exact_mod_cast h
      simp [wRectE, Fl.le, Fl.lt, h', not_lt.mp h]
  affine p q h := AffineOn.ite_lt (h a (by simp)) (affineOn_const 0 p q) (affineOn_const 1 p q)

theorem weightBridge_trapE_all : WeightBridge (wTrapE ninf ninf pinf pinf) (fun _ => 1) [] where
  cast t := by simp [wTrapE, rampUp, rampDown, rmin]
  affine p q _ := affineOn_const 1 p q

theorem weightBridge_trapE_left (c d : ℚ) :
    WeightBridge (wTrapE ninf ninf (fin c) (fin d)) (rampDownR c d) [c, d] where
  cast t := by
    unfold wTrapE rampUp rampDown rampDownR rmin
    simp only [Rat.cast_lt]
    split_ifs <;> push_cast
    all_goals first
      | rfl
      | (exfalso; linarith)
      | (have hdc : 0 < d - c := by linarith
         have : (d - t) / (d - c) = 1 := le_antisymm (by rw [div_le_one hdc]; linarith) ‹_›
         exact_mod_cast this)
  affine p q h := AffineOn.ite_lt (h c (by simp)) (affineOn_const 1 p q)
    (AffineOn.ite_lt (h d (by simp)) (AffineOn.of_eq (d / (d - c)) (-1 / (d - c)) p q (fun θ => by ring))
      (affineOn_const 0 p q))

theorem weightBridge_trapE_right (a b : ℚ) :
    WeightBridge (wTrapE (fin a) (fin b) pinf pinf) (rampUpR a b) [a, b] where
  cast t := by
    unfold wTrapE rampUp rampDown rampUpR rmin
    simp only [Rat.cast_lt]
    split_ifs <;> push_cast
    all_goals first
      | rfl
      | (exfalso; linarith)
      | (exfalso
         have hba : 0 < b - a := by linarith
         have : (t - a) / (b - a) ≤ 1 := by rw [div_le_one hba]; linarith
         exact ‹¬ (t - a) / (b - a) ≤ 1› this)
  affine p q h := AffineOn.ite_lt (h a (by simp)) (affineOn_const 0 p q)
    (AffineOn.ite_lt (h b (by simp)) (AffineOn.of_eq (-a / (b - a)) (1 / (b - a)) p q (fun θ => by ring))
      (affineOn_const 1 p q))

/-! ### reading a model value as a real number -/

/-- the model value `v` is a finite number (`Fl.fin s`) whose real value is `r` -/
def EqReal (v : Fl) (r : ℝ) : Prop := ∃ s : ℚ, v = Fl.fin s ∧ (s : ℝ) = r

theorem EqReal.of_fin {v : Fl} {s : ℚ} {r : ℝ} (hv : v = Fl.fin s) (hs : (s : ℝ) = r) : EqReal v r := ⟨s, hv, hs⟩

end SV.Bridge
