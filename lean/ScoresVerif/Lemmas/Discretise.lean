/-
  Lemmas for C08 / C13: NaN-skipping sums of lists, sums of indicator lists are counts.
-/
import ScoresVerif.Model.Fl
import ScoresVerif.Lemmas.FlBasic
import Mathlib.Tactic.Ring
import Mathlib.Tactic.Linarith
import Mathlib.Tactic.NormNum
import Mathlib.Algebra.Order.Field.Rat

namespace SV.DiscL
open SV SV.Fl

theorem zero_add' (x : Fl) : add (fin 0) x = x := by cases x <;> simp [add]
theorem add_zero' (x : Fl) : add x (fin 0) = x := by cases x <;> simp [add]

theorem foldl_add (xs : List Fl) : ∀ a : Fl, xs.foldl Fl.add a = add a (xs.foldl Fl.add (fin 0)) := by
  induction xs with
  | nil => intro a; simp [add_zero']
  | cons x xs ih =>
    intro a
    simp only [List.foldl_cons]
    rw [ih (add a x), ih (add (fin 0) x), zero_add', Fl.add_assoc]

theorem fsum_nil : fsum [] = fin 0 := rfl

theorem fsum_cons (x : Fl) (xs : List Fl) : fsum (x :: xs) = add x (fsum xs) := by
  unfold fsum
  simp only [List.foldl_cons]
  rw [foldl_add, zero_add']

theorem fsum_append (xs ys : List Fl) : fsum (xs ++ ys) = add (fsum xs) (fsum ys) := by
  induction xs with
  | nil => simp [fsum_nil, zero_add']
  | cons x xs ih => rw [List.cons_append, fsum_cons, fsum_cons, ih, Fl.add_assoc]

theorem valid_append (xs ys : List Fl) : valid (xs ++ ys) = valid xs ++ valid ys := by
  unfold valid; exact List.filter_append ..

/-- `.sum(skipna)` is additive under concatenation — for ALL values (NaN, infinities included) -/
theorem nansum_append (xs ys : List Fl) : nansum (xs ++ ys) = add (nansum xs) (nansum ys) := by
  unfold nansum; rw [valid_append, fsum_append]

theorem nansum_nil : nansum [] = fin 0 := rfl

theorem nansum_cons_nan (xs : List Fl) : nansum (nan :: xs) = nansum xs := by
  unfold nansum valid; simp [notNan, isNan]

theorem nansum_cons_fin (a : Rat) (xs : List Fl) : nansum (fin a :: xs) = add (fin a) (nansum xs) := by
  unfold nansum valid
  rw [List.filter_cons_of_pos (by simp [notNan, isNan]), fsum_cons]

theorem count_append (xs ys : List Fl) : count (xs ++ ys) = count xs + count ys := by
  unfold count; rw [valid_append, List.length_append]

/-- the skipna-sum of a list of indicator values (`1`/`0`, NaN where not valid) is the number of valid
    positions where the indicator holds -/
theorem nansum_indicator_mem {α : Type} (g : α → Fl) (v b : α → Bool) (l : List α)
    (h : ∀ a ∈ l, g a = if v a then ofBool (b a) else nan) :
    nansum (l.map g) = fin (((l.filter fun a => v a && b a).length : Nat) : Rat) := by
  induction l with
  | nil => simp [nansum_nil]
  | cons a l ih =>
    have ih := ih (fun x hx => h x (List.mem_cons_of_mem a hx))
    rw [List.map_cons, h a List.mem_cons_self]
    by_cases hv : v a = true
    · by_cases hb : b a = true
      · simp only [hv, hb, if_true, ofBool]
        rw [nansum_cons_fin, ih, List.filter_cons_of_pos (by simp [hv, hb]), add_fin, List.length_cons]
        congr 1; push_cast; ring
      · simp only [Bool.not_eq_true] at hb
        simp only [hv, hb, if_true, ofBool, Bool.false_eq_true, if_false]
        rw [nansum_cons_fin, ih, List.filter_cons_of_neg (by simp [hv, hb]), add_fin]
        congr 1; simp
    · simp only [Bool.not_eq_true] at hv
      simp only [hv, Bool.false_eq_true, if_false]
      rw [nansum_cons_nan, ih, List.filter_cons_of_neg (by simp [hv])]

theorem nansum_indicator {α : Type} (g : α → Fl) (v b : α → Bool)
    (h : ∀ a, g a = if v a then ofBool (b a) else nan) (l : List α) :
    nansum (l.map g) = fin (((l.filter fun a => v a && b a).length : Nat) : Rat) :=
  nansum_indicator_mem g v b l (fun a _ => h a)

end SV.DiscL
