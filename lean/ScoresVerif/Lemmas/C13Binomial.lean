/-
  C13 — factorial moments of the binomial weights C(n,i) p^i q^(n−i) over `Rat`, by index shift
  (i·C(n+1,i) = (n+1)·C(n,i−1)) and the binomial theorem.  Helper lemmas for the unbiasedness of the fair
  Brier score (Props/C13Fair.lean).
-/
import Mathlib.Tactic.Ring
import Mathlib.Tactic.LinearCombination
import Mathlib.Tactic.Linarith
import Mathlib.Tactic.FieldSimp
import Mathlib.Tactic.NormNum
import Mathlib.Algebra.Order.Field.Rat
import Mathlib.Algebra.BigOperators.Intervals
import Mathlib.Algebra.BigOperators.Ring.Finset
import Mathlib.Data.Nat.Choose.Sum

namespace SV.Lemmas.C13Binomial
open Finset

/-- the binomial weight of the count i among n members, each in the event with "probability" p (q = 1 − p) -/
def bw (p q : Rat) (n i : Nat) : Rat := (n.choose i : Rat) * p ^ i * q ^ (n - i)

/-- total weight: the binomial theorem -/
theorem sum_bw (p q : Rat) (n : Nat) : ∑ i ∈ range (n + 1), bw p q n i = (p + q) ^ n := by
  rw [add_pow]
  apply sum_congr rfl
  intro i _
  unfold bw; ring

/-- the weight shift: i · bw(n+1, i) = (n+1) · p · bw(n, i−1) -/
theorem succ_mul_bw (p q : Rat) (n k : Nat) :
    ((k : Rat) + 1) * bw p q (n + 1) (k + 1) = ((n : Rat) + 1) * p * bw p q n k := by
  unfold bw
  have h : ((n + 1 : Nat) : Rat) * (n.choose k : Rat) = ((n + 1).choose (k + 1) : Rat) * ((k + 1 : Nat) : Rat) := by
    exact_mod_cast congrArg (Nat.cast (R := Rat)) (Nat.add_one_mul_choose_eq n k)
  push_cast at h
  rw [Nat.add_sub_add_right, pow_succ]
  linear_combination (-(p ^ k * p * q ^ (n - k))) * h

/-- index shift for a weighted sum with a factor i -/
theorem sum_mul_bw_shift (p q : Rat) (n : Nat) (g : Nat → Rat) :
    ∑ i ∈ range (n + 2), (i : Rat) * g i * bw p q (n + 1) i
      = ((n : Rat) + 1) * p * ∑ k ∈ range (n + 1), g (k + 1) * bw p q n k := by
  rw [sum_range_succ', mul_sum]
  simp only [Nat.cast_zero, zero_mul, add_zero]
  apply sum_congr rfl
  intro k _
  push_cast
  linear_combination (g (k + 1)) * succ_mul_bw p q n k

/-- first moment: Σ i · bw(n+1, i) = (n+1) p (p+q)^n -/
theorem sum_id_bw (p q : Rat) (n : Nat) :
    ∑ i ∈ range (n + 2), (i : Rat) * bw p q (n + 1) i = ((n : Rat) + 1) * p * (p + q) ^ n := by
  have := sum_mul_bw_shift p q n (fun _ => 1)
  simp only [mul_one, one_mul] at this
  rw [this, sum_bw]

/-- second factorial moment: Σ i (i−1) · bw(n+2, i) = (n+2)(n+1) p² (p+q)^n -/
theorem sum_ff2_bw (p q : Rat) (n : Nat) :
    ∑ i ∈ range (n + 3), (i : Rat) * ((i : Rat) - 1) * bw p q (n + 2) i
      = ((n : Rat) + 2) * ((n : Rat) + 1) * p ^ 2 * (p + q) ^ n := by
  have := sum_mul_bw_shift p q (n + 1) (fun i => (i : Rat) - 1)
  simp only [Nat.cast_add, Nat.cast_one, add_sub_cancel_right] at this
  rw [show n + 1 + 2 = n + 3 from rfl, show n + 1 + 1 = n + 2 from rfl] at this
  rw [this, sum_id_bw]
  ring

end SV.Lemmas.C13Binomial
