/-
  Lemmas for C15: invariants of the PAV model (`SV.Model.Isotonic.go`) for an ARBITRARY block solver.
-/
import ScoresVerif.Model.Isotonic
import Mathlib.Tactic.Linarith
import Mathlib.Algebra.Order.Field.Rat
import Mathlib.Data.List.Chain

namespace SV.Model.Isotonic
variable {α : Type}

/-- concatenation of the blocks' items -/
def flat (bs : List (Blk α)) : List α := bs.flatMap (·.items)

@[simp] theorem flat_nil : flat ([] : List (Blk α)) = [] := rfl
@[simp] theorem flat_cons (b : Blk α) (bs : List (Blk α)) : flat (b :: bs) = b.items ++ flat bs := by simp [flat]
@[simp] theorem flat_append (a b : List (Blk α)) : flat (a ++ b) = flat a ++ flat b := by simp [flat]

/-- generic invariant principle for the outer loop -/
theorem go_inv (solve : List α → Rat) (P : List (Blk α) → Blk α → List (Blk α) → Prop) (Q : List (Blk α) → Prop)
    (hdone : ∀ left cur, P left cur [] → Q (cur :: left).reverse)
    (hfwd : ∀ left cur n rest, cur.val < n.val → P left cur (n :: rest) → P (cur :: left) n rest)
    (hm0 : ∀ cur n rest, ¬ cur.val < n.val → P [] cur (n :: rest) → P [] (pool solve cur n rest) (takeRun n.val rest).2)
    (hm1 : ∀ p l' cur n rest, ¬ cur.val < n.val → P (p :: l') cur (n :: rest) →
        P l' p (pool solve cur n rest :: (takeRun n.val rest).2))
    (left : List (Blk α)) (cur : Blk α) (right : List (Blk α)) (h : P left cur right) :
    Q (go solve left cur right) := by
  fun_induction go solve left cur right with
  | case1 left cur => exact hdone _ _ h
  | case2 left cur n rest hlt ih => exact ih (hfwd _ _ _ _ hlt h)
  | case3 cur n rest hlt ih => exact ih (hm0 _ _ _ hlt h)
  | case4 cur n rest hlt p l' ih => exact ih (hm1 _ _ _ _ _ hlt h)

/-! ### takeRun -/

theorem takeRun_flat (prev : Rat) (l : List (Blk α)) : (takeRun prev l).1 ++ flat (takeRun prev l).2 = flat l := by
  induction l generalizing prev with
  | nil => simp [takeRun]
  | cons s rest ih =>
    unfold takeRun
    split
    · simp
    · simp [ih]

theorem takeRun_suffix (prev : Rat) (l : List (Blk α)) : (takeRun prev l).2 <:+ l := by
  induction l generalizing prev with
  | nil => simp [takeRun]
  | cons s rest ih =>
    unfold takeRun
    split
    · exact List.suffix_refl _
    · exact (ih s.val).trans (List.suffix_cons _ _)

theorem takeRun_mem (prev : Rat) (l : List (Blk α)) {b : Blk α} (h : b ∈ (takeRun prev l).2) : b ∈ l :=
  (takeRun_suffix prev l).subset h

/-! ### 1. the blocks partition the input -/

theorem go_flat (solve : List α → Rat) (left : List (Blk α)) (cur : Blk α) (right : List (Blk α)) :
    flat (go solve left cur right) = flat left.reverse ++ cur.items ++ flat right := by
  refine go_inv solve (fun l c r => flat l.reverse ++ c.items ++ flat r = flat left.reverse ++ cur.items ++ flat right)
    (fun res => flat res = flat left.reverse ++ cur.items ++ flat right) ?_ ?_ ?_ ?_ left cur right rfl
  · intro l c h; simpa using h
  · intro l c n rest _ h; simpa using h
  · intro c n rest _ h
    rw [← h]; simp [pool, List.append_assoc, takeRun_flat]
  · intro p l' c n rest _ h
    rw [← h]; simp [pool, List.append_assoc, takeRun_flat]

theorem flat_map_raw (obs : α → Rat) (ys : List α) : flat (ys.map (raw obs)) = ys := by
  induction ys with
  | nil => simp
  | cons z zs ih => simp [raw, ih]

theorem pav_flat (obs : α → Rat) (solve : List α → Rat) (ys : List α) : flat (pav obs solve ys) = ys := by
  unfold pav
  split
  · rename_i heq
    have := flat_map_raw obs ys
    rw [heq] at this; simpa using this
  · rename_i b bs heq
    rw [go_flat]
    have := flat_map_raw obs ys
    rw [heq] at this; simpa using this

/-! ### 2. block values strictly increase -/

theorem go_increasing (solve : List α → Rat) (left : List (Blk α)) (cur : Blk α) (right : List (Blk α))
    (h : (cur :: left).Pairwise (fun newer older => older.val < newer.val)) :
    (go solve left cur right).Pairwise (fun a b => a.val < b.val) := by
  refine go_inv solve (fun l c _ => (c :: l).Pairwise (fun newer older => older.val < newer.val))
    (fun res => res.Pairwise (fun a b => a.val < b.val)) ?_ ?_ ?_ ?_ left cur right h
  · intro l c h; exact List.pairwise_reverse.mpr h
  · intro l c n rest hlt h
    refine List.pairwise_cons.mpr ⟨?_, h⟩
    intro older ho
    rcases List.mem_cons.mp ho with rfl | hm
    · exact hlt
    · exact lt_trans ((List.pairwise_cons.mp h).1 older hm) hlt
  · intro c n rest _ _; simp
  · intro p l' c n rest _ h; exact (List.pairwise_cons.mp h).2

theorem pav_increasing (obs : α → Rat) (solve : List α → Rat) (ys : List α) :
    (pav obs solve ys).Pairwise (fun a b => a.val < b.val) := by
  unfold pav
  split
  · simp
  · exact go_increasing _ _ _ _ (by simp)

/-! ### 3. every block is non-empty and its value is the solver's value of the block, or it is an untouched
        single observation carrying that observation as its value -/

def OkBlk (obs : α → Rat) (solve : List α → Rat) (b : Blk α) : Prop :=
  b.items ≠ [] ∧ (b.val = solve b.items ∨ ∃ x, b = raw obs x)

theorem go_ok (obs : α → Rat) (solve : List α → Rat) (left : List (Blk α)) (cur : Blk α) (right : List (Blk α))
    (hl : ∀ b ∈ left, OkBlk obs solve b) (hc : OkBlk obs solve cur) (hr : ∀ b ∈ right, OkBlk obs solve b) :
    ∀ b ∈ go solve left cur right, OkBlk obs solve b := by
  refine go_inv solve (fun l c r => (∀ b ∈ l, OkBlk obs solve b) ∧ OkBlk obs solve c ∧ ∀ b ∈ r, OkBlk obs solve b)
    (fun res => ∀ b ∈ res, OkBlk obs solve b) ?_ ?_ ?_ ?_ left cur right ⟨hl, hc, hr⟩
  · rintro l c ⟨h1, h2, _⟩ b hb
    rcases List.mem_cons.mp (List.mem_reverse.mp hb) with rfl | hm
    · exact h2
    · exact h1 b hm
  · rintro l c n rest _ ⟨h1, h2, h3⟩
    refine ⟨?_, h3 n (by simp), fun b hb => h3 b (by simp [hb])⟩
    intro b hb
    rcases List.mem_cons.mp hb with rfl | hm
    · exact h2
    · exact h1 b hm
  · rintro c n rest _ ⟨_, h2, h3⟩
    refine ⟨by simp, ⟨?_, Or.inl rfl⟩, fun b hb => h3 b (List.mem_cons_of_mem _ (takeRun_mem _ _ hb))⟩
    simp [pool, h2.1]
  · rintro p l' c n rest _ ⟨h1, h2, h3⟩
    refine ⟨fun b hb => h1 b (by simp [hb]), h1 p (by simp), ?_⟩
    intro b hb
    rcases List.mem_cons.mp hb with rfl | hm
    · exact ⟨by simp [pool, h2.1], Or.inl rfl⟩
    · exact h3 b (List.mem_cons_of_mem _ (takeRun_mem _ _ hm))

theorem raw_ok (obs : α → Rat) (solve : List α → Rat) (x : α) : OkBlk obs solve (raw obs x) :=
  ⟨by simp [raw], Or.inr ⟨x, rfl⟩⟩

theorem pav_ok (obs : α → Rat) (solve : List α → Rat) (ys : List α) : ∀ b ∈ pav obs solve ys, OkBlk obs solve b := by
  unfold pav
  split
  · simp
  · rename_i b bs heq
    have hall : ∀ c ∈ b :: bs, OkBlk obs solve c := by
      rw [← heq]; intro c hc
      obtain ⟨x, _, rfl⟩ := List.mem_map.mp hc
      exact raw_ok obs solve x
    exact go_ok obs solve _ _ _ (by simp) (hall b (by simp)) (fun c hc => hall c (by simp [hc]))

end SV.Model.Isotonic
