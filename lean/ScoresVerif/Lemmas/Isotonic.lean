/-
  Lemmas for C15: invariants of the PAV model (`SV.Model.Isotonic.go`) for an ARBITRARY block solver.
-/
import ScoresVerif.Model.Isotonic
import Mathlib.Tactic.Linarith
import Mathlib.Algebra.Order.Field.Rat
import Mathlib.Data.List.Chain
import Mathlib.Tactic.Ring
import Mathlib.Tactic.FieldSimp
import Mathlib.Tactic.Positivity
import Mathlib.Tactic.NormNum

namespace SV.Model.Isotonic
variable {α : Type}

/-- concatenation of the blocks' items -/
def flat (bs : List (Blk α)) : List α := bs.flatMap (·.items)

@[simp] theorem flat_nil : flat ([] : List (Blk α)) = [] := rfl
@[simp] theorem flat_cons (b : Blk α) (bs : List (Blk α)) : flat (b :: bs) = b.items ++ flat bs := by simp [flat]
@[simp] theorem flat_append (a b : List (Blk α)) : flat (a ++ b) = flat a ++ flat b := by simp [flat]

/-- generic invariant principle for the outer loop -/
theorem go_inv (solve : List α → Rat) (P : List (Blk α) → Blk α → List (Blk α) → Prop) (Q : List (Blk α) → Prop)
    (hdone : ∀ left cur, P left cur [] → Q (cur :: left).reverse)
    (hfwd : ∀ left cur n rest, cur.val < n.val → P left cur (n :: rest) → P (cur :: left) n rest)
    (hm0 : ∀ cur n rest, ¬ cur.val < n.val → P [] cur (n :: rest) → P [] (pool solve cur n rest) (takeRun n.val rest).2)
    (hm1 : ∀ p l' cur n rest, ¬ cur.val < n.val → P (p :: l') cur (n :: rest) →
        P l' p (pool solve cur n rest :: (takeRun n.val rest).2))
    (left : List (Blk α)) (cur : Blk α) (right : List (Blk α)) (h : P left cur right) :
    Q (go solve left cur right) := by
  fun_induction go solve left cur right with
  | case1 left cur => exact hdone _ _ h
  | case2 left cur n rest hlt ih => exact ih (hfwd _ _ _ _ hlt h)
  | case3 cur n rest hlt ih => exact ih (hm0 _ _ _ hlt h)
  | case4 cur n rest hlt p l' ih => exact ih (hm1 _ _ _ _ _ hlt h)

/-! ### takeRun -/

theorem takeRun_flat (prev : Rat) (l : List (Blk α)) : (takeRun prev l).1 ++ flat (takeRun prev l).2 = flat l := by
  induction l generalizing prev with
  | nil => simp [takeRun]
  | cons s rest ih =>
    unfold takeRun
    split
    · simp
    · simp [ih]

theorem takeRun_suffix (prev : Rat) (l : List (Blk α)) : (takeRun prev l).2 <:+ l := by
  induction l generalizing prev with
  | nil => simp [takeRun]
  | cons s rest ih =>
    unfold takeRun
    split
    · exact List.suffix_refl _
    · exact (ih s.val).trans (List.suffix_cons _ _)

theorem takeRun_mem (prev : Rat) (l : List (Blk α)) {b : Blk α} (h : b ∈ (takeRun prev l).2) : b ∈ l :=
  (takeRun_suffix prev l).subset h

/-! ### 1. the blocks partition the input -/

theorem go_flat (solve : List α → Rat) (left : List (Blk α)) (cur : Blk α) (right : List (Blk α)) :
    flat (go solve left cur right) = flat left.reverse ++ cur.items ++ flat right := by
  refine go_inv solve (fun l c r => flat l.reverse ++ c.items ++ flat r = flat left.reverse ++ cur.items ++ flat right)
    (fun res => flat res = flat left.reverse ++ cur.items ++ flat right) ?_ ?_ ?_ ?_ left cur right rfl
  · intro l c h; simpa using h
  · intro l c n rest _ h; simpa using h
  · intro c n rest _ h
    rw [← h]; simp [pool, List.append_assoc, takeRun_flat]
  · intro p l' c n rest _ h
    rw [← h]; simp [pool, List.append_assoc, takeRun_flat]

theorem flat_map_raw (obs : α → Rat) (ys : List α) : flat (ys.map (raw obs)) = ys := by
  induction ys with
  | nil => simp
  | cons z zs ih => simp [raw, ih]

theorem pav_flat (obs : α → Rat) (solve : List α → Rat) (ys : List α) : flat (pav obs solve ys) = ys := by
  unfold pav
  split
  · rename_i heq
    have := flat_map_raw obs ys
    rw [heq] at this; simpa using this
  · rename_i b bs heq
    rw [go_flat]
    have := flat_map_raw obs ys
    rw [heq] at this; simpa using this

/-! ### 2. block values strictly increase -/

theorem go_increasing (solve : List α → Rat) (left : List (Blk α)) (cur : Blk α) (right : List (Blk α))
    (h : (cur :: left).Pairwise (fun newer older => older.val < newer.val)) :
    (go solve left cur right).Pairwise (fun a b => a.val < b.val) := by
  refine go_inv solve (fun l c _ => (c :: l).Pairwise (fun newer older => older.val < newer.val))
    (fun res => res.Pairwise (fun a b => a.val < b.val)) ?_ ?_ ?_ ?_ left cur right h
  · intro l c h; exact List.pairwise_reverse.mpr h
  · intro l c n rest hlt h
    refine List.pairwise_cons.mpr ⟨?_, h⟩
    intro older ho
    rcases List.mem_cons.mp ho with rfl | hm
    · exact hlt
    · exact lt_trans ((List.pairwise_cons.mp h).1 older hm) hlt
  · intro c n rest _ _; simp
  · intro p l' c n rest _ h; exact (List.pairwise_cons.mp h).2

theorem pav_increasing (obs : α → Rat) (solve : List α → Rat) (ys : List α) :
    (pav obs solve ys).Pairwise (fun a b => a.val < b.val) := by
  unfold pav
  split
  · simp
  · exact go_increasing _ _ _ _ (by simp)

/-! ### 3. every block is non-empty and its value is the solver's value of the block, or it is an untouched
        single observation carrying that observation as its value -/

def OkBlk (obs : α → Rat) (solve : List α → Rat) (b : Blk α) : Prop :=
  b.items ≠ [] ∧ (b.val = solve b.items ∨ ∃ x, b = raw obs x)

theorem go_ok (obs : α → Rat) (solve : List α → Rat) (left : List (Blk α)) (cur : Blk α) (right : List (Blk α))
    (hl : ∀ b ∈ left, OkBlk obs solve b) (hc : OkBlk obs solve cur) (hr : ∀ b ∈ right, OkBlk obs solve b) :
    ∀ b ∈ go solve left cur right, OkBlk obs solve b := by
  refine go_inv solve (fun l c r => (∀ b ∈ l, OkBlk obs solve b) ∧ OkBlk obs solve c ∧ ∀ b ∈ r, OkBlk obs solve b)
    (fun res => ∀ b ∈ res, OkBlk obs solve b) ?_ ?_ ?_ ?_ left cur right ⟨hl, hc, hr⟩
  · rintro l c ⟨h1, h2, _⟩ b hb
    rcases List.mem_cons.mp (List.mem_reverse.mp hb) with rfl | hm
    · exact h2
    · exact h1 b hm
  · rintro l c n rest _ ⟨h1, h2, h3⟩
    refine ⟨?_, h3 n (by simp), fun b hb => h3 b (by simp [hb])⟩
    intro b hb
    rcases List.mem_cons.mp hb with rfl | hm
    · exact h2
    · exact h1 b hm
  · rintro c n rest _ ⟨_, h2, h3⟩
    refine ⟨by simp, ⟨?_, Or.inl rfl⟩, fun b hb => h3 b (List.mem_cons_of_mem _ (takeRun_mem _ _ hb))⟩
    simp [pool, h2.1]
  · rintro p l' c n rest _ ⟨h1, h2, h3⟩
    refine ⟨fun b hb => h1 b (by simp [hb]), h1 p (by simp), ?_⟩
    intro b hb
    rcases List.mem_cons.mp hb with rfl | hm
    · exact ⟨by simp [pool, h2.1], Or.inl rfl⟩
    · exact h3 b (List.mem_cons_of_mem _ (takeRun_mem _ _ hm))

theorem raw_ok (obs : α → Rat) (solve : List α → Rat) (x : α) : OkBlk obs solve (raw obs x) :=
  ⟨by simp [raw], Or.inr ⟨x, rfl⟩⟩

theorem pav_ok (obs : α → Rat) (solve : List α → Rat) (ys : List α) : ∀ b ∈ pav obs solve ys, OkBlk obs solve b := by
  unfold pav
  split
  · simp
  · rename_i b bs heq
    have hall : ∀ c ∈ b :: bs, OkBlk obs solve c := by
      rw [← heq]; intro c hc
      obtain ⟨x, _, rfl⟩ := List.mem_map.mp hc
      exact raw_ok obs solve x
    exact go_ok obs solve _ _ _ (by simp) (hall b (by simp)) (fun c hc => hall c (by simp [hc]))

/-! ### 4. block boundaries occur only where the observations strictly increase -/

/-- the last observation of `a` is strictly below the first observation of `b` -/
def Good (obs : α → Rat) (a b : Blk α) : Prop := ∀ x ∈ a.items.getLast?, ∀ y ∈ b.items.head?, obs x < obs y
def IsRaw (obs : α → Rat) (b : Blk α) : Prop := ∃ x, b = raw obs x
def GR (obs : α → Rat) (a b : Blk α) : Prop := Good obs a b ∨ (IsRaw obs a ∧ IsRaw obs b)

theorem GR.good {obs : α → Rat} {a b : Blk α} (h : GR obs a b) (hlt : a.val < b.val) : Good obs a b := by
  rcases h with h | ⟨⟨x, rfl⟩, ⟨y, rfl⟩⟩
  · exact h
  · intro x' hx y' hy
    simp only [raw, List.getLast?_singleton, List.head?_cons, Option.mem_def, Option.some.injEq] at hx hy
    subst hx; subst hy
    exact hlt

theorem takeRun_good (obs : α → Rat) (b : Blk α) (l : List (Blk α)) (hne : ∀ c ∈ l, c.items ≠ [])
    (hch : (b :: l).IsChain (GR obs)) :
    ∀ s ∈ (takeRun b.val l).2.head?, ∀ x ∈ (b.items ++ (takeRun b.val l).1).getLast?, ∀ y ∈ s.items.head?,
      obs x < obs y := by
  induction l generalizing b with
  | nil => simp [takeRun]
  | cons s rest ih =>
    have hbs : GR obs b s := (List.isChain_cons_cons.mp hch).1
    have hrest : (s :: rest).IsChain (GR obs) := (List.isChain_cons_cons.mp hch).2
    unfold takeRun
    split
    · rename_i hlt
      intro s' hs' x hx y hy
      simp only [List.head?_cons, Option.mem_def, Option.some.injEq] at hs'
      subst hs'
      simp only [List.append_nil] at hx
      exact hbs.good hlt x hx y hy
    · intro s' hs' x hx y hy
      have hsne : s.items ≠ [] := hne s (by simp)
      have hY : s.items ++ (takeRun s.val rest).1 ≠ [] := by simp [hsne]
      rw [List.getLast?_append_of_ne_nil _ hY] at hx
      exact ih s (fun c hc => hne c (by simp [hc])) hrest s' hs' x hx y hy

/-- the pooled block followed by the untouched remainder is again a chain, and its head link is Good -/
theorem pool_chain (obs : α → Rat) (solve : List α → Rat) (c n : Blk α) (rest : List (Blk α))
    (hne : ∀ b ∈ n :: rest, b.items ≠ []) (hch : (n :: rest).IsChain (GR obs)) :
    (pool solve c n rest :: (takeRun n.val rest).2).IsChain (GR obs) := by
  refine List.IsChain.cons ?_ ?_
  · exact List.IsChain.suffix (List.IsChain.tail hch) (takeRun_suffix _ _)
  · intro s hs
    left
    intro x hx y hy
    have hY : n.items ++ (takeRun n.val rest).1 ≠ [] := by simp [hne n (by simp)]
    have hx' : x ∈ (n.items ++ (takeRun n.val rest).1).getLast? := by
      have : (pool solve c n rest).items = c.items ++ (n.items ++ (takeRun n.val rest).1) := by
        simp [pool, List.append_assoc]
      rw [this, List.getLast?_append_of_ne_nil _ hY] at hx
      exact hx
    exact takeRun_good obs n rest (fun b hb => hne b (by simp [hb])) hch s hs x hx' y hy

theorem go_good (obs : α → Rat) (solve : List α → Rat) (left : List (Blk α)) (cur : Blk α) (right : List (Blk α))
    (hne : ∀ b ∈ cur :: left ++ right, b.items ≠ [])
    (h1 : (left.reverse ++ [cur]).IsChain (Good obs)) (h2 : (cur :: right).IsChain (GR obs)) :
    (go solve left cur right).IsChain (Good obs) := by
  refine go_inv solve (fun l c r => (∀ b ∈ c :: l ++ r, b.items ≠ []) ∧ (l.reverse ++ [c]).IsChain (Good obs) ∧
      (c :: r).IsChain (GR obs)) (fun res => res.IsChain (Good obs)) ?_ ?_ ?_ ?_ left cur right ⟨hne, h1, h2⟩
  · rintro l c ⟨_, h1, _⟩
    simpa using h1
  · rintro l c n rest hlt ⟨hne, h1, h2⟩
    refine ⟨?_, ?_, (List.isChain_cons_cons.mp h2).2⟩
    · intro b hb
      apply hne b
      simp only [List.cons_append, List.mem_cons, List.mem_append] at hb ⊢
      tauto
    · have hg : Good obs c n := (List.isChain_cons_cons.mp h2).1.good hlt
      rw [List.reverse_cons]
      refine List.IsChain.append h1 (List.isChain_singleton _) ?_
      intro x hx y hy
      simp only [List.getLast?_append, List.getLast?_singleton, Option.mem_def, Option.some_or, Option.some.injEq,
        List.head?_cons] at hx hy
      subst hx; subst hy
      exact hg
  · rintro c n rest hlt ⟨hne, _, h2⟩
    have hne' : ∀ b ∈ n :: rest, b.items ≠ [] := fun b hb => hne b (by
      simp only [List.cons_append, List.nil_append, List.mem_cons] at hb ⊢; tauto)
    refine ⟨?_, by simp, pool_chain obs solve c n rest hne' (List.isChain_cons_cons.mp h2).2⟩
    intro b hb
    simp only [List.cons_append, List.nil_append, List.mem_cons] at hb
    rcases hb with rfl | hb
    · simp [pool, hne c (by simp)]
    · exact hne' b (List.mem_cons_of_mem _ (takeRun_mem _ _ hb))
  · rintro p l' c n rest hlt ⟨hne, h1, h2⟩
    have hne' : ∀ b ∈ n :: rest, b.items ≠ [] := fun b hb => hne b (by
      simp only [List.cons_append, List.mem_cons, List.mem_append] at hb ⊢; tauto)
    have hcne : c.items ≠ [] := hne c (by simp)
    rw [List.reverse_cons] at h1
    have h1' := List.isChain_append.mp h1
    refine ⟨?_, h1'.1, ?_⟩
    · intro b hb
      simp only [List.cons_append, List.mem_cons, List.mem_append] at hb
      rcases hb with rfl | hb | rfl | hb
      · exact hne b (by simp)
      · exact hne b (by simp [hb])
      · simp [pool, hcne]
      · exact hne' b (List.mem_cons_of_mem _ (takeRun_mem _ _ hb))
    · refine List.IsChain.cons_cons ?_ (pool_chain obs solve c n rest hne' (List.isChain_cons_cons.mp h2).2)
      left
      have hpc : Good obs p c := by
        apply h1'.2.2 p _ c _ <;> simp
      intro x hx y hy
      have : (pool solve c n rest).items.head? = c.items.head? := by
        simp [pool, List.append_assoc, List.head?_append_of_ne_nil _ hcne]
      rw [this] at hy
      exact hpc x hx y hy

theorem pav_good (obs : α → Rat) (solve : List α → Rat) (ys : List α) :
    (pav obs solve ys).IsChain (Good obs) := by
  unfold pav
  split
  · simp
  · rename_i b bs heq
    have hraw : ∀ c ∈ b :: bs, IsRaw obs c := by
      rw [← heq]; intro c hc
      obtain ⟨x, _, rfl⟩ := List.mem_map.mp hc
      exact ⟨x, rfl⟩
    apply go_good
    · intro c hc
      obtain ⟨x, rfl⟩ := hraw c (by simpa using hc)
      simp [raw]
    · simp
    · have : ∀ l : List (Blk α), (∀ c ∈ l, IsRaw obs c) → l.IsChain (GR obs) := by
        intro l
        induction l with
        | nil => simp
        | cons a t ih =>
          intro h
          refine List.IsChain.cons (ih fun c hc => h c (by simp [hc])) ?_
          intro y hy
          exact Or.inr ⟨h a (by simp), h y (by simp [List.mem_of_mem_head? hy])⟩
      exact this _ hraw

/-! ### 5. consequences for the fitted sequence -/

theorem isChain_and {β : Type} {R S : β → β → Prop} {l : List β} (h1 : l.IsChain R) (h2 : l.IsChain S) :
    l.IsChain (fun a b => R a b ∧ S a b) := by
  induction l with
  | nil => simp
  | cons a t ih =>
    cases t with
    | nil => simp
    | cons b t =>
      simp only [List.isChain_cons_cons] at *
      exact ⟨⟨h1.1, h2.1⟩, ih h1.2 h2.2⟩

theorem expand_fst (bs : List (Blk α)) : (expand bs).map (·.1) = flat bs := by
  induction bs with
  | nil => simp [expand]
  | cons b t ih =>
    simp only [expand, List.flatMap_cons, List.map_append, flat_cons] at *
    rw [ih]; congr 1
    rw [List.map_map]
    exact List.map_id _

theorem expand_monotone (bs : List (Blk α)) (h : bs.Pairwise (fun a b => a.val < b.val)) :
    (expand bs).Pairwise (fun a b => a.2 ≤ b.2) := by
  unfold expand
  rw [List.pairwise_flatMap]
  refine ⟨?_, h.imp ?_⟩
  · intro b _
    rw [List.pairwise_map]
    exact List.pairwise_of_forall (fun _ _ => le_refl _)
  · intro a b hab x hx y hy
    obtain ⟨_, _, rfl⟩ := List.mem_map.mp hx
    obtain ⟨_, _, rfl⟩ := List.mem_map.mp hy
    exact le_of_lt hab

/-- if equal keys of ADJACENT input items force the observations to be non-increasing, then adjacent fitted items
    with equal keys carry the same fitted value (for any solver) -/
theorem expand_ties (obs key : α → Rat) (bs : List (Blk α)) (hne : ∀ b ∈ bs, b.items ≠ [])
    (hg : bs.IsChain (Good obs)) (hs : (flat bs).IsChain (fun a b => key a = key b → obs b ≤ obs a)) :
    (expand bs).IsChain (fun a b => key a.1 = key b.1 → a.2 = b.2) := by
  have hs' : bs.IsChain (fun a b => ∀ x ∈ a.items.getLast?, ∀ y ∈ b.items.head?, key x = key y → obs y ≤ obs x) := by
    unfold flat at hs
    rw [List.flatMap_def, List.isChain_flatten] at hs
    · exact (List.isChain_map _).mp hs.2
    · intro hmem
      obtain ⟨b, hb, hb'⟩ := List.mem_map.mp hmem
      exact hne b hb hb'
  unfold expand
  rw [List.flatMap_def, List.isChain_flatten]
  · refine ⟨?_, ?_⟩
    · intro l hl
      obtain ⟨b, _, rfl⟩ := List.mem_map.mp hl
      rw [List.isChain_map]
      exact List.Pairwise.isChain (List.pairwise_of_forall (fun _ _ _ => rfl))
    · rw [List.isChain_map]
      refine (isChain_and hg hs').imp ?_
      rintro a b ⟨hgood, hsort⟩ x hx y hy hk
      rw [List.getLast?_map] at hx
      rw [List.head?_map] at hy
      obtain ⟨x0, hx0, rfl⟩ := Option.mem_map.mp hx
      obtain ⟨y0, hy0, rfl⟩ := Option.mem_map.mp hy
      exact absurd (hsort x0 hx0 y0 hy0 hk) (not_le.mpr (hgood x0 hx0 y0 hy0))
  · intro hmem
    obtain ⟨b, hb, hb'⟩ := List.mem_map.mp hmem
    exact hne b hb (by simpa using hb'.symm)

theorem fit_fst (obs : α → Rat) (solve : List α → Rat) (ys : List α) : (fit obs solve ys).map (·.1) = ys := by
  unfold fit; rw [expand_fst, pav_flat]

theorem fit_monotone (obs : α → Rat) (solve : List α → Rat) (ys : List α) :
    (fit obs solve ys).Pairwise (fun a b => a.2 ≤ b.2) :=
  expand_monotone _ (pav_increasing obs solve ys)

theorem fit_ties (obs key : α → Rat) (solve : List α → Rat) (ys : List α)
    (hs : ys.IsChain (fun a b => key a = key b → obs b ≤ obs a)) :
    (fit obs solve ys).IsChain (fun a b => key a.1 = key b.1 → a.2 = b.2) := by
  unfold fit
  apply expand_ties obs key
  · exact fun b hb => (pav_ok obs solve ys b hb).1
  · exact pav_good obs solve ys
  · rw [pav_flat]; exact hs

/-! ### 6. `tidy` sorts by (forecast ascending, observation descending) -/

theorem keyLe_iff (a b : Pair) : keyLe a b = true ↔ a.1 < b.1 ∨ (a.1 = b.1 ∧ b.2.1 ≤ a.2.1) := by
  simp [keyLe]

theorem tidy_sorted (ps : List Pair) : (tidy ps).Pairwise (fun a b => keyLe a b = true) := by
  unfold tidy
  apply List.pairwise_mergeSort
  · intro a b c hab hbc
    rw [keyLe_iff] at *
    rcases hab with h1 | ⟨h1, h1'⟩ <;> rcases hbc with h2 | ⟨h2, h2'⟩
    · exact Or.inl (lt_trans h1 h2)
    · exact Or.inl (h2 ▸ h1)
    · exact Or.inl (h1 ▸ h2)
    · exact Or.inr ⟨h1.trans h2, le_trans h2' h1'⟩
  · intro a b
    rw [Bool.or_eq_true, keyLe_iff, keyLe_iff]
    rcases lt_trichotomy a.1 b.1 with h | h | h
    · exact Or.inl (Or.inl h)
    · rcases le_total a.2.1 b.2.1 with h' | h'
      · exact Or.inr (Or.inr ⟨h.symm, h'⟩)
      · exact Or.inl (Or.inr ⟨h, h'⟩)
    · exact Or.inr (Or.inl h)

theorem tidy_perm (ps : List Pair) : (tidy ps).Perm ps := List.mergeSort_perm _ _

/-! ### 7. counts -/

theorem groups_count_sum (z : List (Rat × Rat)) : ((groups z).map (·.2.1)).sum = z.length := by
  induction z with
  | nil => simp [groups]
  | cons a t ih =>
    obtain ⟨f, y⟩ := a
    unfold groups
    split
    · rename_i heq; rw [heq] at ih
      cases t with
      | nil => simp
      | cons a' t' => simp at ih
    · rename_i f' c y' g heq
      rw [heq] at ih
      simp only [List.map_cons, List.sum_cons, List.length_cons] at ih ⊢
      split <;> simp only [List.map_cons, List.sum_cons] <;> omega

/-! ### 8. the weighted mean -/

theorem wsum_cons (x : Item) (l : List Item) : wsum (x :: l) = x.2 * x.1 + wsum l := by simp [wsum]
theorem wtot_cons (x : Item) (l : List Item) : wtot (x :: l) = x.2 + wtot l := by simp [wtot]
theorem wsum_append (a b : List Item) : wsum (a ++ b) = wsum a + wsum b := by simp [wsum]
theorem wtot_append (a b : List Item) : wtot (a ++ b) = wtot a + wtot b := by simp [wtot]

theorem wtot_pos {l : List Item} (hne : l ≠ []) (hw : ∀ x ∈ l, 0 < x.2) : 0 < wtot l := by
  induction l with
  | nil => exact absurd rfl hne
  | cons x t ih =>
    rw [wtot_cons]
    have hx : 0 < x.2 := hw x (by simp)
    by_cases ht : t = []
    · subst ht; simpa [wtot] using hx
    · have := ih ht (fun y hy => hw y (by simp [hy])); linarith

theorem wsum_ge {l : List Item} (lo : Rat) (hw : ∀ x ∈ l, 0 < x.2) (hlo : ∀ x ∈ l, lo ≤ x.1) : lo * wtot l ≤ wsum l := by
  induction l with
  | nil => simp [wsum, wtot]
  | cons x t ih =>
    rw [wtot_cons, wsum_cons]
    have := ih (fun y hy => hw y (by simp [hy])) (fun y hy => hlo y (by simp [hy]))
    have h1 := hw x (by simp)
    have h2 := hlo x (by simp)
    nlinarith

theorem wsum_le {l : List Item} (hi : Rat) (hw : ∀ x ∈ l, 0 < x.2) (hhi : ∀ x ∈ l, x.1 ≤ hi) : wsum l ≤ hi * wtot l := by
  induction l with
  | nil => simp [wsum, wtot]
  | cons x t ih =>
    rw [wtot_cons, wsum_cons]
    have := ih (fun y hy => hw y (by simp [hy])) (fun y hy => hhi y (by simp [hy]))
    have h1 := hw x (by simp)
    have h2 := hhi x (by simp)
    nlinarith

theorem wmean_ge {l : List Item} (lo : Rat) (hne : l ≠ []) (hw : ∀ x ∈ l, 0 < x.2) (hlo : ∀ x ∈ l, lo ≤ x.1) :
    lo ≤ wmean l := by
  unfold wmean
  rw [le_div_iff₀ (wtot_pos hne hw)]
  exact wsum_ge lo hw hlo

theorem wmean_le {l : List Item} (hi : Rat) (hne : l ≠ []) (hw : ∀ x ∈ l, 0 < x.2) (hhi : ∀ x ∈ l, x.1 ≤ hi) :
    wmean l ≤ hi := by
  unfold wmean
  rw [div_le_iff₀ (wtot_pos hne hw)]
  exact wsum_le hi hw hhi

theorem wmean_singleton (x : Item) (hw : x.2 ≠ 0) : wmean [x] = x.1 := by
  simp [wmean, wsum, wtot]; field_simp

theorem wmean_mul_wtot {l : List Item} (h : wtot l ≠ 0) : wmean l * wtot l = wsum l := by
  unfold wmean; field_simp

/-! ### 9. the mean functional: KKT prefix invariant and optimality -/

/-- Σ w and Σ w·y over a list of pairs -/
def Wp (l : List Pair) : Rat := (l.map fun p => p.2.2).sum
def Sp (l : List Pair) : Rat := (l.map fun p => p.2.2 * p.2.1).sum

@[simp] theorem Wp_nil : Wp [] = 0 := rfl
@[simp] theorem Sp_nil : Sp [] = 0 := rfl
@[simp] theorem Wp_cons (p : Pair) (l : List Pair) : Wp (p :: l) = p.2.2 + Wp l := by simp [Wp]
@[simp] theorem Sp_cons (p : Pair) (l : List Pair) : Sp (p :: l) = p.2.2 * p.2.1 + Sp l := by simp [Sp]
@[simp] theorem Wp_append (a b : List Pair) : Wp (a ++ b) = Wp a + Wp b := by simp [Wp]
@[simp] theorem Sp_append (a b : List Pair) : Sp (a ++ b) = Sp a + Sp b := by simp [Sp]

theorem wtot_itemsOf (l : List Pair) : wtot (itemsOf l) = Wp l := by simp [wtot, itemsOf, Wp, List.map_map, Function.comp_def]
theorem wsum_itemsOf (l : List Pair) : wsum (itemsOf l) = Sp l := by simp [wsum, itemsOf, Sp, List.map_map, Function.comp_def]
theorem wmean_itemsOf (l : List Pair) : wmean (itemsOf l) = Sp l / Wp l := by simp [wmean, wtot_itemsOf, wsum_itemsOf]

theorem Wp_nonneg {l : List Pair} (hw : ∀ p ∈ l, 0 < p.2.2) : 0 ≤ Wp l := by
  induction l with
  | nil => simp
  | cons p t ih =>
    have := ih (fun q hq => hw q (by simp [hq])); have := hw p (by simp); simp; linarith

theorem Wp_pos {l : List Pair} (hne : l ≠ []) (hw : ∀ p ∈ l, 0 < p.2.2) : 0 < Wp l := by
  cases l with
  | nil => exact absurd rfl hne
  | cons p t =>
    have := Wp_nonneg (l := t) (fun q hq => hw q (by simp [hq])); have := hw p (by simp); simp; linarith

theorem Wp_prefix_le {P l : List Pair} (hP : P <+: l) (hw : ∀ p ∈ l, 0 < p.2.2) : Wp P ≤ Wp l := by
  obtain ⟨s, rfl⟩ := hP
  have := Wp_nonneg (l := s) (fun q hq => hw q (by simp [hq]))
  simp; linarith

/-- KKT prefix condition: every prefix of the block has weighted mean ≥ μ (written without division) -/
def KKT (μ : Rat) (l : List Pair) : Prop := ∀ P, P <+: l → μ * Wp P ≤ Sp P

theorem prefix_append_cases {P A R : List Pair} (h : P <+: A ++ R) : P <+: A ∨ ∃ Q, Q <+: R ∧ P = A ++ Q := by
  induction A generalizing P with
  | nil => exact Or.inr ⟨P, by simpa using h, by simp⟩
  | cons a A' ih =>
    rw [List.cons_append, List.prefix_cons_iff] at h
    rcases h with rfl | ⟨t, rfl, ht⟩
    · exact Or.inl (List.nil_prefix)
    · rcases ih ht with h1 | ⟨Q, hQ, rfl⟩
      · exact Or.inl ((List.cons_prefix_cons).mpr ⟨rfl, h1⟩)
      · exact Or.inr ⟨Q, hQ, by simp⟩

/-- two adjacent KKT blocks with non-increasing means pool into a KKT block; the pooled mean lies between -/
theorem kkt_pool {A R : List Pair} {a r : Rat} (hA : KKT a A) (hR : KKT r R) (bA : Sp A = a * Wp A) (bR : Sp R = r * Wp R)
    (hra : r ≤ a) (wA : 0 < Wp A) (wR : 0 < Wp R) (hwR : ∀ p ∈ R, 0 < p.2.2) (hwA : ∀ p ∈ A, 0 < p.2.2) :
    KKT (Sp (A ++ R) / Wp (A ++ R)) (A ++ R) ∧ Sp (A ++ R) / Wp (A ++ R) ≤ a ∧ r ≤ Sp (A ++ R) / Wp (A ++ R) := by
  have hW : 0 < Wp (A ++ R) := by simp; linarith
  set μ := Sp (A ++ R) / Wp (A ++ R) with hμ
  have hμW : μ * (Wp A + Wp R) = a * Wp A + r * Wp R := by
    rw [hμ]; simp only [Sp_append, Wp_append, bA, bR]; field_simp
  have hμa : μ ≤ a := by
    rw [hμ, div_le_iff₀ hW]; simp only [Sp_append, Wp_append, bA, bR]; nlinarith
  have hrμ : r ≤ μ := by
    rw [hμ, le_div_iff₀ hW]; simp only [Sp_append, Wp_append, bA, bR]; nlinarith
  refine ⟨?_, hμa, hrμ⟩
  intro P hP
  rcases prefix_append_cases hP with h1 | ⟨Q, hQ, rfl⟩
  · have := hA P h1
    have hwp : 0 ≤ Wp P := by
      obtain ⟨s, rfl⟩ := h1
      exact Wp_nonneg (fun q hq => hwA q (by simp [hq]))
    nlinarith
  · have h2 := hR Q hQ
    have hq : Wp Q ≤ Wp R := Wp_prefix_le hQ hwR
    simp only [Sp_append, Wp_append, bA]
    nlinarith

/-- block invariant for the mean functional -/
def KBlk (b : Blk Pair) : Prop :=
  b.items ≠ [] ∧ (∀ p ∈ b.items, 0 < p.2.2) ∧ Sp b.items = b.val * Wp b.items ∧ KKT b.val b.items

theorem kblk_raw (p : Pair) (hw : 0 < p.2.2) : KBlk (raw obsOf p) := by
  refine ⟨by simp [raw], by simpa [raw] using hw, by simp [raw, obsOf]; ring, ?_⟩
  intro P hP
  simp only [raw] at hP
  rw [List.prefix_cons_iff] at hP
  rcases hP with rfl | ⟨t, rfl, ht⟩
  · simp
  · have : t = [] := by simpa using ht
    subst this
    simp [raw, obsOf]; ring_nf; exact le_refl _

theorem kkt_self_mean {l : List Pair} {v : Rat} (hK : KKT v l) (hb : Sp l = v * Wp l) (hW : 0 < Wp l) :
    KKT (Sp l / Wp l) l ∧ Sp l / Wp l = v := by
  have : Sp l / Wp l = v := by rw [hb]; field_simp
  rw [this]; exact ⟨hK, rfl⟩

theorem takeRun_kkt (n : Blk Pair) (rest : List (Blk Pair)) (hn : KBlk n) (hr : ∀ b ∈ rest, KBlk b) :
    KKT (Sp (n.items ++ (takeRun n.val rest).1) / Wp (n.items ++ (takeRun n.val rest).1)) (n.items ++ (takeRun n.val rest).1) ∧
    Sp (n.items ++ (takeRun n.val rest).1) / Wp (n.items ++ (takeRun n.val rest).1) ≤ n.val ∧
    (∀ p ∈ n.items ++ (takeRun n.val rest).1, 0 < p.2.2) ∧ n.items ++ (takeRun n.val rest).1 ≠ [] := by
  induction rest generalizing n with
  | nil =>
    obtain ⟨hne, hw, hb, hK⟩ := hn
    have hW := Wp_pos hne hw
    have := kkt_self_mean hK hb hW
    simp only [takeRun, List.append_nil]
    exact ⟨this.1, le_of_eq this.2, hw, hne⟩
  | cons s rest' ih =>
    obtain ⟨hne, hw, hb, hK⟩ := hn
    have hW := Wp_pos hne hw
    unfold takeRun
    split
    · have := kkt_self_mean hK hb hW
      simp only [List.append_nil]
      exact ⟨this.1, le_of_eq this.2, hw, hne⟩
    · rename_i hlt
      have hsn : s.val ≤ n.val := not_lt.mp hlt
      obtain ⟨k1, k2, k3, k4⟩ := ih s (hr s (by simp)) (fun b hb => hr b (by simp [hb]))
      simp only
      have hWR := Wp_pos k4 k3
      have bR : Sp (s.items ++ (takeRun s.val rest').1) =
          Sp (s.items ++ (takeRun s.val rest').1) / Wp (s.items ++ (takeRun s.val rest').1) * Wp (s.items ++ (takeRun s.val rest').1) := by
        field_simp
      have := kkt_pool hK k1 hb bR (le_trans k2 hsn) hW hWR k3 hw
      refine ⟨this.1, this.2.1, ?_, by simp [hne]⟩
      intro p hp
      rcases List.mem_append.mp hp with h | h
      · exact hw p h
      · exact k3 p h

theorem pool_kblk (c n : Blk Pair) (rest : List (Blk Pair)) (hc : KBlk c) (hn : KBlk n) (hr : ∀ b ∈ rest, KBlk b)
    (hnc : ¬ c.val < n.val) : KBlk (pool (fun l => wmean (itemsOf l)) c n rest) := by
  obtain ⟨k1, k2, k3, k4⟩ := takeRun_kkt n rest hn hr
  obtain ⟨hne, hw, hb, hK⟩ := hc
  have hW := Wp_pos hne hw
  have hWR := Wp_pos k4 k3
  have bR : Sp (n.items ++ (takeRun n.val rest).1) =
      Sp (n.items ++ (takeRun n.val rest).1) / Wp (n.items ++ (takeRun n.val rest).1) * Wp (n.items ++ (takeRun n.val rest).1) := by
    field_simp
  have := kkt_pool hK k1 hb bR (le_trans k2 (not_lt.mp hnc)) hW hWR k3 hw
  have hitems : (pool (fun l => wmean (itemsOf l)) c n rest).items = c.items ++ (n.items ++ (takeRun n.val rest).1) := by
    simp [pool, List.append_assoc]
  have hval : (pool (fun l => wmean (itemsOf l)) c n rest).val =
      Sp (c.items ++ (n.items ++ (takeRun n.val rest).1)) / Wp (c.items ++ (n.items ++ (takeRun n.val rest).1)) := by
    simp only [pool, wmean_itemsOf, List.append_assoc]
  have hWall : 0 < Wp (c.items ++ (n.items ++ (takeRun n.val rest).1)) := by rw [Wp_append]; linarith
  refine ⟨by rw [hitems]; simp [hne], ?_, ?_, ?_⟩
  · rw [hitems]; intro p hp
    rcases List.mem_append.mp hp with h | h
    · exact hw p h
    · exact k3 p h
  · rw [hitems, hval]; field_simp
  · rw [hitems, hval]; exact this.1

theorem go_kblk (left : List (Blk Pair)) (cur : Blk Pair) (right : List (Blk Pair))
    (h : ∀ b ∈ cur :: left ++ right, KBlk b) : ∀ b ∈ go (fun l => wmean (itemsOf l)) left cur right, KBlk b := by
  refine go_inv _ (fun l c r => ∀ b ∈ c :: l ++ r, KBlk b) (fun res => ∀ b ∈ res, KBlk b) ?_ ?_ ?_ ?_ left cur right h
  · intro l c h b hb
    exact h b (by simpa using List.mem_reverse.mp hb)
  · intro l c n rest _ h b hb
    apply h b
    simp only [List.cons_append, List.mem_cons, List.mem_append] at hb ⊢
    tauto
  · intro c n rest hlt h b hb
    simp only [List.cons_append, List.nil_append, List.mem_cons] at hb
    rcases hb with rfl | hb
    · exact pool_kblk c n rest (h c (by simp)) (h n (by simp)) (fun b hb => h b (by simp [hb])) hlt
    · exact h b (by simp [takeRun_mem _ _ hb])
  · intro p l' c n rest hlt h b hb
    simp only [List.cons_append, List.mem_cons, List.mem_append] at hb
    rcases hb with rfl | hb | rfl | hb
    · exact h b (by simp)
    · exact h b (by simp [hb])
    · exact pool_kblk c n rest (h c (by simp)) (h n (by simp)) (fun b hb => h b (by simp [hb])) hlt
    · exact h b (by simp [takeRun_mem _ _ hb])

theorem pav_kblk (t : List Pair) (hw : ∀ p ∈ t, 0 < p.2.2) :
    ∀ b ∈ pav obsOf (fun l => wmean (itemsOf l)) t, KBlk b := by
  unfold pav
  split
  · simp
  · rename_i b bs heq
    apply go_kblk
    intro c hc
    have hc' : c ∈ t.map (raw obsOf) := by rw [heq]; simpa using hc
    obtain ⟨p, hp, rfl⟩ := List.mem_map.mp hc'
    exact kblk_raw p (hw p hp)

/-! ### optimality of the mean fit (Abel summation from the KKT prefix condition) -/

theorem abel (μ : Rat) (z : Pair → Rat) (l : List Pair) (hK : KKT μ l) (hz : (l.map z).Pairwise (· ≤ ·))
    (ub : Rat) (hub : ∀ x ∈ l, z x ≤ ub) :
    (l.map fun p => p.2.2 * (p.2.1 - μ) * z p).sum ≤ (Sp l - μ * Wp l) * ub := by
  induction l using List.reverseRecOn generalizing ub with
  | nil => simp
  | append_singleton l' x ih =>
    have hK' : KKT μ l' := fun P hP => hK P (hP.trans (List.prefix_append _ _))
    rw [List.map_append, List.pairwise_append] at hz
    have hle : ∀ y ∈ l', z y ≤ z x := by
      intro y hy
      exact hz.2.2 (z y) (List.mem_map_of_mem hy) (z x) (by simp)
    have := ih hK' hz.1 (z x) hle
    have hnn : 0 ≤ Sp (l' ++ [x]) - μ * Wp (l' ++ [x]) := by
      have := hK (l' ++ [x]) (List.prefix_refl _); linarith
    have hx : z x ≤ ub := hub x (by simp)
    simp only [List.map_append, List.map_cons, List.map_nil, List.sum_append, List.sum_cons, List.sum_nil, Sp_append,
      Wp_append, Sp_cons, Wp_cons, Sp_nil, Wp_nil, add_zero] at hnn ⊢
    nlinarith

theorem abel0 (μ : Rat) (z : Pair → Rat) (l : List Pair) (hK : KKT μ l) (hb : Sp l = μ * Wp l)
    (hz : (l.map z).Pairwise (· ≤ ·)) : (l.map fun p => p.2.2 * (p.2.1 - μ) * z p).sum ≤ 0 := by
  rcases List.eq_nil_or_concat l with rfl | ⟨l', x, rfl⟩
  · simp
  · rw [List.concat_eq_append] at *
    have hz' := hz
    rw [List.map_append, List.pairwise_append] at hz'
    have := abel μ z (l' ++ [x]) hK hz (z x) (by
      intro y hy
      rcases List.mem_append.mp hy with h | h
      · exact hz'.2.2 (z y) (List.mem_map_of_mem h) (z x) (by simp)
      · simp at h; subst h; exact le_refl _)
    rw [hb] at this
    simpa using this

theorem sse_split (μ : Rat) (z : Pair → Rat) (l : List Pair) :
    (l.map fun p => p.2.2 * (p.2.1 - z p) ^ 2).sum =
      (l.map fun p => p.2.2 * (p.2.1 - μ) ^ 2).sum + (l.map fun p => p.2.2 * (μ - z p) ^ 2).sum
        + 2 * (μ * (Sp l - μ * Wp l) - (l.map fun p => p.2.2 * (p.2.1 - μ) * z p).sum) := by
  induction l with
  | nil => simp
  | cons p t ih => simp only [List.map_cons, List.sum_cons, Sp_cons, Wp_cons, ih]; ring

/-- on one KKT block the block mean beats every competitor that is non-decreasing along the block, with the
    strong-convexity gap Σ w (μ − z)² -/
theorem block_optimal (b : Blk Pair) (hb : KBlk b) (z : Pair → Rat) (hz : (b.items.map z).Pairwise (· ≤ ·)) :
    (b.items.map fun p => p.2.2 * (p.2.1 - b.val) ^ 2).sum + (b.items.map fun p => p.2.2 * (b.val - z p) ^ 2).sum
      ≤ (b.items.map fun p => p.2.2 * (p.2.1 - z p) ^ 2).sum := by
  obtain ⟨_, hw, hbal, hK⟩ := hb
  rw [sse_split b.val z b.items]
  have h1 := abel0 b.val z b.items hK hbal hz
  rw [hbal]
  nlinarith

theorem blocks_optimal (bs : List (Blk Pair)) (hb : ∀ b ∈ bs, KBlk b) (z : Pair → Rat)
    (hz : ((flat bs).map z).Pairwise (· ≤ ·)) :
    ((expand bs).map fun pv => pv.1.2.2 * (pv.1.2.1 - pv.2) ^ 2).sum + ((expand bs).map fun pv => pv.1.2.2 * (pv.2 - z pv.1) ^ 2).sum
      ≤ ((flat bs).map fun p => p.2.2 * (p.2.1 - z p) ^ 2).sum := by
  induction bs with
  | nil => simp [expand]
  | cons b rest ih =>
    rw [flat_cons, List.map_append, List.pairwise_append] at hz
    have h1 := block_optimal b (hb b (by simp)) z hz.1
    have h2 := ih (fun c hc => hb c (by simp [hc])) hz.2.1
    simp only [expand, List.flatMap_cons, List.map_append, List.sum_append, flat_cons] at h2 ⊢
    have h3 : (List.map (fun pv : Pair × Rat => pv.1.2.2 * (pv.1.2.1 - pv.2) ^ 2) (List.map (fun x => (x, b.val)) b.items)).sum
        = (b.items.map fun p => p.2.2 * (p.2.1 - b.val) ^ 2).sum := by
      rw [List.map_map]; rfl
    have h4 : (List.map (fun pv : Pair × Rat => pv.1.2.2 * (pv.2 - z pv.1) ^ 2) (List.map (fun x => (x, b.val)) b.items)).sum
        = (b.items.map fun p => p.2.2 * (b.val - z p) ^ 2).sum := by
      rw [List.map_map]; rfl
    rw [h3, h4]
    linarith

/-- a sum of non-negative terms that is ≤ 0 has only zero terms -/
theorem all_zero_of_sum_nonpos {β : Type} (l : List β) (f : β → Rat) (hnn : ∀ x ∈ l, 0 ≤ f x) (h : (l.map f).sum ≤ 0) :
    ∀ x ∈ l, f x = 0 := by
  induction l with
  | nil => simp
  | cons a t ih =>
    simp only [List.map_cons, List.sum_cons] at h
    have ha := hnn a (by simp)
    have ht : 0 ≤ (t.map f).sum := List.sum_nonneg (by
      intro y hy; obtain ⟨x, hx, rfl⟩ := List.mem_map.mp hy; exact hnn x (by simp [hx]))
    intro x hx
    rcases List.mem_cons.mp hx with rfl | hm
    · linarith
    · exact ih (fun y hy => hnn y (by simp [hy])) (by linarith) x hm

/-! ### 10. `_nanquantile` is monotone in the level -/

theorem lerpAt_bounds (A : Int → Rat) (pos : Rat) (h : A pos.floor ≤ A pos.ceil) :
    A pos.floor ≤ lerpAt A pos ∧ lerpAt A pos ≤ A pos.ceil := by
  unfold lerpAt
  split
  · rename_i heq; rw [← heq]; exact ⟨le_refl _, le_refl _⟩
  · rename_i hne
    have h1 : (pos.floor : Rat) ≤ pos := Rat.floor_le pos
    have h2 : pos ≤ (pos.ceil : Rat) := Rat.le_ceil
    have h3 : pos.ceil ≤ pos.floor + 1 := by
      rw [Rat.ceil_le_iff]; exact le_of_lt (Rat.lt_floor_add_one pos)
    have h4 : pos.floor < pos.ceil := by
      have : pos.floor ≤ pos.ceil := by
        have : (pos.floor : Rat) ≤ (pos.ceil : Rat) := le_trans h1 h2
        exact_mod_cast this
      omega
    have h5 : pos.ceil = pos.floor + 1 := by omega
    have h6 : (pos.ceil : Rat) = (pos.floor : Rat) + 1 := by rw [h5]; push_cast; ring
    have e1 := mul_nonneg (sub_nonneg.mpr h) (sub_nonneg.mpr h1)
    have e2 := mul_nonneg (sub_nonneg.mpr h) (sub_nonneg.mpr h2)
    rw [h6] at e2 ⊢
    constructor <;> nlinarith

theorem lerpAt_mono (A : Int → Rat) (lo hi : Int) (hA : ∀ i j, lo ≤ i → i ≤ j → j ≤ hi → A i ≤ A j)
    (p1 p2 : Rat) (h12 : p1 ≤ p2) (h1 : (lo : Rat) ≤ p1) (h2 : p2 ≤ (hi : Rat)) : lerpAt A p1 ≤ lerpAt A p2 := by
  have f1lo : lo ≤ p1.floor := Rat.le_floor_iff.mpr h1
  have f12 : p1.floor ≤ p2.floor := Rat.floor_monotone h12
  have c2hi : p2.ceil ≤ hi := Rat.ceil_le_iff.mpr h2
  have fc1 : p1.floor ≤ p1.ceil := by
    have : (p1.floor : Rat) ≤ (p1.ceil : Rat) := le_trans (Rat.floor_le p1) Rat.le_ceil
    exact_mod_cast this
  have fc2 : p2.floor ≤ p2.ceil := by
    have : (p2.floor : Rat) ≤ (p2.ceil : Rat) := le_trans (Rat.floor_le p2) Rat.le_ceil
    exact_mod_cast this
  have c1le : p1.ceil ≤ p1.floor + 1 := by
    rw [Rat.ceil_le_iff]; exact le_of_lt (Rat.lt_floor_add_one p1)
  have c2le : p2.ceil ≤ p2.floor + 1 := by
    rw [Rat.ceil_le_iff]; exact le_of_lt (Rat.lt_floor_add_one p2)
  have c12 : p1.ceil ≤ p2.ceil := Rat.ceil_le_iff.mpr (le_trans h12 Rat.le_ceil)
  have b1 := lerpAt_bounds A p1 (hA _ _ f1lo fc1 (by omega))
  have b2 := lerpAt_bounds A p2 (hA _ _ (by omega) fc2 c2hi)
  by_cases hcase : p1.ceil ≤ p2.floor
  · have := hA p1.ceil p2.floor (by omega) hcase (by omega)
    linarith [b1.2, b2.1]
  · have hf : p2.floor = p1.floor := by omega
    have hc1 : p1.ceil = p1.floor + 1 := by omega
    have hlt1 : (p1.floor : Rat) < p1 := by
      have : p1.floor < p1.ceil := by omega
      exact Rat.lt_ceil_iff.mp this
    have hlt2 : (p2.floor : Rat) < p2 := by rw [hf]; exact lt_of_lt_of_le hlt1 h12
    have hc2 : p2.ceil = p2.floor + 1 := by
      have : p2.floor < p2.ceil := Rat.lt_ceil_iff.mpr hlt2
      omega
    have hne1 : ¬ p1.floor = p1.ceil := by omega
    have hne2 : ¬ p2.floor = p2.ceil := by omega
    unfold lerpAt
    rw [if_neg hne1, if_neg hne2, hc1, hc2, hf]
    have hAA := hA p1.floor (p1.floor + 1) f1lo (by omega) (by omega)
    push_cast
    have e := mul_nonneg (sub_nonneg.mpr hAA) (sub_nonneg.mpr h12)
    nlinarith

theorem insertSorted_mem (x y : Rat) (l : List Rat) : y ∈ insertSorted x l ↔ y = x ∨ y ∈ l := by
  induction l with
  | nil => simp [insertSorted]
  | cons a t ih =>
    unfold insertSorted
    split
    · simp
    · simp [ih]; tauto

theorem insertSorted_sorted (x : Rat) (l : List Rat) (h : l.Pairwise (· ≤ ·)) : (insertSorted x l).Pairwise (· ≤ ·) := by
  induction l with
  | nil => simp [insertSorted]
  | cons a t ih =>
    unfold insertSorted
    split
    · rename_i hxa
      refine List.pairwise_cons.mpr ⟨?_, h⟩
      intro y hy
      rcases List.mem_cons.mp hy with rfl | hm
      · exact hxa
      · exact le_trans hxa ((List.pairwise_cons.mp h).1 y hm)
    · rename_i hxa
      have hax : a ≤ x := le_of_lt (not_le.mp hxa)
      refine List.pairwise_cons.mpr ⟨?_, ih (List.pairwise_cons.mp h).2⟩
      intro y hy
      rcases (insertSorted_mem x y t).mp hy with rfl | hm
      · exact hax
      · exact (List.pairwise_cons.mp h).1 y hm

theorem insertSorted_length (x : Rat) (l : List Rat) : (insertSorted x l).length = l.length + 1 := by
  induction l with
  | nil => simp [insertSorted]
  | cons a t ih => unfold insertSorted; split <;> simp [ih]

theorem sortAsc_sorted (xs : List Rat) : (sortAsc xs).Pairwise (· ≤ ·) := by
  induction xs with
  | nil => simp [sortAsc]
  | cons a t ih => simpa [sortAsc] using insertSorted_sorted a _ ih

theorem sortAsc_length (xs : List Rat) : (sortAsc xs).length = xs.length := by
  induction xs with
  | nil => simp [sortAsc]
  | cons a t ih =>
    have : sortAsc (a :: t) = insertSorted a (sortAsc t) := by simp [sortAsc]
    rw [this, insertSorted_length, ih]; simp

theorem atIdx_mono (arr : List Rat) (hs : arr.Pairwise (· ≤ ·)) (i j : Int) (hi : 0 ≤ i) (hij : i ≤ j)
    (hj : j ≤ (arr.length : Int) - 1) : atIdx arr i ≤ atIdx arr j := by
  unfold atIdx
  have hi' : ¬ i < 0 := by omega
  have hj' : ¬ j < 0 := by omega
  rw [if_neg hi', if_neg hj']
  have h1 : i.toNat < arr.length := by omega
  have h2 : j.toNat < arr.length := by omega
  rw [List.getD_eq_getElem?_getD, List.getD_eq_getElem?_getD, List.getElem?_eq_getElem h1, List.getElem?_eq_getElem h2]
  simp only [Option.getD_some]
  rcases Nat.lt_or_ge i.toNat j.toNat with h | h
  · exact (List.pairwise_iff_getElem.mp hs) _ _ h1 h2 h
  · have : i.toNat = j.toNat := by omega
    simp [this]

theorem finVals_length_le (col : List Fl) : (finVals col).length ≤ col.length := by
  unfold finVals; exact List.length_filterMap_le _ _

/-- `_nanquantile` is monotone in the level on a column with at least one finite value -/
theorem nanquantile_mono (m : Rat) (col : List Fl) (q1 q2 : Rat) (h0 : 0 ≤ q1) (h12 : q1 ≤ q2) (h1 : q2 ≤ 1)
    (hv : 1 ≤ (finVals col).length) :
    ∃ a b, nanquantileCol (some m) col q1 = Fl.fin a ∧ nanquantileCol (some m) col q2 = Fl.fin b ∧ a ≤ b := by
  refine ⟨_, _, rfl, rfl, ?_⟩
  have hlen : (sortAsc (fillCol m col)).length = col.length := by rw [sortAsc_length]; simp [fillCol]
  have hle := finVals_length_le col
  have hn : (0 : Rat) ≤ ((((finVals col).length : Int) - 1 : Int) : Rat) := by
    have : (0 : Int) ≤ ((finVals col).length : Int) - 1 := by omega
    exact_mod_cast this
  apply lerpAt_mono _ 0 (((finVals col).length : Int) - 1)
  · intro i j hi hij hj
    exact atIdx_mono _ (sortAsc_sorted _) i j hi hij (by rw [hlen]; omega)
  · exact mul_le_mul_of_nonneg_left h12 hn
  · simpa using mul_nonneg hn h0
  · calc _ ≤ ((((finVals col).length : Int) - 1 : Int) : Rat) * 1 := mul_le_mul_of_nonneg_left h1 hn
      _ = _ := by ring

end SV.Model.Isotonic
