/-
  Lemmas for C07 (CDF-CRPS): the piece formula, the pieces of the exact integration, trapezoid sums.
-/
import ScoresVerif.Model.CrpsCdf
import ScoresVerif.Spec.CrpsCdf
import ScoresVerif.Lemmas.Cdf

namespace SV.Lemmas.CrpsCdf
open SV SV.Model.Cdf SV.Model.CrpsCdf SV.Lemmas.Cdf
open SV.Fl (fin nan)
open SV.Spec.CrpsCdf (cellSq simpson lin cellTrap brierAt)

/-! ### the piece formula -/

@[simp] theorem powNat_fin_two (a : Rat) : Fl.powNat (fin a) 2 = fin (a * a) := by
  simp [Fl.powNat]
@[simp] theorem powNat_fin_three (a : Rat) : Fl.powNat (fin a) 3 = fin (a * a * a) := by
  simp [Fl.powNat]
@[simp] theorem powNat_nan_two : Fl.powNat nan 2 = nan := by simp [Fl.powNat]

/-- `m²Δ³/3 + m·b·Δ² + b²Δ = Δ(p² + pq + q²)/3` for the linear piece from `p` to `q` over a cell of width `Δ ≠ 0` -/
theorem piece_fin (d p q : Rat) (hd : d ≠ 0) :
    piece (fin d) (fin p) (fin q) = fin (d * (p * p + p * q + q * q) / 3) := by
  unfold piece
  simp only [Fl.sub_fin, Fl.div_fin _ _ hd, powNat_fin_two, powNat_fin_three, Fl.mul_fin, Fl.add_fin,
    Fl.div_fin _ _ (by norm_num : (3 : Rat) ≠ 0)]
  congr 1
  field_simp
  ring

theorem piece_nan_left (dx y : Fl) : piece dx nan y = nan := by
  cases y <;> cases dx <;> simp [piece, Fl.powNat]

theorem piece_nan_right (d : Rat) (y : Fl) : piece (fin d) y nan = nan := by
  cases y <;> simp [piece, Fl.powNat]

/-- the same value is Simpson's rule applied to the square of the linear piece minus the constant `h` -/
theorem cellSq_eq (a b fa fb h : Rat) (hab : a ≠ b) :
    cellSq a b fa fb h = (b - a) * ((fa - h) * (fa - h) + (fa - h) * (fb - h) + (fb - h) * (fb - h)) / 3 := by
  have hba : b - a ≠ 0 := sub_ne_zero.mpr (Ne.symm hab)
  unfold cellSq simpson lin
  field_simp
  ring

theorem piece_eq_cellSq (a b fa fb h : Rat) (hab : a ≠ b) :
    piece (fin (b - a)) (fin (fa - h)) (fin (fb - h)) = fin (cellSq a b fa fb h) := by
  rw [piece_fin _ _ _ (sub_ne_zero.mpr (Ne.symm hab)), cellSq_eq a b fa fb h hab]

theorem cellSq_nonneg (a b fa fb h : Rat) (hab : a < b) : 0 ≤ cellSq a b fa fb h := by
  rw [cellSq_eq a b fa fb h hab.ne]
  have h1 : 0 < b - a := sub_pos.mpr hab
  have h2 : 0 ≤ (fa - h) * (fa - h) + (fa - h) * (fb - h) + (fb - h) * (fb - h) := by
    nlinarith [sq_nonneg (fa - h + (fb - h)), sq_nonneg (fa - h), sq_nonneg (fb - h)]
  positivity

/-- Simpson's rule is exact for quadratics: it equals the difference of the antiderivative
    `G(x) = c₀x + c₁x²/2 + c₂x³/3` at the end points -/
theorem simpson_quadratic (c0 c1 c2 a b : Rat) :
    simpson (fun x => c0 + c1 * x + c2 * (x * x)) a b =
      (c0 * b + c1 * (b * b) / 2 + c2 * (b * b * b) / 3) - (c0 * a + c1 * (a * a) / 2 + c2 * (a * a * a) / 3) := by
  unfold simpson
  ring

/-! ### NaN-skipping sums of lists of finite-or-NaN values -/

/-- sum of the finite entries -/
def finSum (xs : List Fl) : Rat := (finVals xs).sum

theorem valid_cons_nan (xs : List Fl) : valid (nan :: xs) = valid xs := by simp [valid, List.filter]
theorem valid_cons_fin (q : Rat) (xs : List Fl) : valid (fin q :: xs) = fin q :: valid xs := by simp [valid, List.filter]

theorem valid_eq_map_fin (xs : List Fl) (h : NoInf xs) : valid xs = (finVals xs).map fin := by
  induction xs with
  | nil => rfl
  | cons x xs ih =>
    obtain ⟨hx, hxs⟩ := h.cons
    rcases hx with rfl | ⟨q, rfl⟩
    · simp [valid_cons_nan, finVals, ih hxs]
    · simp [valid_cons_fin, finVals, ih hxs]

theorem nansum_noInf (xs : List Fl) (h : NoInf xs) : nansum xs = fin (finSum xs) := by
  have := valid_eq_map_fin xs h
  simp [nansum, this, fsum, foldl_add_fin, finSum]

/-- `sum(min_count=1)` followed by "NaN → 0" is the plain NaN-skipping sum -/
theorem sumMin1_nan_to_zero (xs : List Fl) (h : NoInf xs) :
    Fl.whereB (sumMin1 xs) (!(sumMin1 xs).isNan) (fin 0) = fin (finSum xs) := by
  unfold sumMin1
  by_cases he : (valid xs).isEmpty
  · have hv : valid xs = [] := List.isEmpty_iff.mp he
    have hf : finVals xs = [] := by
      have := valid_eq_map_fin xs h
      rw [hv] at this
      exact List.map_eq_nil_iff.mp this.symm
    simp [he, Fl.whereB, finSum, hf]
  · simp [he, nansum_noInf xs h, Fl.whereB]

/-! ### `shift` -/

/-- `(a :: w).take w.length`: the list shifted right by one with `a` entering on the left -/
def shiftA (a : Fl) (w : List Fl) : List Fl := (a :: w).take w.length

theorem shift1_eq (w : List Fl) : shift1 w = shiftA nan w := rfl
@[simp] theorem shiftA_nil (a : Fl) : shiftA a [] = [] := rfl
@[simp] theorem shiftA_cons (a x : Fl) (w : List Fl) : shiftA a (x :: w) = a :: shiftA x w := by
  simp [shiftA]

/-! ### the pieces of the exact integration -/

/-- over-forecast side: `(cdf_fcst − 1).where(cdf_obs == 1)` along the grid -/
def overY (obs : Rat) : List Rat → List Rat → List Fl
  | x :: xs, f :: fs => (if obs ≤ x then fin (f - 1) else nan) :: overY obs xs fs
  | _, _ => []

/-- under-forecast side: `cdf_fcst.where((cdf_obs == 0) | (cdf_obs.shift(1) == 0))`; `zp` is "the previous
    grid point lies left of the observation" -/
def underY (obs : Rat) : Bool → List Rat → List Rat → List Fl
  | zp, x :: xs, f :: fs => (if x < obs ∨ zp = true then fin f else nan) :: underY obs (decide (x < obs)) xs fs
  | _, _, _ => []

def overPieces (obs : Rat) : List Rat → List Rat → List Rat → List Fl
  | x0 :: x1 :: xs, f0 :: f1 :: fs, w0 :: ws =>
      (if obs ≤ x0 then fin (cellSq x0 x1 f0 f1 1 * w0) else nan) :: overPieces obs (x1 :: xs) (f1 :: fs) ws
  | _, _, _ => []

def underPieces (obs : Rat) : List Rat → List Rat → List Rat → List Fl
  | x0 :: x1 :: xs, f0 :: f1 :: fs, w0 :: ws =>
      (if x0 < obs then fin (cellSq x0 x1 f0 f1 0 * w0) else nan) :: underPieces obs (x1 :: xs) (f1 :: fs) ws
  | _, _, _ => []

/-- strictly increasing grid -/
def Incr : List Rat → Prop
  | x0 :: x1 :: xs => x0 < x1 ∧ Incr (x1 :: xs)
  | _ => True

theorem incr_iff (g : List Rat) : increasing g = true ↔ Incr g := by
  induction g with
  | nil => simp [increasing, Incr]
  | cons x xs ih =>
    cases xs with
    | nil => simp [increasing, Incr]
    | cons y ys => simp [increasing, Incr, ih]

theorem piecesW_over (obs : Rat) (g f w : List Rat) (a : Fl) (hg : Incr g)
    (hf : f.length = g.length) (hw : w.length = g.length) :
    piecesW g (overY obs g f) (shiftA a (w.map fin)) = overPieces obs g f w := by
  induction g generalizing f w a with
  | nil => simp [piecesW, overPieces]
  | cons x0 xs ih =>
    cases xs with
    | nil =>
      cases f <;> cases w <;> simp [piecesW, overPieces, overY]
    | cons x1 xs =>
      match f, w, hf, hw with
      | f0 :: f1 :: fs, w0 :: w1 :: ws, hf, hw =>
        obtain ⟨h01, hrest⟩ := hg
        have ih' := ih (f1 :: fs) (w1 :: ws) (fin w0) hrest (by simpa using hf) (by simpa using hw)
        simp only [List.map_cons, shiftA_cons, overY, piecesW, overPieces] at ih' ⊢
        rw [ih']
        congr 1
        by_cases h : obs ≤ x0
        · have h1 : obs ≤ x1 := h.trans h01.le
          have := piece_eq_cellSq x0 x1 f0 f1 1 h01.ne
          simp [h, h1, this]
        · simp [h, piece_nan_left]

theorem piecesW_under (obs : Rat) (g f w : List Rat) (a : Fl) (zp : Bool) (hg : Incr g)
    (hf : f.length = g.length) (hw : w.length = g.length) :
    piecesW g (underY obs zp g f) (shiftA a (w.map fin)) = underPieces obs g f w := by
  induction g generalizing f w a zp with
  | nil => simp [piecesW, underPieces]
  | cons x0 xs ih =>
    cases xs with
    | nil =>
      cases f <;> cases w <;> simp [piecesW, underPieces, underY]
    | cons x1 xs =>
      match f, w, hf, hw with
      | f0 :: f1 :: fs, w0 :: w1 :: ws, hf, hw =>
        obtain ⟨h01, hrest⟩ := hg
        have ih' := ih (f1 :: fs) (w1 :: ws) (fin w0) (decide (x0 < obs)) hrest (by simpa using hf) (by simpa using hw)
        simp only [List.map_cons, shiftA_cons, underY, piecesW, underPieces] at ih' ⊢
        rw [ih']
        congr 1
        by_cases h : x0 < obs
        · have := piece_eq_cellSq x0 x1 f0 f1 0 h01.ne
          simp only [sub_zero] at this
          simp [h, this]
        · have h1 : ¬ x1 < obs := fun h1 => h (h01.trans h1)
          simp [h, h1, piece_nan_right]

/-! ### the pieces against the Spec's cell sums -/

open SV.Spec.CrpsCdf (exactParts trapzParts)

/-- no cell of the grid has the observation strictly inside (true when the observation is a grid point) -/
def NoStraddle (obs : Rat) : List Rat → Prop
  | x0 :: x1 :: xs => (x0 < obs → x1 ≤ obs) ∧ NoStraddle obs (x1 :: xs)
  | _ => True

theorem noInf_overPieces (obs : Rat) (g f w : List Rat) : NoInf (overPieces obs g f w) := by
  induction g generalizing f w with
  | nil => intro y hy; simp [overPieces] at hy
  | cons x0 xs ih =>
    match xs, f, w with
    | [], _, _ => intro y hy; simp [overPieces] at hy
    | _ :: _, [], _ => intro y hy; simp [overPieces] at hy
    | _ :: _, [_], _ => intro y hy; simp [overPieces] at hy
    | _ :: _, _ :: _ :: _, [] => intro y hy; simp [overPieces] at hy
    | x1 :: xs, f0 :: f1 :: fs, w0 :: ws =>
      intro y hy
      simp only [overPieces, List.mem_cons] at hy
      rcases hy with rfl | hy
      · split
        · exact Or.inr ⟨_, rfl⟩
        · exact Or.inl rfl
      · exact ih (f1 :: fs) ws y hy

theorem noInf_underPieces (obs : Rat) (g f w : List Rat) : NoInf (underPieces obs g f w) := by
  induction g generalizing f w with
  | nil => intro y hy; simp [underPieces] at hy
  | cons x0 xs ih =>
    match xs, f, w with
    | [], _, _ => intro y hy; simp [underPieces] at hy
    | _ :: _, [], _ => intro y hy; simp [underPieces] at hy
    | _ :: _, [_], _ => intro y hy; simp [underPieces] at hy
    | _ :: _, _ :: _ :: _, [] => intro y hy; simp [underPieces] at hy
    | x1 :: xs, f0 :: f1 :: fs, w0 :: ws =>
      intro y hy
      simp only [underPieces, List.mem_cons] at hy
      rcases hy with rfl | hy
      · split
        · exact Or.inr ⟨_, rfl⟩
        · exact Or.inl rfl
      · exact ih (f1 :: fs) ws y hy

theorem finSum_cons_fin (q : Rat) (xs : List Fl) : finSum (fin q :: xs) = q + finSum xs := by simp [finSum, finVals]
theorem finSum_cons_nan (xs : List Fl) : finSum (nan :: xs) = finSum xs := by simp [finSum, finVals]
@[simp] theorem finSum_nil : finSum [] = 0 := rfl

theorem pieces_eq_spec (obs : Rat) (g f w : List Rat) (hg : Incr g) (hs : NoStraddle obs g) :
    finSum (overPieces obs g f w) = (exactParts obs g f w).over ∧
    finSum (underPieces obs g f w) = (exactParts obs g f w).under ∧
    (exactParts obs g f w).total = (exactParts obs g f w).under + (exactParts obs g f w).over := by
  induction g generalizing f w with
  | nil => simp [overPieces, underPieces, exactParts]
  | cons x0 xs ih =>
    match xs, f, w, hg, hs with
    | [], _, _, _, _ => simp [overPieces, underPieces, exactParts]
    | _ :: _, [], _, _, _ => simp [overPieces, underPieces, exactParts]
    | _ :: _, [_], _, _, _ => simp [overPieces, underPieces, exactParts]
    | _ :: _, _ :: _ :: _, [], _, _ => simp [overPieces, underPieces, exactParts]
    | x1 :: xs, f0 :: f1 :: fs, w0 :: ws, hg, hs =>
      obtain ⟨h01, hrest⟩ := hg
      obtain ⟨hs0, hsrest⟩ := hs
      obtain ⟨i1, i2, i3⟩ := ih (f1 :: fs) ws hrest hsrest
      by_cases hle : x1 ≤ obs
      · have hx0 : x0 < obs := lt_of_lt_of_le h01 hle
        have hn : ¬ obs ≤ x0 := not_le.mpr hx0
        simp only [overPieces, underPieces, exactParts, hle, hn, hx0, if_true, if_false, finSum_cons_fin, finSum_cons_nan]
        refine ⟨i1, ?_, ?_⟩
        · rw [i2]; ring
        · rw [i3]; ring
      · have hx0 : ¬ x0 < obs := fun h => hle (hs0 h)
        have hn : obs ≤ x0 := not_lt.mp hx0
        simp only [overPieces, underPieces, exactParts, hle, hn, hx0, if_true, if_false, finSum_cons_fin, finSum_cons_nan]
        refine ⟨?_, i2, ?_⟩
        · rw [i1]; ring
        · rw [i3]; ring

/-! ### the masks of `crps_cdf_exact` on an observation CDF -/

theorem obs_entry (obs x : Rat) : Fl.ofBool (Fl.ge (fin x) (fin obs)) = if obs ≤ x then fin 1 else fin 0 := by
  by_cases h : obs ≤ x <;> simp [Fl.ofBool, Fl.ge, h]

/-- observation CDF entry at a grid point -/
def obsAt (obs x : Rat) : Fl := if obs ≤ x then fin 1 else fin 0

theorem observedRow_cons (obs x : Rat) (xs : List Rat) :
    observedRow (x :: xs) (fin obs) = obsAt obs x :: observedRow xs (fin obs) := by
  by_cases h : obs ≤ x <;> simp [observedRow, obsAt, Fl.ofBool, Fl.ge, h]

@[simp] theorem observedRow_nil (obs : Rat) : observedRow [] (fin obs) = [] := rfl

theorem obsAt_beq_one (obs x : Rat) : Fl.beq (obsAt obs x) one = decide (obs ≤ x) := by
  by_cases h : obs ≤ x <;> simp [obsAt, h, one]

theorem obsAt_beq_zero (obs x : Rat) : Fl.beq (obsAt obs x) (fin 0) = decide (x < obs) := by
  by_cases h : obs ≤ x
  · simp [obsAt, h, not_lt.mpr h]
  · simp [obsAt, h, not_le.mp h]

theorem whereL_over (obs : Rat) (g f : List Rat) :
    whereL ((f.map fin).map (Fl.sub · one)) ((observedRow g (fin obs)).map (fun a => Fl.beq a one)) = overY obs g f := by
  induction g generalizing f with
  | nil => cases f <;> simp [whereL, overY]
  | cons x xs ih =>
    cases f with
    | nil => simp [whereL, overY]
    | cons f0 fs =>
      have := ih fs
      rw [observedRow_cons]
      simp only [whereL, List.map_cons, List.zipWith_cons_cons, overY, obsAt_beq_one] at this ⊢
      rw [this]
      congr 1
      by_cases h : obs ≤ x <;> simp [h, one]

theorem whereL_under (obs : Rat) (g f : List Rat) (a : Fl) (zp : Bool) (ha : Fl.beq a (fin 0) = zp) :
    whereL (f.map fin)
      (List.zipWith (fun u v => Fl.beq u (fin 0) || Fl.beq v (fin 0)) (observedRow g (fin obs)) (shiftA a (observedRow g (fin obs))))
      = underY obs zp g f := by
  induction g generalizing f a zp with
  | nil => cases f <;> simp [whereL, underY]
  | cons x xs ih =>
    cases f with
    | nil => simp [whereL, underY]
    | cons f0 fs =>
      have := ih fs (obsAt obs x) (decide (x < obs)) (obsAt_beq_zero obs x)
      rw [observedRow_cons]
      simp only [whereL, List.map_cons, shiftA_cons, List.zipWith_cons_cons, underY, obsAt_beq_zero, ha] at this ⊢
      rw [this]
      congr 1
      by_cases h : x < obs <;> cases zp <;> simp [h]

theorem anyNan_map_fin (q : List Rat) : anyNan (q.map fin) = false := by
  induction q with
  | nil => rfl
  | cons x xs ih => simpa [anyNan] using ih

theorem anyNan_observedRow (g : List Rat) (obs : Rat) : anyNan (observedRow g (fin obs)) = false := by
  induction g with
  | nil => rfl
  | cons x xs ih =>
    rw [observedRow_cons]
    simp only [anyNan, List.any_cons] at ih ⊢
    rw [ih]
    by_cases h : obs ≤ x <;> simp [obsAt, h]

/-- **exact integration = the weighted cell sums of the Spec**, for EVERY step weight, wherever the
    observation lies on the grid -/
theorem exactRow_eq_spec (obs : Rat) (g f w : List Rat) (hg : Incr g) (hs : NoStraddle obs g)
    (hf : f.length = g.length) (hw : w.length = g.length) :
    (exactRow g (f.map fin) (observedRow g (fin obs)) (w.map fin)).total = fin (exactParts obs g f w).total ∧
    (exactRow g (f.map fin) (observedRow g (fin obs)) (w.map fin)).under = fin (exactParts obs g f w).under ∧
    (exactRow g (f.map fin) (observedRow g (fin obs)) (w.map fin)).over = fin (exactParts obs g f w).over := by
  obtain ⟨e1, e2, e3⟩ := pieces_eq_spec obs g f w hg hs
  have hok : inputsWithoutNan (f.map fin) (observedRow g (fin obs)) (w.map fin) = true := by
    simp [inputsWithoutNan, anyNan_map_fin, anyNan_observedRow]
  have hover : integrateSqW g (whereL ((f.map fin).map (Fl.sub · one)) ((observedRow g (fin obs)).map (fun a => Fl.beq a one)))
      (shift1 (w.map fin)) = sumMin1 (overPieces obs g f w) := by
    rw [whereL_over, shift1_eq, integrateSqW, piecesW_over obs g f w nan hg hf hw]
  have hunder : integrateSqW g (whereL (f.map fin)
      (List.zipWith (fun u v => Fl.beq u (fin 0) || Fl.beq v (fin 0)) (observedRow g (fin obs)) (shift1 (observedRow g (fin obs)))))
      (shift1 (w.map fin)) = sumMin1 (underPieces obs g f w) := by
    rw [shift1_eq, whereL_under obs g f nan false rfl, shift1_eq, integrateSqW, piecesW_under obs g f w nan false hg hf hw]
  unfold exactRow
  simp only [hok, hover, hunder]
  rw [sumMin1_nan_to_zero _ (noInf_overPieces obs g f w), sumMin1_nan_to_zero _ (noInf_underPieces obs g f w)]
  simp only [Fl.whereB, if_true, e1, e2, Fl.add_fin]
  simp only [and_self, and_true]
  rw [e3, add_comm]

/-! ### the observation is a grid point ⇒ no cell straddles it -/

theorem incr_tail {x : Rat} {xs : List Rat} (h : Incr (x :: xs)) : Incr xs := by
  cases xs with
  | nil => trivial
  | cons y ys => exact h.2

theorem incr_head_lt {x : Rat} {xs : List Rat} (h : Incr (x :: xs)) : ∀ y ∈ xs, x < y := by
  induction xs generalizing x with
  | nil => intro y hy; simp at hy
  | cons z zs ih =>
    intro y hy
    rcases List.mem_cons.mp hy with rfl | hy
    · exact h.1
    · exact h.1.trans (ih h.2 y hy)

theorem noStraddle_of_le {obs x : Rat} {xs : List Rat} (h : Incr (x :: xs)) (hle : obs ≤ x) : NoStraddle obs (x :: xs) := by
  induction xs generalizing x with
  | nil => trivial
  | cons y ys ih =>
    exact ⟨fun hlt => absurd hlt (not_lt.mpr hle), ih h.2 (hle.trans h.1.le)⟩

/-- on a strictly increasing grid that contains the observation no cell has the observation strictly inside -/
theorem noStraddle_of_mem {obs : Rat} {g : List Rat} (h : Incr g) (hm : obs ∈ g) : NoStraddle obs g := by
  induction g with
  | nil => trivial
  | cons x xs ih =>
    cases xs with
    | nil => trivial
    | cons y ys =>
      rcases List.mem_cons.mp hm with rfl | hm'
      · exact noStraddle_of_le h le_rfl
      · refine ⟨fun _ => ?_, ih h.2 hm'⟩
        rcases List.mem_cons.mp hm' with rfl | hm''
        · exact le_rfl
        · exact (incr_head_lt h.2 obs hm'').le

/-! ### non-negativity and linearity in the weight of the Spec's cell sums -/

/-- every weight is non-negative -/
def NonNeg (w : List Rat) : Prop := ∀ x ∈ w, 0 ≤ x

theorem exactParts_nonneg (obs : Rat) (g f w : List Rat) (hg : Incr g) (hw : NonNeg w) :
    0 ≤ (exactParts obs g f w).under ∧ 0 ≤ (exactParts obs g f w).over := by
  induction g generalizing f w with
  | nil => simp [exactParts]
  | cons x0 xs ih =>
    match xs, f, w, hg, hw with
    | [], _, _, _, _ => simp [exactParts]
    | _ :: _, [], _, _, _ => simp [exactParts]
    | _ :: _, [_], _, _, _ => simp [exactParts]
    | _ :: _, _ :: _ :: _, [], _, _ => simp [exactParts]
    | x1 :: xs, f0 :: f1 :: fs, w0 :: ws, hg, hw =>
      obtain ⟨i1, i2⟩ := ih (f1 :: fs) ws hg.2 (fun y hy => hw y (List.mem_cons_of_mem _ hy))
      have hw0 : 0 ≤ w0 := hw w0 (by simp)
      have c0 := cellSq_nonneg x0 x1 f0 f1 0 hg.1
      have c1 := cellSq_nonneg x0 x1 f0 f1 1 hg.1
      by_cases hle : x1 ≤ obs
      · simp only [exactParts, hle, if_true]
        exact ⟨add_nonneg (mul_nonneg hw0 c0) i1, i2⟩
      · simp only [exactParts, hle, if_false]
        exact ⟨i1, add_nonneg (mul_nonneg hw0 c1) i2⟩

/-- pointwise sum of two weight lists -/
def addW : List Rat → List Rat → List Rat
  | a :: as, b :: bs => (a + b) :: addW as bs
  | _, _ => []

theorem exactParts_add (obs : Rat) (g f w w' : List Rat) (hl : w.length = w'.length) :
    (exactParts obs g f (addW w w')).total = (exactParts obs g f w).total + (exactParts obs g f w').total ∧
    (exactParts obs g f (addW w w')).under = (exactParts obs g f w).under + (exactParts obs g f w').under ∧
    (exactParts obs g f (addW w w')).over = (exactParts obs g f w).over + (exactParts obs g f w').over := by
  induction g generalizing f w w' with
  | nil => simp [exactParts]
  | cons x0 xs ih =>
    match xs, f, w, w', hl with
    | [], _, _, _, _ => simp [exactParts]
    | _ :: _, [], _, _, _ => simp [exactParts]
    | _ :: _, [_], _, _, _ => simp [exactParts]
    | _ :: _, _ :: _ :: _, [], [], _ => simp [exactParts, addW]
    | x1 :: xs, f0 :: f1 :: fs, w0 :: ws, v0 :: vs, hl =>
      obtain ⟨i1, i2, i3⟩ := ih (f1 :: fs) ws vs (by simpa using hl)
      by_cases hle : x1 ≤ obs
      · simp only [exactParts, addW, hle, if_true, i1, i2, i3]
        refine ⟨by ring, by ring, trivial⟩
      · simp only [exactParts, addW, hle, if_false, i1, i2, i3]
        refine ⟨by ring, trivial, by ring⟩

/-! ### trapezoid method -/

def trapzQ : List Rat → List Rat → Rat
  | x0 :: x1 :: xs, y0 :: y1 :: ys => (x1 - x0) * (1 / 2) * (y1 + y0) + trapzQ (x1 :: xs) (y1 :: ys)
  | _, _ => 0

theorem trapz_map_fin (g L : List Rat) : trapz g (L.map fin) = fin (trapzQ g L) := by
  induction g generalizing L with
  | nil => simp [trapz, trapzQ]
  | cons x0 xs ih =>
    match xs, L with
    | [], _ => cases L <;> simp [trapz, trapzQ]
    | _ :: _, [] => simp [trapz, trapzQ]
    | _ :: _, [_] => simp [trapz, trapzQ]
    | x1 :: xs, y0 :: y1 :: ys =>
      have := ih (y1 :: ys)
      simp only [List.map_cons] at this
      simp only [List.map_cons, trapz, trapzQ, this, Fl.mul_fin, Fl.add_fin]

/-- integrand samples `w (F − H)²` at the grid points -/
def LT (obs : Rat) : List Rat → List Rat → List Rat → List Rat
  | x :: xs, f :: fs, w :: ws => brierAt obs x f w :: LT obs xs fs ws
  | _, _, _ => []

/-- over-forecast integrand samples `H w (F − H)²` -/
def LO (obs : Rat) : List Rat → List Rat → List Rat → List Rat
  | x :: xs, f :: fs, w :: ws => (if obs ≤ x then brierAt obs x f w else 0) :: LO obs xs fs ws
  | _, _, _ => []

/-- under-forecast samples `(1 − H) w (F − H)²` -/
def LU (obs : Rat) : List Rat → List Rat → List Rat → List Rat
  | x :: xs, f :: fs, w :: ws => (if x < obs then brierAt obs x f w else 0) :: LU obs xs fs ws
  | _, _, _ => []

theorem zip3_total (obs : Rat) (g f w : List Rat) :
    zip3 (fun f o w => Fl.mul w (Fl.powNat (Fl.sub f o) 2)) (f.map fin) (observedRow g (fin obs)) (w.map fin)
      = (LT obs g f w).map fin := by
  induction g generalizing f w with
  | nil => cases f <;> cases w <;> simp [zip3, LT]
  | cons x xs ih =>
    match f, w with
    | [], _ => simp [zip3, LT]
    | _ :: _, [] => simp [zip3, LT]
    | f0 :: fs, w0 :: ws =>
      rw [observedRow_cons]
      simp only [List.map_cons, zip3, LT, ih fs ws]
      congr 1
      by_cases h : obs ≤ x <;> simp [obsAt, brierAt, h]

theorem zip3_over (obs : Rat) (g f w : List Rat) :
    zip3 (fun f o w => Fl.mul (Fl.mul o w) (Fl.powNat (Fl.sub f o) 2)) (f.map fin) (observedRow g (fin obs)) (w.map fin)
      = (LO obs g f w).map fin := by
  induction g generalizing f w with
  | nil => cases f <;> cases w <;> simp [zip3, LO]
  | cons x xs ih =>
    match f, w with
    | [], _ => simp [zip3, LO]
    | _ :: _, [] => simp [zip3, LO]
    | f0 :: fs, w0 :: ws =>
      rw [observedRow_cons]
      simp only [List.map_cons, zip3, LO, ih fs ws]
      congr 1
      by_cases h : obs ≤ x <;> simp [obsAt, brierAt, h]

theorem trapzParts_eq (obs : Rat) (g f w : List Rat) (hf : f.length = g.length) (hw : w.length = g.length) :
    (trapzParts obs g f w).total = trapzQ g (LT obs g f w) ∧
    (trapzParts obs g f w).over = trapzQ g (LO obs g f w) ∧
    (trapzParts obs g f w).under = trapzQ g (LT obs g f w) - trapzQ g (LO obs g f w) := by
  induction g generalizing f w with
  | nil => simp [trapzParts, trapzQ]
  | cons x0 xs ih =>
    match xs, f, w, hf, hw with
    | [], _, _, _, _ => simp [trapzParts, trapzQ]
    | x1 :: xs, f0 :: f1 :: fs, w0 :: w1 :: ws, hf, hw =>
      obtain ⟨i1, i2, i3⟩ := ih (f1 :: fs) (w1 :: ws) (by simpa using hf) (by simpa using hw)
      simp only [trapzParts, LT, LO, trapzQ, cellTrap, i1, i2, i3] at *
      refine ⟨by ring, by ring, by ring⟩

/-- **trapezoid method = trapezoid sums of the Spec**, total and both components -/
theorem trapzRow_eq_spec (obs : Rat) (g f w : List Rat) (hf : f.length = g.length) (hw : w.length = g.length) :
    (trapzRow g (f.map fin) (observedRow g (fin obs)) (w.map fin)).total = fin (trapzParts obs g f w).total ∧
    (trapzRow g (f.map fin) (observedRow g (fin obs)) (w.map fin)).under = fin (trapzParts obs g f w).under ∧
    (trapzRow g (f.map fin) (observedRow g (fin obs)) (w.map fin)).over = fin (trapzParts obs g f w).over := by
  obtain ⟨e1, e2, e3⟩ := trapzParts_eq obs g f w hf hw
  have hok : inputsWithoutNan (f.map fin) (observedRow g (fin obs)) (w.map fin) = true := by
    simp [inputsWithoutNan, anyNan_map_fin, anyNan_observedRow]
  unfold trapzRow
  simp only [hok, zip3_total, zip3_over, trapz_map_fin, Fl.whereB, if_true, Fl.sub_fin, e1, e2, e3, and_self]

/-! ### the Brier decomposition along the grid -/

def ones (g : List Rat) : List Rat := g.map (fun _ => 1)

theorem brierRow_total (obs : Rat) (g f : List Rat) :
    (brierRow (f.map fin) (observedRow g (fin obs))).1 = (LT obs g f (ones g)).map fin := by
  induction g generalizing f with
  | nil => cases f <;> simp [brierRow, LT, ones]
  | cons x xs ih =>
    cases f with
    | nil => simp [brierRow, LT]
    | cons f0 fs =>
      have := ih fs
      rw [observedRow_cons]
      simp only [brierRow, ones, List.map_cons, List.zipWith_cons_cons, LT] at this ⊢
      rw [this]
      congr 1
      by_cases h : obs ≤ x <;> simp [obsAt, brierAt, h, one, Fl.whereB]

theorem brierRow_over (obs : Rat) (g f : List Rat) :
    (brierRow (f.map fin) (observedRow g (fin obs))).2.2 = (LO obs g f (ones g)).map fin := by
  induction g generalizing f with
  | nil => cases f <;> simp [brierRow, LO, ones]
  | cons x xs ih =>
    cases f with
    | nil => simp [brierRow, LO]
    | cons f0 fs =>
      have := ih fs
      rw [observedRow_cons]
      simp only [brierRow, ones, List.map_cons, List.zipWith_cons_cons, LO] at this ⊢
      rw [this]
      congr 1
      by_cases h : obs ≤ x <;> simp [obsAt, brierAt, h, one, Fl.whereB]

theorem brierRow_under (obs : Rat) (g f : List Rat) :
    (brierRow (f.map fin) (observedRow g (fin obs))).2.1 = (LU obs g f (ones g)).map fin := by
  induction g generalizing f with
  | nil => cases f <;> simp [brierRow, LU, ones]
  | cons x xs ih =>
    cases f with
    | nil => simp [brierRow, LU]
    | cons f0 fs =>
      have := ih fs
      rw [observedRow_cons]
      simp only [brierRow, ones, List.map_cons, List.zipWith_cons_cons, LU] at this ⊢
      rw [this]
      congr 1
      by_cases h : obs ≤ x
      · simp [obsAt, brierAt, h, one, Fl.whereB, not_lt.mpr h]
      · simp [obsAt, brierAt, h, one, Fl.whereB, not_le.mp h]

theorem trapzQ_LU (obs : Rat) (g f w : List Rat) :
    trapzQ g (LU obs g f w) = trapzQ g (LT obs g f w) - trapzQ g (LO obs g f w) := by
  induction g generalizing f w with
  | nil => simp [trapzQ]
  | cons x0 xs ih =>
    match xs, f, w with
    | [], _, _ => simp [trapzQ]
    | _ :: _, [], _ => simp [trapzQ, LU, LT, LO]
    | _ :: _, [_], w' => cases w' <;> simp [trapzQ, LU, LT, LO]
    | _ :: _, _ :: _ :: _, [] => simp [trapzQ, LU, LT, LO]
    | _ :: _, _ :: _ :: _, [_] => simp [trapzQ, LU, LT, LO]
    | x1 :: xs, f0 :: f1 :: fs, w0 :: w1 :: ws =>
      have := ih (f1 :: fs) (w1 :: ws)
      simp only [LU, LT, LO, trapzQ] at this ⊢
      rw [this]
      by_cases h0 : obs ≤ x0 <;> by_cases h1 : obs ≤ x1 <;>
        simp [h0, h1, not_lt.mpr, not_le.mp] <;> ring

/-- **trapz method (w = 1) = trapezoid integral of the Brier decomposition over the same thresholds** -/
theorem trapzRow_eq_trapz_brier (obs : Rat) (g f : List Rat) (hf : f.length = g.length) :
    let F := f.map fin; let O := observedRow g (fin obs)
    (trapzRow g F O ((ones g).map fin)).total = trapz g (brierRow F O).1 ∧
    (trapzRow g F O ((ones g).map fin)).under = trapz g (brierRow F O).2.1 ∧
    (trapzRow g F O ((ones g).map fin)).over = trapz g (brierRow F O).2.2 := by
  intro F O
  obtain ⟨t1, t2, t3⟩ := trapzRow_eq_spec obs g f (ones g) hf (by simp [ones])
  obtain ⟨e1, e2, e3⟩ := trapzParts_eq obs g f (ones g) hf (by simp [ones])
  refine ⟨?_, ?_, ?_⟩
  · rw [t1, brierRow_total, trapz_map_fin, e1]
  · rw [t2, brierRow_under, trapz_map_fin, e3, trapzQ_LU]
  · rw [t3, brierRow_over, trapz_map_fin, e2]

/-! ### NaN is case-local -/

theorem exactRow_nan (g : List Rat) (f o w : List Fl) (h : inputsWithoutNan f o w = false) :
    (exactRow g f o w).total = nan ∧ (exactRow g f o w).under = nan ∧ (exactRow g f o w).over = nan := by
  unfold exactRow
  simp [h, Fl.whereB]

theorem trapzRow_nan (g : List Rat) (f o w : List Fl) (h : inputsWithoutNan f o w = false) :
    (trapzRow g f o w).total = nan ∧ (trapzRow g f o w).under = nan ∧ (trapzRow g f o w).over = nan := by
  unfold trapzRow
  simp [h, Fl.whereB]

theorem trapzParts_add (obs : Rat) (g f w w' : List Rat) (hl : w.length = w'.length) :
    (trapzParts obs g f (addW w w')).total = (trapzParts obs g f w).total + (trapzParts obs g f w').total ∧
    (trapzParts obs g f (addW w w')).under = (trapzParts obs g f w).under + (trapzParts obs g f w').under ∧
    (trapzParts obs g f (addW w w')).over = (trapzParts obs g f w).over + (trapzParts obs g f w').over := by
  induction g generalizing f w w' with
  | nil => simp [trapzParts]
  | cons x0 xs ih =>
    match xs, f, w, w', hl with
    | [], _, _, _, _ => simp [trapzParts]
    | _ :: _, [], _, _, _ => simp [trapzParts]
    | _ :: _, [_], _, _, _ => simp [trapzParts]
    | _ :: _, _ :: _ :: _, [], [], _ => simp [trapzParts, addW]
    | _ :: _, _ :: _ :: _, [_], [_], _ => simp [trapzParts, addW]
    | x1 :: xs, f0 :: f1 :: fs, w0 :: w1 :: ws, v0 :: v1 :: vs, hl =>
      obtain ⟨i1, i2, i3⟩ := ih (f1 :: fs) (w1 :: ws) (v1 :: vs) (by simpa using hl)
      simp only [addW] at i1 i2 i3
      simp only [trapzParts, addW, i1, i2, i3, cellTrap, brierAt]
      refine ⟨by ring, ?_, ?_⟩
      · by_cases h0 : obs ≤ x0 <;> by_cases h1 : obs ≤ x1 <;> simp [h0, h1] <;> ring
      · by_cases h0 : obs ≤ x0 <;> by_cases h1 : obs ≤ x1 <;> simp [h0, h1] <;> ring

end SV.Lemmas.CrpsCdf
