/-
  Lemmas for C18 (flip-flop index): total variation / max / min on rational lists, the model on finite sequences,
  NaN propagation, directional pieces, rotation invariance of the directional spec, proportion exceeding.
-/
import ScoresVerif.Model.FlipFlop
import ScoresVerif.Spec.FlipFlop
import ScoresVerif.Lemmas.FlBasic
import Mathlib.Tactic.Ring
import Mathlib.Tactic.Linarith
import Mathlib.Tactic.FieldSimp
import Mathlib.Tactic.NormNum
import Mathlib.Tactic.Positivity
import Mathlib.Algebra.Order.Field.Rat
import Mathlib.Data.Rat.Cast.Order
import Mathlib.Data.List.Chain
import Mathlib.Algebra.Order.Floor.Ring
import Mathlib.Data.Rat.Floor

namespace SV.Spec.FlipFlop
open SV

/-! ### total variation, max, min on rational lists -/

theorem tv_cons2 (a b : Rat) (t : List Rat) : tv (a :: b :: t) = |b - a| + tv (b :: t) := by
  simp [tv, rabs_eq_abs]

theorem tv_nonneg : ∀ l : List Rat, 0 ≤ tv l
  | [] => by simp [tv]
  | [_] => by simp [tv]
  | a :: b :: t => by rw [tv_cons2]; have := tv_nonneg (b :: t); positivity

theorem maxL_cons2 (a b : Rat) (t : List Rat) : maxL (a :: b :: t) = if a ≤ maxL (b :: t) then maxL (b :: t) else a := by
  simp [maxL]
theorem minL_cons2 (a b : Rat) (t : List Rat) : minL (a :: b :: t) = if minL (b :: t) ≤ a then minL (b :: t) else a := by
  simp [minL]

theorem maxL_spec : ∀ (a : Rat) (t : List Rat), maxL (a :: t) ∈ a :: t ∧ ∀ x ∈ a :: t, x ≤ maxL (a :: t)
  | a, [] => by simp [maxL]
  | a, b :: t => by
    obtain ⟨hm, hb⟩ := maxL_spec b t
    rw [maxL_cons2]
    split_ifs with h
    · exact ⟨List.mem_cons_of_mem _ hm, fun x hx => by
        rcases List.mem_cons.mp hx with rfl | hx
        · exact h
        · exact hb x hx⟩
    · exact ⟨List.mem_cons_self, fun x hx => by
        rcases List.mem_cons.mp hx with rfl | hx
        · exact le_refl _
        · exact le_trans (hb x hx) (le_of_lt (not_le.mp h))⟩

theorem minL_spec : ∀ (a : Rat) (t : List Rat), minL (a :: t) ∈ a :: t ∧ ∀ x ∈ a :: t, minL (a :: t) ≤ x
  | a, [] => by simp [minL]
  | a, b :: t => by
    obtain ⟨hm, hb⟩ := minL_spec b t
    rw [minL_cons2]
    split_ifs with h
    · exact ⟨List.mem_cons_of_mem _ hm, fun x hx => by
        rcases List.mem_cons.mp hx with rfl | hx
        · exact h
        · exact hb x hx⟩
    · exact ⟨List.mem_cons_self, fun x hx => by
        rcases List.mem_cons.mp hx with rfl | hx
        · exact le_refl _
        · exact le_trans (le_of_lt (not_le.mp h)) (hb x hx)⟩

theorem maxL_eq_of (l : List Rat) (m : Rat) (hm : m ∈ l) (hub : ∀ x ∈ l, x ≤ m) : maxL l = m := by
  cases l with
  | nil => simp at hm
  | cons a t =>
    obtain ⟨h1, h2⟩ := maxL_spec a t
    exact le_antisymm (hub _ h1) (h2 _ hm)

theorem minL_eq_of (l : List Rat) (m : Rat) (hm : m ∈ l) (hlb : ∀ x ∈ l, m ≤ x) : minL l = m := by
  cases l with
  | nil => simp at hm
  | cons a t =>
    obtain ⟨h1, h2⟩ := minL_spec a t
    exact le_antisymm (h2 _ hm) (hlb _ h1)

/-- any two elements differ by at most the total variation -/
theorem abs_sub_le_tv : ∀ (l : List Rat), ∀ x ∈ l, ∀ y ∈ l, |x - y| ≤ tv l
  | [], x, hx, _, _ => by simp at hx
  | [a], x, hx, y, hy => by
    rw [List.mem_singleton] at hx hy; subst hx; subst hy; simp [tv]
  | a :: b :: t, x, hx, y, hy => by
    rw [tv_cons2]
    have ih := abs_sub_le_tv (b :: t)
    have hb : b ∈ b :: t := List.mem_cons_self
    have h0 := tv_nonneg (b :: t)
    rcases List.mem_cons.mp hx with rfl | hx' <;> rcases List.mem_cons.mp hy with rfl | hy'
    · simp; positivity
    · have := ih b hb y hy'
      calc |x - y| = |(x - b) + (b - y)| := by ring_nf
        _ ≤ |x - b| + |b - y| := abs_add_le _ _
        _ = |b - x| + |b - y| := by rw [abs_sub_comm]
        _ ≤ _ := by linarith
    · have := ih x hx' b hb
      calc |x - y| = |(x - b) + (b - y)| := by ring_nf
        _ ≤ |x - b| + |b - y| := abs_add_le _ _
        _ ≤ _ := by linarith
    · have := ih x hx' y hy'
      have : 0 ≤ |b - a| := abs_nonneg _
      linarith

theorem range_le_tv (l : List Rat) (hne : l ≠ []) : maxL l - minL l ≤ tv l := by
  cases l with
  | nil => exact absurd rfl hne
  | cons a t =>
    have h1 := (maxL_spec a t).1
    have h2 := (minL_spec a t).1
    exact le_trans (le_abs_self _) (abs_sub_le_tv _ _ h1 _ h2)

/-- 0 ≤ ffi -/
theorem ffi_nonneg (xs : List Rat) (hn : 3 ≤ xs.length) : 0 ≤ ffi xs := by
  unfold ffi
  have hne : xs ≠ [] := by intro h; simp [h] at hn
  have h := range_le_tv xs hne
  have : (0 : Rat) < (xs.length : Rat) - 2 := by
    have : (3 : Rat) ≤ (xs.length : Rat) := by exact_mod_cast hn
    linarith
  apply div_nonneg <;> linarith

/-- a non-decreasing sequence: total variation telescopes to last − first = max − min -/
theorem tv_of_nondecreasing : ∀ (a : Rat) (t : List Rat), List.IsChain (· ≤ ·) (a :: t) →
    tv (a :: t) = maxL (a :: t) - a ∧ minL (a :: t) = a
  | a, [], _ => by simp [tv, maxL, minL]
  | a, b :: t, h => by
    have hab : a ≤ b := (List.isChain_cons_cons.mp h).1
    obtain ⟨ih1, ih2⟩ := tv_of_nondecreasing b t (List.isChain_cons_cons.mp h).2
    have hbm : b ≤ maxL (b :: t) := (maxL_spec b t).2 b List.mem_cons_self
    rw [tv_cons2, maxL_cons2, minL_cons2, ih1, ih2, if_pos (le_trans hab hbm), abs_of_nonneg (by linarith)]
    constructor
    · ring
    · split_ifs with h' <;> linarith

theorem ffi_nondecreasing_zero (xs : List Rat) (h : List.IsChain (· ≤ ·) xs) : ffi xs = 0 := by
  unfold ffi
  cases xs with
  | nil => simp [tv, maxL, minL]
  | cons a t =>
    obtain ⟨h1, h2⟩ := tv_of_nondecreasing a t h
    rw [h1, h2]; simp

/-! ### invariances -/

theorem tv_map_add (c : Rat) : ∀ l : List Rat, tv (l.map (· + c)) = tv l
  | [] => rfl
  | [_] => by simp [tv]
  | a :: b :: t => by
    have ih := tv_map_add c (b :: t)
    simp only [List.map_cons] at ih ⊢
    rw [tv_cons2, tv_cons2, ih]; congr 2; ring

theorem tv_map_neg : ∀ l : List Rat, tv (l.map (fun x => -x)) = tv l
  | [] => rfl
  | [_] => by simp [tv]
  | a :: b :: t => by
    have ih := tv_map_neg (b :: t)
    simp only [List.map_cons] at ih ⊢
    rw [tv_cons2, tv_cons2, ih]; congr 1
    rw [show -b - -a = -(b - a) by ring, abs_neg]

theorem tv_map_mul (c : Rat) : ∀ l : List Rat, tv (l.map (fun x => c * x)) = |c| * tv l
  | [] => by simp [tv]
  | [_] => by simp [tv]
  | a :: b :: t => by
    have ih := tv_map_mul c (b :: t)
    simp only [List.map_cons] at ih ⊢
    rw [tv_cons2, tv_cons2, ih, show c * b - c * a = c * (b - a) by ring, abs_mul]; ring

theorem tv_append_singleton : ∀ (l : List Rat) (a b : Rat), tv ((a :: l) ++ [b]) = tv (a :: l) + |b - (a :: l).getLast (by simp)|
  | [], a, b => by simp [tv, rabs_eq_abs]
  | c :: l, a, b => by
    have ih := tv_append_singleton l c b
    simp only [List.cons_append] at ih ⊢
    rw [tv_cons2, tv_cons2, ih]
    simp only [List.getLast_cons_cons]
    ring

theorem tv_reverse : ∀ l : List Rat, tv l.reverse = tv l
  | [] => rfl
  | [_] => by simp [tv]
  | a :: b :: t => by
    have ih := tv_reverse (b :: t)
    rw [List.reverse_cons, tv_cons2]
    have hne : (b :: t).reverse ≠ [] := by simp
    obtain ⟨c, l, hcl⟩ := List.exists_cons_of_ne_nil hne
    have hlast : (c :: l).getLast (by simp) = b := by
      have : (c :: l).getLast (by simp) = ((b :: t).reverse).getLast hne := by simp [hcl]
      rw [this, List.getLast_reverse]; simp
    rw [hcl, tv_append_singleton, hlast, ← hcl, ih, abs_sub_comm]; ring

theorem range_map_add (c : Rat) (l : List Rat) (hne : l ≠ []) :
    maxL (l.map (· + c)) - minL (l.map (· + c)) = maxL l - minL l := by
  obtain ⟨a, t, rfl⟩ := List.exists_cons_of_ne_nil hne
  obtain ⟨hM, hMu⟩ := maxL_spec a t
  obtain ⟨hm, hml⟩ := minL_spec a t
  rw [maxL_eq_of _ (maxL (a :: t) + c) (List.mem_map.mpr ⟨_, hM, rfl⟩) (by
        intro x hx; obtain ⟨y, hy, rfl⟩ := List.mem_map.mp hx; have := hMu y hy; linarith),
      minL_eq_of _ (minL (a :: t) + c) (List.mem_map.mpr ⟨_, hm, rfl⟩) (by
        intro x hx; obtain ⟨y, hy, rfl⟩ := List.mem_map.mp hx; have := hml y hy; linarith)]
  ring

theorem range_map_neg (l : List Rat) (hne : l ≠ []) :
    maxL (l.map (fun x => -x)) - minL (l.map (fun x => -x)) = maxL l - minL l := by
  obtain ⟨a, t, rfl⟩ := List.exists_cons_of_ne_nil hne
  obtain ⟨hM, hMu⟩ := maxL_spec a t
  obtain ⟨hm, hml⟩ := minL_spec a t
  rw [maxL_eq_of _ (-minL (a :: t)) (List.mem_map.mpr ⟨_, hm, rfl⟩) (by
        intro x hx; obtain ⟨y, hy, rfl⟩ := List.mem_map.mp hx; have := hml y hy; linarith),
      minL_eq_of _ (-maxL (a :: t)) (List.mem_map.mpr ⟨_, hM, rfl⟩) (by
        intro x hx; obtain ⟨y, hy, rfl⟩ := List.mem_map.mp hx; have := hMu y hy; linarith)]
  ring

theorem range_reverse (l : List Rat) (hne : l ≠ []) :
    maxL l.reverse - minL l.reverse = maxL l - minL l := by
  obtain ⟨a, t, rfl⟩ := List.exists_cons_of_ne_nil hne
  obtain ⟨hM, hMu⟩ := maxL_spec a t
  obtain ⟨hm, hml⟩ := minL_spec a t
  rw [maxL_eq_of _ (maxL (a :: t)) (List.mem_reverse.mpr hM) (fun x hx => hMu x (List.mem_reverse.mp hx)),
      minL_eq_of _ (minL (a :: t)) (List.mem_reverse.mpr hm) (fun x hx => hml x (List.mem_reverse.mp hx))]

theorem range_map_mul (c : Rat) (l : List Rat) (hne : l ≠ []) :
    maxL (l.map (fun x => c * x)) - minL (l.map (fun x => c * x)) = |c| * (maxL l - minL l) := by
  obtain ⟨a, t, rfl⟩ := List.exists_cons_of_ne_nil hne
  obtain ⟨hM, hMu⟩ := maxL_spec a t
  obtain ⟨hm, hml⟩ := minL_spec a t
  rcases le_total 0 c with hc | hc
  · rw [maxL_eq_of _ (c * maxL (a :: t)) (List.mem_map.mpr ⟨_, hM, rfl⟩) (by
          intro x hx; obtain ⟨y, hy, rfl⟩ := List.mem_map.mp hx; exact mul_le_mul_of_nonneg_left (hMu y hy) hc),
        minL_eq_of _ (c * minL (a :: t)) (List.mem_map.mpr ⟨_, hm, rfl⟩) (by
          intro x hx; obtain ⟨y, hy, rfl⟩ := List.mem_map.mp hx; exact mul_le_mul_of_nonneg_left (hml y hy) hc),
        abs_of_nonneg hc]
    ring
  · rw [maxL_eq_of _ (c * minL (a :: t)) (List.mem_map.mpr ⟨_, hm, rfl⟩) (by
          intro x hx; obtain ⟨y, hy, rfl⟩ := List.mem_map.mp hx; exact mul_le_mul_of_nonpos_left (hml y hy) hc),
        minL_eq_of _ (c * maxL (a :: t)) (List.mem_map.mpr ⟨_, hM, rfl⟩) (by
          intro x hx; obtain ⟨y, hy, rfl⟩ := List.mem_map.mp hx; exact mul_le_mul_of_nonpos_left (hMu y hy) hc),
        abs_of_nonpos hc]
    ring

theorem ffi_shift (c : Rat) (xs : List Rat) : ffi (xs.map (· + c)) = ffi xs := by
  unfold ffi
  by_cases hne : xs = []
  · simp [hne]
  · rw [tv_map_add, range_map_add c xs hne, List.length_map]

theorem ffi_negate (xs : List Rat) : ffi (xs.map (fun x => -x)) = ffi xs := by
  unfold ffi
  by_cases hne : xs = []
  · simp [hne]
  · rw [tv_map_neg, range_map_neg xs hne, List.length_map]

theorem ffi_reverse (xs : List Rat) : ffi xs.reverse = ffi xs := by
  unfold ffi
  by_cases hne : xs = []
  · simp [hne]
  · rw [tv_reverse, range_reverse xs hne, List.length_reverse]

theorem ffi_scale (c : Rat) (xs : List Rat) : ffi (xs.map (fun x => c * x)) = |c| * ffi xs := by
  unfold ffi
  by_cases hne : xs = []
  · simp [hne, tv, maxL, minL]
  · rw [tv_map_mul, range_map_mul c xs hne, List.length_map]; ring

/-- a non-increasing sequence also has index 0 (negate, then non-decreasing) -/
theorem ffi_nonincreasing_zero (xs : List Rat) (h : List.IsChain (· ≥ ·) xs) : ffi xs = 0 := by
  rw [← ffi_negate]
  apply ffi_nondecreasing_zero
  rw [List.isChain_map]
  exact h.imp fun a b hab => neg_le_neg hab

end SV.Spec.FlipFlop

namespace SV.Model.FlipFlop
open SV SV.Fl
open SV.Spec.FlipFlop (tv maxL minL)

theorem foldl_add_fin (qs : List Rat) : ∀ acc : Rat, (qs.map fin).foldl Fl.add (fin acc) = fin (acc + qs.sum) := by
  induction qs with
  | nil => intro acc; simp
  | cons q t ih => intro acc; simp only [List.map_cons, List.foldl_cons, add_fin, ih, List.sum_cons]; congr 1; ring

theorem valid_map_fin (qs : List Rat) : valid (qs.map fin) = qs.map fin := by
  unfold valid; rw [List.filter_eq_self]; intro x hx; obtain ⟨q, _, rfl⟩ := List.mem_map.mp hx; rfl

theorem nansum_map_fin (qs : List Rat) : nansum (qs.map fin) = fin qs.sum := by
  unfold nansum fsum; rw [valid_map_fin, foldl_add_fin]; simp

theorem nansum_nan_cons (l : List Fl) : nansum (Fl.nan :: l) = nansum l := by
  unfold nansum valid; simp [List.filter_cons]

theorem max_fin (a b : Rat) : Fl.max (fin a) (fin b) = fin (if a ≤ b then b else a) := by
  unfold Fl.max; simp only [isNan_fin, Bool.or_self, Bool.false_eq_true, if_false, le_fin, decide_eq_true_eq]
  split_ifs <;> rfl

theorem min_fin (a b : Rat) : Fl.min (fin a) (fin b) = fin (if a ≤ b then a else b) := by
  unfold Fl.min; simp only [isNan_fin, Bool.or_self, Bool.false_eq_true, if_false, le_fin, decide_eq_true_eq]
  split_ifs <;> rfl

theorem foldl_max_fin (t : List Rat) : ∀ a : Rat, ∃ m : Rat, (t.map fin).foldl Fl.max (fin a) = fin m ∧ m ∈ a :: t ∧ ∀ x ∈ a :: t, x ≤ m := by
  induction t with
  | nil => intro a; exact ⟨a, rfl, List.mem_cons_self, fun x hx => by simp at hx; exact le_of_eq hx⟩
  | cons b t ih =>
    intro a
    simp only [List.map_cons, List.foldl_cons, max_fin]
    obtain ⟨m, h1, h2, h3⟩ := ih (if a ≤ b then b else a)
    refine ⟨m, h1, ?_, ?_⟩
    · rcases List.mem_cons.mp h2 with h | h
      · split_ifs at h <;> simp [h]
      · exact List.mem_cons_of_mem _ (List.mem_cons_of_mem _ h)
    · intro x hx
      have hc : (if a ≤ b then b else a) ≤ m := h3 _ List.mem_cons_self
      rcases List.mem_cons.mp hx with rfl | hx
      · split_ifs at hc with hab <;> linarith
      · rcases List.mem_cons.mp hx with rfl | hx
        · split_ifs at hc with hab
          · exact hc
          · exact le_trans (le_of_lt (not_le.mp hab)) hc
        · exact h3 x (List.mem_cons_of_mem _ hx)

theorem foldl_min_fin (t : List Rat) : ∀ a : Rat, ∃ m : Rat, (t.map fin).foldl Fl.min (fin a) = fin m ∧ m ∈ a :: t ∧ ∀ x ∈ a :: t, m ≤ x := by
  induction t with
  | nil => intro a; exact ⟨a, rfl, List.mem_cons_self, fun x hx => by simp at hx; exact le_of_eq hx.symm⟩
  | cons b t ih =>
    intro a
    simp only [List.map_cons, List.foldl_cons, min_fin]
    obtain ⟨m, h1, h2, h3⟩ := ih (if a ≤ b then a else b)
    refine ⟨m, h1, ?_, ?_⟩
    · rcases List.mem_cons.mp h2 with h | h
      · split_ifs at h <;> simp [h]
      · exact List.mem_cons_of_mem _ (List.mem_cons_of_mem _ h)
    · intro x hx
      have hc : m ≤ (if a ≤ b then a else b) := h3 _ List.mem_cons_self
      rcases List.mem_cons.mp hx with rfl | hx
      · split_ifs at hc with hab
        · exact hc
        · exact le_trans hc (le_of_lt (not_le.mp hab))
      · rcases List.mem_cons.mp hx with rfl | hx
        · split_ifs at hc with hab <;> linarith
        · exact h3 x (List.mem_cons_of_mem _ hx)

theorem maxStrict_fin (a : Rat) (t : List Rat) : maxStrict ((a :: t).map fin) = fin (maxL (a :: t)) := by
  obtain ⟨m, h1, h2, h3⟩ := foldl_max_fin t a
  simp only [List.map_cons, maxStrict, h1]
  rw [SV.Spec.FlipFlop.maxL_eq_of _ m h2 h3]

theorem minStrict_fin (a : Rat) (t : List Rat) : minStrict ((a :: t).map fin) = fin (minL (a :: t)) := by
  obtain ⟨m, h1, h2, h3⟩ := foldl_min_fin t a
  simp only [List.map_cons, minStrict, h1]
  rw [SV.Spec.FlipFlop.minL_eq_of _ m h2 h3]

/-- |x_{i-1} − x_i| over successive pairs -/
def pairAbs : List Rat → List Rat
  | a :: b :: t => |a - b| :: pairAbs (b :: t)
  | _ => []

theorem sum_pairAbs : ∀ l : List Rat, (pairAbs l).sum = tv l
  | [] => by simp [pairAbs, tv]
  | [_] => by simp [pairAbs, tv]
  | a :: b :: t => by
    rw [pairAbs, List.sum_cons, sum_pairAbs (b :: t), SV.Spec.FlipFlop.tv_cons2, abs_sub_comm]

theorem zip_linear : ∀ (a : Rat) (t : List Rat),
    (List.zipWith SV.Gen.FlipFlop.linear_step ((a :: t).map fin) (t.map fin)).map Fl.abs = (pairAbs (a :: t)).map fin
  | a, [] => by simp [pairAbs]
  | a, b :: t => by
    have ih := zip_linear b t
    simp only [List.map_cons] at ih ⊢
    rw [List.zipWith_cons_cons, List.map_cons, ih, pairAbs, List.map_cons]
    simp [SV.Gen.FlipFlop.linear_step]

theorem absSum_linear (a : Rat) (t : List Rat) :
    absSum (shiftPairs SV.Gen.FlipFlop.linear_step ((a :: t).map fin)) = fin (tv (a :: t)) := by
  unfold absSum
  simp only [List.map_cons, shiftPairs]
  have h0 : Fl.abs (SV.Gen.FlipFlop.linear_step Fl.nan (fin a)) = Fl.nan := by simp [SV.Gen.FlipFlop.linear_step]
  rw [h0, nansum_nan_cons]
  have := zip_linear a t
  simp only [List.map_cons] at this
  rw [this, nansum_map_fin, sum_pairAbs]

/-- LINEAR FORMULA: on a finite sequence the model of `_flip_flop_index` is (Σ|x_{i+1} − x_i| − (max − min)) / (N − 2) -/
theorem ffiLinear_fin (xs : List Rat) (hn : 3 ≤ xs.length) :
    ffiLinear (xs.map fin) = fin (SV.Spec.FlipFlop.ffi xs) := by
  obtain ⟨a, t, rfl⟩ := List.exists_cons_of_ne_nil (l := xs) (by intro h; simp [h] at hn)
  unfold ffiLinear SV.Spec.FlipFlop.ffi
  rw [maxStrict_fin, minStrict_fin, absSum_linear]
  simp only [SV.Gen.FlipFlop.linear_range, SV.Gen.FlipFlop.tail, SV.Gen.FlipFlop.max_count, Fl.ofNat, sub_fin, List.length_map]
  have hne : (((a :: t).length : Nat) : Rat) - 2 ≠ 0 := by
    have : (3 : Rat) ≤ ((a :: t).length : Rat) := by exact_mod_cast hn
    intro h; linarith
  rw [div_fin _ _ hne]

end SV.Model.FlipFlop

namespace SV.Model.FlipFlop
open SV SV.Fl
open SV.Spec.FlipFlop (tv maxL minL angDiff tvAng arc coverFrom sector ffiAng)

/-! ### NaN -/

theorem max_nan_left (x : Fl) : Fl.max Fl.nan x = Fl.nan := by simp [Fl.max]
theorem max_nan_right (x : Fl) : Fl.max x Fl.nan = Fl.nan := by cases x <;> simp [Fl.max, Fl.isNan]
theorem min_nan_left (x : Fl) : Fl.min Fl.nan x = Fl.nan := by simp [Fl.min]
theorem min_nan_right (x : Fl) : Fl.min x Fl.nan = Fl.nan := by cases x <;> simp [Fl.min, Fl.isNan]

theorem foldl_max_nan (t : List Fl) : t.foldl Fl.max Fl.nan = Fl.nan := by
  induction t with
  | nil => rfl
  | cons b t ih => rw [List.foldl_cons, max_nan_left, ih]

theorem foldl_max_of_mem_nan (t : List Fl) : ∀ a : Fl, Fl.nan ∈ a :: t → t.foldl Fl.max a = Fl.nan := by
  induction t with
  | nil => intro a h; simp at h; simp [← h]
  | cons b t ih =>
    intro a h
    rw [List.foldl_cons]
    rcases List.mem_cons.mp h with h | h
    · rw [← h, max_nan_left, foldl_max_nan]
    · rcases List.mem_cons.mp h with h | h
      · rw [← h, max_nan_right, foldl_max_nan]
      · exact ih _ (List.mem_cons_of_mem _ h)

theorem maxStrict_of_mem_nan (xs : List Fl) (h : Fl.nan ∈ xs) : maxStrict xs = Fl.nan := by
  cases xs with
  | nil => rfl
  | cons a t => exact foldl_max_of_mem_nan t a h

theorem all_fin_of_no_nan : ∀ (xs : List Fl), (∀ x ∈ xs, x = Fl.nan ∨ ∃ q, x = fin q) → Fl.nan ∉ xs → ∃ qs : List Rat, xs = qs.map fin
  | [], _, _ => ⟨[], rfl⟩
  | x :: t, h, hn => by
    obtain ⟨qs, hqs⟩ := all_fin_of_no_nan t (fun y hy => h y (List.mem_cons_of_mem _ hy)) (fun hm => hn (List.mem_cons_of_mem _ hm))
    rcases h x List.mem_cons_self with hx | ⟨q, hx⟩
    · exact absurd (hx ▸ List.mem_cons_self) hn
    · exact ⟨q :: qs, by simp [hx, hqs]⟩

/-- the index is NaN iff the sequence contains a NaN (finite-or-NaN sequences of length ≥ 3) -/
theorem ffiLinear_nan_iff (xs : List Fl) (hfin : ∀ x ∈ xs, x = Fl.nan ∨ ∃ q, x = fin q) (hn : 3 ≤ xs.length) :
    ffiLinear xs = Fl.nan ↔ Fl.nan ∈ xs := by
  constructor
  · intro h
    by_contra hno
    obtain ⟨qs, rfl⟩ := all_fin_of_no_nan xs hfin hno
    rw [ffiLinear_fin qs (by simpa using hn)] at h
    exact Fl.noConfusion h
  · intro h
    unfold ffiLinear
    rw [maxStrict_of_mem_nan xs h]
    simp [SV.Gen.FlipFlop.linear_range, SV.Gen.FlipFlop.tail]

/-! ### directional pieces -/

theorem rmod_eq (a b : Rat) (hb : b ≠ 0) : rmod a b = b * Int.fract (a / b) := by
  have hf : ((a / b).floor : Rat) = (⌊a / b⌋ : Rat) := rfl
  unfold rmod Int.fract; rw [hf]; field_simp

theorem rmod360_nonneg (a : Rat) : 0 ≤ rmod a 360 := by
  rw [rmod_eq a 360 (by norm_num)]; have := Int.fract_nonneg (a / 360); positivity

theorem rmod360_lt (a : Rat) : rmod a 360 < 360 := by
  rw [rmod_eq a 360 (by norm_num)]; have := Int.fract_lt_one (a / 360); linarith

theorem angDiff_nonneg (a b : Rat) : 0 ≤ angDiff a b := by
  unfold angDiff
  have h1 := rmod360_nonneg (rabs (a - b))
  have h2 := rmod360_lt (rabs (a - b))
  simp only
  split_ifs <;> linarith

theorem angular_difference_fin (a b : Rat) : SV.Gen.FlipFlop.angular_difference (fin a) (fin b) = fin (angDiff a b) := by
  unfold SV.Gen.FlipFlop.angular_difference angDiff Fl.mod Fl.whereB
  simp only [sub_fin, abs_fin, ← rabs_eq_abs, le_fin, decide_eq_true_eq]
  norm_num
  split_ifs <;> rfl

theorem angular_difference_nan (a : Fl) : Fl.abs (SV.Gen.FlipFlop.angular_difference Fl.nan a) = Fl.nan := by
  simp [SV.Gen.FlipFlop.angular_difference, Fl.mod, Fl.whereB]

def pairAng : List Rat → List Rat
  | a :: b :: t => angDiff a b :: pairAng (b :: t)
  | _ => []

theorem sum_pairAng : ∀ l : List Rat, (pairAng l).sum = tvAng l
  | [] => by simp [pairAng, tvAng]
  | [_] => by simp [pairAng, tvAng]
  | a :: b :: t => by rw [pairAng, List.sum_cons, sum_pairAng (b :: t), tvAng]

theorem zip_angular : ∀ (a : Rat) (t : List Rat),
    (List.zipWith SV.Gen.FlipFlop.angular_difference ((a :: t).map fin) (t.map fin)).map Fl.abs = (pairAng (a :: t)).map fin
  | a, [] => by simp [pairAng]
  | a, b :: t => by
    have ih := zip_angular b t
    simp only [List.map_cons] at ih ⊢
    rw [List.zipWith_cons_cons, List.map_cons, ih, pairAng, List.map_cons, angular_difference_fin, abs_fin,
      abs_of_nonneg (angDiff_nonneg a b)]

theorem absSum_angular (a : Rat) (t : List Rat) :
    absSum (shiftPairs SV.Gen.FlipFlop.angular_difference ((a :: t).map fin)) = fin (tvAng (a :: t)) := by
  unfold absSum
  simp only [List.map_cons, shiftPairs]
  rw [angular_difference_nan, nansum_nan_cons]
  have := zip_angular a t
  simp only [List.map_cons] at this
  rw [this, nansum_map_fin, sum_pairAng]

/-- DIRECTIONAL FORMULA, given the value S of the sector routine: (Σ circular changes − min(S, 180)) / (N − 2) -/
theorem ffiAngular_fin (xs : List Rat) (S : Rat) (hn : 3 ≤ xs.length) (hS : sectorNp false (xs.map fin) = fin S) :
    ffiAngular (xs.map fin) = fin ((tvAng xs - (if S ≤ 180 then S else 180)) / ((xs.length : Rat) - 2)) := by
  obtain ⟨a, t, rfl⟩ := List.exists_cons_of_ne_nil (l := xs) (by intro h; simp [h] at hn)
  unfold ffiAngular
  rw [hS, absSum_angular]
  simp only [SV.Gen.FlipFlop.angular_range, SV.Gen.FlipFlop.tail, SV.Gen.FlipFlop.max_count, Fl.ofNat, sub_fin, List.length_map]
  have hne : (((a :: t).length : Nat) : Rat) - 2 ≠ 0 := by
    have : (3 : Rat) ≤ ((a :: t).length : Rat) := by exact_mod_cast hn
    intro h; linarith
  have hmin : Fl.min (fin S) (fin 180) = fin (if S ≤ 180 then S else 180) := by
    unfold Fl.min; simp only [isNan_fin, Bool.or_self, Bool.false_eq_true, if_false, le_fin, decide_eq_true_eq]
    split_ifs <;> rfl
  rw [hmin, sub_fin, div_fin _ _ hne]

end SV.Model.FlipFlop

namespace SV.Spec.FlipFlop

/-! ### rotation invariance of the directional specification -/

theorem angDiff_rotate (a b c : Rat) : angDiff (a + c) (b + c) = angDiff a b := by
  unfold angDiff; rw [show a + c - (b + c) = a - b by ring]

theorem arc_rotate (a b c : Rat) : arc (a + c) (b + c) = arc a b := by
  unfold arc; rw [show b + c - (a + c) = b - a by ring]

theorem tvAng_rotate (c : Rat) : ∀ l : List Rat, tvAng (l.map (· + c)) = tvAng l
  | [] => rfl
  | [_] => by simp [tvAng]
  | a :: b :: t => by
    have ih := tvAng_rotate c (b :: t)
    simp only [List.map_cons] at ih ⊢
    rw [tvAng, tvAng, ih, angDiff_rotate]

theorem coverFrom_rotate (xs : List Rat) (a c : Rat) : coverFrom (xs.map (· + c)) (a + c) = coverFrom xs a := by
  unfold coverFrom
  rw [List.map_map]
  congr 1
  apply List.map_congr_left
  intro b _
  exact arc_rotate a b c

/-- rotating every direction by the same angle does not change the smallest covering sector -/
theorem sector_rotate (xs : List Rat) (c : Rat) : sector (xs.map (· + c)) = sector xs := by
  unfold sector
  rw [List.map_map]
  congr 1
  apply List.map_congr_left
  intro a _
  exact coverFrom_rotate xs a c

theorem ffiAng_rotate (xs : List Rat) (c : Rat) : ffiAng (xs.map (· + c)) = ffiAng xs := by
  unfold ffiAng
  simp only [sector_rotate, tvAng_rotate, List.length_map]

end SV.Spec.FlipFlop

namespace SV.Model.FlipFlop
open SV SV.Fl

/-! ### proportion exceeding -/

def optFl : Option Rat → Fl
  | some q => fin q
  | none => Fl.nan

theorem valid_flags (t : Rat) : ∀ vs : List (Option Rat),
    valid ((vs.map optFl).map fun v => exceedFlag v (fin t)) = ((vs.filterMap id).map fun q => if t ≤ q then (1 : Rat) else 0).map fin
  | [] => rfl
  | none :: vs => by
    have ih := valid_flags t vs
    simp only [List.map_cons, optFl, exceedFlag, valid, List.filterMap_cons, id] at ih ⊢
    simpa [List.filter_cons] using ih
  | some q :: vs => by
    have ih := valid_flags t vs
    simp only [List.map_cons, optFl, valid, List.filterMap_cons, id] at ih ⊢
    have hf : exceedFlag (fin q) (fin t) = fin (if t ≤ q then 1 else 0) := by
      simp only [exceedFlag, isNan_fin, Bool.or_self, Bool.false_eq_true, if_false, Fl.ofBool, ge_fin, decide_eq_true_eq]
      split_ifs <;> rfl
    rw [hf, List.filter_cons]
    simp only [notNan_fin, if_true, List.map_cons]
    rw [ih]

theorem sum_indicator (t : Rat) : ∀ qs : List Rat,
    (qs.map fun q => if t ≤ q then (1 : Rat) else 0).sum = ((qs.filter fun q => t ≤ q).length : Rat)
  | [] => by simp
  | q :: qs => by
    rw [List.map_cons, List.sum_cons, sum_indicator t qs, List.filter_cons]
    by_cases h : t ≤ q
    · simp [h]; ring
    · simp [h]

/-- proportion exceeding = the fraction of the valid (non-NaN) indices that are ≥ t; NaN when there is none -/
theorem proportionExceeding_eq (vs : List (Option Rat)) (t : Rat) :
    proportionExceeding (vs.map optFl) (fin t) = optFl (SV.Spec.FlipFlop.proportion vs t) := by
  unfold proportionExceeding nanmean SV.Spec.FlipFlop.proportion
  simp only
  rw [valid_flags]
  by_cases he : (vs.filterMap id).isEmpty
  · have : vs.filterMap id = [] := List.isEmpty_iff.mp he
    rw [this]; simp [optFl]
  · have hne : vs.filterMap id ≠ [] := fun h => he (List.isEmpty_iff.mpr h)
    have hlen : 0 < (vs.filterMap id).length := List.length_pos_of_ne_nil hne
    have hl0 : ((vs.filterMap id).length : Rat) ≠ 0 := by exact_mod_cast hlen.ne'
    simp only [List.isEmpty_iff, List.map_eq_nil_iff, hne, if_false, optFl, List.length_map, fsum, Fl.ofNat]
    have := foldl_add_fin ((vs.filterMap id).map fun q => if t ≤ q then (1 : Rat) else 0) 0
    rw [this, zero_add, sum_indicator, div_fin _ _ hl0]

end SV.Model.FlipFlop

namespace SV.Spec.FlipFlop
open SV

/-! ### converse: index 0 forces a monotone sequence -/

theorem tv_of_nonincreasing : ∀ (a : Rat) (t : List Rat), List.IsChain (· ≥ ·) (a :: t) →
    tv (a :: t) = a - minL (a :: t) ∧ maxL (a :: t) = a
  | a, [], _ => by simp [tv, maxL, minL]
  | a, b :: t, h => by
    have hab : a ≥ b := (List.isChain_cons_cons.mp h).1
    obtain ⟨ih1, ih2⟩ := tv_of_nonincreasing b t (List.isChain_cons_cons.mp h).2
    have hbm : minL (b :: t) ≤ b := (minL_spec b t).2 b List.mem_cons_self
    rw [tv_cons2, maxL_cons2, minL_cons2, ih1, ih2, if_pos (le_trans hbm hab), abs_of_nonpos (by linarith)]
    constructor
    · ring
    · split_ifs with h' <;> linarith

theorem const_of_tv_zero : ∀ l : List Rat, tv l = 0 → List.IsChain (· ≤ ·) l ∧ List.IsChain (· ≥ ·) l
  | [], _ => by simp
  | [_], _ => by simp
  | a :: b :: t, h => by
    rw [tv_cons2] at h
    have h1 := abs_nonneg (b - a)
    have h2 := tv_nonneg (b :: t)
    have hz : |b - a| = 0 := by linarith
    have hab : a = b := by have := abs_eq_zero.mp hz; linarith
    obtain ⟨c1, c2⟩ := const_of_tv_zero (b :: t) (by linarith)
    exact ⟨List.isChain_cons_cons.mpr ⟨le_of_eq hab, c1⟩, List.isChain_cons_cons.mpr ⟨ge_of_eq hab, c2⟩⟩

theorem monotone_of_tv_eq_range : ∀ l : List Rat, tv l = maxL l - minL l →
    List.IsChain (· ≤ ·) l ∨ List.IsChain (· ≥ ·) l
  | [], _ => by simp
  | [_], _ => by simp
  | a :: b :: t, h => by
    have hM := (maxL_spec b t).2 b List.mem_cons_self
    have hm := (minL_spec b t).2 b List.mem_cons_self
    have hr := range_le_tv (b :: t) (by simp)
    have h0 := abs_nonneg (b - a)
    rw [tv_cons2, maxL_cons2, minL_cons2] at h
    by_cases h1 : a ≤ maxL (b :: t)
    · by_cases h2 : minL (b :: t) ≤ a
      · -- a inside the range of the tail
        rw [if_pos h1, if_pos h2] at h
        have hz : |b - a| = 0 := by linarith
        have hab : a = b := by have := abs_eq_zero.mp hz; linarith
        rcases monotone_of_tv_eq_range (b :: t) (by linarith) with c | c
        · exact Or.inl (List.isChain_cons_cons.mpr ⟨le_of_eq hab, c⟩)
        · exact Or.inr (List.isChain_cons_cons.mpr ⟨ge_of_eq hab, c⟩)
      · -- a below the tail
        rw [if_pos h1, if_neg h2] at h
        have h2' : a < minL (b :: t) := not_le.mp h2
        have habs : |b - a| = b - a := abs_of_nonneg (by linarith)
        rw [habs] at h
        have hbm : b = minL (b :: t) := by linarith
        rcases monotone_of_tv_eq_range (b :: t) (by linarith) with c | c
        · exact Or.inl (List.isChain_cons_cons.mpr ⟨by linarith, c⟩)
        · obtain ⟨e1, _⟩ := tv_of_nonincreasing b t c
          have : tv (b :: t) = 0 := by rw [e1]; linarith
          exact Or.inl (List.isChain_cons_cons.mpr ⟨by linarith, (const_of_tv_zero _ this).1⟩)
    · -- a above the tail
      have h1' : maxL (b :: t) < a := not_le.mp h1
      have h2 : minL (b :: t) ≤ a := by linarith
      rw [if_neg h1, if_pos h2] at h
      have habs : |b - a| = a - b := by rw [abs_of_nonpos (by linarith)]; ring
      rw [habs] at h
      have hbm : b = maxL (b :: t) := by linarith
      rcases monotone_of_tv_eq_range (b :: t) (by linarith) with c | c
      · obtain ⟨e1, _⟩ := tv_of_nondecreasing b t c
        have : tv (b :: t) = 0 := by rw [e1]; linarith
        exact Or.inr (List.isChain_cons_cons.mpr ⟨by linarith, (const_of_tv_zero _ this).2⟩)
      · exact Or.inr (List.isChain_cons_cons.mpr ⟨by linarith, c⟩)

/-- index 0 ⇒ monotone (length ≥ 3) -/
theorem monotone_of_ffi_zero (xs : List Rat) (hn : 3 ≤ xs.length) (h : ffi xs = 0) :
    List.IsChain (· ≤ ·) xs ∨ List.IsChain (· ≥ ·) xs := by
  unfold ffi at h
  have hne : (xs.length : Rat) - 2 ≠ 0 := by
    have : (3 : Rat) ≤ (xs.length : Rat) := by exact_mod_cast hn
    intro h'; linarith
  rcases div_eq_zero_iff.mp h with h' | h'
  · exact monotone_of_tv_eq_range xs (by linarith)
  · exact absurd h' hne

end SV.Spec.FlipFlop
