/-
  C14 stretch: the trapezoid area under a complete set of ROC points is the Mann–Whitney statistic.
-/
import ScoresVerif.Lemmas.Roc
import ScoresVerif.Lemmas.RocMW1
namespace SV.Lemmas.Roc
open SV SV.Spec.Roc

section sums
variable {α β : Type}
theorem gsum_congr {f g : α → Rat} : ∀ {l : List α}, (∀ a ∈ l, f a = g a) → (l.map f).sum = (l.map g).sum
  | [], _ => rfl
  | a :: l, H => by
    simp only [List.map_cons, List.sum_cons]
    rw [H a (by simp), gsum_congr (l := l) (fun b hb => H b (List.mem_cons_of_mem _ hb))]
theorem gsum_add (f h : α → Rat) : ∀ (l : List α), (l.map fun b => f b + h b).sum = (l.map f).sum + (l.map h).sum
  | [] => by simp
  | a :: l => by simp only [List.map_cons, List.sum_cons, gsum_add f h l]; ring
theorem gsum_sub (f h : α → Rat) : ∀ (l : List α), (l.map fun b => f b - h b).sum = (l.map f).sum - (l.map h).sum
  | [] => by simp
  | a :: l => by simp only [List.map_cons, List.sum_cons, gsum_sub f h l]; ring
theorem gsum_mul_const (f : α → Rat) (c : Rat) : ∀ (l : List α), (l.map fun b => f b * c).sum = (l.map f).sum * c
  | [] => by simp
  | a :: l => by simp only [List.map_cons, List.sum_cons, gsum_mul_const f c l]; ring
theorem gsum_const_mul (f : α → Rat) (c : Rat) : ∀ (l : List α), (l.map fun b => c * f b).sum = c * (l.map f).sum
  | [] => by simp
  | a :: l => by simp only [List.map_cons, List.sum_cons, gsum_const_mul f c l]; ring
theorem gsum_swap (f : α → β → Rat) (ys : List β) : ∀ (xs : List α),
    (xs.map fun a => (ys.map fun b => f a b).sum).sum = (ys.map fun b => (xs.map fun a => f a b).sum).sum
  | [] => by simp
  | a :: xs => by
    simp only [List.map_cons, List.sum_cons]
    rw [gsum_swap f ys xs, ← gsum_add]
theorem gsum_filter (p : α → Bool) (g : α → Rat) : ∀ (l : List α),
    ((l.filter p).map g).sum = (l.map fun a => if p a then g a else 0).sum
  | [] => by simp
  | a :: l => by by_cases h : p a <;> simp [List.filter_cons, h, gsum_filter p g l]
end sums

/-! consec is linear -/
theorem consec_smul (c : Rat) (g : Rat → Rat → Rat) : ∀ (l : List Rat), consec (fun p q => c * g p q) l = c * consec g l
  | [] => by simp [consec]
  | [_] => by simp [consec]
  | p :: q :: rest => by simp only [consec, consec_smul c g (q :: rest)]; ring
theorem consec_zero : ∀ (l : List Rat), consec (fun _ _ => 0) l = 0
  | [] => rfl
  | [_] => rfl
  | p :: q :: rest => by simp [consec, consec_zero (q :: rest)]
theorem consec_add (g h : Rat → Rat → Rat) : ∀ (l : List Rat),
    consec (fun p q => g p q + h p q) l = consec g l + consec h l
  | [] => by simp [consec]
  | [_] => by simp [consec]
  | p :: q :: rest => by simp only [consec, consec_add g h (q :: rest)]; ring
theorem consec_listSum {α : Type} (G : α → Rat → Rat → Rat) (ts : List Rat) : ∀ (l : List α),
    consec (fun p q => (l.map fun a => G a p q).sum) ts = (l.map fun a => consec (G a) ts).sum
  | [] => by simp [consec_zero]
  | a :: l => by
    simp only [List.map_cons, List.sum_cons]
    rw [consec_add (G a) (fun p q => (l.map fun a => G a p q).sum) ts, consec_listSum G ts l]

def evw (c : Case) : Rat := if c.ev then c.w else 0
def nevw (c : Case) : Rat := if c.ev then 0 else c.w

theorem hitsW_eq (cs : List Case) (t : Rat) : hitsW cs t = (cs.map fun c => evw c * geI c.f t).sum := by
  unfold hitsW; rw [← sum_ite_eq_wsumIf]
  apply gsum_congr; intro c _
  unfold evw geI; cases c.ev <;> by_cases h : t ≤ c.f <;> simp [h]
theorem falseAlarmsW_eq (cs : List Case) (t : Rat) : falseAlarmsW cs t = (cs.map fun c => nevw c * geI c.f t).sum := by
  unfold falseAlarmsW; rw [← sum_ite_eq_wsumIf]
  apply gsum_congr; intro c _
  unfold nevw geI; cases c.ev <;> by_cases h : t ≤ c.f <;> simp [h]
theorem eventsW_eq (cs : List Case) : eventsW cs = (cs.map evw).sum := by
  unfold eventsW; rw [← sum_ite_eq_wsumIf]; apply gsum_congr; intro c _; unfold evw; cases c.ev <;> simp
theorem nonEventsW_eq (cs : List Case) : nonEventsW cs = (cs.map nevw).sum := by
  unfold nonEventsW; rw [← sum_ite_eq_wsumIf]; apply gsum_congr; intro c _; unfold nevw; cases c.ev <;> simp

def podQ (cs : List Case) (t : Rat) : Rat := hitsW cs t / eventsW cs
def pofdQ (cs : List Case) (t : Rat) : Rat := falseAlarmsW cs t / nonEventsW cs
/-- the ROC points of the thresholds `ts`, as (POFD, POD) -/
def points (cs : List Case) (ts : List Rat) : List (Rat × Rat) := ts.map fun t => (pofdQ cs t, podQ cs t)

theorem trapArea_points (cs : List Case) : ∀ (ts : List Rat), trapArea (points cs ts) =
    consec (fun p q => (pofdQ cs p - pofdQ cs q) * (podQ cs p + podQ cs q) / 2) ts
  | [] => rfl
  | [_] => rfl
  | p :: q :: rest => by
    have ih := trapArea_points cs (q :: rest)
    simp only [points, List.map_cons] at ih ⊢
    simp only [trapArea, consec, ih]

theorem cell_expand (cs : List Case) (p q : Rat) :
    (pofdQ cs p - pofdQ cs q) * (podQ cs p + podQ cs q) / 2 =
      (1 / (nonEventsW cs * eventsW cs)) *
        (cs.map fun j => (cs.map fun i => nevw j * evw i * cellG j.f i.f p q).sum).sum := by
  have h1 : falseAlarmsW cs p - falseAlarmsW cs q = (cs.map fun j => nevw j * (geI j.f p - geI j.f q)).sum := by
    rw [falseAlarmsW_eq, falseAlarmsW_eq, ← gsum_sub]; apply gsum_congr; intro c _; ring
  have h2 : hitsW cs p + hitsW cs q = (cs.map fun i => evw i * (geI i.f p + geI i.f q)).sum := by
    rw [hitsW_eq, hitsW_eq, ← gsum_add]; apply gsum_congr; intro c _; ring
  have h3 : (cs.map fun j => (cs.map fun i => nevw j * evw i * cellG j.f i.f p q).sum).sum
      = (falseAlarmsW cs p - falseAlarmsW cs q) * (hitsW cs p + hitsW cs q) / 2 := by
    have hj : ∀ j ∈ cs, (cs.map fun i => nevw j * evw i * cellG j.f i.f p q).sum
        = (nevw j * (geI j.f p - geI j.f q)) * (1 / 2) * (cs.map fun i => evw i * (geI i.f p + geI i.f q)).sum := by
      intro j _
      rw [← gsum_const_mul]; apply gsum_congr; intro i _; unfold cellG; ring
    rw [gsum_congr hj, gsum_mul_const, gsum_mul_const, ← h1, ← h2]; ring
  rw [h3]; unfold pofdQ podQ
  by_cases hN : nonEventsW cs = 0
  · simp [hN]
  by_cases hE : eventsW cs = 0
  · simp [hE]
  field_simp

theorem mwK_eq (u v : Rat) : mwK u v = if v < u then 1 else if u = v then 1 / 2 else 0 := by
  unfold mwK geI
  rcases lt_trichotomy v u with h | h | h
  · simp [h, le_of_lt h]
  · subst h; simp
  · simp [not_lt.mpr (le_of_lt h), not_le.mpr h, ne_of_lt h]

/-- **Mann–Whitney**: when the (non-decreasing) thresholds contain every forecast value and a value above the largest
    one, the trapezoid area under the ROC points is the (weighted) probability that a random event received a higher
    forecast than a random non-event, ties counting one half. -/
theorem trapArea_eq_mannWhitney {cs : List Case} {ts : List Rat} (hs : ts.Pairwise (· ≤ ·))
    (hall : ∀ c ∈ cs, c.f ∈ ts) (htop : ∀ c ∈ cs, ∃ t ∈ ts, c.f < t)
    (hE : eventsW cs ≠ 0) (hN : nonEventsW cs ≠ 0) :
    Fl.fin (trapArea (points cs ts)) = mannWhitney cs := by
  unfold mannWhitney
  simp only []
  rw [Fl.div_fin _ _ (mul_ne_zero hE hN)]
  congr 1
  rw [trapArea_points]
  have e : (fun p q => (pofdQ cs p - pofdQ cs q) * (podQ cs p + podQ cs q) / 2) = fun p q =>
      (1 / (nonEventsW cs * eventsW cs)) * (cs.map fun j => (cs.map fun i => nevw j * evw i * cellG j.f i.f p q).sum).sum := by
    funext p q; exact cell_expand cs p q
  rw [e, consec_smul, consec_listSum (fun j p q => (cs.map fun i => nevw j * evw i * cellG j.f i.f p q).sum)]
  have inner : ∀ j ∈ cs, consec (fun p q => (cs.map fun i => nevw j * evw i * cellG j.f i.f p q).sum) ts
      = (cs.map fun i => nevw j * evw i * mwK i.f j.f).sum := by
    intro j hj
    rw [consec_listSum (fun i p q => nevw j * evw i * cellG j.f i.f p q)]
    apply gsum_congr; intro i hi
    rw [consec_smul, consec_cell hs (hall j hj) (Or.inl (hall i hi)) (htop j hj)]
  rw [gsum_congr inner]
  -- the double sum over all pairs restricted by the 0/1 weights is the sum over events × non-events
  have hnum : (cs.map fun j => (cs.map fun i => nevw j * evw i * mwK i.f j.f).sum).sum
      = (((cs.filter (·.ev)).map fun a => ((cs.filter (fun c => !c.ev)).map fun b =>
          a.w * b.w * (if b.f < a.f then 1 else if a.f = b.f then 1 / 2 else 0)).sum).sum) := by
    rw [gsum_filter, gsum_swap]
    apply gsum_congr; intro a _
    rw [gsum_filter]
    by_cases ha : a.ev
    · simp only [ha, if_true]
      apply gsum_congr; intro b _
      cases hb : b.ev <;> simp [nevw, evw, ha, hb, mwK_eq] <;> ring
    · simp only [ha]
      have : (cs.map fun j => nevw j * evw a * mwK a.f j.f).sum = (cs.map fun _ => (0 : Rat)).sum := by
        apply gsum_congr; intro b _; simp [evw, ha]
      rw [this]; simp
  rw [hnum]
  field_simp

theorem pairwise_of_nonDecreasing : ∀ {ts : List Rat}, Model.Roc.nonDecreasing (ts.map Fl.fin) = true → ts.Pairwise (· ≤ ·)
  | [], _ => List.Pairwise.nil
  | [_], _ => by simp
  | a :: b :: l, h => by
    simp only [List.map_cons, Model.Roc.nonDecreasing, Bool.and_eq_true, Fl.ge_fin, decide_eq_true_eq] at h
    have ih := pairwise_of_nonDecreasing (ts := b :: l) (by simpa using h.2)
    refine List.pairwise_cons.mpr ⟨?_, ih⟩
    intro x hx
    rcases List.mem_cons.mp hx with rfl | hx'
    · exact h.1
    · exact le_trans h.1 ((List.pairwise_cons.mp ih).1 x hx')

end SV.Lemmas.Roc
