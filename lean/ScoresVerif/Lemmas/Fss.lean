/-
  Lemmas for C16: the summed-area table of the model is the table of rectangle sums; the clipped corner
  indices of the zero-padding branch are windows of the zero-extended field (Mathlib allowed here).
-/
import ScoresVerif.Model.Fss
import ScoresVerif.Spec.Fss
import ScoresVerif.Lemmas.FlBasic
import Mathlib.Algebra.BigOperators.Intervals
import Mathlib.Tactic.Ring
import Mathlib.Tactic.Linarith
import Mathlib.Tactic.FieldSimp
import Mathlib.Tactic.Positivity
import Mathlib.Tactic.NormNum
import Mathlib.Algebra.Order.Field.Rat
import Mathlib.Data.Rat.Cast.Order

namespace SV.Model.Fss
open Finset SV SV.Fl

theorem get_mkTab (f : Nat → Nat → Int) (H W i j : Nat) (hi : i < H) (hj : j < W) :
    Fss.get (mkTab f H W) i j = f i j := by
  simp [Fss.get, mkTab, hi, hj]

theorem cumsum1_eq (x : Nat → Nat → Int) (i j : Nat) : cumsum1 x i j = ∑ b ∈ range (j + 1), x i b := by
  induction j with
  | zero => simp [cumsum1]
  | succ j ih => rw [cumsum1, ih, Finset.sum_range_succ _ (j + 1)]

theorem cumsum0_eq (x : Nat → Nat → Int) (i j : Nat) : cumsum0 x i j = ∑ a ∈ range (i + 1), x a j := by
  induction i with
  | zero => simp [cumsum0]
  | succ i ih => rw [cumsum0, ih, Finset.sum_range_succ _ (i + 1)]

/-- summed-area table: S i j = Σ_{a<i} Σ_{b<j} x a b -/
def sat (x : Nat → Nat → Int) (i j : Nat) : Int := ∑ a ∈ range i, ∑ b ∈ range j, x a b

theorem integral_eq_sat (x : Tab) (H W i j : Nat) (hi : i ≤ H) (hj : j ≤ W) :
    Fss.get (integral x H W) i j = sat (Fss.get x) i j := by
  unfold integral
  rw [get_mkTab _ _ _ _ _ (by omega) (by omega)]
  unfold zeroPad
  split_ifs with h0
  · rcases h0 with h0 | h0 <;> simp [sat, h0]
  · have hi0 : 0 < i := by omega
    have hj0 : 0 < j := by omega
    rw [get_mkTab _ _ _ _ _ (by omega) (by omega), cumsum0_eq]
    unfold sat
    have e1 : i - 1 + 1 = i := by omega
    rw [e1]
    apply Finset.sum_congr rfl
    intro a ha
    have ha' : a < i := Finset.mem_range.mp ha
    rw [get_mkTab _ _ _ _ _ (by omega) (by omega), cumsum1_eq]
    have e2 : j - 1 + 1 = j := by omega
    rw [e2]

/-- window sum between corners -/
def rect (x : Nat → Nat → Int) (t0 t1 b0 b1 : Nat) : Int := ∑ a ∈ Ico t0 b0, ∑ b ∈ Ico t1 b1, x a b

theorem sat_rect (x : Nat → Nat → Int) (t0 t1 b0 b1 : Nat) (h0 : t0 ≤ b0) (h1 : t1 ≤ b1) :
    sat x b0 b1 - sat x t0 b1 - sat x b0 t1 + sat x t0 t1 = rect x t0 t1 b0 b1 := by
  unfold sat rect
  have hrow : ∀ (f : Nat → Int) (m n : Nat), m ≤ n → ∑ a ∈ range n, f a - ∑ a ∈ range m, f a = ∑ a ∈ Ico m n, f a := by
    intro f m n hmn
    rw [Finset.sum_Ico_eq_sub _ hmn]
  have hcol : ∀ a, ∑ b ∈ range b1, x a b - ∑ b ∈ range t1, x a b = ∑ b ∈ Ico t1 b1, x a b := fun a => hrow (x a) t1 b1 h1
  calc _ = (∑ a ∈ range b0, (∑ b ∈ range b1, x a b - ∑ b ∈ range t1, x a b))
            - (∑ a ∈ range t0, (∑ b ∈ range b1, x a b - ∑ b ∈ range t1, x a b)) := by
          simp only [Finset.sum_sub_distrib]; ring
    _ = _ := by
          simp only [hcol]
          exact hrow (fun a => ∑ b ∈ Ico t1 b1, x a b) t0 b0 h0

theorem sumTo_eq_sum (n : Nat) (f : Nat → Int) : SV.Spec.Fss.sumTo n f = ∑ k ∈ range n, f k := by
  induction n with
  | zero => simp [SV.Spec.Fss.sumTo]
  | succ n ih => rw [SV.Spec.Fss.sumTo, ih, Finset.sum_range_succ]

/-- 1-D: a window of the zero-extended sequence is the clipped window of the sequence -/
theorem clip1 (g : Nat → Int) (k h half H : Nat) (hh : half ≤ h) :
    ∑ a ∈ range h, (if half ≤ k + a ∧ k + a < half + H then g (k + a - half) else 0)
      = ∑ a ∈ Ico (k - half) (min (k + (h - half)) H), g a := by
  rw [← Finset.sum_filter]
  have : ∑ a ∈ Ico (k - half) (min (k + (h - half)) H), g a
       = ∑ a ∈ Ico (k - half) (min (k + (h - half)) H), g (k + (a + half - k) - half) := by
    apply Finset.sum_congr rfl
    intro a ha
    rw [Finset.mem_Ico] at ha
    congr 1; omega
  rw [this]
  symm
  apply Finset.sum_bij (fun a _ => a + half - k)
  · intro a ha
    simp only [Finset.mem_Ico, Finset.mem_filter, Finset.mem_range] at *
    omega
  · intro a ha b hb hab
    simp only [Finset.mem_Ico] at *
    omega
  · intro b hb
    simp only [Finset.mem_Ico, Finset.mem_filter, Finset.mem_range] at *
    refine ⟨k + b - half, ?_, ?_⟩ <;> omega
  · intro a ha
    rfl

theorem corner_integral (x : Tab) (H W t0 t1 b0 b1 : Nat) (h0 : t0 ≤ b0) (h1 : t1 ≤ b1) (hH : b0 ≤ H) (hW : b1 ≤ W) :
    corner (integral x H W) t0 t1 b0 b1 = rect (Fss.get x) t0 t1 b0 b1 := by
  unfold corner
  rw [integral_eq_sat _ _ _ _ _ hH hW, integral_eq_sat _ _ _ _ _ (by omega) hW,
    integral_eq_sat _ _ _ _ _ hH (by omega), integral_eq_sat _ _ _ _ _ (by omega) (by omega)]
  exact sat_rect _ _ _ _ _ h0 h1

/-- a window of the zero-extended field (direct count) is the rectangle sum between the clipped corners -/
theorem win_ext (x : Nat → Nat → Int) (H W pt pl k l h w : Nat) (hpt : pt ≤ h) (hpl : pl ≤ w) :
    SV.Spec.Fss.win (SV.Spec.Fss.ext x H W pt pl) k l h w
      = rect x (k - pt) (l - pl) (min (k + (h - pt)) H) (min (l + (w - pl)) W) := by
  unfold SV.Spec.Fss.win rect
  rw [sumTo_eq_sum]
  simp only [sumTo_eq_sum]
  have inner : ∀ a, (∑ b ∈ range w, SV.Spec.Fss.ext x H W pt pl (k + a) (l + b))
      = if pt ≤ k + a ∧ k + a < pt + H then ∑ b ∈ Ico (l - pl) (min (l + (w - pl)) W), x (k + a - pt) b else 0 := by
    intro a
    by_cases hc : pt ≤ k + a ∧ k + a < pt + H
    · rw [if_pos hc, ← clip1 (x (k + a - pt)) l w pl W hpl]
      apply Finset.sum_congr rfl
      intro b _
      unfold SV.Spec.Fss.ext
      by_cases hb : pl ≤ l + b ∧ l + b < pl + W
      · rw [if_pos ⟨hc.1, hc.2, hb.1, hb.2⟩, if_pos hb]
      · rw [if_neg (fun hh => hb ⟨hh.2.2.1, hh.2.2.2⟩), if_neg hb]
    · rw [if_neg hc]
      apply Finset.sum_eq_zero
      intro b _
      unfold SV.Spec.Fss.ext
      rw [if_neg (fun hh => hc ⟨hh.1, hh.2.1⟩)]
  simp only [inner]
  exact clip1 (fun a => ∑ b ∈ Ico (l - pl) (min (l + (w - pl)) W), x a b) k h pt H hpt

theorem flatMap_range_congr (n m : Nat) (f g : Nat → Nat → Int) (h : ∀ i < n, ∀ j < m, f i j = g i j) :
    (List.range n).flatMap (fun i => (List.range m).map (f i)) = (List.range n).flatMap (fun i => (List.range m).map (g i)) :=
  List.flatMap_congr fun i hi => List.map_congr_left fun j hj => h i (List.mem_range.mp hi) j (List.mem_range.mp hj)

/-- NO PADDING: the model image is the list of direct window counts at the (H−h+1)(W−w+1) interior positions -/
theorem imgNoPad_eq_spec (x : Tab) (H W h w : Nat) :
    imgNoPad (integral x H W) H W h w = SV.Spec.Fss.image (Fss.get x) H W 0 0 0 0 h w := by
  unfold imgNoPad SV.Spec.Fss.image
  have e1 : 0 + H + 0 + 1 - h = H + 1 - h := by omega
  have e2 : 0 + W + 0 + 1 - w = W + 1 - w := by omega
  rw [e1, e2]
  apply flatMap_range_congr
  intro i hi j hj
  rw [win_ext _ _ _ _ _ _ _ _ _ (Nat.zero_le _) (Nat.zero_le _),
    corner_integral _ _ _ _ _ _ _ (by omega) (by omega) (by omega) (by omega)]
  congr 1 <;> omega

/-- ZERO PADDING: the clipped corner vectors give the direct window counts on the field zero-extended by ⌊h/2⌋ rows
    above and h − ⌊h/2⌋ rows below (⌊w/2⌋ columns left, w − ⌊w/2⌋ right): H+1 by W+1 positions -/
theorem imgPad_eq_spec (x : Tab) (H W h w : Nat) (hh : 1 ≤ h) (hw : 1 ≤ w) :
    imgPad (integral x H W) H W h w
      = SV.Spec.Fss.image (Fss.get x) H W (h / 2) (h - h / 2) (w / 2) (w - w / 2) h w := by
  unfold imgPad SV.Spec.Fss.image
  have e1 : h / 2 + H + (h - h / 2) + 1 - h = H + 1 := by omega
  have e2 : w / 2 + W + (w - w / 2) + 1 - w = W + 1 := by omega
  rw [e1, e2]
  apply flatMap_range_congr
  intro k hk l hl
  have t0 : tlIdx (h / 2) (H + 1) k = k - h / 2 := by unfold tlIdx clipI; omega
  have t1 : tlIdx (w / 2) (W + 1) l = l - w / 2 := by unfold tlIdx clipI; omega
  have b0 : brIdx (h - h / 2) (H + 1) k = min (k + (h - h / 2)) H := by unfold brIdx clipI; omega
  have b1 : brIdx (w - w / 2) (W + 1) l = min (l + (w - w / 2)) W := by unfold brIdx clipI; omega
  simp only [t0, t1, b0, b1]
  rw [win_ext _ _ _ _ _ _ _ _ _ (by omega) (by omega),
    corner_integral _ _ _ _ _ _ _ (by omega) (by omega) (by omega) (by omega)]

/-! ### scalar tails on finite components -/

theorem clamp_fin (v : Rat) :
    SV.Gen.Fss.pymax (SV.Gen.Fss.pymin (fin v) (fin 1)) (fin 0) = fin (max (min v 1) 0) := by
  unfold SV.Gen.Fss.pymax SV.Gen.Fss.pymin
  by_cases h1 : (1 : Rat) < v
  · have : ¬ (1 : Rat) < 0 := by norm_num
    simp [lt_fin, gt_fin, h1, min_eq_right (le_of_lt h1), this]
  · have h1' : v ≤ 1 := not_lt.mp h1
    by_cases h0 : v < 0
    · simp [lt_fin, gt_fin, h1, h0, min_eq_left h1', max_eq_right (le_of_lt h0)]
    · simp [lt_fin, gt_fin, h1, h0, min_eq_left h1', max_eq_left (not_lt.mp h0)]

/-- the scalar tail on finite components: zero-denominator branch and the clamp -/
theorem compute_fss_fin (f o d : Rat) :
    SV.Gen.Fss.compute_fss (fin f) (fin o) (fin d)
      = fin (if 0 < f + o then max (min (1 - d / (f + o)) 1) 0 else 0) := by
  unfold SV.Gen.Fss.compute_fss
  by_cases h : 0 < f + o
  · have hne : f + o ≠ 0 := ne_of_gt h
    simp only [add_fin, gt_fin, h, decide_true, if_true, div_fin _ _ hne, sub_fin]
    exact clamp_fin _
  · simp only [add_fin, gt_fin, h, decide_false, if_false]
    have := clamp_fin 0
    simpa using this

theorem agg_tail_fin (f o d : Rat) :
    SV.Gen.Fss.agg_tail (fin f, fin o, fin d)
      = fin (if 0 < o + f then max (min (1 - d / (o + f)) 1) 0 else 0) := by
  unfold SV.Gen.Fss.agg_tail
  by_cases h : 0 < o + f
  · have hne : o + f ≠ 0 := ne_of_gt h
    simp only [add_fin, gt_fin, h, decide_true, if_true, div_fin _ _ hne, sub_fin]
    exact clamp_fin _
  · simp only [add_fin, gt_fin, h, decide_false, if_false]
    have := clamp_fin 0
    simpa using this

/-! ### sums of squares -/

theorem sumSq_nonneg (l : List Int) : 0 ≤ sumSq l := by
  induction l with
  | nil => simp [sumSq]
  | cons v t ih => unfold sumSq; nlinarith [mul_self_nonneg v]

theorem spec_sums_eq : ∀ (lf lo : List Int), lf.length = lo.length →
    SV.Spec.Fss.sums lf lo = (sumSq lf, sumSq lo, sumSq (diffImg lo lf))
  | [], [], _ => by simp [SV.Spec.Fss.sums, sumSq, diffImg]
  | [], _ :: _, h => by simp at h
  | _ :: _, [], h => by simp at h
  | f :: fs, o :: os, h => by
    have ih := spec_sums_eq fs os (by simpa using h)
    simp only [SV.Spec.Fss.sums, ih, sumSq, diffImg, List.zipWith_cons_cons]

theorem spec_sums_bound : ∀ (lf lo : List Int), (∀ v ∈ lf, 0 ≤ v) → (∀ v ∈ lo, 0 ≤ v) →
    0 ≤ (SV.Spec.Fss.sums lf lo).1 ∧ 0 ≤ (SV.Spec.Fss.sums lf lo).2.1 ∧ 0 ≤ (SV.Spec.Fss.sums lf lo).2.2 ∧
    (SV.Spec.Fss.sums lf lo).2.2 ≤ (SV.Spec.Fss.sums lf lo).2.1 + (SV.Spec.Fss.sums lf lo).1
  | [], _, _, _ => by simp [SV.Spec.Fss.sums]
  | _ :: _, [], _, _ => by simp [SV.Spec.Fss.sums]
  | f :: fs, o :: os, hf, ho => by
    obtain ⟨h1, h2, h3, h4⟩ := spec_sums_bound fs os (fun v hv => hf v (List.mem_cons_of_mem _ hv))
      (fun v hv => ho v (List.mem_cons_of_mem _ hv))
    have f0 : 0 ≤ f := hf f List.mem_cons_self
    have o0 : 0 ≤ o := ho o List.mem_cons_self
    simp only [SV.Spec.Fss.sums]
    refine ⟨by nlinarith [mul_self_nonneg f], by nlinarith [mul_self_nonneg o], by nlinarith [mul_self_nonneg (o - f)], ?_⟩
    nlinarith [mul_nonneg f0 o0]

/-- 0 ≤ FSS ≤ 1 for the unclamped formula whenever the sums come from non-negative counts -/
theorem spec_score_bounds (s : Int × Int × Int) (h1 : 0 ≤ s.1) (h2 : 0 ≤ s.2.1) (h3 : 0 ≤ s.2.2) (h4 : s.2.2 ≤ s.2.1 + s.1) :
    0 ≤ SV.Spec.Fss.score s ∧ SV.Spec.Fss.score s ≤ 1 := by
  unfold SV.Spec.Fss.score
  split_ifs with h0
  · constructor <;> norm_num
  · have hpos : (0 : Rat) < ((s.2.1 + s.1 : Int) : Rat) := by
      have : 0 < s.2.1 + s.1 := lt_of_le_of_ne (by omega) (Ne.symm h0)
      exact_mod_cast this
    have hle : ((s.2.2 : Int) : Rat) ≤ ((s.2.1 + s.1 : Int) : Rat) := by exact_mod_cast h4
    have hnn : (0 : Rat) ≤ ((s.2.2 : Int) : Rat) := by exact_mod_cast h3
    constructor
    · rw [sub_nonneg, div_le_one hpos]; exact hle
    · have : 0 ≤ ((s.2.2 : Int) : Rat) / ((s.2.1 + s.1 : Int) : Rat) := div_nonneg hnn hpos.le
      linarith

theorem scoreOf_components (lf lo : List Int) (hlen : lf.length = lo.length) (hpos : 0 < lf.length)
    (hf : ∀ v ∈ lf, 0 ≤ v) (ho : ∀ v ∈ lo, 0 ≤ v) :
    scoreOf (components lf lo) = fin (SV.Spec.Fss.score (SV.Spec.Fss.sums lf lo)) := by
  obtain ⟨h1, h2, h3, h4⟩ := spec_sums_bound lf lo hf ho
  have hb := spec_score_bounds _ h1 h2 h3 h4
  revert hb h1 h2 h3 h4
  rw [spec_sums_eq lf lo hlen]
  intro h1 h2 h3 h4 hb
  unfold scoreOf components SV.Gen.Fss.components
  simp only
  rw [compute_fss_fin]
  congr 1
  have hdl : (diffImg lo lf).length = lf.length := by simp [diffImg, hlen]
  unfold meanSq
  rw [hdl, ← hlen]
  have hn : (0 : Rat) < (lf.length : Rat) := by exact_mod_cast hpos
  unfold SV.Spec.Fss.score at hb ⊢
  simp only at h1 h2 h3 h4 hb ⊢
  by_cases h0 : sumSq lo + sumSq lf = 0
  · have hf0 : sumSq lf = 0 := by omega
    have ho0 : sumSq lo = 0 := by omega
    simp [hf0, ho0]
  · rw [if_neg h0] at hb ⊢
    have hpos' : (0 : Rat) < ((sumSq lo + sumSq lf : Int) : Rat) := by
      have : 0 < sumSq lo + sumSq lf := lt_of_le_of_ne (by omega) (Ne.symm h0)
      exact_mod_cast this
    have hsum : (sumSq lf : Rat) / lf.length + (sumSq lo : Rat) / lf.length = ((sumSq lo + sumSq lf : Int) : Rat) / lf.length := by
      push_cast; ring
    have hq : ((sumSq (diffImg lo lf) : Rat) / lf.length) / (((sumSq lo + sumSq lf : Int) : Rat) / lf.length)
        = (sumSq (diffImg lo lf) : Rat) / ((sumSq lo + sumSq lf : Int) : Rat) := by
      field_simp
    rw [hsum, if_pos (div_pos hpos' hn), hq, min_eq_left hb.2, max_eq_left hb.1]

/-! ### images, events -/

theorem length_flatMap_range (n m : Nat) (f : Nat → Nat → Int) :
    ((List.range n).flatMap fun i => (List.range m).map (f i)).length = n * m := by
  induction n with
  | zero => simp
  | succ n ih => rw [List.range_succ, List.flatMap_append, List.length_append, ih]; simp; ring

theorem length_image (x : Nat → Nat → Int) (H W pt pb pl pr h w : Nat) :
    (SV.Spec.Fss.image x H W pt pb pl pr h w).length = (pt + H + pb + 1 - h) * (pl + W + pr + 1 - w) :=
  length_flatMap_range _ _ _

theorem ext_nonneg (x : Nat → Nat → Int) (H W pt pl : Nat) (hx : ∀ i < H, ∀ j < W, 0 ≤ x i j) (a b : Nat) :
    0 ≤ SV.Spec.Fss.ext x H W pt pl a b := by
  unfold SV.Spec.Fss.ext
  split_ifs with hc
  · exact hx _ (by omega) _ (by omega)
  · exact le_refl _

theorem win_nonneg (e : Nat → Nat → Int) (he : ∀ a b, 0 ≤ e a b) (i j h w : Nat) : 0 ≤ SV.Spec.Fss.win e i j h w := by
  unfold SV.Spec.Fss.win
  simp only [sumTo_eq_sum]
  exact Finset.sum_nonneg fun a _ => Finset.sum_nonneg fun b _ => he _ _

theorem image_nonneg (x : Nat → Nat → Int) (H W pt pb pl pr h w : Nat) (hx : ∀ i < H, ∀ j < W, 0 ≤ x i j) :
    ∀ v ∈ SV.Spec.Fss.image x H W pt pb pl pr h w, 0 ≤ v := by
  intro v hv
  unfold SV.Spec.Fss.image at hv
  rw [List.mem_flatMap] at hv
  obtain ⟨i, _, hv⟩ := hv
  rw [List.mem_map] at hv
  obtain ⟨j, _, rfl⟩ := hv
  exact win_nonneg _ (ext_nonneg x H W pt pl hx) _ _ _ _

theorem ext_congr (x y : Nat → Nat → Int) (H W pt pl : Nat) (hxy : ∀ i < H, ∀ j < W, x i j = y i j) :
    SV.Spec.Fss.ext x H W pt pl = SV.Spec.Fss.ext y H W pt pl := by
  funext a b
  unfold SV.Spec.Fss.ext
  split_ifs with hc
  · exact hxy _ (by omega) _ (by omega)
  · rfl

theorem image_congr (x y : Nat → Nat → Int) (H W pt pb pl pr h w : Nat) (hxy : ∀ i < H, ∀ j < W, x i j = y i j) :
    SV.Spec.Fss.image x H W pt pb pl pr h w = SV.Spec.Fss.image y H W pt pb pl pr h w := by
  unfold SV.Spec.Fss.image
  rw [ext_congr x y H W pt pl hxy]

/-- the comparison operators of the model and of the spec -/
def cmpOp : SV.Spec.Fss.Cmp → ThrOp
  | .gt => .gt | .ge => .ge | .lt => .lt | .le => .le

theorem event_eq_spec (c : SV.Spec.Fss.Cmp) (x thr : Fl) : event (cmpOp c) x thr = SV.Spec.Fss.isEvent c x thr := by
  cases c <;> cases x <;> cases thr <;> simp [event, cmpOp, SV.Spec.Fss.isEvent, Fl.gt, Fl.ge, Fl.lt, Fl.le, Fl.isNan]

theorem event_nan (c : SV.Spec.Fss.Cmp) (thr : Fl) : event (cmpOp c) Fl.nan thr = 0 := by
  cases c <;> simp [event, cmpOp]

theorem event_01 (op : ThrOp) (x thr : Fl) : event op x thr = 0 ∨ event op x thr = 1 := by
  cases op <;> simp only [event] <;> split_ifs <;> simp

theorem get_pop (op : ThrOp) (thr : Fl) (field : List (List Fl)) (H W i j : Nat) (hi : i < H) (hj : j < W) :
    Fss.get (pop op thr field H W) i j = event op (getFl field i j) thr := by
  unfold pop; rw [get_mkTab _ _ _ _ _ hi hj]

/-! ### symmetry, identical fields -/

theorem spec_sums_swap : ∀ (lf lo : List Int),
    SV.Spec.Fss.sums lo lf = ((SV.Spec.Fss.sums lf lo).2.1, (SV.Spec.Fss.sums lf lo).1, (SV.Spec.Fss.sums lf lo).2.2)
  | [], [] => by simp [SV.Spec.Fss.sums]
  | [], _ :: _ => by simp [SV.Spec.Fss.sums]
  | _ :: _, [] => by simp [SV.Spec.Fss.sums]
  | f :: fs, o :: os => by
    simp only [SV.Spec.Fss.sums, spec_sums_swap fs os, Prod.mk.injEq, true_and]
    ring

theorem spec_score_swap (a b c : Int) : SV.Spec.Fss.score (b, a, c) = SV.Spec.Fss.score (a, b, c) := by
  unfold SV.Spec.Fss.score
  simp only [add_comm a b]

theorem spec_sums_self : ∀ (l : List Int), SV.Spec.Fss.sums l l = (sumSq l, sumSq l, 0)
  | [] => by simp [SV.Spec.Fss.sums, sumSq]
  | v :: t => by simp [SV.Spec.Fss.sums, spec_sums_self t, sumSq]

theorem sumSq_pos_of_mem : ∀ (l : List Int) (v : Int), v ∈ l → v ≠ 0 → 0 < sumSq l
  | [], _, h, _ => by simp at h
  | u :: t, v, h, hv => by
    unfold sumSq
    rcases List.mem_cons.mp h with rfl | h'
    · have : 0 < v * v := mul_self_pos.mpr hv
      have := sumSq_nonneg t
      linarith
    · have := sumSq_pos_of_mem t v h' hv
      nlinarith [mul_self_nonneg u]

/-- a cell with an event lies in some window position, whose count is then positive -/
theorem exists_pos_entry (x : Nat → Nat → Int) (H W pt pb pl pr h w a b : Nat)
    (hx : ∀ i < H, ∀ j < W, 0 ≤ x i j) (ha : a < H) (hb : b < W) (hab : 0 < x a b)
    (hh : 1 ≤ h) (hH : h ≤ pt + H + pb) (hw : 1 ≤ w) (hW : w ≤ pl + W + pr) :
    ∃ v ∈ SV.Spec.Fss.image x H W pt pb pl pr h w, v ≠ 0 := by
  let i := min (a + pt) (pt + H + pb - h)
  let j := min (b + pl) (pl + W + pr - w)
  refine ⟨SV.Spec.Fss.win (SV.Spec.Fss.ext x H W pt pl) i j h w, ?_, ?_⟩
  · unfold SV.Spec.Fss.image
    rw [List.mem_flatMap]
    refine ⟨i, List.mem_range.mpr (by omega), ?_⟩
    rw [List.mem_map]
    exact ⟨j, List.mem_range.mpr (by omega), rfl⟩
  · have he := ext_nonneg x H W pt pl hx
    have hpos : 0 < SV.Spec.Fss.win (SV.Spec.Fss.ext x H W pt pl) i j h w := by
      unfold SV.Spec.Fss.win
      simp only [sumTo_eq_sum]
      have ha' : a + pt - i ∈ range h := Finset.mem_range.mpr (by omega)
      have hb' : b + pl - j ∈ range w := Finset.mem_range.mpr (by omega)
      have h1 := Finset.single_le_sum (f := fun a' => ∑ b' ∈ range w, SV.Spec.Fss.ext x H W pt pl (i + a') (j + b'))
        (fun a' _ => Finset.sum_nonneg fun b' _ => he _ _) ha'
      have h2 := Finset.single_le_sum (f := fun b' => SV.Spec.Fss.ext x H W pt pl (i + (a + pt - i)) (j + b'))
        (fun b' _ => he _ _) hb'
      have e1 : i + (a + pt - i) = a + pt := by omega
      have e2 : j + (b + pl - j) = b + pl := by omega
      have hval : SV.Spec.Fss.ext x H W pt pl (a + pt) (b + pl) = x a b := by
        unfold SV.Spec.Fss.ext
        rw [if_pos (by omega)]
        congr 1 <;> omega
      simp only [e1, e2, hval] at h1 h2
      linarith
    exact ne_of_gt hpos

/-! ### aggregation over fields -/

/-- component triple of integer sums over n positions -/
def toC (n : Nat) (s : Int × Int × Int) : Fl × Fl × Fl :=
  (fin ((s.1 : Rat) / n), fin ((s.2.1 : Rat) / n), fin ((s.2.2 : Rat) / n))

def totS : List (Int × Int × Int) → Int × Int × Int
  | [] => (0, 0, 0)
  | s :: t => SV.Spec.Fss.addS s (totS t)

theorem components_eq (lf lo : List Int) (hlen : lf.length = lo.length) :
    components lf lo = toC lf.length (SV.Spec.Fss.sums lf lo) := by
  have hdl : (diffImg lo lf).length = lf.length := by simp [diffImg, hlen]
  rw [spec_sums_eq lf lo hlen]
  unfold components SV.Gen.Fss.components toC meanSq
  rw [hdl, ← hlen]

theorem foldl_addS (ss : List (Int × Int × Int)) : ∀ (A : Int × Int × Int),
    ss.foldl SV.Spec.Fss.addS A = SV.Spec.Fss.addS A (totS ss) := by
  induction ss with
  | nil => intro A; simp [totS, SV.Spec.Fss.addS]
  | cons s t ih =>
    intro A
    rw [List.foldl_cons, ih]
    simp only [totS, SV.Spec.Fss.addS, Prod.mk.injEq]
    refine ⟨by ring, by ring, by ring⟩

theorem foldl_step (n l : Nat) (hn : 0 < n) (hl : 0 < l) (ss : List (Int × Int × Int)) : ∀ (a b c : Rat),
    (ss.map (toC n)).foldl (fun acc e => SV.Gen.Fss.agg_step (Fl.ofNat l) acc e.1 e.2.1 e.2.2) (fin a, fin b, fin c)
      = (fin (a + ((totS ss).1 : Rat) / (n * l)), fin (b + ((totS ss).2.1 : Rat) / (n * l)), fin (c + ((totS ss).2.2 : Rat) / (n * l))) := by
  have hn' : (n : Rat) ≠ 0 := by exact_mod_cast hn.ne'
  have hl' : (l : Rat) ≠ 0 := by exact_mod_cast hl.ne'
  induction ss with
  | nil => intro a b c; simp [totS]
  | cons s t ih =>
    intro a b c
    rw [List.map_cons, List.foldl_cons]
    have hstep : SV.Gen.Fss.agg_step (Fl.ofNat l) (fin a, fin b, fin c) (toC n s).1 (toC n s).2.1 (toC n s).2.2
        = (fin (a + (s.1 : Rat) / n / l), fin (b + (s.2.1 : Rat) / n / l), fin (c + (s.2.2 : Rat) / n / l)) := by
      unfold SV.Gen.Fss.agg_step toC Fl.ofNat
      simp only [div_fin _ _ hl', add_fin]
    rw [hstep, ih]
    simp only [totS, SV.Spec.Fss.addS, Prod.mk.injEq, fin.injEq]
    push_cast
    refine ⟨?_, ?_, ?_⟩ <;> field_simp <;> ring

theorem totS_bound : ∀ (ss : List (Int × Int × Int)),
    (∀ s ∈ ss, 0 ≤ s.1 ∧ 0 ≤ s.2.1 ∧ 0 ≤ s.2.2 ∧ s.2.2 ≤ s.2.1 + s.1) →
    0 ≤ (totS ss).1 ∧ 0 ≤ (totS ss).2.1 ∧ 0 ≤ (totS ss).2.2 ∧ (totS ss).2.2 ≤ (totS ss).2.1 + (totS ss).1
  | [], _ => by simp [totS]
  | s :: t, h => by
    obtain ⟨a1, a2, a3, a4⟩ := h s List.mem_cons_self
    obtain ⟨b1, b2, b3, b4⟩ := totS_bound t fun u hu => h u (List.mem_cons_of_mem _ hu)
    simp only [totS, SV.Spec.Fss.addS]
    refine ⟨by omega, by omega, by omega, by omega⟩

/-- `_aggregate_fss_decomposed` on the component triples of several fields (n positions each) is the score of the POOLED
    sums — i.e. of the means of the three sums, not of the per-field scores -/
theorem aggregateArr_eq (n : Nat) (hn : 0 < n) (ss : List (Int × Int × Int)) (hne : ss ≠ [])
    (hb : ∀ s ∈ ss, 0 ≤ s.1 ∧ 0 ≤ s.2.1 ∧ 0 ≤ s.2.2 ∧ s.2.2 ≤ s.2.1 + s.1) :
    aggregateArr (ss.map (toC n)) = fin (SV.Spec.Fss.score (totS ss)) := by
  have hl : 0 < ss.length := List.length_pos_of_ne_nil hne
  obtain ⟨h1, h2, h3, h4⟩ := totS_bound ss hb
  have hsb := spec_score_bounds _ h1 h2 h3 h4
  unfold aggregateArr
  simp only [List.length_map]
  rw [if_neg (by omega)]
  have := foldl_step n ss.length hn hl ss 0 0 0
  unfold SV.Gen.Fss.agg_init
  rw [this, agg_tail_fin]
  congr 1
  have hn' : (0 : Rat) < (n : Rat) * ss.length := by
    have : 0 < n * ss.length := Nat.mul_pos hn hl
    exact_mod_cast this
  unfold SV.Spec.Fss.score at hsb ⊢
  by_cases h0 : (totS ss).2.1 + (totS ss).1 = 0
  · have hf0 : (totS ss).1 = 0 := by omega
    have ho0 : (totS ss).2.1 = 0 := by omega
    simp [hf0, ho0]
  · rw [if_neg h0] at hsb ⊢
    have hpos' : (0 : Rat) < (((totS ss).2.1 + (totS ss).1 : Int) : Rat) := by
      have : 0 < (totS ss).2.1 + (totS ss).1 := lt_of_le_of_ne (by omega) (Ne.symm h0)
      exact_mod_cast this
    have hsum : (0 : Rat) + ((totS ss).2.1 : Rat) / (n * ss.length) + (0 + ((totS ss).1 : Rat) / (n * ss.length))
        = (((totS ss).2.1 + (totS ss).1 : Int) : Rat) / (n * ss.length) := by
      push_cast; ring
    have hq : ((0 : Rat) + ((totS ss).2.2 : Rat) / (n * ss.length)) / ((((totS ss).2.1 + (totS ss).1 : Int) : Rat) / (n * ss.length))
        = ((totS ss).2.2 : Rat) / (((totS ss).2.1 + (totS ss).1 : Int) : Rat) := by
      rw [zero_add]; field_simp
    rw [hsum, if_pos (div_pos hpos' hn'), hq, min_eq_left hsb.2, max_eq_left hsb.1]

end SV.Model.Fss
