/-
  Lemmas for C16: the summed-area table of the model is the table of rectangle sums; the clipped corner
  indices of the zero-padding branch are windows of the zero-extended field (Mathlib allowed here).
-/
import ScoresVerif.Model.Fss
import ScoresVerif.Spec.Fss
import ScoresVerif.Lemmas.FlBasic
import Mathlib.Algebra.BigOperators.Intervals
import Mathlib.Tactic.Ring
import Mathlib.Tactic.Linarith

namespace SV.Model.Fss
open Finset SV

theorem get_mkTab (f : Nat → Nat → Int) (H W i j : Nat) (hi : i < H) (hj : j < W) :
    Fss.get (mkTab f H W) i j = f i j := by
  simp [Fss.get, mkTab, hi, hj]

theorem cumsum1_eq (x : Nat → Nat → Int) (i j : Nat) : cumsum1 x i j = ∑ b ∈ range (j + 1), x i b := by
  induction j with
  | zero => simp [cumsum1]
  | succ j ih => rw [cumsum1, ih, Finset.sum_range_succ _ (j + 1)]

theorem cumsum0_eq (x : Nat → Nat → Int) (i j : Nat) : cumsum0 x i j = ∑ a ∈ range (i + 1), x a j := by
  induction i with
  | zero => simp [cumsum0]
  | succ i ih => rw [cumsum0, ih, Finset.sum_range_succ _ (i + 1)]

/-- summed-area table: S i j = Σ_{a<i} Σ_{b<j} x a b -/
def sat (x : Nat → Nat → Int) (i j : Nat) : Int := ∑ a ∈ range i, ∑ b ∈ range j, x a b

theorem integral_eq_sat (x : Tab) (H W i j : Nat) (hi : i ≤ H) (hj : j ≤ W) :
    Fss.get (integral x H W) i j = sat (Fss.get x) i j := by
  unfold integral
  rw [get_mkTab _ _ _ _ _ (by omega) (by omega)]
  unfold zeroPad
  split_ifs with h0
  · rcases h0 with h0 | h0 <;> simp [sat, h0]
  · have hi0 : 0 < i := by omega
    have hj0 : 0 < j := by omega
    rw [get_mkTab _ _ _ _ _ (by omega) (by omega), cumsum0_eq]
    unfold sat
    have e1 : i - 1 + 1 = i := by omega
    rw [e1]
    apply Finset.sum_congr rfl
    intro a ha
    have ha' : a < i := Finset.mem_range.mp ha
    rw [get_mkTab _ _ _ _ _ (by omega) (by omega), cumsum1_eq]
    have e2 : j - 1 + 1 = j := by omega
    rw [e2]

/-- window sum between corners -/
def rect (x : Nat → Nat → Int) (t0 t1 b0 b1 : Nat) : Int := ∑ a ∈ Ico t0 b0, ∑ b ∈ Ico t1 b1, x a b

theorem sat_rect (x : Nat → Nat → Int) (t0 t1 b0 b1 : Nat) (h0 : t0 ≤ b0) (h1 : t1 ≤ b1) :
    sat x b0 b1 - sat x t0 b1 - sat x b0 t1 + sat x t0 t1 = rect x t0 t1 b0 b1 := by
  unfold sat rect
  have hrow : ∀ (f : Nat → Int) (m n : Nat), m ≤ n → ∑ a ∈ range n, f a - ∑ a ∈ range m, f a = ∑ a ∈ Ico m n, f a := by
    intro f m n hmn
    rw [Finset.sum_Ico_eq_sub _ hmn]
  have hcol : ∀ a, ∑ b ∈ range b1, x a b - ∑ b ∈ range t1, x a b = ∑ b ∈ Ico t1 b1, x a b := fun a => hrow (x a) t1 b1 h1
  calc _ = (∑ a ∈ range b0, (∑ b ∈ range b1, x a b - ∑ b ∈ range t1, x a b))
            - (∑ a ∈ range t0, (∑ b ∈ range b1, x a b - ∑ b ∈ range t1, x a b)) := by
          simp only [Finset.sum_sub_distrib]; ring
    _ = _ := by
          simp only [hcol]
          exact hrow (fun a => ∑ b ∈ Ico t1 b1, x a b) t0 b0 h0

theorem sumTo_eq_sum (n : Nat) (f : Nat → Int) : SV.Spec.Fss.sumTo n f = ∑ k ∈ range n, f k := by
  induction n with
  | zero => simp [SV.Spec.Fss.sumTo]
  | succ n ih => rw [SV.Spec.Fss.sumTo, ih, Finset.sum_range_succ]

/-- 1-D: a window of the zero-extended sequence is the clipped window of the sequence -/
theorem clip1 (g : Nat → Int) (k h half H : Nat) (hh : half ≤ h) :
    ∑ a ∈ range h, (if half ≤ k + a ∧ k + a < half + H then g (k + a - half) else 0)
      = ∑ a ∈ Ico (k - half) (min (k + (h - half)) H), g a := by
  rw [← Finset.sum_filter]
  have : ∑ a ∈ Ico (k - half) (min (k + (h - half)) H), g a
       = ∑ a ∈ Ico (k - half) (min (k + (h - half)) H), g (k + (a + half - k) - half) := by
    apply Finset.sum_congr rfl
    intro a ha
    rw [Finset.mem_Ico] at ha
    congr 1; omega
  rw [this]
  symm
  apply Finset.sum_bij (fun a _ => a + half - k)
  · intro a ha
    simp only [Finset.mem_Ico, Finset.mem_filter, Finset.mem_range] at *
    omega
  · intro a ha b hb hab
    simp only [Finset.mem_Ico] at *
    omega
  · intro b hb
    simp only [Finset.mem_Ico, Finset.mem_filter, Finset.mem_range] at *
    refine ⟨k + b - half, ?_, ?_⟩ <;> omega
  · intro a ha
    rfl

theorem corner_integral (x : Tab) (H W t0 t1 b0 b1 : Nat) (h0 : t0 ≤ b0) (h1 : t1 ≤ b1) (hH : b0 ≤ H) (hW : b1 ≤ W) :
    corner (integral x H W) t0 t1 b0 b1 = rect (Fss.get x) t0 t1 b0 b1 := by
  unfold corner
  rw [integral_eq_sat _ _ _ _ _ hH hW, integral_eq_sat _ _ _ _ _ (by omega) hW,
    integral_eq_sat _ _ _ _ _ hH (by omega), integral_eq_sat _ _ _ _ _ (by omega) (by omega)]
  exact sat_rect _ _ _ _ _ h0 h1

/-- a window of the zero-extended field (direct count) is the rectangle sum between the clipped corners -/
theorem win_ext (x : Nat → Nat → Int) (H W pt pl k l h w : Nat) (hpt : pt ≤ h) (hpl : pl ≤ w) :
    SV.Spec.Fss.win (SV.Spec.Fss.ext x H W pt pl) k l h w
      = rect x (k - pt) (l - pl) (min (k + (h - pt)) H) (min (l + (w - pl)) W) := by
  unfold SV.Spec.Fss.win rect
  rw [sumTo_eq_sum]
  simp only [sumTo_eq_sum]
  have inner : ∀ a, (∑ b ∈ range w, SV.Spec.Fss.ext x H W pt pl (k + a) (l + b))
      = if pt ≤ k + a ∧ k + a < pt + H then ∑ b ∈ Ico (l - pl) (min (l + (w - pl)) W), x (k + a - pt) b else 0 := by
    intro a
    by_cases hc : pt ≤ k + a ∧ k + a < pt + H
    · rw [if_pos hc, ← clip1 (x (k + a - pt)) l w pl W hpl]
      apply Finset.sum_congr rfl
      intro b _
      unfold SV.Spec.Fss.ext
      by_cases hb : pl ≤ l + b ∧ l + b < pl + W
      · rw [if_pos ⟨hc.1, hc.2, hb.1, hb.2⟩, if_pos hb]
      · rw [if_neg (fun hh => hb ⟨hh.2.2.1, hh.2.2.2⟩), if_neg hb]
    · rw [if_neg hc]
      apply Finset.sum_eq_zero
      intro b _
      unfold SV.Spec.Fss.ext
      rw [if_neg (fun hh => hc ⟨hh.1, hh.2.1⟩)]
  simp only [inner]
  exact clip1 (fun a => ∑ b ∈ Ico (l - pl) (min (l + (w - pl)) W), x a b) k h pt H hpt

theorem flatMap_range_congr (n m : Nat) (f g : Nat → Nat → Int) (h : ∀ i < n, ∀ j < m, f i j = g i j) :
    (List.range n).flatMap (fun i => (List.range m).map (f i)) = (List.range n).flatMap (fun i => (List.range m).map (g i)) :=
  List.flatMap_congr fun i hi => List.map_congr_left fun j hj => h i (List.mem_range.mp hi) j (List.mem_range.mp hj)

/-- NO PADDING: the model image is the list of direct window counts at the (H−h+1)(W−w+1) interior positions -/
theorem imgNoPad_eq_spec (x : Tab) (H W h w : Nat) :
    imgNoPad (integral x H W) H W h w = SV.Spec.Fss.image (Fss.get x) H W 0 0 0 0 h w := by
  unfold imgNoPad SV.Spec.Fss.image
  have e1 : 0 + H + 0 + 1 - h = H + 1 - h := by omega
  have e2 : 0 + W + 0 + 1 - w = W + 1 - w := by omega
  rw [e1, e2]
  apply flatMap_range_congr
  intro i hi j hj
  rw [win_ext _ _ _ _ _ _ _ _ _ (Nat.zero_le _) (Nat.zero_le _),
    corner_integral _ _ _ _ _ _ _ (by omega) (by omega) (by omega) (by omega)]
  congr 1 <;> omega

/-- ZERO PADDING: the clipped corner vectors give the direct window counts on the field zero-extended by ⌊h/2⌋ rows
    above and h − ⌊h/2⌋ rows below (⌊w/2⌋ columns left, w − ⌊w/2⌋ right): H+1 by W+1 positions -/
theorem imgPad_eq_spec (x : Tab) (H W h w : Nat) (hh : 1 ≤ h) (hw : 1 ≤ w) :
    imgPad (integral x H W) H W h w
      = SV.Spec.Fss.image (Fss.get x) H W (h / 2) (h - h / 2) (w / 2) (w - w / 2) h w := by
  unfold imgPad SV.Spec.Fss.image
  have e1 : h / 2 + H + (h - h / 2) + 1 - h = H + 1 := by omega
  have e2 : w / 2 + W + (w - w / 2) + 1 - w = W + 1 := by omega
  rw [e1, e2]
  apply flatMap_range_congr
  intro k hk l hl
  have t0 : tlIdx (h / 2) (H + 1) k = k - h / 2 := by unfold tlIdx clipI; omega
  have t1 : tlIdx (w / 2) (W + 1) l = l - w / 2 := by unfold tlIdx clipI; omega
  have b0 : brIdx (h - h / 2) (H + 1) k = min (k + (h - h / 2)) H := by unfold brIdx clipI; omega
  have b1 : brIdx (w - w / 2) (W + 1) l = min (l + (w - w / 2)) W := by unfold brIdx clipI; omega
  simp only [t0, t1, b0, b1]
  rw [win_ext _ _ _ _ _ _ _ _ _ (by omega) (by omega),
    corner_integral _ _ _ _ _ _ _ (by omega) (by omega) (by omega) (by omega)]

end SV.Model.Fss
