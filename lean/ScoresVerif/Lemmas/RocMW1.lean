import ScoresVerif.Lemmas.Roc
namespace SV.Lemmas.Roc
open SV SV.Spec.Roc


/-- sum of `g p q` over consecutive pairs of the list -/
def consec (g : Rat → Rat → Rat) : List Rat → Rat
  | p :: q :: rest => g p q + consec g (q :: rest)
  | _ => 0

/-- 1[t ≤ x] -/
def geI (x t : Rat) : Rat := if t ≤ x then 1 else 0

/-- one cell of the ROC area for a single (non-event value v, event value u) pair -/
def cellG (v u p q : Rat) : Rat := (geI v p - geI v q) * (geI u p + geI u q) / 2

/-- the Mann–Whitney kernel: 1 if u > v, ½ if u = v, 0 otherwise -/
def mwK (u v : Rat) : Rat := (geI u v + (if v < u then 1 else 0)) / 2

theorem consec_zero_of {v u : Rat} : ∀ {l : List Rat}, (∀ t ∈ l, geI v t = 0) → consec (cellG v u) l = 0
  | [], _ => rfl
  | [_], _ => rfl
  | p :: q :: rest, h => by
    simp only [consec, cellG, h p (by simp), h q (by simp)]
    rw [show consec (cellG v u) (q :: rest) = 0 from consec_zero_of (fun t ht => h t (List.mem_cons_of_mem _ ht))]
    simp [cellG]

theorem consec_cell {v u : Rat} : ∀ {ts : List Rat}, ts.Pairwise (· ≤ ·) → v ∈ ts → (u ∈ ts ∨ ∀ t ∈ ts, u < t) →
    (∃ t ∈ ts, v < t) → consec (cellG v u) ts = mwK u v
  | [], _, hv, _, _ => by simp at hv
  | [p], _, hv, _, ht => by
    simp only [List.mem_singleton] at hv
    obtain ⟨t, ht1, ht2⟩ := ht
    simp only [List.mem_singleton] at ht1
    subst hv; subst ht1; exact absurd ht2 (lt_irrefl _)
  | p :: q :: rest, hs, hv, hu, ht => by
    have h1 := List.pairwise_cons.mp hs
    have hpq : p ≤ q := h1.1 q (by simp)
    have hq_le : ∀ t ∈ q :: rest, q ≤ t := by
      intro t ht'
      rcases List.mem_cons.mp ht' with rfl | h3
      · exact le_refl _
      · exact (List.pairwise_cons.mp h1.2).1 t h3
    simp only [consec]
    by_cases hvq : v < q
    · -- the cell [p, q) contains v, so v = p
      have hvp : v = p := by
        rcases List.mem_cons.mp hv with h | h
        · exact h
        · exact absurd (hq_le v h) (not_le.mpr hvq)
      have hz : consec (cellG v u) (q :: rest) = 0 :=
        consec_zero_of (fun t ht' => by simp [geI, not_le.mpr (lt_of_lt_of_le hvq (hq_le t ht'))])
      rw [hz, add_zero]
      subst hvp
      unfold cellG mwK geI
      have e1 : ¬ q ≤ v := not_le.mpr hvq
      simp only [le_refl, if_true, e1, if_false, sub_zero, one_mul]
      rcases hu with hu | hu
      · rcases List.mem_cons.mp hu with rfl | hu'
        · simp [e1]
        · have hqu : q ≤ u := hq_le u hu'
          have hvu : v < u := lt_of_lt_of_le hvq hqu
          simp [hqu, hvu, le_of_lt hvu]
      · have huv : u < v := hu v (by simp)
        have : ¬ q ≤ u := not_le.mpr (lt_trans huv hvq)
        simp [this, not_le.mpr huv, not_lt.mpr (le_of_lt huv)]
    · have hqv : q ≤ v := not_lt.mp hvq
      have e0 : cellG v u p q = 0 := by
        unfold cellG geI; simp [hqv, le_trans hpq hqv]
      rw [e0, zero_add]
      apply consec_cell h1.2
      · rcases List.mem_cons.mp hv with h | h
        · have : v = q := le_antisymm (h ▸ hpq) hqv
          rw [this]; simp
        · exact h
      · rcases hu with hu | hu
        · rcases List.mem_cons.mp hu with h | h
          · rcases eq_or_lt_of_le hpq with hpq' | hpq'
            · left; rw [h, hpq']; simp
            · right; intro t ht'; rw [h]; exact lt_of_lt_of_le hpq' (hq_le t ht')
          · left; exact h
        · right; intro t ht'; exact hu t (List.mem_cons_of_mem _ ht')
      · obtain ⟨t, ht1, ht2⟩ := ht
        rcases List.mem_cons.mp ht1 with h | h
        · exact absurd (h ▸ ht2 : v < p) (not_lt.mpr (le_trans hpq hqv))
        · exact ⟨t, h, ht2⟩

end SV.Lemmas.Roc
