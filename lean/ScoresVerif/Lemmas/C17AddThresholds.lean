/-
  C17 stretch: `add_thresholds` (sorted unique union of the thresholds, outer-join re-lay, `fill_cdf` with its guards)
  equals the Spec `SV.Spec.Cdf.union` / `SV.Spec.Cdf.addRow` for one row and every fill method incl. "none".
-/
import ScoresVerif.Lemmas.C07PipelineAll

namespace SV.Lemmas.C17AddThresholds
open SV SV.Model.Cdf SV.Lemmas.Cdf SV.Lemmas.CrpsCdf SV.Lemmas.C17Fill SV.Lemmas.C07Refine
open SV.Fl (fin nan)
open SV.Spec.Cdf (union valueAt)

theorem lookupAt_mem_or_nan (thr : List Rat) (row : List Fl) (t : Rat) :
    lookupAt thr row t = nan ∨ lookupAt thr row t ∈ row := by
  induction thr generalizing row with
  | nil => exact Or.inl rfl
  | cons x xs ih =>
    cases row with
    | nil => exact Or.inl rfl
    | cons v vs =>
      simp only [lookupAt]
      split
      · exact Or.inr (by simp)
      · rcases ih vs with h | h
        · exact Or.inl h
        · exact Or.inr (List.mem_cons_of_mem _ h)

theorem unit01_relay' (G thr : List Rat) (row : List Fl) (hu : Unit01 row) : Unit01 (G.map (lookupAt thr row)) := by
  intro x hx
  obtain ⟨t, _, rfl⟩ := List.mem_map.mp hx
  rcases lookupAt_mem_or_nan thr row t with h | h
  · exact Or.inl h
  · exact hu _ h

/-- **add_thresholds = Spec** (one row): the new grid is the Spec's union, the row is the Spec's `addRow` -/
theorem addThresholds_eq_spec (thr : List Rat) (row : List Fl) (new : List Fl) (m : String) (k : Int)
    (hm : m = "none" ∨ m ∈ fillMethods) (hu : Unit01 row)
    (hk : (m = "linear" → 2 ≤ k) ∧ (m ∈ ["step", "forward", "backward"] → 1 ≤ k)) :
    addThresholds thr [row] new m k =
      .ok (union thr (finVals new), [SV.Spec.Cdf.addRow thr row (finVals new) m k]) := by
  have hG : Incr (sortU (thr ++ finVals new)) := incr_sortU _
  have hur := unit01_relay' (sortU (thr ++ finVals new)) thr row hu
  have hb := withinBounds_unit _ hur
  have hv : (valueAt thr row) = lookupAt thr row := by
    funext t; exact valueAt_eq_lookupAt _ _ t
  rcases hm with rfl | hm
  · simp [addThresholds, SV.Spec.Cdf.addRow, union_eq_sortU, hv, pure, Except.pure]
  · have hfill := fillRow_eq_spec_of_mem (sortU (thr ++ finVals new)) ((sortU (thr ++ finVals new)).map (lookupAt thr row)) m k hm
      (by simp) hG hur
    have hne : m ≠ "none" := by rintro rfl; simp [fillMethods] at hm
    have hc : ¬(¬m = "linear" ∧ ¬m = "step" ∧ ¬m = "forward" ∧ ¬m = "backward") := by
      have hm' := hm
      simp only [fillMethods, List.mem_cons, List.not_mem_nil, or_false] at hm'
      rcases hm' with h | h | h | h <;> simp [h]
    have hg1 : ¬(k < 1 ∧ ¬m = "linear") := by
      rintro ⟨h1, h2⟩
      have hm' := hm
      simp only [fillMethods, List.mem_cons, List.not_mem_nil, or_false] at hm'
      have : m ∈ ["step", "forward", "backward"] := by
        rcases hm' with h | h | h | h
        · exact absurd h h2
        all_goals simp [h]
      exact absurd (hk.2 this) (not_le.mpr h1)
    have hg2 : ¬(k < 2 ∧ m = "linear") := by
      rintro ⟨h1, h2⟩
      exact absurd (hk.1 h2) (not_le.mpr h1)
    unfold SV.Spec.Cdf.addRow
    simp only [union_eq_sortU, hne, if_false, hv, ← hfill]
    simp [addThresholds, fillCdf, hb, hne, hc, hg1, hg2, bind, Except.bind, pure, Except.pure]

end SV.Lemmas.C17AddThresholds
