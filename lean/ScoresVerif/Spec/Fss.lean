/-
  Specification of the Fractions Skill Score (C16) — the sliding-window definition by DIRECT counting.
  Core Lean only; executable (evaluated by the driver as the oracle of the property).

  A field is `x : Nat → Nat → Int` (event = 1, non-event = 0) of shape H × W.  It is zero-extended by
  `pt` rows above, `pb` below, `pl` columns left, `pr` right; every h × w window that lies inside the
  extended field is a position.  No padding: `pt = pb = pl = pr = 0`.
  The property's padded mode ("half a window on each side") is `pt = pb = ⌊h/2⌋`, `pl = pr = ⌊w/2⌋`.
-/
import ScoresVerif.Model.Fl

namespace SV.Spec.Fss
open SV

/-- Σ_{k<n} f k -/
def sumTo : Nat → (Nat → Int) → Int
  | 0, _ => 0
  | n + 1, f => sumTo n f + f n

/-- the zero-extended field in padded coordinates -/
def ext (x : Nat → Nat → Int) (H W pt pl : Nat) (a b : Nat) : Int :=
  if pt ≤ a ∧ a < pt + H ∧ pl ≤ b ∧ b < pl + W then x (a - pt) (b - pl) else 0

/-- number of events in the h × w window whose top-left cell is (i, j): direct counting -/
def win (e : Nat → Nat → Int) (i j h w : Nat) : Int :=
  sumTo h fun a => sumTo w fun b => e (i + a) (j + b)

/-- window counts at every position, row-major -/
def image (x : Nat → Nat → Int) (H W pt pb pl pr h w : Nat) : List Int :=
  (List.range (pt + H + pb + 1 - h)).flatMap fun i =>
    (List.range (pl + W + pr + 1 - w)).map fun j => win (ext x H W pt pl) i j h w

/-- (Σ p_f², Σ p_o², Σ (p_o − p_f)²) over paired positions -/
def sums : List Int → List Int → Int × Int × Int
  | f :: fs, o :: os =>
    let r := sums fs os
    (f * f + r.1, o * o + r.2.1, (o - f) * (o - f) + r.2.2)
  | _, _ => (0, 0, 0)

/-- 1 − Σ(p_o − p_f)² / (Σp_o² + Σp_f²), and 0 when the denominator is 0 -/
def score (s : Int × Int × Int) : Rat :=
  if s.2.1 + s.1 = 0 then 0 else 1 - (s.2.2 : Rat) / ((s.2.1 + s.1 : Int) : Rat)

def addS (a b : Int × Int × Int) : Int × Int × Int := (a.1 + b.1, a.2.1 + b.2.1, a.2.2 + b.2.2)

/-- an event: the comparison holds and neither operand is NaN (a NaN cell is a non-event) -/
inductive Cmp where | gt | ge | lt | le
  deriving DecidableEq, Repr

def isEvent (c : Cmp) (x thr : Fl) : Int :=
  if x.isNan || thr.isNan then 0
  else match c with
    | .gt => if Fl.lt thr x then 1 else 0
    | .ge => if Fl.le thr x then 1 else 0
    | .lt => if Fl.lt x thr then 1 else 0
    | .le => if Fl.le x thr then 1 else 0

/-- sums of one field pair -/
def fieldSums (xf xo : Nat → Nat → Int) (H W pt pb pl pr h w : Nat) : Int × Int × Int :=
  sums (image xf H W pt pb pl pr h w) (image xo H W pt pb pl pr h w)

/-- FSS of one field pair -/
def fss (xf xo : Nat → Nat → Int) (H W pt pb pl pr h w : Nat) : Rat :=
  score (fieldSums xf xo H W pt pb pl pr h w)

/-- FSS over several field pairs: the score of the pooled (summed) three sums — all fields have the same
    number of positions, so this is the score of the MEANS of the three sums -/
def fssAgg (fields : List ((Nat → Nat → Int) × (Nat → Nat → Int))) (H W pt pb pl pr h w : Nat) : Rat :=
  score (fields.foldl (fun acc p => addS acc (fieldSums p.1 p.2 H W pt pb pl pr h w)) (0, 0, 0))

end SV.Spec.Fss
