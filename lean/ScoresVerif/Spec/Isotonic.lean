/-
  Spec for C15: the isotonic (non-decreasing weighted least-squares) fit as the exact MAX-MIN formula
  over the DISTINCT forecast values, in rational arithmetic.  Independent of PAV, of the sort order used by
  the code and of the tie trick (observations descending inside a tie): the pairs are only grouped by forecast.

      fit(g) = max_{a ≤ g} min_{b ≥ g}  ( Σ_{a ≤ h ≤ b} S_h ) / ( Σ_{a ≤ h ≤ b} W_h ),
      S_h = Σ_{pairs with forecast u_h} w·y,   W_h = Σ_{pairs with forecast u_h} w.
  Core Lean only.
-/
namespace SV.Spec.Isotonic

/-- (forecast, observation, weight) -/
abbrev Pair := Rat × Rat × Rat

/-- insert into an ascending duplicate-free list -/
def insertU (x : Rat) : List Rat → List Rat
  | [] => [x]
  | y :: ys => if x < y then x :: y :: ys else if x = y then y :: ys else y :: insertU x ys

/-- the distinct forecast values, ascending -/
def distinct (ps : List Pair) : List Rat := (ps.map (·.1)).foldr insertU []

/-- (Σ w·y, Σ w) of the pairs whose forecast is `u` -/
def groupSum (ps : List Pair) (u : Rat) : Rat × Rat :=
  let g := ps.filter fun p => decide (p.1 = u)
  ((g.map fun p => p.2.2 * p.2.1).sum, (g.map fun p => p.2.2).sum)

def avg (l : List (Rat × Rat)) : Rat := (l.map (·.1)).sum / (l.map (·.2)).sum

def maxL : List Rat → Rat
  | [] => 0
  | x :: xs => xs.foldl max x
def minL : List Rat → Rat
  | [] => 0
  | x :: xs => xs.foldl min x

/-- max over `a ≤ i`, min over `b ≥ i`, of the weighted average of groups `a..b` -/
def maxmin (gs : List (Rat × Rat)) (i : Nat) : Rat :=
  maxL ((List.range (i + 1)).map fun a =>
    minL ((List.range (gs.length - i)).map fun d => avg ((gs.drop a).take (i + d - a + 1))))

/-- the isotonic fit at every distinct forecast: (forecast, number of pairs, fitted value) -/
def isoFit (ps : List Pair) : List (Rat × Nat × Rat) :=
  let us := distinct ps
  let gs := us.map (groupSum ps)
  (List.range us.length).map fun i =>
    (us.getD i 0, (ps.filter fun p => decide (p.1 = us.getD i 0)).length, maxmin gs i)

/-- sequence-level max-min (one observation per position), used in the theorems about `pav` -/
def maxminSeq (ys : List (Rat × Rat)) (i : Nat) : Rat :=
  maxmin (ys.map fun x => (x.2 * x.1, x.2)) i

end SV.Spec.Isotonic
