/-
  C18 — proportion exceeding for thresholds in the EXTENDED rationals (open-ended bounds −∞ / +∞).
  Core Lean only (the driver imports this file).
-/
import ScoresVerif.Spec.FlipFlop

namespace SV.Spec.FlipFlop

/-- a threshold: a rational or one of the open-ended bounds -/
inductive Thr where
  | fin (q : Rat)
  | ninf
  | pinf
  deriving Repr

/-- `t ≤ q` for a threshold `t` in the extended rationals and a (finite) index `q` -/
def Thr.le : Thr → Rat → Bool
  | Thr.fin t, q => decide (t ≤ q)
  | Thr.ninf, _ => true
  | Thr.pinf, _ => false

/-- fraction of the valid (non-NaN) indices that are ≥ t, `t` possibly −∞ / +∞; `none` when there is no valid index -/
def proportionExt (vals : List (Option Rat)) (t : Thr) : Option Rat :=
  let v := vals.filterMap id
  if v.isEmpty then none else some (((v.filter fun q => t.le q).length : Rat) / (v.length : Rat))

end SV.Spec.FlipFlop
