/-
  Spec for C17: what the CDF repair tools are *supposed* to compute, written as short, direct,
  position-wise definitions (no accumulators, no flips) — core Lean only.
-/
import ScoresVerif.Model.Fl

namespace SV.Spec.Cdf
open SV SV.Fl

/-- finite ordinates of a row, NaN dropped -/
def fins : List Fl → List Rat
  | [] => []
  | fin q :: xs => q :: fins xs
  | _ :: xs => fins xs

def maxQ : List Rat → Option Rat
  | [] => none
  | x :: xs => match maxQ xs with
    | none => some x
    | some m => some (if m ≤ x then x else m)

def minQ : List Rat → Option Rat
  | [] => none
  | x :: xs => match minQ xs with
    | none => some x
    | some m => some (if x ≤ m then x else m)

def ofOpt : Option Rat → Fl
  | some q => fin q
  | none => nan

/-- upper envelope at position `i`: the largest non-NaN ordinate at positions `≤ i`; NaN stays NaN -/
def upperAt (xs : List Fl) (i : Nat) : Fl :=
  if (xs.getD i nan).isNan then nan else ofOpt (maxQ (fins (xs.take (i + 1))))

/-- lower envelope at position `i`: the smallest non-NaN ordinate at positions `≥ i`; NaN stays NaN -/
def lowerAt (xs : List Fl) (i : Nat) : Fl :=
  if (xs.getD i nan).isNan then nan else ofOpt (minQ (fins (xs.drop i)))

def upper (xs : List Fl) : List Fl := (List.range xs.length).map (upperAt xs)
def lower (xs : List Fl) : List Fl := (List.range xs.length).map (lowerAt xs)

/-- non-decreasing along the non-NaN positions -/
def monoQ : List Rat → Bool
  | x0 :: x1 :: xs => decide (x0 ≤ x1) && monoQ (x1 :: xs)
  | _ => true

/-- total decrease `Σ max(0, x_k − x_{k+1})` of a NaN-free row -/
def totalDecrease : List Rat → Rat
  | x0 :: x1 :: xs => (if x1 < x0 then x0 - x1 else 0) + totalDecrease (x1 :: xs)
  | _ => 0

/-- a row is flagged iff it has no NaN and its total decrease exceeds the tolerance
    (an all-NaN row is never flagged) -/
def decreasing (xs : List Fl) (tol : Rat) : Bool :=
  !(xs.any Fl.isNan) && decide (tol < totalDecrease (fins xs))

/-! ### filling: the filled CDF as a function of the given (non-NaN) knots -/

def knots : List Rat → List Fl → List (Rat × Rat)
  | t :: ts, fin q :: xs => (t, q) :: knots ts xs
  | _ :: ts, _ :: xs => knots ts xs
  | _, _ => []

/-- last knot at or left of `t` -/
def lastLE (ks : List (Rat × Rat)) (t : Rat) : Option (Rat × Rat) := (ks.filter (fun k => k.1 ≤ t)).getLast?
/-- first knot at or right of `t` -/
def firstGE (ks : List (Rat × Rat)) (t : Rat) : Option (Rat × Rat) := (ks.filter (fun k => t ≤ k.1)).head?

def clip01 (q : Rat) : Rat := if q < 0 then 0 else if 1 < q then 1 else q

def chord (a b : Rat × Rat) (t : Rat) : Rat := a.2 + (b.2 - a.2) * (t - a.1) / (b.1 - a.1)

/-- "linear": the chord between the neighbouring knots; outside the knots the first / last chord
    extended; then clipped to [0,1] -/
def linearAt (ks : List (Rat × Rat)) (t : Rat) : Fl :=
  match lastLE ks t, firstGE ks t with
  | some a, some b => fin (clip01 (if a.1 = b.1 then a.2 else chord a b t))
  | none, some _ => match ks with
      | a :: b :: _ => fin (clip01 (chord a b t))
      | _ => nan
  | some _, none => match ks.reverse with
      | b :: a :: _ => fin (clip01 (chord a b t))
      | _ => nan
  | none, none => nan

def fillAt (method : String) (ks : List (Rat × Rat)) (t : Rat) : Fl :=
  if method = "linear" then (if ks.length < 2 then nan else linearAt ks t)
  else if method = "step" then (match lastLE ks t with | some a => fin a.2 | none => fin 0)
  else if method = "forward" then
    (match lastLE ks t with | some a => fin a.2 | none => ofOpt (ks.head?.map (·.2)))
  else if method = "backward" then
    (match firstGE ks t with | some a => fin a.2 | none => ofOpt (ks.getLast?.map (·.2)))
  else nan

/-- `fill_cdf` on one row: given ordinates are kept, NaN positions take `fillAt`; a row with fewer
    than `minNonnan` given ordinates is blanked -/
def fillRow (thr : List Rat) (xs : List Fl) (method : String) (minNonnan : Int) : List Fl :=
  let ks := knots thr xs
  if (ks.length : Int) < minNonnan then xs.map (fun _ => nan)
  else (thr.zip xs).map fun (t, x) => if x.isNan then fillAt method ks t else x

/-- thresholds after `add_thresholds`: sorted, duplicate-free union -/
def dedup : List Rat → List Rat
  | x0 :: x1 :: xs => if x0 = x1 then dedup (x1 :: xs) else x0 :: dedup (x1 :: xs)
  | xs => xs

def union (a b : List Rat) : List Rat := dedup ((a ++ b).mergeSort (fun x y => decide (x ≤ y)))

def valueAt (thr : List Rat) (xs : List Fl) (t : Rat) : Fl :=
  match (thr.zip xs).find? (fun p => p.1 = t) with
  | some p => p.2
  | none => nan

def addRow (thr : List Rat) (xs : List Fl) (new : List Rat) (method : String) (minNonnan : Int) : List Fl :=
  let g := union thr new
  let re := g.map (valueAt thr xs)
  if method = "none" then re else fillRow g re method minNonnan

/-- nearest multiple of `p` to `q` is `n * p`: `|q − n p| ≤ p/2`, and on a tie `n` is even -/
def isNearestMultiple (q p : Rat) (n : Int) : Bool :=
  let d := q - (n : Rat) * p
  let ad := if d < 0 then -d else d
  decide (ad * 2 ≤ p) && (ad * 2 != p || n % 2 == 0)

end SV.Spec.Cdf
