/-
  Textbook definitions of the point / interval scores (C05), written by hand from the docstrings
  and the cited literature, over exact rationals.  A fibre is the list of its VALID cases
  `(f, o, w)` (the harness / the theorems drop the missing ones; `w = 1` when no weights are given).
  Quotients whose denominator can vanish are returned in `Fl` (IEEE value of the final division).
  Core Lean only.
-/
import ScoresVerif.Model.Fl

namespace SV.Spec.PointScores
open SV

def rmax (a b : Rat) : Rat := if a ≤ b then b else a
def rmin (a b : Rat) : Rat := if a ≤ b then a else b

abbrev RCase := Rat × Rat × Rat   -- forecast, observation, weight

def sumBy (g : RCase → Rat) (cs : List RCase) : Rat := (cs.map g).sum

/-- arithmetic mean of `g` over the valid cases; NaN when there is none -/
def meanBy (g : RCase → Rat) (cs : List RCase) : Fl :=
  if cs.isEmpty then Fl.nan else Fl.fin (sumBy g cs / (cs.length : Rat))

/-! ### angular difference: the smaller of the two explementary angles -/

def angDiff (a b : Rat) : Rat :=
  let d := rmod (rabs (a - b)) 360
  rmin d (360 - d)

/-! ### per-case errors -/
def err (ang : Bool) (f o : Rat) : Rat := if ang then angDiff f o else f - o

/-- MSE = (1/n) Σ wᵢ (fᵢ − oᵢ)² -/
def mse (ang : Bool) (cs : List RCase) : Fl := meanBy (fun c => c.2.2 * (err ang c.1 c.2.1 * err ang c.1 c.2.1)) cs
/-- MAE = (1/n) Σ wᵢ |fᵢ − oᵢ| -/
def mae (ang : Bool) (cs : List RCase) : Fl := meanBy (fun c => c.2.2 * rabs (err ang c.1 c.2.1)) cs
/-- additive bias / mean error = (1/n) Σ wᵢ (fᵢ − oᵢ) -/
def additiveBias (cs : List RCase) : Fl := meanBy (fun c => c.2.2 * (c.1 - c.2.1)) cs

/-- multiplicative bias = Σ wᵢfᵢ / Σ wᵢoᵢ (the 1/n cancel) -/
def multiplicativeBias (cs : List RCase) : Fl :=
  if cs.isEmpty then Fl.nan
  else Fl.div (Fl.fin (sumBy (fun c => c.2.2 * c.1) cs)) (Fl.fin (sumBy (fun c => c.2.2 * c.2.1) cs))

/-- percent bias = 100 · Σ wᵢ(fᵢ − oᵢ) / Σ wᵢoᵢ -/
def pbias (cs : List RCase) : Fl :=
  if cs.isEmpty then Fl.nan
  else Fl.div (Fl.fin (100 * sumBy (fun c => c.2.2 * c.1 - c.2.2 * c.2.1) cs)) (Fl.fin (sumBy (fun c => c.2.2 * c.2.1) cs))

/-! ### quantile (pinball) loss, Gneiting (2011) -/
def pinball (α f o : Rat) : Rat := rmax (α * (o - f)) ((1 - α) * (f - o))
def quantileScore (α : Rat) (cs : List RCase) : Fl := meanBy (fun c => c.2.2 * pinball α c.1 c.2.1) cs

/-! ### interval scores, Winkler (1972) / Gneiting & Raftery (2007) -/
def qisWidth (l u : Rat) : Rat := u - l
def qisOver (l y a : Rat) : Rat := rmax 0 (l - y) / a
def qisUnder (u y b : Rat) : Rat := rmax 0 (y - u) / (1 - b)
def qisTotal (l u y a b : Rat) : Rat := qisWidth l u + qisOver l y a + qisUnder u y b
/-- interval score with nominal coverage `r = 1 − α`: width + (2/α)(l − y)⁺ + (2/α)(y − u)⁺ -/
def intervalTotal (l u y r : Rat) : Rat :=
  (u - l) + 2 / (1 - r) * rmax 0 (l - y) + 2 / (1 - r) * rmax 0 (y - u)

/-! ### moments in raw-moment form (E[x²] − E[x]², E[xy] − E[x]E[y]) — deliberately not the demeaned
    form the library uses -/
abbrev RPair := Rat × Rat
def psum (g : RPair → Rat) (ps : List RPair) : Rat := (ps.map g).sum
def pmean (g : RPair → Rat) (ps : List RPair) : Rat := psum g ps / (ps.length : Rat)
def meanF (ps : List RPair) : Rat := pmean (·.1) ps
def meanO (ps : List RPair) : Rat := pmean (·.2) ps
def varF (ps : List RPair) : Rat := pmean (fun p => p.1 * p.1) ps - meanF ps * meanF ps
def varO (ps : List RPair) : Rat := pmean (fun p => p.2 * p.2) ps - meanO ps * meanO ps
def covFO (ps : List RPair) : Rat := pmean (fun p => p.1 * p.2) ps - meanF ps * meanO ps
def mseP (ps : List RPair) : Rat := pmean (fun p => (p.1 - p.2) * (p.1 - p.2)) ps
def biasP (ps : List RPair) : Rat := pmean (fun p => p.1 - p.2) ps

/-- radicand of the KGE distance: (s_ρ(ρ−1))² + (s_α(α−1))² + (s_β(β−1))² -/
def kgeRadicand (ρ α β sρ sα sβ : Rat) : Rat :=
  (sρ * (ρ - 1)) * (sρ * (ρ - 1)) + (sα * (α - 1)) * (sα * (α - 1)) + (sβ * (β - 1)) * (sβ * (β - 1))

end SV.Spec.PointScores

namespace SV.Spec.PointScores
/-- mean of per-case values over the valid cases (NaN when there is none) -/
def meanList (xs : List Rat) : Fl :=
  if xs.isEmpty then Fl.nan else Fl.fin (xs.sum / (xs.length : Rat))
end SV.Spec.PointScores
