/-
  C20 — the DOCUMENTED domain of each validated parameter (docstrings / error messages of the public
  functions), written by hand as decidable predicates over exact rationals.  Core Lean only.
  `domains` is the executable table the oracle evaluates through the driver (keyed like `Gen.Guards.table`).
-/
import ScoresVerif.Model.Fl

namespace SV.Spec.Guards
open SV

/-- quantile / expectile / risk / confidence levels, interval ranges: strictly between 0 and 1 -/
def Open01 (x : Rat) : Prop := 0 < x ∧ x < 1
/-- Huber parameter, FIRM / isotonic / assessment weights: strictly positive -/
def Positive (x : Rat) : Prop := 0 < x
/-- tolerances, precisions, discount distance, left-limit delta, CRPS threshold weights: not negative -/
def Nonneg (x : Rat) : Prop := 0 ≤ x
/-- quantile-interval levels: 0 < lower < upper < 1 -/
def Levels (a b : Rat) : Prop := 0 < a ∧ a < b ∧ b < 1
/-- interval forecasts: lower quantile not above upper quantile -/
def NotAbove (l u : Rat) : Prop := l ≤ u
/-- interval end points (threshold-weighted scores, interval CRPS): strictly increasing -/
def StrictlyBelow (a b : Rat) : Prop := a < b
/-- probability forecasts / probability thresholds (given by their extreme values): inside [0, 1] -/
def Closed01Range (mx mn : Rat) : Prop := 0 ≤ mn ∧ mx ≤ 1
/-- probability-threshold coordinates of a risk matrix: strictly inside (0, 1) -/
def Open01Range (mn mx : Rat) : Prop := 0 < mn ∧ mx < 1
/-- threshold lists: each value at least its predecessor -/
def NonDecreasing (prev next : Rat) : Prop := prev ≤ next
/-- FSS window: each side between 1 and the side of the field -/
def Window (w0 w1 n0 n1 : Rat) : Prop := 1 ≤ w0 ∧ w0 ≤ n0 ∧ 1 ≤ w1 ∧ w1 ≤ n1
/-- Diebold–Mariano horizon: 0 < h < length of the series -/
def Horizon (h n : Rat) : Prop := 0 < h ∧ h < n
/-- a whole number -/
def Whole (h : Rat) : Prop := h.den = 1
/-- bootstraps: an int ≥ 1 -/
def AtLeastOne (b : Rat) : Prop := 1 ≤ b

instance (x : Rat) : Decidable (Open01 x) := by unfold Open01; infer_instance
instance (x : Rat) : Decidable (Positive x) := by unfold Positive; infer_instance
instance (x : Rat) : Decidable (Nonneg x) := by unfold Nonneg; infer_instance
instance (a b : Rat) : Decidable (Levels a b) := by unfold Levels; infer_instance
instance (a b : Rat) : Decidable (NotAbove a b) := by unfold NotAbove; infer_instance
instance (a b : Rat) : Decidable (StrictlyBelow a b) := by unfold StrictlyBelow; infer_instance
instance (a b : Rat) : Decidable (Closed01Range a b) := by unfold Closed01Range; infer_instance
instance (a b : Rat) : Decidable (Open01Range a b) := by unfold Open01Range; infer_instance
instance (a b : Rat) : Decidable (NonDecreasing a b) := by unfold NonDecreasing; infer_instance
instance (a b c d : Rat) : Decidable (Window a b c d) := by unfold Window; infer_instance
instance (a b : Rat) : Decidable (Horizon a b) := by unfold Horizon; infer_instance
instance (a : Rat) : Decidable (Whole a) := by unfold Whole; infer_instance
instance (a : Rat) : Decidable (AtLeastOne a) := by unfold AtLeastOne; infer_instance

/-- counts (thresholds of a CDF, FIRM category thresholds): at least `k` -/
def AtLeast (k x : Rat) : Prop := k ≤ x
/-- steps down a column of a warning scaling matrix: not positive -/
def Nonpos (x : Rat) : Prop := x ≤ 0
/-- enumerated option: exactly one of the documented strings -/
def OneOf (opts : List String) (s : String) : Prop := s ∈ opts
/-- the four CDF fill methods of `fill_cdf` / `add_thresholds` / `crps_cdf` -/
def fillMethods : List String := ["linear", "step", "forward", "backward"]
/-- `fill_cdf` (also reached through `add_thresholds`): "`min_nonnan` must be at least 2 for the "linear" method, and at
    least 1 for the other methods" -/
def MinNonnan (method : String) (m : Rat) : Prop := (if method = "linear" then 2 else 1) ≤ m

instance (x : Rat) : Decidable (Nonpos x) := by unfold Nonpos; infer_instance
instance (k x : Rat) : Decidable (AtLeast k x) := by unfold AtLeast; infer_instance
instance (o : List String) (s : String) : Decidable (OneOf o s) := by unfold OneOf; infer_instance
instance (s : String) (m : Rat) : Decidable (MinNonnan s m) := by unfold MinNonnan; infer_instance

/-- trapezoidal threshold weight with FINITE end points a ≤ … : positive on (a, d), one on [b, c] -/
def Trapezoid (a b c d : Rat) : Prop := a < b ∧ b < c ∧ c < d
instance (a b c d : Rat) : Decidable (Trapezoid a b c d) := by unfold Trapezoid; infer_instance

/-! executable table for the oracle: arguments are finite rationals, `none` = the Python `None` -/
private def r (x : Option Fl) : Option Rat := match x with | some (Fl.fin q) => some q | _ => none
private def truthy (x : Option Fl) : Bool := Fl.truthyOpt x

private def un (p : Rat → Bool) : List (Option Fl) → Option Bool
  | [x] => (r x).map p
  | _ => none
private def bin (p : Rat → Rat → Bool) : List (Option Fl) → Option Bool
  | [x, y] => match r x, r y with | some a, some b => some (p a b) | _, _ => none
  | _ => none
/-- optional parameter: `None` is always accepted -/
private def optUn (p : Rat → Bool) : List (Option Fl) → Option Bool
  | [none] => some true
  | [x] => (r x).map p
  | _ => none

/-- name ↦ "is inside the documented domain" -/
def domains : List (String × (List (Option Fl) → Option Bool)) := [
  ("check_alpha", un fun x => decide (Open01 x)),
  ("check_huber_param", un fun x => decide (Positive x)),
  ("quantile_score_alpha", un fun x => decide (Open01 x)),
  ("qis_levels", bin fun a b => decide (Levels a b)),
  ("qis_order", bin fun l u => decide (NotAbove l u)),
  ("interval_range", un fun x => decide (Open01 x)),
  ("murphy_alpha", optUn fun x => decide (Open01 x)),
  ("murphy_huber_a", fun xs => match xs with
      | [h, none] => some (!truthy h)
      | [h, a] => (r a).map fun q => !truthy h || decide (Positive q)
      | _ => none),
  ("murphy_left_limit_delta", optUn fun x => decide (Nonneg x)),
  ("tw_rect_order", bin fun a b => decide (StrictlyBelow a b)),
  ("tw_trap_one_order", bin fun a b => decide (StrictlyBelow a b)),
  ("tw_trap_left", bin fun a b => decide (StrictlyBelow a b)),
  ("tw_trap_right", bin fun a b => decide (StrictlyBelow a b)),
  ("firm_risk_parameter", un fun x => decide (Open01 x)),
  ("firm_weight_array", un fun x => decide (Positive x)),
  ("firm_weight_scalar", un fun x => decide (Positive x)),
  ("firm_discount_distance", un fun x => decide (Nonneg x)),
  ("crps_adjust_tolerance", un fun x => decide (Nonneg x)),
  ("crps_cdf_weight_negative", optUn fun x => decide (Nonneg x)),
  ("crps_interval_tw_array", bin fun a b => decide (StrictlyBelow a b)),
  ("crps_interval_tw_scalar", bin fun a b => decide (StrictlyBelow a b)),
  ("brier_fcst_range", bin fun mx mn => decide (Closed01Range mx mn)),
  ("roc_fcst_range", bin fun mx mn => decide (Closed01Range mx mn)),
  ("roc_thresholds_range", bin fun mx mn => decide (Closed01Range mx mn)),
  ("roc_thresholds_monotonic", bin fun p n => decide (NonDecreasing p n)),
  ("discretise_abs_tolerance", un fun x => decide (Nonneg x)),
  ("binary_discretise_monotonic", bin fun p n => decide (NonDecreasing p n)),
  ("cdf_round_precision", un fun x => decide (Nonneg x)),
  ("cdf_observed_precision", un fun x => decide (Nonneg x)),
  ("iso_quantile_level", fun xs => match xs with
      | [q, x] => (r x).map fun v => !truthy q || decide (Open01 v)
      | _ => none),
  ("iso_weight_positive", un fun x => decide (Positive x)),
  ("iso_bootstraps", fun xs => match xs with
      | [i, x] => (r x).map fun v => truthy i && decide (AtLeastOne v)
      | _ => none),
  ("iso_confidence_level", un fun x => decide (Open01 x)),
  ("fss_window", fun xs => match xs with
      | [a, b, c, d] => match r a, r b, r c, r d with
        | some w0, some w1, some n0, some n1 => some (decide (Window w0 w1 n0 n1))
        | _, _, _, _ => none
      | _ => none),
  ("dm_confidence_level", un fun x => decide (Open01 x)),
  ("dm_h_integer", un fun x => decide (Whole x)),
  ("dm_h_positive", un fun x => decide (Positive x)),
  ("dm_h_below_length", bin fun n h => decide (StrictlyBelow h n)),
  ("dm_stat_h", bin fun h n => decide (Horizon h n)),
  ("risk_fcst_range", bin fun mx mn => decide (Closed01Range mx mn)),
  ("risk_prob_thresholds", bin fun mn mx => decide (Open01Range mn mx)),
  ("risk_matrix_prob_thresholds", bin fun mn mx => decide (Open01Range mn mx)),
  ("risk_scaling_prob_thresholds", bin fun mn mx => decide (Open01Range mn mx)),
  ("risk_assessment_weights", un fun x => decide (Positive x)),
  -- added after the guard-site audit (notes/C20.md)
  ("cdf_decreasing_tolerance", un fun x => decide (Nonneg x)),
  ("crps_cdf_threshold_count", un fun x => decide (AtLeast 2 x)),
  ("brier_fcst_range_dataset", bin fun mx mn => decide (Closed01Range mx mn)),
  ("cdf_values_range", bin fun mx mn => decide (Closed01Range mx mn)),
  ("risk_scaling_min", un fun x => decide (Nonneg x)),
  ("risk_scaling_rows", un fun x => decide (Nonneg x)),
  ("risk_scaling_columns", un fun x => decide (Nonpos x)),
  ("risk_assessment_weights_count", bin fun n mx => decide (NotAbove mx n)),
  ("firm_threshold_count", un fun x => decide (AtLeast 1 x))]

private def enum (opts : List String) : List String → List (Option Fl) → Option Bool
  | [s], [] => some (decide (OneOf opts s))
  | _, _ => none

/-- guards with an enumerated (string) parameter: name ↦ strings ↦ numbers ↦ "is inside the documented domain" -/
def domainsS : List (String × (List String → List (Option Fl) → Option Bool)) := [
  ("firm_threshold_assignment", enum ["upper", "lower"]),
  ("fill_cdf_method", enum fillMethods),
  ("add_thresholds_fill_method", enum ("none" :: fillMethods)),
  ("fill_cdf_min_nonnan", fun ss xs => match ss, xs with
      | [m], [x] => (r x).map fun q => decide (MinNonnan m q)
      | _, _ => none),
  ("crps_cdf_fcst_fill_method", enum fillMethods),
  ("crps_cdf_weight_fill_method", fun ss xs => match ss, xs with
      | [m], [w] => some (!truthy w || decide (OneOf fillMethods m))
      | _, _ => none),
  ("crps_cdf_integration_method", enum ["exact", "trapz"]),
  ("crps_cdf_brier_fcst_fill_method", enum fillMethods),
  ("crps_ensemble_method", enum ["ecdf", "fair"]),
  ("tail_tw_crps_tail", enum ["upper", "lower"]),
  ("dm_method", enum ["HLN", "HG"]),
  ("dm_statistic_distribution", enum ["normal", "t"]),
  ("risk_threshold_assignment", enum ["upper", "lower"])]

end SV.Spec.Guards
