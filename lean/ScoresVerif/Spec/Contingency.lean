/-
  Documented formulas of the contingency-table metrics (docstrings of
  `BasicContingencyManager`), written by hand as `Fl` expressions of the four counts.
  "IEEE value of the same expression" = evaluation of this tree in `Fl`.
-/
import ScoresVerif.Model.Fl

namespace SV.Spec.Contingency
open SV

variable (tp tn fp fn total : Fl)

def accuracy : Fl := (tp + tn) / total
def baseRate : Fl := (tp + fn) / total
def forecastRate : Fl := (tp + fp) / total
def frequencyBias : Fl := (tp + fp) / (tp + fn)
def pod : Fl := tp / (tp + fn)
def falseAlarmRatio : Fl := fp / (tp + fp)
def pofd : Fl := fp / (tn + fp)
def successRatio : Fl := tp / (tp + fp)
def threatScore : Fl := tp / (tp + fp + fn)
def peirce : Fl := tp / (tp + fn) - fp / (fp + tn)
def specificity : Fl := tn / (tn + fp)
def npv : Fl := tn / (tn + fn)
def f1 : Fl := (2 * tp) / (2 * tp + fp + fn)
def hitsRandom : Fl := (tp + fn) * (tp + fp) / total
def ets : Fl := (tp - hitsRandom tp fp fn total) / (tp + fn + fp - hitsRandom tp fp fn total)
def expCorrect : Fl := (1 / total) * ((tp + fn) * (tp + fp) + (tn + fn) * (tn + fp))
def hss : Fl := (tp + tn - expCorrect tp tn fp fn total) / (total - expCorrect tp tn fp fn total)
def oddsRatio : Fl :=
  (pod tp fn / (1 - pod tp fn)) / (pofd tn fp / (1 - pofd tn fp))
def orss : Fl := (tp * tn - fn * fp) / (tp * tn + fn * fp)
def sedi (logF : Fl → Fl) : Fl :=
  (logF (pofd tn fp) - logF (pod tp fn) + logF (1 - pod tp fn) - logF (1 - pofd tn fp)) /
  (logF (pofd tn fp) + logF (pod tp fn) + logF (1 - pod tp fn) + logF (1 - pofd tn fp))

/-- forecast ↔ observation swap acts on a table by exchanging false positives and false negatives -/
def swap (t : Fl × Fl × Fl × Fl) : Fl × Fl × Fl × Fl := (t.1, t.2.1, t.2.2.2, t.2.2.1)

end SV.Spec.Contingency
