/-
  C13 — the property's own mathematics, by hand (core Lean only).
  brier score = mean squared difference; ensemble Brier score of one case =
  (i/m − y)² − [fair ∧ m > 1]·i(m−i)/(m²(m−1)), m = non-missing members, i = members meeting the event
  relation (a missing member never meets it), y = observed event.
-/
import ScoresVerif.Model.Fl

namespace SV.Spec.Brier
open SV

/-- the fair (Ferro) correction term -/
def correction (i m : Nat) : Rat := ((i : Rat) * ((m : Rat) - (i : Rat))) / ((m : Rat) * (m : Rat) * ((m : Rat) - 1))

/-- per-case score from the counts -/
def brierEns (i m : Nat) (y : Rat) (fair : Bool) : Fl :=
  if m = 0 then Fl.nan
  else
    let d : Rat := (i : Rat) / (m : Rat) - y
    Fl.fin (d * d - (if fair && decide (1 < m) then correction i m else 0))

inductive Rel4 where
  | ge | gt | le | lt
  deriving DecidableEq, Repr, Inhabited

def Rel4.holds : Rel4 → Fl → Fl → Bool
  | .ge, x, t => Fl.ge x t
  | .gt, x, t => Fl.gt x t
  | .le, x, t => Fl.le x t
  | .lt, x, t => Fl.lt x t

def Rel4.compl : Rel4 → Rel4
  | .ge => .lt | .lt => .ge | .gt => .le | .le => .gt

def Rel4.ofName? : String → Option Rel4
  | "ge" => some .ge | "gt" => some .gt | "le" => some .le | "lt" => some .lt | _ => none

/-- number of members meeting the event relation (a NaN member never does) -/
def eventCount (r : Rel4) (thr : Fl) (members : List Fl) : Nat := (members.filter fun x => r.holds x thr).length
/-- number of non-missing members -/
def memberCount (members : List Fl) : Nat := (members.filter Fl.notNan).length

/-- score of one case and one threshold; NaN when the observation (or the threshold) is missing -/
def ensCase (r : Rel4) (members : List Fl) (obs thr : Fl) (fair : Bool) : Fl :=
  if obs.isNan || thr.isNan then Fl.nan
  else brierEns (eventCount r thr members) (memberCount members) (if r.holds obs thr then 1 else 0) fair

/-- weighted mean over cases (missing scores or weights drop out; nothing left ⇒ NaN) -/
def meanOver (scores : List Fl) (weights : Option (List Fl)) : Fl :=
  match weights with
  | none => nanmean scores
  | some ws => nanmean (List.zipWith Fl.mul scores ws)

/-- Brier score = mean squared difference over the pairs valid in both -/
def brier (fs os : List Fl) (weights : Option (List Fl)) : Fl :=
  meanOver (List.zipWith (fun f o => Fl.mul (Fl.sub f o) (Fl.sub f o)) fs os) weights

/-- accepted inputs when checking is on: every non-missing forecast in [0,1], every non-missing observation 0 or 1 -/
def accepted (fs os : List Fl) : Bool :=
  fs.all (fun f => f.isNan || (Fl.le (Fl.fin 0) f && Fl.le f (Fl.fin 1))) &&
  os.all (fun o => o.isNan || Fl.beq o (Fl.fin 0) || Fl.beq o (Fl.fin 1))

end SV.Spec.Brier
