/-
  Specification of the flip-flop index (C18) — core Lean only, executable over exact rationals.
-/
import ScoresVerif.Model.Fl

namespace SV.Spec.FlipFlop
open SV

/-- total variation Σ |x_{i+1} − x_i| -/
def tv : List Rat → Rat
  | a :: b :: t => rabs (b - a) + tv (b :: t)
  | _ => 0

def maxL : List Rat → Rat
  | [] => 0
  | [a] => a
  | a :: t => if a ≤ maxL t then maxL t else a

def minL : List Rat → Rat
  | [] => 0
  | [a] => a
  | a :: t => if minL t ≤ a then minL t else a

/-- flip-flop index: (Σ|x_{i+1} − x_i| − (max − min)) / (N − 2) -/
def ffi (xs : List Rat) : Rat := (tv xs - (maxL xs - minL xs)) / ((xs.length : Rat) - 2)

/-! ### directional data -/

/-- circular difference: the smaller of the two arcs between a and b, in [0, 180] -/
def angDiff (a b : Rat) : Rat :=
  let d := rmod (rabs (a - b)) 360
  if d ≤ 180 then d else 360 - d

def tvAng : List Rat → Rat
  | a :: b :: t => angDiff a b + tvAng (b :: t)
  | _ => 0

/-- anticlockwise arc from a to b, in [0, 360) -/
def arc (a b : Rat) : Rat := rmod (b - a) 360

/-- length of the arc that starts at a and covers every direction of xs -/
def coverFrom (xs : List Rat) (a : Rat) : Rat := maxL (xs.map (arc a))

/-- the smallest sector containing all directions: the shortest covering arc (it can start at a data point) -/
def sector (xs : List Rat) : Rat := minL (xs.map (coverFrom xs))

/-- the same by gaps: 360 minus the largest gap between cyclically adjacent distinct directions -/
def insertR (a : Rat) : List Rat → List Rat
  | [] => [a]
  | b :: t => if a < b then a :: b :: t else if a = b then b :: t else b :: insertR a t

def sortDistinct : List Rat → List Rat
  | [] => []
  | a :: t => insertR a (sortDistinct t)

def gaps : List Rat → List Rat
  | a :: b :: t => (b - a) :: gaps (b :: t)
  | _ => []

def sectorGap (xs : List Rat) : Rat :=
  let s := sortDistinct (xs.map fun v => rmod v 360)
  match s with
  | [] => 0
  | a :: _ =>
    let last := s.getLastD a
    360 - maxL ((360 - last + a) :: gaps s)

/-- directional flip-flop index: circular successive changes, range = sector capped at 180 -/
def ffiAng (xs : List Rat) : Rat :=
  let s := sector xs
  (tvAng xs - (if s ≤ 180 then s else 180)) / ((xs.length : Rat) - 2)

/-- fraction of the valid (non-NaN) indices that are ≥ t; `none` when there is no valid index -/
def proportion (vals : List (Option Rat)) (t : Rat) : Option Rat :=
  let v := vals.filterMap id
  if v.isEmpty then none else some (((v.filter fun q => t ≤ q).length : Rat) / (v.length : Rat))

end SV.Spec.FlipFlop
