/-
  Spec for C14 — ROC points by direct (weighted) counting, trapezoid area, Mann–Whitney statistic.
  Short executable definitions over `Rat`; core Lean only.
-/
import ScoresVerif.Model.Fl
import ScoresVerif.Model.Roc

namespace SV.Spec.Roc
open SV

/-- one valid forecast–observation pair: probability forecast, whether the event occurred, weight -/
structure Case where
  f : Rat
  ev : Bool
  w : Rat
  deriving Inhabited

def wsumIf (p : Case → Bool) (cs : List Case) : Rat := ((cs.filter p).map (·.w)).sum

/-- total weight of the events that the binary forecast `f ≥ t` detects -/
def hitsW (cs : List Case) (t : Rat) : Rat := wsumIf (fun c => c.ev && decide (t ≤ c.f)) cs
def eventsW (cs : List Case) : Rat := wsumIf (fun c => c.ev) cs
def falseAlarmsW (cs : List Case) (t : Rat) : Rat := wsumIf (fun c => !c.ev && decide (t ≤ c.f)) cs
def nonEventsW (cs : List Case) : Rat := wsumIf (fun c => !c.ev) cs

/-- probability of detection of `forecast ≥ t` (a forecast equal to t is an event); IEEE 0/0 = NaN without events -/
def pod (cs : List Case) (t : Rat) : Fl := Fl.div (Fl.fin (hitsW cs t)) (Fl.fin (eventsW cs))
/-- probability of false detection of `forecast ≥ t` -/
def pofd (cs : List Case) (t : Rat) : Fl := Fl.div (Fl.fin (falseAlarmsW cs t)) (Fl.fin (nonEventsW cs))

/-- trapezoid area under the points (x_k, y_k) listed with x non-increasing: Σ (x_k − x_{k+1})(y_k + y_{k+1})/2 -/
def trapArea : List (Rat × Rat) → Rat
  | (x0, y0) :: (x1, y1) :: rest => (x0 - x1) * (y0 + y1) / 2 + trapArea ((x1, y1) :: rest)
  | _ => 0

/-- (weighted) Mann–Whitney probability that a random event received a higher forecast than a random non-event,
    ties counting one half -/
def mannWhitney (cs : List Case) : Fl :=
  let ev := cs.filter (·.ev)
  let ne := cs.filter (fun c => !c.ev)
  let num : Rat := (ev.map fun a => (ne.map fun b =>
      a.w * b.w * (if b.f < a.f then 1 else if a.f = b.f then 1 / 2 else 0)).sum).sum
  Fl.div (Fl.fin num) (Fl.fin (eventsW cs * nonEventsW cs))

/-- the valid pairs of a list of model triples: forecast a number, observation 0 or 1, weight a number (none ↦ 1).
    Everything else (NaN anywhere) is not a pair. -/
def clean : List Model.Roc.Triple → List Case
  | [] => []
  | ⟨Fl.fin f, Fl.fin o, w⟩ :: l =>
      let wq : Option Rat := match w with | none => some 1 | some (Fl.fin q) => some q | _ => none
      match wq with
      | some q => if o = 1 then ⟨f, true, q⟩ :: clean l else if o = 0 then ⟨f, false, q⟩ :: clean l else clean l
      | none => clean l
  | _ :: l => clean l

end SV.Spec.Roc
