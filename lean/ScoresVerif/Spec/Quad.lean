/-
  Spec/Quad — exact cell-wise quadrature on a kink-complete grid (DESIGN §3.4).  Core Lean only.

  `integral f lo hi kinks` is ∫_lo^hi f(θ) dθ for every f that is a polynomial of degree ≤ 3 on each open cell of
  the grid  lo ≤ (kinks clamped into [lo,hi], sorted) ≤ hi : on every cell the OPEN three-point Newton–Cotes rule
  (Milne's rule, nodes at the quarter points, weights 2/3, −1/3, 2/3) is used, which is exact for cubics and
  never evaluates f at a grid point — so jumps of f at the kinks (indicator weights, half-open elementary
  scores) need no one-sided limits.  "Milne's rule integrates cubics exactly and integrals are additive over
  adjacent cells" is the mathematical reading of this definition (trusted base, DESIGN §7).
-/
namespace SV.Spec.Quad

def rmin (x y : Rat) : Rat := if x ≤ y then x else y
def rmax (x y : Rat) : Rat := if x ≤ y then y else x
/-- `t` moved into `[lo, hi]` -/
def clamp (lo hi t : Rat) : Rat := rmax lo (rmin hi t)

/-- open 3-point Newton–Cotes (Milne) rule on the cell [p, q] -/
def milne (f : Rat → Rat) (p q : Rat) : Rat :=
  (q - p) / 3 * (2 * f (p + (q - p) / 4) - f (p + (q - p) / 2) + 2 * f (p + 3 * (q - p) / 4))

/-- Σ over consecutive grid points -/
def cellSum (f : Rat → Rat) : List Rat → Rat
  | p :: q :: rest => milne f p q + cellSum f (q :: rest)
  | _ => 0

def sortRat (l : List Rat) : List Rat := l.mergeSort (fun a b => decide (a ≤ b))

/-- lo, the kinks clamped into [lo,hi] in increasing order, hi -/
def grid (lo hi : Rat) (kinks : List Rat) : List Rat :=
  lo :: (sortRat (kinks.map (clamp lo hi)) ++ [hi])

/-- ∫_lo^hi f for f piecewise cubic with all kinks in `kinks` -/
def integral (f : Rat → Rat) (lo hi : Rat) (kinks : List Rat) : Rat :=
  cellSum f (grid lo hi kinks)

/-- closed rules, for continuous integrands (not used by `integral`) -/
def trapezoid (f : Rat → Rat) (p q : Rat) : Rat := (q - p) * (f p + f q) / 2
def simpson (f : Rat → Rat) (p q : Rat) : Rat := (q - p) / 6 * (f p + 4 * f ((p + q) / 2) + f q)

end SV.Spec.Quad
