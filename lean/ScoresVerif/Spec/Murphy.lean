/-
  Spec/Murphy — the mathematics of C11, written by hand over exact rationals (core Lean only).

  * elementary scores of Ehm, Gneiting, Jordan & Krüger (2016, Thm 1) for quantiles and expectiles and of
    Taggart (2022, Thm 5.3) for the Huber functional: in the papers' own form (`ehm*`) and as the piecewise
    form used in the property text (`elem*`, with separate over / under parts);
  * the scoring functions they integrate to: pinball loss, half the asymmetric squared loss, asymmetric Huber loss;
  * kinks of θ ↦ S_θ(f, o);
  * a small exact integral calculus: step functions Σ c·1[lo,hi) with their integral, and the midpoint rule on a
    grid (exact on every cell on which the integrand is affine).
-/
import ScoresVerif.Model.Fl

namespace SV.Spec.Murphy
open SV

/-! ### elementary scores, piecewise form -/

/-- over-forecast region: obs ≤ θ < fcst -/
def overRegion (f o θ : Rat) : Prop := o ≤ θ ∧ θ < f
/-- under-forecast region: fcst ≤ θ < obs -/
def underRegion (f o θ : Rat) : Prop := f ≤ θ ∧ θ < o

instance (f o θ : Rat) : Decidable (overRegion f o θ) := by unfold overRegion; infer_instance
instance (f o θ : Rat) : Decidable (underRegion f o θ) := by unfold underRegion; infer_instance

def rmin (x y : Rat) : Rat := if x ≤ y then x else y
def rmax (x y : Rat) : Rat := if x ≤ y then y else x

def overQ (α f o θ : Rat) : Rat := if overRegion f o θ then 1 - α else 0
def underQ (α f o θ : Rat) : Rat := if underRegion f o θ then α else 0
def overE (α f o θ : Rat) : Rat := if overRegion f o θ then (1 - α) * (θ - o) else 0
def underE (α f o θ : Rat) : Rat := if underRegion f o θ then α * (o - θ) else 0
def overH (α a f o θ : Rat) : Rat := if overRegion f o θ then (1 - α) * rmin (θ - o) a else 0
def underH (α a f o θ : Rat) : Rat := if underRegion f o θ then α * rmin (o - θ) a else 0

def elemQ (α f o θ : Rat) : Rat := overQ α f o θ + underQ α f o θ
def elemE (α f o θ : Rat) : Rat := overE α f o θ + underE α f o θ
def elemH (α a f o θ : Rat) : Rat := overH α a f o θ + underH α a f o θ

/-! ### the papers' own formulas -/

def ind (p : Prop) [Decidable p] : Rat := if p then 1 else 0
def pos (x : Rat) : Rat := if 0 ≤ x then x else 0

/-- Ehm et al. (2016) eq. (10): S^Q_{α,θ}(x,y) = (1{y<x} − α)(1{θ<x} − 1{θ<y}) -/
def ehmQ (α x y θ : Rat) : Rat := (ind (y < x) - α) * (ind (θ < x) - ind (θ < y))
/-- Ehm et al. (2016) eq. (11): S^E_{α,θ}(x,y) = |1{y<x} − α| ((y−θ)₊ − (x−θ)₊ − (y−x)·1{θ<x}) -/
def ehmE (α x y θ : Rat) : Rat :=
  rabs (ind (y < x) - α) * (pos (y - θ) - pos (x - θ) - (y - x) * ind (θ < x))
/-- Taggart (2022) Thm 5.3: S^H_{α,a,θ}(x,y) = |1{y<x} − α| · min(|θ − y|, a) · 1{min(x,y) ≤ θ < max(x,y)} -/
def taggartH (α a x y θ : Rat) : Rat :=
  rabs (ind (y < x) - α) * rmin (rabs (θ - y)) a * ind (rmin x y ≤ θ ∧ θ < rmax x y)

/-! ### the scoring functions the elementary scores integrate to -/

/-- pinball (quantile) loss, as `scores.continuous.quantile_score` -/
def pinball (α f o : Rat) : Rat := if o ≤ f then (1 - α) * (f - o) else α * (o - f)
/-- half the asymmetric squared loss -/
def halfAsymSq (α f o : Rat) : Rat := (if o ≤ f then 1 - α else α) * ((f - o) * (f - o)) / 2
/-- Huber loss with transition `a` -/
def huberLoss (a u : Rat) : Rat := if rabs u ≤ a then u * u / 2 else a * (rabs u - a / 2)
def asymHuber (α a f o : Rat) : Rat := (if o ≤ f then 1 - α else α) * huberLoss a (f - o)

/-! ### kinks of θ ↦ S_θ(f, o) -/

def kinksQ (f o : Rat) : List Rat := [f, o]
def kinksE (f o : Rat) : List Rat := [f, o]
def kinksH (a f o : Rat) : List Rat := [f, o, o - a, o + a]

/-- no element of `ks` lies in (θ₁, θ₂] -/
def noKinkIoc (ks : List Rat) (θ₁ θ₂ : Rat) : Prop := ∀ k ∈ ks, ¬ (θ₁ < k ∧ k ≤ θ₂)
/-- no element of `ks` lies in (θ₁, θ₂) -/
def noKinkIoo (ks : List Rat) (θ₁ θ₂ : Rat) : Prop := ∀ k ∈ ks, ¬ (θ₁ < k ∧ k < θ₂)

/-! ### exact integral calculus -/

/-- a step function Σ c·1[lo,hi) as a list of (c, lo, hi) -/
abbrev StepFn := List (Rat × Rat × Rat)

def StepFn.eval (s : StepFn) (θ : Rat) : Rat :=
  (s.map fun p => if p.2.1 ≤ θ ∧ θ < p.2.2 then p.1 else 0).sum

/-- ∫ Σ c·1[lo,hi) = Σ c·(hi − lo)⁺ -/
def StepFn.integral (s : StepFn) : Rat :=
  (s.map fun p => p.1 * (if p.2.1 ≤ p.2.2 then p.2.2 - p.2.1 else 0)).sum

/-- the quantile elementary score as a step function of θ -/
def stepQ (α f o : Rat) : StepFn := [(1 - α, o, f), (α, f, o)]

/-- midpoint rule on a grid: Σ (b − a)·S((a+b)/2) over consecutive grid points -/
def midpointRule (S : Rat → Rat) : List Rat → Rat
  | a :: b :: rest => (b - a) * S ((a + b) / 2) + midpointRule S (b :: rest)
  | _ => 0

/-- a grid is increasing and no kink lies strictly inside a cell -/
def KinkComplete (ks : List Rat) : List Rat → Prop
  | a :: b :: rest => (a ≤ b ∧ noKinkIoo ks a b) ∧ KinkComplete ks (b :: rest)
  | _ => True

/-- last element of the non-empty grid `p :: g` -/
def lastOr (p : Rat) : List Rat → Rat
  | [] => p
  | x :: xs => lastOr x xs

/-- `S` is affine on [θ₁, θ₂) -/
def AffineOn (S : Rat → Rat) (θ₁ θ₂ : Rat) : Prop :=
  ∃ c₀ c₁ : Rat, ∀ θ, θ₁ ≤ θ → θ < θ₂ → S θ = c₀ + c₁ * θ

/-! ### mean over cases with NaN matching (executable oracle for the harness) -/

inductive Fn where
  | quantile | huber | expectile
  deriving DecidableEq, Repr, Inhabited

structure Triple where
  total : Rat
  under : Rat
  over : Rat

def elem3 (fn : Fn) (α a f o θ : Rat) : Triple :=
  match fn with
  | .quantile => ⟨elemQ α f o θ, underQ α f o θ, overQ α f o θ⟩
  | .huber => ⟨elemH α a f o θ, underH α a f o θ, overH α a f o θ⟩
  | .expectile => ⟨elemE α f o θ, underE α f o θ, overE α f o θ⟩

/-- the cases that count: forecast and observation both present (finite) -/
def validCases : List (Fl × Fl) → List (Rat × Rat)
  | [] => []
  | (Fl.fin f, Fl.fin o) :: rest => (f, o) :: validCases rest
  | _ :: rest => validCases rest

def meanOf (xs : List Rat) : Fl := if xs.isEmpty then Fl.nan else Fl.fin (xs.sum / (xs.length : Rat))

/-- mean elementary score over the valid cases (NaN when there is none, or θ is NaN) -/
def meanScore (fn : Fn) (α a : Rat) (cases : List (Fl × Fl)) (theta : Fl) : Fl × Fl × Fl :=
  match theta with
  | Fl.fin θ =>
    let ts := (validCases cases).map fun c => elem3 fn α a c.1 c.2 θ
    (meanOf (ts.map (·.total)), meanOf (ts.map (·.under)), meanOf (ts.map (·.over)))
  | _ => (Fl.nan, Fl.nan, Fl.nan)

/-- the scoring function that ∫ S_θ dθ must equal -/
def loss (fn : Fn) (α a f o : Rat) : Rat :=
  match fn with
  | .quantile => pinball α f o
  | .huber => asymHuber α a f o
  | .expectile => halfAsymSq α f o

end SV.Spec.Murphy
