/-
  C08 — the property's own mathematics, written by hand (core Lean only).

  * `disc r x c t`: 1 exactly where `x <r> c` holds when a value within `t` of the threshold counts as
    EQUAL to it, 0 where it does not, NaN where data or threshold is NaN.
  * `event o thr x`, `countSpec o thr pairs`: events of a threshold operator and the contingency counts
    obtained by counting pairs directly.
-/
import ScoresVerif.Model.Fl
import ScoresVerif.Model.Discretise

namespace SV.Spec.Discretise
open SV

inductive Rel where
  | ge | gt | le | lt | eq | ne
  deriving DecidableEq, Repr, Inhabited

/-- the complementary relation -/
def Rel.compl : Rel → Rel
  | .ge => .lt | .lt => .ge | .gt => .le | .le => .gt | .eq => .ne | .ne => .eq

/-- `x` counts as equal to the threshold `c` -/
def near (x c t : Rat) : Bool := decide (rabs (x - c) ≤ t)

/-- `x <r> c` with tolerance `t` -/
def holds : Rel → Rat → Rat → Rat → Bool
  | .ge, x, c, t => decide (c < x) || near x c t
  | .gt, x, c, t => decide (c < x) && !near x c t
  | .le, x, c, t => decide (x < c) || near x c t
  | .lt, x, c, t => decide (x < c) && !near x c t
  | .eq, x, c, t => near x c t
  | .ne, x, c, t => !near x c t

/-- the discretised value; `none` = outside the property's domain (infinite data / threshold) -/
def disc (r : Rel) (x c : Fl) (t : Rat) : Option Fl :=
  match x, c with
  | .nan, _ => some .nan
  | _, .nan => some .nan
  | .fin a, .fin b => some (Fl.ofBool (holds r a b t))
  | _, _ => none

/-- the two spellings of each relation -/
def Rel.str : Rel → String
  | .ge => ">=" | .gt => ">" | .le => "<=" | .lt => "<" | .eq => "==" | .ne => "!="
def Rel.op : Rel → PyOp
  | .ge => .ge | .gt => .gt | .le => .le | .lt => .lt | .eq => .eq | .ne => .ne

def Rel.ofName? : String → Option Rel
  | "ge" => some .ge | "gt" => some .gt | "le" => some .le | "lt" => some .lt | "eq" => some .eq | "ne" => some .ne
  | _ => none

/-- `disc` extended to infinite data / thresholds (the extended reals): an infinite value is a valid, comparable
    value, so the order relations are decided by the order of the extended reals — a finite tolerance brings no
    other value near an infinity, and a value always counts as equal to itself (`inf >= inf` holds, `inf > inf`
    does not).  Different values are unequal (`inf == 1` is 0).  Only `==` / `!=` between two EQUAL infinities
    stays outside the property's domain (`none`; notes/C08.md N-C08-1). -/
def discX (r : Rel) (x c : Fl) (t : Rat) : Option Fl :=
  match disc r x c t with
  | some v => some v
  | none =>
    if Fl.beq x c then
      match r with
      | .ge | .le => some (Fl.fin 1)
      | .gt | .lt => some (Fl.fin 0)
      | .eq | .ne => none
    else some (Fl.ofBool (r.op.apply x c))

/-- event of a threshold operator: `op x thr` for every supplied threshold, NaN for missing data -/
def event (o : PyOp) (thr x : Fl) : Fl := if x.isNan then .nan else Fl.ofBool (o.apply x thr)

structure Counts where
  tp : Nat
  tn : Nat
  fp : Nat
  fn : Nat
  total : Nat
  deriving DecidableEq, Repr

def bothValid (p : Fl × Fl) : Bool := p.1.notNan && p.2.notNan

/-- direct counting over (forecast, observation) pairs: `f p` / `o p` say whether the forecast / the
    observation of pair `p` is an event -/
def countBy (f o : Fl × Fl → Bool) (ps : List (Fl × Fl)) : Counts where
  tp := (ps.filter fun p => bothValid p && (f p && o p)).length
  tn := (ps.filter fun p => bothValid p && (!f p && !o p)).length
  fp := (ps.filter fun p => bothValid p && (f p && !o p)).length
  fn := (ps.filter fun p => bothValid p && (!f p && o p)).length
  total := (ps.filter bothValid).length

/-- counts of a threshold event operator -/
def countSpec (op : PyOp) (thr : Fl) (ps : List (Fl × Fl)) : Counts :=
  countBy (fun p => op.apply p.1 thr) (fun p => op.apply p.2 thr) ps

/-- counts from binary event arrays (1 = event, 0 = no event, NaN = missing) -/
def countEvents (es : List (Fl × Fl)) : Counts :=
  countBy (fun p => Fl.beq p.1 (Fl.fin 1)) (fun p => Fl.beq p.2 (Fl.fin 1)) es

end SV.Spec.Discretise
