/-
  Spec/Firm — the mathematics of C12 over exact rationals (core Lean only):
  FIRM per-threshold fixed-risk penalties (Taggart, Loveday & Griffiths 2022) and the risk matrix score's decision penalties
  (Taggart & Wilke 2024).
-/
import ScoresVerif.Model.Fl
import ScoresVerif.Spec.Murphy

namespace SV.Spec.Firm
open SV

/-- the discount distance as the code reads it: 0 = no discount, finite d > 0, or +∞ -/
inductive Disc where
  | off
  | dist (d : Rat)
  | inf
  deriving DecidableEq, Repr

/-- reading of the `discount_distance` argument (Python truthiness: 0 is "no discount") -/
def Disc.ofFl : Fl → Option Disc
  | Fl.fin d => if d = 0 then some .off else some (.dist d)
  | Fl.pinf => some .inf
  | _ => none

/-- false alarm relative to threshold t: lower: obs ≤ t < fcst (t belongs to the lower category); upper: obs < t ≤ fcst -/
def falseAlarm (lower : Bool) (f o t : Rat) : Prop := if lower then o ≤ t ∧ t < f else o < t ∧ t ≤ f
/-- miss: lower: fcst ≤ t < obs; upper: fcst < t ≤ obs -/
def miss (lower : Bool) (f o t : Rat) : Prop := if lower then f ≤ t ∧ t < o else f < t ∧ t ≤ o

instance (l : Bool) (f o t : Rat) : Decidable (falseAlarm l f o t) := by unfold falseAlarm; cases l <;> simp <;> infer_instance
instance (l : Bool) (f o t : Rat) : Decidable (miss l f o t) := by unfold miss; cases l <;> simp <;> infer_instance

/-- min(distance of obs to threshold, discount distance); `x` is the signed distance in the direction of the error -/
def scale (d : Disc) (x : Rat) : Rat :=
  match d with
  | .off => 1
  | .dist d => Spec.Murphy.rmin x d
  | .inf => x

def overPenalty (lower : Bool) (d : Disc) (α f o t : Rat) : Rat :=
  if falseAlarm lower f o t then (1 - α) * scale d (t - o) else 0
def underPenalty (lower : Bool) (d : Disc) (α f o t : Rat) : Rat :=
  if miss lower f o t then α * scale d (o - t) else 0
def single (lower : Bool) (d : Disc) (α f o t : Rat) : Rat := overPenalty lower d α f o t + underPenalty lower d α f o t

/-- FIRM per case: Σ_j w_j · penalty_j;  `tw` = (threshold, weight) list -/
def firmOver (lower : Bool) (d : Disc) (α f o : Rat) (tw : List (Rat × Rat)) : Rat :=
  (tw.map fun p => p.2 * overPenalty lower d α f o p.1).sum
def firmUnder (lower : Bool) (d : Disc) (α f o : Rat) (tw : List (Rat × Rat)) : Rat :=
  (tw.map fun p => p.2 * underPenalty lower d α f o p.1).sum
def firm (lower : Bool) (d : Disc) (α f o : Rat) (tw : List (Rat × Rat)) : Rat :=
  (tw.map fun p => p.2 * single lower d α f o p.1).sum

/-- the Murphy elementary score FIRM is built from: quantile (no discount), Huber with a = d, expectile-type (d = ∞) -/
def murphyElem (d : Disc) (α f o θ : Rat) : Rat :=
  match d with
  | .off => Spec.Murphy.elemQ α f o θ
  | .dist d => Spec.Murphy.elemH α d f o θ
  | .inf => Spec.Murphy.elemE α f o θ

/-! ### executable oracle for the harness (Fl in, Fl out; NaN anywhere in the case ⇒ NaN) -/

def finList : List Fl → Option (List Rat)
  | [] => some []
  | Fl.fin q :: xs => (finList xs).map (q :: ·)
  | _ :: _ => none

/-- (firm, over, under) at one case, `none`-free: NaN if the forecast, observation, a threshold or a weight is NaN -/
def firmCase (lower : Bool) (dfl : Fl) (α : Rat) (f o : Fl) (tw : List (Fl × Fl)) : Fl × Fl × Fl :=
  match Disc.ofFl dfl, f, o, finList (tw.map (·.1)), finList (tw.map (·.2)) with
  | some d, Fl.fin f, Fl.fin o, some ts, some ws =>
    let p := ts.zip ws
    (Fl.fin (firm lower d α f o p), Fl.fin (firmOver lower d α f o p), Fl.fin (firmUnder lower d α f o p))
  | _, _, _, _, _ => (Fl.nan, Fl.nan, Fl.nan)

/-! ### risk matrix score -/

/-- forecast probability at/above the threshold p: lower: f ≥ p (p belongs to the lower certainty category); upper: f > p -/
def above (lower : Bool) (f p : Rat) : Prop := if lower then p ≤ f else p < f
instance (l : Bool) (f p : Rat) : Decidable (above l f p) := by unfold above; cases l <;> simp <;> infer_instance

/-- decision penalty at one (probability threshold p, severity category): p for acting on a non-event,
    1 − p for not acting on an event -/
def rmPenalty (lower : Bool) (f o p : Rat) : Rat :=
  (if o = 0 ∧ above lower f p then p else 0) + (if o = 1 ∧ ¬ above lower f p then 1 - p else 0)

/-- double sum over probability thresholds and severity categories; `W` rows = (p, weights per category) -/
def rmScore (lower : Bool) (fo : List (Rat × Rat)) (W : List (Rat × List Rat)) : Rat :=
  (W.map fun pw => ((fo.zip pw.2).map fun c => c.2 * rmPenalty lower c.1.1 c.1.2 pw.1).sum).sum

def finPairs : List (Fl × Fl) → Option (List (Rat × Rat))
  | [] => some []
  | (Fl.fin a, Fl.fin b) :: xs => (finPairs xs).map ((a, b) :: ·)
  | _ :: _ => none

def finRows : List (Fl × List Fl) → Option (List (Rat × List Rat))
  | [] => some []
  | (Fl.fin p, ws) :: xs =>
    match finList ws, finRows xs with
    | some w, some r => some ((p, w) :: r)
    | _, _ => none
  | _ :: _ => none

/-- NaN anywhere in the case (any category's forecast or observation, any weight) ⇒ NaN -/
def rmCase (lower : Bool) (fo : List (Fl × Fl)) (W : List (Fl × List Fl)) : Fl :=
  match finPairs fo, finRows W with
  | some a, some b => Fl.fin (rmScore lower a b)
  | _, _ => Fl.nan

/-! ### documented parameter domains (the `Args:` / `Raises:` sections of `firm` and `risk_matrix_score`)

The penalties (1 − α) / α are a fixed-risk measure only for 0 < α < 1 (both boundaries excluded); weights are positive;
probability thresholds lie strictly inside (0, 1).  `true` = the call is inside the documented domain (must not raise);
`false` = ValueError is documented. -/

/-- 0 < α < 1 -/
def alphaOk : Fl → Bool
  | Fl.fin q => decide (0 < q) && decide (q < 1)
  | _ => false

/-- a threshold weight (scalar, or one entry of an array): > 0; NaN entries are allowed -/
def weightOk : Fl → Bool
  | Fl.fin q => decide (0 < q)
  | Fl.pinf => true
  | Fl.nan => true
  | Fl.ninf => false

/-- `discount_distance` ≥ 0 (0 = no discount, +∞ allowed) -/
def discOk : Fl → Bool
  | Fl.fin q => decide (0 ≤ q)
  | Fl.pinf => true
  | _ => false

def modeOk (mode : String) : Bool := mode == "upper" || mode == "lower"

/-- `weights` = every value of every threshold weight (scalars and array entries) -/
def firmDomain (nThresholds nWeights : Nat) (alpha : Fl) (weights : List Fl) (d : Fl) (mode : String) : Bool :=
  decide (1 ≤ nThresholds) && decide (nThresholds = nWeights) && alphaOk alpha && weights.all weightOk && discOk d &&
  modeOk mode

/-- a forecast probability: in the closed interval [0, 1], or missing -/
def probOk : Fl → Bool
  | Fl.fin q => decide (0 ≤ q) && decide (q ≤ 1)
  | Fl.nan => true
  | _ => false

/-- a binary observation: 0, 1 or missing -/
def binaryOk : Fl → Bool
  | Fl.fin q => decide (q = 0) || decide (q = 1)
  | Fl.nan => true
  | _ => false

/-- a probability threshold: strictly between 0 and 1 -/
def probThresholdOk : Fl → Bool
  | Fl.fin q => decide (0 < q) && decide (q < 1)
  | _ => false

def rmDomain (fcsts obs probs : List Fl) (mode : String) : Bool :=
  fcsts.all probOk && obs.all binaryOk && probs.all probThresholdOk && modeOk mode

/-! ### warning scaling → decision-point weights (Appendix B of Taggart & Wilke 2024; `_scaling_to_weight_matrix`)

The scaling matrix `S` is given as the code takes it: row 0 = highest certainty category, last row = lowest (all 0);
column 0 = the "no warning" severity (all 0), column j+1 = the j-th warned severity category.  The weight matrix has one row
per probability threshold (row i = the threshold between certainty rows i+1 and i of `S`, i.e. rows in DECREASING
probability) and one column per warned severity category.

Level-set statement: warning level ℓ is the staircase region {S ≥ ℓ}; its assessment weight sits on the CORNER points of
that staircase: cell (i, j+1) is at level ≥ ℓ, while the cell below it (lower certainty, (i+1, j+1)) and the cell left of it
(lower severity, (i, j)) are both below ℓ.  Equivalently the weight of decision point (i, j) is the sum of the assessment
weights of the levels ℓ with max(S[i+1][j+1], S[i][j]) < ℓ ≤ S[i][j+1]. -/

/-- entry of the scaling matrix, row `i` from the top, column `j`; 0 outside -/
def sAt (S : List (List Nat)) (i j : Nat) : Nat := (S.getD i []).getD j 0

/-- the boundary between certainty rows i+1 and i crosses level ℓ in scaling column j+1, and level ℓ is not yet reached in
    the less severe column j of row i: decision point (i, j) is a corner of the staircase {S ≥ ℓ} -/
def isCorner (S : List (List Nat)) (l i j : Nat) : Bool :=
  decide (l ≤ sAt S i (j + 1)) && decide (sAt S (i + 1) (j + 1) < l) && decide (sAt S i j < l)

/-- weight of decision point (probability row i, severity column j) = Σ_ℓ assessment_weight[ℓ−1] · [corner of level ℓ] -/
def scalingWeight (S : List (List Nat)) (w : List Rat) (i j : Nat) : Rat :=
  ((List.range w.length).map fun l0 => if isCorner S (l0 + 1) i j then w.getD l0 0 else 0).sum

/-- the 0/1 matrix of the corner points of level ℓ -/
def cornerMatrix (S : List (List Nat)) (l : Nat) : List (List Rat) :=
  (List.range (S.length - 1)).map fun i => (List.range ((S.headD []).length - 1)).map fun j =>
    if isCorner S l i j then 1 else 0

/-- the whole weight matrix, rows in decreasing probability -/
def scalingWeights (S : List (List Nat)) (w : List Rat) : List (List Rat) :=
  (List.range (S.length - 1)).map fun i => (List.range ((S.headD []).length - 1)).map fun j => scalingWeight S w i j

/-- the documented domain of `weights_from_warning_scaling` for the scaling matrix (its `Raises:` list): first column and last
    row 0, non-decreasing along rows, non-increasing down columns, at least as many assessment weights as the highest level -/
def scalingDocDomain (S : List (List Nat)) (nw : Nat) : Prop :=
  (∀ i < S.length, sAt S i 0 = 0) ∧
  (∀ j < (S.headD []).length, sAt S (S.length - 1) j = 0) ∧
  (∀ i < S.length, ∀ j < (S.headD []).length, j + 1 < (S.headD []).length → sAt S i j ≤ sAt S i (j + 1)) ∧
  (∀ i < S.length, i + 1 < S.length → ∀ j < (S.headD []).length, sAt S (i + 1) j ≤ sAt S i j) ∧
  S.flatten.foldl Nat.max 0 ≤ nw

instance (S : List (List Nat)) (nw : Nat) : Decidable (scalingDocDomain S nw) := by
  unfold scalingDocDomain; infer_instance

/-- the domain on which the Appendix-B loop of `_scaling_to_weight_matrix` returns the corner weights: the documented domain
    AND no more probability thresholds than assessment weights (`lowest_prob_index` starts at `max_level + 1`, a LEVEL count,
    but is compared with ROW indices — notes/C12.md N1) -/
def scalingDomain (S : List (List Nat)) (nw : Nat) : Prop := scalingDocDomain S nw ∧ S.length - 1 ≤ nw

instance (S : List (List Nat)) (nw : Nat) : Decidable (scalingDomain S nw) := by
  unfold scalingDomain; infer_instance

/-- what the loop returns on the whole documented domain: the corner weights, but only for the `nw` lowest probability
    thresholds (row i has height `S.length − 1 − i` counted from the bottom); higher rows are left 0 -/
def scalingWeightsCut (S : List (List Nat)) (w : List Rat) : List (List Rat) :=
  (List.range (S.length - 1)).map fun i => (List.range ((S.headD []).length - 1)).map fun j =>
    if S.length - 1 - i ≤ w.length then scalingWeight S w i j else 0

/-! the warning service a scaling matrix encodes (Taggart & Wilke 2024): severity category j with forecast probability f_j
falls in the certainty row = first row i from the top whose lower probability threshold `probs[i]` is reached (`probs` in
decreasing order, one per row except the bottom row, which is reached by every probability); the warning level of that
category is the entry of S there, and the level issued is the highest over the categories -/

def certaintyRow (lower : Bool) (probs : List Rat) (f : Rat) : Nat :=
  (probs.findIdx? fun p => decide (above lower f p)).getD probs.length

def warnLevel (S : List (List Nat)) (lower : Bool) (probs fs : List Rat) : Nat :=
  ((List.range fs.length).map fun j => sAt S (certaintyRow lower probs (fs.getD j 0)) (j + 1)).foldl Nat.max 0

/-! ### FIRM on the extended reals (C12 round 5): forecasts, observations and thresholds that are +∞ or −∞

A forecast "above every category", an observation off the scale, a station whose top category can never occur (threshold
+∞) are legal float inputs.  The stated expression  w · (1 − α) · scale(d, t − o) · 1[false alarm]  (resp. α, o − t, miss)
is evaluated in the extended-real arithmetic of `Fl` (comparisons with ±∞ as in IEEE, `0 · ∞ = nan`, `∞ − ∞ = nan`):

* without discounting (scale = 1) it is defined for every non-NaN forecast / observation / threshold: the penalty or 0;
* with discounting the PRODUCT with the 0/1 indicator is undefined (`nan`) where the one-sided distance is infinite on the
  side that is not penalised (e.g. obs = +∞ makes t − o = −∞ although no false alarm is possible).  `product := false`
  gives the DECISION form (`if false alarm then (1 − α) · scale else 0`), which differs from the product form exactly there
  (and agrees with it on all finite inputs: `Props/C12.lean` §6). -/

def falseAlarmX (lower : Bool) (f o t : Fl) : Bool :=
  if lower then Fl.le o t && Fl.lt t f else Fl.lt o t && Fl.le t f
def missX (lower : Bool) (f o t : Fl) : Bool :=
  if lower then Fl.le f t && Fl.lt t o else Fl.lt f t && Fl.le t o

/-- min(signed distance, discount distance) in `Fl` -/
def scaleX (d : Disc) (x : Fl) : Fl :=
  match d with
  | .off => Fl.fin 1
  | .dist d => Fl.min x (Fl.fin d)
  | .inf => x

def anyNan3 (f o t : Fl) : Bool := f.isNan || o.isNan || t.isNan

def overX (product lower : Bool) (d : Disc) (α : Rat) (f o t : Fl) : Fl :=
  if anyNan3 f o t then Fl.nan
  else if product then Fl.mul (Fl.mul (Fl.fin (1 - α)) (scaleX d (Fl.sub t o))) (Fl.ofBool (falseAlarmX lower f o t))
  else if falseAlarmX lower f o t then Fl.mul (Fl.fin (1 - α)) (scaleX d (Fl.sub t o)) else Fl.fin 0

def underX (product lower : Bool) (d : Disc) (α : Rat) (f o t : Fl) : Fl :=
  if anyNan3 f o t then Fl.nan
  else if product then Fl.mul (Fl.mul (Fl.fin α) (scaleX d (Fl.sub o t))) (Fl.ofBool (missX lower f o t))
  else if missX lower f o t then Fl.mul (Fl.fin α) (scaleX d (Fl.sub o t)) else Fl.fin 0

def singleX (product lower : Bool) (d : Disc) (α : Rat) (f o t : Fl) : Fl :=
  Fl.add (overX product lower d α f o t) (underX product lower d α f o t)

/-- Σ_j w_j · x_j in `Fl` -/
def wsumX (comp : Fl → Fl) (tw : List (Fl × Fl)) : Fl :=
  tw.foldl (fun acc p => Fl.add acc (Fl.mul p.2 (comp p.1))) (Fl.fin 0)

/-- (firm, over, under) at one case for ANY `Fl` forecast / observation / thresholds / weights -/
def firmCaseX (product lower : Bool) (dfl : Fl) (α : Rat) (f o : Fl) (tw : List (Fl × Fl)) : Fl × Fl × Fl :=
  match Disc.ofFl dfl with
  | some d => (wsumX (singleX product lower d α f o) tw, wsumX (overX product lower d α f o) tw,
               wsumX (underX product lower d α f o) tw)
  | none => (Fl.nan, Fl.nan, Fl.nan)

end SV.Spec.Firm
