/-
  Spec for C19: the published estimators (Harvey, Leybourne & Newbold 1997, eqs. (3), (5), (9)) written with
  explicit index sums in exact rationals.  Core Lean only.

      d̄      = (1/n) Σ_{t<n} d_t
      γ̂_k    = (1/n) Σ_{t=k}^{n-1} (d_t − d̄)(d_{t−k} − d̄)          (biased autocovariance at lag k)
      V̂(d̄)   = (1/n) (γ̂_0 + 2 Σ_{k=1}^{h−1} γ̂_k)
      S₁      = d̄ / sqrt(V̂)                                         (NaN when V̂ ≤ 0)
      S₁*     = sqrt((n + 1 − 2h + h(h−1)/n) / n) · S₁
-/
namespace SV.Spec.DM

def at' (d : List Rat) (i : Nat) : Rat := d.getD i 0

def mean (d : List Rat) : Rat := ((List.range d.length).map (at' d)).sum / (d.length : Int)

/-- biased autocovariance at lag `k` -/
def gammaHat (d : List Rat) (k : Nat) : Rat :=
  ((List.range (d.length - k)).map fun i => (at' d (i + k) - mean d) * (at' d i - mean d)).sum / (d.length : Int)

/-- V̂(d̄), eq. (5) -/
def vHat (d : List Rat) (h : Nat) : Rat :=
  (gammaHat d 0 + 2 * ((List.range (h - 1)).map fun j => gammaHat d (j + 1)).sum) / (d.length : Int)

/-- small-sample factor, eq. (9) (the square of the multiplier of S₁) -/
def hlnFactor (n h : Nat) : Rat :=
  (((n : Int) : Rat) + 1 - 2 * ((h : Int) : Rat) + ((h : Int) : Rat) * (((h : Int) : Rat) - 1) / ((n : Int) : Rat)) / ((n : Int) : Rat)

end SV.Spec.DM
