/-
  Spec for C19: the published estimators (Harvey, Leybourne & Newbold 1997, eqs. (3), (5), (9)) written with
  explicit index sums in exact rationals.  Core Lean only.

      d̄      = (1/n) Σ_{t<n} d_t
      γ̂_k    = (1/n) Σ_{t=k}^{n-1} (d_t − d̄)(d_{t−k} − d̄)          (biased autocovariance at lag k)
      V̂(d̄)   = (1/n) (γ̂_0 + 2 Σ_{k=1}^{h−1} γ̂_k)
      S₁      = d̄ / sqrt(V̂)                                         (NaN when V̂ ≤ 0)
      S₁*     = sqrt((n + 1 − 2h + h(h−1)/n) / n) · S₁
-/
namespace SV.Spec.DM

def at' (d : List Rat) (i : Nat) : Rat := d.getD i 0

def mean (d : List Rat) : Rat := ((List.range d.length).map (at' d)).sum / (d.length : Int)

/-- biased autocovariance at lag `k` -/
def gammaHat (d : List Rat) (k : Nat) : Rat :=
  ((List.range (d.length - k)).map fun i => (at' d (i + k) - mean d) * (at' d i - mean d)).sum / (d.length : Int)

/-- V̂(d̄), eq. (5) -/
def vHat (d : List Rat) (h : Nat) : Rat :=
  (gammaHat d 0 + 2 * ((List.range (h - 1)).map fun j => gammaHat d (j + 1)).sum) / (d.length : Int)

/-- small-sample factor, eq. (9) (the square of the multiplier of S₁) -/
def hlnFactor (n h : Nat) : Rat :=
  (((n : Int) : Rat) + 1 - 2 * ((h : Int) : Rat) + ((h : Int) : Rat) * (((h : Int) : Rat) - 1) / ((n : Int) : Rat)) / ((n : Int) : Rat)

/-! Hering & Genton (2011): spectral density at frequency 0 from the fitted exponential covariance model
    C(k) = σ² exp(−3k/θ) = σ² ρ^k with ρ = exp(−3/θ) (`exp` is uninterpreted: the harness passes ρ),

      f̂(0) = C(0) + 2 Σ_{k=1}^{n−1} C(k)      over ALL lags 0 … n−1 of the (NaN-free) series of length n,
      S_HG  = d̄ / sqrt(f̂(0) / n).

    The parameters (σ, θ) come from scipy's least-squares fit, which is NOT modelled: these definitions say what the
    statistic is GIVEN the parameters. -/

/-- C(0) + 2 Σ_{k=1}^{m−1} C(k): the two-sided sum of the model autocovariances over the lags 0 … m−1 -/
def hgDensityLags (sigmaSq rho : Rat) (m : Nat) : Rat :=
  sigmaSq * (1 + 2 * ((List.range (m - 1)).map fun j => rho ^ (j + 1)).sum)

/-- the HG density estimate of a series of length `n`: every lag 0 … n−1 -/
def hgDensity (sigmaSq rho : Rat) (n : Nat) : Rat := hgDensityLags sigmaSq rho n

/-- the square of the HG statistic of the series `d` (its sign is the sign of the mean): d̄² · n / f̂(0) -/
def hgStatSq (d : List Rat) (sigmaSq rho : Rat) : Rat :=
  mean d ^ 2 * (d.length : Int) / hgDensity sigmaSq rho d.length

end SV.Spec.DM
