/-
  Spec for C06 — the CRPS of an ensemble as an exact integral.

  CRPS(F_ens, y) = ∫ (F_ens(t) − 1{t ≥ y})² dt, with F_ens the empirical CDF of the (non-missing)
  members.  The integrand is a right-continuous step function whose jumps lie in members ∪ {y}; it
  vanishes outside the hull of these points.  Its integral is therefore computed *exactly* by the
  step-function calculus below: sort the distinct break points, and add (width of the cell) × (value
  on the cell).  Short executable definitions over `Rat`, core Lean only.
-/
import ScoresVerif.Model.Fl

namespace SV.Spec.CrpsEns
open SV

/-- insert into a strictly increasing list (duplicates dropped) -/
def insertU (a : Rat) : List Rat → List Rat
  | [] => [a]
  | b :: l => if a < b then a :: b :: l else if a = b then b :: l else b :: insertU a l

/-- the strictly increasing list of the distinct values of `pts` -/
def grid (pts : List Rat) : List Rat := pts.foldr insertU []

/-- ∫ of a step function that is constant = `f p` on every cell `[p, q)` of consecutive grid points
    (right-continuous convention) -/
def stepIntegral (f : Rat → Rat) : List Rat → Rat
  | p :: q :: rest => (q - p) * f p + stepIntegral f (q :: rest)
  | _ => 0

/-- the same for a left-continuous step function: constant = `f q` on `(p, q]` -/
def stepIntegralLeft (f : Rat → Rat) : List Rat → Rat
  | p :: q :: rest => (q - p) * f q + stepIntegralLeft f (q :: rest)
  | _ => 0

/-- empirical CDF of the ensemble: fraction of members ≤ t -/
def ecdf (xs : List Rat) (t : Rat) : Rat := ((xs.filter (fun x => decide (x ≤ t))).length : Rat) / (xs.length : Rat)

/-- CDF of the observation: 1{t ≥ y} -/
def heaviside (y t : Rat) : Rat := if y ≤ t then 1 else 0

/-- the CRPS integrand (F_ens(t) − 1{t ≥ y})² -/
def integrand (xs : List Rat) (y t : Rat) : Rat := (ecdf xs t - heaviside y t) ^ 2

/-- **the CRPS of the empirical distribution**: ∫ (F_ens − H_y)² over the hull of members ∪ {y} -/
def crpsIntegral (xs : List Rat) (y : Rat) : Rat :=
  stepIntegral (integrand xs y) (grid (y :: xs))

/-- Σ_i Σ_j |x_i − x_j| -/
def pairSum (xs : List Rat) : Rat :=
  (xs.map fun a => (xs.map fun b => rabs (a - b)).sum).sum

/-- the documented difference between the 'ecdf' and the 'fair' normalisation:
    spread/(2M(M−1)) − spread/(2M²) = spread / (2M²(M−1)) -/
def fairOffset (xs : List Rat) : Rat :=
  pairSum xs / (2 * (xs.length : Rat) ^ 2 * ((xs.length : Rat) - 1))

/-- threshold weight 1 on `[a, b)` (missing end = unbounded), 0 elsewhere -/
def weightOn (a b : Option Rat) (t : Rat) : Rat :=
  if (match a with | some a => decide (a ≤ t) | none => true) &&
     (match b with | some b => decide (t < b) | none => true) then 1 else 0

def optPts (a b : Option Rat) : List Rat :=
  (match a with | some a => [a] | none => []) ++ (match b with | some b => [b] | none => [])

/-- threshold-weighted CRPS ∫ w(t) (F_ens − H_y)² dt for the interval weight -/
def twIntegral (a b : Option Rat) (xs : List Rat) (y : Rat) : Rat :=
  stepIntegral (fun t => weightOn a b t * integrand xs y t) (grid (optPts a b ++ y :: xs))

/-- Brier score of the ensemble for the event "value ≥ θ" -/
def eventFrac (xs : List Rat) (θ : Rat) : Rat :=
  ((xs.filter (fun x => decide (θ ≤ x))).length : Rat) / (xs.length : Rat)

def brier (xs : List Rat) (y θ : Rat) : Rat := (eventFrac xs θ - (if θ ≤ y then 1 else 0)) ^ 2

/-- fair correction i(m−i)/(m²(m−1)), 0 for a single member -/
def brierFairCorr (xs : List Rat) (θ : Rat) : Rat :=
  let m : Rat := xs.length
  let i : Rat := (xs.filter (fun x => decide (θ ≤ x))).length
  if xs.length ≤ 1 then 0 else i * (m - i) / (m ^ 2 * (m - 1))

/-- ∫ Brier(θ) dθ over the hull (θ ↦ Brier is left-continuous) -/
def brierIntegral (fair : Bool) (xs : List Rat) (y : Rat) : Rat :=
  stepIntegralLeft (fun θ => brier xs y θ - (if fair then brierFairCorr xs θ else 0)) (grid (y :: xs))

/-! ### lifting to `Fl` inputs: NaN members are missing; no members or a missing obs give NaN -/

def finVals : List Fl → List Rat
  | [] => []
  | Fl.fin q :: l => q :: finVals l
  | _ :: l => finVals l

def crpsEcdfFl (xs : List Fl) (y : Fl) : Fl :=
  match y with
  | Fl.fin q => if (finVals xs).isEmpty then Fl.nan else Fl.fin (crpsIntegral (finVals xs) q)
  | _ => Fl.nan

def crpsFairFl (xs : List Fl) (y : Fl) : Fl :=
  match y with
  | Fl.fin q =>
    if (finVals xs).length ≤ 1 then Fl.nan
    else Fl.fin (crpsIntegral (finVals xs) q - fairOffset (finVals xs))
  | _ => Fl.nan

end SV.Spec.CrpsEns
