/-
  Spec for C07: the threshold-weighted CRPS of a CDF forecast as an exact integral — core Lean only.

  On the common grid `x_0 < … < x_n` (all forecast, observation, weight and additional thresholds) the
  forecast CDF `F` is the continuous piecewise-linear function through its ordinates, the weight `w`
  is the right-continuous step function `w(x) = w_k` on `[x_k, x_{k+1})`, and the observation CDF is
  `H(x) = 1{x ≥ obs}`; `obs` is a grid point, so `H` is constant on every open cell.  The integrand
  `w·(F − H)²` is a quadratic polynomial on each cell, so Simpson's rule on the cell IS its integral
  (`Lemmas/CrpsCdf.simpson_quadratic`).
-/
import ScoresVerif.Spec.Cdf

namespace SV.Spec.CrpsCdf
open SV SV.Fl SV.Spec.Cdf

/-- Simpson's rule on `[a, b]` -/
def simpson (g : Rat → Rat) (a b : Rat) : Rat := (b - a) / 6 * (g a + 4 * g ((a + b) / 2) + g b)

/-- the linear function through `(a, fa)`, `(b, fb)` -/
def lin (a b fa fb x : Rat) : Rat := fa + (fb - fa) * (x - a) / (b - a)

/-- `∫_a^b (F(x) − h)² dx` for the linear `F` through `(a, fa)`, `(b, fb)` -/
def cellSq (a b fa fb h : Rat) : Rat := simpson (fun x => (lin a b fa fb x - h) * (lin a b fa fb x - h)) a b

/-- trapezoid rule on one cell -/
def cellTrap (a b ga gb : Rat) : Rat := (b - a) * (ga + gb) / 2

structure Parts where
  total : Rat
  under : Rat
  over : Rat

/-- cell sums of the exact integral: cell `[x_k, x_{k+1}]` carries weight `w_k`; it belongs to the
    under-forecast part when it lies left of the observation (`H = 0`), to the over-forecast part when it
    lies right of it (`H = 1`) -/
def exactParts (obs : Rat) : List Rat → List Rat → List Rat → Parts
  | x0 :: x1 :: xs, f0 :: f1 :: fs, w0 :: ws =>
      let r := exactParts obs (x1 :: xs) (f1 :: fs) ws
      if x1 ≤ obs then
        let c := w0 * cellSq x0 x1 f0 f1 0
        { total := c + r.total, under := c + r.under, over := r.over }
      else
        let c := w0 * cellSq x0 x1 f0 f1 1
        { total := c + r.total, under := r.under, over := c + r.over }
  | _, _, _ => { total := 0, under := 0, over := 0 }

/-- the integrand at a grid point: `w_k (F_k − 1{x_k ≥ obs})²` -/
def brierAt (obs x f w : Rat) : Rat := let h : Rat := if obs ≤ x then 1 else 0; w * ((f - h) * (f - h))

/-- trapezoid sums of the integrand sampled at the grid points; `over` samples `H·w·(F−H)²` -/
def trapzParts (obs : Rat) : List Rat → List Rat → List Rat → Parts
  | x0 :: x1 :: xs, f0 :: f1 :: fs, w0 :: w1 :: ws =>
      let r := trapzParts obs (x1 :: xs) (f1 :: fs) (w1 :: ws)
      let t := cellTrap x0 x1 (brierAt obs x0 f0 w0) (brierAt obs x1 f1 w1)
      let o := cellTrap x0 x1 (if obs ≤ x0 then brierAt obs x0 f0 w0 else 0) (if obs ≤ x1 then brierAt obs x1 f1 w1 else 0)
      { total := t + r.total, under := (t - o) + r.under, over := o + r.over }
  | _, _, _ => { total := 0, under := 0, over := 0 }

/-- all values finite → the rationals -/
def allFin : List Fl → Option (List Rat)
  | [] => some []
  | fin q :: xs => (allFin xs).map (q :: ·)
  | _ :: _ => none

structure Result where
  grid : List Rat
  f : List Fl
  w : List Fl
  parts : Option Parts

/-- the whole statement for one forecast case.  `others` are the other observation values of the
    array (they only refine the grid).  The forecast / weight are filled at the added grid points by
    the documented fill method (`Spec.Cdf.fillRow`, at least two given points); with `propagate` any
    NaN ordinate blanks the case.  `parts = none` means "NaN". -/
def crps (fthr : List Rat) (frow : List Fl) (obs : Fl) (others : List Rat) (wt : Option (List Rat × List Fl))
    (additional : List Rat) (propagate : Bool) (fillF fillW integ : String) : Result :=
  let wthr := match wt with | some w => w.1 | none => []
  let obsq := match obs with | fin q => [q] | _ => []
  let grid := union (union (union wthr fthr) (union obsq others)) additional
  let frow := if propagate && frow.any Fl.isNan then frow.map (fun _ => nan) else frow
  let f := addRow fthr frow grid fillF 2
  let w := match wt with
    | none => grid.map (fun _ => fin 1)
    | some w =>
      let r := if propagate && w.2.any Fl.isNan then w.2.map (fun _ => nan) else w.2
      addRow w.1 r grid fillW 2
  let parts := match obs, allFin f, allFin w with
    | fin q, some fq, some wq => some (if integ = "exact" then exactParts q grid fq wq else trapzParts q grid fq wq)
    | _, _, _ => none
  { grid := grid, f := f, w := w, parts := parts }

end SV.Spec.CrpsCdf
