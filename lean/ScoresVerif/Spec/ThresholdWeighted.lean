/-
  Spec/ThresholdWeighted — the mathematics of C10, by hand over exact rationals (core Lean only).

  * threshold weights: rectangular 1[a,b) and trapezoidal (0 below a, linear up to 1 at b, 1 on [b,c), linear down
    to 0 at d);
  * elementary (Murphy) scores S_θ(x, y) of the quantile, expectile and Huber functionals, in the half-open
    form used by `scores.continuous.murphy_score` (over-forecast region y ≤ θ < x, under-forecast x ≤ θ < y);
  * the threshold-weighted scores AS INTEGRALS  ∫ w(θ)·S_θ(x,y) dθ  over [min(x,y), max(x,y)] (S_θ vanishes outside),
    with the normalisation constants of the public functions;
  * the standard scoring functions they reduce to when w ≡ 1.
-/
import ScoresVerif.Spec.Quad
import ScoresVerif.Model.Fl

namespace SV.Spec.TW
open SV.Spec.Quad

def rabs (q : Rat) : Rat := if q < 0 then -q else q

/-! ### threshold weights -/

/-- rectangular weight: 1 on [a, b), else 0 -/
def wRect (a b θ : Rat) : Rat := if a ≤ θ ∧ θ < b then 1 else 0

/-- trapezoidal weight -/
def wTrap (a b c d θ : Rat) : Rat :=
  if θ < a then 0 else if θ < b then (θ - a) / (b - a) else if θ < c then 1
  else if θ < d then (d - θ) / (d - c) else 0

/-- weight that is 1 everywhere -/
def wOne (_ : Rat) : Rat := 1

/-! weights whose end points may be infinite (`Fl.ninf` / `Fl.pinf` = no restriction on that side) -/

def wRectE (a b : Fl) (θ : Rat) : Rat := if Fl.le a (Fl.fin θ) && Fl.lt (Fl.fin θ) b then 1 else 0

/-- 0 below a, linear on [a,b), 1 from b on; an infinite end point (only (−∞,−∞) is admissible) means 1 everywhere -/
def rampUp (a b : Fl) (θ : Rat) : Rat :=
  match a, b with
  | Fl.fin a, Fl.fin b => if θ < a then 0 else if θ < b then (θ - a) / (b - a) else 1
  | _, _ => 1

/-- 1 below c, linear on [c,d), 0 from d on; an infinite end point (only (+∞,+∞) is admissible) means 1 everywhere -/
def rampDown (c d : Fl) (θ : Rat) : Rat :=
  match c, d with
  | Fl.fin c, Fl.fin d => if θ < c then 1 else if θ < d then (d - θ) / (d - c) else 0
  | _, _ => 1

def wTrapE (a b c d : Fl) (θ : Rat) : Rat := rmin (rampUp a b θ) (rampDown c d θ)

/-- the finite end points (kinks of the weight) -/
def finKinks : List Fl → List Rat
  | [] => []
  | Fl.fin q :: rest => q :: finKinks rest
  | _ :: rest => finKinks rest

/-! ### elementary scores (x = forecast, y = observation, θ = decision threshold) -/

def elemQuantile (α x y θ : Rat) : Rat :=
  if y ≤ θ ∧ θ < x then 1 - α else if x ≤ θ ∧ θ < y then α else 0

def elemExpectile (α x y θ : Rat) : Rat :=
  if y ≤ θ ∧ θ < x then (1 - α) * rabs (y - θ) else if x ≤ θ ∧ θ < y then α * rabs (y - θ) else 0

def elemHuber (α h x y θ : Rat) : Rat :=
  if y ≤ θ ∧ θ < x then (1 - α) * rmin (θ - y) h else if x ≤ θ ∧ θ < y then α * rmin (y - θ) h else 0

/-! ### threshold-weighted scores as integrals of weight × elementary score.
    `kinks` = the kinks of the weight ([a,b] or [a,b,c,d]); the Huber integrand has the further kinks y ± h. -/

def lo (x y : Rat) : Rat := rmin x y
def hi (x y : Rat) : Rat := rmax x y

def intQuantile (w : Rat → Rat) (kinks : List Rat) (α x y : Rat) : Rat :=
  integral (fun θ => w θ * elemQuantile α x y θ) (lo x y) (hi x y) kinks

def intExpectile (w : Rat → Rat) (kinks : List Rat) (α x y : Rat) : Rat :=
  integral (fun θ => w θ * elemExpectile α x y θ) (lo x y) (hi x y) kinks

def intHuber (w : Rat → Rat) (kinks : List Rat) (α h x y : Rat) : Rat :=
  integral (fun θ => w θ * elemHuber α h x y θ) (lo x y) (hi x y) (kinks ++ [y - h, y + h])

/-- the five public scores (per forecast case), with their normalisations -/
def twQuantile (w : Rat → Rat) (kinks : List Rat) (α x y : Rat) : Rat := intQuantile w kinks α x y
def twAbsoluteError (w : Rat → Rat) (kinks : List Rat) (x y : Rat) : Rat := 2 * intQuantile w kinks (1 / 2) x y
def twExpectile (w : Rat → Rat) (kinks : List Rat) (α x y : Rat) : Rat := 2 * intExpectile w kinks α x y
def twSquaredError (w : Rat → Rat) (kinks : List Rat) (x y : Rat) : Rat := 4 * intExpectile w kinks (1 / 2) x y
def twHuber (w : Rat → Rat) (kinks : List Rat) (h x y : Rat) : Rat := 2 * intHuber w kinks (1 / 2) h x y

/-! ### the unweighted scoring functions -/

def squaredError (x y : Rat) : Rat := (x - y) * (x - y)
def absoluteError (x y : Rat) : Rat := rabs (x - y)
/-- pinball / quantile loss, as `scores.continuous.quantile_score` -/
def pinball (α x y : Rat) : Rat := if y < x then (1 - α) * (x - y) else α * (y - x)
/-- asymmetric squared loss (expectile score) -/
def asymSquared (α x y : Rat) : Rat := if y < x then (1 - α) * ((x - y) * (x - y)) else α * ((x - y) * (x - y))
/-- Huber loss with transition parameter h -/
def huberLoss (h x y : Rat) : Rat :=
  if rabs (x - y) ≤ h then (x - y) * (x - y) / 2 else h * (rabs (x - y) - h / 2)

end SV.Spec.TW
