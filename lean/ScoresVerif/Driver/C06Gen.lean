/- driver op that runs the REGENERATED per-case code of crps_for_ensemble (Gen/CrpsEns.lean) — kept apart from Driver/C06.lean so
   that the hand-model driver does not depend on a regenerated module -/
import ScoresVerif.Driver.Proto
import ScoresVerif.Gen.CrpsEns

namespace SV.Driver.C06Gen
open Lean SV SV.Proto

/-- one case through the regenerated code: members `xs`, obs `y`, method string; optional chaining: kind ∈ plain / upper / lower /
    interval with thresholds t / a, b (the regenerated chaining functions applied to members and obs, as tw_crps_for_ensemble does) -/
def opGenCase : Op := fun j => do
  let xs ← fFlList j "xs"; let y ← fFl j "y"; let m ← fStr j "method"; let kind ← fStr j "kind"
  let v ← match kind with
    | "plain" => pure (fun (x : Fl) => x)
    | "upper" => do let t ← fFl j "t"; pure (SV.Gen.CrpsEns.gen_chain_upper t)
    | "lower" => do let t ← fFl j "t"; pure (SV.Gen.CrpsEns.gen_chain_lower t)
    | "interval" => do let a ← fFl j "a"; let b ← fFl j "b"; pure (SV.Gen.CrpsEns.gen_chain_interval a b)
    | s => throw s!"bad kind {s}"
  let comps := SV.Gen.CrpsEns.gen_crps_components m (xs.map v) (v y)
  pure <| outObj ([("total_only", outFl (SV.Gen.CrpsEns.gen_crps_total m (xs.map v) (v y)))] ++ comps.map (fun p => (p.1, outFl p.2)))

def ops : OpTable := [("c06.gen_case", opGenCase)]

end SV.Driver.C06Gen
