/- driver ops for the C13 oracle: ONLY the hand-written Spec (no translated code), so the oracle stays
   available when a change of the source breaks the translated model -/
import ScoresVerif.Driver.Proto
import ScoresVerif.Spec.Brier

namespace SV.Driver.C13Spec
open Lean SV SV.Proto

def optFlList (j : Json) (k : String) : R (Option (List Fl)) :=
  match fieldOpt j k with
  | none => pure none
  | some v => do pure (some (← getFlList v))

/-- the property's definition: per case and threshold, and the weighted mean over cases -/
def opEnsSpec : Op := fun j => do
  let fcst ← fFlMat j "fcst"; let obs ← fFlList j "obs"; let thr ← fFlList j "thresholds"
  let fair ← fBool j "fair"; let w ← optFlList j "weights"
  match Spec.Brier.Rel4.ofName? (← fStr j "op") with
  | none => throw "unknown relation"
  | some r =>
    let cols := thr.map fun t => (fcst.zip obs).map fun (ms, o) => Spec.Brier.ensCase r ms o t fair
    let wcols := cols.map fun col => match w with
      | none => col
      | some ws => List.zipWith Fl.mul col ws
    let perCase := (List.range fcst.length).map fun k => wcols.map fun col => col.getD k Fl.nan
    pure <| outObj [("cases", outFlMat perCase), ("mean", outFlList (cols.map fun c => Spec.Brier.meanOver c w)),
      ("i", Json.arr (thr.map fun t => Json.arr (fcst.map fun ms => outNat (Spec.Brier.eventCount r t ms)).toArray).toArray),
      ("m", Json.arr (fcst.map fun ms => outNat (Spec.Brier.memberCount ms)).toArray)]

def opBrierSpec : Op := fun j => do
  let fs ← fFlList j "fcst"; let os ← fFlList j "obs"; let w ← optFlList j "weights"
  pure <| outObj [("value", outFl (Spec.Brier.brier fs os w)), ("accepted", outBool (Spec.Brier.accepted fs os))]

def ops : OpTable := [("c13.ensspec", opEnsSpec), ("c13.brierspec", opBrierSpec)]

end SV.Driver.C13Spec
