/- driver ops for C14 (ROC: hand model of roc_impl.py / binary_impl.py / discretise.py, counting spec) -/
import ScoresVerif.Driver.Proto
import ScoresVerif.Model.Roc
import ScoresVerif.Spec.Roc

namespace SV.Driver.C14
open Lean SV SV.Proto
open SV.Model.Roc

def getTriple (j : Json) : R Triple := do
  let a ← getArr j
  if a.size != 3 then throw "triple must be [f, o, w|null]"
  let f ← getFl a[0]!; let o ← getFl a[1]!
  let w ← match a[2]! with | Json.null => pure none | v => do pure (some (← getFl v))
  pure ⟨f, o, w⟩

def getTriples (j : Json) (k : String) : R (List Triple) := do getList getTriple (← field j k)

/-- one ROC curve of the model -/
def opModel : Op := fun j => do
  let ps ← getTriples j "triples"; let ts ← fFlList j "thresholds"
  pure <| outObj [("pod", outFlList (ts.map (pod ps))), ("pofd", outFlList (ts.map (pofd ps))), ("auc", outFl (auc ps ts))]

def opRaises : Op := fun j => do
  let ca ← fBool j "check_args"; let f ← fFlList j "f"; let o ← fFlList j "o"; let ts ← fFlList j "thresholds"
  pure (outBool (raises ca f o ts))

/-- the property's own mathematics: POD / POFD by direct counting over the valid pairs, trapezoid area of those
    points, Mann–Whitney statistic -/
def opSpec : Op := fun j => do
  let ps ← getTriples j "triples"
  let ts ← getList getRat (← field j "thresholds")
  let cs := Spec.Roc.clean ps
  let pods := ts.map (Spec.Roc.pod cs); let pofds := ts.map (Spec.Roc.pofd cs)
  let pts : Option (List (Rat × Rat)) := (pofds.zip pods).mapM fun
    | (Fl.fin x, Fl.fin y) => some (x, y)
    | _ => none
  let area := if ts.length < 2 then Fl.fin 0 else match pts with | some p => Fl.fin (Spec.Roc.trapArea p) | none => Fl.nan
  pure <| outObj [("pod", outFlList pods), ("pofd", outFlList pofds), ("auc", outFl area),
                  ("mw", outFl (Spec.Roc.mannWhitney cs)), ("n", outNat cs.length)]

def ops : OpTable := [("c14.model", opModel), ("c14.raises", opRaises), ("c14.spec", opSpec)]

end SV.Driver.C14
