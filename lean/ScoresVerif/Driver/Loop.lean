/-
  Line-protocol loop (tie X): one JSON object per line in  {"op": <name>, "args": {...}},
  one JSON value per line out.  No Mathlib, no proofs: only the executable model.
-/
import ScoresVerif.Driver.Proto
namespace SV.Driver
open Lean SV SV.Proto

def handle (tbl : OpTable) (line : String) : String :=
  match Json.parse line with
  | .error e => (Json.mkObj [("fail", Json.str s!"parse: {e}")]).compress
  | .ok j =>
    match j.getObjVal? "op" >>= Json.getStr? with
    | .error e => (Json.mkObj [("fail", Json.str e)]).compress
    | .ok op =>
      match tbl.lookup op with
      | none => (Json.mkObj [("fail", Json.str s!"unknown op {op}")]).compress
      | some f =>
        let args := (j.getObjVal? "args").toOption.getD Json.null
        match f args with
        | .ok r => r.compress
        | .error e => (Json.mkObj [("fail", Json.str e)]).compress

partial def loop (tbl : OpTable) (h : IO.FS.Stream) (out : IO.FS.Stream) : IO Unit := do
  let line ← h.getLine
  if line.isEmpty then return ()
  let t := line.trimAscii.toString
  if !t.isEmpty then out.putStrLn (handle tbl t)
  loop tbl h out

def run (tbl : OpTable) : IO Unit := do
  let out ← IO.getStdout
  loop tbl (← IO.getStdin) out
  out.flush

end SV.Driver
