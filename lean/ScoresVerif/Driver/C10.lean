/- driver ops for C10: translated g / phi / phi', consistent kernels, wrappers (Gen) inside the hand model of
   `_auxiliary_funcs` (Model); the Spec-only ops are in Driver/C10Spec -/
import ScoresVerif.Driver.Proto
import ScoresVerif.Driver.C10Spec
import ScoresVerif.Gen.ThresholdWeighted
import ScoresVerif.Model.ThresholdWeighted

namespace SV.Driver.C10
open Lean SV SV.Proto
open SV.Gen.ThresholdWeighted

/-- translated auxiliary functions at one point: ends = [a,b] (rect) or [a,b,c,d] (trap, a<b<c<d) -/
def opAux : Op := fun j => do
  let ends ← fFlList j "ends"; let x ← fFl j "x"
  match ends with
  | [a, b] => pure <| outObj [("g", outFl (g_j_rect a b x)), ("phi", outFl (phi_j_rect a b x)),
                              ("phi_prime", outFl (phi_j_prime_rect a b x))]
  | [a, b, c, d] => pure <| outObj [("g", outFl (g_j_trap a b c d x)), ("phi", outFl (phi_j_trap a b c d x)),
                                    ("phi_prime", outFl (phi_j_prime_trap a b c d x))]
  | _ => throw "ends must have length 2 or 4"

/-- a small menu of user-supplied functions for the consistent_* kernels -/
def menuG (name : String) : R (Fl → Fl) :=
  match name with
  | "id" => pure id
  | "cube" => pure fun x => Fl.powNat x 3
  | "step" => pure fun x => Fl.whereB (Fl.ofBool (Fl.ge x (Fl.fin 0))) (Fl.notNan x)
  | "rect" => pure (g_j_rect (Fl.fin 0) (Fl.fin 2))
  | _ => throw s!"unknown g {name}"

def menuPhi (name : String) : R ((Fl → Fl) × (Fl → Fl)) :=
  match name with
  | "sq" => pure (fun x => Fl.powNat x 2, fun x => Fl.mul (Fl.fin 2) x)
  | "quart" => pure (fun x => Fl.powNat x 4, fun x => Fl.mul (Fl.fin 4) (Fl.powNat x 3))
  | "abs" => pure (Fl.abs, fun x => Fl.sub (Fl.whereB (Fl.ofBool (Fl.gt x (Fl.fin 0))) (Fl.notNan x))
                                          (Fl.whereB (Fl.ofBool (Fl.lt x (Fl.fin 0))) (Fl.notNan x)))
  | "rect" => pure (phi_j_rect (Fl.fin 0) (Fl.fin 2), phi_j_prime_rect (Fl.fin 0) (Fl.fin 2))
  | _ => throw s!"unknown phi {name}"

def opCons : Op := fun j => do
  let fn ← fStr j "fn"; let fam ← fStr j "fam"
  let f ← fFl j "fcst"; let o ← fFl j "obs"; let p ← fFl j "param"
  match fn with
  | "quantile" =>
    if check_alpha_raises p then pure (outErr "ValueError") else
    pure <| outFl (consistent_quantile_score f o p (← menuG fam))
  | "expectile" =>
    if check_alpha_raises p then pure (outErr "ValueError") else
    let (phi, phi') ← menuPhi fam
    pure <| outFl (consistent_expectile_score f o p phi phi')
  | "huber" =>
    if check_huber_param_raises p then pure (outErr "ValueError") else
    let (phi, phi') ← menuPhi fam
    pure <| outFl (consistent_huber_score f o p phi phi')
  | _ => throw s!"unknown functional {fn}"

def getCol (rows : List (List Fl)) (i : Nat) : List Fl := rows.map fun r => r.getD i Fl.nan

/-- whole pipeline of the five wrappers on a batch of cases: guards, `_auxiliary_funcs` (validation and
    end-point replacement over the batch), then the translated kernels per case.
    ends: one row of end points per case (2 or 4 columns). -/
def opModel : Op := fun j => do
  let shape ← fStr j "shape"
  let fc ← fFlList j "fcst"; let ob ← fFlList j "obs"
  let ends ← fFlMat j "ends"
  let alpha ← fFl j "alpha"; let h ← fFl j "huber"
  let aErr := check_alpha_raises alpha
  let hErr := check_huber_param_raises h
  let pts := List.zip fc ob
  let fns ← (do
    match shape with
    | "rect" =>
      match Model.TW.auxRect fc ob (getCol ends 0) (getCol ends 1) with
      | .error e => pure (Except.error e)
      | .ok (a, b) =>
        pure <| Except.ok ((List.zip a b).map fun ab =>
          (g_j_rect ab.1 ab.2, phi_j_rect ab.1 ab.2, phi_j_prime_rect ab.1 ab.2), [a, b])
    | "trap" =>
      match Model.TW.auxTrap fc ob (getCol ends 0) (getCol ends 1) (getCol ends 2) (getCol ends 3) with
      | .error e => pure (Except.error e)
      | .ok t =>
        let rows := List.zip (List.zip t.a t.b) (List.zip t.c t.d)
        pure <| Except.ok (rows.map fun r =>
          (g_j_trap r.1.1 r.1.2 r.2.1 r.2.2, phi_j_trap r.1.1 r.1.2 r.2.1 r.2.2,
           phi_j_prime_trap r.1.1 r.1.2 r.2.1 r.2.2), [t.a, t.b, t.c, t.d])
    | _ => throw s!"bad shape {shape}" : R (Except String (List ((Fl → Fl) × (Fl → Fl) × (Fl → Fl)) × List (List Fl))))
  match fns with
  | .error e => pure (outErr e)
  | .ok (fs, newEnds) =>
    let rows := List.zip pts fs
    let col := fun (k : (Fl × Fl) → ((Fl → Fl) × (Fl → Fl) × (Fl → Fl)) → Fl) => outFlList (rows.map fun r => k r.1 r.2)
    pure <| outObj [
      ("ends", outFlMat newEnds),
      ("tw_squared_error", col fun p f => tw_squared_error p.1 p.2 f.2.1 f.2.2),
      ("tw_absolute_error", col fun p f => tw_absolute_error p.1 p.2 f.1),
      ("tw_quantile_score", if aErr then outErr "ValueError" else col fun p f => tw_quantile_score p.1 p.2 alpha f.1),
      ("tw_expectile_score", if aErr then outErr "ValueError" else col fun p f => tw_expectile_score p.1 p.2 alpha f.2.1 f.2.2),
      ("tw_huber_loss", if hErr then outErr "ValueError" else col fun p f => tw_huber_loss p.1 p.2 h f.2.1 f.2.2)]

def ops : OpTable := SV.Driver.C10Spec.ops ++ [("c10.aux", opAux), ("c10.cons", opCons), ("c10.model", opModel)]

end SV.Driver.C10
