/- driver op that runs the REGENERATED `gather_dimensions` (Gen/Dims.lean) — kept apart from Driver/C01.lean, which
   C02–C04 share and which must not depend on a regenerated module -/
import ScoresVerif.Driver.C01
import ScoresVerif.Gen.Dims

namespace SV.Driver.C01Gen
open Lean SV SV.Proto SV.Dims SV.PyDyn SV.Driver.C01

def getV (j : Json) : R V :=
  match j with
  | Json.null => pure V.none
  | Json.str s => pure (V.str s)
  | Json.arr a => do pure (V.list (← a.toList.mapM getStr))
  | _ => throw "bad python value"

def fV (j : Json) (k : String) : R V :=
  match j.getObjVal? k with
  | .ok v => getV v
  | .error _ => pure V.none

def outRun : M V → Json
  | Except.ok (V.list l) => outObj [("ok", outStrList l)]
  | Except.ok V.none => outErr "returned None"
  | Except.ok (V.str _) => outErr "returned str"
  | Except.error (PyErr.value m) => outErr ("ValueError:" ++ m)
  | Except.error PyErr.type_ => outErr "TypeError"
  | Except.error PyErr.assertion => outErr "AssertionError"

def opGenGather : Op := fun j => do
  let fcst ← fV j "fcst"; let obs ← fV j "obs"; let w ← fV j "weights"
  let r ← fV j "reduce"; let p ← fV j "preserve"; let s ← fV j "specific"
  pure (outRun (SV.Gen.Dims.gen_gather_dimensions fcst obs w r p s))

def ops : OpTable := [("c01.gen_gather", opGenGather)]

end SV.Driver.C01Gen
