/- driver ops for C08 (discretisation: translated relation chain, hand array level, hand-written spec;
   contingency counts: translated events + maps summed, direct-count spec) -/
import ScoresVerif.Driver.Proto
import ScoresVerif.Gen.Discretise
import ScoresVerif.Gen.Contingency
import ScoresVerif.Model.C08

namespace SV.Driver.C08
open Lean SV SV.Proto

def getMode (j : Json) : R PyMode := do
  let k ← fStr j "k"
  match k with
  | "str" => pure (PyMode.str (← fStr j "v"))
  | "op" =>
    match PyOp.ofName? (← fStr j "v") with
    | some o => pure (PyMode.op o)
    | none => pure PyMode.other
  | _ => pure PyMode.other

def optFl (j : Json) (k : String) : R (Option Fl) :=
  match fieldOpt j k with
  | none => pure none
  | some v => do pure (some (← getFl v))

def optOp (j : Json) (k : String) : R (Option PyOp) :=
  match fieldOpt j k with
  | none => pure none
  | some v => do
    match PyOp.ofName? (← getStr v) with
    | some o => pure (some o)
    | none => throw "unknown operator"

def getOp (j : Json) (k : String) : R PyOp := do
  match PyOp.ofName? (← fStr j k) with
  | some o => pure o
  | none => throw "unknown operator"

def outExc (r : Except String Json) : Json :=
  match r with
  | .ok v => outObj [("ok", v)]
  | .error e => outErr e

/-- comparative_discretise element-wise over data × comparison (no monotonicity guard) -/
def opCmp : Op := fun j => do
  let data ← fFlList j "data"; let cs ← fFlList j "comparison"
  let mode ← getMode (← field j "mode"); let tol ← optFl j "tol"
  let probe := Gen.Discretise.comparative_discretise Fl.nan Fl.nan mode tol
  pure <| outExc <| match probe with
    | .error e => .error e
    | .ok _ => (data.mapM fun x => cs.mapM fun c => Gen.Discretise.comparative_discretise x c mode tol).map outFlMat

def opBin : Op := fun j => do
  let data ← fFlList j "data"; let cs ← fFlList j "thresholds"
  let mode ← getMode (← field j "mode"); let tol ← optFl j "tol"
  pure <| outExc ((Model.C08.binaryDiscretise data cs mode tol).map outFlMat)

def opProp : Op := fun j => do
  let data ← fFlList j "data"; let cs ← fFlList j "thresholds"
  let mode ← getMode (← field j "mode"); let tol ← optFl j "tol"
  pure <| outExc ((Model.C08.proportion data cs mode tol).map outFlList)

def outTable (t : Model.C08.Table) : List (String × Json) :=
  [("tp", outFl t.tp), ("tn", outFl t.tn), ("fp", outFl t.fp), ("fn", outFl t.fn), ("total", outFl t.total)]

def zipPairs (f o : List Fl) : R (List (Fl × Fl)) :=
  if f.length = o.length then pure (f.zip o) else throw "fcst / obs length differ"

/-- ThresholdEventOperator path: translated events, translated maps, summed -/
def opTable : Op := fun j => do
  let ps ← zipPairs (← fFlList j "fcst") (← fFlList j "obs")
  let thr ← optFl j "thr"; let op ← optOp j "op"
  let dthr ← fFl j "dthr"; let dop ← getOp j "dop"
  let ev := ps.map fun p => Gen.Discretise.events_make_contingency_manager dthr dop p.1 p.2 thr op
  let ev2 := ps.map fun p => Gen.Discretise.events_make_event_tables dthr dop p.1 p.2 thr op
  pure <| outObj (outTable (Model.C08.tableOfThreshold dthr dop ps thr op) ++
    [("fcst_events", outFlList (ev.map Prod.fst)), ("obs_events", outFlList (ev.map Prod.snd)),
     ("fcst_events_tables", outFlList (ev2.map Prod.fst)), ("obs_events_tables", outFlList (ev2.map Prod.snd))])

/-- BinaryContingencyManager on given event arrays -/
def opETable : Op := fun j => do
  let es ← zipPairs (← fFlList j "fcst") (← fFlList j "obs")
  pure <| outObj (outTable (Model.C08.tableOfEvents es) ++
    [("map_tp", outFlList (es.map fun e => Gen.Contingency.map_tp e.1 e.2)),
     ("map_tn", outFlList (es.map fun e => Gen.Contingency.map_tn e.1 e.2)),
     ("map_fp", outFlList (es.map fun e => Gen.Contingency.map_fp e.1 e.2)),
     ("map_fn", outFlList (es.map fun e => Gen.Contingency.map_fn e.1 e.2))])

def ops : OpTable := [("c08.cmp", opCmp), ("c08.bin", opBin), ("c08.prop", opProp),
  ("c08.table", opTable), ("c08.etable", opETable)]

end SV.Driver.C08
